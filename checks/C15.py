# C15 — playback never alters the loaded module.
import os, sys, json, tempfile, shutil
import vcommon as V
sys.path.insert(0, os.path.join(V.VERIF, "gen"))
import modgen, struct

def units(blk, bits):
    if bits == 8: return list(blk)
    return [blk[i] | (blk[i + 1] << 8) for i in range(0, len(blk) - 1, 2)]

def wrap_cases(rng, n):
    cases = []
    for _ in range(n):
        bits = rng.choice((8, 16)); stereo = rng.random() < 0.3; bidir = rng.random() < 0.4; first = rng.random() < 0.4
        interp = rng.choice((0, 1, 1, 2, 2)); loopflag = 0 if rng.random() < 0.1 else 1
        fl = (bits // 8) * (2 if stereo else 1)
        frames = rng.choice((1, 2, 3, 4, 7, 12, 40))
        a = rng.randrange(0, frames); b = rng.randrange(a + 1, frames + 1)
        if rng.random() < 0.5: a, b = rng.choice(((0, frames), (0, 1), (frames - 1, frames), (0, min(2, frames)), (max(0, frames - 2), frames)))
        blk = bytes(rng.randrange(256) for _ in range(4 + (frames + 4) * fl))
        cases.append((bits, stereo, bidir, first, interp, loopflag, a, b, blk))
    return cases

def ev_model(e, smpinfo):
    """driver event -> (model token, ok); smpinfo[i] = (len, lps, lpe, flg)"""
    what, smp, start, end, bidir, first, bits, stereo = e
    if what == 2: return "S"
    if what == 0: return "R"
    ch = 2 if stereo else 1
    base = 4 if bits == 8 else 2
    return "I%d:%d:%d:%d:%d:%d:%d" % (smp, base + start * ch, base + end * ch, ch, 2 * ch, bidir, first)

def main():
    tier = sys.argv[1] if len(sys.argv) > 1 else "quick"
    replay = sys.argv[sys.argv.index("--replay") + 1] if "--replay" in sys.argv else None
    ck = V.Check("C15", tier)
    rng = ck.rng
    ck.proof_leg(["Extract/Extract_wrap.vo"])
    drv = V.build_driver("c15_drv", ["c15_drv.c"])
    model = V.ocaml_build("wrap")
    env = V.san_env()
    stats = {"wrap_cases": 0, "wrap_disagreements": 0, "runs": 0, "api_calls": 0, "patch_events": 0, "invloop_modules": 0, "invloop_bytes_seen": 0, "interp_hist": {}}
    rp = json.load(open(replay)) if replay else None
    # ---- (a) the patch / restore pair itself, through hook H2, against the extracted model
    if not rp or rp.get("engine") == "wrap":
        cases = wrap_cases(rng, 3000 if tier == "quick" else 150000) if not rp else [tuple(rp["case"][:8]) + (bytes.fromhex(rp["case"][8]),)]
        cin = "".join("%d %d %d %d %d %d %d %d %s\n" % (b, st, bd, fs, ip, lf, a, e, blk.hex()) for (b, st, bd, fs, ip, lf, a, e, blk) in cases)
        r = V.run([drv, "wrap"], inp=cin, env=env, timeout=3000)
        cout = r.stdout.split("\n")
        minp = []
        for (b, st, bd, fs, ip, lf, a, e, blk) in cases:
            ch = 2 if st else 1; base = 4 if b == 8 else 2
            minp.append("W %d %d %d %d %d %d | %s" % (base + a * ch, base + e * ch, ch, 2 * ch, bd, fs, " ".join(map(str, units(blk, b)))))
        mo = V.run([model], inp="\n".join(minp) + "\n", timeout=3000).stdout.split("\n")
        if r.returncode != 0:
            k = len([l for l in cout if l])
            c = cases[min(k, len(cases) - 1)]
            ck.violation({"engine": "wrap", "case": list(c[:8]) + [c[8].hex()], "broken": "sanitizer report in init/reset_sample_wraparound (hook H2)", "stderr": r.stderr[-2000:]}, key="c15-wrap-crash")
        for i, c in enumerate(cases):
            if i >= len(cout) or not cout[i]: break
            (b, st, bd, fs, ip, lf, a, e, blk) = c
            ck.count(); stats["wrap_cases"] += 1
            patched, restored = cout[i].split()
            active = ip != 0 and lf
            if not active:
                exp_p = exp_r = blk.hex()
            else:
                if i >= len(mo) or "|" not in mo[i]:
                    exp_p = exp_r = "model:" + (mo[i] if i < len(mo) else "?")
                else:
                    mp, mr = mo[i].split(" | ")
                    def tohex(us): 
                        us = [int(x) for x in us.split()]
                        return bytes(us).hex() if b == 8 else b"".join(bytes((u & 255, u >> 8)) for u in us).hex() + blk.hex()[len(us) * 4:]
                    exp_p, exp_r = tohex(mp), tohex(mr)
            if patched != exp_p or restored != exp_r or restored != blk.hex():
                stats["wrap_disagreements"] += 1
                ck.violation({"engine": "wrap", "case": list(c[:8]) + [blk.hex()], "impl": cout[i], "model": mo[i] if i < len(mo) else None,
                              "what": "restore does not give back the block" if restored != blk.hex() else "patched block differs from the model",
                              "broken": "correspondence Model/Wrap.v vs init/reset_sample_wraparound, or the restore-is-identity clause on the real code"}, key="c15:wrap")
            else:
                ck.nontrivial(("wrap",) + c[:8] + (blk.hex(),))
    # ---- (b) whole playback: snapshot comparison after every API call + the mixer's event log through the protocol checker
    tmpd = tempfile.mkdtemp(prefix="vp-c15-", dir="/var/tmp")
    try:
        jobs = []
        if rp and rp.get("engine") == "play":
            if rp.get("song"):
                fmt = rp.get("format", "mod")
                p = os.path.join(tmpd, "r." + ("mod" if fmt == "modfile" else fmt))
                open(p, "wb").write(bytes.fromhex(rp["song"]["hex"]) if fmt == "modfile" else modgen.WRITERS[fmt](rp["song"])); jobs.append((p, rp["interp"], rp["script"], (fmt, rp["song"])))
            else:
                jobs.append((os.path.join(V.REPO, rp["path"]), rp["interp"], rp["script"], None))
        elif not rp:
            files = [f for f in V.corpus_files() if os.path.getsize(f) < 400000]
            for f in sorted(rng.sample(files, min(len(files), 60 if tier == "quick" else len(files)))):
                jobs.append((f, rng.choice((0, 1, 2)), None, None))
            # sweep: every corpus module, straight playback with an interpolating mixer (sample swaps, extreme periods, key-off /
            # delay combinations and the like live in individual test modules)
            for f in [f for f in V.corpus_files() if os.path.getsize(f) < 4000000]:
                jobs.append((f, rng.choice((1, 2)), "P%d" % (160 if tier == "quick" else 1500), None))
            # generated XMs whose volume envelope has out-of-order / duplicate / extreme nodes, sustain and loop points anywhere
            for i in range(30 if tier == "quick" else 600):
                s = modgen.random_flow_song(rng, "xm", vocab=('speed', 'jump', 'break'), max_orders=3, max_pats=2, density=0.05)
                n = rng.randrange(1, 7)
                s['venv'] = [(rng.choice((0, 1, 5, 10, 10, 20, 300, 65535)), rng.choice((0, 16, 32, 64, 65, 255))) for _ in range(n)]
                s['venv_type'] = rng.choice((1, 3, 5, 7)); s['venv_sus'] = rng.randrange(0, 8); s['venv_lps'] = rng.randrange(0, 8); s['venv_lpe'] = rng.randrange(0, 8)
                p = os.path.join(tmpd, "e%04d.xm" % i); open(p, "wb").write(modgen.write_xm(s)); jobs.append((p, rng.choice((0, 1, 2)), None, ("xm", s)))
            for i in range(24 if tier == "quick" else 400):
                # MOD songs with tiny loops (1-3 words, at the start / end of the sample) and the invert-loop effect
                s = modgen.random_flow_song(rng, "mod", vocab=('speed', 'jump', 'break', 'loop'), max_orders=4, max_pats=3, density=0.05)
                L = len(modgen.SAMPLE) // 2
                s['loop'] = rng.choice(((0, 1), (0, 2), (L - 1, 1), (L - 2, 2), (0, L), (5, 3), (1, 1)))
                for pat in s['patterns']:
                    for r in range(0, 64, rng.choice((4, 8, 16))):
                        pat[r][rng.randrange(4)] = dict(note=rng.randrange(13, 37), ins=1, fx=('raw', (0x0e, 0xf0 | rng.choice((0, 1, 4, 9, 15)))) if rng.random() < 0.7 else None)
                p = os.path.join(tmpd, "g%04d.mod" % i); open(p, "wb").write(modgen.write_mod(s)); jobs.append((p, rng.choice((0, 1, 2)), None, ("mod", s)))
            for i in range(12 if tier == "quick" else 200):
                # two looped samples with different loops; invert loop running on a channel while the instrument changes on a DELAYED note
                # (EDx), by an instrument number without note, or with tone portamento: the bytes invert loop complements must be those of
                # the loop of the sample that is playing
                L = len(modgen.SAMPLE) // 2
                pat = modgen.empty_pattern(64, 4)
                pat[0][0] = dict(note=25, ins=1, fx=('raw', (0x0e, 0xf0 | rng.choice((9, 12, 15)))))
                r = rng.choice((2, 3, 5))
                while r < 60:
                    pat[r][0] = rng.choice((dict(note=rng.choice((20, 27)), ins=rng.choice((1, 2)), fx=('raw', (0x0e, 0xd0 | rng.choice((1, 2, 3))))),
                                            dict(ins=rng.choice((1, 2))), dict(note=22, ins=2, fx=('raw', (0x03, 0x10))), dict(note=24, ins=rng.choice((1, 2)), fx=('raw', (0x0e, 0xf0 | rng.choice((0, 14, 15)))))))
                    r += rng.choice((2, 4, 7))
                s = dict(chn=4, orders=[0], patterns=[pat], speed=rng.choice((3, 6)), bpm=125, restart=0x7f, name="invloop swap", loop=rng.choice(((0, 2), (1, 3), (0, 4))))
                b = bytearray(modgen.write_mod(s))
                lp2 = rng.choice(((L - 6, 6), (12, 5), (L // 2, 3)))
                struct.pack_into(">HBBHH", b, 20 + 30 + 22, L, 0, 64, lp2[0], lp2[1])
                b += bytes((x + 37) & 255 for x in modgen.SAMPLE)
                p = os.path.join(tmpd, "i%04d.mod" % i); open(p, "wb").write(bytes(b)); jobs.append((p, rng.choice((0, 1, 2)), None, ("modfile", {"hex": bytes(b).hex()})))
        lines = []
        for k, (path, interp, script, song) in enumerate(jobs):
            if script is None:
                toks = []
                for _ in range(rng.choice((4, 8, 14))):
                    toks.append("P%d" % rng.choice((1, 3, 10, 40, 120)))
                    toks.append(rng.choice(("SP%d" % rng.randrange(0, 12), "NX", "PV", "SR%d" % rng.choice((0, 5, 31, 63)), "SK%d" % rng.choice((0, 3000, 20000, 90000)), "RS", "IN%d" % rng.choice((0, 1, 2)), "ST")))
                toks.append("P30")
                script = " ".join(toks); jobs[k] = (path, interp, script, song)
            lines.append("%s\t%d\t%s\n" % (path, interp, script))
        r = V.run([drv], inp="".join(lines), env=env, timeout=6000) if lines else None
        blocks = r.stdout.split("ENDRUN\n") if r else []
        pin = []; pmeta = []
        for k, (path, interp, script, song) in enumerate(jobs):
            if k >= len(blocks) or "K " not in blocks[k]: continue
            rep = {"engine": "play", "interp": interp, "script": script}
            if song: rep["format"], rep["song"] = song
            else: rep["path"] = os.path.relpath(path, V.REPO)
            smp = {}; evs = []; diffs = []; inv = 0; calls = 0
            for l in blocks[k].split("\n"):
                w = l.split()
                if not w: continue
                if w[0] == "SMP": smp[int(w[1])] = tuple(int(x) for x in w[2:6])
                elif w[0] == "FX": inv = int(w[2])
                elif w[0] == "E": evs.append(tuple(int(x) for x in w[1:9]))
                elif w[0] == "D": diffs.append((int(w[1]), w[2], int(w[3]), int(w[4]), int(w[5]), int(w[6])))
                elif w[0] == "K": calls = int(w[1])
            ck.count(); stats["runs"] += 1; stats["api_calls"] += calls; stats["patch_events"] += sum(1 for e in evs if e[0] == 1)
            stats["interp_hist"][str(interp)] = stats["interp_hist"].get(str(interp), 0) + 1
            if inv: stats["invloop_modules"] += 1
            bad = None
            for (call, kind, idx, off, old, new) in diffs:
                allowed = False
                if kind == "D" and inv and idx in smp:
                    ln, lps, lpe, flg = smp[idx]
                    if not (flg & 1) and lps <= off <= lpe and new == old ^ 0xff:        # 8-bit sample, inside data[lps..lpe], complemented
                        allowed = True; stats["invloop_bytes_seen"] += 1
                if not allowed:
                    bad = "after API call %d: %s %d offset %d changed from %d to %d" % (call, {"D": "sample data", "S": "sample header", "T": "track", "P": "pattern", "I": "instrument", "U": "sub-instrument", "H": "module header"}.get(kind, kind), idx, off, old, new); break
            if bad:
                ck.violation(dict(rep, what=bad, broken="module data differs from the snapshot taken after loading"), key="c15:changed:" + bad.split(":")[1].split()[0])
                continue
            # protocol: lens in units per sample block
            if evs:
                ns = max([e[1] for e in evs] + [max(smp) if smp else 0]) + 1
                lens = []
                for i in range(ns):
                    if i in smp:
                        ln, lps, lpe, flg = smp[i]; fl16 = 2 if flg & 1 else 1; ch = 2 if flg & 128 else 1      # XMP_SAMPLE_16BIT = 1 << 0, XMP_SAMPLE_STEREO = 1 << 7
                        lens.append((4 + (ln + 4) * fl16 * ch) // fl16)
                    else: lens.append(0)
                if any(e[1] < 0 for e in evs if e[0] == 1):
                    ck.violation(dict(rep, what="a patch on a buffer that is not one of the module's samples", broken="event log"), key="c15:foreign-buffer"); continue
                pin.append("P %s | %s" % (" ".join(map(str, lens)), " ".join(ev_model(e, smp) for e in evs))); pmeta.append(rep)
            ck.nontrivial(("play", rep.get("path") or json.dumps(song, sort_keys=True), interp, script))
        if pin:
            if os.environ.get("VERIF_DEBUG"): open("/var/tmp/c15pin.txt", "w").write("\n".join(pin) + "\n")
            po = V.run([model], inp="\n".join(pin) + "\n", timeout=3000).stdout.split("\n")
            for j, rep in enumerate(pmeta):
                if j >= len(po) or po[j].strip() != "1":
                    ck.violation(dict(rep, what="the mixer's patch/restore event log is not accepted by protocol_okb (a patch over a patch, a window outside the block, or a tick that ends patched): %s" % (po[j] if j < len(po) else "?"),
                                      broken="protocol premise of clean_run_preserves_samples on the real event log"), key="c15:protocol")
        if r and r.returncode != 0:
            k = len(blocks) - 1; path, interp, script, song = jobs[min(k, len(jobs) - 1)]
            ck.violation({"engine": "play", "interp": interp, "script": script, "song": song[1] if song else None, "format": song[0] if song else None, "path": None if song else os.path.relpath(path, V.REPO),
                          "broken": "sanitizer report / crash during playback", "stderr": r.stderr[-2000:]}, key="c15-crash")
    finally:
        shutil.rmtree(tmpd, ignore_errors=True)
    ck.engine_stat("wrap", **stats)
    ck.cov["rule"] = ("(a) init/reset_sample_wraparound called through hook H2 on random blocks: 8/16-bit, mono/stereo, forward/bidir, first pass or not, all three interpolators, loop flag on/off, loops of 1-3 frames at both ends "
                      "(prologue in the front guard, epilogue in the back guard): patched block = extracted wrap_init, restored block = original; "
                      "(b) corpus modules and generated MODs with 1-3 word loops and invert-loop effects under random play / seek / restart / stop / interpolation-change histories: every region reachable from "
                      "xmp_get_module_info (pattern, track, instrument, sub-instrument, sample header, whole sample blocks incl. guards) compared with its snapshot after EVERY API call; the mixer's patch/restore log of the whole run fed to the extracted protocol checker")
    ck.assumptions += ["that the per-voice loop of libxmp_mixer_softmixer emits a well-bracketed patch/restore sequence is checked on the logged events of real runs (protocol_okb), not derived from the code",
                       "invert-loop writes are accepted only as complemented bytes inside data[lps..lpe] of an 8-bit sample of a module that carries the effect"]
    ck.finish()

V.main_wrap(main)
