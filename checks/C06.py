# C06 — rendering is deterministic and contexts are isolated from each other.
import os, sys, json
import vcommon as V

def gen_ops(rng, n, nord=6):
    ops = ["L", "S"]
    while len(ops) < n:
        r = rng.random()
        if r < 0.7: ops.append("P")
        elif r < 0.78: ops.append("SP%d" % rng.randrange(0, nord))
        elif r < 0.84: ops.append(rng.choice(("NX", "PV")))
        elif r < 0.88: ops.append("RS")
        elif r < 0.92: ops.append("M%d" % rng.randrange(0, 4))
        elif r < 0.96: ops.append("V%d" % rng.choice((0, 50, 100, 150)))
        else: ops.append("I%d" % rng.choice((0, 1, 2)))
    return ops

def program(ctxs, sched, mode="RUN"):
    """ctxs: list of (path, rate, fmt, interp, ops); sched: list of ctx indices (one per op, in program order)"""
    out = ["RESET"]
    for i, (p, r, f, ip, ops) in enumerate(ctxs):
        out.append("CTX %d %s %d %d %d" % (i, p, r, f, ip))
    ptr = [0] * len(ctxs)
    for i in sched:
        out.append("OP %d %s" % (i, ctxs[i][4][ptr[i]])); ptr[i] += 1
    out.append(mode)
    return "\n".join(out) + "\n"

def parse(out):
    """-> list of runs, each {ctx: [ (op, ret, digest) ... ]}"""
    runs = []; cur = {}
    for l in out.split("\n"):
        if l == "DONE":
            runs.append(cur); cur = {}
        elif l.startswith("O "):
            w = l.split(); cur.setdefault(int(w[1]), []).append((w[3], w[4], w[5]))
    return runs

def main():
    tier = sys.argv[1] if len(sys.argv) > 1 else "quick"
    replay = sys.argv[sys.argv.index("--replay") + 1] if "--replay" in sys.argv else None
    ck = V.Check("C06", tier)
    rng = ck.rng
    ck.proof_leg(["Extract/Extract_isolation.vo"])
    drv = V.build_driver("c06_drv", ["c06_drv.c"])
    model = V.ocaml_build("isolation")
    env = V.san_env()
    files = [f for f in V.corpus_files() if os.path.getsize(f) < 300000 and " " not in f and "\t" not in f]
    stats = {"trials": 0, "exhaustive_interleavings": 0, "random_interleavings": 0, "thread_runs": 0, "history_runs": 0, "ops_compared": 0, "solo_repeat_runs": 0}
    trials = []
    if replay:
        rp = json.load(open(replay)); trials = [[(os.path.join(V.REPO, c[0]),) + tuple(c[1:4]) + (c[4],) for c in rp["contexts"]]]
    else:
        for _ in range(10 if tier == "quick" else 150):
            k = rng.choice((2, 2, 3))
            trials.append([(rng.choice(files), rng.choice((8000, 22050, 44100)), rng.choice((0, 0, 4, 1, 5)), rng.choice((0, 1, 2)), gen_ops(rng, rng.choice((5, 6)) if j < 2 else 12)) for j in range(k)])
    for ctxs in trials:
        stats["trials"] += 1
        rep = {"contexts": [[os.path.relpath(c[0], V.REPO), c[1], c[2], c[3], c[4]] for c in ctxs]}
        # reference: each context alone, in its own process (twice: determinism of the solo run itself)
        solo = []
        for i, c in enumerate(ctxs):
            outs = []
            for _ in range(2):
                r = V.run([drv], inp=program([c], [0] * len(c[4])), env=env, timeout=600)
                if r.returncode != 0:
                    ck.violation(dict(rep, broken="sanitizer report / crash in a solo run", stderr=r.stderr[-1500:]), key="c06-crash"); outs = None; break
                outs.append(parse(r.stdout)[0].get(0, [])); stats["solo_repeat_runs"] += 1
            if outs is None: solo = None; break
            if outs[0] != outs[1]:
                ck.violation(dict(rep, what="context %d alone: two runs of the same calls in fresh processes give different outputs (first difference at op %d)" % (i, next(k for k in range(len(outs[0])) if outs[0][k] != outs[1][k])),
                                  broken="determinism of a single context"), key="c06:solo-determinism")
            solo.append(outs[0])
        if solo is None: continue
        ck.count()
        # schedules: a predecessor module of every format family loaded, played and released on the context first; every interleaving of the first two contexts' calls (from the extracted `interleavings`), random ones over all contexts
        n0, n1 = len(ctxs[0][4]), len(ctxs[1][4])
        mo = V.run([model], inp="IL %d %d\n" % (n0, n1), timeout=600).stdout.split("\n")
        scheds = [[int(ch) for ch in l] for l in mo if l and l != "END"]
        if tier == "quick" and len(scheds) > 120:
            scheds = rng.sample(scheds, 120)
        nex = len(scheds)
        for _ in range(12 if tier == "quick" else 60):
            pool = [i for i, c in enumerate(ctxs) for _ in c[4]]; rng.shuffle(pool); scheds.append(pool)
        progs = []
        for s in scheds:
            use = sorted(set(s))
            progs.append(program(ctxs if len(use) > 2 or len(ctxs) == 2 else ctxs[:2], s))
        nthreads = 4 if tier == "quick" else 20
        for _ in range(nthreads):
            progs.append(program(ctxs, [i for i, c in enumerate(ctxs) for _ in c[4]], mode="THREADS"))
        # prior history: another module loaded, played and released on the same context first
        # (one predecessor per format family, so that whatever a loader leaves behind in the context meets a module that does not set it)
        fams = {}
        for f in files:
            fams.setdefault(os.path.splitext(f)[1].lower(), []).append(f)
        others = [rng.choice(fams[e]) for e in (".it", ".xm", ".s3m", ".mod", ".med", ".stm", ".669", ".mtm", ".ult", ".far", ".imf", ".ptm", ".okt", ".amf", ".dbm", ".mdl", ".liq", ".psm", ".j2b", ".gdm") if e in fams]
        others.append(rng.choice(files))
        hlen = 9
        for oi, other in enumerate(others):
            # every other predecessor cycle runs at another sampling rate / channel count / interpolation than the context's own
            hist = ["L2:" + other, "SA" if oi % 2 else "S", "P", "P", "P", "SP1", "P", "E", "R"]
            for c in ctxs:
                progs.append(program([(c[0], c[1], c[2], c[3], hist + c[4] + ["E", "R"] + c[4])], [0] * (hlen + 2 * len(c[4]) + 2)))
        # ... and the module's own earlier cycle at another output configuration: same module, so the same tempo meets another rate
        for c in ctxs:
            hist = ["L", "SA", "P", "P", "P", "SP1", "P", "E", "R"]
            progs.append(program([(c[0], c[1], c[2], c[3], hist + c[4] + ["E", "R"] + c[4])], [0] * (hlen + 2 * len(c[4]) + 2)))
        others = others + [None]
        r = V.run([drv], inp="".join(progs), env=env, timeout=3000)
        runs = parse(r.stdout)
        if r.returncode != 0:
            ck.violation(dict(rep, broken="sanitizer report / crash (or data race abort) under interleaved / threaded use", stderr=r.stderr[-2000:], schedule_index=len(runs)), key="c06-crash"); continue
        bad = None
        for j, run in enumerate(runs[:len(scheds) + nthreads]):
            kind = "exhaustive interleaving" if j < nex else "random interleaving" if j < len(scheds) else "threads"
            if j < nex: stats["exhaustive_interleavings"] += 1
            elif j < len(scheds): stats["random_interleavings"] += 1
            else: stats["thread_runs"] += 1
            for i, outs in run.items():
                stats["ops_compared"] += len(outs)
                if outs != solo[i][:len(outs)] or (len(outs) != len(solo[i]) and i in (scheds[j] if j < len(scheds) else range(len(ctxs))) and len(outs) != len(solo[i])):
                    k = next((k for k in range(min(len(outs), len(solo[i]))) if outs[k] != solo[i][k]), min(len(outs), len(solo[i])))
                    bad = bad or ("%s %s: context %d differs from its solo run at its op %d (%s): %s vs %s" %
                                  (kind, "".join(map(str, scheds[j])) if j < len(scheds) else "", i, k, ctxs[i][4][k] if k < len(ctxs[i][4]) else "?", outs[k] if k < len(outs) else None, solo[i][k] if k < len(solo[i]) else None))
        hruns = runs[len(scheds) + nthreads:]
        for hj, hrun in enumerate(hruns):
            other = others[hj // len(ctxs)]; ci = hj % len(ctxs)
            hr = hrun.get(0, [])
            stats["history_runs"] += 1
            n = len(ctxs[ci][4]); a = hr[hlen:hlen + n]; b = hr[hlen + n + 2:]
            if a != solo[ci] or b != solo[ci]:
                which = "after %s was loaded, played and released on it" % (os.path.relpath(other, V.REPO) if other else "the same module, at another rate / channel count / interpolation,") if a != solo[ci] else "in the second load/play cycle of the same module"
                seq = a if a != solo[ci] else b
                k = next((k for k in range(min(len(seq), len(solo[ci]))) if seq[k] != solo[ci][k]), 0)
                bad = bad or "prior history: context %d %s differs from a fresh context at op %d (%s): %s vs %s" % (ci, which, k, ctxs[ci][4][k], seq[k] if k < len(seq) else None, solo[ci][k])
        if bad:
            ck.violation(dict(rep, what=bad, broken="C06 on the implementation: per-context outputs (projected as calls_of / outs_of do) vs the solo run"), key="c06:" + bad.split()[0])
        else:
            ck.nontrivial(json.dumps(rep, sort_keys=True))
            if len(ck.cov["samples"]) < 2: ck.sample({"contexts": [[c[0], c[4]] for c in rep["contexts"]], "schedules": len(scheds), "thread_runs": nthreads})
    ck.engine_stat("isolation", **stats)
    ck.cov["rule"] = ("2-3 contexts on random corpus modules / rates / formats / interpolators with random call lists (load, start, frames, position control, mute, volume, interpolation); reference = each context alone in a fresh process (run twice); "
                      "a predecessor module of every format family loaded, played and released on the context first; every interleaving of the first two contexts' calls as enumerated by the extracted `interleavings` (sampled to 120 in the quick tier), random interleavings of all contexts, real threads (one per context, repeated), and a context with a prior "
                      "load/play/release history; per call the return code and a digest of the frame's PCM and frame info must equal the solo run's")
    ck.assumptions += ["that every API function only touches the context it is given plus the objects listed in Generated/Globals.v is the premise of contexts_are_isolated; it is re-derived from the compiled objects (inventory theorem) and exercised by the runs, not proved from the C",
                       "thread runs exercise the schedules the OS happens to produce; the sanitizer build would abort on a detected heap error but is not a race detector"]
    ck.finish()

V.main_wrap(main)
