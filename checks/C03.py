# C03 — a successfully loaded module is structurally well-formed.
import struct, os, sys, json, tempfile, shutil
import vcommon as V
sys.path.insert(0, os.path.join(V.VERIF, "gen"))
import mutate

def corpus():
    base = os.path.join(V.REPO, "test-dev")
    out = []
    for d in ("data", "data/m", "openmpt/it", "openmpt/xm", "openmpt/s3m", "openmpt/mod"):
        p = os.path.join(base, d)
        if not os.path.isdir(p):
            continue
        for f in sorted(os.listdir(p)):
            fp = os.path.join(p, f)
            if os.path.isfile(fp) and not f.endswith((".data", ".c", ".txt", ".h")) and "README" not in f and "TODO" not in f and "\n" not in f:
                out.append(fp)
    return out

def gen_edits(rng, chn, ln, pat, trk, ins, smp):
    """adversarial edits of what the loader produced (applied through hook H1); they keep the tables allocated to their
    declared sizes (counts are only lowered, or pushed beyond the hard limits which the gate must refuse before indexing)"""
    ed = []
    B = lambda *xs: rng.choice(xs)
    for _ in range(rng.choice((1, 1, 2, 3, 5))):
        k = rng.randrange(22)
        if k == 0: ed.append("chn=%d" % B(0, chn, max(0, chn - 1), 65, 64 if chn == 64 else 66, 1000, -1, -2147483648))
        elif k == 1: ed.append("len=%d" % B(0, 1, max(0, ln - 1), ln, 256 if ln == 256 else 257, 257, 1000, -1))
        elif k == 2: ed.append("pat=%d" % B(0, max(0, pat - 1), pat, -1))
        elif k == 3: ed.append("trk=%d" % B(0, 1, max(0, trk - 1), trk, -1))
        elif k == 4: ed.append("ins=%d" % B(0, max(0, ins - 1), ins, -1))
        elif k == 5: ed.append("smp=%d" % B(0, max(0, smp - 1), smp, -1))
        elif k == 6: ed.append("spd=%d" % B(0, 1, 6, 255, 256, -1, 1000))
        elif k == 7: ed.append("bpm=%d" % B(0, 19, 20, 21, 125, 999, 1000, 1001, -1, 100000))
        elif k == 8: ed.append("rst=%d" % B(0, 1, max(0, ln - 1), ln, ln + 1, 255, 256, 100000))
        elif k == 9 and chn: ed.append("vol.%d=%d" % (rng.randrange(chn), B(-1, 0, 255, 256, 1000)))
        elif k == 10 and chn: ed.append("pan.%d=%d" % (rng.randrange(chn), B(-1, 0, 255, 256, 1000)))
        elif k == 11 and ln: ed.append("xxo.%d=%d" % (rng.randrange(ln), B(0, max(0, pat - 1), pat, 254, 255)))
        elif k == 12 and pat: ed.append("nopat.%d=1" % rng.randrange(pat))
        elif k == 13 and trk: ed.append("notrk.%d=1" % rng.randrange(trk))
        elif k == 14 and pat and chn: ed.append("idx.%d.%d=%d" % (rng.randrange(pat), rng.randrange(chn), B(-1, 0, max(0, trk - 1), trk, trk + 1, 100000)))
        elif k == 15: ed.append(B("noxxp=1", "pat=0,noxxt=1"))     # a track table is only absent when no pattern refers to it
        elif k in (16, 17, 18) and ins:
            i, w = rng.randrange(ins), rng.randrange(3)
            ed.append("eflg.%d.%d=%d" % (i, w, B(1, 3, 5, 7, 0x3f)))
            ed.append("enpt.%d.%d=%d" % (i, w, B(0, 1, 2, 5, 31, 32, 33, -1)))
            for f in ("elps", "elpe", "esus", "esue"):
                if rng.random() < 0.6:
                    ed.append("%s.%d.%d=%d" % (f, i, w, B(0, 1, 4, 5, 31, 32, 33)))
        elif k in (19, 20) and smp:
            i = rng.randrange(smp)
            ed.append("sflg.%d=%d" % (i, B(32, 96)))
            ed.append("sus.%d=%d" % (i, B(-5, 0, 1, 8, 15, 16, 17, 100000)))
            ed.append("sue.%d=%d" % (i, B(-1, 0, 1, 8, 15, 16, 17, 100000)))
        else: ed.append("xxo.0=%d" % B(0, 255))
    # the envelope of the raw-module space: a track table is only absent when no pattern refers to it (libxmp_init_pattern
    # allocates both tables or fails the load) - a later "pat=" edit must not bring patterns back
    flat = ",".join(ed).split(",")
    if "noxxt=1" in flat:
        k = flat.index("noxxt=1")
        flat = flat[:k + 1] + [e for e in flat[k + 1:] if not e.startswith("pat=")]
    return ",".join(flat)

def gen_669(rng):
    """a Composer 669 file with hostile header fields: order entries up to and past the pattern count, break rows around 64, sample
    lengths around the loader's `<= 2` skip, loop starts above 2^31, loop ends around the 0xfffff marker, sample data cut short"""
    nos = rng.choice((0, 1, 2, 3, 5, 9, 64)); nop = rng.choice((0, 1, 2, 3, 4))
    if rng.random() < 0.04: nos = rng.choice((65, 200))
    if rng.random() < 0.04: nop = rng.choice((129, 255))
    nord = rng.randrange(0, 12)
    order = [rng.choice((0, max(0, nop - 1), nop, rng.randrange(0, nop + 1))) for _ in range(nord)]
    if rng.random() < 0.15 and order: order[rng.randrange(len(order))] = nop + 1
    order = [min(255, o) for o in (order + [0xff] * 128)[:128]]
    if rng.random() < 0.05: order[127] = rng.randrange(256)
    speed = [rng.randrange(1, 16) for _ in range(128)]
    pbrk = [rng.choice((0, 63, 31, 64, 255)) if rng.random() < 0.12 else rng.randrange(64) for _ in range(128)]
    hdr = rng.choice((b"if", b"if", b"JN")) + bytes(rng.randrange(32, 127) for _ in range(108)) + bytes([nos & 255, nop & 255, rng.randrange(256)]) + bytes(order) + bytes(speed) + bytes(pbrk)
    ins = b""; lens = []
    for _ in range(min(nos, 64)):
        ln = rng.choice((0, 1, 2, 3, 4, 17, 64, 300, rng.randrange(0, 2000)))
        if rng.random() < 0.05: ln = rng.choice((0x10000000, 0x10000001, 0xffffffff, 0x0fffffff))
        lps = rng.choice((0, 1, ln // 2, ln, ln + 1, 0x80000000, 0xffffffff, 0x7fffffff, rng.randrange(0, max(1, ln + 3))))
        lpe = rng.choice((0, 1, ln, ln + 1, ln // 2, 0xfffff, 0xffffe, 0x100000, 0xffffffff, rng.randrange(0, max(1, ln + 3))))
        ins += bytes(rng.randrange(32, 127) for _ in range(13)) + struct.pack("<III", ln & 0xffffffff, lps & 0xffffffff, lpe & 0xffffffff); lens.append(ln)
    pats = b"".join(bytes(rng.choice((0xff, 0xfe, rng.randrange(256))) for _ in range(1536)) for _ in range(min(nop, 128)))
    smp = b"".join(bytes(rng.randrange(256) for _ in range(min(l, 5000))) for l in lens if 2 < l)
    data = hdr + ins + pats + smp
    k = rng.random()
    if k < 0.25 and len(smp): data = data[:len(data) - rng.randrange(1, len(smp) + 1)]          # sample data cut short
    elif k < 0.35: data = data[:rng.randrange(2, len(data))]                                       # cut anywhere
    elif k < 0.40: data += bytes(rng.randrange(256) for _ in range(rng.choice((1, 7))))
    return data

def gen_mtm(rng):
    """a MultiTracker file with hostile fields: track numbers at and past the track count, 16-bit samples with odd lengths and loop
    points above 2^31, zero channels / zero tracks, pans above 15, comment lengths past the end, data cut short"""
    tracks = rng.choice((0, 1, 2, 3, 7)); patterns = rng.choice((0, 0, 1, 2)); modlen = rng.choice((0, 1, 5, 127, 128, 255, rng.randrange(0, 20)))
    samples = rng.choice((0, 1, 2, 3, 8, 63)); channels = rng.choice((1, 2, 4, 8, 32, 0)) if rng.random() < 0.9 else rng.choice((33, 64, 255))
    if rng.random() < 0.04: samples = rng.choice((64, 200))
    rows = 64 if rng.random() < 0.96 else rng.choice((0, 63, 65))
    extralen = rng.choice((0, 0, 40, 80, 17, 5000))
    pan = bytes(rng.choice((0, 7, 8, 15, rng.randrange(16))) if rng.random() < 0.95 else rng.choice((16, 255)) for _ in range(32))
    hdr = b"MTM\x10" + bytes(rng.randrange(32, 127) for _ in range(20)) + struct.pack("<HBBHBBBB", tracks, patterns, modlen, extralen, samples & 255, 0, rows, channels & 255) + pan
    ins = b""; lens = []
    for _ in range(min(samples, 63)):
        ln = rng.choice((0, 1, 2, 3, 4, 17, 64, 301, rng.randrange(0, 1500)))
        if rng.random() < 0.04: ln = rng.choice((0x10000000, 0x10000001, 0xffffffff))
        lps = rng.choice((0, 1, ln // 2, ln, ln + 1, 0x80000000, 0xffffffff, 0x7fffffff, rng.randrange(0, max(1, ln + 3))))
        lpe = rng.choice((0, 1, 2, 3, ln, ln + 1, ln // 2, 0x80000001, 0xffffffff, rng.randrange(0, max(1, ln + 3))))
        attr = rng.choice((0, 0, 1, 1, 2, 255))
        ins += bytes(rng.randrange(32, 127) for _ in range(22)) + struct.pack("<IIIBBB", ln & 0xffffffff, lps & 0xffffffff, lpe & 0xffffffff, rng.randrange(256), rng.randrange(65), attr); lens.append(ln)
    orders = bytes(rng.choice((0, patterns, patterns + 1, rng.randrange(256))) for _ in range(128))
    trks = bytes(rng.randrange(256) for _ in range(192 * tracks))
    pats = b"".join(struct.pack("<H", rng.choice((0, tracks, tracks + 1, tracks + 2, 0xffff, rng.randrange(0, tracks + 2)))) for _ in range(32 * (patterns + 1)))
    comment = bytes(rng.choice((0, 65, 66)) for _ in range(min(extralen, 200)))
    smp = b"".join(bytes(rng.randrange(256) for _ in range(min(l, 4000))) for l in lens)
    data = hdr + ins + orders + trks + pats + comment + smp
    k = rng.random()
    if k < 0.2 and len(smp): data = data[:len(data) - rng.randrange(1, len(smp) + 1)]
    elif k < 0.32: data = data[:rng.randrange(4, len(data))]
    elif k < 0.36: data += bytes(rng.randrange(256) for _ in range(rng.choice((1, 7))))
    return data

def gen_s3m(rng):
    """a Scream Tracker 3 file with hostile fields: parapointers that are 0, point past the end or into the header, packed pattern
    lengths that disagree with the data, patterns cut inside an entry, instrument types 0 / 1 / Adlib with right and wrong magics,
    sample lengths, loop points above 2^31, stereo / 16-bit / ADPCM flags, channel settings with holes, default pans"""
    insnum = rng.choice((0, 1, 2, 3, 6)); patnum = rng.choice((1, 1, 2, 3, 2, 1, 3, 4, 0)); ordnum = rng.choice((1, 2, 4, 7, 16, 3, 9, 12, 33, 0, 255))
    if rng.random() < 0.03: insnum = rng.choice((256, 1000))
    chset = [rng.choice((0, 1, 8, 9, 16, 17, 0x80 | rng.randrange(32), rng.randrange(32))) if rng.random() < 0.5 else 255 for _ in range(32)]
    if rng.random() < 0.8: chset[0] = rng.randrange(16)
    if rng.random() < 0.05: chset = [255] * 32
    ffi = rng.choice((1, 2, 2, 2)) if rng.random() < 0.96 else rng.choice((0, 3, 258))
    mv = rng.choice((0x30, 0xb0, 0x02, 0x12, 0x90, 0x10, 0, 5, 0x85, rng.randrange(256))); dp = rng.choice((0xfc, 0xfc, 0, 0xfd))
    orders = [rng.choice((0, 0, max(0, patnum - 1), max(0, patnum - 1), patnum, 254, 255, rng.randrange(0, patnum + 2))) for _ in range(ordnum)]
    hdr = bytearray(96)
    hdr[0:28] = bytes(rng.randrange(32, 127) for _ in range(28)); hdr[28] = 0x1a; hdr[29] = 0x10 if rng.random() < 0.97 else 0x11
    struct.pack_into("<HHHHHH", hdr, 32, ordnum, insnum & 0xffff, patnum, rng.choice((0, 0x10, 0x40, 0x50)), rng.choice((0x1320, 0x1300, 0x3214, 0x5130, 0x2013)), ffi)
    hdr[44:48] = b"SCRM" if rng.random() < 0.97 else b"SCRN"
    hdr[48] = rng.randrange(65); hdr[49] = rng.choice((6, 0, 1, 255, rng.randrange(256))); hdr[50] = rng.choice((125, 0, 31, 32, 255, rng.randrange(256))); hdr[51] = mv; hdr[53] = dp
    hdr[64:96] = bytes(chset)
    nins = min(insnum, 300)
    tables_len = ordnum + 2 * nins + 2 * patnum + (32 if dp == 0xfc else 0)
    base = (96 + tables_len + 15) // 16 * 16
    body = bytearray(); pp_ins = []; pp_pat = []
    def para(): return (base + len(body)) // 16
    def pad():
        while len(body) % 16: body.append(0)
    smp_fix = []
    for _ in range(nins):
        pad(); k = rng.random()
        if k < 0.04: pp_ins.append(rng.choice((0, 0xffff, 2, 6))); continue
        pp_ins.append(para())
        ih = bytearray(80); ty = rng.choice((1, 1, 1, 0, 2, 3, 7))
        ih[0] = ty
        ln = rng.choice((0, 1, 2, 16, 33, 300, rng.randrange(0, 1500)))
        if rng.random() < 0.04: ln = rng.choice((0x10000000, 0x10000001, 0xffffffff))
        lb = rng.choice((0, 1, ln // 2, ln, ln + 1, 0x80000000, 0xffffffff, rng.randrange(0, max(1, ln + 3))))
        le = rng.choice((0, 1, ln, ln + 1, ln // 2, 0x80000001, 0xffffffff, rng.randrange(0, max(1, ln + 3))))
        struct.pack_into("<III", ih, 16, ln & 0xffffffff, lb & 0xffffffff, le & 0xffffffff)
        ih[28] = rng.randrange(65); ih[30] = rng.choice((0, 0, 0, 4, 1)); ih[31] = rng.choice((0, 1, 2, 4, 5, 7, 3, 255))
        struct.pack_into("<H", ih, 32, rng.choice((8363, 0, 65535, 22050)))
        ih[48:76] = bytes(rng.randrange(32, 127) for _ in range(28))
        ih[76:80] = (b"SCRI" if ty >= 2 else b"SCRS") if rng.random() < 0.96 else b"SCRX"
        smp_fix.append((len(body), ln)); body += ih
    for _ in range(patnum):
        pad(); k = rng.random()
        if k < 0.08: pp_pat.append(rng.choice((0, 0, 0, 0xffff, 3))); continue
        pp_pat.append(para())
        pk = bytearray()
        for r in range(rng.choice((64, 64, 64, 64, 64, 64, 64, 64, 10, 70))):
            for _ in range(rng.choice((0, 0, 1, 2, 5))):
                b = rng.randrange(32) | rng.choice((0x20, 0x40, 0x80, 0xe0, 0x60, 0xa0, 0xc0))
                pk.append(b)
                if b & 0x20: pk += bytes((rng.choice((255, 254, rng.randrange(0x80))), rng.randrange(100)))
                if b & 0x40: pk.append(rng.randrange(65))
                if b & 0x80: pk += bytes((rng.randrange(28), rng.randrange(256)))
            pk.append(0)
        plen = len(pk) + 2
        if rng.random() < 0.08: plen = rng.choice((0, 1, 2, 3, plen // 2, plen + 50, 0xffff))
        if rng.random() < 0.04: pk = pk[:rng.randrange(0, len(pk) + 1)]
        body += struct.pack("<H", plen) + pk
    # sample data, and the segment pointers of the instrument headers
    for (off, ln) in smp_fix:
        pad(); seg = para(); k = rng.random()
        if k < 0.1: seg = rng.choice((0, 0xffffff, 5, seg + 1000))
        body[off + 13] = (seg >> 16) & 255; struct.pack_into("<H", body, off + 14, seg & 0xffff)
        if k >= 0.1: body += bytes(rng.randrange(256) for _ in range(min(ln, 4000) * rng.choice((1, 1, 2, 4))))
    tables = bytes(orders) + b"".join(struct.pack("<H", x) for x in pp_ins) + b"".join(struct.pack("<H", x) for x in pp_pat)
    if dp == 0xfc: tables += bytes(rng.choice((0, 0x20 | rng.randrange(16), rng.randrange(256))) for _ in range(32))
    data = bytes(hdr) + tables + bytes(base - 96 - len(tables)) + bytes(body)
    k = rng.random()
    if k < 0.12: data = data[:rng.randrange(60, len(data))]
    elif k < 0.16: data += bytes(rng.randrange(256) for _ in range(rng.choice((1, 7))))
    return data

def compare_loader(ck, engine, what, blobs, mdir, ext, want_types, mk_req, gdrv, mmodel):
    """files that the library attributes to one loader: the extracted loader model piped through the extracted gate against the PREGATE dump of hook H1"""
    paths = []
    for k, (lab, blob) in enumerate(blobs):
        pth = os.path.join(mdir, "m%05d.%s" % (k, ext)); open(pth, "wb").write(blob); paths.append(pth)
    # other loaders come before the Protracker loader and may claim a file with this signature (ProWizard formats, Startrekker ...):
    # only files that the library itself attributes to the Protracker loader are this model's business
    tdrv = V.build_driver("c07_drv", ["c07_drv.c"])
    tr = V.run([tdrv, "load"], inp="".join("TM %s\n" % pth for pth in paths), env=V.san_env(), timeout=3000).stdout.split("\n")
    keep = [i for i, l in enumerate(tr[:len(paths)]) if l.startswith("RET 0 ") and len(l.split()) > 5 and l.split()[5] in want_types]
    blobs = [blobs[i] for i in keep]; paths = [paths[i] for i in keep]
    rg = V.run([gdrv, "gate"], inp="".join("- %s\n" % pth for pth in paths), env=V.san_env(), timeout=3000)
    # split the driver's output per file: "PREGATE ..." dump (if the loader got that far) ... "RET r" [+ module dump]
    per = []; cur = []
    for l in rg.stdout.split("\n"):
        cur.append(l)
        if l.startswith("RET "): per.append(cur); cur = []
        elif l == "ENDMOD" and per and len(per[-1]) and per[-1][0].startswith("RET") is False: pass
    # a successful load prints its module dump after RET: attach those lines to the same record
    recs = []; i = 0
    lines = rg.stdout.split("\n")
    cur = None
    for l in lines:
        if l.startswith("PREGATE "): cur = {"pre": [l], "ret": None}; recs.append(cur)
        elif l.startswith("RET "):
            if cur is None or cur["ret"] is not None: cur = {"pre": None, "ret": None}; recs.append(cur)
            cur["ret"] = l.split()[1]
        elif cur is not None and cur["ret"] is None and cur["pre"] is not None: cur["pre"].append(l)
    mst = {"files": 0, "loader_refuses": 0, "gate_refuses": 0, "compared": 0}
    req = []; meta = []
    for (lab, blob), rec in zip(blobs, recs):
        ty = b""
        if rec["pre"]:
            tl = next((x for x in rec["pre"] if x.startswith("TYPE ")), "TYPE 1 -").split()
            try: ty = bytes.fromhex(tl[2]) if len(tl) > 2 and tl[2] != "-" else b""
            except ValueError: ty = b""
        req.append(mk_req(ty, blob)); meta.append((lab, blob, rec))
    mo = V.run([mmodel], inp="\n".join(req) + "\n", timeout=3000).stdout.split("\n")
    for (lab, blob, rec), mline in zip(meta, mo):
        ck.count(); mst["files"] += 1; bad = None
        if mline.startswith("FAIL"):
            mst["loader_refuses"] += 1
            if rec["pre"]: bad = "the loader handed a module to the gate, the model says the loader fails"
        elif not rec["pre"]:
            bad = "the loader failed (return %s) before the gate, the model builds a module" % rec["ret"]
        else:
            parts = [x.strip() for x in mline.split("|")]
            pre = rec["pre"]
            modl = next(x for x in pre if x.startswith("MOD ")).split()
            got_counts = " ".join(modl[1:10])
            got_xxo = " ".join(next((x for x in pre if x.startswith("XXO")), "XXO").split()[1:])
            got_ins = " ".join("%s,%s" % (x.split()[2], x.split()[3]) for x in pre if x.startswith("INS "))
            got_smp = " ".join(",".join(x.split()[2:7]) for x in pre if x.startswith("SMP "))
            npatl = sum(1 for x in pre if x.startswith("PAT ")); ntrkl = sum(1 for x in pre if x.startswith("TRK "))
            if parts[1] != got_counts: bad = "counts (chn len pat trk ins smp spd bpm rst): loader %s, model %s" % (got_counts, parts[1])
            elif parts[2] != got_xxo: bad = "order list differs"
            elif parts[3] != got_ins: bad = "instrument table (sub-instrument counts) differs"
            elif parts[4] != got_smp:
                a = parts[4].split(); b = got_smp.split(); j = next((j for j in range(min(len(a), len(b))) if a[j] != b[j]), -1)
                bad = "sample %d (len,lps,lpe,flg,data): loader %s, model %s" % (j, b[j] if j >= 0 else "?", a[j] if j >= 0 else "?")
            elif any(x.split()[2] != "64" for x in pre if x.startswith(("PAT ", "TRK ")) and "NULL" not in x): bad = "a pattern or track does not have 64 rows"
            elif len(parts) > 6 and parts[6].split() != [",".join(x.split()[2:]) if "NULL" not in x else "NULL" for x in pre if x.startswith("PAT ")]:
                bad = "pattern table (rows and track numbers per channel) differs"
            elif len(parts) > 7 and parts[7].split()[:int(modl[1])] != ["%s,%s" % (x.split()[2], x.split()[3]) for x in pre if x.startswith("CHN ")][:int(modl[1])]:
                bad = "channel defaults (volume, pan) differ"
            elif parts[0] != "RAW post=1": raise V.BuildError("%s built a module outside loader_postb for %s: its post-condition theorem would be false" % (what, lab))
            elif (parts[5] == "gate=REJECT") != (rec["ret"] != "0") and not (rec["ret"] != "0" and parts[5] == "gate=ok"):
                bad = "gate decision: load returned %s, model %s" % (rec["ret"], parts[5])
            if parts[5] == "gate=REJECT": mst["gate_refuses"] += 1
            mst["compared"] += 1
        if bad:
            ck.violation({"engine": engine, "label": lab, "file_hex": blob.hex() if len(blob) < 300000 else None, "what": bad,
                          "broken": "correspondence: %s vs what the loader left behind (hook H1 dump)" % what}, key="c03:%s:" % engine + bad.split(":")[0][:40])
        else: ck.nontrivial((engine, lab))
    if rg.returncode != 0:
        ck.violation({"engine": engine, "broken": "sanitizer report / crash while loading a variant (%s)" % engine, "stderr": rg.stderr[-1500:]}, key="c03-%s-crash" % engine)
    ck.engine_stat(engine, **mst)


def main():
    tier = sys.argv[1] if len(sys.argv) > 1 else "quick"
    replay = sys.argv[sys.argv.index("--replay") + 1] if "--replay" in sys.argv else None
    ck = V.Check("C03", tier)
    rng = ck.rng
    ck.proof_leg(["Extract/Extract_modulewf.vo", "Extract/Extract_seqscan.vo", "Extract/Extract_modload.vo"])
    drv = V.build_driver("c03_drv", ["c03_drv.c"])
    model = V.ocaml_build("modulewf")
    env = V.san_env()
    files = corpus()
    tmpd = tempfile.mkdtemp(prefix="vp-c03-", dir="/var/tmp")
    try:
        jobs = []     # (entry, skip, mode, path, label)
        if replay and json.load(open(replay)).get("engine") == "gate":
            pass
        elif replay:
            rp = json.load(open(replay))
            p = os.path.join(tmpd, "replay.bin")
            open(p, "wb").write(bytes.fromhex(rp["file_hex"]) if "file_hex" in rp else open(rp["file"], "rb").read())
            jobs.append((rp["entry"], rp["skip"], rp["mode"], p, rp.get("label", "replay")))
        else:
            for f in files:
                jobs.append(("LP", 0, -1, f, "corpus"))
                jobs.append((rng.choice(("LM", "LF", "LC")), 1, -1, f, "corpus-skip"))
            core = [f for f in files if f.lower().endswith((".mod", ".xm", ".it", ".s3m"))]
            rng.shuffle(core)
            for f in core[: (40 if tier == "quick" else 400)]:
                for mode in range(0, 11):
                    jobs.append(("LM", rng.randrange(2), mode, f, "mode"))
            pick = list(files); rng.shuffle(pick)
            k = 0
            for f in pick[: (120 if tier == "quick" else len(pick))]:
                data = open(f, "rb").read()
                if len(data) > 400000:
                    continue
                for kind, blob in mutate.mutants(data, rng, *((3, 3, 3) if tier == "quick" else (12, 10, 12))):
                    p = os.path.join(tmpd, "m%06d" % k); k += 1
                    open(p, "wb").write(blob)
                    jobs.append((rng.choice(("LM", "LP")), rng.randrange(2), -1, p, "mutant-%s:%s" % (kind, os.path.basename(f))))
            # titles that fill the whole name field: formats that store a title LENGTH (Digital Tracker's D.T. chunk, OctaMED's expansion
            # data) with 64 and more bytes of text behind it - the public name must still be a terminated string
            for f in V.corpus_files():
                fl = f.lower()
                if not fl.endswith((".dtm", ".med")) or os.path.getsize(f) > 300000: continue
                d = open(f, "rb").read(); outb = []
                if d[:4] == b"D.T." and len(d) > 30:
                    size = struct.unpack(">I", d[4:8])[0]
                    if 14 <= size <= 142 and 8 + size <= len(d):
                        for n in (63, 64, 65, 128):
                            body = d[8:22] + bytes(65 + (i % 26) for i in range(n)); outb.append(b"D.T." + struct.pack(">I", len(body)) + body + d[8 + size:])
                elif d[:3] == b"MMD" and len(d) > 64:
                    exp = struct.unpack(">I", d[32:36])[0]
                    if exp and exp + 52 <= len(d):
                        for n in (63, 64, 65, 200):
                            b2 = bytearray(d) + bytes(97 + (i % 26) for i in range(n + 8)); struct.pack_into(">II", b2, exp + 44, len(d), n); outb.append(bytes(b2))
                for blob in outb:
                    p = os.path.join(tmpd, "t%06d" % k); k += 1; open(p, "wb").write(blob)
                    jobs.append((rng.choice(("LM", "LP")), 0, -1, p, "long-title:%s" % os.path.basename(f)))
        inp = "".join("%s %d %d 1 %s\n" % (e, s, m, p) for e, s, m, p, _ in jobs)
        r = V.run([drv], inp=inp, env=env, timeout=3000)
        out = r.stdout.split("\n")
        # split per job
        chunks, cur = [], None
        for l in out:
            if l.startswith("RET "):
                cur = [l]; chunks.append(cur)
            elif cur is not None:
                cur.append(l)
        accepted = [(i, ch) for i, ch in enumerate(chunks) if ch[0] == "RET 0"]
        mo = V.run([model], inp="\n".join("\n".join(ch[1:]) for _, ch in accepted) + "\n", timeout=600).stdout.split("\n")
        if r.returncode != 0:
            i = len(chunks)
            j = jobs[i] if i < len(jobs) else jobs[-1]
            blob = open(j[3], "rb").read()
            ck.violation({"engine": "wf", "entry": j[0], "skip": j[1], "mode": j[2], "label": j[4], "file": j[3] if j[4].startswith("corpus") or j[4] == "mode" else None,
                          "file_hex": blob.hex() if len(blob) < 200000 and not j[4].startswith("corpus") and j[4] != "mode" else None,
                          "broken": "sanitizer report / crash while loading or dumping (tables not allocated to their declared sizes, or a memory error in a loader: C01)",
                          "stderr": r.stderr[-2500:]}, key="c03-crash:%s" % j[4])
        hist = {}
        nbad = 0
        for k, (i, ch) in enumerate(accepted):
            j = jobs[i]
            res = mo[k] if k < len(mo) else "missing"
            lab = j[4].split(":")[0]
            hist[lab] = hist.get(lab, 0) + 1
            ck.count()
            ck.nontrivial((j[0], j[1], j[2], j[4], hash(tuple(ch[1:4]))))
            if res != "ok":
                nbad += 1
                blob = open(j[3], "rb").read()
                ck.violation({"engine": "wf", "entry": j[0], "skip": j[1], "mode": j[2], "label": j[4], "file": j[3] if lab.startswith("corpus") or lab == "mode" else None,
                              "file_hex": blob.hex() if len(blob) < 200000 and not (lab.startswith("corpus") or lab == "mode") else None,
                              "predicate": res, "dump_head": ch[1:4],
                              "broken": "monitor public_wfb (the property predicate, Model/ModuleWf.v) on a module the implementation accepted"},
                             key="c03-wf:%s:%s" % (res, j[4]))
        rej = {}
        for i, ch in enumerate(chunks):
            if ch[0] != "RET 0":
                rej[ch[0]] = rej.get(ch[0], 0) + 1
        ck.engine_stat("wf", jobs=len(jobs), accepted=len(accepted), accepted_by_kind=hist, rejected=rej, predicate_failures=nbad)
        if accepted:
            ck.sample({"job": list(jobs[accepted[0][0]][:3]) + [os.path.basename(jobs[accepted[0][0]][3])], "dump_head": accepted[0][1][1:4], "predicate": mo[0]})
    finally:
        shutil.rmtree(tmpd, ignore_errors=True)
    # ---- gate differential through hook H1: model finish(raw) vs what load_module does to the same raw module
    if not replay or json.load(open(replay)).get("engine") == "gate":
        gmodel = V.ocaml_build("gate")
        bases = [os.path.join(V.REPO, "test-dev", x) for x in ("data/test.it", "data/test.xm", "data/ode2ptk.mod", "openmpt/it/EnvLoops.it", "openmpt/xm/EnvLoops.xm", "data/m/panic.s3m", "openmpt/it/SusAfterLoop.it")]
        bases = [b for b in bases if os.path.exists(b)]
        cases = []
        if replay and json.load(open(replay)).get("engine") != "gate":
            pass
        elif replay:
            rp = json.load(open(replay)); cases = [(rp["edits"], rp["base"])]
        else:
            for b in bases:
                o = V.run([drv, "gate"], inp="- %s\n" % b, env=env).stdout.split("\n")
                mw = next((l.split() for l in o if l.startswith("MOD ")), None)
                if not mw:
                    continue
                chn, ln, pat, trk, ins, smp = (int(x) for x in mw[1:7])
                cases.append(("-", b))
                for _ in range(60 if tier == "quick" else 1500):
                    cases.append((gen_edits(rng, chn, ln, pat, trk, ins, smp), b))
        r = V.run([drv, "gate"], inp="".join("%s %s\n" % c for c in cases), env=env, timeout=3000)
        if r.returncode != 0:
            k = r.stdout.count("\nRET ") + (1 if r.stdout.startswith("RET ") else 0)
            bad = cases[k] if k < len(cases) else cases[-1]
            ck.violation({"engine": "gate", "edits": bad[0], "base": bad[1], "broken": "sanitizer report / crash in the sanity gate, epilogue or scan on a raw module that keeps its tables allocated (C01/C03)",
                          "stderr": r.stderr[-2500:]}, key="gate-crash:%s" % bad[0].split(",")[0].split("=")[0])
        go = V.run([gmodel], inp=r.stdout, timeout=600).stdout.split("\n")
        rets = [l for l in r.stdout.split("\n") if l.startswith("RET ")]
        gi = 0; nd = 0; acc = 0; rej = 0
        for ci, c in enumerate(cases):
            if ci >= len(rets):
                break
            pre = go[gi] if gi < len(go) and go[gi].startswith("PRE ") else None
            if pre is None:
                # the loader itself failed before the hook: nothing to compare
                continue
            gi += 1
            ret = rets[ci].split()[1]
            ck.count()
            pw = pre.split(" ", 2)
            postok, verdict = pw[1], pw[2]
            if ret == "0":
                postl = go[gi] if gi < len(go) else ""; gi += 1
                got = postl[5:].split(" # ")[0] if postl.startswith("POST ") else "?"
                wfv = postl.split(" # ")[1] if " # " in postl else "?"
                acc += 1
                ok = (verdict == got)
                if ok and postok == "post=1" and wfv != "ok":
                    ok = False
            else:
                rej += 1
                ok = (verdict == "REJECT") and ret == "-4"
                got = "RET " + ret
            if ok:
                ck.nontrivial(("gate", c))
            else:
                nd += 1
                ck.violation({"engine": "gate", "edits": c[0], "base": c[1], "expected_model": verdict[:300], "got_impl": got[:300], "loader_post_holds": postok,
                              "broken": "correspondence finish = gate ; epilogue ; prepare_scan (Model/Gate.v) vs load_module on the same raw module (hook H1)"},
                             key="gate:%s" % c[0])
        if len(cases) > 5 and acc + rej < len(cases) // 2:
            raise V.BuildError("gate leg: only %d of %d raw modules were compared (driver / model dump formats out of step?)" % (acc + rej, len(cases)))
        ck.engine_stat("gate", cases=len(cases), accepted=acc, rejected=rej, disagreements=nd)
        if cases:
            ck.sample({"engine": "gate", "edits": cases[min(3, len(cases) - 1)][0], "base": os.path.basename(cases[0][1])})
    # ---- (c) the loop of libxmp_scan_sequences: Model/SeqScan.v replayed with what hook H6 reports from the real scan_module calls
    if not replay or json.load(open(replay)).get("engine") == "seqscan":
        sdrv = V.build_driver("c03s_drv", ["c03s_drv.c"]); smodel = V.ocaml_build("seqscan")
        if replay:
            files = [os.path.join(V.REPO, json.load(open(replay))["file"])]
        else:
            files = [f for f in V.corpus_files() if os.path.getsize(f) < 3000000]
            multi = [os.path.join(V.REPO, "test-dev", "data", x) for x in ("m/IMS.beast-busters1.st", "m/di.nightmare", "m/STIM.intro_1", "m/4th_Symmetriad.it", "scan_240_seq.it", "scan_270_seq.it")]
            files = [f for f in multi if os.path.exists(f)] + (rng.sample(files, min(len(files), 120)) if tier == "quick" else files)
        r = V.run([sdrv], inp="\n".join(files) + "\n", env=V.san_env(), timeout=3000)
        recs = []; cur = []
        for l in r.stdout.split("\n"):
            if l.startswith("CALL "): cur.append(l.split()[1:])
            elif l.startswith("RET "): recs.append((cur, l.split())); cur = []
        lines = []; meta = []
        for f, (calls, ret) in zip(files, recs):
            if not calls: continue
            ln = len(calls[0][3]) // 2 if calls[0][3] != "-" else 0
            lines.append("%d | " % ln + " | ".join("%s %s %s %s" % (c[0], c[1], c[2], c[3] if c[3] != "-" else "") for c in calls)); meta.append((f, calls, ret, ln))
        mo = V.run([smodel], inp="\n".join(lines) + "\n", timeout=3000).stdout.split("\n")
        sst = {"modules": 0, "scan_calls": 0, "with_several_sequences": 0, "dropped_scans": 0, "load_refused_by_scan": 0, "max_sequences": 0}
        for (f, calls, ret, ln), m in zip(meta, mo):
            ck.count(); sst["modules"] += 1; sst["scan_calls"] += len(calls); bad = None
            w = m.split()
            if ret[1] != "0":
                # the load failed: if it failed in the sequence scan the model must refuse too (first scan's time < 0); other failures are not this leg's business
                if int(calls[0][2]) < 0:
                    sst["load_refused_by_scan"] += 1
                    if w and w[0] != "FAIL": bad = "the first scan reported time %s and the load failed, the model's loop accepts" % calls[0][2]
                if not bad: ck.nontrivial(("seq", f)); continue
            elif ln == 0: continue
            elif not w or w[0] == "FAIL": bad = "the module loaded but the model's loop fails the load (first scan time %s)" % calls[0][2]
            else:
                nseq = int(ret[7]); pairs = [tuple(int(x) for x in p.split(":")) for p in ret[8:]]
                sst["max_sequences"] = max(sst["max_sequences"], nseq); sst["with_several_sequences"] += 1 if nseq > 1 else 0; sst["dropped_scans"] += len(calls) - nseq
                eps = [int(x) for x in w[5].split(",")] if len(w) > 5 and w[5] else []; durs = [int(x) for x in w[6].split(",")] if len(w) > 6 and w[6] else []
                if ret[3] != "1": bad = "scan_module broke the hypothesis of scan_sequences_wf (its own entry point left unmarked, or an order un-marked)"
                elif w[1] != "1": bad = "the model's loop asks for a different (entry point, sequence number) than libxmp_scan_sequences did"
                elif w[2] != "1": bad = "libxmp_scan_sequences made more scan_module calls than the model's loop"
                elif int(w[4]) != nseq or list(zip(eps, durs)) != pairs: bad = "sequences %s, the model's loop gives %s" % (pairs[:6], list(zip(eps, durs))[:6])
                elif w[3] != "1": bad = "the sequence table violates the sequence clause (seqs_wfb = false): %s" % pairs[:8]
            if bad:
                ck.violation({"engine": "seqscan", "file": os.path.relpath(f, V.REPO), "what": bad, "calls": [c[:3] for c in calls][:12],
                              "broken": "correspondence: Model/SeqScan.v (loop of libxmp_scan_sequences) vs the loaded module, scan_module's results taken from hook H6"}, key="c03:seq:" + bad.split()[1])
            else:
                ck.nontrivial(("seq", f))
        if r.returncode != 0:
            ck.violation({"engine": "seqscan", "broken": "sanitizer report / crash in the sequence driver", "stderr": r.stderr[-1500:]}, key="c03-seq-crash")
        ck.engine_stat("seqscan", **sst)
    # ---- (d) the Protracker loader itself: Model/ModLoad.v (what mod_load leaves behind for an M.K. file) against the PREGATE dump of hook H1
    if not replay or json.load(open(replay)).get("engine") == "modload":
        gdrv = V.build_driver("c03_drv", ["c03_drv.c"]); mmodel = V.ocaml_build("modload")
        mdir = tempfile.mkdtemp(prefix="vp-c03m-", dir="/var/tmp")
        try:
            if replay:
                rpj = json.load(open(replay)); blobs = [(rpj["label"], bytes.fromhex(rpj["file_hex"]))]
            else:
                mk = []
                for f in V.corpus_files():
                    try:
                        with open(f, "rb") as fh:
                            hd = fh.read(1084)
                        if len(hd) == 1084 and hd[1080:1084] == b"M.K." and os.path.getsize(f) < 90000: mk.append(f)
                    except OSError: pass
                blobs = []
                for f in sorted(mk)[: (25 if tier == "quick" else 400)]:
                    data = open(f, "rb").read(); lab = os.path.relpath(f, V.REPO)
                    blobs.append((lab, data))
                    npat = max([o for o in data[952:1080] if o < 128] + [0]) + 1; body = 1084 + 1024 * npat
                    for cut in {body - 1, body, body + 1, body + 7, len(data) - 1, len(data) - 2, (body + len(data)) // 2, 1084, 1083, 600} | {rng.randrange(1084, max(1085, len(data))) for _ in range(3)}:
                        if 0 < cut < len(data): blobs.append(("%s cut at %d" % (lab, cut), data[:cut]))
                    for _ in range(4):
                        b = bytearray(data); k = rng.random()
                        i = rng.randrange(31); o = 20 + 30 * i
                        if k < 0.4: b[o + 22:o + 24] = bytes([rng.choice((0, 0x7f, 0x80, 0xff)), rng.randrange(256)])                  # sample length
                        elif k < 0.7: b[o + 26:o + 30] = bytes(rng.choice((0, 1, 2, 0x7f, 0xff, rng.randrange(256))) for _ in range(4))   # loop start / length
                        elif k < 0.85: b[950:952] = bytes([rng.choice((0, 1, 127, 128, 129, 255)), rng.choice((0, 0x78, 0x7f, 1, 200))])   # song length, restart
                        else: b[952 + rng.randrange(128)] = rng.choice((0, 127, 128, 255, rng.randrange(256)))                            # an order entry
                        blobs.append(("%s header field edited" % lab, bytes(b)))
                    blobs.append(("%s + trailing bytes" % lab, data + bytes(rng.randrange(256) for _ in range(rng.choice((1, 2, 9))))))
                    blobs.append(("%s as a song file (no sample data)" % lab, data[:body]))
            compare_loader(ck, "modload", "Model/ModLoad.v (mod_raw)", blobs, mdir, "mod", (b"Amiga Protracker/Compatible".hex(),),
                           lambda ty, blob: "R %d %s" % (1 if (b"Protracker" in ty and b"clone" not in ty) or b"OpenMPT" in ty else 0, blob.hex()), gdrv, mmodel)
        finally:
            shutil.rmtree(mdir, ignore_errors=True)
    # ---- (e) the Composer 669 loader: Model/C669Load.v against the PREGATE dump of hook H1
    if not replay or json.load(open(replay)).get("engine") == "c669load":
        gdrv = V.build_driver("c03_drv", ["c03_drv.c"]); mmodel = V.ocaml_build("modload")
        mdir = tempfile.mkdtemp(prefix="vp-c03q-", dir="/var/tmp")
        try:
            if replay:
                rpj = json.load(open(replay)); blobs = [(rpj["label"], bytes.fromhex(rpj["file_hex"]))]
            else:
                blobs = []
                for f in V.corpus_files():
                    if f.lower().endswith(".669") and os.path.getsize(f) < 60000:
                        data = open(f, "rb").read(); lab = os.path.relpath(f, V.REPO); blobs.append((lab, data))
                        for cut in (496, 497, 498, len(data) - 1, len(data) // 2): blobs.append(("%s cut at %d" % (lab, cut), data[:cut]))
                for k in range(400 if tier == "quick" else 20000):
                    blobs.append(("generated 669 #%d" % k, gen_669(rng)))
            compare_loader(ck, "c669load", "Model/C669Load.v (c669_raw)", blobs, mdir, "669", (b"Composer 669".hex(), b"UNIS 669".hex()),
                           lambda ty, blob: "Q %s" % blob.hex(), gdrv, mmodel)
        finally:
            shutil.rmtree(mdir, ignore_errors=True)
    # ---- (f) the MultiTracker loader: Model/MtmLoad.v against the PREGATE dump of hook H1
    if not replay or json.load(open(replay)).get("engine") == "mtmload":
        gdrv = V.build_driver("c03_drv", ["c03_drv.c"]); mmodel = V.ocaml_build("modload")
        mdir = tempfile.mkdtemp(prefix="vp-c03t-", dir="/var/tmp")
        try:
            if replay:
                rpj = json.load(open(replay)); blobs = [(rpj["label"], bytes.fromhex(rpj["file_hex"]))]
            else:
                blobs = []
                for f in V.corpus_files():
                    if f.lower().endswith(".mtm") and os.path.getsize(f) < 80000:
                        data = open(f, "rb").read(); lab = os.path.relpath(f, V.REPO); blobs.append((lab, data))
                        for cut in (65, 66, 67, len(data) - 1, len(data) // 2, len(data) // 3): blobs.append(("%s cut at %d" % (lab, cut), data[:cut]))
                for k in range(400 if tier == "quick" else 20000):
                    blobs.append(("generated MTM #%d" % k, gen_mtm(rng)))
            compare_loader(ck, "mtmload", "Model/MtmLoad.v (mtm_raw)", blobs, mdir, "mtm", (b"Multitracker".hex(),),
                           lambda ty, blob: "T %s" % blob.hex(), gdrv, mmodel)
        finally:
            shutil.rmtree(mdir, ignore_errors=True)
    # ---- (g) the Scream Tracker 3 loader: Model/S3MLoad.v against the PREGATE dump of hook H1
    if not replay or json.load(open(replay)).get("engine") == "s3mload":
        gdrv = V.build_driver("c03_drv", ["c03_drv.c"]); mmodel = V.ocaml_build("modload")
        mdir = tempfile.mkdtemp(prefix="vp-c03s-", dir="/var/tmp")
        try:
            if replay:
                rpj = json.load(open(replay)); blobs = [(rpj["label"], bytes.fromhex(rpj["file_hex"]))]
            else:
                blobs = []
                for f in V.corpus_files():
                    if f.lower().endswith(".s3m") and os.path.getsize(f) < 40000:
                        data = open(f, "rb").read(); lab = os.path.relpath(f, V.REPO); blobs.append((lab, data))
                        for cut in (95, 96, 97, len(data) - 1, len(data) // 2, len(data) // 3): blobs.append(("%s cut at %d" % (lab, cut), data[:cut]))
                blobs = blobs[: (140 if tier == "quick" else 4000)]
                for k in range(400 if tier == "quick" else 20000):
                    blobs.append(("generated S3M #%d" % k, gen_s3m(rng)))
            compare_loader(ck, "s3mload", "Model/S3MLoad.v (s3m_raw)", blobs, mdir, "s3m", (b"Scream Tracker 3".hex(),),
                           lambda ty, blob: "S %s" % blob.hex(), gdrv, mmodel)
        finally:
            shutil.rmtree(mdir, ignore_errors=True)
    ck.cov["rule"] = ("every file of test-dev/data, data/m and openmpt/* loaded by path and (with XMP_SMPCTL_SKIP) through a random stream entry point; core-format modules under all 11 player modes; "
                      "structured mutants (header-field boundary values, truncations, bit flips in the first 2 KiB); every accepted module is dumped under ASan (which validates table sizes and guard frames) and public_wfb is evaluated on the dump")
    ck.assumptions += ["the dump follows every pointer of the public tables: ASan turns an under-allocated table into a crash replay",
                       "what loaders must establish beyond the gate (rows >= 1, guard frames) is checked on their real output, not proved"]
    ck.finish()

V.main_wrap(main)
