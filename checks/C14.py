# C14 — the mixer is linear: mute means silence, channels superpose, separation mirrors.
import os, sys, json, struct
import vcommon as V

SUR = 0x8000

def parse_runs(out):
    runs = []
    for blk in out.split("ENDRUN\n"):
        if not blk.strip(): continue
        r = {"hdr": None, "frames": []}
        for l in blk.split("\n"):
            if l.startswith("R "): r["hdr"] = [int(x) for x in l.split()[1:]]
            elif l.startswith("A"): r["frames"].append({"A": [int(x) for x in l.split()[1:]], "V": []})
            elif l.startswith("P ") and r["frames"]: r["frames"][-1]["P"] = l[2:]
            elif l.startswith("V ") and r["frames"]: r["frames"][-1]["V"].append([int(x) for x in l.split()[1:]])
            elif l.startswith("C") and r["frames"] and not l.startswith("C1"): r["frames"][-1]["C"] = [int(x) for x in l.split()[1:]]
            elif l.startswith("U ") and r["frames"]: r["frames"][-1]["U"] = [int(x) for x in l.split()[1:]]
        runs.append(r)
    return runs

def pcm16(hexs):
    if hexs == "-": return []
    b = bytes.fromhex(hexs)
    return list(struct.unpack("<%dh" % (len(b) // 2), b))

SURVEY_CFGS = ("mute=ffffffffffffffff zonly", "mvol=0 zonly", "mute=ffffffffffffffff zonly repos=13")

def main():
    tier = sys.argv[1] if len(sys.argv) > 1 else "quick"
    replay = sys.argv[sys.argv.index("--replay") + 1] if "--replay" in sys.argv else None
    ck = V.Check("C14", tier)
    rng = ck.rng
    ck.proof_leg(["Extract/Extract_mixer.vo"])
    drv = V.build_driver("c14_drv", ["c14_drv.c"])
    model = V.ocaml_build("mixer")
    env = V.san_env()
    mods = []
    if replay:
        rp = json.load(open(replay)); mods = [] if rp.get("survey") else [(os.path.join(V.REPO, rp["path"]), rp["rate"], rp["format"], rp["frames"], rp["interp"], rp.get("sep", 40))]
    else:
        files = [f for f in V.corpus_files() if os.path.getsize(f) < 600000]
        pick = sorted(rng.sample(files, min(len(files), 26 if tier == "quick" else 400)))
        # modules that have background (new-note-action) voices within their first 50 frames: those of a muted channel must be silent too
        pick += [f for f in files if os.path.basename(f) in ("DNA-NoInstr.it", "SwapNNA.it", "dct_smp_note_test.it", "duplicate_check_transpose.it", "it_fade_env_reset.it", "it_note_delay_nna.it", "portamento_nna_sample.it") and f not in pick]
        for f in pick:
            mods.append((f, rng.choice((8000, 11025, 22050, 44100)), 0, 50 if tier == "quick" else 120, rng.choice((0, 1, 2)), rng.choice((10, 30, 50, 70, 100))))
    stats = {"modules": 0, "solo_runs": 0, "frames_summed": 0, "samples_summed": 0, "gain_checks": 0, "skipped_many_channels": 0, "skipped_eviction_frames": 0,
             "sep_checked": 0, "sep_skipped_stereo_or_surround": 0, "silence_runs": 0, "clipped_samples_skipped": 0}
    for (path, rate, fmt, frames, interp, sepv) in mods:
        rel = os.path.relpath(path, V.REPO)
        base = "%s\t%d\t%d\t%d\t%d\t" % (path, rate, fmt, frames, interp)
        # half of the modules are rendered with a position-control call every few frames (the same calls in the full, solo, muted and
        # separation runs): what the application set - mutes, master volume, separation - must hold across repositioning
        repos = ("repos=%d " % rng.choice((3, 7, 11))) if (replay is None and rng.random() < 0.5) else (rp.get("repos", "") if replay else "")
        base = base + repos
        r0 = V.run([drv], inp=base + "\n", env=env, timeout=600)
        if r0.returncode != 0:
            ck.violation({"path": rel, "rate": rate, "format": fmt, "frames": frames, "interp": interp, "broken": "sanitizer report / crash while rendering", "stderr": r0.stderr[-2000:]}, key="c14-crash"); continue
        full = parse_runs(r0.stdout)
        if not full or not full[0]["hdr"] or not full[0]["frames"]:
            continue
        chn, amp, _, stereo_smp, mvol, mvolbase, maxvoc = full[0]["hdr"]
        full = full[0]
        if chn > (8 if tier == "quick" else 32):
            stats["skipped_many_channels"] += 1; continue
        stats["modules"] += 1
        rep = {"path": rel, "rate": rate, "format": fmt, "frames": frames, "interp": interp, "sep": sepv, "repos": repos}
        allmask = (1 << chn) - 1
        cfgs = ["mute=%x" % (allmask & ~(1 << c)) for c in range(chn)] + ["mute=%x" % allmask, "mvol=0", "sep=%d" % sepv, "sep=%d" % -sepv, "sep=0", "sep=100"]
        rr = V.run([drv], inp="".join(base + c + "\n" for c in cfgs), env=env, timeout=1200)
        runs = parse_runs(rr.stdout)
        if rr.returncode != 0 or len(runs) != len(cfgs):
            ck.violation(dict(rep, broken="sanitizer report / crash while rendering a configuration", stderr=rr.stderr[-2000:]), key="c14-crash"); continue
        solos = runs[:chn]; muted, mv0, sp, sn, s0, s100 = runs[chn:]
        ck.count()
        bad = None
        # --- (1) silence
        for name, r in (("all channels muted", muted), ("master volume 0", mv0)):
            stats["silence_runs"] += 1
            for k, fr in enumerate(r["frames"]):
                if any(fr["A"]) or any(pcm16(fr.get("P", "-"))):
                    bad = bad or ("c14:silence", "%s: frame %d is not silent" % (name, k)); break
        # --- (2) superposition: model sums the solo accumulators; must equal the full mix's accumulator, exactly
        minp = []; where = []
        nfr = min([len(full["frames"])] + [len(s["frames"]) for s in solos])
        for k in range(nfr):
            A = full["frames"][k]["A"]
            if any(len(s["frames"][k]["A"]) != len(A) for s in solos):
                bad = bad or ("c14:ticksize", "frame %d: tick size differs between the full and a solo render" % k); continue
            evict = full["frames"][k].get("U", [0, 1]);
            if evict[0] >= evict[1] and any(len(s["frames"][k]["V"]) for s in solos) and maxvoc > chn:
                stats["skipped_eviction_frames"] += 1; continue          # voice limit reached: the property excludes it
            minp.append("SUM %d | %s" % (len(A), " | ".join(" ".join(map(str, s["frames"][k]["A"])) for s in solos)))
            where.append(k)
        # gains of every live voice in the full render, and the mirrored pans
        gq = []; gexp = []
        for k in range(nfr):
            for v in full["frames"][k]["V"]:
                voc, c, root, vol, pan, ovl, ovr = v
                gq.append("G %d %d %d %d %d" % (vol, mvol, mvolbase, 0 if pan == SUR else pan, 1 if pan == SUR else 0)); gexp.append((k, v))
        mr = V.run([model], inp="\n".join(minp + gq) + "\n", timeout=1200)
        mo = mr.stdout.split("\n")
        if mr.returncode != 0 or len([l for l in mo if l]) != len(minp) + len(gq):
            raise V.BuildError("the extracted mixer model did not answer every query (exit %s, %d of %d lines): %s" % (mr.returncode, len([l for l in mo if l]), len(minp) + len(gq), mr.stderr[-500:]))
        for j, k in enumerate(where):
            A = full["frames"][k]["A"]
            got = [int(x) for x in mo[j].split()] if j < len(mo) and mo[j] and mo[j] != "?" else None
            stats["frames_summed"] += 1; stats["samples_summed"] += len(A)
            if got != A:
                idx = next((i for i in range(len(A)) if got is None or i >= len(got) or got[i] != A[i]), 0)
                bad = bad or ("c14:superpose", "frame %d sample %d: full mix accumulator %d, sum of the %d solo accumulators %s" % (k, idx, A[idx], chn, got[idx] if got and idx < len(got) else None))
                break
            # and on the PCM: within one step per channel where nothing clips
            pf = pcm16(full["frames"][k].get("P", "-")); ps = [pcm16(s["frames"][k].get("P", "-")) for s in solos]
            for i in range(len(pf)):
                vals = [p[i] for p in ps]
                if abs(pf[i]) >= 32767 or any(abs(x) >= 32767 for x in vals):
                    stats["clipped_samples_skipped"] += 1; continue
                d = pf[i] - sum(vals)
                if not (0 <= d <= max(0, chn - 1)):
                    bad = bad or ("c14:pcm-step", "frame %d sample %d: PCM %d vs sum of solo PCM %d (difference outside 0..%d)" % (k, i, pf[i], sum(vals), chn - 1)); break
        for j, (k, v) in enumerate(gexp):
            line = mo[len(minp) + j] if len(minp) + j < len(mo) else "?"
            voc, c, root, vol, pan, ovl, ovr = v
            stats["gain_checks"] += 1
            if line.split() != [str(ovl), str(ovr)] and (ovl, ovr) != (0, 0):
                bad = bad or ("c14:gains", "frame %d voice %d: vol %d pan %d -> mixer gains (%d, %d), model %s" % (k, voc, vol, pan, ovl, ovr, line)); break
        # --- (3) separation
        surround = any(v[4] == SUR for r in (sp, sn, s0) for fr in r["frames"] for v in fr["V"])
        if stereo_smp or surround:
            stats["sep_skipped_stereo_or_surround"] += 1
        else:
            stats["sep_checked"] += 1
            for k in range(min(len(sp["frames"]), len(sn["frames"]), len(s0["frames"]))):
                a, b, z = sp["frames"][k]["A"], sn["frames"][k]["A"], s0["frames"][k]["A"]
                sw = [a[i ^ 1] for i in range(len(a))]
                if b != sw:
                    bad = bad or ("c14:mirror", "frame %d: separation -%d is not the left/right swap of +%d" % (k, sepv, sepv)); break
                if any(z[i] != z[i + 1] for i in range(0, len(z) - 1, 2)):
                    bad = bad or ("c14:centre", "frame %d: separation 0 gives different left and right" % k); break
                pa, pb = pcm16(sp["frames"][k].get("P", "-")), pcm16(sn["frames"][k].get("P", "-"))
                if pb != [pa[i ^ 1] for i in range(len(pa))]:
                    bad = bad or ("c14:mirror", "frame %d: PCM of separation -%d is not the swap of +%d" % (k, sepv, sepv)); break
            # the separation scaling itself: the pan reported at separation 100 is the unscaled one
            sq = []; sexp = []
            for k in range(min(len(sp["frames"]), len(sn["frames"]), len(s100["frames"]))):
                for c in range(chn):
                    raw = s100["frames"][k]["C"][c]
                    if raw == 0 and sp["frames"][k]["C"][c] == 0 and sn["frames"][k]["C"][c] == 0:
                        continue        # channel not processed yet: xmp_channel_info.pan still at its initial 0 in all three renders
                    for sv, r in ((sepv, sp), (-sepv, sn)):
                        sq.append("S 0 0 %d %d" % (raw, sv)); sexp.append((k, c, sv, raw, r["frames"][k]["C"][c] - 128))
            so = V.run([model], inp="\n".join(sq) + "\n", timeout=600).stdout.split("\n") if sq else []
            for j, (k, c, sv, raw, got) in enumerate(sexp):
                stats["pan_scaling_checks"] = stats.get("pan_scaling_checks", 0) + 1
                if j >= len(so) or so[j].strip() != str(got):
                    bad = bad or ("c14:sep-pan", "frame %d channel %d: pan %d at separation 100 becomes %d at separation %d, model %s" % (k, c, raw, got + 128, sv, so[j] if j < len(so) else "?")); break
        stats["solo_runs"] += chn
        if bad:
            ck.violation(dict(rep, what=bad[1], broken="C14 clause on the implementation / correspondence of Model/Mixer.v with mixer.c"), key=bad[0])
        else:
            ck.nontrivial((rel, rate, interp, sepv))
            if len(ck.cov["samples"]) < 2:
                ck.sample({"module": rel, "channels": chn, "rate": rate, "interp": interp, "frames": nfr})
    # ---- silence survey over many more modules and whole passages: all channels muted / master volume 0 must give zero accumulators and PCM
    if not replay or json.load(open(replay)).get("survey"):
        if replay:
            sv = [os.path.join(V.REPO, json.load(open(replay))["path"])]
        else:
            files = [f for f in V.corpus_files() if os.path.getsize(f) < 600000]
            sv = sorted(rng.sample(files, min(len(files), 220 if tier == "quick" else len(files))))
            sv += [f for f in files if any(t in os.path.basename(f).lower() for t in ("tremolo", "tremor", "nna", "volenv", "vol-env", "macro", "filter")) and f not in sv]
        lines = []
        for f in sv:
            for cfg in SURVEY_CFGS:
                lines.append("%s\t22050\t0\t%d\t1\t%s\n" % (f, 400 if tier == "quick" else 3000, cfg))
        rs = V.run([drv], inp="".join(lines), env=env, timeout=6000)
        blocks = rs.stdout.split("ENDRUN\n")
        for j, l in enumerate(lines):
            if j >= len(blocks): break
            z = next((x.split() for x in blocks[j].split("\n") if x.startswith("Z ")), None)
            if not z: continue
            stats["survey_runs"] = stats.get("survey_runs", 0) + 1; stats["survey_frames"] = stats.get("survey_frames", 0) + int(z[1])
            ck.count()
            if int(z[2]) != 0:
                f = sv[j // len(SURVEY_CFGS)]; cname = ("all channels muted", "master volume 0", "all channels muted, a position-control call every 13 frames")[j % len(SURVEY_CFGS)]
                ck.violation({"survey": True, "path": os.path.relpath(f, V.REPO), "config": cname,
                              "what": "%s: %s samples are not silent, first in frame %s" % (cname, z[2], z[3]),
                              "rate": 22050, "format": 0, "frames": 400, "interp": 1,
                              "broken": "C14 silence clause on the implementation"}, key="c14:silence")
            else:
                ck.nontrivial(("survey", sv[j // len(SURVEY_CFGS)], j % len(SURVEY_CFGS)))
        if rs.returncode != 0:
            ck.violation({"survey": True, "path": os.path.relpath(sv[min(len(blocks) - 1, len(lines) - 1) // len(SURVEY_CFGS)], V.REPO), "broken": "sanitizer report / crash in the silence survey", "stderr": rs.stderr[-2000:]}, key="c14-crash")
    ck.engine_stat("mixer", **stats)
    ck.cov["rule"] = ("corpus modules with <= 8 (thorough: 32) channels, random rate / interpolation / separation; per module: full render, one solo render per channel, all-muted, master volume 0, "
                      "separation +s / -s / 0; per frame the 32-bit accumulator buffer (s->buf32), the PCM and every live voice's vol/pan/gains are read from the private mixer state; "
                      "the extracted model sums the solo accumulators (must equal the full accumulator exactly), computes each voice's gains, and the PCM / mirror / silence clauses are evaluated directly")
    ck.assumptions += ["interpolation kernels, filters and the anticlick ramp are per-voice functions outside the model: the model takes each voice's (or channel's) contribution as given and proves what addition does to them",
                       "frames in which the voice limit is reached are excluded, as the property says; int32 overflow of the accumulator is outside the model"]
    ck.finish()

V.main_wrap(main)
