# C14 — the mixer is linear: mute means silence, channels superpose, separation mirrors.
import os, sys, json, struct, tempfile, shutil
import vcommon as V

SUR = 0x8000

def parse_runs(out):
    runs = []
    for blk in out.split("ENDRUN\n"):
        if not blk.strip(): continue
        r = {"hdr": None, "frames": []}
        for l in blk.split("\n"):
            if l.startswith("R "): r["hdr"] = [int(x) for x in l.split()[1:]]
            elif l.startswith("A"): r["frames"].append({"A": [int(x) for x in l.split()[1:]], "V": []})
            elif l.startswith("P ") and r["frames"]: r["frames"][-1]["P"] = l[2:]
            elif l.startswith("V ") and r["frames"]: r["frames"][-1]["V"].append([int(x) for x in l.split()[1:]])
            elif l.startswith("C") and r["frames"] and not l.startswith("C1"): r["frames"][-1]["C"] = [int(x) for x in l.split()[1:]]
            elif l.startswith("U ") and r["frames"]: r["frames"][-1]["U"] = [int(x) for x in l.split()[1:]]
        runs.append(r)
    return runs

def pcm16(hexs):
    if hexs == "-": return []
    b = bytes.fromhex(hexs)
    return list(struct.unpack("<%dh" % (len(b) // 2), b))

def kernel_case(rng):
    """one call of one of the 40 kernels of mix_all.c: sample memory sized from the closed-form positions (Model/MixKernel.v pos_at) so
    that every read the model makes is inside it - an exact-size heap block in the driver, so a read outside it is an ASan report"""
    interp = rng.choice(("nearest", "linear", "spline"))
    flt = interp != "nearest" and rng.random() < 0.5
    wide = rng.randrange(2); sin = rng.randrange(2); sout = rng.randrange(2)
    nm = "%s_%s_%s_%s%s" % ("stereoout" if sout else "monoout", "stereo" if sin else "mono", "16bit" if wide else "8bit", interp, "_filter" if flt else "")
    chn = 2 if sin else 1
    count = rng.choice((0, 1, 2, 3, 5, 8, 17, 40, rng.randrange(0, 120)))
    ramp = rng.choice((0, 0, count, count // 2, count + 3, rng.randrange(0, count + 1)))
    step = rng.choice((0, 1, 65535, 65536, 65537, 32768, 3 * 65536 + 17, rng.randrange(0, 4 << 16), -rng.randrange(0, 4 << 16), -65536, -1, rng.randrange(-(20 << 16), 20 << 16)))
    pos = rng.randrange(0, 50); frac = rng.choice((0, 1, 32767, 32768, 65535, rng.randrange(65536)))
    f0 = frac + (32768 if interp == "nearest" else 0)
    frames = [pos + ((f0 + k * step) >> 16) for k in range(max(count, 1))]
    back = 1 if interp == "spline" else 0; fwd = {"nearest": 0, "linear": 1, "spline": 2}[interp]
    # exactly the window the theorem kernel_reads_in_window needs most of the time; sometimes wider
    slack = rng.choice((0, 0, 0, 1, 3))
    lo = min(frames) - back - slack; hi = max(frames) + fwd + slack
    nbefore = max(0, -lo) if lo < 0 else 0
    if lo > 0 and rng.random() < 0.5: nbefore = -lo           # memory that starts after sample position 0
    total = hi + 1 + nbefore
    val = (lambda: rng.choice((-32768, 32767, 0, rng.randrange(-32768, 32768)))) if wide else (lambda: rng.choice((-128, 127, 0, rng.randrange(-128, 128))))
    data = [val() for _ in range(total * chn)]
    base = nbefore * chn
    vl = rng.choice((0, 64, -64, rng.randrange(-4096, 4097))); vr = rng.choice((0, 64, rng.randrange(-4096, 4097)))
    dl = rng.choice((0, 0, rng.randrange(-3000, 3000))); dr = rng.choice((0, 0, rng.randrange(-3000, 3000)))
    ovl = rng.randrange(-(1 << 20), 1 << 20); ovr = rng.randrange(-(1 << 20), 1 << 20)
    a0 = rng.randrange(0, 1 << 22); b0 = rng.randrange(-(1 << 22), 1 << 23); b1 = rng.randrange(-(1 << 22), 1 << 22)
    if rng.random() < 0.3: a0, b0, b1 = 1 << 22, 0, 0
    fl = lambda: rng.choice((0, rng.randrange(-(1 << 31), (1 << 31) - 32768), rng.randrange(-(1 << 20), 1 << 20)))
    l1, l2, r1, r2 = fl(), fl(), fl(), fl()
    nb = count * (2 if sout else 1) + rng.choice((0, 0, 3))
    buf = [rng.choice((0, rng.randrange(-(1 << 24), 1 << 24))) for _ in range(nb)]
    return "%s %d %d %d %d %d %d %d %d %d %d %d %d %d %d %d %d %d %d %d %d %d | %s | %s" % (
        nm, wide, sin, count, ramp, vl, vr, step, dl, dr, a0, b0, b1, l1, l2, r1, r2, ovl, ovr, pos, frac, base, " ".join(map(str, data)), " ".join(map(str, buf)))

def kernel_variants(l):
    """the C14 clauses at kernel level, asked of the implementation itself: the same call (z) on a zeroed buffer, (s) with the two gains,
    their previous values and their ramp steps exchanged (mono sample, stereo output), (g) with both gains 0 and no ramp"""
    head, data, buf = l.split("|")
    h = head.split(); nb = len(buf.split())
    name, count, ramp = h[0], int(h[3]), int(h[4])
    out = {"z": "%s|%s| %s" % (head, data, " ".join(["0"] * nb))}
    if "stereoout_mono" in name:
        w = list(h); w[5], w[6] = h[6], h[5]; w[8], w[9] = h[9], h[8]; w[17], w[18] = h[18], h[17]
        out["s"] = "%s |%s|%s" % (" ".join(w), data, buf)
    w = list(h); w[5] = w[6] = "0"; w[4] = str(max(count, ramp))
    out["g"] = "%s |%s|%s" % (" ".join(w), data, buf)
    return out

def kernel_clauses(l, res, var, vres):
    """None, or what fails.  res / vres: driver output lines 'R b.. | l1 l2 r1 r2'"""
    def parse(x):
        if not x.startswith("R"): return None
        b, f = x[1:].split("|"); return [int(v) for v in b.split()], f.split()
    buf0 = [int(v) for v in l.split("|")[2].split()]
    r = parse(res)
    if r is None: return None
    for k, vl in var.items():
        v = parse(vres.get(k, ""))
        if v is None: return "variant %s: no answer" % k
        if k == "z":
            if [x - y for x, y in zip(r[0], buf0)] != v[0]: return "what the kernel adds to the buffer depends on what the buffer held (same call on a zeroed buffer adds something else)"
            if r[1] != v[1]: return "the filter history after the call depends on what the buffer held"
        elif k == "s":
            d = [x - y for x, y in zip(r[0], buf0)]; e = [x - y for x, y in zip(v[0], buf0)]
            n = 2 * int(l.split()[3])
            if any(d[i] != e[i ^ 1] for i in range(min(n, len(d) - len(d) % 2))): return "exchanging the left and right gains does not exchange the left and right contributions"
        elif k == "g":
            if v[0] != buf0: return "gains 0 without a ramp: the kernel changes the buffer"
    return None

def kernel_leg(ck, tier, replay):
    """Model/MixKernel.v against the compiled kernels of src/mix_all.c, called directly; and the kernel-level clauses of C14 (what a
    kernel adds does not depend on the buffer, zero gains add nothing, exchanged gains exchange the channels) asked of the compiled
    kernels themselves - the search for a failing input when the correspondence breaks"""
    rng = ck.rng
    model = V.ocaml_build("mixkernel"); drv = V.build_driver("kern_drv", ["kern_drv.c"])
    rp = json.load(open(replay)) if replay else None
    lines = [rp["case"]] if replay else [kernel_case(rng) for _ in range(12000 if tier == "quick" else 400000)]
    stats = {"kernel_calls": len(lines), "kernels_covered": len(set(l.split(" ", 1)[0] for l in lines)), "disagreements": 0, "frames_mixed": 0, "clause_checks": 0, "clause_failures": 0}
    first_bad = None
    for off in range(0, len(lines), 10000):
        chunk = lines[off:off + 10000]
        inp = "\n".join(chunk) + "\n"
        mo = V.run([model], inp=inp, timeout=3000).stdout.split("\n")
        rc = V.run([drv], inp=inp, env=V.san_env(), timeout=3000)
        co = rc.stdout.split("\n")
        # the clauses on the implementation
        vs = [kernel_variants(l) for l in chunk]
        vin = [v[k] for v in vs for k in sorted(v)]
        vo = V.run([drv], inp="\n".join(vin) + "\n", env=V.san_env(), timeout=3000).stdout.split("\n")
        j = 0
        for i, l in enumerate(chunk):
            ck.count()
            m = mo[i] if i < len(mo) else "?"; c = co[i] if i < len(co) else "(no output: the driver stopped)"
            vres = {}
            for k in sorted(vs[i]):
                vres[k] = vo[j] if j < len(vo) else ""; j += 1
            if m == "OOB":
                raise V.BuildError("Model/MixKernel.v leaves the sample memory although the window holds every position of pos_at: theorem kernel_reads_in_window would be false (%s)" % l[:120])
            why = kernel_clauses(l, c, vs[i], vres); stats["clause_checks"] += len(vs[i])
            if why:
                stats["clause_failures"] += 1
                if stats["clause_failures"] <= 3:
                    ck.violation({"engine": "kernel", "case": l, "kernel": l.split(" ", 1)[0], "what": "kernel %s: %s" % (l.split(" ", 1)[0], why),
                                  "broken": "C14 on the implementation: a kernel of src/mix_all.c is not an accumulation of a buffer-independent, gain-linear contribution"}, key="c14:kernel-clause")
            if m != c:
                stats["disagreements"] += 1
                if first_bad is None: first_bad = {"case": l, "expected_model": m[:1500], "got_impl": c[:1500], "stderr": rc.stderr[-1000:] if i >= len(co) - 1 else ""}
                if i >= len(co) - 1: break
            elif not why:
                ck.nontrivial(("kern", l.split(" ", 1)[0], i % 7)); stats["frames_mixed"] += int(l.split()[3])
        if rc.returncode != 0 and not stats["disagreements"]:
            ck.violation({"engine": "kernel", "broken": "sanitizer report / crash inside a kernel of mix_all.c", "stderr": rc.stderr[-1500:]}, key="c14-kernel-crash")
    if stats["disagreements"] and not stats["clause_failures"]:
        # the correspondence broke and no clause of the property fails on any generated call: reported as such (no-failing-input-found)
        ck.broken.append("correspondence Model/MixKernel.v vs src/mix_all.c: %d of %d kernel calls differ, first: %s" % (stats["disagreements"], len(lines), first_bad["case"].split(" ", 1)[0]))
        ck.proof_log = json.dumps(first_bad)[:6000]
    ck.engine_stat("kernels", **stats)

def filter_modules(rng, d, n):
    """generated IT modules (sample mode) in which channels take turns playing notes through resonant low-pass filters (Zxx cutoff and
    resonance) and are stopped by note cuts, so that a voice slot freed by one channel is picked up by the next one's filtered note:
    what a recycled voice inherits (filter history, ramp levels) must not depend on whether the previous owner was audible"""
    sys.path.insert(0, os.path.join(V.VERIF, "gen"))
    import modgen
    out = []
    for k in range(n):
        chn = rng.choice((2, 2, 3, 4)); rows = 48
        pat = modgen.empty_pattern(rows, chn)
        r = 0; c = 0
        while r < rows - 8:
            note = rng.choice((49, 52, 56, 61, 64))
            pat[r][c] = {'note': note, 'ins': 1, 'vol': rng.choice((64, 48, 32)), 'fx': ('raw', (26, rng.choice((0x20, 0x28, 0x30, 0x38, 0x50))))}
            pat[r + 1][c] = {'fx': ('raw', (26, 0x80 | rng.choice((4, 8, 10, 15))))}
            ln = rng.choice((4, 5, 6, 7))
            pat[r + ln][c] = {'note': 254}
            if rng.random() < 0.5 and chn > 2:
                c2 = (c + 2) % chn
                if pat[r + 2][c2] is None: pat[r + 2][c2] = {'note': rng.choice((37, 44)), 'ins': 1, 'vol': 40}
            r += ln + rng.choice((0, 1, 1, 2)); c = (c + 1) % chn
        song = {'chn': chn, 'orders': [0], 'patterns': [pat], 'speed': rng.choice((2, 3, 4)), 'bpm': 125, 'name': 'c14 filter %d' % k}
        pth = os.path.join(d, "filter%02d.it" % k); open(pth, "wb").write(modgen.write_it(song)); out.append(pth)
    return out


SURVEY_CFGS = ("mute=ffffffffffffffff zonly", "mvol=0 zonly", "mute=ffffffffffffffff zonly repos=13")

def main():
    tier = sys.argv[1] if len(sys.argv) > 1 else "quick"
    replay = sys.argv[sys.argv.index("--replay") + 1] if "--replay" in sys.argv else None
    ck = V.Check("C14", tier)
    rng = ck.rng
    ck.proof_leg(["Extract/Extract_mixer.vo", "Extract/Extract_mixkernel.vo"])
    if replay and json.load(open(replay)).get("engine") == "kernel":
        kernel_leg(ck, tier, replay); ck.finish(); return
    drv = V.build_driver("c14_drv", ["c14_drv.c"])
    model = V.ocaml_build("mixer")
    env = V.san_env()
    mods = []
    if replay:
        rp = json.load(open(replay)); mods = [] if rp.get("survey") else [(os.path.join(V.REPO, rp["path"]), rp["rate"], rp["format"], rp["frames"], rp["interp"], rp.get("sep", 40))]
    else:
        files = [f for f in V.corpus_files() if os.path.getsize(f) < 600000]
        pick = sorted(rng.sample(files, min(len(files), 26 if tier == "quick" else 400)))
        # modules that have background (new-note-action) voices within their first 50 frames: those of a muted channel must be silent too
        pick += [f for f in files if os.path.basename(f) in ("DNA-NoInstr.it", "SwapNNA.it", "dct_smp_note_test.it", "duplicate_check_transpose.it", "it_fade_env_reset.it", "it_note_delay_nna.it", "portamento_nna_sample.it") and f not in pick]
        for f in pick:
            mods.append((f, rng.choice((8000, 11025, 22050, 44100)), 0, 50 if tier == "quick" else 120, rng.choice((0, 1, 2)), rng.choice((10, 30, 50, 70, 100))))
        gendir = tempfile.mkdtemp(prefix="vp-c14-", dir="/var/tmp")
        for f in filter_modules(rng, gendir, 8 if tier == "quick" else 120):
            mods.append((f, rng.choice((22050, 44100)), 0, 70, rng.choice((1, 2)), rng.choice((30, 100))))
    stats = {"modules": 0, "solo_runs": 0, "frames_summed": 0, "samples_summed": 0, "gain_checks": 0, "skipped_many_channels": 0, "skipped_eviction_frames": 0,
             "sep_checked": 0, "sep_skipped_stereo_or_surround": 0, "silence_runs": 0, "clipped_samples_skipped": 0}
    for (path, rate, fmt, frames, interp, sepv) in mods:
        rel = os.path.relpath(path, V.REPO)
        base = "%s\t%d\t%d\t%d\t%d\t" % (path, rate, fmt, frames, interp)
        # half of the modules are rendered with a position-control call every few frames (the same calls in the full, solo, muted and
        # separation runs): what the application set - mutes, master volume, separation - must hold across repositioning
        repos = ("repos=%d " % rng.choice((3, 7, 11))) if (replay is None and rng.random() < 0.5) else (rp.get("repos", "") if replay else "")
        base = base + repos
        r0 = V.run([drv], inp=base + "\n", env=env, timeout=600)
        if r0.returncode != 0:
            ck.violation({"path": rel, "rate": rate, "format": fmt, "frames": frames, "interp": interp, "broken": "sanitizer report / crash while rendering", "stderr": r0.stderr[-2000:]}, key="c14-crash"); continue
        full = parse_runs(r0.stdout)
        if not full or not full[0]["hdr"] or not full[0]["frames"]:
            continue
        chn, amp, _, stereo_smp, mvol, mvolbase, maxvoc = full[0]["hdr"]
        full = full[0]
        if chn > (8 if tier == "quick" else 32):
            stats["skipped_many_channels"] += 1; continue
        stats["modules"] += 1
        rep = {"path": rel, "rate": rate, "format": fmt, "frames": frames, "interp": interp, "sep": sepv, "repos": repos}
        allmask = (1 << chn) - 1
        cfgs = ["mute=%x" % (allmask & ~(1 << c)) for c in range(chn)] + ["mute=%x" % allmask, "mvol=0", "sep=%d" % sepv, "sep=%d" % -sepv, "sep=0", "sep=100"]
        rr = V.run([drv], inp="".join(base + c + "\n" for c in cfgs), env=env, timeout=1200)
        runs = parse_runs(rr.stdout)
        if rr.returncode != 0 or len(runs) != len(cfgs):
            ck.violation(dict(rep, broken="sanitizer report / crash while rendering a configuration", stderr=rr.stderr[-2000:]), key="c14-crash"); continue
        solos = runs[:chn]; muted, mv0, sp, sn, s0, s100 = runs[chn:]
        ck.count()
        bad = None
        # --- (1) silence
        for name, r in (("all channels muted", muted), ("master volume 0", mv0)):
            stats["silence_runs"] += 1
            for k, fr in enumerate(r["frames"]):
                if any(fr["A"]) or any(pcm16(fr.get("P", "-"))):
                    bad = bad or ("c14:silence", "%s: frame %d is not silent" % (name, k)); break
        # --- (2) superposition: model sums the solo accumulators; must equal the full mix's accumulator, exactly
        minp = []; where = []
        nfr = min([len(full["frames"])] + [len(s["frames"]) for s in solos])
        for k in range(nfr):
            A = full["frames"][k]["A"]
            if any(len(s["frames"][k]["A"]) != len(A) for s in solos):
                bad = bad or ("c14:ticksize", "frame %d: tick size differs between the full and a solo render" % k); continue
            evict = full["frames"][k].get("U", [0, 1]);
            if evict[0] >= evict[1] and any(len(s["frames"][k]["V"]) for s in solos) and maxvoc > chn:
                stats["skipped_eviction_frames"] += 1; continue          # voice limit reached: the property excludes it
            minp.append("SUM %d | %s" % (len(A), " | ".join(" ".join(map(str, s["frames"][k]["A"])) for s in solos)))
            where.append(k)
        # gains of every live voice in the full render, and the mirrored pans
        gq = []; gexp = []
        for k in range(nfr):
            for v in full["frames"][k]["V"]:
                voc, c, root, vol, pan, ovl, ovr = v
                gq.append("G %d %d %d %d %d" % (vol, mvol, mvolbase, 0 if pan == SUR else pan, 1 if pan == SUR else 0)); gexp.append((k, v))
        mr = V.run([model], inp="\n".join(minp + gq) + "\n", timeout=1200)
        mo = mr.stdout.split("\n")
        if mr.returncode != 0 or len([l for l in mo if l]) != len(minp) + len(gq):
            raise V.BuildError("the extracted mixer model did not answer every query (exit %s, %d of %d lines): %s" % (mr.returncode, len([l for l in mo if l]), len(minp) + len(gq), mr.stderr[-500:]))
        for j, k in enumerate(where):
            A = full["frames"][k]["A"]
            got = [int(x) for x in mo[j].split()] if j < len(mo) and mo[j] and mo[j] != "?" else None
            stats["frames_summed"] += 1; stats["samples_summed"] += len(A)
            if got != A:
                idx = next((i for i in range(len(A)) if got is None or i >= len(got) or got[i] != A[i]), 0)
                bad = bad or ("c14:superpose", "frame %d sample %d: full mix accumulator %d, sum of the %d solo accumulators %s" % (k, idx, A[idx], chn, got[idx] if got and idx < len(got) else None))
                break
            # and on the PCM: within one step per channel where nothing clips
            pf = pcm16(full["frames"][k].get("P", "-")); ps = [pcm16(s["frames"][k].get("P", "-")) for s in solos]
            for i in range(len(pf)):
                vals = [p[i] for p in ps]
                if abs(pf[i]) >= 32767 or any(abs(x) >= 32767 for x in vals):
                    stats["clipped_samples_skipped"] += 1; continue
                d = pf[i] - sum(vals)
                if not (0 <= d <= max(0, chn - 1)):
                    bad = bad or ("c14:pcm-step", "frame %d sample %d: PCM %d vs sum of solo PCM %d (difference outside 0..%d)" % (k, i, pf[i], sum(vals), chn - 1)); break
        for j, (k, v) in enumerate(gexp):
            line = mo[len(minp) + j] if len(minp) + j < len(mo) else "?"
            voc, c, root, vol, pan, ovl, ovr = v
            stats["gain_checks"] += 1
            if line.split() != [str(ovl), str(ovr)] and (ovl, ovr) != (0, 0):
                bad = bad or ("c14:gains", "frame %d voice %d: vol %d pan %d -> mixer gains (%d, %d), model %s" % (k, voc, vol, pan, ovl, ovr, line)); break
        # --- (3) separation
        surround = any(v[4] == SUR for r in (sp, sn, s0) for fr in r["frames"] for v in fr["V"])
        if stereo_smp or surround:
            stats["sep_skipped_stereo_or_surround"] += 1
        else:
            stats["sep_checked"] += 1
            for k in range(min(len(sp["frames"]), len(sn["frames"]), len(s0["frames"]))):
                a, b, z = sp["frames"][k]["A"], sn["frames"][k]["A"], s0["frames"][k]["A"]
                sw = [a[i ^ 1] for i in range(len(a))]
                if b != sw:
                    bad = bad or ("c14:mirror", "frame %d: separation -%d is not the left/right swap of +%d" % (k, sepv, sepv)); break
                if any(z[i] != z[i + 1] for i in range(0, len(z) - 1, 2)):
                    bad = bad or ("c14:centre", "frame %d: separation 0 gives different left and right" % k); break
                pa, pb = pcm16(sp["frames"][k].get("P", "-")), pcm16(sn["frames"][k].get("P", "-"))
                if pb != [pa[i ^ 1] for i in range(len(pa))]:
                    bad = bad or ("c14:mirror", "frame %d: PCM of separation -%d is not the swap of +%d" % (k, sepv, sepv)); break
            # the separation scaling itself: the pan reported at separation 100 is the unscaled one
            sq = []; sexp = []
            for k in range(min(len(sp["frames"]), len(sn["frames"]), len(s100["frames"]))):
                for c in range(chn):
                    raw = s100["frames"][k]["C"][c]
                    if raw == 0 and sp["frames"][k]["C"][c] == 0 and sn["frames"][k]["C"][c] == 0:
                        continue        # channel not processed yet: xmp_channel_info.pan still at its initial 0 in all three renders
                    for sv, r in ((sepv, sp), (-sepv, sn)):
                        sq.append("S 0 0 %d %d" % (raw, sv)); sexp.append((k, c, sv, raw, r["frames"][k]["C"][c] - 128))
            so = V.run([model], inp="\n".join(sq) + "\n", timeout=600).stdout.split("\n") if sq else []
            for j, (k, c, sv, raw, got) in enumerate(sexp):
                stats["pan_scaling_checks"] = stats.get("pan_scaling_checks", 0) + 1
                if j >= len(so) or so[j].strip() != str(got):
                    bad = bad or ("c14:sep-pan", "frame %d channel %d: pan %d at separation 100 becomes %d at separation %d, model %s" % (k, c, raw, got + 128, sv, so[j] if j < len(so) else "?")); break
        stats["solo_runs"] += chn
        if bad:
            ck.violation(dict(rep, what=bad[1], broken="C14 clause on the implementation / correspondence of Model/Mixer.v with mixer.c"), key=bad[0])
        else:
            ck.nontrivial((rel, rate, interp, sepv))
            if len(ck.cov["samples"]) < 2:
                ck.sample({"module": rel, "channels": chn, "rate": rate, "interp": interp, "frames": nfr})
    # ---- silence survey over many more modules and whole passages: all channels muted / master volume 0 must give zero accumulators and PCM
    if not replay or json.load(open(replay)).get("survey"):
        if replay:
            sv = [os.path.join(V.REPO, json.load(open(replay))["path"])]
        else:
            files = [f for f in V.corpus_files() if os.path.getsize(f) < 600000]
            sv = sorted(rng.sample(files, min(len(files), 220 if tier == "quick" else len(files))))
            sv += [f for f in files if any(t in os.path.basename(f).lower() for t in ("tremolo", "tremor", "nna", "volenv", "vol-env", "macro", "filter")) and f not in sv]
        lines = []
        for f in sv:
            for cfg in SURVEY_CFGS:
                lines.append("%s\t22050\t0\t%d\t1\t%s\n" % (f, 400 if tier == "quick" else 3000, cfg))
        rs = V.run([drv], inp="".join(lines), env=env, timeout=6000)
        blocks = rs.stdout.split("ENDRUN\n")
        for j, l in enumerate(lines):
            if j >= len(blocks): break
            z = next((x.split() for x in blocks[j].split("\n") if x.startswith("Z ")), None)
            if not z: continue
            stats["survey_runs"] = stats.get("survey_runs", 0) + 1; stats["survey_frames"] = stats.get("survey_frames", 0) + int(z[1])
            ck.count()
            if int(z[2]) != 0:
                f = sv[j // len(SURVEY_CFGS)]; cname = ("all channels muted", "master volume 0", "all channels muted, a position-control call every 13 frames")[j % len(SURVEY_CFGS)]
                ck.violation({"survey": True, "path": os.path.relpath(f, V.REPO), "config": cname,
                              "what": "%s: %s samples are not silent, first in frame %s" % (cname, z[2], z[3]),
                              "rate": 22050, "format": 0, "frames": 400, "interp": 1,
                              "broken": "C14 silence clause on the implementation"}, key="c14:silence")
            else:
                ck.nontrivial(("survey", sv[j // len(SURVEY_CFGS)], j % len(SURVEY_CFGS)))
        if rs.returncode != 0:
            ck.violation({"survey": True, "path": os.path.relpath(sv[min(len(blocks) - 1, len(lines) - 1) // len(SURVEY_CFGS)], V.REPO), "broken": "sanitizer report / crash in the silence survey", "stderr": rs.stderr[-2000:]}, key="c14-crash")
    ck.engine_stat("mixer", **stats)
    if not replay: kernel_leg(ck, tier, None)
    ck.cov["rule"] = ("corpus modules with <= 8 (thorough: 32) channels, random rate / interpolation / separation; per module: full render, one solo render per channel, all-muted, master volume 0, "
                      "separation +s / -s / 0; per frame the 32-bit accumulator buffer (s->buf32), the PCM and every live voice's vol/pan/gains are read from the private mixer state; "
                      "the extracted model sums the solo accumulators (must equal the full accumulator exactly), computes each voice's gains, and the PCM / mirror / silence clauses are evaluated directly")
    ck.cov["rule"] += ("; kernels: each of the 40 kernels of mix_all.c (nearest / linear / spline x 8/16-bit x mono/stereo sample x mono/stereo output x IT filter) called directly on random sample memory sized exactly to the "
                       "window of the closed-form positions (exact-size heap blocks under ASan), random buffers, gains, ramps, steps of both signs, filter coefficients and histories: buffer and filter history after the call must equal "
                       "the extracted Model/MixKernel.v; the same call on a zeroed buffer, with exchanged gains and with zero gains asks the kernel-level clauses of the compiled kernels themselves; the statements of every MIXER body are "
                       "regenerated from the source on every run and must be the 40 bodies the kernel descriptions stand for (kernels_in_source_are_the_modelled_ones)")
    ck.assumptions += ["the per-voice kernels (interpolation, IT filter, anticlick ramp) are modelled on unbounded integers: the products stay inside int / int64 for the argument ranges mixer.c supplies (gains below 2^16, 16-bit samples), which is not proved; the Paula (A500) kernels of mix_paula.c are not modelled",
                       "frames in which the voice limit is reached are excluded, as the property says; int32 overflow of the accumulator is outside the model"]
    if not replay: shutil.rmtree(gendir, ignore_errors=True)
    ck.finish()

V.main_wrap(main)
