# C10 — loading untrusted modules stays inside the module's directory and process.
import os, sys, json, itertools, tempfile, shutil, struct
import vcommon as V

WRAPS = ["fopen", "fopen64", "opendir", "mkstemp", "unlink", "fork", "execvp", "popen", "system"]

def mk_song(names, npat=1):
    """Protracker 'song' file: M.K. header + patterns, no sample data (mod_load.c: ptsong) -> samples come from companion files"""
    b = bytearray(b"song".ljust(20, b"\0"))
    for i in range(31):
        nm = names[i] if i < len(names) else b""
        b += nm[:22].ljust(22, b"\0") + struct.pack(">HBBHH", 8 if i < len(names) else 0, 0, 64, 0, 1)
    b += bytes([1, 0x7f]) + bytes([0] * 128) + b"M.K."
    b += bytes(1024 * npat)
    return bytes(b)

def main():
    tier = sys.argv[1] if len(sys.argv) > 1 else "quick"
    replay = sys.argv[sys.argv.index("--replay") + 1] if "--replay" in sys.argv else None
    ck = V.Check("C10", tier)
    rng = ck.rng
    ck.proof_leg(["Extract/Extract_pathsan.vo"])
    drv = V.build_driver("c10_drv", ["c10_drv.c"], wraps=WRAPS)
    model = V.ocaml_build("pathsan")
    env = V.san_env()
    env.pop("XMP_INSTRUMENT_PATH", None)

    # ---- T1: sanitiser differential + the property predicate on the implementation's own output
    alpha = [0x2e, 0x2f, 0x5c, 0x3a, 0x61, 0x20, 0x1f, 0x7f, 0x80]
    cases = []
    if replay and json.load(open(replay)).get("engine") == "san":
        rp = json.load(open(replay)); cases = [(rp["n"], bytes.fromhex(rp["name"]))]
    elif not replay:
        for L in range(1, 5 if tier == "quick" else 6):
            for t in itertools.product(alpha, repeat=L):
                for n in (1, 2, 3, 5, 64):
                    cases.append((n, bytes(t)))
        for _ in range(20000 if tier == "quick" else 300000):
            L = rng.randrange(1, 40)
            s = bytes(rng.choice(alpha + [0x41, 0x42, 0x2d, 0x30, 0x7e, 0x21]) if rng.random() < 0.5 else rng.randrange(1, 256) for _ in range(L))
            cases.append((rng.choice((1, 2, 3, 5, 22, 32, 64)), s))
    if cases:
        inp_c = "".join("%d %s\n" % (n, s.hex()) for n, s in cases)
        inp_m = "".join("S %d %s\n" % (n, s.hex()) for n, s in cases)
        co = V.run([drv, "san"], inp=inp_c, env=env, timeout=1200).stdout.split("\n")
        mo = V.run([model], inp=inp_m, timeout=1200).stdout.split("\n")
        nd = 0; acc = 0
        for i, (n, s) in enumerate(cases):
            ck.count()
            a = co[i] if i < len(co) else "missing"; b = mo[i] if i < len(mo) else "missing"
            if a.startswith("0"):
                acc += 1
                ck.nontrivial(("san", n, s))
                o = bytes.fromhex(a.split()[1]) if a.split()[1] != "-" else b""
                bad = (b".." in o) or o[:1] in (b"/", b"\\") or any(c < 32 or c >= 0x7f for c in o) or (n > 2 and o in (b"", b"."))
                if bad:
                    ck.violation({"engine": "san", "n": n, "name": s.hex(), "out": o.hex(), "broken": "monitor: sanitised name can escape (.. / leading slash / unprintable / empty)"},
                                 key="san-escape:%d:%s" % (n, s.hex()))
            if a != b:
                nd += 1
                if nd <= 3:
                    ck.violation({"engine": "san", "n": n, "name": s.hex(), "expected_model": b, "got_impl": a,
                                  "broken": "correspondence copy_name_for_fopen (Model/PathSan.v vs libxmp_copy_name_for_fopen)"}, key="san:%d:%s" % (n, s.hex()))
        ck.engine_stat("san", cases=len(cases), accepted=acc, disagreements=nd)
        ck.sample({"engine": "san", "n": cases[100][0], "name_hex": cases[100][1].hex(), "model": mo[100], "impl": co[100]})

    if replay and json.load(open(replay)).get("engine") == "san":
        ck.finish()

    base = tempfile.mkdtemp(prefix="vp-c10-", dir="/var/tmp")
    try:
        # ---- directory fixture: names with spaces and shell metacharacters
        moddir = os.path.join(base, "mod dir $(touch pwned);`x`&|'q'")
        ipath = os.path.join(base, "ins path")
        os.makedirs(moddir); os.makedirs(ipath); os.makedirs(os.path.join(moddir, "ST-01"))
        open(os.path.join(base, "secret"), "wb").write(b"S" * 64)
        for d, names in ((moddir, ["kick", "Snare.SMP", "hat 1", "ST-01/deep"]), (ipath, ["bass", "KICK2", "lead.x"])):
            for nm in names:
                open(os.path.join(d, nm), "wb").write(bytes(range(64)))
        # ---- T2: find_instrument_file differential
        names = [b"kick", b"KICK", b"snare.smp", b"hat 1", b"ST-01/deep", b"ST-01", b"bass", b"kick2", b"nosuch", b"lead.X", b"secret", b"../secret", b".", b"a/b"]
        # readdir also returns "." and ".."
        lst_i = [b".", b".."] + [x.encode() for x in os.listdir(ipath)]
        lst_m = [b".", b".."] + [x.encode() for x in os.listdir(moddir)]
        nd = 0
        for ip, dn in ((ipath, moddir + "/"), (None, moddir + "/"), (ipath, None), (None, None), (os.path.join(base, "missing"), moddir + "/")):
            r = V.run([drv, "find", ip or "~", dn or "~"], inp="".join(n.hex() + "\n" for n in names), env=env)
            co = r.stdout.split("\n")
            li = lst_i if ip == ipath else None
            minp = ""
            for n in names:
                minp += "F %s %s %s L %s M %s\n" % ((ip.encode().hex() if ip else "~") if li is not None or ip is None else "~", dn.encode().hex() if dn else "~", n.hex(),
                                                   " ".join(x.hex() for x in (li or [])), " ".join(x.hex() for x in (lst_m if dn else [])))
            mo = V.run([model], inp=minp).stdout.split("\n")
            for i, n in enumerate(names):
                ck.count()
                if co[i] != mo[i]:
                    nd += 1
                    ck.violation({"engine": "find", "ipath": ip, "dirname": dn, "name": n.decode("latin1"), "expected_model": mo[i], "got_impl": co[i],
                                  "broken": "correspondence find_instrument_file"}, key="find:%s:%s" % (bool(ip), n.hex()))
                elif co[i].startswith("1"):
                    ck.nontrivial(("find", ip, dn, n))
        ck.engine_stat("find", cases=5 * len(names), disagreements=nd)

        # ---- T3: which entry points may start a helper, and with what argv
        execlog = os.path.join(base, "execlog")
        env["VERIF_EXECLOG"] = execlog
        hdrs = {"mo3": b"MO3" + bytes(200), "rar": b"Rar!\x1a\x07\x00" + bytes(200), "mo3-short": b"MO3" + bytes(50), "other": b"XYZ" + bytes(200)}
        # containers the built-in depackers open, whose PAYLOAD begins with a helper signature: the decision is about the file named by the
        # path, so no helper may run for these (and the helper, if it ran, would be given the outer file)
        import gzip as _gz, bz2 as _bz, zipfile as _zf, io as _io
        for nm, inner in (("mo3", b"MO3" + bytes(range(1, 200))), ("rar", b"Rar!\x1a\x07\x00" + bytes(range(1, 200)))):
            hdrs["gzip-of-" + nm] = _gz.compress(inner, 6, mtime=0)
            hdrs["bzip2-of-" + nm] = _bz.compress(inner, 1)
            zb = _io.BytesIO()
            with _zf.ZipFile(zb, "w", _zf.ZIP_DEFLATED) as z: z.writestr("song.bin", inner)
            hdrs["zip-of-" + nm] = zb.getvalue()
        nd = 0
        for tag, blob in hdrs.items():
            p = os.path.join(moddir, "file %s;.bin" % tag)
            open(p, "wb").write(blob)
            for e in ("LP", "LM", "LF", "LC", "TP", "TM", "TF", "TC"):
                if os.path.exists(execlog):
                    os.unlink(execlog)
                r = V.run([drv, "trace", e, p], env=env, timeout=120)
                forked = "FORK" in r.stdout.split("\n")
                ex = open(execlog).read().split("\n") if os.path.exists(execlog) else []
                m = V.run([model], inp="X %s %d %s 0\n" % (e, min(len(blob), 1024), blob[:8].hex())).stdout.strip()
                ck.count()
                ok = (m == "1") == forked
                if forked and ok:
                    ck.nontrivial(("exec", tag, e))
                    argv = [bytes.fromhex(x) for x in ex[0].split()[1:]] if ex and ex[0].startswith("EXEC") else None
                    exp = ([b"unmo3", b"-s", p.encode(), b"STDOUT"] if "mo3" in tag else
                           [b"unrar", b"p", b"-inul", b"-xreadme", b"-x*.diz", b"-x*.nfo", b"-x*.txt", b"-x*.exe", b"-x*.com", p.encode()])
                    if argv != exp:
                        ok = False
                if not ok or "POPEN" in r.stdout or "SYSTEM" in r.stdout:
                    nd += 1
                    ck.violation({"engine": "exec", "header": tag, "entry": e, "forked": forked, "exec_log": ex[:2], "model_may_exec": m,
                                  "broken": "correspondence decrunch decision / monitor: helper started where the model forbids it or with a different argv"},
                                 key="exec:%s:%s" % (tag, e))
        ck.engine_stat("exec", cases=len(hdrs) * 8, disagreements=nd)
        # no shell side effect
        if os.path.exists(os.path.join(base, "pwned")) or os.path.exists("pwned"):
            ck.violation({"engine": "exec", "broken": "monitor: a shell interpreted the module path"}, key="exec-shell")

        # ---- T4: trace monitor on song-only modules with attacker-chosen sample names, and own-name companion formats
        hostile = [b"kick", b"KICK", b"../secret", b"..\\secret", b"/etc/passwd", b"\\etc\\passwd", b"c:\\x", b"a:/x", b"ST-01:deep", b"ST-01/deep", b"ST-01\\deep",
                   b".", b"..", b"snare.smp", b"hat 1", b"bass", b"kick\x01", b"k\xe9ck", b":kick", b"secret", b"x:..:y", b"a:b:kick", b"~/.profile", b"$(id)", b"kick;id"]
        songs = []
        for k in range(0, len(hostile), 8):
            songs.append(hostile[k:k + 8])
        for _ in range(3 if tier == "quick" else 30):
            songs.append([bytes(rng.choice(b"./\\:ak ST-01") for _ in range(rng.randrange(1, 12))) for _ in range(8)])
        nviol = 0
        for si, nms in enumerate(songs):
            sp = os.path.join(moddir, "song %d.mod" % si)
            open(sp, "wb").write(mk_song(nms))
            for e in ("LP", "LM", "LF", "LC", "TP", "TM"):
                for useip in (False, True):
                    r = V.run([drv, "trace", e, sp] + ([ipath] if useip else []), env=env, timeout=120)
                    if r.returncode != 0:
                        ck.violation({"engine": "trace", "song_names": [n.decode("latin1") for n in nms], "entry": e, "broken": "sanitizer / crash", "stderr": r.stderr[-1500:]}, key="trace-crash:%d:%s" % (si, e))
                        continue
                    calls = [l.split() for l in r.stdout.split("\n") if l and not l.startswith("RET")]
                    opens = [bytes.fromhex(c[1]).decode("latin1") for c in calls if c[0] == "OPEN"]
                    temps = [bytes.fromhex(c[1]).decode("latin1") for c in calls if c[0] == "MKSTEMP"]
                    # model prediction of companion opens (path loads only)
                    exp = []
                    if e == "LP" or (useip and e[0] == "L"):
                        # module-directory companions only for path loads; the application-configured instrument path applies to every load entry point
                        for nm in nms:
                            nm0 = nm.split(b"\0")[0]
                            if not nm0:
                                continue
                            m1 = V.run([model], inp="S 32 %s\n" % nm0.hex()).stdout.split()
                            if m1[0] != "0":
                                continue
                            sn = m1[1]
                            q = "F %s %s %s L %s M %s\n" % (ipath.encode().hex() if useip else "~", (moddir + "/").encode().hex() if e == "LP" else "~", sn,
                                                            " ".join(x.hex() for x in lst_i) if useip else "", " ".join(x.hex() for x in lst_m) if e == "LP" else "")
                            m2 = V.run([model], inp=q).stdout.split()
                            if m2 and m2[0] == "1":
                                exp.append(bytes.fromhex(m2[1]).decode("latin1"))
                    ck.count()
                    allowed_first = [sp] if e in ("LP", "TP") else []
                    got_comp = [o for o in opens if o not in allowed_first and o not in temps]
                    listing_ok = all((os.path.dirname(o) in (moddir, ipath)) and (os.path.basename(o) in os.listdir(os.path.dirname(o))) for o in got_comp)
                    if got_comp != exp or not listing_ok or any(c[0] in ("FORK", "POPEN", "SYSTEM") for c in calls):
                        nviol += 1
                        ck.violation({"engine": "trace", "song_names": [n.decode("latin1") for n in nms], "entry": e, "instrument_path": useip,
                                      "opened": opens, "model_expected_companions": exp,
                                      "broken": "monitor/correspondence: files opened while loading differ from the set the path model allows"},
                                     key="trace:%s:%s" % (e, "|".join(got_comp)))
                    elif exp:
                        ck.nontrivial(("trace", si, e, useip))
        # own-name companions (Startrekker .NT, Magnetic Fields smp.*): only for path loads, only in the module's directory
        data = os.path.join(V.REPO, "test-dev", "data", "m")
        for fn in ("zob-the-zob.mod", "mfp.crystaldragon title"):
            src = os.path.join(data, fn)
            if not os.path.exists(src):
                continue
            d2 = os.path.join(base, "own name")
            os.makedirs(d2, exist_ok=True)
            shutil.copy(src, d2)
            for comp in ("zob-the-zob.mod.nt", "smp.crystaldragon title"):
                if os.path.exists(os.path.join(data, comp)):
                    shutil.copy(os.path.join(data, comp), d2)
            p = os.path.join(d2, fn)
            for e in ("LP", "LM", "LF", "LC"):
                r = V.run([drv, "trace", e, p], env=env, timeout=120, cwd=base)
                ck.count()
                calls = [l.split() for l in r.stdout.split("\n") if l and not l.startswith("RET")]
                opens = [bytes.fromhex(c[1]).decode("latin1") for c in calls if c[0] == "OPEN"]
                temps = [bytes.fromhex(c[1]).decode("latin1") for c in calls if c[0] == "MKSTEMP"]
                comp = [o for o in opens if o != p and o not in temps]
                if r.returncode != 0:
                    ck.violation({"engine": "own-name", "module": fn, "entry": e, "broken": "sanitizer / crash", "stderr": r.stderr[-1200:]}, key="own-name-crash:%s:%s" % (fn, e))
                elif e != "LP" and comp:
                    ck.violation({"engine": "own-name", "module": fn, "entry": e, "opened": comp,
                                  "broken": "monitor: a non-path load opened files (companions are resolved only for path loads)"}, key="own-name:%s:%s" % (fn, e))
                elif e == "LP" and any(os.path.dirname(o) != d2 for o in comp):
                    ck.violation({"engine": "own-name", "module": fn, "entry": e, "opened": comp, "broken": "monitor: companion outside the module's directory"}, key="own-name-dir:%s" % fn)
                elif e == "LP":
                    ck.nontrivial(("own", fn))
        # the same modules WITHOUT their companion, in a directory whose parent names contain '-' and '.' (fallback names are derived from the
        # module's own name - e.g. the Kid Chaos "<name up to the last '-'>.set" of Magnetic Fields modules - and must stay in its directory),
        # with decoys one level up
        # ... and under a directory path longer than 1023 characters (legal: PATH_MAX is 4096): a companion name that is cut off while it
        # is being built names something in an ANCESTOR directory - a decoy sits exactly there
        src = os.path.join(data, "zob-the-zob.mod")
        if os.path.exists(src):
            parent = base
            while len(parent) < 900: parent = os.path.join(parent, "d" * 120)
            k = 1023 - len(parent) - 1
            last = "L" * max(k + 40, 60)
            d4 = os.path.join(parent, last)
            if 0 < k < len(last):
                os.makedirs(d4, exist_ok=True)
                open(os.path.join(parent, last[:k]), "wb").write(b"ST1.3 ModuleINFO" + bytes(4000))
                shutil.copy(src, d4); p4 = os.path.join(d4, "zob-the-zob.mod")
                r = V.run([drv, "trace", "LP", p4], env=env, timeout=120, cwd=base)
                ck.count()
                calls = [l.split() for l in r.stdout.split("\n") if l and not l.startswith("RET")]
                opens = [bytes.fromhex(c[1]).decode("latin1") for c in calls if c[0] in ("OPEN", "OPENDIR")]
                temps = [bytes.fromhex(c[1]).decode("latin1") for c in calls if c[0] == "MKSTEMP"]
                outside = [o for o in opens if o != p4 and o not in temps and os.path.dirname(os.path.abspath(o)) != d4 and os.path.abspath(o) != d4]
                if r.returncode != 0:
                    ck.violation({"engine": "own-name", "module": "zob-the-zob.mod", "entry": "LP", "broken": "sanitizer / crash (long directory path)", "stderr": r.stderr[-1200:]}, key="own-name-crash3")
                elif outside:
                    ck.violation({"engine": "own-name", "module": "zob-the-zob.mod", "entry": "LP", "opened": [o[-80:] for o in outside], "module_dir_length": len(d4),
                                  "what": "module in a directory whose path has %d characters: a companion name cut off at 1023 characters was opened in an ancestor directory" % len(d4),
                                  "broken": "monitor: file opened outside the module's directory"}, key="own-name-longpath")
                else: ck.nontrivial(("own-longpath",))
        d3p = os.path.join(base, "up-loads.d"); d3 = os.path.join(d3p, "sub-dir")
        os.makedirs(d3, exist_ok=True)
        for decoy in ("up.set", "up-loads.set", "up-loads.d.set", "sub.set"):
            for dd in (base, d3p): open(os.path.join(dd, decoy), "wb").write(b"U" * 4000)
        for fn in ("zob-the-zob.mod", "mfp.crystaldragon title"):
            src = os.path.join(data, fn)
            if not os.path.exists(src): continue
            shutil.copy(src, d3); p = os.path.join(d3, fn)
            r = V.run([drv, "trace", "LP", p], env=env, timeout=120, cwd=base)
            ck.count()
            calls = [l.split() for l in r.stdout.split("\n") if l and not l.startswith("RET")]
            opens = [bytes.fromhex(c[1]).decode("latin1") for c in calls if c[0] in ("OPEN", "OPENDIR")]
            temps = [bytes.fromhex(c[1]).decode("latin1") for c in calls if c[0] == "MKSTEMP"]
            outside = [o for o in opens if o != p and o not in temps and os.path.dirname(os.path.abspath(o)) != d3 and os.path.abspath(o) != d3]
            if r.returncode != 0:
                ck.violation({"engine": "own-name", "module": fn, "entry": "LP", "broken": "sanitizer / crash (companion missing)", "stderr": r.stderr[-1200:]}, key="own-name-crash2:%s" % fn)
            elif outside:
                ck.violation({"engine": "own-name", "module": fn, "entry": "LP", "opened": outside, "module_dir": d3,
                              "broken": "monitor: with its companion missing the loader tried a file outside the module's directory"}, key="own-name-fallback:%s" % fn)
            else:
                ck.nontrivial(("own-missing", fn))
        ck.engine_stat("trace", songs=len(songs), violations=nviol)
        ck.sample({"engine": "trace", "song_names": [n.decode("latin1") for n in songs[0]], "module_dir": moddir})
    finally:
        shutil.rmtree(base, ignore_errors=True)
    ck.cov["rule"] = ("san: every string of length<=4 over {. / \\ : a space 0x1f 0x7f 0x80} x n in {1,2,3,5,64} plus random strings; non-trivial = accepted names; "
                      "find: names x (instrument path, module dir) fixtures; exec: 4 headers x 8 entry points with fork/execvp wrapped; "
                      "trace: Protracker song files with attacker-chosen sample names x 6 entry points x instrument path on/off, every fopen/opendir/mkstemp/fork recorded")
    ck.assumptions += ["POSIX readdir returns names without '/'", "symlinks and the OS's path resolution are outside the model",
                       "link-time --wrap interposers see every fopen/opendir/fork/execvp/popen/system the library makes"]
    ck.finish()

V.main_wrap(main)
