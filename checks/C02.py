# C02 — work and memory are bounded by real input size, never by declared sizes.
import os, sys, json, tempfile, shutil, gzip, bz2, lzma, zipfile, io
import vcommon as V
sys.path.insert(0, os.path.join(V.VERIF, "gen"))
import mutate, modgen

# generous ceilings for one call on this machine under ASan (calibrated: the corpus stays below 0.4 s / 120 MiB);
# they are there to catch runaway behaviour, not to benchmark
def time_limit_us(size): return 4_000_000 + 60 * size
def rss_limit_kb(size): return 256 * 1024 + 40 * (size // 1024)

def parse(out):
    res = []; cur = None
    for l in out.split("\n"):
        if l.startswith("IN "): cur = {"size": int(l.split()[1]), "events": [], "calls": 0, "truncated": False}; res.append(cur)
        elif cur is None: continue
        elif l.startswith("RET "): w = l.split(); cur["ret"] = int(w[1]); cur["usec"] = int(w[3]); cur["rsskb"] = int(w[5]); cur["maxreq"] = int(w[7]) if len(w) > 7 else 0; cur["sumreq"] = int(w[9]) if len(w) > 9 else 0
        elif l.startswith("CELLS "): cur["cells"] = int(l.split()[1])
        elif l == "C": cur["events"].append(("C",)); cur["calls"] += 1
        elif l.startswith("O "): cur["events"].append(("O", int(l.split()[1])))
        elif l.startswith(("W ", "D ")): w = l.split(); cur["events"].append((w[0], int(w[1]), int(w[2])))
        elif l == "TRUNCATED": cur["truncated"] = True
        elif l.startswith("FRAME "): w = l.split(); cur["frame_ret"] = int(w[1]); cur["frame_usec"] = int(w[3])
        elif l.startswith("FRAMES "): w = l.split(); cur["worst_frame_usec"] = int(w[3]); cur["mixratio"] = float(w[5])
        elif l == "ENDIN": cur["done"] = True
    return res

def z_const_stream(n, mb=16):
    """the .Z stream (block mode, no CLEAR) of n zero bytes"""
    maxmax = 1 << mb
    codes = []; left = n; dlen = 1
    while left > 0:
        m = min(dlen, left); codes.append(0 if m == 1 else 257 + (m - 2)); left -= m
        if left > 0 and m == dlen and 257 + (dlen - 1) < maxmax: dlen += 1
    nb = 9; maxcode = 511; free = 257; first = True; used = 0; acc = 0; nacc = 0; out = bytearray([31, 157, 0x80 | mb])
    for c in codes:
        if free > maxcode:
            g = 8 * nb; nacc += (g - used % g) % g
            while nacc >= 8: out.append(acc & 255); acc >>= 8; nacc -= 8
            nb += 1; maxcode = maxmax if nb == mb else (1 << nb) - 1; used = 0
        acc |= c << nacc; nacc += nb; used += nb
        while nacc >= 8: out.append(acc & 255); acc >>= 8; nacc -= 8
        if first: first = False
        elif free < maxmax: free += 1
    if nacc: out.append(acc & 255)
    return bytes(out)

def lzx_variants(rng, blob):
    """LZX archives with hostile declared sizes and junk member names, every entry header re-sealed with its CRC-32 (a plain byte
    mutation never gets past the header CRC): yields (kind, bytes)"""
    import struct, zlib
    ents = []; pos = 10
    while pos + 31 <= len(blob):
        h = bytearray(blob[pos:pos + 31]); cs = struct.unpack_from("<I", h, 6)[0]; cl = h[14]; fl = h[30]
        name = blob[pos + 31:pos + 31 + fl]; com = blob[pos + 31 + fl:pos + 31 + fl + cl]; data = blob[pos + 31 + fl + cl:pos + 31 + fl + cl + cs]
        ents.append([h, name, com, data]); pos += 31 + fl + cl + cs
    def seal(es):
        out = bytearray(blob[:10])
        for h, name, com, data in es:
            h = bytearray(h); h[30] = len(name); h[14] = len(com); h[26:30] = bytes(4)
            struct.pack_into("<I", h, 26, zlib.crc32(bytes(h) + name + com) & 0xffffffff)
            out += h + name + com + data
        return bytes(out)
    big = (0x20000000, 0x1fffffff, 0x20000001, 0x7fffffff, 0x80000000, 0xffffffff, 0x10000000)
    junk = (b"README", b"notes.txt", b"file_id.diz", b"x.nfo", b"mod.x")
    for _ in range(24):
        es = [[bytearray(h), n, c, d] for h, n, c, d in ents]
        # extra members of a merged group (no compressed data of their own) in front of the one that carries the data
        for k in range(rng.choice((0, 1, 2, 5))):
            h = bytearray(es[0][0]); struct.pack_into("<II", h, 2, rng.choice(big), 0); h[12] |= 1
            es.insert(rng.randrange(0, len(es)), [h, rng.choice(junk), b"", b""])
        for e in es:
            if rng.random() < 0.4: struct.pack_into("<I", e[0], 2, rng.choice(big))
            if rng.random() < 0.3: e[1] = rng.choice(junk)
            if rng.random() < 0.1: e[0][12] ^= 1
        yield "lzx-sizes", seal(es)
    # merged groups padded with members that are not modules (names the library excludes) and whose declared sizes are each legal
    # but add up past the unpack ceiling; the real members are left alone
    legal = (0x20000000, 0x1fffffff, 0x10000000, 0x18000000)
    for npad in (1, 2, 3, 5, 8):
        for where in ("front", "middle", "mixed"):
            es = [[bytearray(h), n, c, d] for h, n, c, d in ents]
            last = max((i for i, e in enumerate(es) if e[0][12] & 1), default=len(es) - 1)
            for k in range(npad):
                h = bytearray(es[0][0]); struct.pack_into("<II", h, 2, rng.choice(legal), 0); h[12] |= 1
                at = 0 if where == "front" else last if where == "middle" else rng.randrange(0, last + 1)
                es.insert(at, [h, rng.choice((b"README", b"notes.txt", b"file_id.diz", b"x.nfo", b"a.doc")), b"", b""]); last += 1
            yield "lzx-merge-padding", seal(es)
            # ... and the same with the member that carries the group's compressed data being one of the excluded ones
            es2 = [[bytearray(h), n, c, d] for h, n, c, d in es]
            carriers = [i for i, e in enumerate(es2) if struct.unpack_from("<I", e[0], 6)[0] > 0]
            if carriers:
                es2[carriers[0]][1] = b"z.txt"
                if rng.random() < 0.5: struct.pack_into("<I", es2[carriers[0]][0], 2, rng.choice(legal))
                yield "lzx-merge-padding", seal(es2)

def iff_variants(rng, data):
    """an unknown chunk with a hostile declared length appended to (or spliced into) an IFF-style module, in both byte orders"""
    import struct
    for ln in (0, 1, 0x7fffffff, 0x80000000, 0xfffffff8, 0xfffffff0, 0xffffffff, 0xfffffffc, 0x80000008, 0xffffff00):
        for fmt in (">I", "<I"):
            ch = b"JUNK" + struct.pack(fmt, ln)
            yield "iff-chunk-length", data + ch
            yield "iff-chunk-length", data + ch + bytes(rng.randrange(256) for _ in range(rng.choice((1, 8, 40))))

def declared_size_variants(rng, modgen):
    """tiny module files of the packed-pattern formats whose tables DECLARE a lot: patterns with huge row counts and no data, a pattern
    naming the highest channel followed by patterns that declare more rows than the format allows, many patterns sharing one
    header, many instruments / samples with large declared lengths and no data behind them"""
    import struct
    # IT: raw patterns (rows, packed bytes)
    for rows_list in ([4, 65535, 65535, 65535], [4] + [65535] * 7, [64, 1025, 1024, 200], [1, 32768], [65535], [4] + [1024] * 40):
        for hi_chn_first in (True, False):
            pats = []
            for j, rows in enumerate(rows_list):
                blob = (bytes([0xC0, 0x00]) if (j == 0 and hi_chn_first) else b"") + bytes(min(rows, 4) if j == 0 else 0)
                pats.append((rows, blob))
            song = dict(chn=rng.choice((1, 4, 64)), orders=list(range(min(len(pats), 200))), raw_patterns=pats, speed=6, bpm=125, name="declared rows")
            yield "declared-rows-it", modgen.write_it(song)
    # XM: header says many patterns / rows; S3M and MOD cannot declare rows
    for rows in (256, 257, 1024, 65535):
        try:
            song = dict(chn=rng.choice((2, 32)), orders=[0, 1], raw_patterns=[(rows, 0, b""), (rows, 0, b"")], speed=6, bpm=125, restart=0, name="declared rows")
            yield "declared-rows-xm", modgen.write_xm(song)
        except Exception:
            pass

def med_synth_variants(rng, data):
    """OctaMED modules with synth / hybrid instruments: the volume and waveform sequence tables (small programs with jumps, waits and
    loops interpreted on every tick) rewritten to jump cycles of length 1, 2 and 3, jumps out of the table, and endless loops"""
    import struct
    if data[:3] != b"MMD" or len(data) < 64: return
    song, smplarr = struct.unpack(">I", data[8:12])[0], struct.unpack(">I", data[24:28])[0]
    if song + 788 > len(data) or smplarr == 0 or smplarr >= len(data): return
    ns = data[song + 787]
    progs = [bytes([0xfe, 2, 0xfe, 0, 0xff]), bytes([0xfe, 0]), bytes([0xfe, 4, 0, 0, 0xfe, 2, 0xff]), bytes([0xfe, 2, 0xfe, 4, 0xfe, 0]), bytes([0xfe, 0x7f]), bytes([0xfe, 0xff]),
             bytes([0xf0, 1, 0xfe, 0]), bytes([0xf1, 0, 0xfe, 0]), bytes([0xfa, 0xfe, 1]), bytes([0x40, 0xfe, 1, 0xfe, 0])]
    for prog in progs:
        for which in (0, 1, 2):
            b = bytearray(data); n = 0
            for i in range(min(ns, 63)):
                if smplarr + 4 * i + 4 > len(b): break
                p = struct.unpack(">I", b[smplarr + 4 * i: smplarr + 4 * i + 4])[0]
                if p == 0 or p + 22 + 256 > len(b): continue
                if struct.unpack(">h", b[p + 4: p + 6])[0] not in (-1, -2): continue
                if which in (0, 2): b[p + 22: p + 22 + len(prog)] = prog; b[p + 14: p + 16] = struct.pack(">H", max(len(prog), struct.unpack(">H", b[p + 14: p + 16])[0]))
                if which in (1, 2): b[p + 150: p + 150 + len(prog)] = prog; b[p + 16: p + 18] = struct.pack(">H", max(len(prog), struct.unpack(">H", b[p + 16: p + 18])[0]))
                b[p + 18] = b[p + 18] or 1; b[p + 19] = b[p + 19] or 1; n += 1
            if n: yield "med-synth-table", bytes(b)

def main():
    tier = sys.argv[1] if len(sys.argv) > 1 else "quick"
    replay = sys.argv[sys.argv.index("--replay") + 1] if "--replay" in sys.argv else None
    ck = V.Check("C02", tier)
    rng = ck.rng
    ck.proof_leg(["Extract/Extract_scanskel.vo"])
    drv = V.build_driver("c02_drv", ["c02_drv.c"], wraps=("malloc", "calloc", "realloc"))
    model = V.ocaml_build("scanskel")
    env = V.san_env()
    tmpd = tempfile.mkdtemp(prefix="vp-c02-", dir="/var/tmp")
    stats = {"inputs": 0, "loads_ok": 0, "traces_replayed": 0, "trace_events": 0, "max_main_events_over_bound": 0.0, "max_usec": 0, "max_rsskb": 0, "max_mixer_iterations_over_bound": 0.0, "bombs": 0, "kinds": {}, "traces_too_long_for_replay": 0}
    try:
        jobs = []      # (path, mode, label)
        if replay:
            rp = json.load(open(replay))
            if rp.get("file_hex"):
                p = os.path.join(tmpd, "replay.bin"); open(p, "wb").write(bytes.fromhex(rp["file_hex"])); jobs.append((p, rp.get("mode", "L"), rp.get("label", "replay")))
            elif rp.get("song"):
                p = os.path.join(tmpd, "replay." + rp["format"]); open(p, "wb").write(modgen.WRITERS[rp["format"]](rp["song"])); jobs.append((p, "L", "generated"))
            else:
                jobs.append((os.path.join(V.REPO, rp["file"]), rp.get("mode", "L"), "corpus"))
        else:
            files = [f for f in V.corpus_files() if os.path.getsize(f) < 2000000]
            base = os.path.join(V.REPO, "test-dev", "data", "f")
            fuzz = [os.path.join(base, f) for f in sorted(os.listdir(base))] if os.path.isdir(base) else []
            for f in sorted(rng.sample(files, min(len(files), 150 if tier == "quick" else len(files)))): jobs.append((f, "L", "corpus"))
            for f in sorted(rng.sample(fuzz, min(len(fuzz), 150 if tier == "quick" else len(fuzz)))):
                jobs.append((f, "L", "fuzz-regression")); jobs.append((f, "T", "fuzz-regression"))
            k = 0
            for f in sorted(rng.sample(files, min(len(files), 40 if tier == "quick" else 400))):
                data = open(f, "rb").read()
                if len(data) > 300000: continue
                for kind, blob in mutate.mutants(data, rng, 1, 2, 3):
                    p = os.path.join(tmpd, "v%05d" % k); k += 1; open(p, "wb").write(blob)
                    jobs.append((p, "L", "mutant-" + kind)); jobs.append((p, "T", "mutant-" + kind))
            # structured mutants for formats whose fields are sealed by a checksum or walked chunk by chunk
            for f in ("lzxmerge", "lzxdata", "lzxstore"):
                fp = os.path.join(V.REPO, "test-dev", "data", f)
                if os.path.exists(fp):
                    for kind, blob in lzx_variants(rng, open(fp, "rb").read()):
                        p = os.path.join(tmpd, "v%05d" % k); k += 1; open(p, "wb").write(blob); jobs.append((p, "L", "mutant-" + kind)); jobs.append((p, "T", "mutant-" + kind))
            iff_ext = (".okt", ".dbm", ".mdl", ".psm", ".j2b", ".dtm", ".emod", ".pt36", ".arch", ".musx")
            iffs = [f for f in V.corpus_files() if f.lower().endswith(iff_ext) and os.path.getsize(f) < 200000]
            byext = {}
            for f in sorted(iffs): byext.setdefault(os.path.splitext(f)[1].lower(), f)
            for f in byext.values():
                for kind, blob in iff_variants(rng, open(f, "rb").read()):
                    p = os.path.join(tmpd, "v%05d" % k); k += 1; open(p, "wb").write(blob); jobs.append((p, "L", "mutant-" + kind))
            for f in V.corpus_files():
                if f.lower().endswith(".med") and os.path.getsize(f) < 300000:
                    for kind, blob in med_synth_variants(rng, open(f, "rb").read()):
                        p = os.path.join(tmpd, "v%05d" % k); k += 1; open(p, "wb").write(blob); jobs.append((p, "L", "mutant-" + kind))
            for kind, blob in declared_size_variants(rng, modgen):
                p = os.path.join(tmpd, "v%05d" % k); k += 1; open(p, "wb").write(blob); jobs.append((p, "L", "mutant-" + kind))
            songs = {}
            for i in range(60 if tier == "quick" else 1500):
                fmt = ("mod", "xm", "s3m", "it")[i % 4]
                s = modgen.random_flow_song(rng, fmt, vocab=('speed', 'tempo', 'jump', 'break', 'delay', 'loop'), max_orders=rng.choice((2, 6, 20)), max_pats=rng.choice((1, 3, 6)),
                                            density=rng.choice((0.1, 0.3, 0.7)), hostile=True)
                if fmt == "it" and i % 8 == 3:
                    # degenerate sample loops played backwards at extreme pitch on many channels: the mixer's inner loop must still be
                    # bounded by the tick size, not by the pitch
                    s = modgen.random_flow_song(rng, "it", vocab=('speed',), max_orders=2, max_pats=1, density=0.0)
                    s["chn"] = 32; s["speed"] = 1; s["bpm"] = 32
                    s["it_loop"] = rng.choice(((0, 1), (5, 6), (62, 64), (0, 2))); s["it_c5"] = rng.choice((8363, 500000, 4000000))
                    s["patterns"] = [[[dict(note=rng.choice((60, 96, 108)), ins=1, fx=('raw', (19, 0x9f))) for _ in range(32)] for _ in range(64)]]
                    s["orders"] = [0]
                p = os.path.join(tmpd, "g%05d.%s" % (i, fmt)); open(p, "wb").write(modgen.WRITERS[fmt](s)); jobs.append((p, "L", "generated")); songs[p] = (fmt, s)
            # small decompression bombs: a few KiB that unpack to many MiB of nothing loadable
            n = (24 if tier == "quick" else 200) << 20
            zeros = bytes(n)
            bombs = {"bomb.gz": gzip.compress(zeros, 9), "bomb.bz2": bz2.compress(zeros, 9), "bomb.xz": lzma.compress(zeros, format=lzma.FORMAT_XZ, check=lzma.CHECK_CRC32)}
            zb = io.BytesIO()
            with zipfile.ZipFile(zb, "w", zipfile.ZIP_DEFLATED) as z: z.writestr("a.mod", zeros)
            bombs["bomb.zip"] = zb.getvalue()
            # one bomb just above the library's unpack ceiling (LIBXMP_DEPACK_LIMIT = 512 MiB): it must be refused, and refused without
            # the output buffer having grown past the ceiling first
            bc = bz2.BZ2Compressor(9); chunk = bytes(1 << 20); parts = []
            for _ in range(640): parts.append(bc.compress(chunk))
            parts.append(bc.flush()); bombs["bomb-over-ceiling.bz2"] = b"".join(parts)
            # compress (.Z): LZW codes of a constant payload reach strings of 64 KiB, about 32000:1 (a writer for exactly this input; its
            # output format is the one Model/Lzw.v proves and gzip -d accepts)
            bombs["bomb.Z"] = z_const_stream(n)
            bombs["bomb-over-ceiling.Z"] = z_const_stream(640 << 20)
            for name, blob in bombs.items():
                p = os.path.join(tmpd, name); open(p, "wb").write(blob); jobs.append((p, "L", "bomb-" + name)); jobs.append((p, "T", "bomb-" + name))
        r = V.run([drv], inp="".join("%s\t%s\n" % (p, m) for p, m, _ in jobs), env=env, timeout=6000)
        res = parse(r.stdout)
        tin = []; tmeta = []
        for k, (p, mode, lab) in enumerate(jobs):
            if k >= len(res) or "ret" not in res[k]:
                break
            x = res[k]; ck.count(); stats["inputs"] += 1; stats["kinds"][lab] = stats["kinds"].get(lab, 0) + 1
            if lab.startswith("bomb"): stats["bombs"] += 1
            blob = open(p, "rb").read()
            rep = {"label": lab, "mode": mode, "file": os.path.relpath(p, V.REPO) if p.startswith(V.REPO) else None, "file_hex": blob.hex() if not p.startswith(V.REPO) and len(blob) < 200000 and p not in (locals().get("songs") or {}) else None}
            if not replay and p in songs: rep["format"], rep["song"] = songs[p]
            stats["max_mixer_iterations_over_bound"] = max(stats["max_mixer_iterations_over_bound"], x.get("mixratio", 0.0))
            stats["max_usec"] = max(stats["max_usec"], x["usec"]); stats["max_rsskb"] = max(stats["max_rsskb"], x["rsskb"])
            ratio = x.get("sumreq", 0) / float(max(1, x["size"]))
            if not lab.startswith("bomb") and x.get("maxreq", 0) < (64 << 20):
                excess = x.get("sumreq", 0) - 2048 * x["size"]
                top = stats.setdefault("largest_requests_beyond_2048x_input_MiB", [])
                top.append((excess >> 20, "%s %s %d bytes, %d MiB requested" % (lab, os.path.basename(p), x["size"], x.get("sumreq", 0) >> 20))); top.sort(reverse=True); del top[6:]
            bad = None
            unpacked = (24 << 20) if lab.startswith("bomb") else 0          # the unpack ceiling allows what a container really expands to
            if "over-ceiling" in lab: unpacked = 512 << 20
            if x["usec"] > time_limit_us(x["size"] + unpacked): bad = "%s took %.2f s on %d bytes" % ("load" if mode == "L" else "test", x["usec"] / 1e6, x["size"])
            elif "over-ceiling" in lab and x["ret"] >= 0: bad = "a stream expanding past the 512 MiB unpack ceiling was accepted (ret %d)" % x["ret"]
            elif "over-ceiling" in lab and x["rsskb"] > (512 + 160) * 1024: bad = "peak resident set grew by %d MiB on a stream that must be refused at the 512 MiB ceiling" % (x["rsskb"] // 1024)
            elif "over-ceiling" not in lab and x["rsskb"] > rss_limit_kb(x["size"] + 8 * unpacked): bad = "%s grew the peak resident set by %d MiB on %d bytes" % ("load" if mode == "L" else "test", x["rsskb"] // 1024, x["size"])
            elif x.get("maxreq", 0) > (512 + 16) << 20: bad = "%s asked the allocator for %d MiB in one request on %d bytes of input (the library's unpack ceiling is 512 MiB)" % ("load" if mode == "L" else "test", x["maxreq"] >> 20, x["size"])
            elif x.get("maxreq", 0) < (64 << 20) and x.get("sumreq", 0) > (64 << 20) + 2048 * (x["size"] + 8 * unpacked):
                bad = "%s asked the allocator for %d MiB in all on %d bytes of input (no single request above 64 MiB: not a depacker's declared output buffer, which the unpack ceiling covers)" % ("load" if mode == "L" else "test", x["sumreq"] >> 20, x["size"])
            elif x.get("frame_usec", 0) > 2_000_000: bad = "the first frame took %.2f s" % (x["frame_usec"] / 1e6)
            elif x.get("mixratio", 0.0) > 1.0: bad = "the mixer's inner loop ran %.2f times the proved bound (maxvoc * 2 * ticksize iterations per tick, hook H5)" % x["mixratio"]
            elif x.get("worst_frame_usec", 0) > 400_000: bad = "one frame of the first 40 took %.2f s" % (x["worst_frame_usec"] / 1e6)
            if bad:
                ck.violation(dict(rep, what=bad, broken="C02 time / memory ceiling on the implementation"), key="c02:" + bad.split()[0]); continue
            if mode == "L" and x.get("cells") is not None and x["events"]:
                if x["ret"] == 0: stats["loads_ok"] += 1
                main = [0]; 
                for e in x["events"]:
                    if e[0] == "C": main.append(0)
                    elif e[0] in ("O", "W"): main[-1] += 1
                worst = max(main); bound = 514 * 255 * x["cells"] + 514
                stats["max_main_events_over_bound"] = max(stats["max_main_events_over_bound"], round(worst / bound, 6))
                if not x["truncated"] and worst > bound:
                    ck.violation(dict(rep, what="one scan call made %d loop iterations, the proved bound for %d cells is %d" % (worst, x["cells"], bound), broken="scan_work_bounded vs the real scan"), key="c02:bound"); continue
                if x["truncated"] or len(x["events"]) * max(1, x["cells"]) > (40_000_000 if tier == "quick" else 400_000_000):
                    stats["traces_too_long_for_replay"] += 1
                else:
                    # d of a row-delay event = new counter - old counter (capped events: any d that reaches the cap)
                    cnt = {}; lines = ["R %d" % x["cells"]]
                    for e in x["events"]:
                        if e[0] == "C": lines.append("C"); cnt = {}       # every scan_module call clears the visit counters
                        elif e[0] == "O": lines.append("O %d" % e[1])
                        elif e[0] == "W": cnt[e[1]] = e[2]; lines.append("W %d %d" % (e[1], e[2]))
                        else:
                            old = cnt.get(e[1], 0); d = e[2] - old if e[2] < 255 else min(15, max(0, 255 - old)) if old + 15 >= 255 else 99
                            cnt[e[1]] = e[2]; lines.append("D %d %d %d" % (e[1], d, e[2]))
                    lines.append("END"); tin.append("\n".join(lines)); tmeta.append((rep, worst, bound, len(x["events"])))
            ck.nontrivial((lab, mode, hash(blob)))
        if tin:
            mo = V.run([model], inp="\n".join(tin) + "\n", timeout=6000).stdout.split("\n")
            for j, (rep, worst, bound, nev) in enumerate(tmeta):
                stats["traces_replayed"] += 1; stats["trace_events"] += nev
                got = mo[j].split() if j < len(mo) else ["?"]
                if got[0] != "OK" or int(got[1]) != worst or int(got[2]) != bound:
                    ck.violation(dict(rep, what="the scan's logged events are not a trace of the skeleton / counts differ: model says %s, harness counted %d (bound %d)" % (" ".join(got), worst, bound),
                                      broken="correspondence Model/ScanSkel.v vs scan_module (hook H3 log)"), key="c02:trace")
        if r.returncode != 0:
            k = len([x for x in res if x.get("done")]); j = jobs[min(k, len(jobs) - 1)]; blob = open(j[0], "rb").read()
            ck.violation({"label": j[2], "mode": j[1], "file": os.path.relpath(j[0], V.REPO) if j[0].startswith(V.REPO) else None, "file_hex": blob.hex() if not j[0].startswith(V.REPO) and len(blob) < 200000 else None,
                          "broken": "a call did not return within 60 s" if "TIMEOUT" in r.stdout[-200:] else "sanitizer report / crash / allocation failure", "stderr": r.stderr[-2000:]}, key="c02-crash")
    finally:
        shutil.rmtree(tmpd, ignore_errors=True)
    ck.engine_stat("scanskel", **stats)
    ck.cov["rule"] = ("corpus modules, the fuzzer regression inputs of test-dev/data/f, truncated / bit-flipped / field-mutated corpus files (declared counts and sizes edited), generated MOD/XM/S3M/IT modules with hostile jumps, breaks, "
                      "nested pattern loops and row delays (and IT modules playing one-frame sample loops backwards at extreme pitch on 32 channels), and small decompression bombs (24 MiB of zeros in gzip/bzip2/xz/zip): load and test each return within 4 s + 40 us/byte with a peak-RSS growth below 256 MiB + 40x the input; "
                      "every loop iteration of scan_module is logged through hook H3, counted against the proved bound 514*255*R+514, and replayed event by event through the extracted skeleton (counter values must match); 40 frames of every loaded input are rendered and the iterations of the mixer's per-voice inner loop (hook H5) are held against the proved bound maxvoc * 2 * ticksize per tick")
    ck.assumptions += ["the time / memory ceilings are generous constants for this machine and sanitizer build: they detect runaway behaviour, they are not proved",
                       "the depackers' output-size guards are exercised by the bombs only (the 512 MiB ceiling itself is not reached in the quick tier); loaders' own loops are covered by the time ceiling on mutated inputs, not by a model"]
    ck.finish()

V.main_wrap(main)
