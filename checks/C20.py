# C20 — sample decoding applies exactly the declared conversions.
import os, sys, json
import vcommon as V

F = dict(DIFF=1, UNS=2, BDIFF=4, B7=8, NOLOAD=0x10, BIGEND=0x40, VIDC=0x80, INTER=0x100, FULLREP=0x200, ADLIB=0x1000, ADPCM=0x4000)
S16, LOOP, BIDIR, REV, FULL, SLOOP, SBIDIR, STEREO = 1, 2, 4, 8, 16, 32, 64, 128

def gen_case(rng, mode):
    flags = 0
    for k, p in (("DIFF", .3), ("UNS", .3), ("BDIFF", .15), ("B7", .15), ("BIGEND", .3), ("VIDC", .15), ("INTER", .3), ("FULLREP", .3), ("ADPCM", .12), ("NOLOAD", .12)):
        if rng.random() < p:
            flags |= F[k]
    if rng.random() < 0.01:
        flags |= F["ADLIB"]
    flg = 0
    for k, p in ((S16, .45), (STEREO, .4), (LOOP, .6), (BIDIR, .3), (SLOOP, .3), (SBIDIR, .2), (REV, .05), (FULL, .05)):
        if rng.random() < p:
            flg |= k
    ln = rng.choice((0, 1, 2, 3, 4, 5, 7, 8, 9, 15, 16, 17, 31, 33)) if rng.random() < 0.8 else rng.randrange(-2, 70)
    if rng.random() < 0.004:
        ln = rng.choice((0x10000000, 0x10000001, 0x7fffffff))
    if ln > 1000:
        flags &= ~F["NOLOAD"]      # precondition of NOLOAD: the caller's buffer holds the declared bytes
    cand = [-1, 0, 1, ln - 1, ln, min(ln + 1, 2**31 - 1), ln // 2, 2]
    lps, lpe = rng.choice(cand), rng.choice(cand)
    fl = (2 if flg & S16 else 1) * (2 if flg & STEREO else 1)
    bytelen = max(0, ln) * fl if ln < 1000 else 64
    if flags & F["ADPCM"]:
        need = 16 + ((bytelen + 1) >> 1)
    else:
        need = bytelen
    r = rng.random()
    if r < 0.45: avail = need + rng.choice((0, 0, 1, 2, 5))
    elif r < 0.9: avail = rng.randrange(0, need + 3)
    else: avail = rng.choice((1, 15, 16, 17, 18))
    pos = rng.choice((0, 0, 0, 1, 3, 7))
    total = max(1, pos + avail)
    if mode == "ramp":
        file = bytes((i * 7 + 3) & 255 for i in range(total))
    else:
        file = bytes(rng.randrange(256) for _ in range(total))
    if rng.random() < 0.02:
        pos = total + rng.choice((0, 1))   # at / after EOF (memory seek clamps)
        pos = min(pos, total)
    nbuf = bytes(rng.randrange(256) for _ in range(bytelen + rng.choice((0, 0, 3)))) if flags & F["NOLOAD"] else b""
    skip = 1 if rng.random() < 0.02 else 0
    return (flags, ln, lps, lpe, flg, skip, pos, file.hex() or "-", nbuf.hex() or "-")

def exhaustive_small():
    """every flag combination on a fixed small sample, every truncation offset"""
    out = []
    bits = [1, 2, 4, 8, 0x40, 0x80, 0x100, 0x200, 0x4000]
    for mask in range(1 << len(bits)):
        flags = sum(b for i, b in enumerate(bits) if mask >> i & 1)
        for flg in (0, S16, STEREO, S16 | STEREO):
            fl = (2 if flg & S16 else 1) * (2 if flg & STEREO else 1)
            ln = 3
            need = (16 + ((ln * fl + 1) >> 1)) if flags & 0x4000 else ln * fl
            for avail in (need, max(1, need - 1 - (mask % 3))):
                file = bytes((i * 37 + mask * 11 + 5) & 255 for i in range(avail))
                out.append((flags, ln, 1, 3, flg | LOOP, 0, 0, file.hex() or "-", "-"))
    return out

def main():
    tier = sys.argv[1] if len(sys.argv) > 1 else "quick"
    replay = sys.argv[sys.argv.index("--replay") + 1] if "--replay" in sys.argv else None
    ck = V.Check("C20", tier)
    rng = ck.rng
    ck.proof_leg(["Extract/Extract_sampleload.vo"])
    drv = V.build_driver("c20_drv", ["c20_drv.c"])
    model = V.ocaml_build("sampleload")
    env = V.san_env()
    if replay:
        cases = [tuple(json.load(open(replay))["case"])]
    else:
        cases = []
        cdir = os.path.join(V.VERIF, "corpus", "C20")
        if os.path.isdir(cdir):
            for f in sorted(os.listdir(cdir)):
                cases.append(tuple(json.load(open(os.path.join(cdir, f)))["case"]))
        cases += exhaustive_small()
        n = 30000 if tier == "quick" else 600000
        for i in range(n):
            cases.append(gen_case(rng, "ramp" if i % 5 == 0 else "rand"))
    hist = {}
    nd = 0
    CH = 50000
    for off in range(0, len(cases), CH):
        chunk = cases[off:off + CH]
        inp = "".join(" ".join(str(x) for x in c) + "\n" for c in chunk)
        rc = V.run([drv], inp=inp, env=env, timeout=1800)
        rm = V.run([model], inp=inp, timeout=1800)
        co, mo = rc.stdout.split("\n"), rm.stdout.split("\n")
        if rc.returncode != 0:
            # find the case at which the driver died: the one after the last line printed
            k = len([x for x in co if x])
            bad = chunk[k] if k < len(chunk) else None
            ck.violation({"engine": "load_sample", "case": list(bad) if bad else None, "broken": "sanitizer report / crash in libxmp_load_sample",
                          "stderr": rc.stderr[-2500:]}, key="c20-crash:%s" % (bad[:7],) if bad else "c20-crash")
        for i, c in enumerate(chunk):
            a = co[i] if i < len(co) else "missing"
            b = mo[i] if i < len(mo) else "missing"
            ck.count()
            kind = "nodata" if b.endswith(" -") else "fail" if b == "-1" else "loaded" if len(b.split()) == 7 else "model-missing"
            trunc = kind == "loaded" and b.split()[1] != str(c[1])
            hist[kind + ("-trunc" if trunc else "")] = hist.get(kind + ("-trunc" if trunc else ""), 0) + 1
            if kind == "loaded":
                ck.nontrivial(c[:7] + (len(c[7]),))
            if a != b:
                if a == "missing" and rc.returncode != 0:
                    continue
                nd += 1
                if nd <= 3:
                    ck.violation({"engine": "load_sample", "case": list(c), "fields": "flags len lps lpe flg skip pos filehex nbufhex",
                                  "expected_model": b[:600], "got_impl": a[:600],
                                  "broken": "correspondence load_sample (Model/SampleLoad.v vs libxmp_load_sample): ret len lps lpe flg pos block"},
                                 key="c20:" + " ".join(str(x) for x in c[:7]))
        if off == 0 and chunk:
            j = next((i for i, x in enumerate(mo) if x and not x.endswith(" -") and x != "-1"), 0)
            ck.sample({"case(flags,len,lps,lpe,flg,skip,pos,file,nbuf)": list(chunk[j]), "model": mo[j][:200], "impl": co[j][:200] if j < len(co) else None})
    ck.engine_stat("load_sample", cases=len(cases), outcome_hist=hist, disagreements=nd)
    ck.cov["rule"] = ("exhaustive: all 512 combinations of the 9 conversion flags x 4 layouts x {full, truncated} on a 3-frame sample; random: flags, layout, loop flags, lengths around 0..33 (and beyond MAX_SAMPLE_SIZE), "
                      "loop pairs from {-1,0,1,len-1,len,len+1,len/2,2}^2, available bytes at every truncation offset, stream offsets, NOLOAD buffers, SMPCTL_SKIP; "
                      "non-trivial = the model returned a loaded block; distinct by (flags,len,lps,lpe,flg,skip,pos,available)")
    ck.assumptions += ["little-endian host; malloc does not fail (C04 covers allocation failure)", "memory HIO handle semantics for the stream (C07 covers the other back-ends)"]
    ck.finish()

V.main_wrap(main)
