# C04 — failed or faulted operations are atomic: no leak, no residue, context reusable.
import os, sys, json, tempfile, shutil, gzip, bz2, lzma, zipfile, io
from concurrent.futures import ThreadPoolExecutor
import vcommon as V

WRAPS = ["malloc", "calloc", "realloc", "free", "mkstemp", "unlink"]
ENTRIES = ("LP", "LM", "LF", "LC", "TP", "TM", "TF", "TC", "SP")

def parse(o):
    w = o.replace("|", " ").split()
    k = ("ret", "allocs", "failed", "live0", "live1", "fd0", "fd1", "temps", "state", "file_open", "closes", "ret2", "digest", "frames_ok", "final_live")
    d = dict(zip(k, w[1:16]))
    for x in k:
        if x != "digest": d[x] = int(d[x])
    return d

def main():
    tier = sys.argv[1] if len(sys.argv) > 1 else "quick"
    replay = sys.argv[sys.argv.index("--replay") + 1] if "--replay" in sys.argv else None
    ck = V.Check("C04", tier)
    rng = ck.rng
    ck.proof_leg(["Extract/Extract_cleanup.vo"])
    drv = V.build_driver("c04_drv", ["c04_drv.c"], wraps=WRAPS)
    model = V.ocaml_build("cleanup")
    env = V.san_env()
    prior = os.path.join(V.REPO, "test-dev", "data", "ode2ptk.mod")
    # what the model allows: (entry, earlier state) -> set of (ret, state)
    q = ["OUT %s %d" % (e, s) for e in ENTRIES for s in (0, 1, 2)]
    mo = V.run([model], inp="\n".join(q) + "\n", timeout=600).stdout.split("\n")
    allowed = {}
    for l, o in zip(q, mo):
        _, e, s = l.split(); allowed[(e, int(s))] = set((int(x.split(":")[0]), int(x.split(":")[1])) for x in o.split())
    stats = {"files": 0, "experiments": 0, "alloc_fault_runs": 0, "truncation_runs": 0, "by_entry": {}, "outcomes_seen": {}, "loads_surviving_a_failed_allocation": 0}
    if replay:
        rp = json.load(open(replay))
        if rp.get("file_hex"):
            crafted = tempfile.mkdtemp(prefix="vp-c04-", dir="/var/tmp"); fp = os.path.join(crafted, rp["file"].split(":", 1)[1]); open(fp, "wb").write(bytes.fromhex(rp["file_hex"]))
            files = [fp]; forced = [" ".join(rp["job"].split()[:4]) + " " + fp]
        else:
            files = [os.path.join(V.REPO, rp["file"])]; forced = [rp["job"]]
    else:
        allf = [f for f in V.corpus_files() if os.path.getsize(f) < (120000 if tier == "quick" else 600000)]
        base = os.path.join(V.REPO, "test-dev", "data")
        allf += [os.path.join(base, f) for f in sorted(os.listdir(base)) if os.path.isfile(os.path.join(base, f)) and not f.endswith((".data", ".c", ".txt", ".h")) and os.path.getsize(os.path.join(base, f)) < 120000]
        allf = sorted(set(allf))
        # one file per extension (every loader / depacker family) plus a random sample
        byext = {}
        for f in allf: byext.setdefault(os.path.splitext(f)[1].lower() or os.path.basename(f)[:4].lower(), []).append(f)
        files = sorted(set([rng.choice(v) for v in byext.values()] + rng.sample(allf, min(len(allf), 40 if tier == "quick" else len(allf)))))
        forced = None
        # crafted inputs for the unpack stage: signatures that call for an external helper (absent here: the "helper fails" outcome) and
        # containers whose member is empty (a depacker that succeeds with nothing to hand over)
        crafted = tempfile.mkdtemp(prefix="vp-c04-", dir="/var/tmp")
        def put(name, blob):
            p = os.path.join(crafted, name); open(p, "wb").write(blob); files.append(p)
        put("helper.rar", b"Rar!\x1a\x07\x00" + bytes(range(200)))
        put("helper.mo3", b"MO3\x05" + bytes(300))
        zb = io.BytesIO()
        with zipfile.ZipFile(zb, "w", zipfile.ZIP_STORED) as z: z.writestr("empty.mod", b"")
        put("empty-stored.zip", zb.getvalue())
        zb = io.BytesIO()
        with zipfile.ZipFile(zb, "w", zipfile.ZIP_DEFLATED) as z: z.writestr("empty.mod", b"")
        put("empty-deflate.zip", zb.getvalue())
        put("empty.gz", gzip.compress(b"")); put("empty.bz2", bz2.compress(b"")); put("empty.xz", lzma.compress(b"", format=lzma.FORMAT_XZ, check=lzma.CHECK_CRC32))

    ref = {}

    def one(f):
        """all experiments on one file: returns (list of (job, parsed result or None, stderr))"""
        out = []
        if forced:
            jobs = list(forced)
        else:
            base = ["%s 0 -1 0 %s" % (e, f) for e in ("LP", "LM", "TP", "SP", "LF", "LC", "TF")]
            r = V.run([drv, prior], inp="\n".join(base) + "\n", env=env, timeout=600)
            o = [x for x in r.stdout.strip().split("\n") if x]
            if r.returncode != 0 or len(o) < len(base):
                return [(base[min(len(o), len(base) - 1)], None, r.stderr[-1500:])]
            out += [(l, parse(x), None) for l, x in zip(base, o)]        # the unfaulted calls are judged too
            jobs = []
            refd = parse(o[0])
            ref[f] = (refd["ret"], refd["digest"])          # what a normal load of this file on a fresh context gives
            lr = __import__("random").Random(hash(f) & 0xffff)
            for l, x in zip(base, o):
                d = parse(x); e = l.split()[0]
                if e == "SP" and d["ret"] != 0: continue
                n = d["allocs"]; cap = 40 if tier == "quick" else 400
                ks = list(range(1, min(n, cap) + 1)) + ([lr.randrange(cap + 1, n + 1) for _ in range(12)] if n > cap else [])
                jobs += ["%s %d -1 %d %s" % (e, k, k % 2 if e != "SP" else 0, f) for k in ks]
            sz = os.path.getsize(f)
            cuts = sorted(set([0, 1, 2, 3, 4, sz - 1, sz // 2] + [lr.randrange(max(1, sz)) for _ in range(24 if tier == "quick" else 200)]))
            for c in cuts:
                for e in (lr.choice(("LM", "TM")), lr.choice(("LF", "TF")), lr.choice(("LC", "TC"))):
                    jobs.append("%s 0 %d %d %s" % (e, max(0, c), c % 2, f))
            for e in ("TM", "TF", "TC"):
                for k in range(1, 8): jobs.append("%s %d -1 %d %s" % (e, k, k % 2, f))
        pos = 0
        while pos < len(jobs):
            r = V.run([drv, prior], inp="\n".join(jobs[pos:]) + "\n", env=env, timeout=2400)
            o = [x for x in r.stdout.strip().split("\n") if x]
            for j, x in zip(jobs[pos:], o): out.append((j, parse(x), None))
            if r.returncode != 0:
                if pos + len(o) < len(jobs): out.append((jobs[pos + len(o)], None, r.stderr[-1500:]))
                pos += len(o) + 1
            else:
                break
        return out

    with ThreadPoolExecutor(12) as ex:
        results = list(ex.map(one, files))
    for f, res in zip(files, results):
        stats["files"] += 1
        rel = os.path.relpath(f, V.REPO) if f.startswith(V.REPO) else "crafted:" + os.path.basename(f)
        for (job, d, err) in res:
            e, k, cut, pr = job.split()[:4]; k = int(k); cut = int(cut); pr = int(pr)
            ck.count(); stats["experiments"] += 1; stats["by_entry"][e] = stats["by_entry"].get(e, 0) + 1
            if k: stats["alloc_fault_runs"] += 1
            if cut >= 0: stats["truncation_runs"] += 1
            rep = {"file": rel, "job": job, "entry": e, "fail_allocation": k, "cut": cut, "earlier_module_loaded": pr}
            if rel.startswith("crafted:") and os.path.exists(f): rep["file_hex"] = open(f, "rb").read().hex()
            if d is None:
                site = next((l.split(" in ", 1)[1].split()[0] for l in (err or "").split("\n") if l.strip().startswith("#") and "/repo/src" in l), "?")
                ck.violation(dict(rep, what="sanitizer report / crash under the fault", stderr=err, broken="C04: the call must return an error code"), key="c04:crash:" + site); continue
            prior_state = 1 if pr else 0
            if e == "SP": prior_state = 1 if (ref.get(f, (0,))[0] == 0) else 0      # start_player on a context whose load failed: state error
            stats["outcomes_seen"]["%s %d:%d" % (e, d["ret"], d["state"])] = stats["outcomes_seen"].get("%s %d:%d" % (e, d["ret"], d["state"]), 0) + 1
            bad = None
            okset = allowed[(e, prior_state)]
            ret_class = -2 if (e == "SP" and d["ret"] == -6) else d["ret"]          # start_player reports -2 or -6 for a failed allocation
            if (ret_class, d["state"]) not in okset: bad = "return code %d with context state %d is not an outcome the model allows from state %d: %s" % (d["ret"], d["state"], prior_state, sorted(okset))
            elif d["fd0"] != d["fd1"]: bad = "open descriptors %d -> %d" % (d["fd0"], d["fd1"])
            elif d["temps"]: bad = "%d temporary file(s) left behind" % d["temps"]
            elif d["final_live"]: bad = "%d allocation(s) never released (after xmp_free_context)" % d["final_live"]
            elif e[0] == "T" and d["live0"] != d["live1"]: bad = "testing changed the number of live allocations %d -> %d" % (d["live0"], d["live1"])
            elif d["ret"] < 0 and e == "SP" and d["live0"] != d["live1"]: bad = "a failed xmp_start_player left %d allocation(s)" % (d["live1"] - d["live0"])
            elif not d["file_open"]: bad = "the caller's FILE is no longer usable"
            elif e[1] == "C" and d["closes"] != 1: bad = "the close callback ran %d times" % d["closes"]
            elif e[1] != "C" and d["closes"] != 0: bad = "a close callback ran for a non-callback stream"
            elif d["failed"] and d["ret"] >= 0 and e[0] != "T":
                stats["loads_surviving_a_failed_allocation"] += 1           # tolerated optional data (e.g. a song message): must still be a usable module
                if not d["frames_ok"] and e != "SP": bad = "the load reported success after a failed allocation but the module does not play"
            rr = ref.get(f)
            if bad is None and rr and rr[0] == 0 and (d["ret2"] != 0 or not d["frames_ok"] or (e != "SP" and d["digest"] != rr[1])):
                # the file loads normally on a fresh context: the faulted context must load the same module and play it
                bad = "the context is not reusable: loading the same file again returned %d (digest %s vs %s), frames rendered: %d" % (d["ret2"], d["digest"], rr[1], d["frames_ok"])
            if bad:
                ck.violation(dict(rep, what=bad, observed=d, broken="C04 clause on the implementation / outcome outside Model/Cleanup.v"), key="c04:%s:%s" % (e, bad.split()[0]))
            else:
                ck.nontrivial((rel, job))
    shutil.rmtree(crafted, ignore_errors=True) if 'crafted' in dir() else None
    # reference: every file must load normally (k = 0) for "reusable" to be meaningful; files that do not are only checked for leaks
    ck.engine_stat("cleanup", **stats)
    ck.cov["rule"] = ("one corpus file per file-name extension (every loader and depacker family) plus a random sample, plus crafted inputs for the unpack stage (Rar / MO3 signatures with the helper absent, archives whose member is empty); per file and per entry point (4 loads, 4 tests, start_player): the k-th allocator call fails for every k up to 40 (thorough: 400) and a sample beyond, "
                      "streams cut at 0..4 bytes, the middle, the last byte and random lengths (memory, FILE, callbacks), with and without an earlier module loaded; after every faulted call: (return code, context state) must be an outcome of the extracted model, "
                      "open descriptors, temporary files and live allocations are counted (malloc/calloc/realloc/free/mkstemp wrapped), the caller's FILE must be usable, the close callback must have run exactly once, "
                      "and the same context must then load the file and render 3 frames; live allocations after xmp_free_context must be 0")
    ck.assumptions += ["stage failures inside loaders are produced by failing the k-th allocation and by cutting the stream; which stage a given k hits is not mapped - the observed (return code, state) must be one of the outcomes the model allows for some stage",
                       "a load that succeeds although an allocation failed (optional data such as a song message) is accepted if nothing leaks and the module plays; external helper programs (unrar / unmo3) are absent in this sandbox: only the 'helper absent' outcome is exercised"]
    ck.finish()

V.main_wrap(main)
