# C11 — test and load agree, and testing has no side effects.
import os, sys, json, tempfile, shutil
import vcommon as V
sys.path.insert(0, os.path.join(V.VERIF, "gen"))
import mutate

PAIRS = (("TP", "LP", "path"), ("TM", "LM", "memory"), ("TF", "LF", "FILE"), ("TC", "LC", "callbacks"))

def is_container(head):
    return head[:2] in (b"\x1f\x8b", b"PK", b"BZ", b"\x1f\x9d", b"\xfd7") or head[:4] in (b"PP20", b"XPKF", b"ziRC", b"Rar!") or b"-lh" in head[:8] or head[:1] == b"\x1a" \
        or head[:8] == b"Archive\x00" or head[:3] in (b"LZX", b"MO3", b"S40") or b"SQSH" in head[:16] or head[:4] == b"MMCM" or head[:4] == b"ICE!" or head[:4] in (b"PX20", b"CrM!", b"CrM2", b"Crm!", b"Crm2")

def wrap_umx(mod, typname):
    """an Unreal package (version 61, one name, one export) around a module: the UMX loader hands the object to the MOD / S3M / XM / IT
    loader named by the type, and its test function reads the wrapped module's title itself"""
    import struct
    def fci(v):
        out = bytearray([v & 0x3f])
        if v < 0x40: return bytes(out)
        out[0] |= 0x40; out.append((v >> 6) & 0x7f)
        if v < (1 << 13): return bytes(out)
        out[1] |= 0x80; out.append((v >> 13) & 0x7f)
        if v < (1 << 20): return bytes(out)
        out[2] |= 0x80; out.append((v >> 20) & 0x7f)
        if v < (1 << 27): return bytes(out)
        out[3] |= 0x80; out.append((v >> 27) & 0x3f)
        return bytes(out)
    name_ofs, import_ofs, export_ofs, obj_ofs = 64, 76, 80, 128
    obj = fci(0) + fci(0) + fci(len(mod))
    b = bytearray(obj_ofs) + obj + mod + bytes(64)
    struct.pack_into("<IIIIIIIII", b, 0, 0x9e2a83c1, 61, 0, 1, name_ofs, 1, export_ofs, 0, import_ofs)
    b[name_ofs:name_ofs + len(typname)] = typname.encode()
    exp = fci(0) + fci(0) + bytes(4) + fci(0) + bytes(4) + fci(len(mod) + len(obj)) + fci(obj_ofs)
    b[export_ofs:export_ofs + len(exp)] = exp
    return bytes(b)

def main():
    tier = sys.argv[1] if len(sys.argv) > 1 else "quick"
    replay = sys.argv[sys.argv.index("--replay") + 1] if "--replay" in sys.argv else None
    ck = V.Check("C11", tier)
    rng = ck.rng
    ck.proof_leg(["Extract/Extract_probe.vo"])
    ldrv = V.build_driver("c07_drv", ["c07_drv.c"])
    drv = V.build_driver("c11_drv", ["c11_drv.c"])
    model = V.ocaml_build("probe")
    env = V.san_env()
    stats = {"adjust_cases": 0, "inputs": 0, "pairs_compared": 0, "file_pair_on_container_skipped": 0, "ret_hist": {}, "titles_compared": 0, "side_effect_runs": 0, "mutant_kinds": {}}
    rp = json.load(open(replay)) if replay else None
    # ---- (a) the two sanitisers against the extracted model
    if not rp or rp.get("engine") == "adjust":
        cases = []
        alpha = [0, 1, 9, 31, 32, 32, 32, 46, 65, 97, 126, 127, 128, 200, 255]
        if rp: cases = [tuple(rp["case"])]
        else:
            for _ in range(4000 if tier == "quick" else 200000):
                n = rng.choice((0, 1, 2, 5, 20, 22, 28, 32, 63))
                raw = bytes(rng.choice(alpha) for _ in range(rng.choice((0, 1, 3, n, n + 3, max(0, n - 2)))))
                cases.append(("CA", n, raw.hex() or "-") if rng.random() < 0.6 else ("AS", 0, (raw.replace(b"\0", b"\x01")).hex() or "-"))
        inp = "".join(("CA %d %s\n" % (n, h)) if op == "CA" else ("AS %s\n" % h) for (op, n, h) in cases)
        co = V.run([drv, "adj"], inp=inp, env=env, timeout=3000)
        mo = V.run([model], inp=inp, timeout=3000).stdout.split("\n")
        cl = co.stdout.split("\n")
        if co.returncode != 0:
            c = cases[min(len([x for x in cl if x]), len(cases) - 1)]
            ck.violation({"engine": "adjust", "case": list(c), "broken": "sanitizer report in libxmp_copy_adjust / libxmp_adjust_string", "stderr": co.stderr[-1500:]}, key="c11-adjust-crash")
        for i, c in enumerate(cases):
            if i >= len(cl) or not cl[i]: break
            ck.count(); stats["adjust_cases"] += 1
            if i >= len(mo) or cl[i] != mo[i]:
                ck.violation({"engine": "adjust", "case": list(c), "impl": cl[i], "model": mo[i] if i < len(mo) else None,
                              "broken": "correspondence Model/Probe.v copy_adjust / adjust_string vs the C functions"}, key="c11:adjust:" + c[0])
            else:
                ck.nontrivial(("adjust",) + c)
    # ---- (b) the four test / load pairs on valid, truncated and bit-flipped inputs
    tmpd = tempfile.mkdtemp(prefix="vp-c11-", dir="/var/tmp")
    try:
        jobs = []
        if rp and rp.get("engine") == "entry":
            if rp.get("file_hex"):
                p = os.path.join(tmpd, "replay.bin"); open(p, "wb").write(bytes.fromhex(rp["file_hex"])); jobs.append((p, rp.get("label", "replay")))
            else:
                jobs.append((os.path.join(V.REPO, rp["file"]), "corpus"))
        elif not rp:
            files = [f for f in V.corpus_files() if os.path.getsize(f) < 1500000]
            base = os.path.join(V.REPO, "test-dev", "data")
            extra = [os.path.join(d, f) for d in (base, os.path.join(base, "f")) if os.path.isdir(d) for f in sorted(os.listdir(d))
                     if os.path.isfile(os.path.join(d, f)) and not f.endswith((".data", ".c", ".txt", ".h")) and os.path.getsize(os.path.join(d, f)) < 1500000]
            files = sorted(set(files + extra))
            pick = sorted(rng.sample(files, min(len(files), 140 if tier == "quick" else len(files))))
            # one file of every file-name extension (a proxy for 'every format'), so that per-format mutants exist for all of them
            byext = {}
            for f in files:
                byext.setdefault(os.path.splitext(f)[1].lower() or os.path.basename(f).split(".")[0].lower(), []).append(f)
            pick += [fs[0] for e, fs in sorted(byext.items()) if fs[0] not in pick]
            # every container / archive of the corpus is always in (their recognition goes through the unpack stage and helper programs)
            pick += [f for f in files if f not in pick and is_container(open(f, "rb").read(1024))]
            pick += [f for f in files if f not in pick and os.path.basename(f) in ("Diamond.j2b", "titletheme.fuchs", "Mexx-Paeckchen50-intro.TrackerPacker1", "Delite-NeSouthEast51-menu.ProPacker1")]   # inputs of recorded findings
            k = 0
            # polyglots: a valid M.K. module whose first bytes also carry another format's signature, tested right after a real file of
            # that format (recognition must not depend on what was tested before) - and its load walks the table from the top
            mk = open(os.path.join(V.REPO, "test-dev", "data", "ode2ptk.mod"), "rb").read()
            sigs = [(b"IMPM", ".it"), (b"Extended Module: ", ".xm"), (b"MTM\x10", ".mtm"), (b"if", ".669"), (b"FAR\xfe", ".far"), (b"MAS_UTrack_V00", ".ult"), (b"DDMF", ".mdl"), (b"PSM ", ".psm"), (b"Liquid Module:", ".liq"), (b"OKTASONG", ".okt")]
            for sig, ext in sigs:
                same = [f for f in files if f.lower().endswith(ext)]
                if same: jobs.append((rng.choice(same), "corpus"))
                p = os.path.join(tmpd, "poly%02d.mod" % k); k += 1
                open(p, "wb").write(sig + mk[len(sig):]); jobs.append((p, "polyglot-" + ext[1:]))
            for f in pick:
                jobs.append((f, "corpus"))
                head = open(f, "rb").read(4096)
                if 0 in head[:600] and len(head) > 600 and os.path.getsize(f) < 300000:
                    # text fields filled to the brim: every NUL in the header area becomes a letter
                    data = open(f, "rb").read()
                    p = os.path.join(tmpd, "f%06d" % k); k += 1
                    open(p, "wb").write(bytes((0x41 if (b == 0 and i < 600) else b) for i, b in enumerate(data))); jobs.append((p, "mutant-filled:" + os.path.basename(f)))
                    # gentler: only the NUL padding that follows text (a letter or digit) in the first 2 KiB becomes letters - titles, author and
                    # sample-name fields filled to their last byte, size fields left alone
                    out = bytearray(data); i = 1; changed = False
                    while i < min(len(out), 2048):
                        if out[i] == 0 and chr(out[i - 1]).isalnum():
                            j = i
                            while j < len(out) and out[j] == 0 and j - i < 64: j += 1
                            if j - i >= 2:
                                out[i:j] = b"x" * (j - i); changed = True
                            i = j
                        else:
                            i += 1
                    if changed:
                        p = os.path.join(tmpd, "f%06d" % k); k += 1
                        open(p, "wb").write(bytes(out)); jobs.append((p, "mutant-padfill:" + os.path.basename(f)))
                data = open(f, "rb").read()
                if len(data) > 200000: continue
                for kind, blob in mutate.mutants(data, rng, *((1, 2, 1) if tier == "quick" else (4, 8, 4))):
                    if not blob: continue                 # the property is about non-empty inputs
                    p = os.path.join(tmpd, "v%06d" % k); k += 1
                    open(p, "wb").write(blob); jobs.append((p, "mutant-" + kind + ":" + os.path.basename(f)))
            # files that end inside their format's header: a test routine reads the title, the loader's probe does not, so only inputs cut
            # in the first bytes can make the two disagree about recognition (one representative per extension, many cut points)
            cuts = (4, 5, 8, 12, 16, 20, 24, 28, 29, 30, 31, 32, 40, 44, 48, 60, 64, 80, 100, 128, 200, 300, 438, 600, 950, 1080, 1083, 1084)
            for f in pick:
                data = open(f, "rb").read(1100)
                for n in (cuts if tier == "thorough" else rng.sample(cuts, 9)):
                    if n < len(data):
                        p = os.path.join(tmpd, "h%06d" % k); k += 1
                        open(p, "wb").write(data[:n]); jobs.append((p, "mutant-headcut%d:%s" % (n, os.path.basename(f))))
            # Unreal packages around modules whose titles fill their field: the title the test reports must be the loaded one
            for ext, typ, tofs, tlen in ((".s3m", "s3m", 0, 28), (".it", "it", 4, 26), (".xm", "xm", 17, 20), (".mod", "mod", 0, 20)):
                cand = [f for f in V.corpus_files() if f.lower().endswith(ext) and os.path.getsize(f) < 200000]
                for f in cand[:2]:
                    data = bytearray(open(f, "rb").read())
                    for title in (b"Twenty-six letters in here", b"short", b"x" * tlen):
                        d2 = bytearray(data); d2[tofs:tofs + tlen] = title[:tlen].ljust(tlen, b"\0" if typ != "xm" else b" ")
                        for blob, lab in ((bytes(d2), "title-bare"), (wrap_umx(bytes(d2), typ), "title-umx")):
                            p = os.path.join(tmpd, "u%06d" % k); k += 1
                            open(p, "wb").write(blob); jobs.append((p, "%s-%s:%s" % (lab, typ, os.path.basename(f))))
            for n in (1, 2, 3, 4, 16, 1084):              # tiny and all-zero inputs
                p = os.path.join(tmpd, "z%d" % n); open(p, "wb").write(bytes(n)); jobs.append((p, "zeros-%d" % n))
        inp = "".join("%s %s\n" % (e, p) for p, _ in jobs for e in ("LP", "LM", "LF", "LC", "TP", "TM", "TF", "TC"))
        r = V.run([ldrv, "load"], inp=inp, env=env, timeout=6000) if jobs else None
        blocks, cur = [], None
        for l in (r.stdout.split("\n") if r else []):
            if l.startswith("RET "):
                cur = [l]; blocks.append(cur)
            elif cur is not None and l:
                cur.append(l)
        tq = []; tmeta = []
        for k, (p, lab) in enumerate(jobs):
            bs = blocks[8 * k: 8 * k + 8]
            if len(bs) < 8: break
            ck.count(); stats["inputs"] += 1
            kind = lab.split(":")[0]; stats["mutant_kinds"][kind] = stats["mutant_kinds"].get(kind, 0) + 1
            head = open(p, "rb").read(1024)
            cont = is_container(head)
            blob = open(p, "rb").read()
            rep = {"engine": "entry", "label": lab, "file": os.path.relpath(p, V.REPO) if lab == "corpus" else None, "file_hex": blob.hex() if lab != "corpus" and len(blob) < 600000 else None}
            bad = None
            for (te, le, name), tb, lb in zip(PAIRS, bs[4:], bs[:4]):
                tw = tb[0].split(); lret = int(lb[0].split()[1]); tret = int(tw[1])
                tname, ttype = tw[3], tw[5]
                if tw[2] != "1" or tw[4] != "1":
                    bad = bad or "%s test left a string that is not NUL-terminated inside its array" % name
                stats["ret_hist"]["%d/%d" % (tret, lret)] = stats["ret_hist"].get("%d/%d" % (tret, lret), 0) + 1
                if name == "FILE" and cont:
                    stats["file_pair_on_container_skipped"] += 1      # only testing unpacks a stream: claimed on non-container inputs
                else:
                    stats["pairs_compared"] += 1
                    exp = 0 if lret in (0, -4) else lret
                    if tret != exp:
                        bad = bad or "%s entry points: test returned %d, load returned %d" % (name, tret, lret)
                if tret != 0 and (tname != "-" or ttype != "-"):
                    bad = bad or "%s test failed (%d) but left name %s / type %s" % (name, tret, tname, ttype)
                if tret == 0 and ttype == "-":
                    bad = bad or "%s test succeeded with an empty format string" % name
                if "fileok=0" in tb[0]:
                    bad = bad or "%s test left the caller's FILE unusable" % name
                if tret == 0 and lret == 0 and not (name == "FILE" and cont):
                    mname = next((x.split()[2] for x in lb if x.startswith("NAME ")), None)
                    if mname is not None:
                        tq.append("TA %s %s" % (tname, mname)); tmeta.append((rep, name, tname, mname, ttype))
            if bad:
                ck.violation(dict(rep, what=bad, broken="C11 clause on the implementation"), key="c11:" + bad.split(":")[0].split()[0] + ":" + ("ret" if "returned" in bad else "strings"))
            else:
                ck.nontrivial(("entry", lab, hash(tuple(b[0] for b in bs))))
        if tq:
            to = V.run([model], inp="\n".join(tq) + "\n", timeout=3000).stdout.split("\n")
            for j, (rep, name, tname, mname, ttype) in enumerate(tmeta):
                stats["titles_compared"] += 1
                if j >= len(to) or to[j].strip() != "1":
                    ck.violation(dict(rep, what="%s: test title %s vs loaded module title %s do not agree up to the replacement character (extracted titles_agree)" % (name, tname, mname),
                                      broken="C11 title clause"), key="c11:title:" + (bytes.fromhex(ttype).decode("latin1") if ttype != "-" else "-"))
        if r and r.returncode != 0:
            k = len(blocks) // 8; j = jobs[min(k, len(jobs) - 1)]; blob = open(j[0], "rb").read()
            ck.violation({"engine": "entry", "label": j[1], "file": os.path.relpath(j[0], V.REPO) if j[1] == "corpus" else None, "file_hex": blob.hex() if j[1] != "corpus" and len(blob) < 600000 else None,
                          "broken": "sanitizer report / crash in a test or load entry point", "stderr": r.stderr[-2000:]}, key="c11-crash")
        # ---- (c) testing while another context is loaded and playing: that context is untouched, the caller's FILE stays open
        if not rp or rp.get("engine") == "side":
            files = [f for f in V.corpus_files() if os.path.getsize(f) < 400000]
            pairs = [(rng.choice(files), rng.choice(files + [j[0] for j in jobs[:200]])) for _ in range(60 if tier == "quick" else 1500)] if not rp else [(os.path.join(V.REPO, rp["loaded"]), os.path.join(V.REPO, rp["tested"]))]
            rs = V.run([drv, "side"], inp="".join("%s\t%s\n" % pq for pq in pairs), env=env, timeout=3000)
            out = [l for l in rs.stdout.split("\n") if l]
            i = 0
            for (a, b) in pairs:
                if i >= len(out): break
                if out[i] == "SKIP": i += 1; continue
                side, fl = out[i], out[i + 1] if i + 1 < len(out) else "FILE ? ? 0"; i += 2
                ck.count(); stats["side_effect_runs"] += 1
                rep = {"engine": "side", "loaded": os.path.relpath(a, V.REPO), "tested": os.path.relpath(b, V.REPO) if b.startswith(V.REPO) else None}
                if side != "SIDE same":
                    ck.violation(dict(rep, what="testing changed the state of a loaded, playing context", broken="C11 no-side-effect clause"), key="c11:side")
                elif fl.split()[3] != "1":
                    ck.violation(dict(rep, what="the caller's FILE is not usable after xmp_test_module_from_file: %s" % fl, broken="C11 FILE clause"), key="c11:file")
                else:
                    ck.nontrivial(("side", a, b))
            if rs.returncode != 0:
                ck.violation({"engine": "side", "broken": "sanitizer report while testing next to a playing context", "stderr": rs.stderr[-2000:]}, key="c11-side-crash")
    finally:
        shutil.rmtree(tmpd, ignore_errors=True)
    ck.engine_stat("probe", **stats)
    ck.cov["rule"] = ("(a) libxmp_copy_adjust / libxmp_adjust_string vs the extracted model on thousands of byte strings over a hostile alphabet (NUL, control, space, '.', DEL, high bytes) and field widths 0..63; "
                      "(b) corpus modules (incl. the fuzzer regression inputs of test-dev/data/f), their truncations / bit flips / field mutations, and tiny all-zero inputs through all four test and all four load entry points: "
                      "return code relation (expected_test), empty strings on failure, non-empty format on success, test title vs loaded title through the extracted titles_agree, caller's FILE usable; "
                      "(c) the four test entry points run next to a loaded, playing context whose module, player, channel and voice state is digested before and after")
    ck.assumptions += ["the format test functions are modelled as a table of outcomes (f_test / f_title / f_load_ok); that a test function behaves the same with and without a title buffer is checked by (b), not proved",
                       "the FILE pair is compared on non-container inputs only, as the property states"]
    ck.finish()

V.main_wrap(main)
