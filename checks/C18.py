# C18 — the reported duration is exact for modules with linear flow.
import os, sys, json, tempfile, shutil
from fractions import Fraction
import vcommon as V
sys.path.insert(0, os.path.join(V.VERIF, "gen"))
import modgen

def song_rows(song, pat_rows_loaded):
    """abstract rows (one flow effect per row) of each pattern, as the loaded module sees them"""
    out = []
    for pi, pat in enumerate(song['patterns']):
        nrows = pat_rows_loaded[pi] if pi < len(pat_rows_loaded) else len(pat)
        rows = []
        for r in range(nrows):
            e = "N"
            if r < len(pat):
                for cell in pat[r]:
                    if cell and cell.get('fx'):
                        k, v = cell['fx']
                        e = {"speed": "S", "tempo": "T", "delay": "D", "jump": "J"}[k] + str(v)
            rows.append(e)
        out.append(rows)
    return out

# reported integers are (int) truncations of a double accumulated with rounding: 1 ms for the truncation plus 1 microsecond for the rounding
SLACK = Fraction(1) + Fraction(1, 1000)

# libxmp reports times as int milliseconds and saturates at INT_MAX (scan.c:256, 684; player.c:2298): the model's exact
# rationals are saturated the same way before they are compared with reported values (test-dev/data/longest.med lasts 108 days)
INT_MAX = 2147483647

def main():
    tier = sys.argv[1] if len(sys.argv) > 1 else "quick"
    replay = sys.argv[sys.argv.index("--replay") + 1] if "--replay" in sys.argv else None
    ck = V.Check("C18", tier)
    rng = ck.rng
    ck.proof_leg(["Extract/Extract_linear.vo"])
    drv = V.build_driver("c18_drv", ["c18_drv.c"])
    model = V.ocaml_build("linear")
    env = V.san_env()
    tmpd = tempfile.mkdtemp(prefix="vp-c18-", dir="/var/tmp")
    try:
        songs = []
        if replay:
            rp = json.load(open(replay)); songs = [(rp["format"], rp["song"])]

        else:
            n = 240 if tier == "quick" else 20000
            for i in range(n):
                fmt = ("mod", "xm", "s3m", "it")[i % 4]
                s = modgen.random_flow_song(rng, fmt, vocab=('speed', 'tempo', 'delay', 'jump'), max_orders=rng.choice((3, 8, 20)), max_pats=rng.choice((2, 5, 9)),
                                            density=rng.choice((0.05, 0.2, 0.5)))
                if fmt == "mod":
                    s['restart'] = rng.choice((0x7f, 0x7f, 0, rng.randrange(0, len(s['orders']))))
                if fmt == "mod" and i % 40 == 4:
                    # a long Protracker module with a high Fxx early on: the loader asks the scan to compare CIA and VBlank timing (both
                    # scans run, the shorter wins and the other's per-order data is thrown away or restored); 12 orders, more than 8 minutes
                    s = modgen.random_flow_song(rng, "mod", vocab=('delay',), max_orders=12, max_pats=4, density=0.02)
                    while len(s['orders']) < 12: s['orders'].append(rng.randrange(len(s['patterns'])))
                    hi = rng.choice((0x20, 0x24, 0x28)) if rng.random() < 0.5 else rng.choice((0x48, 0x50, 0x60))      # VBlank wins / CIA wins
                    p0 = s['patterns'][s['orders'][0]]
                    p0[0][0] = dict(p0[0][0] or {}, fx=('speed', 31)); p0[1][0] = dict(p0[1][0] or {}, fx=('tempo', hi))
                    pm = s['patterns'][s['orders'][7]]
                    if pm is not p0: pm[5][1] = dict(pm[5][1] or {}, fx=('tempo', hi + 8))
                    s['restart'] = 0x7f; s['speed'] = 6; s['bpm'] = 125
                if fmt in ("mod", "xm") and i % 20 in (1, 2):
                    # a second sequence that contains the restart position: order 0 jumps to itself (sequence 0 is order 0 alone), orders
                    # 1.. run off the end of the list and continue at the restart order, which lies inside them and is not their entry point
                    s = modgen.random_flow_song(rng, fmt, vocab=('speed', 'delay'), max_orders=2, max_pats=4, density=0.05)
                    while len(s['patterns']) < 4: s['patterns'].append(modgen.empty_pattern(64 if fmt == "mod" else rng.choice((8, 16, 64)), s['chn']))
                    s['orders'] = [0] + [rng.randrange(1, 4) for _ in range(rng.choice((2, 3, 5)))]
                    p0 = s['patterns'][0]; p0[min(len(p0) - 1, rng.choice((0, 3, 9)))][0] = dict(fx=('jump', 0))
                    s['restart'] = rng.randrange(2, len(s['orders']))
                songs.append((fmt, s))
        paths = []
        for i, (fmt, s) in enumerate(songs):
            p = os.path.join(tmpd, "s%05d.%s" % (i, fmt))
            if fmt == "corpus":
                paths.append(os.path.join(V.REPO, s["path"])); continue
            open(p, "wb").write(modgen.WRITERS[fmt](s)); paths.append(p)
        if not replay:
            # the repository's own modules: those whose loaded events stay inside the vocabulary are compared too
            corpus = V.corpus_files(limit=None if tier == "thorough" else 400, rng=rng)
            for cp in corpus:
                songs.append(("corpus", {"path": os.path.relpath(cp, V.REPO)})); paths.append(cp)
        # generated modules are inside the vocabulary by construction: they are played even if the loader's translation of
        # their effects leaves it, and the property's own clauses (no model needed) are then evaluated on them
        r = V.run([drv, "60000"], inp="\n".join(("" if songs[i][0] == "corpus" else "+") + p for i, p in enumerate(paths)) + "\n", env=env, timeout=3000)
        if r.returncode != 0:
            k = r.stdout.count("ENDPLAY")
            ck.violation({"engine": "linear", "format": songs[min(k, len(songs) - 1)][0], "song": songs[min(k, len(songs) - 1)][1], "broken": "sanitizer report / crash in scan or playback", "stderr": r.stderr[-2000:]}, key="c18-crash")
        blocks = r.stdout.split("ENDPLAY\n")
        nd = 0; skipped = {}; fxhist = {}; ncorpus = 0
        minp = []; meta = []; direct = []
        for i, (fmt, s) in enumerate(songs):
            if i >= len(blocks):
                break
            lines = blocks[i].strip().split("\n")
            if not lines or not lines[0].startswith("HDR"):
                skipped["loadfail"] = skipped.get("loadfail", 0) + 1; continue
            h = lines[0].split("|")
            hw = h[0].split()
            ln, npat, spd, bpm, rst = (int(x) for x in hw[1:6])
            tf = Fraction(float.fromhex(hw[6])) * Fraction(float.fromhex(hw[7]))
            xxo = [int(x) for x in h[1].split()]; rows = [int(x) for x in h[2].split()]
            # the order list as the vocabulary sees it: up to an end marker; any other non-pattern entry is outside the vocabulary
            if 255 in xxo:
                xxo = xxo[:xxo.index(255)]
            if not xxo or any(o >= npat for o in xxo):
                skipped["non-pattern order"] = skipped.get("non-pattern order", 0) + 1; continue
            if rst >= len(xxo):
                rst = 0
            pr = [l.split(":", 1)[1].split() for l in lines if l.startswith("PR ")]
            if any("X" in rws for rws in pr):
                skipped["outside vocabulary"] = skipped.get("outside vocabulary", 0) + 1
                if fmt != "corpus":
                    direct.append((i, lines, tf))
                continue
            for rws in pr:
                for e in rws:
                    fxhist[e[0]] = fxhist.get(e[0], 0) + 1
            minp.append("M %d %d %d %d %d | %s | %s" % (spd, bpm, rst, tf.numerator, tf.denominator, " ".join(str(o) for o in xxo), " ; ".join(" ".join(rws) for rws in pr)))
            meta.append((i, lines, tf))
        mo = V.run([model], inp="\n".join(minp) + "\n", timeout=3000).stdout.split("\n")
        for k, (i, lines, tf) in enumerate(meta):
            fmt, s = songs[i]
            res = mo[k] if k < len(mo) else "?"
            ck.count()
            if not res.startswith("OK"):
                skipped[res] = skipped.get(res, 0) + 1; continue
            parts = res.split(" | ")
            dq = Fraction(parts[0].split()[1]); endo = int(parts[0].split()[2])
            otimes = {int(x.split(":")[0]): Fraction(x.split(":")[1]) for x in parts[1].split()}
            pq = Fraction(parts[2]) if len(parts) > 2 and parts[2] != "NOPLAY" else None
            seq0 = next((l.split() for l in lines if l.startswith("SEQ 0 ")), None)
            ords = {int(l.split()[1]): int(l.split()[2]) for l in lines if l.startswith("ORD ")}
            frames = [tuple(int(x) for x in l.split()[1:]) for l in lines if l.startswith("FR ")]
            # implementation: rendered time until the loop counter increments, and at the first frame of each order
            t = Fraction(0); first = {}; looped = False; entered = set(); reentry = None; prev = None; oseq = []
            for (pos, row, frame, speed, bpmf, loop, rdel) in frames:
                # a repeat pass of an IT row delay replays the row from tick 0 without re-entering it
                repeat = frame == 0 and prev is not None and prev[:2] == (pos, row) and prev[2] > rdel >= 0
                prev = (pos, row, rdel)
                # last clause of the property: the loop counter increments exactly when a row already played is re-entered
                if frame == 0 and not repeat:
                    again = (pos, row) in entered
                    if again != (loop > 0) and reentry is None:
                        reentry = "loop counter %d on entering order %d row %d, which was %s before" % (loop, pos, row, "played" if again else "not played")
                    entered.add((pos, row))
                    if row == 0 and loop == 0: oseq.append(pos)
                elif loop > 0 and reentry is None:
                    reentry = "loop counter incremented in the middle of order %d row %d" % (pos, row)
                if loop > 0:
                    looped = True; break
                if pos not in first:
                    first[pos] = t
                t += tf / bpmf
            tickmax = tf / 20
            bad = None
            if seq0 is None: bad = "no sequence 0"
            elif reentry: bad = "re-entry: " + reentry
            elif looped and len(parts) > 4 and [int(x) for x in parts[4].split()] != oseq: bad = "orders entered before the loop counter incremented %s vs model %s" % (oseq, parts[4])
            elif looped and endo != frames[len([1 for fr in frames if fr[5] == 0])][0]: bad = "loop counter incremented on entering order %d, model %d" % (frames[len([1 for fr in frames if fr[5] == 0])][0], endo)
            elif abs(int(seq0[3]) - min(dq, INT_MAX)) > SLACK: bad = "scan duration %s vs model %s" % (seq0[3], float(dq))
            elif looped and t != pq: bad = "rendered time until loop %s vs model %s" % (float(t), float(pq) if pq is not None else None)
            elif looped and dq <= INT_MAX and abs(int(seq0[3]) - t) > tickmax: bad = "reported duration %s vs rendered %s (more than one tick apart)" % (seq0[3], float(t))
            else:
                for o, tm in otimes.items():
                    if o in ords and abs(ords[o] - min(tm, INT_MAX)) > SLACK: bad = "order %d start time %d vs model %s" % (o, ords[o], float(tm)); break
                    if looped and o in first and first[o] != tm: bad = "order %d first entered at %s vs model %s" % (o, float(first[o]), float(tm)); break
            if not looped and len(frames) < 60000 and bad is None:
                bad = "playback ended without the loop counter incrementing"
            if bad:
                nd += 1
                ck.violation({"engine": "linear", "format": fmt, "song": s, "what": bad, "model": res[:400], "impl_seq0": seq0, "impl_order_times": ords,
                              "broken": "correspondence scan/player (Model/Linear.v) vs scan.c / player.c on a linear-flow module; the property's own oracle: reported vs rendered time"},
                             key="c18:%s:%s" % (fmt, bad.split()[0]))
            else:
                ck.nontrivial((fmt, json.dumps(s, sort_keys=True)))
                if fmt == "corpus": ncorpus += 1
                if len(ck.cov["samples"]) < 2:
                    ck.sample({"format": fmt, "orders": s.get('orders'), "model": res[:200], "impl_seq0": seq0})
        # ---- every further sequence: reported duration vs the time rendered from its entry point until the loop counter increments
        nseqs = 0
        for i, (fmt, s) in enumerate(songs):
            if i >= len(blocks): break
            lines = blocks[i].strip().split("\n")
            if not lines or not lines[0].startswith("HDR"): continue
            hw = lines[0].split("|")[0].split(); tf = Fraction(float.fromhex(hw[6])) * Fraction(float.fromhex(hw[7]))
            seqs = {int(l.split()[1]): (int(l.split()[2]), int(l.split()[3])) for l in lines if l.startswith("SEQ ")}
            for l in lines:
                if not l.startswith("SQ "): continue
                w = l.split("|")[0].split(); k = int(w[1]); looped = w[3] == "1"; firstpos = int(w[4])
                hist = [tuple(int(x) for x in t.split(":")) for t in l.split("|")[1].split()]
                t = sum((tf / b * n for b, n in hist), Fraction(0)); tick = tf / 20
                ck.count(); nseqs += 1; bad = None
                if firstpos != seqs[k][0]: bad = "sequence %d: xmp_set_position(%d) played order %d first" % (k, seqs[k][0], firstpos)
                elif not looped and sum(n for _, n in hist) < 59000: bad = "sequence %d: playback from its entry point ended without the loop counter incrementing" % k
                elif not looped and seqs[k][1] < INT_MAX and t > seqs[k][1] + 2 * tick + 2:
                    bad = "sequence %d (entry point %d): reported duration %d ms, but the loop counter had not incremented after %s ms of playback from its entry point" % (k, seqs[k][0], seqs[k][1], float(t))
                elif looped and seqs[k][1] < INT_MAX and abs(seqs[k][1] - t) > tick + 1: bad = "sequence %d (entry point %d): reported duration %d ms, %s ms rendered until the loop counter incremented" % (k, seqs[k][0], seqs[k][1], float(t))
                if not bad and len(w) >= 7 and hist:
                    # the audio actually delivered (sample frames / sampling rate) against the time the tempos of the frames add up to: each
                    # tick loses at most one sample frame to the whole-frame rounding of its size
                    srate, delivered = int(w[5]), int(w[6]); nticks = sum(n for _, n in hist)
                    t_audio = Fraction(delivered * 1000, srate)
                    if not (t - Fraction(nticks * 1000, srate) - 1 <= t_audio <= t + 1):
                        bad = "sequence %d played at %d Hz on a context used at 8000 Hz before: %s ms of audio delivered over frames whose tempos add up to %s ms" % (k, srate, float(t_audio), float(t))
                if bad:
                    nd += 1
                    ck.violation({"engine": "linear", "format": fmt, "song": s, "what": bad, "sequence": k,
                                  "broken": "C18 on the implementation: duration reported for a sequence vs audio rendered from its entry point until the loop counter first increments"}, key="c18:%s:seq" % fmt)
        for (i, lines, tf) in direct:
            fmt, s = songs[i]
            ck.count()
            seq0 = next((l.split() for l in lines if l.startswith("SEQ 0 ")), None)
            ords = {int(l.split()[1]): int(l.split()[2]) for l in lines if l.startswith("ORD ")}
            frames = [tuple(int(x) for x in l.split()[1:]) for l in lines if l.startswith("FR ")]
            t = Fraction(0); first = {}; looped = False
            for (pos, row, frame, speed, bpmf, loop, rdel) in frames:
                if loop > 0: looped = True; break
                first.setdefault(pos, t); t += tf / bpmf
            tick = tf / 20
            bad = None
            if seq0 and looped and abs(int(seq0[3]) - t) > tick + 1: bad = "reported duration %s vs rendered %s (more than one tick apart)" % (seq0[3], float(t))
            for o, tm in first.items():
                if bad is None and o in ords and ords[o] >= 0 and abs(ords[o] - tm) > tick + 1: bad = "order %d start time %d vs rendered %s" % (o, ords[o], float(tm))
            if bad:
                nd += 1
                ck.violation({"engine": "linear", "format": fmt, "song": s, "what": bad,
                              "broken": "C18 on a generated module whose loaded events the scan/player no longer keep inside the vocabulary: reported vs rendered time"},
                             key="c18:%s:direct" % fmt)
        ck.engine_stat("linear", songs=len(songs), further_sequences_played=nseqs, compared=len(meta), skipped=skipped, effect_hist=fxhist, disagreements=nd, corpus_modules_inside_vocabulary_compared=ncorpus)
    finally:
        shutil.rmtree(tmpd, ignore_errors=True)
    ck.cov["rule"] = ("generated MOD/XM/S3M/IT modules over the vocabulary (set speed 1..31, set tempo 32..255, pattern delay 0..15, position jump anywhere incl. beyond the list; "
                      "<= 1 flow effect per row; 1..20 orders, 1..9 patterns of 1..100 rows; restart positions); per module: scan duration and per-order start times (private xxo_info) vs the extracted scan model, "
                      "exact rendered time (sum of tick durations from the per-frame tempo) until the loop counter increments vs the extracted player model and vs the reported duration (one tick)")
    ck.assumptions += ["double rounding and the final (int) truncation are outside the model (1.001 ms slack on reported integers; rendered time compared exactly as a rational)",
                       "sequences other than the main one, pattern break/loop and other flow effects are outside this model (C16/C17 monitors cover them)"]
    ck.finish()

V.main_wrap(main)
