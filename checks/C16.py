# C16 — every frame reports a consistent, in-range player state.
import os, sys, json, tempfile, shutil
from fractions import Fraction
import vcommon as V
sys.path.insert(0, os.path.join(V.VERIF, "gen"))
import modgen

def gen_vops(rng, maxvoc, vchans, ntracks, nsmp, virtual, n):
    # Mostly inside the hypothesis of voices_inv_preserved (op_okb, decided by the extracted model, not here); a small share of
    # ops is deliberately outside it (setpatch on a background channel, new-note action without virtual channels, resetvoice
    # of a voice that is not in use): the model flags them ok=0 and the sequence is cut there, because the theorem - and the
    # library's own callers - exclude them and the real code may write outside its tables.
    ops = []
    for _ in range(n):
        r = rng.random()
        chn = rng.randrange(0, ntracks) if rng.random() < 0.85 else rng.choice([-1, vchans, vchans + 3, 100000, -2147483648, 2147483647])
        if rng.random() < 0.01 and vchans > ntracks:
            chn = rng.randrange(ntracks, vchans)
        anychn = rng.randrange(0, max(1, vchans)) if rng.random() < 0.8 else rng.choice([-1, vchans, 100000])
        if r < 0.5:
            ins = rng.choice([-1, 0, 0, 1, 2])
            smp = rng.choice([-1] + list(range(nsmp))) if nsmp else -1
            key = rng.choice([60, 61])
            if virtual or rng.random() < 0.01:
                nna, dct, dca = rng.choice([0, 1, 1, 2, 3]), rng.choice([0, 0, 1, 2, 3]), rng.choice([0, 1, 2, 3])
            else:
                nna, dct, dca = 0, rng.choice([0, 0, 1, 2, 3]), rng.choice([0, 1, 2, 3])
            ops.append(("P", chn, ins, smp, key, nna, dct, dca))
        elif r < 0.62:
            ops.append(("L", anychn, rng.choice([0, 0, 16, 64])))
        elif r < 0.72:
            ops.append(("C", anychn))
        elif r < 0.8:
            q = rng.random()
            ops.append(("V", rng.choice([-1, maxvoc, maxvoc + 7])) if q < 0.3 else ("V", rng.randrange(0, max(1, maxvoc))) if q < 0.33 else ("VU", rng.randrange(0, 64)))
        elif r < 0.86:
            ops.append(("Q", chn, rng.choice([-1, 0, 1]), rng.choice([-1] + list(range(nsmp))) if nsmp else -1))
        elif r < 0.93 and virtual:
            ops.append(("T", rng.randrange(0, ntracks), rng.choice([0, 0, 2, 3])))
        elif r < 0.97 and (virtual or rng.random() < 0.05):
            ops.append(("N", anychn, rng.choice([0, 1, 2, 3])))
        else:
            ops.append(("R",))
    return ops

def main():
    tier = sys.argv[1] if len(sys.argv) > 1 else "quick"
    replay = sys.argv[sys.argv.index("--replay") + 1] if "--replay" in sys.argv else None
    ck = V.Check("C16", tier)
    rng = ck.rng
    ck.proof_leg(["Extract/Extract_voices.vo", "Extract/Extract_frameinfo.vo", "Extract/Extract_flow.vo"])
    vdrv = V.build_driver("c16v_drv", ["c16v_drv.c"])
    pdrv = V.build_driver("c16_drv", ["c16_drv.c"])
    vmodel = V.ocaml_build("voices")
    fmodel = V.ocaml_build("frameinfo")
    env = V.san_env()
    data = os.path.join(V.REPO, "test-dev")

    # ---- (c) voice-table differential: libxmp_virt_* driven directly
    vmods = [("openmpt/it/NoteOffInstr.it", 6), ("openmpt/it/NoteOffInstr.it", 2), ("data/m/4th_Symmetriad.it", 4), ("openmpt/it/CarryNNA.it", 3),
             ("data/ode2ptk.mod", 4), ("data/ode2ptk.mod", 2), ("data/m/panic.s3m", 8)]
    vmods = [(m, n) for m, n in vmods if os.path.exists(os.path.join(data, m))]
    nseq = 12 if tier == "quick" else 200
    nd = 0
    nouthyp = 0
    ophist = {}
    outhist = {}
    if replay and json.load(open(replay)).get("engine") == "voices":
        rp = json.load(open(replay))
        plan = [(rp["module"], rp["numvoc"], rp["muted"], [tuple(o) for o in rp["ops"]])]
    elif replay:
        plan = []
    else:
        plan = None
    for (m, numvoc) in (vmods if plan is None else [(p[0], p[1]) for p in plan]):
        path = os.path.join(data, m)
        for k in range(nseq if plan is None else 1):
            muted = "-" if rng.random() < 0.6 else ",".join(str(x) for x in sorted(set(rng.randrange(0, 4) for _ in range(2))))
            if plan is not None:
                muted = plan[0][2]
            hdr = V.run([vdrv, path, str(numvoc), muted], inp="", env=env).stdout.split("\n")
            if not hdr or not hdr[0].startswith("I "):
                continue
            _, maxvoc, vchans, ntracks, nsmp, virtual = hdr[0].split()
            maxvoc, vchans, ntracks, nsmp, virtual = int(maxvoc), int(vchans), int(ntracks), int(nsmp), int(virtual)
            ops = plan[0][3] if plan is not None else gen_vops(rng, maxvoc, vchans, ntracks, min(nsmp, 3), virtual, 80)
            opl = "".join(" ".join(str(x) for x in o) + "\n" for o in ops)
            mo_raw = V.run([vmodel], inp="I %d %d %d %s\n" % (maxvoc, vchans, ntracks, " ".join(muted.split(",")) if muted != "-" else "") + opl).stdout.strip().split("\n")
            # "VU k" = reset the k-th voice in use: the model resolves it to a concrete voice index ("@V i")
            mo, res_ops, oi = [mo_raw[0]], [], 0
            it = iter(mo_raw[1:])
            for l in it:
                if l.startswith("@V"):
                    w = l.split()[1]
                    res_ops.append(("V", int(w)) if w != "none" else ("V", -1))
                    mo.append(next(it, "")); oi += 1
                else:
                    res_ops.append(ops[oi]); mo.append(l); oi += 1
            ops = res_ops
            opl = "".join(" ".join(str(x) for x in o) + "\n" for o in ops)
            # premises of voices_inv_preserved, as the extracted model evaluates them: the sequence is used up to the first op that
            # does not meet op_okb (not an alarm: outside the theorem and outside what the callers do).  Inside the premises the
            # model must neither leave the tables (OOB) nor break invb/modeb - that would contradict the theorem.
            def flags(l):
                if l.startswith("OOB"):
                    return (0, 0, int(l.split()[1]))
                f = l.rsplit("|", 1)[1].split()
                return (int(f[0]), int(f[1]), int(f[2]))
            out_hyp = next((i for i, l in enumerate(mo[1:]) if flags(l)[2] == 0), None)
            if out_hyp is not None:
                nouthyp += 1
                outhist[ops[out_hyp][0]] = outhist.get(ops[out_hyp][0], 0) + 1
                ops = ops[:out_hyp]; mo = mo[:out_hyp + 1]
            cut = next((i for i, l in enumerate(mo[1:]) if flags(l)[0] == 0 or flags(l)[1] == 0), None)
            if cut is not None:
                ck.violation({"engine": "voices", "module": m, "numvoc": numvoc, "muted": muted, "ops": ops[:cut + 1], "model": mo[cut + 1],
                              "broken": "theorem-side: voices_inv_preserved is contradicted by its own extracted model (invariant, mode clause or an index bound fails on an op sequence that meets op_okb)"},
                             key="voices-model:%s" % (ops[cut][0],))
                ops = ops[:cut]
                mo = mo[:cut + 1]
            opl = "".join(" ".join(str(x) for x in o) + "\n" for o in ops)
            rc = V.run([vdrv, path, str(numvoc), muted], inp=opl, env=env)
            co = rc.stdout.strip().split("\n")[1:]
            ck.count(len(ops))
            for o in ops:
                ophist[o[0]] = ophist.get(o[0], 0) + 1
            mo_c = [" ".join(l.rsplit("|", 1)[0].split()) for l in mo]
            co_c = [" ".join(l.split()) for l in co]
            if rc.returncode != 0 or co_c != mo_c:
                nd += 1
                j = next((i for i in range(min(len(co_c), len(mo_c))) if co_c[i] != mo_c[i]), min(len(co_c), len(mo_c)))
                ck.violation({"engine": "voices", "module": m, "numvoc": numvoc, "muted": muted, "ops": ops[:j], "first_differing_op_index": j - 1,
                              "expected_model": mo_c[j] if j < len(mo_c) else None, "got_impl": co_c[j] if j < len(co_c) else None,
                              "stderr": rc.stderr[-1500:] if rc.returncode else "",
                              "broken": "correspondence voices (Model/Voices.v vs virtual.c): ret used | voices | map | count"},
                             key="voices:%s:%d:%s" % (m, numvoc, ops[j - 1] if 0 < j <= len(ops) else ""))
            else:
                ck.nontrivial(("voices", m, numvoc, muted, tuple(ops)))
                if len(ck.cov["samples"]) < 2:
                    ck.sample({"engine": "voices", "module": m, "tables(maxvoc,vchans,ntracks)": [maxvoc, vchans, ntracks], "ops": ops[:6], "after_last_op": co_c[-1][:200]})
    ck.engine_stat("voices", sequences=len(vmods) * nseq, op_hist=ophist, disagreements=nd, sequences_cut_at_an_op_outside_op_okb=nouthyp, ops_outside_op_okb=outhist)

    # ---- (b) the property predicate and the voice invariant on every frame of real playback under random control histories
    if not replay or json.load(open(replay)).get("engine") == "frames":
        mods = ["data/ode2ptk.mod", "data/longest.med", "data/storlek_11.it", "data/pattern_loop_it.it", "data/m/panic.s3m", "data/m/xyce-dans_la_rue.xm",
                "openmpt/it/NoteOffInstr.it", "openmpt/it/CarryNNA.it", "data/m/4th_Symmetriad.it", "data/m/IMS.beast-busters1.st", "data/scan_240_seq.it",
                "data/m/di.nightmare", "data/test.xm", "data/m/reborning.med"]
        mods = [m for m in mods if os.path.exists(os.path.join(data, m))]
        extra = sorted(x for x in os.listdir(os.path.join(data, "data", "m")) if not x.endswith((".gz", ".bz2", ".xz", ".zip", ".lha", ".Z", ".set", ".nt", ".as")) and not x.startswith("smp."))
        rng.shuffle(extra)
        mods += ["data/m/" + x for x in extra[: (6 if tier == "quick" else 120)]]
        gendir = tempfile.mkdtemp(prefix="vp-c16-", dir="/var/tmp")
        genmods = []
        genmeta = {}
        if not replay:
            for gi in range(16 if tier == "quick" else 300):
                fmt = ("mod", "xm", "s3m", "it")[gi % 4]
                song = modgen.random_flow_song(rng, fmt, vocab=('speed', 'tempo', 'delay', 'jump', 'break', 'loop', 'notedelay'), hostile=True, density=0.25)
                if fmt == "it" and rng.random() < 0.7:
                    # Impulse Tracker tempo slides T0x / T1x: the tempo changes on every tick of the row
                    for pat in song['patterns']:
                        for row in pat:
                            if rng.random() < 0.2:
                                row[0] = dict(row[0] or {}, fx=('raw', (20, rng.choice((0x01, 0x05, 0x0f, 0x11, 0x15, 0x1f, 0x00)))))
                gp = os.path.join(gendir, "g%03d.%s" % (gi, fmt))
                open(gp, "wb").write(modgen.WRITERS[fmt](song))
                genmods.append(gp)
                genmeta[gp] = (list(song['orders']), [len(pt) for pt in song['patterns']])
            # pattern-loop state carried from a long pattern into a shorter one: the loop start row set by E60 / SB0 in a 64-row pattern is
            # still there when a later, shorter pattern loops without setting its own (MOD / XM / IT keep loop starts across patterns); and
            # an S3M / IT loop that ends on the last row of a pattern leaves its start one row past the end
            for gi, fmt in enumerate(("xm", "it", "xm", "it", "s3m", "it")):
                chn = 2
                long_rows = 64; short_rows = 64 if fmt == "s3m" else rng.choice((8, 16, 32))
                p0 = modgen.empty_pattern(long_rows, chn); p1 = modgen.empty_pattern(short_rows, chn)
                r0 = rng.randrange(min(short_rows, 40), 60)
                p0[0][1] = dict(note=25, ins=1)
                p0[r0][0] = dict(fx=('loop', 0)); p0[min(63, r0 + rng.choice((1, 3)))][0] = dict(fx=('loop', 1))
                p1[rng.randrange(1, short_rows)][0] = dict(fx=('loop', rng.choice((1, 2))))
                if gi >= 4:   # a loop that ends on the last row of the pattern
                    p1 = modgen.empty_pattern(short_rows, chn); p1[short_rows - 3][0] = dict(fx=('loop', 0)); p1[short_rows - 1][0] = dict(fx=('loop', 1))
                song = dict(chn=chn, orders=[0, 1, 1, 0], patterns=[p0, p1], speed=2, bpm=125, restart=0, name="loopcarry")
                gp = os.path.join(gendir, "lc%02d.%s" % (gi, fmt))
                open(gp, "wb").write(modgen.WRITERS[fmt](song))
                genmods.append(gp); genmeta[gp] = ([0, 1, 1, 0], [long_rows, short_rows])
        mods = mods + genmods
        if replay:
            rp = json.load(open(replay)); mods = [rp["module"]]
            if rp.get("module_hex"):
                os.makedirs(os.path.dirname(rp["module"]), exist_ok=True); open(rp["module"], "wb").write(bytes.fromhex(rp["module_hex"]))
        nbad = 0
        frames_total = 0
        opst = {}
        seqsteps = {}
        smodel = V.ocaml_build("flow")
        for m in mods:
            path = m if os.path.isabs(m) else os.path.join(data, m)
            for rep in range(3 if tier == "quick" else 6):
                rate = rng.choice((4000, 8000, 22050, 44100, 48000, 49170))
                fmt = rng.randrange(0, 8)
                numvoc = rng.choice((0, 0, 2, 8, 64))
                mode = rng.choice((-1, -1, -1) + ((0, 1, 2, 3, 4, 5, 6, 7, 8, 9, 10) if m.endswith((".it", ".xm", ".s3m", ".mod")) else ()))
                if m == "data/longest.med" and rep == 0 and not replay:
                    rate, fmt, mode = 48000, 0, -1      # 16-bit stereo at a rate where the tick cap applies
                if replay:
                    rate, fmt, numvoc, mode, script = rp["rate"], rp["format"], rp["numvoc"], rp["mode"], [tuple(x) for x in rp["script"]]
                else:
                    script = []
                    if rep == 2:
                        # uninterrupted playback well past the first loop: the loop counter must never decrease
                        script = [("P", 2500 if tier == "quick" else 12000)]
                    if rep == 0 and m in genmeta:
                        # motif for patterns of different lengths: from inside a long pattern ask for an order holding a shorter one and, before
                        # the next frame, for rows around the end of the *target* pattern (the rows between the two lengths must be refused)
                        go, gr = genmeta[m]
                        longs = [j for j, pt in enumerate(go) if gr[pt] == max(gr[q] for q in go)]
                        shorts = [k for k, pt in enumerate(go) if gr[pt] < gr[go[longs[0]]]] if longs else []
                        for k in shorts[:4]:
                            for rr in sorted({gr[go[k]] - 1, gr[go[k]], gr[go[k]] + 1, gr[go[longs[0]]] - 1}):
                                script += [("SP", longs[0]), ("P", 1), ("SP", k), ("SR", rr), ("P", 2)]
                    for _ in range(0 if rep == 2 else (14 if tier == "quick" else 40)):
                        # sometimes several control calls in a row with no frame played in between
                        script.append(("P", rng.choice((0, 0, 1, 2, 7, 30, 60))))
                        r = rng.random()
                        if rng.random() < 0.25:
                            # motif: reposition and pick a row at once, then look at the very next frames
                            script.append(("SP", rng.randrange(0, 10))); script.append(("SR", rng.choice((0, 1, 2, 5, 7, 8, 15, 31, 63)))); script.append(("P", 3)); continue
                        if r < 0.2: script.append(("SP", rng.choice((0, 1, 2, 3, 5, 255, 256, -1, -2, -2147483648, 2147483647, rng.randrange(0, 40)))))
                        elif r < 0.35: script.append(("SR", rng.choice((0, 1, 31, 63, 64, 255, -1, -64, -2147483648, 2147483647, rng.randrange(0, 70)))))
                        elif r < 0.45: script.append(("NX",))
                        elif r < 0.55: script.append(("PV",))
                        elif r < 0.7: script.append(("SK", rng.choice((0, 1, 1000, 5000, 60000, 10 ** 7, -1, -2147483648, 2147483647, rng.randrange(0, 200000)))))
                        elif r < 0.75: script.append(("RS",))
                        elif r < 0.78: script.append(("ST",)); script.append(("P", 2)); script.append(("RS",))
                        elif r < 0.88: script.append(("TF", rng.choice((100, 50, 200, 150, 25, 400, 300, 75, 125, 800)))); script.append(("P", rng.choice((1, 3, 12))))     # factors whose time factor is exact in binary: the model's tick size is the floor of an exact rational, the C computes in doubles
                        elif r < 0.93 and numvoc <= 0 and mode == -1: script.append(("RE", rng.choice((4000, 8000, 11025, 22050, 44100, 48000, 49170)))); script.append(("P", rng.choice((1, 5, 20))))
                    script.append(("P", 20))
                r = V.run([pdrv, path, str(rate), str(fmt), str(numvoc), str(mode), "1", "1"], inp="".join(" ".join(str(x) for x in s) + "\n" for s in script), env=env, timeout=600)
                out = r.stdout.split("\n")
                if not out or not out[0].startswith("M "):
                    continue
                if r.returncode != 0:
                    cr = {"engine": "frames", "module": m, "rate": rate, "format": fmt, "numvoc": numvoc, "mode": mode, "script": script,
                          "broken": "sanitizer / crash during playback", "stderr": r.stderr[-2500:]}
                    if os.path.isabs(m) and os.path.exists(m) and os.path.getsize(m) < 200000:
                        cr["module_hex"] = open(m, "rb").read().hex()
                    ck.violation(cr, key="frames-crash:%s" % os.path.basename(m))
                    continue
                vw = out[2].split()     # "V maxvoc vchans ntracks"
                # hypothesis of the voice invariant: virtual channels enabled, or no new-note actions (the library's own
                # mode choice guarantees the latter; a forced player mode on a table without background channels does not)
                inv_applies = (int(vw[2]) > int(vw[3])) or mode == -1
                if not inv_applies:
                    ck.cov["engines"].setdefault("frames", {})["runs_without_invariant_hypothesis"] = ck.cov["engines"].setdefault("frames", {}).get("runs_without_invariant_hypothesis", 0) + 1
                cw = out[1].split()
                fr = Fraction(float.fromhex(cw[4])) * Fraction(float.fromhex(cw[5]))
                finp = [out[0], "C %s %s %s %d %d" % (cw[1], cw[2], cw[3], fr.numerator, fr.denominator)]
                vinp = []
                fl = []
                segs = [[]]
                sq_stack = []; sq_pairs = []      # hook H7: (which, entry, rin, state before, state after) of every next_order / next_row
                for l in out[3:]:
                    if l.startswith("SQ "):
                        a, b, c_ = l.split("|"); wq = a.split(); 
                        if wq[2] == "0": sq_stack.append((wq[1], c_.split(), b.split()))
                        elif sq_stack:
                            w0, er, pre = sq_stack.pop()
                            if w0 == wq[1]: sq_pairs.append((w0, er, pre, b.split()))
                        continue
                    if l.startswith("F "):
                        w = l.split()
                        finp.append(" ".join(w[:15])); fl.append(w)
                        segs[-1].append(int(w[11]))
                    elif l.startswith("D "):
                        vinp.append(l)
                    elif l.startswith("C "):
                        # xmp_set_tempo_factor while playing: the frames that follow are judged with the new time factor
                        cw2 = l.split(); fr2 = Fraction(float.fromhex(cw2[4])) * Fraction(float.fromhex(cw2[5]))
                        finp.append("C %s %s %s %d %d" % (cw2[1], cw2[2], cw2[3], fr2.numerator, fr2.denominator))
                    elif l.startswith("OP "):
                        opst[l.split()[1]] = opst.get(l.split()[1], 0) + 1
                        if l.split()[1] in ("SP", "SR", "NX", "PV", "SK", "RS", "ST", "MODE", "RE"):
                            segs.append([])
                if sq_pairs and len(out) > 3 and out[3].startswith("MF "):
                    mh = out[0].split("|"); mf = out[3].split()
                    sinp = ["M %s %s %s %s |%s|%s" % (mh[0].split()[1], mf[1], mf[2], mf[3], mh[1], mh[2])]
                    sinp += ["S %s %s %s | %s" % (w0, er[0], er[1], " ".join(pre)) for (w0, er, pre, post) in sq_pairs]
                    so = V.run([smodel], inp="\n".join(sinp) + "\n").stdout.split("\n")
                    for k, (w0, er, pre, post) in enumerate(sq_pairs):
                        res = so[k + 1] if k + 1 < len(so) else "?"
                        seqsteps[w0] = seqsteps.get(w0, 0) + 1; badq = None
                        pz = [int(x) for x in pre]
                        hyp_ok = None
                        if res.startswith("R "):
                            flags = res.split("|")[0].split()[1:]; want = res.split("|")[1].split()
                            hyp_ok = flags[0] == "1" and flags[1] == "1" and pz[7] >= 0 and pz[5] >= -1 and (pz[0] >= -1 if w0 == "0" else flags[2] == "1")
                            if hyp_ok and flags[3] != "1": raise V.BuildError("Model/Flow.v: the hypotheses of next_%s_pos hold and its own model leaves the position clause: %s" % ("order" if w0 == "0" else "row", res))
                            if want != post: badq = "next_%s left (ord row pos frame pbreak jump delay jumpline loop_dest loop_param num_rows rowdelay rowdelay_set) = %s, the model %s" % ("order" if w0 == "0" else "row", " ".join(post), " ".join(want))
                        elif res.startswith("FAIL"):
                            badq = "the model's order walk does not end from %s (entry %s), the player's did: %s" % (" ".join(pre), er[0], " ".join(post))
                        if hyp_ok is False: seqsteps["outside_hypotheses"] = seqsteps.get("outside_hypotheses", 0) + 1
                        if badq:
                            nbad += 1
                            ck.violation(dict({"engine": "frames", "module": m, "rate": rate, "format": fmt, "numvoc": numvoc, "mode": mode, "script": script}, what=badq, state_before=" ".join(pre),
                                              broken="correspondence: Model/Flow.v (next_order / next_row) vs src/player.c through hook H7"), key="seqstep:%s:%s" % (os.path.basename(m), w0))
                            break
                fo = V.run([fmodel], inp="\n".join(finp) + "\n").stdout.split("\n")
                vo = V.run([vmodel], inp="\n".join(vinp) + "\n").stdout.split("\n") if vinp else []
                frames_total += len(fl)
                ck.count(len(fl))
                case = {"engine": "frames", "module": m, "rate": rate, "format": fmt, "numvoc": numvoc, "mode": mode, "script": script}
                if os.path.isabs(m) and os.path.getsize(m) < 200000:
                    case["module_hex"] = open(m, "rb").read().hex()
                for i, w in enumerate(fl):
                    res = fo[i] if i < len(fo) else "missing"
                    if res.startswith("BAD") or res == "missing":
                        nbad += 1
                        ck.violation(dict(case, frame_index=i, frame_info=" ".join(w[1:15]), predicate=res,
                                          fields="pos pattern row num_rows frame speed bpm frame_time buffer_size total_size loop_count virt_channels virt_used sequence",
                                          broken="monitor frame_info_okb (the property predicate, Model/FrameInfo.v) on the implementation's frame info"),
                                     key="frame-pred:%s:%s" % (m, res))
                        break
                    if res.endswith("BYTES"):
                        ck.violation(dict(case, frame_index=i, frame_info=" ".join(w[1:15]), broken="buffer_size in bytes exceeds XMP_MAX_FRAMESIZE"),
                                     key="buffer-bytes-exceed-XMP_MAX_FRAMESIZE")
                    if inv_applies and i < len(vo) and vo[i] == "0":
                        ck.violation(dict(case, frame_index=i, table=vinp[i][:400], broken="monitor invb (voice-table invariant, Model/Voices.v) on the implementation's tables during playback"),
                                     key="voices-inv:%s:%s" % (m, mode))
                        break
                for sg in segs:
                    if any(sg[j] > sg[j + 1] for j in range(len(sg) - 1)):
                        ck.violation(dict(case, loop_counts=sg[:50], broken="monitor: loop counter decreased between position-control calls"), key="loopcount:%s" % m)
                ck.nontrivial(("frames", m, rate, fmt, numvoc, mode, tuple(script)))
                if replay:
                    break
        shutil.rmtree(gendir, ignore_errors=True)
        ck.engine_stat("frames", modules=len(mods), generated_modules=len(genmods), frames=frames_total, control_ops=opst, predicate_failures=nbad, sequencer_steps_compared=seqsteps)
        ck.sample({"engine": "frames", "module": mods[0], "first_frame_info": finp[2] if len(finp) > 2 else None})
    ck.cov["rule"] = ("voices: generated op sequences (setpatch with NNA/DCT/DCA, setvol incl. muted roots, resetchannel/resetvoice, queuepatch, pastnote, setnna, reset; channels incl. out-of-range) "
                      "on tables of 7 module/voice-count shapes; frames: corpus modules x random (rate, format, voices, player mode) x scripted histories of play / set_position / set_row / next / prev / seek / restart / stop; "
                      "distinct = distinct (module, configuration, script)")
    ck.assumptions += ["how notes choose voice operations (read_event.c) is not modelled; the invariant is checked on the real tables every frame instead",
                       "the sequencer-level proof of the position/row clauses is part of C17/C18"]
    ck.finish()

V.main_wrap(main)
