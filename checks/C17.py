# C17 — position control lands exactly where asked.
import os, sys, json, tempfile, shutil
import vcommon as V
sys.path.insert(0, os.path.join(V.VERIF, "gen"))
import modgen

STATE = ("pos", "ord", "row", "frame", "repos", "seq", "loop", "speed", "num_rows", "end_point", "jumpline", "jump", "pbreak", "delay", "clean")

def gen_song(rng, i):
    fmt = ("mod", "xm", "s3m", "it")[i % 4]
    s = modgen.random_flow_song(rng, fmt, vocab=('speed', 'tempo', 'jump', 'break', 'delay', 'loop'), max_orders=rng.choice((3, 6, 12)),
                                max_pats=rng.choice((2, 4, 6)), density=rng.choice((0.03, 0.1, 0.25)), hostile=rng.random() < 0.3)
    if fmt in ("s3m", "it") and rng.random() < 0.7:
        # skip / end markers anywhere, including the first order and runs of them
        o = list(s['orders'])
        for _ in range(rng.choice((1, 1, 2, 4))):
            o.insert(rng.randrange(0, len(o) + 1), rng.choice((254, 254, 255)))
        if rng.random() < 0.2:
            o.insert(0, 254)
        s['orders'] = o
    return fmt, s

def gen_script(rng, hdr, tier):
    """a history of control calls at arbitrary moments; targets exhaustive over orders plus hostile values"""
    ln, npat = hdr["len"], hdr["npat"]
    toks = []
    def play(): toks.append("P%d" % rng.choice((1, 1, 2, 3, 7, 13, 40)))
    orders = list(range(ln)) + [-1, ln, ln + 1, 255, 256, 1000, -2147483648, 2147483647]
    rng.shuffle(orders)
    times = sorted(set([0, -1, 1, 10 ** 9] + [t + d for t in hdr["time"][:ln] if t >= 0 for d in (-1, 0, 1)]))
    n = 0
    for p in orders[: (len(orders) if tier == "thorough" else 14)]:
        play(); toks.append("SP%d" % p); n += 1
        r = rng.random()
        if r < 0.3: toks.append("SR%d" % rng.choice((0, 1, 5, 31, 63, 64, 99, -1, 255)))        # set_position; set_row at once
        elif r < 0.4: toks.append("SP%d" % rng.choice(orders))                                  # two calls without a frame between
        elif r < 0.5: toks.append(rng.choice(("NX", "PV")))
    for _ in range(10 if tier == "quick" else 40):
        play()
        k = rng.random()
        if k < 0.25: toks.append("SK%d" % rng.choice(times))
        elif k < 0.45: toks.append("SR%d" % rng.choice((0, 1, 2, 7, 31, 32, 63, 64, 100, -1, -5, 1 << 20)))
        elif k < 0.6: toks += ["NX"] * rng.choice((1, 1, 2, 5))
        elif k < 0.75: toks += ["PV"] * rng.choice((1, 1, 2, 5))
        elif k < 0.82: toks.append("RS")
        elif k < 0.87: toks += ["ST", "P2"] + rng.choice((["RS"], ["SP%d" % rng.randrange(ln)], ["SR0"], []))
        else: toks.append("SP%d" % rng.choice(orders))
    # orders entered out of index order (position jumps): the start times are not monotonic along the order list, so the direction in
    # which xmp_seek_time searches matters (seeded change C17-seek-time-upward-walk-with-early-break) - seek to times around every order
    tv = [t for t in hdr["time"][:ln] if t >= 0]
    if any(x > y for x, y in zip(tv, tv[1:])):
        for t in (times if tier == "thorough" or len(times) <= 20 else rng.sample(times, 20)):
            play(); toks.append("SK%d" % t)
    play()
    return " ".join(toks)

def parse_run(lines):
    hdr = {}
    for l in lines:
        w = l.split()
        if not w: continue
        if w[0] == "MOD": hdr.update(len=int(w[1]), npat=int(w[2]), marker=int(w[3]), rst=int(w[4]), nseq=int(w[5]))
        elif w[0] in ("XXO", "ROWS", "ENTRY", "SEQCTL", "SCANORD", "SCANROW", "SCANNUM", "TIME"): hdr[w[0].lower()] = [int(x) for x in w[1:]]
    return hdr

def monitor(hdr, ev):
    """the property's own clauses, evaluated on the implementation's trace (independent of the model).
    ev: list of ('S', st) / ('C', op, arg, ret, st) / ('F', ret, st, info).  Returns list of (key, text)."""
    out = []
    ln, npat, nseq = hdr["len"], hdr["npat"], hdr["nseq"]
    xxo, seqctl, entry, rows, tm = hdr["xxo"], hdr["seqctl"], hdr["entry"], hdr["rows"], hdr["time"]
    def st_of(e): return e[4] if e[0] == 'C' else e[2] if e[0] == 'F' else e[1]
    for i, e in enumerate(ev):
        if e[0] != 'C': continue
        before = st_of(ev[i - 1]); after = e[4]; op, arg, ret = e[1], e[2], e[3]
        nxt = ev[i + 1] if i + 1 < len(ev) and ev[i + 1][0] == 'F' else None
        idle = before["pos"] == before["ord"] and not before["repos"]          # no reposition pending
        cur_on_end_marker = hdr["marker"] and xxo[before["ord"]] == 255
        if op == "SP":
            if arg < 0 or arg >= ln:
                if ret != -7 or after != before: out.append(("sp-invalid", "set_position(%d) outside the order list: ret %d, state %s" % (arg, ret, "changed" if after != before else "kept")))
            elif xxo[arg] < npat and seqctl[arg] < nseq:
                if ret != arg:
                    out.append(("set_position-returns-minus-1-for-first-order" if (arg == 0 and ret == -1) else "sp-ret", "set_position(%d) returned %d" % (arg, ret)))
                if nxt and not cur_on_end_marker and (nxt[1] != 0 or (nxt[3][0], nxt[3][1], nxt[3][2], nxt[3][3]) != (arg, 0, 0, seqctl[arg])):
                    out.append(("sp-land", "set_position(%d) while playing order %d: next frame ret %d at pos %d row %d frame %d sequence %d (wanted %d 0 0 in sequence %d)"
                                % ((arg, before["ord"], nxt[1]) + tuple(nxt[3][:4]) + (arg, seqctl[arg]))))
        elif op == "SR":
            p0 = before["pos"] if 0 <= before["pos"] < ln else 0
            valid = xxo[p0] < npat and 0 <= arg < rows[xxo[p0]]
            if not valid:
                if ret != -7 or after != before: out.append(("sr-invalid", "set_row(%d) outside the pattern: ret %d, state %s" % (arg, ret, "changed" if after != before else "kept")))
            elif idle:
                if ret != arg: out.append(("sr-ret", "set_row(%d) returned %d" % (arg, ret)))
                if nxt and not cur_on_end_marker and before["speed"] * (1 + before["delay"]) > 0 and (nxt[1] != 0 or tuple(nxt[3][:3]) != (before["ord"], arg, 0)):
                    out.append(("sr-land", "set_row(%d) on order %d: next frame ret %d at pos %d row %d frame %d" % ((arg, before["ord"], nxt[1]) + tuple(nxt[3][:3]))))
        elif op == "ST":
            if nxt and nxt[1] != -1: out.append(("stop", "frame after xmp_stop_module returned %d" % nxt[1]))
        elif op == "RS":
            e0 = entry[before["seq"]]
            # the loop count is 0 at the call for every module; the frame after also reports 0 under the hypothesis of restart_lands
            # (the scan's end point of the sequence was counted at least once and lies at or after the entry point): a module whose
            # scan overflowed its row counter (scan.c: "a scan count of 0 will help break this loop in playback", storlek_11.it)
            # counts a loop on the first row of every pass, at a fresh start as well as after a restart
            hyp = hdr["scannum"][before["seq"]] >= 1 and hdr["scanord"][before["seq"]] >= e0
            if after["loop"] != 0:
                out.append(("restart", "xmp_restart_module left loop count %d" % after["loop"]))
            if nxt and not cur_on_end_marker and xxo[e0] < npat and (nxt[1] != 0 or tuple(nxt[3][:3]) != (e0, 0, 0) or (hyp and nxt[3][4] != 0)):
                out.append(("restart", "frame after xmp_restart_module: ret %d pos %d row %d frame %d loop %d (sequence entry %d)" % ((nxt[1],) + tuple(nxt[3][:3]) + (nxt[3][4], e0))))
        elif op in ("NX", "PV") and idle:
            o = before["ord"]; sq = before["seq"]; t = o + (1 if op == "NX" else -1)
            inside = 0 <= t < ln and xxo[t] < npat and seqctl[t] == sq and (op == "NX" or t >= entry[sq])
            if inside:
                if ret != t or (nxt and not cur_on_end_marker and (nxt[1] != 0 or tuple(nxt[3][:4]) != (t, 0, 0, sq))):
                    out.append(("np-step", "%s from order %d: ret %d, next frame %s" % (op, o, ret, nxt[3][:4] if nxt else None)))
            elif op == "NX" and (t >= ln) and after["pos"] != before["pos"]:
                out.append(("np-end", "next_position at the last order moved to %d" % after["pos"]))
            elif op == "NX" and t < ln and xxo[t] < npat and seqctl[t] != sq and seqctl[t] < nseq and after["pos"] == t:
                out.append(("next_position-leaves-sequence", "next_position from order %d (sequence %d) moved to order %d of sequence %d" % (o, sq, t, seqctl[t])))
            elif op == "PV" and o == entry[sq] and nxt and not cur_on_end_marker and xxo[o] < npat and (nxt[1] != 0 or nxt[3][0] != o):
                out.append(("np-start", "prev_position at the sequence start moved to %s" % (nxt[3][:3],)))
        elif op == "SK":
            sq = before["seq"]
            cand = [j for j in range(ln) if xxo[j] < npat and seqctl[j] == sq and tm[j] <= arg]
            if cand and sq < nseq:
                want = max(cand)
                if ret != want or (nxt and not cur_on_end_marker and (nxt[1] != 0 or tuple(nxt[3][:4]) != (want, 0, 0, sq))):
                    out.append(("seek", "seek_time(%d) in sequence %d: ret %d, next frame %s; last order with start time <= t is %d" % (arg, sq, ret, nxt[3][:4] if nxt else None, want)))
    return out

def main():
    tier = sys.argv[1] if len(sys.argv) > 1 else "quick"
    replay = sys.argv[sys.argv.index("--replay") + 1] if "--replay" in sys.argv else None
    ck = V.Check("C17", tier)
    rng = ck.rng
    ck.proof_leg(["Extract/Extract_seek.vo"])
    drv = V.build_driver("c17_drv", ["c17_drv.c"])
    model = V.ocaml_build("seek")
    env = V.san_env()
    tmpd = tempfile.mkdtemp(prefix="vp-c17-", dir="/var/tmp")
    try:
        jobs = []      # (label, path, song-or-None, script-or-None)
        if replay:
            rp = json.load(open(replay))
            if rp.get("song"):
                p = os.path.join(tmpd, "r." + rp["format"]); open(p, "wb").write(modgen.WRITERS[rp["format"]](rp["song"]))
                jobs.append((rp["format"], p, rp["song"], rp["script"]))
            else:
                jobs.append(("corpus", os.path.join(V.REPO, rp["path"]), None, rp["script"]))
        else:
            for i in range(160 if tier == "quick" else 6000):
                fmt, s = gen_song(rng, i)
                p = os.path.join(tmpd, "g%05d.%s" % (i, fmt)); open(p, "wb").write(modgen.WRITERS[fmt](s))
                jobs.append((fmt, p, s, None))
            # motif: four patterns played in the order 0, 2, 1, 3 through position jumps (orders entered out of index order)
            for i, fmt in enumerate(("mod", "xm", "s3m", "it") if tier == "quick" else ("mod", "xm", "s3m", "it") * 3):
                pats = []
                for k, tgt in enumerate((2, 3, 1, None)):
                    pt = modgen.empty_pattern(64 if fmt in ("mod", "s3m") else rng.choice((8, 16, 32)), 4)
                    pt[0][0] = dict(note=25 + k, ins=1)
                    last = rng.randrange(3, len(pt))
                    if tgt is not None: pt[last][1] = dict(fx=('jump', tgt))
                    pats.append(pt)
                s = dict(chn=4, orders=[0, 1, 2, 3], patterns=pats, speed=rng.choice((2, 3, 6)), bpm=125, restart=0, name="out of order")
                p = os.path.join(tmpd, "j%02d.%s" % (i, fmt)); open(p, "wb").write(modgen.WRITERS[fmt](s))
                jobs.append((fmt, p, s, None))
            for cp in V.corpus_files(limit=120 if tier == "quick" else None, rng=rng):
                jobs.append(("corpus", cp, None, None))
            # long Protracker modules on which the loader compares CIA and VBlank timing (two scans; the loser's per-order data is thrown
            # away or restored): played straight through once, so that the order start times seek_time relies on can be held against the
            # moment straight playback really enters each order
            for i in range(4 if tier == "quick" else 40):
                s = modgen.random_flow_song(rng, "mod", vocab=('delay',), max_orders=12, max_pats=4, density=0.02)
                while len(s['orders']) < 12: s['orders'].append(rng.randrange(len(s['patterns'])))
                hi = rng.choice((0x20, 0x24, 0x28)) if i % 2 == 0 else rng.choice((0x48, 0x50, 0x60))      # VBlank wins / CIA wins
                p0 = s['patterns'][s['orders'][0]]
                p0[0][0] = dict(p0[0][0] or {}, fx=('speed', 31)); p0[1][0] = dict(p0[1][0] or {}, fx=('tempo', hi))
                pm = s['patterns'][s['orders'][7]]
                if pm is not p0: pm[5][1] = dict(pm[5][1] or {}, fx=('tempo', hi + 8))
                s['restart'] = 0x7f; s['speed'] = 6; s['bpm'] = 125
                p = os.path.join(tmpd, "v%05d.mod" % i); open(p, "wb").write(modgen.WRITERS["mod"](s))
                jobs.append(("mod", p, s, "P40000"))
        # pass 1: tables only (empty script) so that scripts can target every order / time of each module
        need = [j for j in jobs if j[3] is None]
        hdrs = {}
        if need:
            r = V.run([drv], inp="".join("%s\t\n" % j[1] for j in need), env=env, timeout=3000)
            for j, blk in zip(need, r.stdout.split("ENDRUN\n")):
                hdrs[j[1]] = parse_run(blk.split("\n"))
        runs = []
        for (lab, path, song, script) in jobs:
            if script is None:
                h = hdrs.get(path)
                if not h or "len" not in h:
                    continue
                script = gen_script(rng, h, tier)
            runs.append((lab, path, song, script))
        r = V.run([drv], inp="".join("%s\t%s\n" % (x[1], x[3]) for x in runs), env=env, timeout=6000)
        crashed = r.returncode != 0
        cblocks = r.stdout.split("ENDRUN\n")
        mo = V.run([model], inp=r.stdout, timeout=6000).stdout.split("ENDRUN\n")
        nd = 0; ophist = {}; okb_fail = 0; endb_fail = 0; nruns = 0; ncalls = 0
        for k, (lab, path, song, script) in enumerate(runs):
            if k >= len(cblocks) or "MOD " not in cblocks[k]:
                continue
            cl = [l for l in cblocks[k].split("\n") if l[:2] in ("S ", "C ", "F ")]
            hdr = parse_run(cblocks[k].split("\n"))
            ml = mo[k].split("\n") if k < len(mo) else []
            okb = next((l.split()[1:] for l in ml if l.startswith("OKB")), ["?", "?"])
            ml = [l for l in ml if l[:2] in ("C ", "F ")]
            rep = {"engine": "seek", "format": lab, "script": script}
            if song: rep["song"] = song
            else: rep["path"] = os.path.relpath(path, V.REPO)
            nruns += 1
            if okb[0] != "1":
                okb_fail += 1
                ck.violation(dict(rep, broken="the loaded module / scan tables violate smod_okb (Model/Seek.v), the hypothesis of the C17 theorems", what="smod_okb false"), key="c17:okb")
                continue
            if okb[1] != "1": endb_fail += 1
            # --- straight playback from the start: the first frame of every order gives the time playback really enters it
            if script and all(t.startswith("P") for t in script.split()):
                seen = {}; elapsed = 0          # microseconds rendered so far: the sum of the frame times (the reported time field is re-read from the order table at every order)
                for l in cl:
                    w = l.split()
                    if w[0] == "F" and w[1] == "0" and len(w) >= 25:
                        if int(w[19]) not in seen: seen[int(w[19])] = elapsed // 1000
                        elapsed += int(w[24])
                for o, t in sorted(seen.items()):
                    ck.count()
                    if o < len(hdr["time"]) and hdr["time"][o] >= 0 and abs(hdr["time"][o] - t) > 700:
                        ck.violation(dict(rep, what="order %d: the start time seek_time works with is %d ms, straight playback entered the order at about %d ms" % (o, hdr["time"][o], t),
                                          broken="C17 on the implementation: order start times used by xmp_seek_time vs straight playback"), key="c17:order-times")
                        break
            # --- model vs implementation, call by call
            ev = []; bad = None
            for idx, l in enumerate(cl):
                w = l.split()
                if w[0] == "S":
                    ev.append(('S', dict(zip(STATE, (int(x) for x in w[1:16]))))); continue
                if w[0] == "C":
                    obs = "C %s %s %s | %s" % (w[1], w[2], w[3], " ".join(w[5:20]))
                    ev.append(('C', w[1], int(w[2]), int(w[3]), dict(zip(STATE, (int(x) for x in w[5:20])))))
                    ophist[w[1]] = ophist.get(w[1], 0) + 1; ncalls += 1
                else:
                    obs = "F %s | %s" % (w[1], " ".join(w[3:18]))
                    ev.append(('F', int(w[1]), dict(zip(STATE, (int(x) for x in w[3:18]))), tuple(int(x) for x in w[19:24])))
                mi = idx - 1
                got = ml[mi] if 0 <= mi < len(ml) else "?"
                if got != obs and bad is None:
                    bad = "call %d: implementation `%s`, model `%s`" % (idx, obs, got)
            ck.count()
            if bad:
                nd += 1
                ck.violation(dict(rep, what=bad, broken="correspondence Model/Seek.v (control / play_frame) vs control.c / player.c"), key="c17:model:" + bad.split("`")[1].split()[1])
                continue
            mon = monitor(hdr, ev)
            for key, text in mon:
                ck.violation(dict(rep, what=text, broken="C17 clause evaluated on the implementation's own trace"), key=key)
            if all(V.known_match('C17', key) for key, _ in mon):
                ck.nontrivial((lab, script, json.dumps(song, sort_keys=True) if song else path))
                if len(ck.cov["samples"]) < 2:
                    ck.sample({"format": lab, "script": script[:200], "orders": hdr["len"], "sequences": hdr["nseq"]})
        if crashed:
            k = len(cblocks) - 1
            lab, path, song, script = runs[min(k, len(runs) - 1)]
            ck.violation({"engine": "seek", "format": lab, "song": song, "path": None if song else os.path.relpath(path, V.REPO), "script": script,
                          "broken": "sanitizer report / crash under position control", "stderr": r.stderr[-2500:]}, key="c17-crash")
        ck.engine_stat("seek", runs=nruns, control_calls=ncalls, op_hist=ophist, disagreements=nd, smod_okb_false=okb_fail, scan_endb_false=endb_fail)
    finally:
        shutil.rmtree(tmpd, ignore_errors=True)
    ck.cov["rule"] = ("generated MOD/XM/S3M/IT modules (speed/tempo/jump/break/delay/loop effects, S3M/IT skip and end markers anywhere incl. order 0, several sequences) and corpus modules; "
                      "per module a history of 25-60 control calls at arbitrary moments: set_position on every order and on hostile values, set_row, seek_time at every order's start time -1/0/+1, "
                      "next/prev chains, restart, stop, calls without a frame between; every call's return value and private position state and every frame's state compared with the extracted model; "
                      "the property's clauses evaluated independently on the trace")
    ck.assumptions += ["frames that are not a reposition or the tick after set_row are environment steps in the model (their position values are taken from the implementation)",
                       "xxo_info[].time is taken as given here; that it is the time playback enters the order is C18's theorem"]
    ck.finish()

V.main_wrap(main)
