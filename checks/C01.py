# C01 — arbitrary file bytes never cause memory errors or undefined behaviour.
import struct, os, sys, json, tempfile, shutil
from concurrent.futures import ThreadPoolExecutor
import vcommon as V
sys.path.insert(0, os.path.join(V.VERIF, "gen"))
import mutate

def main():
    tier = sys.argv[1] if len(sys.argv) > 1 else "quick"
    replay = sys.argv[sys.argv.index("--replay") + 1] if "--replay" in sys.argv else None
    ck = V.Check("C01", tier)
    rng = ck.rng
    ck.proof_leg(["Extract/Extract_bounds.vo", "Extract/Extract_envelope.vo", "Extract/Extract_lfo.vo"])
    drv = {"asan+ubsan": V.build_driver("c01_drv", ["c01_drv.c"]), "msan": V.build_driver("c01_drv", ["c01_drv.c"], variant="msan")}
    model = V.ocaml_build("bounds")
    env = V.san_env({"MSAN_OPTIONS": "exitcode=86:halt_on_error=1"})
    tmpd = tempfile.mkdtemp(prefix="vp-c01-", dir="/var/tmp")
    stats = {"inputs": 0, "loaded": 0, "runs": {}, "labels": {}, "dumps_checked": 0}
    try:
        jobs = []     # (seed, entry, path, label)
        if replay:
            rp = json.load(open(replay))
            if rp.get("file_hex"):
                p = os.path.join(tmpd, "replay.bin"); open(p, "wb").write(bytes.fromhex(rp["file_hex"]))
            else:
                p = os.path.join(V.REPO, rp["file"])
            jobs = [(rp["input_seed"], rp["entry"], p, rp.get("label", "replay"))]
        else:
            files = [f for f in V.corpus_files() if os.path.getsize(f) < 1500000]
            base = os.path.join(V.REPO, "test-dev", "data", "f")
            fuzz = [os.path.join(base, f) for f in sorted(os.listdir(base))] if os.path.isdir(base) else []
            k = 0
            for f in sorted(rng.sample(files, min(len(files), 110 if tier == "quick" else len(files)))):
                jobs.append((rng.randrange(1 << 30), rng.choice(("LP", "LM", "LF", "LC")), f, "corpus"))
                data = open(f, "rb").read()
                if len(data) > 250000: continue
                for kind, blob in mutate.mutants(data, rng, *((2, 2, 3) if tier == "quick" else (10, 10, 12))):
                    p = os.path.join(tmpd, "v%06d" % k); k += 1; open(p, "wb").write(blob)
                    jobs.append((rng.randrange(1 << 30), rng.choice(("LP", "LM", "LF", "LC")), p, "mutant-" + kind))
            for f in sorted(rng.sample(fuzz, min(len(fuzz), 250 if tier == "quick" else len(fuzz)))):
                jobs.append((rng.randrange(1 << 30), rng.choice(("LP", "LM", "LF", "LC")), f, "fuzz-regression"))
        # boundary sweep: one representative per detected format (the smallest corpus file of that format, unpacked if it sits in
        # an archive); every byte of its first H bytes moved by +1 and -1, and the first H2 bytes set to the usual limits - the
        # off-by-one neighbourhood of every header field of every loader, which random mutation only samples
        sweep = []
        if not replay:
            small = [f for f in V.corpus_files() if os.path.getsize(f) < 300000]
            ty = V.run([drv["asan+ubsan"]], inp="".join("0 TY %s\n" % f for f in small), env=env, timeout=3000).stdout.split("\n")
            ty = [l.split(" ", 3) for l in ty if l.startswith("TYPE ")]
            reps = {}
            for f, w in zip(small, ty):
                if w[1] == "0" and (w[3] not in reps or int(w[2]) < reps[w[3]][1]): reps[w[3]] = (f, int(w[2]))
            H, H2 = (768, 384) if tier == "quick" else (4096, 2048)
            for fmt_name, (f, size) in sorted(reps.items()):
                for off in range(min(size, H)):
                    sweep.append((rng.randrange(1 << 30), "SW:%d+1" % off, f, "sweep+1")); sweep.append((rng.randrange(1 << 30), "SW:%d-1" % off, f, "sweep-1"))
                for off in range(min(size, H2)):
                    for v in (0, 0x40, 0x80, 0xff) if tier == "quick" else (0, 0x3f, 0x40, 0x41, 0x7f, 0x80, 0x81, 0xfe, 0xff):
                        sweep.append((rng.randrange(1 << 30), "SW:%d=%d" % (off, v), f, "sweep-limit"))
            # effect-parameter sweep: in the body of each (unpacked) representative, bytes that follow a byte whose low nibble is e - in the
            # many formats with Protracker-style cells, the parameter of effect e - are set to the parameter values at which effect
            # handlers change behaviour (a zero nibble, 0, the largest values); played for 56 frames from the start, because a speed /
            # tempo / loop effect acts on the rows after the one it sits on
            nfx = 0
            for fmt_name, (f, size) in sorted(reps.items()):
                if os.path.getsize(f) != size: continue
                body = open(f, "rb").read()
                for e in range(16):
                    cand = [i for i in range(max(64, min(size // 8, 1500)), min(size, max(8192, size // 3))) if (body[i - 1] & 15) == e and body[i] != 0]
                    # the first two such places (the first rows of the first patterns are the ones playback reaches) and some anywhere
                    for i in (cand[:2] + rng.sample(cand[2:], min(len(cand[2:]), 1 if tier == "quick" else 12))):
                        for v in (0x00, 0x0f, 0xf0, 0x10, 0x30, 0xff):
                            if v != body[i]: sweep.append((rng.randrange(1 << 30), "FX:%d=%d" % (i, v), f, "sweep-fx")); nfx += 1
                # ... and effects INSTALLED in the first cells of the body: at 16 consecutive offsets (four cells at each alignment) the low
                # nibble of the byte before is set to e and the byte itself to a parameter value
                st0 = max(64, min(size // 8, 1500))
                for i in range(st0 + 1, min(size, st0 + 17)):
                    for e in range(16):
                        for v in (0x00, 0xf0, 0x30, 0xff):
                            sweep.append((rng.randrange(1 << 30), "FX:%d=%d,%d=%d" % (i - 1, (body[i - 1] & 0xf0) | e, i, v), f, "sweep-fx")); nfx += 1
            # generated Protracker modules in which instruments are changed WITHOUT a note while a looped sample plays (the mixer swaps the
            # sample at the loop end), the new instrument being empty, cut off by the end of the file, or fine
            sys.path.insert(0, os.path.join(V.VERIF, "gen")); import modgen
            for gi in range(24 if tier == "quick" else 400):
                pat = modgen.empty_pattern(64, 4)
                pat[0][0] = dict(note=rng.choice((13, 25, 30)), ins=1)
                r = 1
                while r < 12:
                    c = rng.choice((0, 0, 0, 1))
                    pat[r][c] = rng.choice((dict(ins=rng.choice((2, 3, 1, 2, 31))), dict(ins=2, fx=('raw', (9, rng.choice((0, 1, 255))))), dict(note=20, ins=rng.choice((2, 3))),
                                            dict(ins=2, fx=('raw', (0xe, 0x90 | rng.randrange(16)))), dict(fx=('raw', (0xc, 0)))))
                    r += rng.choice((1, 1, 2, 3))
                song = dict(chn=4, orders=[0], patterns=[pat], speed=rng.choice((3, 6)), bpm=125, restart=0x7f, name="swap", loop=rng.choice(((0, 32), (0, 32), (4, 8), (0, 1))))
                b = bytearray(modgen.write_mod(song))
                # instrument 2: declared 30..200 bytes, volume 64, sometimes looped; its data: all there, partly there, not there at all
                ln = rng.choice((15, 40, 100)); struct.pack_into(">HBBHH", b, 20 + 30 + 22, ln, 0, 64, 0, rng.choice((1, 1, ln)))
                have = rng.choice((0, 0, 0, 2 * ln, ln, 3))
                b += bytes(rng.randrange(256) for _ in range(have))
                if rng.random() < 0.3: b = b[:len(b) - have - rng.choice((0, 1, 30, 63))]
                gp = os.path.join(tmpd, "swap%04d.mod" % gi); open(gp, "wb").write(bytes(b))
                sweep.append((rng.randrange(1 << 30), "FX:0+0", gp, "gen-instrument-swap"))
            stats["sweep_formats"] = len(reps); stats["sweep_inputs"] = len(sweep); stats["sweep_fx_inputs"] = nfx
        chunks = [jobs[i::14] for i in range(14)] if len(jobs) > 14 else [jobs]
        schunks = [sweep[i::14] for i in range(14)] if sweep else []

        def run_chunk(args):
            name, chunk = args
            res = []; pos = 0
            while pos < len(chunk):
                r = V.run([drv[name]], inp="".join("%d %s %s\n" % j[:3] for j in chunk[pos:]), env=env, timeout=3000)
                done = r.stdout.count("DONE\n")
                res.append((chunk[pos:pos + done], r.stdout, None))
                if r.returncode != 0 and pos + done < len(chunk):
                    res.append(([chunk[pos + done]], "", r.stderr[-2500:]))
                    pos += done + 1
                else:
                    break
            return name, res

        with ThreadPoolExecutor(14) as ex:
            allres = list(ex.map(run_chunk, [(n, c) for n in drv for c in chunks] + [(n, c) for n in (("asan+ubsan",) if tier == "quick" else tuple(drv)) for c in schunks]))
        dumps = []
        for name, res in allres:
            for (js, out, err) in res:
                if err is not None:
                    j = js[0]; blob = open(j[2], "rb").read()
                    site = next((l.split(" in ", 1)[1].split()[0] for l in err.split("\n") if l.strip().startswith("#") and "/repo/src" in l), "?")
                    ck.violation({"sanitizer": name, "input_seed": j[0], "entry": j[1], "label": j[3], "file": os.path.relpath(j[2], V.REPO) if j[2].startswith(V.REPO) else None,
                                  "file_hex": blob.hex() if not j[2].startswith(V.REPO) and len(blob) < 300000 else None, "stderr": err,
                                  "broken": "sanitizer report (%s) while testing / loading / playing / seeking" % name}, key="c01:%s:%s" % (name, site))
                    continue
                blocks = out.split("DONE\n")
                for j, blk in zip(js, blocks):
                    ck.count(); stats["runs"][name] = stats["runs"].get(name, 0) + 1
                    if name == "asan+ubsan":
                        stats["inputs"] += 1; stats["labels"][j[3]] = stats["labels"].get(j[3], 0) + 1
                        first = blk.split("\n", 1)[0].split()
                        if len(first) >= 3 and first[2] == "0":
                            stats["loaded"] += 1
                            if "ENDMOD" in blk: dumps.append((j, blk[blk.index("\n") + 1: blk.index("ENDMOD") + 7]))
                        if len(first) >= 3 and int(first[2]) > 0:
                            ck.violation({"input_seed": j[0], "entry": j[1], "label": j[3], "what": "the load returned a positive value %s" % first[2], "broken": "the worst a file can do is a negative error code"}, key="c01:positive-return")
                    ck.nontrivial((name,) + j[:2] + (j[3], os.path.basename(j[2])))
        # the loaded modules' dumps through the extracted predicates: wf (C03) and the consumers' access plan (theorem: wf -> plan)
        if dumps:
            mo = V.run([model], inp="".join(d for _, d in dumps), timeout=3000).stdout.split("\n")
            for (j, _), o in zip(dumps, mo):
                stats["dumps_checked"] += 1
                if o.strip() != "ok":
                    blob = open(j[2], "rb").read()
                    ck.violation({"input_seed": j[0], "entry": j[1], "label": j[3], "file": os.path.relpath(j[2], V.REPO) if j[2].startswith(V.REPO) else None,
                                  "file_hex": blob.hex() if not j[2].startswith(V.REPO) and len(blob) < 300000 else None,
                                  "what": "a successfully loaded module fails the extracted predicates: %s" % o, "broken": "public_wfb / consumers_okb on a real dump"}, key="c01:wf:" + o.split()[0])
    finally:
        shutil.rmtree(tmpd, ignore_errors=True)
    # ---- envelope evaluation: Model/Envelope.v (get_envelope and the three update_envelope flavours with every array access checked)
    #      against the static functions of player.c (compiled into the driver), on envelopes satisfying the C03 clause
    if not replay or json.load(open(replay)).get("engine") == "envelope":
        emodel = V.ocaml_build("envelope"); edrv = V.build_driver("env_drv", ["env_drv.c"])
        lines = []
        if replay: lines = [json.load(open(replay))["case"]]
        for _ in range(0 if replay else (6000 if tier == "quick" else 200000)):
            npt = rng.choice((1, 1, 2, 3, 5, 12, 25, 32))
            xs = sorted(rng.sample(range(0, 400), npt)) if rng.random() < 0.8 else [rng.randrange(0, 300) for _ in range(npt)]
            if rng.random() < 0.2 and npt > 1: xs[rng.randrange(1, npt)] = xs[0]
            data = [0] * 64
            for i in range(npt): data[2 * i] = xs[i]; data[2 * i + 1] = rng.choice((0, 64, rng.randrange(0, 65), rng.randrange(-100, 200)))
            for i in range(npt, 32):
                if rng.random() < 0.3: data[2 * i] = rng.randrange(0, 500); data[2 * i + 1] = rng.randrange(0, 65)
            flg = 1 | (2 if rng.random() < 0.5 else 0) | (4 if rng.random() < 0.5 else 0) | rng.choice((0, 0, 8, 16, 32))
            if rng.random() < 0.05: flg &= ~1
            pnt = lambda: rng.randrange(0, npt)
            sus, sue, lps, lpe = pnt(), pnt(), pnt(), pnt()
            if rng.random() < 0.5: sue = max(sus, sue); lpe = max(lps, lpe)
            if rng.random() < 0.2: sus = lpe
            x = rng.choice((-2, -1, 0, 1, 2, rng.randrange(0, 450), rng.choice(xs), rng.choice(xs) + 1, rng.choice(xs) - 1, 65534, 65535, 65536, 70000))
            lines.append("%d %d %d %d %d %d | %s | %d %d %d" % (flg, npt, sus, sue, lps, lpe, " ".join(map(str, data)), x, rng.randrange(2), rng.randrange(2)))
        inp = "\n".join(lines) + "\n"
        mo = V.run([emodel], inp=inp, timeout=3000).stdout.split("\n")
        rc = V.run([edrv], inp=inp, env=V.san_env(), timeout=3000)
        co = rc.stdout.split("\n"); ne = 0
        for l, m, c in zip(lines, mo, co):
            ck.count(); mm = m.split(" ", 1)
            if mm[0] == "1" and "OOB" in m: raise V.BuildError("Model/Envelope.v leaves the point array on an envelope satisfying env_okb: theorem *_in_bounds would be false (%s)" % l[:80])
            if len(mm) < 2 or mm[1] != c:
                ne += 1
                if ne <= 3: ck.violation({"engine": "envelope", "case": l, "expected_model": m, "got_impl": c, "broken": "correspondence: Model/Envelope.v vs get_envelope / update_envelope of src/player.c"}, key="c01:envelope")
            else: ck.nontrivial(("env", l))
        if rc.returncode != 0: ck.violation({"engine": "envelope", "broken": "sanitizer report / crash in the envelope functions", "stderr": rc.stderr[-1500:]}, key="c01-envelope-crash")
        stats["envelope_cases"] = len(lines); stats["envelope_disagreements"] = ne
    # ---- LFOs and the random source: Model/Lfo.v against src/lfo.c / src/rng.c called directly, on random operation sequences
    if not replay or json.load(open(replay)).get("engine") == "lfo":
        lmodel = V.ocaml_build("lfo"); ldrv = V.build_driver("lfo_drv", ["lfo_drv.c"])
        def lcase():
            ops = []
            for _ in range(rng.randrange(1, 40)):
                k = rng.random()
                if k < 0.3: ops.append("U")
                elif k < 0.35: ops.append("P")
                elif k < 0.45: ops.append("D%d" % rng.choice((0, 1, 15, 255, -3, rng.randrange(-1000, 1000))))
                elif k < 0.6: ops.append("R%d" % rng.choice((0, 1, 4, 63, 64, 65, -1, -64, rng.randrange(-300, 300), 100000, -100000)))
                elif k < 0.7: ops.append("W%d" % rng.choice((0, 1, 2, 3, 669, 4, 7, -1, rng.randrange(0, 4))))
                else: ops.append("G%d" % rng.randrange(2))
            return "%d %d | %s" % (rng.randrange(4), rng.choice((0, 1, rng.randrange(1 << 32))), " ".join(ops))
        llines = [json.load(open(replay))["case"]] if replay else [lcase() for _ in range(20000 if tier == "quick" else 400000)]
        linp = "\n".join(llines) + "\n"
        lm = V.run([lmodel], inp=linp, timeout=3000).stdout.split("\n")
        lrc = V.run([ldrv], inp=linp, env=V.san_env(), timeout=3000); lc = lrc.stdout.split("\n"); nl = 0
        for l, m, c in zip(llines, lm, lc):
            ck.count()
            if "OOB" in m: raise V.BuildError("Model/Lfo.v reads outside sine_wave[] on a reachable LFO state: theorem lfo_table_access_in_bounds would be false (%s)" % l[:100])
            if m.strip() != c.strip():
                nl += 1
                if nl <= 3: ck.violation({"engine": "lfo", "case": l, "expected_model": m, "got_impl": c, "broken": "correspondence: Model/Lfo.v vs src/lfo.c / src/rng.c"}, key="c01:lfo")
            else: ck.nontrivial(("lfo", l[:40]))
        if lrc.returncode != 0: ck.violation({"engine": "lfo", "broken": "sanitizer report / crash in src/lfo.c", "stderr": lrc.stderr[-1500:]}, key="c01-lfo-crash")
        stats["lfo_cases"] = len(llines); stats["lfo_disagreements"] = nl
    ck.engine_stat("bounds", **stats)
    ck.cov["rule"] = ("corpus modules, their field-mutated / truncated / bit-flipped variants and the fuzzer regression inputs of test-dev/data/f, each through one of the four test entry points and the matching load entry point; every module that loads "
                      "is dumped and then driven through two player cycles under seeded output configurations (6 rates x 5 formats x 3 interpolators, voice limits) with 25-85 calls each of play_frame / play_buffer / set_position / next / prev / set_row / "
                      "seek_time / restart / stop / channel_mute with hostile arguments; plus a boundary sweep: for one representative of each detected format (unpacked if archived) every byte of the header region moved by +1 / -1 and set to the usual limits, "
                      "each variant tested, loaded from memory and driven through a fixed history that visits every order with set_position / next / prev / seek / set_row / restart (ASan+UBSan; thorough: MSan too); the whole run once under ASan+UBSan (the project's policy: minus shift-base) and once under MemorySanitizer; dumps are judged by the extracted public_wfb and consumers_okb")
    ck.assumptions += ["memory safety of the C code is established by the theorem only for the modelled table accesses of a well-formed module (and, in C20 / C12 / C15 / C16 / C05, for their own indices); everything else is sanitizer exploration of the inputs generated here, not proof",
                       "MemorySanitizer runs with an uninstrumented libc (interceptors only)"]
    ck.finish()

V.main_wrap(main)
