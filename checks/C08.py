# C08 — built-in unpacking is transparent and byte-exact.
import os, sys, json, tempfile, shutil, hashlib, gzip, bz2, lzma, zipfile, zlib, io, struct
import vcommon as V

def crc16_arc(b):
    c = 0
    for x in b:
        c ^= x
        for _ in range(8):
            c = (c >> 1) ^ 0xA001 if c & 1 else c >> 1
    return c

def arc_file(members):
    """classic ARC: members = [(name, method, packed bytes, original bytes)]"""
    out = bytearray()
    for name, method, packed, orig in members:
        out += bytes([0x1a, method]) + name.encode()[:12].ljust(13, b"\0") + struct.pack("<IHHHI", len(packed), 0x5021, 0x6000, crc16_arc(orig), len(orig)) + packed
    return bytes(out + b"\x1a\x00")

def arcfs_file(name, method, packed, orig):
    hdr = b"Archive\x00" + (36).to_bytes(4, "little") + (96 + 36).to_bytes(4, "little") + (0x0a).to_bytes(4, "little") * 3
    hdr += b"\x00" * (96 - len(hdr))
    ent = bytearray(36)
    ent[0] = 0x80 | method
    ent[1:12] = name.encode()[:11].ljust(11, b"\x00")
    ent[12:16] = len(orig).to_bytes(4, "little")
    ent[25] = 0
    ent[26:28] = crc16_arc(orig).to_bytes(2, "little")
    ent[28:32] = len(packed).to_bytes(4, "little")
    return hdr + bytes(ent) + packed

def gz_raw(payload, level, fname=None, comment=None, extra=None, hcrc=False, mtime=0):
    flg = (8 if fname else 0) | (16 if comment else 0) | (4 if extra else 0) | (2 if hcrc else 0)
    hdr = bytearray(b"\x1f\x8b\x08" + bytes([flg]) + struct.pack("<I", mtime) + b"\x00\x03")
    if extra: hdr += struct.pack("<H", len(extra)) + extra
    if fname: hdr += fname + b"\0"
    if comment: hdr += comment + b"\0"
    if hcrc: hdr += struct.pack("<H", zlib.crc32(bytes(hdr)) & 0xffff)
    co = zlib.compressobj(level, zlib.DEFLATED, -15)
    return bytes(hdr) + co.compress(payload) + co.flush() + struct.pack("<II", zlib.crc32(payload) & 0xffffffff, len(payload) & 0xffffffff)

def zip_file(members, method, level=None, comment=None):
    b = io.BytesIO()
    with zipfile.ZipFile(b, "w", method, compresslevel=level) as z:
        for name, data in members:
            z.writestr(zipfile.ZipInfo(name, (2021, 5, 4, 3, 2, 2)), data, method, compresslevel=level)
        if comment is not None: z.comment = comment
    return b.getvalue()

def lha0_file(name, payload, dostime):
    """LHA level-0 header, method -lh0- (stored), written by hand"""
    nm = name.encode()
    body = b"-lh0-" + struct.pack("<IIIBB", len(payload), len(payload), dostime, 0x20, 0) + bytes([len(nm)]) + nm + struct.pack("<H", crc16_arc(payload))
    return bytes([len(body), sum(body) & 0xff]) + body + payload + b"\x00"

Z_SETTINGS = ((16, 1, "-"), (12, 1, "every:3000"), (10, 0, "-"), (13, 1, "every:7935"))

GZ_PLANS = (("-", "f1"), ("nchx", "s3,f4000,s60000,f1"))

def containers(rng, payload, rle_enc, tier, z_streams=(), gz_members=(), pp_files=(), arc_streams=()):
    """(tag, bytes) for every encoder setting we can produce independently"""
    out = []
    for eff, g in zip(("9-9-9-9", "9-10-12-13"), pp_files):
        out.append(("powerpacker-modelwriter-%s" % eff, g))
    for (opts, plan), g in zip(GZ_PLANS, gz_members):
        out.append(("gzip-modelwriter-%s-%s" % (opts.replace("-", "plain"), plan.replace(",", "_")), g))
    for (mb, blk, cl), z in zip(Z_SETTINGS, z_streams):
        out.append(("compress-b%d%s-%s" % (mb, "" if blk else "-noblock", cl.replace(":", "")), z))
    for lv in ((0, 1, 6, 9) if tier == "quick" else range(10)):
        out.append(("gzip-%d" % lv, gz_raw(payload, lv)))
    out.append(("gzip-name-comment-extra-hcrc", gz_raw(payload, 6, fname=b"song.mod", comment=b"a comment", extra=b"AB\x04\x00zzzz", hcrc=True, mtime=0x5eadbeef)))
    for lv in ((1, 9) if tier == "quick" else range(1, 10)):
        out.append(("bzip2-%d" % lv, bz2.compress(payload, lv)))
    for chk, cn in ((lzma.CHECK_NONE, "none"), (lzma.CHECK_CRC32, "crc32"), (lzma.CHECK_CRC64, "crc64"), (lzma.CHECK_SHA256, "sha256")):
        out.append(("xz-%s-p%d" % (cn, 0), lzma.compress(payload, format=lzma.FORMAT_XZ, check=chk, preset=0)))
    out.append(("xz-crc32-p9e", lzma.compress(payload, format=lzma.FORMAT_XZ, check=lzma.CHECK_CRC32, preset=9 | lzma.PRESET_EXTREME)))
    out.append(("xz-small-dict", lzma.compress(payload, format=lzma.FORMAT_XZ, check=lzma.CHECK_CRC32, filters=[{"id": lzma.FILTER_LZMA2, "dict_size": 4096, "lc": 0, "lp": 2, "pb": 0}])))
    out.append(("xz-delta-filter", lzma.compress(payload, format=lzma.FORMAT_XZ, check=lzma.CHECK_CRC32, filters=[{"id": lzma.FILTER_DELTA, "dist": 2}, {"id": lzma.FILTER_LZMA2, "preset": 1}])))
    out.append(("zip-stored", zip_file([("song.mod", payload)], zipfile.ZIP_STORED)))
    for lv in ((1, 9) if tier == "quick" else range(1, 10)):
        out.append(("zip-deflate-%d" % lv, zip_file([("song.mod", payload)], zipfile.ZIP_DEFLATED, lv)))
    # archive comments: the end-of-central-directory record is found by scanning backwards from the end of the file in blocks, so its
    # distance from the end (22 + comment length) is swept around the block size of that scan and its multiples, and to the maximum
    for cl in ((17, 4073, 4074, 4075, 4076, 4077, 4078, 8172, 65535) if tier == "quick" else sorted(set([0, 1, 17, 65535, 65534] + [4096 * m - 22 + d for m in (1, 2, 3, 8, 15) for d in range(-2, 6)]))):
        out.append(("zip-comment-%d" % cl, zip_file([("song.mod", payload)], zipfile.ZIP_STORED if cl % 2 else zipfile.ZIP_DEFLATED, 6, comment=bytes(65 + (i * 7 + cl) % 26 for i in range(cl)))))
    readme = b"This is a text file, not a module.\r\n" * 3
    out.append(("zip-readme-first", zip_file([("README", readme), ("file_id.diz", b"diz"), ("song.nfo", b"nfo nfo"), ("song.mod", payload)], zipfile.ZIP_DEFLATED, 6)))
    out.append(("zip-readme-last", zip_file([("song.mod", payload), ("readme.txt", readme)], zipfile.ZIP_DEFLATED, 6)))
    out.append(("zip-docs-in-subdirectory-first", zip_file([("docs/info.txt", readme), ("docs/FILE_ID.DIZ", b"diz"), ("a/b/notes.nfo", b"nfo"), ("music/song.mod", payload)], zipfile.ZIP_DEFLATED, 6)))
    for t in range(6 if tier == "quick" else 40):
        # member names of 4 characters and varying time stamps: the header checksum byte takes many values
        out.append(("lha-lh0-%d" % t, lha0_file(rng.choice(("song", "ode2", "tune", "a.md")), payload, 0x50000000 + rng.randrange(1 << 24))))
    packed = rle_enc(payload)
    for meth, z in arc_streams:
        out.append(("arc-%s-modelwriter" % {8: "crunched", 9: "squashed"}[meth], arc_file([("SONG.MOD", meth, z, payload)])))
    out.append(("arc-stored", arc_file([("SONG.MOD", 2, payload, payload)])))
    out.append(("arc-rle90", arc_file([("SONG.MOD", 3, packed, payload)])))
    out.append(("arc-readme-then-rle90", arc_file([("README", 2, readme, readme), ("SONG.MOD", 3, packed, payload)])))
    if crc16_arc(payload) != 0:
        out.append(("arcfs-stored", arcfs_file("song", 2, payload, payload)))
        out.append(("arcfs-rle90", arcfs_file("song", 3, packed, payload)))
    return out

# ---------------------------------------------------------------------------------------------------------------------------
# compress (.Z): the extracted model of uncompress.c (Model/Lzw.v) against decrunch_compress itself, on streams from the extracted
# writer over its settings, on mutated streams and on random bytes; memory and FILE streams.

def lzw_payloads(rng, tier):
    base = open(os.path.join(V.REPO, "test-dev", "data", "ode2ptk.mod"), "rb").read()
    pays = [("ode2ptk.mod", base), ("zeros-70000", bytes(70000)), ("random-30000", bytes(rng.randrange(256) for _ in range(30000))),
            ("two-symbols", bytes(rng.choice(b"ab") for _ in range(20000))), ("one-byte", b"x"), ("two-equal", b"zz"), ("abab", b"abababababab"),
            ("period-257", bytes((i * 7) & 0xff for i in range(257)) * 40)]
    files = [f for f in V.corpus_files() if 2000 < os.path.getsize(f) < 70000 and f.lower().endswith((".mod", ".xm", ".s3m", ".it"))]
    for f in sorted(rng.sample(files, min(len(files), 3 if tier == "quick" else 25))): pays.append((os.path.relpath(f, V.REPO), open(f, "rb").read()))
    # lengths around the 8 KiB input buffer of the decoder: the compressed size of random data is about 9/8 .. 16/8 of its length
    for n in (7200, 7280, 7290, 14560, 14570): pays.append(("random-%d" % n, bytes(rng.randrange(256) for _ in range(n))))
    return pays

def lzw_settings(rng, tier, n):
    out = []
    for mb in (9, 10, 11, 12, 13, 14, 15, 16):
        for blk in (1, 0):
            cls = ["-"] if not blk else ["-", "every:%d" % rng.choice((50, 300, 1000)), "every:%d" % max(2, (1 << mb) - 257 + rng.choice((-1, 0, 1, 40)))]
            for cl in cls: out.append((mb, blk, cl))
    if tier == "quick": out = [x for x in out if x[0] in (9, 10, 12, 16) or rng.random() < 0.3]
    return out

def lzw_leg(ck, tier, rng, stats, rp):
    model = V.ocaml_build("lzw")
    drv = V.build_driver("lzw_drv", ["lzw_drv.c"])
    env = V.san_env()
    st = stats.setdefault("lzw", {"writer_streams": 0, "clear_codes": 0, "mutants": 0, "random": 0, "model_rejects": 0, "bytes_compared": 0})
    cases = []         # (tag, zbytes, expected payload or None)
    if rp:
        cases = [(rp["tag"], bytes.fromhex(rp["z"]), None)]
    else:
        pays = lzw_payloads(rng, tier)
        req = []; meta = []
        for name, data in pays:
            sets = lzw_settings(rng, tier, len(data))
            if len(data) > 40000 or tier == "quick": sets = rng.sample(sets, min(len(sets), 6 if tier == "quick" else 12))
            for (mb, blk, cl) in sets:
                req.append("C %d %d %s %s" % (mb, blk, cl, data.hex())); meta.append(("%s/b%d%s/%s" % (name, mb, "" if blk else "-noblock", cl), data))
                req.append("N %d %d %s %s" % (mb, blk, cl, data.hex()))
        mo = V.run([model], inp="\n".join(req) + "\n", timeout=3000).stdout.split("\n")
        for k, (tag, data) in enumerate(meta):
            w = mo[2 * k].split(); nn = mo[2 * k + 1].split()
            if w[0] != "Z": raise V.BuildError("lzw model: unexpected output %r" % mo[2 * k][:100])
            z = bytes.fromhex(w[2]); st["writer_streams"] += 1; st["clear_codes"] += int(nn[2])
            cases.append(("writer:" + tag, z, data))
            for _ in range(1 if tier == "quick" else 3):
                b = bytearray(z); kind = rng.random()
                if kind < 0.5 and len(b) > 3: b[rng.randrange(3, len(b))] ^= 1 << rng.randrange(8)
                elif kind < 0.7: del b[rng.randrange(2, len(b)):]
                elif kind < 0.85: b += bytes(rng.randrange(256) for _ in range(rng.randrange(1, 40)))
                else: b[2] = rng.choice((b[2] ^ 0x80, 0x89, 0x90, 0x88, 0x91, 0x9f, b[2] | 0x60))
                cases.append(("mutant:" + tag, bytes(b), None)); st["mutants"] += 1
        for k in range(20 if tier == "quick" else 400):
            n = rng.choice((0, 1, 2, 3, 4, 10, 100, 3000, 9000))
            hdr = bytes([31, 157, rng.choice((0x90, 0x8c, 0x10, 0x89, 0x9f, 0x88))]) if rng.random() < 0.9 else bytes(rng.randrange(256) for _ in range(3))
            body = bytes((rng.randrange(256) if rng.random() < 0.5 else rng.choice((0, 0, 1, 0xff))) for _ in range(n))
            cases.append(("random:%d" % k, (hdr + body)[:max(0, n)] if rng.random() < 0.1 else hdr + body, None)); st["random"] += 1
    mo = V.run([model], inp="".join("D %s\n" % (z.hex() or "-") for _, z, _ in cases), timeout=3000).stdout.split("\n")
    outs = {}
    for mode in ("mem", "file"):
        r = V.run([drv, mode], inp="".join("%s\n" % (z.hex() or "-") for _, z, _ in cases), env=env, timeout=3000)
        outs[mode] = r.stdout.split("\n")
        if r.returncode != 0:
            k = len([l for l in outs[mode] if l.startswith("RET")])
            ck.violation({"engine": "lzw", "tag": cases[min(k, len(cases) - 1)][0], "z": cases[min(k, len(cases) - 1)][1].hex(), "broken": "sanitizer report / crash in decrunch_compress (%s stream)" % mode, "stderr": r.stderr[-2000:]}, key="c08-lzw-crash")
    for k, (tag, z, want) in enumerate(cases):
        ck.count()
        m = mo[k].split()
        mres = None if m[0] == "FAIL" else (bytes.fromhex(m[1]) if m[1] != "-" else b"")
        if mres is None: st["model_rejects"] += 1
        bad = None
        if want is not None and mres != want:
            raise V.BuildError("the extracted uncompress(compress l) differs from l for %s: theorem uncompress_compress would be false" % tag)
        for mode in ("mem", "file"):
            if k >= len(outs[mode]) or not outs[mode][k].startswith("RET"): continue
            w = outs[mode][k].split(); ret = int(w[1]); ln = int(w[3])
            if ret != 0 and mres is not None: bad = "decrunch_compress (%s stream) returns %d, the model unpacks %d bytes" % (mode, ret, len(mres))
            elif ret == 0 and mres is None: bad = "decrunch_compress (%s stream) returns 0 with %d bytes, the model rejects the stream" % (mode, ln)
            elif ret == 0:
                got = w[4]
                exp = ("md5:" + hashlib.md5(mres).hexdigest()) if len(mres) > 65536 else (mres.hex() or "-")
                st["bytes_compared"] += len(mres)
                if ln != len(mres) or got != exp:
                    i = next((i for i in range(min(ln, len(mres))) if not got.startswith("md5:") and got[2 * i:2 * i + 2] != exp[2 * i:2 * i + 2]), -1)
                    bad = "decrunch_compress (%s stream) unpacks %d bytes, the model %d; first difference at byte %d" % (mode, ln, len(mres), i)
            if bad: break
        if bad:
            ck.violation({"engine": "lzw", "tag": tag, "z": z.hex() if len(z) < 200000 else None, "what": bad,
                          "broken": "correspondence: Model/Lzw.v (uncompress) vs src/depackers/uncompress.c" + ("; the stream comes from the proved writer, so the payload is not recovered (C08 violated on this input)" if want is not None else "")},
                         key="c08:lzw:%s:%s" % (tag.split(":")[0], bad.split(",")[0][:40]))
        else:
            ck.nontrivial(("lzw", z))

# ---------------------------------------------------------------------------------------------------------------------------
# gzip / DEFLATE: the extracted model (Model/Inflate.v) against tinfl_decompress_mem_to_heap and decrunch_gzip themselves.

def inflate_leg(ck, tier, rng, stats, rp):
    model = V.ocaml_build("inflate")
    idrv = V.build_driver("inflate_drv", ["inflate_drv.c"]); gdrv = V.build_driver("gz_drv", ["gz_drv.c"])
    env = V.san_env()
    st = stats.setdefault("inflate", {"zlib_streams": 0, "writer_members": 0, "mutants": 0, "random": 0, "both_accept": 0, "both_reject": 0, "only_C_accepts_invalid_stream": 0, "bytes_compared": 0})
    raw = []; gz = []           # (tag, bytes, expected payload or None)
    if rp:
        (raw if rp["level"] == "raw" else gz).append((rp["tag"], bytes.fromhex(rp["z"]), None))
    else:
        base = open(os.path.join(V.REPO, "test-dev", "data", "ode2ptk.mod"), "rb").read()
        files = [f for f in V.corpus_files() if 2000 < os.path.getsize(f) < 40000 and f.lower().endswith((".mod", ".xm", ".s3m", ".it"))]
        pays = [("ode2ptk.mod", base), ("zeros", bytes(5000)), ("abc", b"abcabcabcabcabcabcabcabcabcabcx"), ("one", b"q"), ("random", bytes(rng.randrange(256) for _ in range(3000))),
                ("runs", b"".join(bytes([rng.randrange(256)]) * rng.choice((1, 2, 3, 4, 257, 258, 259, 600)) for _ in range(60)))]
        for f in sorted(rng.sample(files, min(len(files), 2 if tier == "quick" else 20))): pays.append((os.path.relpath(f, V.REPO), open(f, "rb").read()))
        for name, data in pays:
            for lvl in ((0, 1, 6, 9) if tier == "quick" else range(10)):
                for strat in (zlib.Z_DEFAULT_STRATEGY, zlib.Z_FIXED, zlib.Z_HUFFMAN_ONLY, zlib.Z_RLE, zlib.Z_FILTERED):
                    wb = rng.choice((-15, -15, -12, -9)); ml = rng.choice((9, 8, 1))
                    c = zlib.compressobj(lvl, zlib.DEFLATED, wb, ml, strat); z = c.compress(data) + c.flush()
                    raw.append(("zlib:%s/l%d/s%d/w%d/m%d" % (name, lvl, strat, wb, ml), z, data)); st["zlib_streams"] += 1
        req = []; meta = []
        for name, data in pays:
            n = len(data)
            plans = ["s%d" % n, "f%d" % n, "s7,f%d,s1,f1" % max(1, n // 2), "f%d,s0,s%d,f1" % (n // 3, n // 3), ",".join(rng.choice("sf") + str(rng.choice((0, 1, 2, 100, 65535, 70000))) for _ in range(6))]
            if n > 65535: plans[0] = "s65535,s65535,s1"
            for pl in plans:
                opts = rng.choice(("-", "n", "c", "x", "h", "nc", "nchx", "xh"))
                req.append("Z %s %s %s" % (opts, pl, data.hex() or "-")); meta.append(("writer:%s/%s/%s" % (name, opts, pl), data))
        out = V.run([model], inp="\n".join(req) + "\n", timeout=3000).stdout.split("\n")
        for (tag, data), l in zip(meta, out):
            w = l.split()
            if len(w) != 3 or w[0] != "GZ": raise V.BuildError("inflate model: unexpected writer output %r" % l[:80])
            if w[1] != "1": raise V.BuildError("the writer's segments are outside segs_okb or do not stand for the payload (%s)" % tag)
            gz.append((tag, bytes.fromhex(w[2]), data)); st["writer_members"] += 1
        def mutants(z, lo):
            res = []
            for _ in range(3 if tier == "quick" else 12):
                b = bytearray(z); k = rng.random()
                if len(b) <= lo + 1: continue
                if k < 0.6: b[rng.randrange(lo, len(b))] ^= 1 << rng.randrange(8)
                elif k < 0.8: del b[rng.randrange(lo + 1, len(b)):]
                else: b[rng.randrange(lo, min(len(b), lo + 40))] = rng.randrange(256)
                res.append(bytes(b))
            return res
        for tag, z, _ in list(raw): raw += [("mutant:" + tag, m, None) for m in mutants(z, 0)]
        for tag, z, _ in list(gz): gz += [("mutant:" + tag, m, None) for m in mutants(z, 3)]
        st["mutants"] = sum(1 for t, _, _ in raw + gz if t.startswith("mutant"))
        for k in range(200 if tier == "quick" else 4000):
            raw.append(("random:%d" % k, bytes(rng.randrange(256) for _ in range(rng.choice((1, 2, 5, 20, 100)))), None)); st["random"] += 1
    mo = V.run([model], inp="".join("I %s\n" % (z.hex() or "-") for _, z, _ in raw) + "".join("G %s\n" % (z.hex() or "-") for _, z, _ in gz), timeout=3000).stdout.split("\n")
    ri = V.run([idrv], inp="".join("%s\n" % (z.hex() or "-") for _, z, _ in raw), env=env, timeout=3000)
    outs = [("raw", raw, mo[:len(raw)], ri.stdout.split("\n"), "tinfl_decompress_mem_to_heap")]
    for mode in ("mem", "file"):
        rg = V.run([gdrv, mode], inp="".join("%s\n" % (z.hex() or "-") for _, z, _ in gz), env=env, timeout=3000)
        outs.append(("gzip-" + mode, gz, mo[len(raw):len(raw) + len(gz)], rg.stdout.split("\n"), "decrunch_gzip (%s stream)" % mode))
        if rg.returncode != 0: ck.violation({"engine": "inflate", "broken": "sanitizer report / crash in decrunch_gzip", "stderr": rg.stderr[-2000:]}, key="c08-gz-crash")
    if ri.returncode != 0: ck.violation({"engine": "inflate", "broken": "sanitizer report / crash in tinfl_decompress_mem_to_heap", "stderr": ri.stderr[-2000:]}, key="c08-inflate-crash")
    for level, cases, mres, cres, what in outs:
        for k, (tag, z, want) in enumerate(cases):
            if k >= len(cres) or not cres[k].startswith("RET"): break
            ck.count(); bad = None
            m = mres[k].split(); mv = None if m[0] == "FAIL" else (bytes.fromhex(m[1]) if m[1] != "-" else b"")
            w = cres[k].split(); ret = int(w[1])
            if want is not None and mv != want and not (want == b"" ): raise V.BuildError("the extracted decoder does not give back the payload of %s: the round-trip theorem would be false" % tag)
            if ret == 0 and mv is not None:
                st["both_accept"] += 1; st["bytes_compared"] += len(mv)
                exp = ("md5:" + hashlib.md5(mv).hexdigest()) if len(mv) > 65536 else (mv.hex() or "-")
                if w[4] != exp: bad = "%s unpacks %s bytes, the model %d, and they differ" % (what, w[3], len(mv))
            elif ret != 0 and mv is None: st["both_reject"] += 1
            elif ret != 0:
                # an empty output is reported as a failure by tinfl_decompress_mem_to_heap (it returns its NULL buffer): not a stream a module can be in
                if len(mv) > 0: bad = "%s refuses a stream that the format-level decoder accepts (%d bytes)" % (what, len(mv))
            else: st["only_C_accepts_invalid_stream"] += 1       # miniz is lenient on some invalid streams (e.g. literal/length symbols 286 / 287): no property speaks about those
            if bad:
                ck.violation({"engine": "inflate", "level": "raw" if level == "raw" else "gzip", "tag": tag, "z": z.hex() if len(z) < 200000 else None, "what": bad,
                              "broken": "correspondence: Model/Inflate.v vs miniz_tinfl.c / gunzip.c" + ("; the stream was written by an encoder for a known payload: C08 is violated on this input" if want is not None else "")},
                             key="c08:inflate:%s:%s" % (level, bad.split(",")[0][:40]))
            else:
                ck.nontrivial(("inflate", level, z))

# ---------------------------------------------------------------------------------------------------------------------------
# PowerPacker (PP20): the extracted model (Model/PP20.v) against decrunch_pp itself.

def pp_leg(ck, tier, rng, stats, rp):
    model = V.ocaml_build("pp20"); drv = V.build_driver("pp_drv", ["pp_drv.c"]); env = V.san_env()
    st = stats.setdefault("pp20", {"writer_files": 0, "corpus_files": 0, "mutants": 0, "random": 0, "model_rejects": 0, "bytes_compared": 0})
    cases = []
    if rp:
        cases = [(rp["tag"], bytes.fromhex(rp["z"]), None)]
    else:
        base = open(os.path.join(V.REPO, "test-dev", "data", "ode2ptk.mod"), "rb").read()
        pays = [("ode2ptk.mod", base), ("head", base[:3000]), ("one", b"a"), ("two", b"ab"), ("run", b"a" * 700), ("random", bytes(rng.randrange(256) for _ in range(2500))), ("period", b"abcabcabcabcxyz" * 40),
                ("runs", b"".join(bytes([rng.randrange(256)]) * rng.choice((1, 2, 3, 4, 5, 6, 12, 300)) for _ in range(80)))]
        files = [f for f in V.corpus_files() if 2000 < os.path.getsize(f) < 40000 and f.lower().endswith((".mod", ".xm", ".s3m", ".it"))]
        for f in sorted(rng.sample(files, min(len(files), 2 if tier == "quick" else 25))): pays.append((os.path.relpath(f, V.REPO), open(f, "rb").read()))
        req = []; meta = []
        for name, data in pays:
            for eff in (("9,9,9,9", "9,10,12,13") if tier == "quick" else ("9,9,9,9", "9,10,11,11", "9,10,12,12", "9,10,12,13", "15,15,15,15")):
                req.append("P %s %s" % (eff, data.hex())); meta.append(("writer:%s/%s" % (name, eff), data))
        out = V.run([model], inp="\n".join(req) + "\n", timeout=3000).stdout.split("\n")
        for (tag, data), l in zip(meta, out):
            w = l.split()
            if len(w) != 3 or w[0] != "PP" or w[1] != "1": raise V.BuildError("pp20 writer: unexpected output %r" % l[:80])
            cases.append((tag, bytes.fromhex(w[2]), data)); st["writer_files"] += 1
        for f in V.corpus_files():
            try:
                if open(f, "rb").read(4) == b"PP20" and os.path.getsize(f) < 400000: cases.append(("corpus:" + os.path.relpath(f, V.REPO), open(f, "rb").read(), None)); st["corpus_files"] += 1
            except OSError: pass
        for tag, z, _ in list(cases):
            for _ in range(4 if tier == "quick" else 16):
                b = bytearray(z); k = rng.random()
                if k < 0.55: b[rng.randrange(4, len(b))] ^= 1 << rng.randrange(8)
                elif k < 0.75: b[rng.randrange(4, len(b))] = rng.randrange(256)
                elif k < 0.9 and len(b) > 24: del b[-4 * rng.randrange(1, 3) - 4:-4]
                else: b[-rng.randrange(1, 5)] = rng.choice((0, 1, 31, 32, 33, 255, rng.randrange(256)))
                cases.append(("mutant:" + tag, bytes(b), None)); st["mutants"] += 1
        for k in range(60 if tier == "quick" else 1500):
            n = 4 * rng.randrange(1, 12)
            cases.append(("random:%d" % k, b"PP20" + bytes(rng.choice((9, 9, 10, 13, 15, 8, 16)) for _ in range(4)) + bytes(rng.randrange(256) for _ in range(n)) + bytes([0, rng.choice((0, 0, 1)), rng.randrange(256), rng.choice((0, 1, 7, 31, 32, 33))]), None)); st["random"] += 1
    mo = V.run([model], inp="".join("U %s\n" % z.hex() for _, z, _ in cases), timeout=3000).stdout.split("\n")
    for mode in ("mem", "file"):
        r = V.run([drv, mode], inp="".join("%s\n" % z.hex() for _, z, _ in cases), env=env, timeout=3000)
        co = r.stdout.split("\n")
        if r.returncode != 0:
            k = len([l for l in co if l.startswith("RET")]); ck.violation({"engine": "pp20", "tag": cases[min(k, len(cases) - 1)][0], "z": cases[min(k, len(cases) - 1)][1].hex(), "broken": "sanitizer report / crash in decrunch_pp (%s stream)" % mode, "stderr": r.stderr[-2000:]}, key="c08-pp-crash")
        for k, (tag, z, want) in enumerate(cases):
            if k >= len(co) or not co[k].startswith("RET"): break
            ck.count(); m = mo[k].split(); mv = None if m[0] == "FAIL" else (bytes.fromhex(m[1]) if m[1] != "-" else b"")
            if want is not None and mv != want: raise V.BuildError("the extracted pp_unpack (pp_pack_data data) differs from data for %s: theorem pp_roundtrip would be false" % tag)
            if mv is None and mode == "mem": st["model_rejects"] += 1
            w = co[k].split(); ret = int(w[1]); bad = None
            if ret != 0 and mv is not None: bad = "decrunch_pp (%s stream) returns -1, the model unpacks %d bytes" % (mode, len(mv))
            elif ret == 0 and mv is None: bad = "decrunch_pp (%s stream) unpacks %s bytes, the model refuses the file" % (mode, w[3])
            elif ret == 0:
                exp = ("md5:" + hashlib.md5(mv).hexdigest()) if len(mv) > 65536 else (mv.hex() or "-"); st["bytes_compared"] += len(mv)
                if w[4] != exp: bad = "decrunch_pp (%s stream) and the model unpack different bytes (%s vs %d)" % (mode, w[3], len(mv))
            if bad:
                ck.violation({"engine": "pp20", "tag": tag, "z": z.hex() if len(z) < 200000 else None, "what": bad,
                              "broken": "correspondence: Model/PP20.v (pp_unpack) vs src/depackers/ppdepack.c" + ("; the file was written by the proved writer for a known payload: C08 is violated on this input" if want is not None else "")}, key="c08:pp20:%s:%s" % (tag.split(":")[0], bad.split(",")[0][:40]))
            else: ck.nontrivial(("pp20", mode, z))

# ---------------------------------------------------------------------------------------------------------------------------
# ARC / Spark / ArcFS LZW methods: the extracted model (Model/ArcLzw.v) against arc_unpack itself.

def arc_members(b):
    """(method, original size, packed stream) of the members of a classic ARC / Spark archive"""
    pos = 0; res = []
    while pos + 29 <= len(b) and b[pos] == 0x1a and b[pos + 1] != 0:
        meth = b[pos + 1]; csize = struct.unpack_from("<I", b, pos + 15)[0]; osize = struct.unpack_from("<I", b, pos + 25)[0]
        start = pos + 29 + (12 if meth & 0x80 else 0)
        res.append((meth, osize, b[start:start + csize])); pos = start + csize
    return res

def arclzw_leg(ck, tier, rng, stats, rp):
    model = V.ocaml_build("arclzw"); drv = V.build_driver("arc_drv", ["arc_drv.c"]); env = V.san_env()
    st = stats.setdefault("arclzw", {"writer_streams": 0, "corpus_members": 0, "mutants": 0, "model_rejects": 0, "bytes_compared": 0})
    cases = []          # (tag, method, dest_len, stream, expected)
    if rp:
        cases = [(rp["tag"], rp["method"], rp["dest_len"], bytes.fromhex(rp["z"]), None)]
    else:
        base = open(os.path.join(V.REPO, "test-dev", "data", "ode2ptk.mod"), "rb").read()
        pays = [("ode2ptk.mod", base), ("head", base[:4000]), ("one", b"a"), ("two", b"ab"), ("run", b"a" * 3000), ("random", bytes(rng.randrange(256) for _ in range(6000))),
                ("period", b"abcabcabc" * 300), ("markers", b"\x90" * 50 + b"x" * 300 + b"\x90"), ("random-big", bytes(rng.randrange(256) for _ in range(40000)))]
        files = [f for f in V.corpus_files() if 2000 < os.path.getsize(f) < 60000 and f.lower().endswith((".mod", ".xm", ".s3m", ".it"))]
        for f in sorted(rng.sample(files, min(len(files), 2 if tier == "quick" else 25))): pays.append((os.path.relpath(f, V.REPO), open(f, "rb").read()))
        req = []; meta = []
        for name, data in pays:
            for (m, w) in ((8, 12), (9, 13), (127, 9), (127, 12), (127, 16)) + (() if tier == "quick" else ((127, 10), (127, 11), (127, 13), (127, 14), (127, 15))):
                req.append("P %d %d %s" % (m, w, data.hex())); meta.append(("writer:%s/m%d/w%d" % (name, m, w), m, data))
        out = V.run([model], inp="\n".join(req) + "\n", timeout=3000).stdout.split("\n")
        for (tag, m, data), l in zip(meta, out):
            w = l.split()
            if len(w) != 2 or w[0] != "A": raise V.BuildError("arc lzw writer: unexpected output %r" % l[:80])
            cases.append((tag, m, len(data), bytes.fromhex(w[1]), data)); st["writer_streams"] += 1
        dd = os.path.join(V.REPO, "test-dev", "data")
        for f in sorted(os.listdir(dd)):
            fp = os.path.join(dd, f)
            if os.path.isfile(fp) and os.path.getsize(fp) < 2000000 and open(fp, "rb").read(1) == b"\x1a":
                for meth, osize, z in arc_members(open(fp, "rb").read()):
                    if (meth & 0x7f) in (8, 9, 127) and osize < 3000000: cases.append(("corpus:%s" % f, meth & 0x7f, osize, z, None)); st["corpus_members"] += 1
        for tag, m, n, z, _ in list(cases):
            for _ in range(3 if tier == "quick" else 12):
                b = bytearray(z); k = rng.random()
                if len(b) < 3: continue
                if k < 0.6: b[rng.randrange(len(b))] ^= 1 << rng.randrange(8)
                elif k < 0.8: del b[rng.randrange(1, len(b)):]
                else: b += bytes(rng.randrange(256) for _ in range(3))
                cases.append(("mutant:" + tag, m, rng.choice((n, n, n, n + 1, max(0, n - 1))), bytes(b), None)); st["mutants"] += 1
    mo = V.run([model], inp="".join("U %d %d %s\n" % (m, n, z.hex() or "-") for _, m, n, z, _ in cases), timeout=3000).stdout.split("\n")
    r = V.run([drv], inp="".join("%d 0 %d %s\n" % (m, n, z.hex() or "-") for _, m, n, z, _ in cases), env=env, timeout=3000)
    co = r.stdout.split("\n")
    if r.returncode != 0:
        k = len([l for l in co if l.startswith("RET")]); ck.violation({"engine": "arclzw", "tag": cases[min(k, len(cases) - 1)][0], "broken": "sanitizer report / crash in arc_unpack", "stderr": r.stderr[-2000:]}, key="c08-arclzw-crash")
    for k, (tag, m, n, z, want) in enumerate(cases):
        if k >= len(co) or not co[k].startswith("RET"): break
        ck.count(); mm = mo[k].split(); mv = None if mm[0] == "FAIL" else (bytes.fromhex(mm[1]) if mm[1] != "-" else b"")
        if want is not None and mv != want: raise V.BuildError("the extracted arc_unpack (pack ...) differs from the payload for %s: the round-trip theorem would be false" % tag)
        if mv is None: st["model_rejects"] += 1
        w = co[k].split(); cv = None if w[1] != "0" else w[2]; bad = None
        if cv is None and mv is not None: bad = "arc_unpack fails, the model unpacks %d bytes" % len(mv)
        elif cv is not None and mv is None: bad = "arc_unpack succeeds, the model refuses the stream"
        elif cv is not None:
            st["bytes_compared"] += len(mv)
            if cv != (("md5:" + hashlib.md5(mv).hexdigest()) if len(mv) > 65536 else (mv.hex() or "-")): bad = "arc_unpack and the model unpack different bytes"
        if bad:
            ck.violation({"engine": "arclzw", "tag": tag, "method": m, "dest_len": n, "z": z.hex() if len(z) < 200000 else None, "what": bad,
                          "broken": "correspondence: Model/ArcLzw.v vs src/depackers/arc_unpack.c (method %d)" % m + ("; the stream was written by the model's writer for a known payload: C08 is violated on this input" if want is not None else "")}, key="c08:arclzw:%d:%s" % (m, bad.split(",")[0][:30]))
        else: ck.nontrivial(("arclzw", m, n, z))

def main():
    tier = sys.argv[1] if len(sys.argv) > 1 else "quick"
    replay = sys.argv[sys.argv.index("--replay") + 1] if "--replay" in sys.argv else None
    ck = V.Check("C08", tier)
    rng = ck.rng
    ck.proof_leg(["Extract/Extract_rle90.vo", "Extract/Extract_lzw.vo", "Extract/Extract_inflate.vo", "Extract/Extract_pp20.vo", "Extract/Extract_arclzw.vo"])
    drv = V.build_driver("c07_drv", ["c07_drv.c"])
    model = V.ocaml_build("rle90")
    env = V.san_env()
    def rle_enc_many(blobs):
        mo = V.run([model], inp="".join("E %s\n" % (b.hex() or "-") for b in blobs), timeout=3000).stdout.split("\n")
        return [bytes.fromhex(x) if x != "-" else b"" for x in mo[:len(blobs)]]
    tmpd = tempfile.mkdtemp(prefix="vp-c08-", dir="/var/tmp")
    stats = {"payloads": 0, "containers": 0, "by_kind": {}, "rle90_streams": 0, "rle90_ratio_min": 1.0}
    try:
        rp = json.load(open(replay)) if replay else None
        if rp and rp.get("engine") in ("lzw", "inflate", "pp20", "arclzw"):
            pay = []
        elif rp:
            pay = [(rp["payload_name"], bytes.fromhex(rp["payload_hex"]) if rp.get("payload_hex") else open(os.path.join(V.REPO, rp["payload_file"]), "rb").read())]
        else:
            files = [f for f in V.corpus_files() if 1000 < os.path.getsize(f) < 120000 and f.lower().endswith((".mod", ".xm", ".s3m", ".it", ".stm", ".mtm", ".669", ".far", ".okt", ".med", ".ptm"))]
            pay = [(os.path.relpath(f, V.REPO), open(f, "rb").read()) for f in sorted(rng.sample(files, min(len(files), 10 if tier == "quick" else 120)))]
            # loaders that consult the size of the data they were given (mod_load.c: Mod's Grave .WOW detection, trailing data, song-only files):
            # inside a container that size must be the payload's, not the container's
            wow = os.path.join(V.REPO, "test-dev", "data", "m", "crystals.mod")
            if os.path.exists(wow) and not any(n.endswith("crystals.mod") for n, _ in pay): pay.append((os.path.relpath(wow, V.REPO), open(wow, "rb").read()))
            # synthetic payloads that stress the run-length code: a valid module followed by marker bytes, runs of 254 / 255 / 256 / 509 / 1000, runs of the marker
            base = open(os.path.join(V.REPO, "test-dev", "data", "ode2ptk.mod"), "rb").read()
            tail = b"\x90" * 3 + b"A" * 254 + b"B" * 255 + b"\x90" + b"C" * 256 + b"\x90\x00" + b"D" * 509 + b"\x90" * 300 + b"E" * 1000 + bytes(range(256))
            pay.append(("synthetic:ode2ptk+runs", base + tail))
            # a twin of the first payload: same size, same first bytes, different last byte (loaded right after it: nothing may be remembered)
            n0, p0 = pay[0]
            pay.insert(1, ("synthetic:twin-of-" + n0, p0[:-1] + bytes([p0[-1] ^ 0x55])))
            # one payload large enough for several bzip2 blocks at every block size
            big = [f for f in V.corpus_files() if 220000 < os.path.getsize(f) < 900000 and f.lower().endswith((".xm", ".it", ".s3m", ".mod"))]
            if big:
                f = sorted(big)[0]; pay.append((os.path.relpath(f, V.REPO), open(f, "rb").read()))
        packed_all = rle_enc_many([p for _, p in pay])
        zmodel = V.ocaml_build("lzw")
        zreq = [(i, st) for i, (_, p) in enumerate(pay) if len(p) <= 130000 for st in Z_SETTINGS]
        zout = V.run([zmodel], inp="".join("C %d %d %s %s\n" % (st[0], st[1], st[2], pay[i][1].hex()) for i, st in zreq), timeout=3000).stdout.split("\n")
        z_all = {}
        for (i, st), l in zip(zreq, zout):
            w = l.split()
            if len(w) != 3 or w[0] != "Z" or w[1] != "1": raise V.BuildError("lzw writer: unexpected output %r" % l[:80])
            z_all.setdefault(i, []).append(bytes.fromhex(w[2]))
        gmodel = V.ocaml_build("inflate")
        greq = [(i, pl) for i, (_, p) in enumerate(pay) if len(p) <= 130000 for pl in GZ_PLANS]
        gout = V.run([gmodel], inp="".join("Z %s %s %s\n" % (pl[0], pl[1], pay[i][1].hex()) for i, pl in greq), timeout=3000).stdout.split("\n")
        g_all = {}
        for (i, pl), l in zip(greq, gout):
            w = l.split()
            if len(w) != 3 or w[0] != "GZ" or w[1] != "1": raise V.BuildError("gzip writer: unexpected output %r" % l[:80])
            g_all.setdefault(i, []).append(bytes.fromhex(w[2]))
        pmodel = V.ocaml_build("pp20")
        preq = [(i, e) for i, (_, p) in enumerate(pay) if len(p) <= 130000 for e in ("9,9,9,9", "9,10,12,13")]
        pout = V.run([pmodel], inp="".join("P %s %s\n" % (e, pay[i][1].hex()) for i, e in preq), timeout=3000).stdout.split("\n")
        p_all = {}
        for (i, e), l in zip(preq, pout):
            w = l.split()
            if len(w) != 3 or w[0] != "PP" or w[1] != "1": raise V.BuildError("pp20 writer: unexpected output %r" % l[:80])
            p_all.setdefault(i, []).append(bytes.fromhex(w[2]))
        amodel = V.ocaml_build("arclzw")
        areq = [(i, m) for i, (_, p) in enumerate(pay) if len(p) <= 130000 for m in (8, 9)]
        aout = V.run([amodel], inp="".join("P %d 0 %s\n" % (m, pay[i][1].hex()) for i, m in areq), timeout=3000).stdout.split("\n")
        a_all = {}
        for (i, m), l in zip(areq, aout):
            w = l.split()
            if len(w) != 2 or w[0] != "A": raise V.BuildError("arc lzw writer: unexpected output %r" % l[:80])
            a_all.setdefault(i, []).append((m, bytes.fromhex(w[1])))
        jobs = []       # (payload index, tag, path)
        for i, (name, payload) in enumerate(pay):
            stats["payloads"] += 1
            bare = os.path.join(tmpd, "p%03d.bin" % i); open(bare, "wb").write(payload); jobs.append((i, "bare", bare))
            stats["rle90_streams"] += 1; stats["rle90_ratio_min"] = min(stats["rle90_ratio_min"], round(len(packed_all[i]) / max(1, len(payload)), 3))
            for tag, blob in containers(rng, payload, lambda p, i=i: packed_all[i], tier, z_all.get(i, ()), g_all.get(i, ()), p_all.get(i, ()), a_all.get(i, ())):
                p = os.path.join(tmpd, "c%03d-%s" % (i, tag)); open(p, "wb").write(blob); jobs.append((i, tag, p))
        inp = "".join("LP %s\nTP %s\nTF %s\n" % (p, p, p) for _, _, p in jobs)
        r = V.run([drv, "load"], inp=inp, env=env, timeout=6000)
        blocks, cur = [], None
        for l in r.stdout.split("\n"):
            if l.startswith("RET "): cur = [l]; blocks.append(cur)
            elif cur is not None and l: cur.append(l)
        ref = {}
        for k, (i, tag, p) in enumerate(jobs):
            bs = blocks[3 * k: 3 * k + 3]
            if len(bs) < 3: break
            load = "\n".join(x for x in bs[0]); tp = bs[1][0].rsplit(" fileok", 1)[0]; tf = bs[2][0].rsplit(" fileok", 1)[0]
            md5 = next((x.split()[1] for x in bs[0] if x.startswith("MD5 ")), None)
            if tag == "bare":
                ref[i] = (load, tp, tf, md5); continue
            ck.count(); stats["containers"] += 1; kind = tag.split("-")[0]; stats["by_kind"][kind] = stats["by_kind"].get(kind, 0) + 1
            name, payload = pay[i]
            rep = {"payload_name": name, "container": tag, "payload_file": name if not name.startswith("synthetic") else None, "payload_hex": payload.hex() if name.startswith("synthetic") and len(payload) < 300000 else None}
            want_md5 = hashlib.md5(payload).hexdigest()
            rl, rtp, rtf, rmd5 = ref[i]
            bad = None
            if not rl.startswith("RET 0"): continue                   # the bare payload itself does not load: nothing to compare
            if not load.startswith("RET 0"): bad = "the wrapped module does not load by path (%s) while the bare payload does" % load.split("\n")[0]
            elif md5 != want_md5: bad = "reported MD5 %s, MD5 of the payload bytes %s" % (md5, want_md5)
            elif rmd5 != want_md5: bad = "the bare payload's reported MD5 %s is not the MD5 of its bytes %s" % (rmd5, want_md5)
            elif load != rl: 
                d = next((a + " / " + b for a, b in zip(load.split("\n"), rl.split("\n")) if a != b), "length")
                bad = "the module or its audio differs from the bare payload's: %s" % d[:160]
            elif tp != rtp: bad = "test by path: %s, testing the payload: %s" % (tp, rtp)
            elif tf != rtf: bad = "test from FILE: %s, testing the payload: %s" % (tf, rtf)
            if bad:
                ck.violation(dict(rep, what=bad, broken="C08 transparency on the implementation (for arc-rle90 / arcfs-rle90: the stream written by the proved RLE90 writer)"), key="c08:%s:%s" % (tag, bad.split()[0]))
            else:
                ck.nontrivial((name, tag))
        if r.returncode != 0:
            k = len(blocks) // 3; j = jobs[min(k, len(jobs) - 1)]
            ck.violation({"payload_name": pay[j[0]][0], "container": j[1], "broken": "sanitizer report / crash while unpacking", "stderr": r.stderr[-2000:]}, key="c08-crash")
        if not rp or rp.get("engine") == "arclzw":
            arclzw_leg(ck, tier, rng, stats, rp if rp and rp.get("engine") == "arclzw" else None)
        if not rp or rp.get("engine") == "pp20":
            pp_leg(ck, tier, rng, stats, rp if rp and rp.get("engine") == "pp20" else None)
        if not rp or rp.get("engine") == "inflate":
            inflate_leg(ck, tier, rng, stats, rp if rp and rp.get("engine") == "inflate" else None)
        if not rp or rp.get("engine") == "lzw":
            lzw_leg(ck, tier, rng, stats, rp if rp and rp.get("engine") == "lzw" else None)
    finally:
        shutil.rmtree(tmpd, ignore_errors=True)
    ck.engine_stat("rle90", **stats)
    ck.cov["rule"] = ("payloads: corpus modules of 11 formats and a synthetic module followed by marker bytes and runs of 254/255/256/509/1000 bytes; each wrapped as gzip (levels, FNAME/FCOMMENT/FEXTRA/FHCRC header options), bzip2 (block sizes), "
                      "xz (check none/crc32/crc64/sha256, presets, tiny dictionary with lc/lp/pb, delta filter), zip (stored, deflate levels, non-module members before and after with excluded names, also inside subdirectories), hand-written LHA level-0 stored members with varying header checksums, ARC and ArcFS stored and RLE90 "
                      "(the RLE90 stream comes from the extracted, proved writer): loaded by path, the module dump and 40 frames of audio must equal the bare payload's, the reported MD5 must be the MD5 of the payload bytes, "
                      "and testing by path / from a FILE must report the payload's title and format")
    ck.assumptions += ["only RLE90 has a proved writer; gzip / bzip2 / xz / zip streams come from Python's zlib, bz2, lzma and zipfile as independent encoders; compress (.Z), LHA, LZX, PowerPacker, SQSH, MMCMP and S404 have no independent encoder in this sandbox and are not covered by this check (C09 sweeps the repository's own archives of some of them for corruption only)"]
    ck.finish()

V.main_wrap(main)
