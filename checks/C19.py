# C19 — core-format loaders reproduce what an independent writer encoded.
import os, sys, json, math, tempfile, shutil
import vcommon as V
sys.path.insert(0, os.path.join(V.VERIF, "gen"))
import modgen, itdecomp, hashlib

PT = modgen.PERIODS[12:48]      # the 36 Protracker periods C-1 .. B-3

def lib_note(period):
    """libxmp's note number of an Amiga period: round(12*log2(13696/p)) + 1 (src/period.c)"""
    return int(math.floor(12.0 * math.log(13696.0 / period) / math.log(2.0) + 0.5)) + 1

def pname(rng, n):
    k = rng.randrange(0, n + 1)
    s = bytes(rng.choice(b"abcdefghijklmnopqrstuvwxyzABCDEFGHIJKLMNOPQRSTUVWXYZ0123456789-_+!") for _ in range(k))
    return s.ljust(n, b"\0")

def gen_mod_song(rng):
    npat = rng.choice((1, 1, 2, 3, 5))
    ln = rng.choice((1, 2, 5, 17, 128))
    used = [rng.randrange(npat) for _ in range(ln)]
    if npat - 1 not in used: used[rng.randrange(ln)] = npat - 1
    orders = used + [rng.choice(used) if rng.random() < 0.3 else 0 for _ in range(128 - ln)]
    npat = max(orders) + 1
    ins = []; smps = []
    for i in range(31):
        if rng.random() < 0.35:
            w = rng.choice((1, 2, 3, 8, 33, 200))
            data = bytes(rng.randrange(256) for _ in range(2 * w))
            if rng.random() < 0.5 and w >= 2:
                lps = rng.randrange(0, w - 1); lpl = rng.randrange(2, w - lps + 1)
            else:
                lps, lpl = 0, 1
            ins.append((pname(rng, 22), w, rng.randrange(16), rng.randrange(65), lps, lpl)); smps.append(data)
        else:
            ins.append((bytes(22), 0, 0, 0, 0, 1)); smps.append(b"")
    pats = []
    for _ in range(npat):
        cells = []
        for _ in range(256):
            if rng.random() < 0.25:
                per = rng.choice(PT) if rng.random() < 0.8 else 0
                i = rng.randrange(0, 32)
                fx = rng.choice(((0, 0), (0xC, rng.randrange(65)), (0xF, rng.randrange(1, 256)), (0xB, rng.randrange(128)), (0xD, rng.choice((0, 0x10, 0x32, 0x63))), (0x9, rng.randrange(1, 256)),
                                 (0x1, rng.randrange(1, 256)), (0x2, rng.randrange(1, 256)), (0xA, rng.randrange(1, 256)), (0x3, rng.randrange(1, 256)), (0x4, rng.randrange(1, 256)), (0xE, 0x10 | rng.randrange(1, 16))))
                cells.append((per, i, fx[0], fx[1]))
            else:
                cells.append((0, 0, 0, 0))
        pats.append(cells)
    return dict(title=pname(rng, 20), ins=ins, len=ln, rst=0x7f, orders=orders, pats=pats, smps=smps)

def song_lines(s):
    out = ["SONG", "T " + s["title"].hex()]
    for (nm, w, f, v, ls, ll) in s["ins"]: out.append("I %s %d %d %d %d %d" % (nm.hex(), w, f, v, ls, ll))
    out.append("L %d %d" % (s["len"], s["rst"])); out.append("O " + " ".join(map(str, s["orders"])))
    for p in s["pats"]: out.append("P " + " ".join("%d,%d,%d,%d" % c for c in p))
    for d in s["smps"]: out.append("S " + (d.hex() or "-"))
    out.append("END")
    return "\n".join(out)

def parse_load(block):
    d = {"ev": {}, "patr": {}, "ins": {}, "sub": {}, "smp": {}}
    for l in block.split("\n"):
        w = l.split()
        if not w: continue
        if w[0] == "M": d["m"] = [int(x) for x in w[1:]]
        elif w[0] == "NAME": d["name"] = bytes.fromhex(w[1]) if w[1] != "-" else b""
        elif w[0] == "TYPE": d["type"] = bytes.fromhex(w[1]) if w[1] != "-" else b""
        elif w[0] == "XXO": d["xxo"] = [int(x) for x in w[1:]]
        elif w[0] == "PATR": d["patr"][int(w[1])] = int(w[2])
        elif w[0] == "EV": d["ev"][(int(w[1]), int(w[2]), int(w[3]))] = tuple(int(x) for x in w[4:11])
        elif w[0] == "INS": d["ins"][int(w[1])] = (int(w[2]), int(w[3]), bytes.fromhex(w[4]) if w[4] != "-" else b"")
        elif w[0] == "SUB": d["sub"][(int(w[1]), int(w[2]))] = tuple(int(x) for x in w[3:8])
        elif w[0] == "SMP": d["smp"][int(w[1])] = (int(w[2]), int(w[3]), int(w[4]), int(w[5]), bytes.fromhex(w[6]) if w[6] != "-" else b"", (bytes.fromhex(w[7]) if not w[7].startswith("md5:") else w[7]) if len(w) > 7 and w[7] != "-" else b"")
        elif w[0] == "LOADFAIL": d["fail"] = int(w[1])
    return d

def strip(b): return b.split(b"\0")[0].rstrip(b" ")

def check_mod(s, d):
    """the abstract M.K. song vs what libxmp loaded; returns a description of the first difference"""
    if "fail" in d: return "load failed (%d)" % d["fail"]
    m = d["m"]; npat = max(s["orders"]) + 1
    if m[0] != 4: return "channels %d" % m[0]
    if m[1] != s["len"]: return "length %d vs %d" % (m[1], s["len"])
    if m[2] != npat: return "patterns %d vs %d" % (m[2], npat)
    if d["xxo"] != s["orders"][:s["len"]]: return "order list %s vs %s" % (d["xxo"][:8], s["orders"][:8])
    if d["name"] != strip(s["title"]): return "title %r vs %r" % (d["name"], strip(s["title"]))
    if m[5] != 6 or m[6] != 125: return "initial speed/tempo %d/%d" % (m[5], m[6])
    for p in range(npat):
        if d["patr"].get(p) != 64: return "pattern %d has %s rows" % (p, d["patr"].get(p))
        for k, (per, ins, fxt, fxp) in enumerate(s["pats"][p]):
            r, c = divmod(k, 4)
            want_note = lib_note(per) if per else 0
            got = d["ev"].get((p, r, c), (0, 0, 0, 0, 0, 0, 0))
            if got[0] != want_note or got[1] != ins: return "pattern %d row %d channel %d: note/instrument %d/%d, written period %d (note %d) instrument %d" % (p, r, c, got[0], got[1], per, want_note, ins)
            if (got[3], got[4]) != (fxt, fxp) or got[2] != 0 or got[5] != 0 or got[6] != 0:
                return "pattern %d row %d channel %d: effect %x %02x (volume column %d, second effect %x %02x), written %x %02x" % (p, r, c, got[3], got[4], got[2], got[5], got[6], fxt, fxp)
    for i, (nm, w, fine, vol, lps, lpl) in enumerate(s["ins"]):
        sm = d["smp"].get(i)
        if sm is None: return "sample %d missing" % i
        want_flg = 2 if lpl > 1 else 0
        if sm[0] != 2 * w: return "sample %d length %d vs %d" % (i, sm[0], 2 * w)
        if w and (sm[1], sm[2], sm[3] & 2) != (2 * lps, 2 * lps + 2 * lpl, want_flg) and lpl > 1: return "sample %d loop %d..%d flags %d, written %d..%d" % (i, sm[1], sm[2], sm[3], 2 * lps, 2 * (lps + lpl))
        if w and lpl <= 1 and sm[3] & 2: return "sample %d is looped, written without a loop" % i
        if w and sm[5] != s["smps"][i]: return "sample %d PCM differs" % i
        if d["ins"][i][2] != strip(nm): return "instrument %d name %r vs %r" % (i, d["ins"][i][2], strip(nm))
        if w:
            sub = d["sub"].get((i, 0))
            if sub is None: return "instrument %d has no sub-instrument" % i
            wfin = (fine if fine < 8 else fine - 16) * 16
            if sub[0] != vol or sub[3] != wfin or sub[4] != i: return "instrument %d volume/finetune/sample %d/%d/%d, written %d/%d/%d" % (i, sub[0], sub[3], sub[4], vol, wfin, i)
    return None

def check_other(fmt, s, d):
    if "fail" in d: return "load failed (%d)" % d["fail"]
    m = d["m"]
    if m[0] != s.get("chn_expected", s["chn"]) and s.get("chn_expected", 1) is not None: return "channels %d vs %d" % (m[0], s.get("chn_expected", s["chn"]))
    orders = s["orders"]
    if d["xxo"][:len(orders)] != orders: return "order list %s vs %s" % (d["xxo"][:8], orders[:8])
    if fmt != "mod" and (m[5], m[6]) != (s.get("speed", 6), s.get("bpm", 125)): return "initial speed/tempo %d/%d vs %d/%d" % (m[5], m[6], s.get("speed", 6), s.get("bpm", 125))
    if d["name"] != s.get("name", "gen").encode(): return "title %r" % d["name"]
    for p, pat in enumerate(s["patterns"]):
        if d["patr"].get(p) != len(pat): return "pattern %d rows %s vs %d" % (p, d["patr"].get(p), len(pat))
        for r, row in enumerate(pat):
            for c, cell in enumerate(row):
                note = cell.get("note", 0) if cell else 0; ins = cell.get("ins", 0) if cell else 0
                got = d["ev"].get((p, r, c), (0,) * 7)
                want = note + 12 if note else 0
                if fmt == "xm" and note == 97:
                    # XM key-off: XMP_KEY_OFF (0x81), or XMP_KEY_FADE (0x83) when the cell also carries an instrument number
                    want = 0x83 if ins else 0x81
                if got[0] != want or got[1] != ins:
                    return "pattern %d row %d channel %d: note/instrument %d/%d, written %d/%d" % (p, r, c, got[0], got[1], want, ins)
    if s.get("s3m_samples"):
        import struct
        for k, w in enumerate(s["s3m_samples"]):
            sm = d["smp"].get(k)
            if sm is None: return "sample %d missing" % k
            vals = [v for pair in zip(w["left"], w["right"]) for v in pair] if w.get("stereo") else list(w["left"])
            pcm = struct.pack("<%dh" % len(vals), *vals) if w["bits"] == 16 else bytes(v & 0xff for v in vals)
            wantflg = (1 if w["bits"] == 16 else 0) | (2 if w.get("loop") else 0) | (128 if w.get("stereo") else 0)
            if sm[0] != w["frames"]: return "sample %d length %d vs %d" % (k, sm[0], w["frames"])
            if sm[3] & (1 | 2 | 128) != wantflg: return "sample %d flags %d vs %d" % (k, sm[3], wantflg)
            if w.get("loop") and (sm[1], sm[2]) != tuple(w["loop"]): return "sample %d loop %d..%d vs %s" % (k, sm[1], sm[2], w["loop"])
            if w["frames"] <= 4096 and sm[5] != pcm: return "sample %d PCM differs (%d-bit%s, %d frames%s)" % (k, w["bits"], " stereo" if w.get("stereo") else "", w["frames"], ", stored beyond 1 MiB" if w.get("far") else "")
            if d["ins"].get(k, (0, 0, b"?"))[2] != w.get("name", "smp").encode(): return "instrument %d name %r" % (k, d["ins"].get(k))
            sub = d["sub"].get((k, 0))
            if sub is None or sub[0] != w.get("vol", 64) or sub[4] != k: return "instrument %d volume / sample mapping %s" % (k, sub)
        return None
    sm = d["smp"].get(0)
    if sm is None or sm[0] != len(modgen.SAMPLE) or sm[5] != modgen.SAMPLE: return "sample 0: length %s or PCM differs from the written square wave" % (sm[0] if sm else None)
    if (sm[1], sm[2]) != (0, len(modgen.SAMPLE)) or not sm[3] & 2: return "sample 0 loop %d..%d flags %d" % (sm[1], sm[2], sm[3])
    return None

# ---------------------------------------------------------------------------------------------------------------------------
# (d) packed pattern data of XM / S3M / IT: the extracted decoders of Model/PatCodecs.v (transcribed from load_xm_pattern, the S3M
#     pattern loop and load_it_pattern with their effect / volume-column translations) against what libxmp loaded, all seven event
#     fields of every cell, on (1) streams written by the extracted writers from random cells (the proved round trip's domain),
#     (2) mutated writer output, (3) random bytes.

def _rb(rng, classes):
    c = rng.choice(classes)
    return rng.randrange(c[0], c[1] + 1)

NOTE_XM = ((0, 0), (1, 96), (1, 96), (97, 97), (98, 127), (128, 255))
VOL_XM = ((0, 0), (1, 15), (16, 80), (16, 80), (81, 95), (96, 255), (240, 255))
FXT_XM = ((0, 0), (1, 17), (1, 17), (14, 14), (3, 5), (9, 9), (18, 36), (33, 33), (37, 255))
FXP_ANY = ((0, 0), (1, 255), (0x50, 0x5f), (0x90, 0x9f), (0xd0, 0xdf), (0x43, 0x43), (0x73, 0x73))

def gen_xm_case(rng):
    chn = rng.choice((1, 2, 4, 5, 8, 32)); rows = rng.choice((1, 2, 7, 16, 64)) if chn < 32 else rng.choice((1, 4, 16))
    toks = []
    for _ in range(rows * chn):
        if rng.random() < 0.5: toks.append("-2:0,0,0,0,0" if rng.random() < 0.8 else "%d:0,0,0,0,0" % rng.choice((0, 31, 5, 24))); continue
        n, i, v, t, p = _rb(rng, NOTE_XM), rng.choice((0, 1, 1, 2, 128, 255)), _rb(rng, VOL_XM), _rb(rng, FXT_XM), _rb(rng, FXP_ANY)
        if rng.random() < 0.3: n = 0
        if rng.random() < 0.3: v = 0
        if rng.random() < 0.3: t = p = 0
        need = (1 if n else 0) | (2 if i else 0) | (4 if v else 0) | (8 if t else 0) | (16 if p else 0)
        k = rng.random()
        mode = -1 if (k < 0.25 and n < 128) else -2 if k < 0.6 else (need | rng.randrange(32))
        toks.append("%d:%d,%d,%d,%d,%d" % (mode, n, i, v, t, p))
    return chn, rows, "XME " + " ".join(toks)

def mutate_blob(rng, blob, allow_len=True):
    b = bytearray(blob); k = rng.random()
    if not b: return bytes(rng.randrange(256) for _ in range(rng.randrange(1, 9)))
    if k < 0.45:
        for _ in range(rng.choice((1, 1, 2, 4))): b[rng.randrange(len(b))] = rng.choice((0, 0x80, 0xff, 0x7f, rng.randrange(256)))
    elif k < 0.7 and allow_len: del b[rng.randrange(len(b)):]
    elif k < 0.85 and allow_len: b += bytes(rng.randrange(256) for _ in range(rng.randrange(1, 6)))
    else:
        i = rng.randrange(len(b)); b[i:i] = bytes([rng.randrange(256)])
    return bytes(b)

def gen_s3m_rows(rng, chn):
    rows = []
    for r in range(64):
        ents = []
        for c in range(32):
            if rng.random() < (0.25 if c < chn else 0.02):
                hni, hv, hf = rng.random() < 0.6, rng.random() < 0.4, rng.random() < 0.5
                if not (hni or hv or hf): hni = True
                n = rng.choice((255, 254, rng.randrange(256), (rng.randrange(8) << 4) | rng.randrange(12)))
                ents.append((c, hni, n, rng.choice((0, 1, 2, 99, 255)), hv, rng.choice((0, 32, 64, 65, 254, 255)), hf, _rb(rng, ((0, 0), (1, 26), (19, 19), (19, 19), (20, 20), (24, 24), (27, 255))), _rb(rng, FXP_ANY + ((0xa4, 0xa4), (0x10, 0x2f), (0x80, 0xcf)))))
        if rng.random() < 0.1 and ents: ents.append(ents[0][:1] + (False, 0, 0, True, rng.randrange(256), False, 0, 0))      # the same channel twice in a row
        rows.append(ents)
    return rows

def gen_it_rows(rng, rows, maxc):
    out = []
    for r in range(rows):
        ents = []
        for c in sorted(rng.sample(range(64), rng.choice((0, 0, 1, 2, 4)))):
            if c > maxc and rng.random() < 0.9: continue
            hn, hi, hv, hf = (rng.random() < 0.5 for _ in range(4))
            n = rng.choice((rng.randrange(120), rng.randrange(120), 255, 254, 120, 200, 253))
            v = _rb(rng, ((0, 64), (65, 124), (125, 127), (128, 192), (193, 212), (213, 255)))
            t = _rb(rng, ((0, 0), (1, 26), (19, 19), (19, 19), (9, 9), (22, 22), (27, 31)))
            ents.append((c, hn, n, hi, rng.choice((0, 1, 2, 99, 255)), hv, v, hf, t, _rb(rng, FXP_ANY + ((0x81, 0x81), (0x10, 0xff)))))
        if ents and rng.random() < 0.1: e = ents[0]; ents.append((e[0], False, 0, False, 0, True, rng.randrange(256), rng.random() < 0.5, 19, 0))
        out.append(ents)
    return out

def it_smart_blob(rng, rows, maxc):
    """an IT pattern the way real trackers pack it: the mask byte is omitted when it repeats, and a field equal to the channel's
    previous value is replaced by its 'same as last' bit (untrusted generator: the model decodes whatever it produces)"""
    out = bytearray(); lastmask = {}; last = {}
    notes = [rng.randrange(120) for _ in range(3)] + [255, 254, 130]; inss = [0, 1, 2, 99]; vols = [rng.randrange(256) for _ in range(3)] + [64, 65, 67, 128, 192, 200, 213]
    fxs = [(rng.randrange(1, 32), rng.randrange(256)) for _ in range(3)] + [(19, 0), (19, 0x61), (19, 0xd0), (9, 0x23), (22, 0x81), (33, 1)]
    for r in range(rows):
        for c in sorted(rng.sample(range(maxc + 1), min(maxc + 1, rng.choice((0, 1, 1, 2, 3))))):
            mask = 0; body = bytearray(); l = last.setdefault(c, {})
            for k, (bitl, pool) in enumerate(((1, notes), (2, inss), (4, vols), (8, fxs))):
                if rng.random() < 0.55:
                    v = rng.choice(pool)
                    if l.get(k) == v and rng.random() < 0.75: mask |= bitl << 4
                    elif k in l and rng.random() < 0.08: mask |= bitl << 4          # reuse whatever the last value was
                    else:
                        mask |= bitl; l[k] = v; body += bytes(v) if k == 3 else bytes([v])
            if rng.random() < 0.03: mask |= rng.choice((0x10, 0x20, 0x40, 0x80))    # 'same as last' before any value was stored
            if mask == 0: continue
            if lastmask.get(c) == mask and rng.random() < 0.8: out.append(c + 1)
            else: out += bytes([(c + 1) | 0x80, mask]); lastmask[c] = mask
            out += body
        out.append(0)
    return bytes(out)

def parse_events(tokens):
    d = {}
    for t in tokens:
        k, f = t.split(":"); d[int(k)] = tuple(int(x) for x in f.split(","))
    return d

def patcodec_leg(ck, tier, rng, drv, tmpd, env, stats, rp):
    model = V.ocaml_build("patcodecs")
    n = {"quick": 90, "thorough": 2500}[tier]
    cases = []          # (fmt, chn, rows, blob, kind, extra)
    if rp:
        c = rp["case"]; cases = [(c["fmt"], c["chn"], c["rows"], bytes.fromhex(c["blob"]), c["kind"], c.get("extra", {}))]
    else:
        # -- encoder inputs first (one model call), then mutants and random blobs
        enc_req = []; meta = []
        for k in range(n):
            chn, rows, line = gen_xm_case(rng); enc_req.append(line); meta.append(("xm", chn, rows, {}))
        for k in range(n):
            chn = rng.choice((1, 2, 4, 8))
            rows_e = gen_s3m_rows(rng, chn)
            enc_req.append("S3E %d " % chn + " | ".join(" ".join("%d,%d,%d,%d,%d,%d,%d,%d,%d" % tuple(int(x) for x in e) for e in row) for row in rows_e)); meta.append(("s3m", chn, 64, {}))
        for k in range(n):
            rows = rng.choice((1, 5, 32, 64, 200)); nf = rng.random() < 0.7
            rows_e = gen_it_rows(rng, rows, rng.choice((0, 3, 7, 31, 63)))
            enc_req.append("ITE %d " % nf + " | ".join(" ".join("%d,%d,%d,%d,%d,%d,%d,%d,%d,%d" % tuple(int(x) for x in e) for e in row) for row in rows_e)); meta.append(("it", None, rows, {"newfx": nf}))
        out = V.run([model], inp="\n".join(enc_req) + "\n", timeout=3000).stdout.split("\n")
        for (fmt, chn, rows, extra), line in zip(meta, out):
            w = line.split()
            if len(w) < 3 or w[0] != "ENC": raise V.BuildError("pattern writer: unexpected model output %r" % line[:200])
            if w[1] != "1": raise V.BuildError("the generator produced cells outside the writer's domain (okb = 0)")
            blob = bytes.fromhex(w[2]) if w[2] != "REF" else b""
            ex = dict(extra)
            if "REF" in w: ex["ref"] = w[w.index("REF") + 1:]
            cases.append((fmt, chn, rows, blob, "writer", ex))
            r = rng.random()
            if r < 0.6:
                ex2 = {k: v for k, v in extra.items()}
                cases.append((fmt, chn, rows, mutate_blob(rng, blob), "mutant", ex2))
        for k in range(n):
            rows = rng.choice((2, 8, 64, 200)); blob = it_smart_blob(rng, rows, rng.choice((0, 1, 3, 15, 63)))
            cases.append(("it", None, rows, blob, "packed", {"newfx": rng.random() < 0.7}))
            if rng.random() < 0.3: cases.append(("it", None, rows, mutate_blob(rng, blob), "mutant", {"newfx": rng.random() < 0.7}))
        for k in range(n // 2):
            fmt = ("xm", "s3m", "it")[k % 3]
            ln = rng.choice((0, 1, 2, 3, 9, 40, 300, 2000))
            pool = rng.choice((None, (0, 0x80, 0x81, 0x83, 0x9f, 0xff, 1, 0x20, 0x40), tuple(range(0, 16))))
            blob = bytes((rng.choice(pool) if pool and rng.random() < 0.7 else rng.randrange(256)) for _ in range(ln))
            chn = rng.choice((1, 4, 8)); rows = rng.choice((1, 4, 64))
            cases.append((fmt, chn, 64 if fmt == "s3m" else rows, blob, "random", {"newfx": rng.random() < 0.5} if fmt == "it" else {}))
    # -- the model's decoding of every blob
    req = []
    for (fmt, chn, rows, blob, kind, ex) in cases:
        hx = blob.hex() or "-"
        if fmt == "xm": req.append("XMD %d %d %s" % (rows, chn, hx))
        elif fmt == "s3m": req.append("S3D %d %d %s" % (chn, len(blob) + 2 - 2 if "declared" not in ex else ex["declared"] - 2, hx))
        else: req.append("ITD %d %d %s" % (1 if ex.get("newfx") else 0, rows, hx))
    mout = V.run([model], inp="\n".join(req) + "\n", timeout=3000).stdout.split("\n")
    # -- the files and libxmp's loads
    paths = []
    for k, (fmt, chn, rows, blob, kind, ex) in enumerate(cases):
        song = dict(chn=chn or 4, orders=[0], name="gen", patterns=[])
        if fmt == "xm": song["raw_patterns"] = [(rows, len(blob), blob)]
        elif fmt == "s3m": song["raw_pattern"] = (ex.get("declared", (len(blob) + 2) & 0xffff), blob)
        else: song["raw_patterns"] = [(rows, blob)]; song["it_old_fx"] = not ex.get("newfx"); song["chn"] = 64
        pth = os.path.join(tmpd, "p%05d.%s" % (k, fmt)); open(pth, "wb").write(modgen.WRITERS[fmt](song)); paths.append(pth)
    r = V.run([drv], inp="\n".join(paths) + "\n", env=env, timeout=3000)
    blocks = []; cur = []
    for l in r.stdout.split("\n"):
        cur.append(l)
        if l == "ENDLOAD" or l.startswith("LOADFAIL"): blocks.append("\n".join(cur)); cur = []
    st = stats.setdefault("patcodecs", {})
    for k, (fmt, chn, rows, blob, kind, ex) in enumerate(cases):
        if k >= len(blocks): break
        ck.count(); key = "%s_%s" % (fmt, kind); st[key] = st.get(key, 0) + 1
        d = parse_load(blocks[k]); mo = mout[k].split()
        bad = None
        if not mo or mo[0] == "?": raise V.BuildError("pattern model: no answer for case %d" % k)
        if mo[0] == "FAIL":
            st["model_rejects"] = st.get("model_rejects", 0) + 1
            if "fail" not in d: bad = "the model's decoder rejects the pattern data (the loader's error path) but libxmp loaded the module"
        elif "fail" in d:
            bad = "libxmp failed the load (%d) but the model's decoder accepts the pattern data" % d["fail"]
        else:
            if fmt == "xm": width = chn; evs = parse_events(mo[1:])
            elif fmt == "s3m": width = chn; evs = parse_events(mo[2:])
            else: width = int(mo[1]) + 1; evs = parse_events(mo[2:])
            m = d["m"]
            if m[0] != width: bad = "channels %d, model %d" % (m[0], width)
            elif d["patr"].get(0) != rows: bad = "pattern rows %s, written %d" % (d["patr"].get(0), rows)
            else:
                got = {(rr * width + c): e for (p_, rr, c), e in d["ev"].items() if p_ == 0}
                if got != evs:
                    ks = sorted(set(got) | set(evs)); kk = [x for x in ks if got.get(x) != evs.get(x)][0]
                    bad = "row %d channel %d: libxmp event %s, model %s (note ins vol fxt fxp f2t f2p)" % (kk // width, kk % width, got.get(kk, (0,) * 7), evs.get(kk, (0,) * 7))
                st["events_compared"] = st.get("events_compared", 0) + len(evs)
            if not bad and kind == "writer" and "ref" in ex and fmt in ("s3m", "it"):
                # the meaning of the written entries (the round-trip theorem's right-hand side) evaluated by the extracted code
                ref = parse_events(ex["ref"])
                if fmt == "it": ref = {(x // 64) * width + (x % 64): e for x, e in ref.items() if x % 64 < width}
                if ref != evs: raise V.BuildError("extracted decode(encode rows) differs from the reference meaning of the rows (%s case %d): the round-trip theorem's statement would be false" % (fmt, k))
        if bad:
            ck.violation({"engine": "patcodecs", "case": {"fmt": fmt, "chn": chn, "rows": rows, "blob": blob.hex(), "kind": kind, "extra": {kk: vv for kk, vv in ex.items() if kk != "ref"}}, "what": bad,
                          "broken": "correspondence: Model/PatCodecs.v (%s pattern decoding) vs the loaded module" % fmt}, key="c19:pat:%s:%s" % (fmt, bad.split(":")[0][:40]))
        else:
            ck.nontrivial(("pat", fmt, blob))
    if r.returncode != 0:
        ck.violation({"engine": "patcodecs", "broken": "sanitizer report / crash while loading a file with generated pattern data", "stderr": r.stderr[-2000:]}, key="c19-pat-crash")

# ---------------------------------------------------------------------------------------------------------------------------
# (e) IT 2.14 / 2.15 compressed samples: Model/ItSex.v (transcribed from itsex.c) against itsex_decompress8 / 16 called directly
#     (writer output, mutants, random streams), and whole IT files whose sample was packed by the extracted, proved writer.

def itsex_leg(ck, tier, rng, drv, tmpd, env, stats, rp):
    model = V.ocaml_build("itsex")
    idrv = V.build_driver("itsex_drv", ["itsex_drv.c"])
    st = stats.setdefault("itsex", {"writer_streams": 0, "mutants": 0, "random": 0, "model_errors": 0, "samples_compared": 0, "files": 0})
    cases = []      # (wide, it215, n, stream, expected samples or None, kind)
    if rp:
        c = rp["case"]; cases = [(c["wide"], c["it215"], c["n"], bytes.fromhex(c["stream"]), None, c["kind"])]
    else:
        enc = []
        lens = (1, 2, 3, 9, 100, 1000, 16384, 16385, 32768, 32769) if tier == "quick" else (1, 2, 3, 7, 8, 9, 100, 1000, 4097, 16383, 16384, 16385, 20000, 32767, 32768, 32769, 40000, 70000)
        for wide in (False, True):
            for v in (False, True):
                for n in lens:
                    lim = 65536 if wide else 256; k = rng.random()
                    if k < 0.35: s = [rng.randrange(lim) for _ in range(n)]
                    elif k < 0.7:
                        x = rng.randrange(lim); s = []
                        for _ in range(n): x = (x + rng.randrange(-5, 6)) % lim; s.append(x)
                    else: s = [(i * i * 7) % lim for i in range(n)]
                    enc.append((wide, v, s))
        out = V.run([model], inp="".join("E %d %d %s\n" % (w, v, ",".join(map(str, s))) for w, v, s in enc), timeout=3000).stdout.split("\n")
        for (w, v, s), l in zip(enc, out):
            f = l.split()
            if len(f) != 3 or f[0] != "Z" or f[1] != "1": raise V.BuildError("itsex writer: unexpected output %r" % l[:80])
            z = bytes.fromhex(f[2]); cases.append((w, v, len(s), z, s, "writer")); st["writer_streams"] += 1
            for _ in range(2 if len(s) <= 1000 else 1):
                b2 = bytearray(z); k = rng.random()
                if k < 0.5: b2[rng.randrange(len(b2))] ^= 1 << rng.randrange(8)
                elif k < 0.8: del b2[rng.randrange(len(b2)):]
                else: b2[rng.randrange(2, len(b2)) if len(b2) > 2 else 0] = rng.randrange(256)
                cases.append((w, v, len(s), bytes(b2), None, "mutant")); st["mutants"] += 1
        for k in range(300 if tier == "quick" else 5000):
            w = rng.random() < 0.5; v = rng.random() < 0.5; n = rng.choice((1, 5, 50, 400)); ln = rng.choice((0, 1, 2, 3, 5, 20, 100))
            body = bytes(rng.randrange(256) if rng.random() < 0.6 else rng.choice((0, 0xff, 0x80, 1)) for _ in range(ln))
            decl = rng.choice((ln, ln, ln, ln + 1, max(0, ln - 1), 0, 65535))
            cases.append((w, v, n, bytes([decl & 255, decl >> 8]) + body + bytes(rng.randrange(256) for _ in range(rng.choice((0, 0, 4, 30)))), None, "random")); st["random"] += 1
    inp = "".join("%d %d %d %s\n" % (w, v, n, z.hex() or "-") for w, v, n, z, _, _ in cases)
    mo = V.run([model], inp="".join("D " + l + "\n" for l in inp.strip().split("\n")), timeout=3000).stdout.split("\n")
    r = V.run([idrv], inp=inp, env=env, timeout=3000)
    co = r.stdout.split("\n")
    for k, (w, v, n, z, want, kind) in enumerate(cases):
        if k >= len(co) or not co[k].startswith("R "): break
        ck.count(); bad = None
        if want is not None:
            exp = "R 1 %d %s" % (len(z), ",".join(map(str, want)))
            if mo[k] != exp: raise V.BuildError("extracted decompress(compress l) differs from l (%s, %d samples): theorem decompress_compress would be false" % ("16-bit" if w else "8-bit", n))
        if mo[k].startswith("R 0"): st["model_errors"] += 1
        st["samples_compared"] += n
        if mo[k] != co[k]:
            a = mo[k].split(); b = co[k].split()
            if a[1] != b[1]: bad = "itsex_decompress%d returns %s, the model %s" % (16 if w else 8, "0" if b[1] == "1" else "-1", "success" if a[1] == "1" else "a read error")
            elif a[2] != b[2]: bad = "the stream is left at byte %s, the model at %s" % (b[2], a[2])
            else:
                x = a[3].split(","); y = b[3].split(","); i = next((i for i in range(min(len(x), len(y))) if x[i] != y[i]), -1)
                bad = "sample %d is %s, the model unpacks %s" % (i, y[i] if i >= 0 else "?", x[i] if i >= 0 else "?")
        if bad:
            ck.violation({"engine": "itsex", "case": {"wide": w, "it215": v, "n": n, "stream": z.hex(), "kind": kind}, "what": bad,
                          "broken": "correspondence: Model/ItSex.v vs src/loaders/itsex.c" + ("; the stream comes from the proved writer, so the written PCM is not reproduced (C19 violated on this input)" if want is not None else "")},
                         key="c19:itsex:%s:%s" % (kind, bad.split(",")[0][:30]))
        else:
            ck.nontrivial(("itsex", z))
    if r.returncode != 0:
        ck.violation({"engine": "itsex", "broken": "sanitizer report / crash in itsex_decompress", "stderr": r.stderr[-2000:]}, key="c19-itsex-crash")
    # whole files: the writer's streams as the sample of an IT module
    if not rp:
        files = []
        for k, (w, v, n, z, want, kind) in enumerate(cases):
            if kind != "writer" or n < 3: continue
            song = dict(chn=4, orders=[0], name="gen", patterns=[[[None] * 4 for _ in range(4)]], it_comp_sample=dict(frames=n, wide=w, it215=v, stream=z))
            pth = os.path.join(tmpd, "z%04d.it" % k); open(pth, "wb").write(modgen.WRITERS["it"](song)); files.append((pth, w, v, n, want))
        r = V.run([drv], inp="\n".join(f[0] for f in files) + "\n", env=env, timeout=3000)
        blocks = []; cur = []
        for l in r.stdout.split("\n"):
            cur.append(l)
            if l == "ENDLOAD" or l.startswith("LOADFAIL"): blocks.append("\n".join(cur)); cur = []
        import struct
        for (pth, w, v, n, want), blk in zip(files, blocks):
            ck.count(); st["files"] += 1
            d = parse_load(blk); bad = None
            pcm = struct.pack("<%dH" % n, *want) if w else bytes(want)
            if "fail" in d: bad = "load failed (%d)" % d["fail"]
            else:
                sm = d["smp"].get(0)
                exp = pcm if n <= 4096 else "md5:" + hashlib.md5(pcm).hexdigest()
                if sm is None or sm[0] != n: bad = "sample length %s, written %d" % (sm[0] if sm else None, n)
                elif bool(sm[3] & 1) != w: bad = "sample flags %d (16-bit: %s)" % (sm[3], w)
                elif sm[5] != exp: bad = "the sample's PCM differs from what was packed (%d %s frames, IT %s)" % (n, "16-bit" if w else "8-bit", "2.15" if v else "2.14")
            if bad:
                ck.violation({"engine": "itsex-file", "wide": w, "it215": v, "frames": n, "what": bad, "module_hex": open(pth, "rb").read().hex() if n <= 20000 else None,
                              "broken": "an IT module whose sample was packed by the proved writer (Model/ItSex.v compress) does not load with that PCM"}, key="c19:itsexfile:" + bad.split()[0])
            else:
                ck.nontrivial(("itsexfile", w, v, n))

def main():
    tier = sys.argv[1] if len(sys.argv) > 1 else "quick"
    replay = sys.argv[sys.argv.index("--replay") + 1] if "--replay" in sys.argv else None
    ck = V.Check("C19", tier)
    rng = ck.rng
    ck.proof_leg(["Extract/Extract_modcodec.vo", "Extract/Extract_patcodecs.vo", "Extract/Extract_itsex.vo"])
    drv = V.build_driver("c19_drv", ["c19_drv.c"])
    model = V.ocaml_build("modcodec")
    env = V.san_env()
    tmpd = tempfile.mkdtemp(prefix="vp-c19-", dir="/var/tmp")
    stats = {"mod_songs": 0, "mod_cells": 0, "mod_samples": 0, "other_songs": {}, "model_roundtrip_runs": 0}
    try:
        rp = json.load(open(replay)) if replay else None
        # ---- (a) M.K. files produced by the extracted (proved) writer from random abstract songs
        songs = []
        if rp and rp.get("engine") == "modcodec":
            s = rp["song"]; s["title"] = bytes.fromhex(s["title"]); s["ins"] = [(bytes.fromhex(i[0]),) + tuple(i[1:]) for i in s["ins"]]; s["smps"] = [bytes.fromhex(x) for x in s["smps"]]; s["pats"] = [[tuple(c) for c in p] for p in s["pats"]]
            songs = [s]
        elif not rp:
            songs = [gen_mod_song(rng) for _ in range(60 if tier == "quick" else 3000)]
        if songs:
            mo = V.run([model], inp="\n".join(song_lines(s) for s in songs) + "\n", timeout=3000).stdout.split("\n")
            paths = []
            for k, s in enumerate(songs):
                okb, rt, hx = mo[3 * k], mo[3 * k + 1], mo[3 * k + 2]
                stats["model_roundtrip_runs"] += 1
                if okb != "OKB 1" or rt != "RT 1":
                    raise V.BuildError("generator produced a song outside song_okb or the extracted decode(encode) failed: %s %s" % (okb, rt))
                p = os.path.join(tmpd, "m%05d.mod" % k); open(p, "wb").write(bytes.fromhex(hx.split()[1])); paths.append(p)
            r = V.run([drv], inp="\n".join(paths) + "\n", env=env, timeout=3000)
            blocks = r.stdout.split("ENDLOAD\n") if "LOADFAIL" not in r.stdout else [b for b in r.stdout.replace("LOADFAIL", "ENDLOAD\nLOADFAIL").split("ENDLOAD\n")]
            # simple split: one block per input in order
            blocks = []; cur = []
            for l in r.stdout.split("\n"):
                cur.append(l)
                if l == "ENDLOAD" or l.startswith("LOADFAIL"):
                    blocks.append("\n".join(cur)); cur = []
            for k, s in enumerate(songs):
                if k >= len(blocks): break
                ck.count(); stats["mod_songs"] += 1; stats["mod_cells"] += 256 * len(s["pats"]); stats["mod_samples"] += sum(1 for i in s["ins"] if i[1])
                bad = check_mod(s, parse_load(blocks[k]))
                if bad:
                    js = dict(s); js["title"] = s["title"].hex(); js["ins"] = [[i[0].hex()] + list(i[1:]) for i in s["ins"]]; js["smps"] = [x.hex() for x in s["smps"]]
                    ck.violation({"engine": "modcodec", "song": js, "what": bad, "broken": "the module libxmp loaded differs from the abstract song the proved writer encoded (Model/ModCodec.v encode)"},
                                 key="c19:mod:" + bad.split()[0])
                else:
                    ck.nontrivial(("mod", song_lines(s)))
            if r.returncode != 0:
                ck.violation({"engine": "modcodec", "broken": "sanitizer report / crash while loading a written M.K. file", "stderr": r.stderr[-2000:]}, key="c19-crash")
        # ---- (b) XM / S3M / IT (and MOD again) through the Python writers
        jobs = []
        if rp and rp.get("engine") == "writers":
            jobs = [(rp["format"], rp["song"])]
        elif not rp:
            for i in range(120 if tier == "quick" else 4000):
                fmt = ("xm", "s3m", "it", "mod")[i % 4]
                s = modgen.random_flow_song(rng, fmt, vocab=('speed', 'tempo', 'jump', 'break'), max_orders=rng.choice((1, 4, 30)), max_pats=rng.choice((1, 3, 8)), density=0.02)
                for pat in s["patterns"]:
                    for row in pat:
                        for c in range(len(row)):
                            if rng.random() < 0.3:
                                note = rng.randrange(1, 37) if fmt == "mod" else rng.choice((1, 2, 95, 96, 97, 97)) if (fmt == "xm" and rng.random() < 0.2) else rng.randrange(1, 97) if fmt == "xm" else rng.randrange(1, 85)
                                row[c] = dict(row[c] or {}, note=note, ins=rng.choice((0, 1)) if note == 97 else 1)
                if fmt == "mod": s["name"] = "gen"
                if fmt == "s3m" and rng.random() < 0.6:
                    # storage variants of S3M samples: 8/16 bit, mono/stereo (left block then right block), odd and tiny lengths, loops,
                    # and sample data placed beyond the first MiB of the file (24-bit parapointer)
                    sl = []
                    for k in range(rng.choice((1, 2, 4))):
                        n = rng.choice((1, 2, 3, 5, 64, 129, 1001)); b16 = rng.random() < 0.5; st = rng.random() < 0.4
                        lim = 32767 if b16 else 127
                        sl.append(dict(frames=n, bits=16 if b16 else 8, stereo=st, left=[rng.randrange(-lim - 1, lim + 1) for _ in range(n)], right=[rng.randrange(-lim - 1, lim + 1) for _ in range(n)] if st else None,
                                       loop=(0, n) if rng.random() < 0.4 else None, vol=rng.randrange(0, 65), c2spd=8363, name="smp%d" % k, far=(i % 40 == 1 and k == 0)))
                    s["s3m_samples"] = sl
                    for pat in s["patterns"]:
                        for row in pat:
                            for c in range(len(row)):
                                if row[c] and row[c].get("ins"): row[c]["ins"] = rng.randrange(1, len(sl) + 1)
                # what the formats can express: S3M / IT / MOD readers size the pattern table by the order list, so every pattern is referred to;
                # an IT file has no channel count: it is the highest channel that carries data
                missing = [p for p in range(len(s["patterns"])) if p not in s["orders"]]
                s["orders"] = (s["orders"] + missing)[:120]
                if fmt == "it":
                    used = [c for pat in s["patterns"] for row in pat for c, cell in enumerate(row) if cell]
                    s["chn_expected"] = (max(used) + 1) if used else None
                jobs.append((fmt, s))
        paths = []
        for k, (fmt, s) in enumerate(jobs):
            p = os.path.join(tmpd, "w%05d.%s" % (k, fmt)); open(p, "wb").write(modgen.WRITERS[fmt](s)); paths.append(p)
        if paths:
            r = V.run([drv], inp="\n".join(paths) + "\n", env=env, timeout=3000)
            blocks = []; cur = []
            for l in r.stdout.split("\n"):
                cur.append(l)
                if l == "ENDLOAD" or l.startswith("LOADFAIL"):
                    blocks.append("\n".join(cur)); cur = []
            for k, (fmt, s) in enumerate(jobs):
                if k >= len(blocks): break
                ck.count(); stats["other_songs"][fmt] = stats["other_songs"].get(fmt, 0) + 1
                d = parse_load(blocks[k])
                if fmt == "mod":
                    # the Python MOD writer maps abstract note n to PERIODS[n-1+12]
                    bad = None
                    if "fail" in d: bad = "load failed"
                    else:
                        for p, pat in enumerate(s["patterns"][:max(s["orders"]) + 1]):
                            for r_, row in enumerate(pat):
                                for c, cell in enumerate(row):
                                    note = cell.get("note", 0) if cell else 0
                                    want = lib_note(modgen.PERIODS[note - 1 + 12]) if 1 <= note <= 36 else 0
                                    got = d["ev"].get((p, r_, c), (0,) * 7)
                                    if got[0] != want or got[1] != (cell.get("ins", 0) if cell else 0): bad = bad or "pattern %d row %d channel %d: note %d vs %d" % (p, r_, c, got[0], want)
                else:
                    bad = check_other(fmt, s, d)
                if bad:
                    ck.violation({"engine": "writers", "format": fmt, "song": s, "what": bad, "broken": "the module libxmp loaded differs from the abstract song the independent writer (gen/modgen.py) encoded"}, key="c19:%s:%s" % (fmt, bad.split()[0]))
                else:
                    ck.nontrivial((fmt, json.dumps(s, sort_keys=True)))
            if r.returncode != 0:
                ck.violation({"engine": "writers", "broken": "sanitizer report / crash while loading a written file", "stderr": r.stderr[-2000:]}, key="c19-crash")
        # ---- (d) packed pattern data
        if not rp or rp.get("engine") == "patcodecs":
            patcodec_leg(ck, tier, rng, drv, tmpd, env, stats, rp if rp and rp.get("engine") == "patcodecs" else None)
        # ---- (e) IT compressed samples
        if not rp or rp.get("engine") == "itsex":
            itsex_leg(ck, tier, rng, drv, tmpd, env, stats, rp if rp and rp.get("engine") == "itsex" else None)
        # ---- (c) the corpus's IT files: every sample's PCM as an independent reader of the IT sample formats (incl. IT 2.14 / 2.15
        #          compression, gen/itdecomp.py) predicts it vs what libxmp loaded
        if not rp or rp.get("engine") == "itsamples":
            its = [f for f in V.corpus_files() if f.lower().endswith(".it")] if not rp else [os.path.join(V.REPO, rp["file"])]
            r = V.run([drv], inp="\n".join(its) + "\n", env=env, timeout=3000)
            blocks = []; cur = []
            for l in r.stdout.split("\n"):
                cur.append(l)
                if l == "ENDLOAD" or l.startswith("LOADFAIL"):
                    blocks.append("\n".join(cur)); cur = []
            for f, blk in zip(its, blocks):
                d = parse_load(blk)
                if "fail" in d: continue
                for (k, length, flags, b16, st, comp, pcm) in itdecomp.it_samples(open(f, "rb").read()):
                    smp_lines = [l.split() for l in blk.split("\n") if l.startswith("SMP %d " % k)]
                    if not smp_lines: continue
                    w = smp_lines[0]; ln = int(w[2]); dat = w[7] if len(w) > 7 else "-"
                    ck.count(); stats["it_samples"] = stats.get("it_samples", 0) + 1; stats["it_compressed"] = stats.get("it_compressed", 0) + (1 if comp else 0)
                    want = pcm.hex() if ln <= 4096 else "md5:" + hashlib.md5(pcm).hexdigest()
                    if ln != length or dat != want:
                        ck.violation({"engine": "itsamples", "file": os.path.relpath(f, V.REPO), "sample": k,
                                      "what": "sample %d (%d frames, %d-bit%s%s): loaded length %d, PCM %s" % (k, length, 16 if b16 else 8, " stereo" if st else "", " compressed" if comp else "", ln, "differs" if ln == length else "n/a"),
                                      "broken": "libxmp's IT sample decoding vs an independent reader of the format"}, key="c19:it:sample")
                    else:
                        ck.nontrivial(("it", f, k))
    finally:
        shutil.rmtree(tmpd, ignore_errors=True)
    ck.engine_stat("modcodec", **stats)
    ck.cov["rule"] = ("(a) random abstract M.K. songs (titles, 31 instrument headers with lengths / finetunes / volumes / loops, order lists of 1..128 entries, 1-5 patterns of random periods, instrument numbers 0..31 and effects, random sample bytes) "
                      "encoded by the extracted, proved writer (song_okb and decode(encode s) = s re-evaluated by the extracted code), loaded by libxmp and compared field by field, cell by cell, byte by byte; "
                      "(b) random songs through the independent Python writers for XM (packed patterns, delta samples), S3M (packed patterns, unsigned samples), IT and MOD: channels, order list, initial speed/tempo, title, pattern sizes, note and instrument of every cell, sample length / loop / PCM; XM notes over the whole range 1..96 and key-off; S3M samples in every storage variant (8/16-bit, mono / stereo blocks, odd and tiny lengths, loops, data beyond the first MiB); (c) every sample of the corpus IT files (plain and IT 2.14 / 2.15 compressed, 8/16-bit, mono/stereo) against an independent reader of the format (gen/itdecomp.py)")
    ck.assumptions += ["only the M.K. layout is proved (decode_encode); the XM / S3M / IT writers are independent Python code tied by the differential only, with uncompressed 8-bit mono samples and one instrument",
                       "libxmp's note numbering is taken from src/period.c (period -> note formula) and the format loaders' documented offsets (+12 for XM / S3M / IT notes)"]
    ck.finish()

V.main_wrap(main)
