# C12 — xmp_play_buffer delivers exactly the frame stream, in any chunking.
import os, sys, json
import vcommon as V

def gen_ops(rng, fsz, ended, nfr, kind):
    """ops for one case. fsz: frame sizes of the reference run."""
    total = sum(fsz)
    maxf = max(fsz) if fsz else 1
    ops = []
    budget = total - 2 * maxf if not ended else total + 3 * maxf
    loop = rng.choice((0, 0, 1, 2, 3)) if kind != "noloop" else 0
    used = 0
    while used < budget and len(ops) < 400:
        r = rng.random()
        if r < 0.03 and kind == "full":
            ops.append(("R",)); used += maxf; continue   # a reset discards up to one frame of carry-over
        c = rng.random()
        if c < 0.25: s = rng.randrange(1, 8)
        elif c < 0.5: s = rng.choice(fsz) + rng.choice((-1, 0, 1, 2, -2))
        elif c < 0.7: s = rng.randrange(1, maxf)
        elif c < 0.9: s = rng.randrange(maxf, 5 * maxf)
        elif c < 0.95: s = 0
        else: s = sum(fsz[:rng.randrange(1, 4)])
        s = max(0, s)
        if used + s > budget and not ended:
            break
        ops.append(("P", s, loop)); used += s
    if kind == "restart" and ops:
        # end the player in the middle of a frame, start again: the new session must begin with the first frame
        cut = rng.randrange(1, min(len(ops), 12) + 1)
        first = [o for o in ops[:cut] if o[0] == "P"]
        if first and sum(o[1] for o in first) % max(1, fsz[0]) == 0:
            first.append(("P", rng.randrange(1, max(2, fsz[0])), loop))
        again = [("P", o[1], o[2]) for o in ops[cut:cut + 40] if o[0] == "P"]
        ops = first + [("E",)] + again
        return ops
    if kind == "stop" and ops:
        k = rng.randrange(0, len(ops))
        ops.insert(k, ("S",))
        ops += [("P", rng.randrange(1, maxf), loop), ("P", rng.randrange(1, maxf), loop)]
    return ops

def main():
    tier = sys.argv[1] if len(sys.argv) > 1 else "quick"
    replay = sys.argv[sys.argv.index("--replay") + 1] if "--replay" in sys.argv else None
    ck = V.Check("C12", tier)
    rng = ck.rng
    ck.proof_leg(["Extract/Extract_playbuffer.vo"])
    drv = V.build_driver("c12_drv", ["c12_drv.c"])
    env = V.san_env()
    model = V.ocaml_build("playbuffer")
    data = os.path.join(V.REPO, "test-dev", "data")
    mods = ["ode2ptk.mod", "storlek_11.it", "pattern_loop_it.it", "m/panic.s3m", "m/xyce-dans_la_rue.xm", "test.xm", "test.it", "test.s3m", "loop.mod" if False else "ode2ptk.mod"]
    mods = [m for m in dict.fromkeys(mods) if os.path.exists(os.path.join(data, m))]
    extra = sorted(x for x in os.listdir(os.path.join(data, "m")) if x.lower().endswith((".mod", ".xm", ".it", ".s3m", ".med", ".669", ".far", ".mtm", ".stm")))
    rng.shuffle(extra)
    mods += ["m/" + x for x in extra[: (4 if tier == "quick" else 60)]]
    # generated modules whose tempo changes on (nearly) every row at speed 1 or 2: consecutive frames then differ in size, so one
    # xmp_play_buffer call that renders several frames must size each of them on its own (seeded change C12-frame-info-once-per-call)
    sys.path.insert(0, os.path.join(V.VERIF, "gen")); import modgen, tempfile, shutil
    gdir = tempfile.mkdtemp(prefix="vp-c12-", dir="/var/tmp")
    gen = []
    for gi, fmtname in enumerate(("mod", "it", "xm", "s3m") if tier == "quick" else ("mod", "it", "xm", "s3m") * 2):
        pat = modgen.empty_pattern(64, 4)
        for r in range(64):
            pat[r][0] = dict(note=rng.choice((13, 20, 25, 30)), ins=1) if r % 4 == 0 else None
            if rng.random() < 0.85:
                pat[r][1] = dict(fx=('tempo', rng.choice((32, 40, 55, 80, 125, 150, 200, 255, rng.randrange(32, 256)))))
        song = dict(chn=4, orders=[0, 0], patterns=[pat], speed=rng.choice((1, 1, 2)), bpm=125, restart=0, name="tempo per row")
        gp = os.path.join(gdir, "tempo%02d.%s" % (gi, fmtname)); open(gp, "wb").write(modgen.WRITERS[fmtname](song)); gen.append(gp)
    mods[1:1] = gen
    cases = []
    if replay:
        rp = json.load(open(replay))
        if rp.get("module_b64"):        # a generated module travels inside the replay file
            import base64
            rp["module"] = os.path.join(gdir, "replay" + os.path.splitext(rp["module"])[1]); open(rp["module"], "wb").write(base64.b64decode(rp["module_b64"]))
        cases = [(rp["module"], rp["rate"], rp["format"], rp["nframes"], [tuple(o) for o in rp["ops"]])]
    else:
        percfg = 3 if tier == "quick" else 10
        for m in mods:
            for fmt in range(8):
                if tier == "quick" and fmt not in (0, 3, 5, 6) and m != mods[0]:
                    continue
                rate = rng.choice((4000, 4000, 8000, 11025))
                cases.append((m, rate, fmt, rng.randrange(40, 160), None))
        # long frames: at 44100 / 48000 Hz a tempo factor of 6.5 .. 12 makes a tick longer than 6146 sample frames, i.e. a 16-bit stereo
        # frame larger than XMP_MAX_FRAMESIZE BYTES (the constant bounds sample frames x 2, not bytes): nothing of it may be dropped
        for m in mods[:2]:
            for rate, fmt in ((44100, 0), (48000, 0), (48000, 4)):
                cases.append((m, rate, fmt, rng.randrange(12, 24), None))
    ndis = 0
    opsum = {"P": 0, "R": 0, "S": 0, "E": 0, "T": 0}
    endhits = 0
    for (m, rate, fmt, nfr, fixed_ops) in cases:
        path = os.path.join(data, m)
        r = V.run([drv, "frames", path, str(rate), str(fmt), str(nfr)], env=env, timeout=300)
        if r.returncode == 3:
            continue
        if r.returncode != 0:
            ck.violation({"engine": "play_buffer", "module": m, "broken": "sanitizer / crash in xmp_play_frame", "stderr": r.stderr[-1500:]}, key="c12-crash:" + m)
            continue
        fl = r.stdout.strip().split("\n")
        ended = fl and fl[-1] == "END"
        frames = [x.split() for x in fl if x != "END" and x]
        fsz = [len(f[1]) // 2 if f[1] != "-" else 0 for f in frames]
        if not frames:
            continue
        kinds = ["full", "noloop", "stop", "restart", "tempo"] if fixed_ops is None else [None]
        for kind in kinds * (1 if tier == "quick" or fixed_ops else 3):
            ops = fixed_ops if fixed_ops is not None else gen_ops(rng, fsz, ended, nfr, "noloop" if kind == "tempo" else kind)
            if not ops:
                continue
            mframes = frames
            if kind == "tempo" or (fixed_ops is not None and any(o[0] == "T" for o in ops)):
                # xmp_set_tempo_factor between two xmp_play_buffer calls: the frames rendered so far are what they were, the following ones
                # have the new length.  The model runs on the frame stream of a reference context that makes the same call after the same
                # number of frames (the buffered context renders a frame only when it needs its bytes, so that number is determined by
                # the bytes delivered plus the carry-over).
                if fixed_ops is None:
                    cut = rng.randrange(1, max(2, min(len(ops), 10))); fac = rng.choice(("1.37", "0.61", "2.0", "0.5", "1.01")) if rate < 44100 else rng.choice(("8.0", "6.5", "12.0" if rate == 48000 else "8.5"))
                    ops = [o for o in ops[:cut] if o[0] == "P"] + [("T", fac)] + [o for o in ops[cut:cut + 30] if o[0] == "P"]
                ti = next(i for i, o in enumerate(ops) if o[0] == "T"); fac = ops[ti][1]
                pre = ops[:ti]
                pm = V.run([model], inp="".join("F %s %s\n" % (f[0], f[1]) for f in frames) + "".join("O " + " ".join(str(x) for x in o) + "\n" for o in pre) + "GO\n", timeout=300).stdout.strip().split("\n")
                pm = [x.split() for x in pm if x and x != "DONE"]
                if any(x[0] != "0" for x in pm): continue         # the passage ended before the call: not this kind
                got = sum((len(x[1]) // 2 if x[1] != "-" else 0) for x in pm) + (int(pm[-1][2]) if pm else 0)
                kf = 0; acc = 0
                while kf < len(fsz) and acc < got: acc += fsz[kf]; kf += 1
                if acc != got: continue
                r2 = V.run([drv, "frames", path, str(rate), str(fmt), str(nfr * 4), str(kf), str(fac)], env=env, timeout=300)     # a factor below 1 shortens the frames: the same bytes need more of them
                mframes = [x.split() for x in r2.stdout.strip().split("\n") if x != "END" and x]
            cin = "".join(" ".join(str(x) for x in o) + "\n" for o in ops)
            rc = V.run([drv, "buffer", path, str(rate), str(fmt)], inp=cin, env=env, timeout=300)
            mops = [o for o in ops if o[0] != "T"]
            min_ = "".join("F %s %s\n" % (f[0], f[1]) for f in mframes) + "".join("O " + " ".join(str(x) for x in o) + "\n" for o in mops) + "GO\n"
            rm = V.run([model], inp=min_, timeout=300)
            co = [x for i, x in enumerate(rc.stdout.strip().split("\n")) if not (i < len(ops) and ops[i][0] == "T")]
            mo = [x for x in rm.stdout.strip().split("\n") if x != "DONE"]
            ck.count(len(ops))
            for o in ops:
                opsum[o[0]] += 1
            if rc.returncode != 0:
                ck.violation({"engine": "play_buffer", "module": m, "rate": rate, "format": fmt, "nframes": nfr, "ops": ops,
                              "broken": "sanitizer / crash in xmp_play_buffer", "stderr": rc.stderr[-1500:]}, key="c12-crash:" + m)
                continue
            if any(x.split()[0] == "-1" for x in mo if x):
                endhits += 1
            ck.nontrivial((m, rate, fmt, tuple(ops)))
            if co != mo:
                ndis += 1
                k = next((i for i in range(min(len(co), len(mo))) if co[i] != mo[i]), min(len(co), len(mo)))
                # shrink: keep ops up to and including the first disagreement
                if ndis <= 3:
                    import base64
                    ck.violation({"engine": "play_buffer", "module": m, "rate": rate, "format": fmt, "nframes": nfr, "ops": ops[:k + 1 + sum(1 for o in ops[:k + 1] if o[0] == "T")],
                                  **({"module_b64": base64.b64encode(open(path, "rb").read()).decode()} if os.path.isabs(m) else {}),
                                  "first_differing_op": k, "expected_model": (mo[k] if k < len(mo) else None)[:200] if k < len(mo) else None,
                                  "got_impl": co[k][:200] if k < len(co) else None,
                                  "broken": "correspondence play_buffer: chunked output / return code / carry-over differs from the frame stream (Model/PlayBuffer.v)"},
                                 key="c12:%s:%d:%d" % (m, rate, fmt))
            elif len(ck.cov["samples"]) < 3:
                ck.sample({"module": m, "rate": rate, "format": fmt, "ops": ops[:8], "results(ret,restlen)": [(x.split()[0], x.split()[2]) for x in co[:8]]})
    ck.engine_stat("play_buffer", cases=len(cases), op_hist=opsum, cases_reaching_end=endhits, disagreements=ndis)
    ck.cov["rule"] = ("per module/format: reference frames from xmp_play_frame on context A; context B driven by a generated op list (sizes 0..5 frames unaligned, loop limits 0..3, NULL reset, stop); "
                      "every op's (return, bytes, carry-over length) compared with the extracted model run on A's frames; a case is non-trivial/distinct per (module, rate, format, op list)")
    ck.assumptions += ["frames of the reference context equal those the buffered context renders internally (same module, RNG seed, configuration)"]
    shutil.rmtree(gdir, ignore_errors=True)
    ck.finish()

V.main_wrap(main)
