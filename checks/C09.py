# C09 — corrupted archives are rejected, never silently mis-decoded.
import os, sys, json, gzip, zlib, bz2, lzma, zipfile, io, hashlib, tempfile, shutil
import vcommon as V

def make_archives(payload, name):
    out = {}
    def gz(level):
        co = zlib.compressobj(level, zlib.DEFLATED, -15)
        body = co.compress(payload) + co.flush()
        hdr = b"\x1f\x8b\x08\x00\x00\x00\x00\x00\x00\x03"
        return hdr + body + (zlib.crc32(payload) & 0xffffffff).to_bytes(4, "little") + (len(payload) & 0xffffffff).to_bytes(4, "little")
    out["gzip-stored"] = gz(0)
    out["gzip-9"] = gz(9)
    for meth, tag in ((zipfile.ZIP_STORED, "zip-stored"), (zipfile.ZIP_DEFLATED, "zip-deflate")):
        b = io.BytesIO()
        with zipfile.ZipFile(b, "w", meth) as z:
            z.writestr(zipfile.ZipInfo(name, (2020, 1, 1, 0, 0, 0)), payload, meth)
        out[tag] = b.getvalue()
    # ArcFS, one stored member carrying a non-zero CRC-16 (arcfs.c ignores a stored CRC of 0 by design)
    def crc16(b):
        c = 0
        for x in b:
            c ^= x
            for _ in range(8):
                c = (c >> 1) ^ 0xA001 if c & 1 else c >> 1
        return c
    if crc16(payload) != 0:
        hdr = b"Archive\x00" + (36).to_bytes(4, "little") + (96 + 36).to_bytes(4, "little") + (0x0a).to_bytes(4, "little") * 3
        hdr += b"\x00" * (96 - len(hdr))
        ent = bytearray(36)
        ent[0] = 0x82
        ent[1:12] = name.encode()[:11].ljust(11, b"\x00")
        ent[12:16] = len(payload).to_bytes(4, "little")
        ent[25] = 0
        ent[26:28] = crc16(payload).to_bytes(2, "little")
        ent[28:32] = len(payload).to_bytes(4, "little")
        out["arcfs-stored-crc"] = hdr + bytes(ent) + payload
    out["bzip2"] = bz2.compress(payload, 1)
    out["xz-crc32"] = lzma.compress(payload, format=lzma.FORMAT_XZ, check=lzma.CHECK_CRC32, preset=1)
    return out

def crc16_arc(b, c=0):
    for x in b:
        c ^= x
        for _ in range(8):
            c = (c >> 1) ^ 0xA001 if c & 1 else c >> 1
    return c

def noise_mod(rng, nbytes=1536, nsmp=1):
    """a Protracker module with samples of white noise (incompressible: deflate/LZMA2 keep them verbatim)"""
    import struct
    b = bytearray(b"noise".ljust(20, b"\0"))
    for i in range(nsmp):
        b += b"smp".ljust(22, b"\0") + struct.pack(">HBBHH", nbytes // 2, 0, 64, 0, 1)
    for i in range(31 - nsmp):
        b += bytes(22) + struct.pack(">HBBHH", 0, 0, 0, 0, 1)
    b += bytes([1, 0x7f]) + bytes(128) + b"M.K." + bytes(1024)
    b += rng.randbytes(nbytes * nsmp) if hasattr(rng, "randbytes") else bytes(rng.randrange(256) for _ in range(nbytes * nsmp))
    return bytes(b)

def tune_tail_crc16(payload, target):
    """append two bytes so that CRC-16/ARC(payload) == target (modules tolerate trailing bytes)"""
    base = crc16_arc(payload)
    for a in range(256):
        c1 = crc16_arc(bytes([a]), base)
        for b in range(256):
            if crc16_arc(bytes([b]), c1) == target:
                return payload + bytes([a, b])
    return None

def arcfs_stored(payload, name=b"m.mod"):
    hdr = b"Archive\x00" + (36).to_bytes(4, "little") + (96 + 36).to_bytes(4, "little") + (0x0a).to_bytes(4, "little") * 3
    hdr += b"\x00" * (96 - len(hdr))
    ent = bytearray(36)
    ent[0] = 0x82
    ent[1:12] = name[:11].ljust(11, b"\x00")
    ent[12:16] = len(payload).to_bytes(4, "little")
    ent[26:28] = crc16_arc(payload).to_bytes(2, "little")
    ent[28:32] = len(payload).to_bytes(4, "little")
    return hdr + bytes(ent) + payload

def partial_collisions(payload, region, crcfun, width, rng, per_byte=3):
    """substitutions inside payload[region] whose check value differs from the original but agrees with it in one
    whole byte (aimed at comparisons made at a truncated width): list of (payload offset, new value)"""
    orig = crcfun(payload)
    found = {k: [] for k in range(width)}
    lo, hi = region
    tries = 0
    while any(len(v) < per_byte for v in found.values()) and tries < 40000:
        tries += 1
        off = rng.randrange(lo, hi)
        v = rng.randrange(256)
        if v == payload[off]:
            continue
        c = crcfun(payload[:off] + bytes([v]) + payload[off + 1:])
        for k in range(width):
            if ((c >> (8 * k)) & 0xff) == ((orig >> (8 * k)) & 0xff) and c != orig and len(found[k]) < per_byte:
                found[k].append((off, v))
    return [x for v in found.values() for x in v]

def main():
    tier = sys.argv[1] if len(sys.argv) > 1 else "quick"
    replay = sys.argv[sys.argv.index("--replay") + 1] if "--replay" in sys.argv else None
    ck = V.Check("C09", tier)
    rng = ck.rng
    ck.proof_leg(["Extract/Extract_crc.vo", "Extract/Extract_crcbe.vo"])
    drv = V.build_driver("c09_drv", ["c09_drv.c"])
    model = V.ocaml_build("crc")
    env = V.san_env()

    # ---- T1: the check-value functions against the model
    if not replay:
        lines = []
        for n in list(range(0, 12)) + [15, 16, 17, 63, 64, 65, 255, 256, 1000]:
            for _ in range(6 if tier == "quick" else 40):
                data = bytes(rng.randrange(256) for _ in range(n))
                for k in "ANI":
                    init = rng.choice((0, 0, 0xffffffff, rng.randrange(2**32)))
                    if k == "I":
                        init &= 0xffff
                    lines.append("%s %s %d" % (k, data.hex() or "-", init))
        inp = "\n".join(lines) + "\n"
        co = V.run([drv, "crc"], inp=inp, env=env).stdout.split()
        mo = V.run([model], inp=inp).stdout.split()
        nd = 0
        for i, l in enumerate(lines):
            ck.count()
            if i >= len(co) or i >= len(mo) or co[i] != mo[i]:
                nd += 1
                if nd <= 3:
                    ck.violation({"engine": "crc", "case": l, "expected_model": mo[i] if i < len(mo) else None, "got_impl": co[i] if i < len(co) else None,
                                  "broken": "correspondence crc (Model/Crc.v vs crc32.c)"}, key="crc:" + l[:80])
            else:
                ck.nontrivial(("crc", l[:64]))
        ck.engine_stat("crc", cases=len(lines), disagreements=nd)
        ck.sample({"engine": "crc", "case": lines[40], "model": mo[40], "impl": co[40]})

    # ---- T1b: bzip2's big-endian CRC (Model/CrcBE.v; the C builds its table at run time, so there is no table to translate): the model's
    #      block CRC and stream CRC against the values an independent encoder (Python's bz2) stores for single-block payloads; the real
    #      decoder's use of them is what the bzip2 corruption sweeps below exercise
    if not replay:
        import bz2
        bmodel = V.ocaml_build("crcbe")
        pl = [b"123456789", b"a", bytes(1000), bytes(rng.randrange(256) for _ in range(5000))] + [bytes(rng.randrange(256) for _ in range(rng.choice((1, 2, 3, 17, 255, 256, 4096, 60000)))) for _ in range(20 if tier == "quick" else 300)]
        mo = V.run([bmodel], inp="".join("B %s\nS %s\n" % (d.hex(), d.hex()) for d in pl), timeout=600).stdout.split("\n")
        nb = 0
        for k, d in enumerate(pl):
            z = bz2.compress(d, rng.choice((1, 9)))
            ck.count()
            hdr = int.from_bytes(z[10:14], "big")
            bits = "".join("{:08b}".format(x) for x in z); eos = bits.rfind("{:048b}".format(0x177245385090)); stream = int(bits[eos + 48:eos + 80], 2)
            if z[4:10] != bytes.fromhex("314159265359") or str(hdr) != mo[2 * k] or str(stream) != mo[2 * k + 1]:
                nb += 1
                ck.violation({"engine": "crcbe", "payload_hex": d.hex()[:2000], "what": "bzip2 block / stream CRC stored by an independent encoder: %d / %d, the model computes %s / %s" % (hdr, stream, mo[2 * k], mo[2 * k + 1]),
                              "broken": "Model/CrcBE.v does not compute bzip2's CRC"}, key="crcbe")
            else: ck.nontrivial(("crcbe", d))
        ck.engine_stat("crcbe", payloads=len(pl), disagreements=nb)

    # ---- T2: corruption sweeps
    data = os.path.join(V.REPO, "test-dev", "data")
    tmpd = tempfile.mkdtemp(prefix="vp-c09-", dir="/var/tmp")
    try:
        archives = []   # (label, path, expected md5 or None->take from the unmodified load)
        payload_path = os.path.join(data, "test.it")
        payload = open(payload_path, "rb").read()
        md5 = hashlib.md5(payload).hexdigest()
        for tag, blob in make_archives(payload, "test.it").items():
            p = os.path.join(tmpd, tag)
            open(p, "wb").write(blob)
            archives.append((tag, p, md5, len(blob)))
        # archives of a noise-sample module: stored / raw regions map 1:1 to payload bytes; check values at the code's
        # special cases (ArcFS: stored CRC 0 means "no check") and substitutions that keep one byte of the check value
        nm = noise_mod(rng)
        nmd5 = hashlib.md5(nm).hexdigest()
        targeted = {}
        extra = {"n-gzip-stored": make_archives(nm, "n.mod")["gzip-stored"], "n-zip-stored": make_archives(nm, "n.mod")["zip-stored"],
                 "n-xz-crc32": lzma.compress(nm, format=lzma.FORMAT_XZ, check=lzma.CHECK_CRC32, preset=0), "n-arcfs": arcfs_stored(nm)}
        noise_at = len(nm) - 1536
        # xz: LZMA2 writes a chunk uncompressed only if it does not shrink, so use a module that is almost all noise
        big = noise_mod(rng, 65534, 3)
        extra["n-xz-crc32"] = lzma.compress(big, format=lzma.FORMAT_XZ, check=lzma.CHECK_CRC32, preset=0)
        for tag, blob in extra.items():
            pl = big if tag == "n-xz-crc32" else nm
            noise_at = len(pl) - 1536
            base_off = blob.find(pl[noise_at:noise_at + 64])
            if base_off < 0:
                ck.engine_stat("skipped", **{tag: "noise region not stored verbatim by the encoder"})
                continue
            nm_, nmd5_ = pl, hashlib.md5(pl).hexdigest()
            pth = os.path.join(tmpd, tag)
            open(pth, "wb").write(blob)
            archives.append((tag, pth, nmd5_, len(blob)))
            fn, width = ((lambda b: crc16_arc(b)), 2) if "arcfs" in tag else ((lambda b: zlib.crc32(b) & 0xffffffff), 4)
            cols = partial_collisions(nm_, (noise_at, noise_at + 1500), fn, width, rng, per_byte=3 if tier == "quick" else 12)
            targeted[tag] = [(base_off + (o - noise_at), v) for o, v in cols if blob[base_off + (o - noise_at)] == nm_[o]]
        for tgt in (0x3700, 0x0100, 0x00c5):
            tp = tune_tail_crc16(nm, tgt)
            if tp:
                tag = "n-arcfs-crc%04x" % tgt
                pth = os.path.join(tmpd, tag)
                open(pth, "wb").write(arcfs_stored(tp))
                archives.append((tag, pth, hashlib.md5(tp).hexdigest(), len(arcfs_stored(tp))))
        # classic ARC has no "stored CRC 0 means no check" rule: a member whose CRC-16 really is 0x0000 (1 file in 65536) is checked like any other
        import struct
        for tgt in (0x0000, 0x0100, 0x00c5):
            tp = tune_tail_crc16(nm, tgt)
            if tp:
                tag = "n-arc-stored-crc%04x" % tgt
                blob = bytes([0x1a, 2]) + b"N.MOD".ljust(13, b"\0") + struct.pack("<IHHHI", len(tp), 0x5021, 0x6000, crc16_arc(tp), len(tp)) + tp + b"\x1a\x00"
                pth = os.path.join(tmpd, tag); open(pth, "wb").write(blob)
                archives.append((tag, pth, hashlib.md5(tp).hexdigest(), len(blob)))
        for f in ("arc-method2", "arc-method8-rle" if tier == "thorough" else None, "arcfsdata", "lzxstore", "lzxdata", "lzxmerge", "arc-subdir-spark"):
            if f and os.path.exists(os.path.join(data, f)):
                if f.startswith("arcfs"):
                    blob = open(os.path.join(data, f), "rb").read()
                    nent = int.from_bytes(blob[8:12], "little") // 36
                    crcs = [int.from_bytes(blob[96 + 36 * i + 26:96 + 36 * i + 28], "little") for i in range(nent) if (blob[96 + 36 * i] & 0x7f) > 1 and not blob[96 + 36 * i + 35] >> 7]
                    if not any(crcs):
                        ck.engine_stat("skipped", **{f: "ArcFS members store CRC 0 = 'no check' (arcfs.c:294): the archive carries no integrity check, outside the property"})
                        continue
                archives.append((f, os.path.join(data, f), None, os.path.getsize(os.path.join(data, f))))
        if replay:
            rp = json.load(open(replay))
            archives = [a for a in archives if a[0] == rp.get("archive")]
        cmds = []
        meta = []
        for tag, p, m, size in archives:
            cmds.append("B " + p); meta.append(None)
            cmds.append("O"); meta.append((tag, "O", 0, 0))
            if replay:
                rp = json.load(open(replay))
                if tag == "lzxmerge": cmds.append("LI"); meta.append((tag, "LI", 0, 0))
                cmds.append(rp["op"] if rp["op"].startswith(("M ", "L ")) else "%s %d %d" % (rp["op"], rp["off"], rp["arg"])); meta.append((tag, rp["op"], rp["off"], rp["arg"]))
                continue
            if tag == "lzxmerge":
                # a merge record (two files in one compressed stream): every single-bit damage of the stream that still unpacks, with the
                # data-CRC field of one entry rewritten to match the damaged file but that entry's header CRC left as it was - the entry's
                # header no longer verifies, so it must not be used (falling back to the other, intact file is the library's choice)
                cmds.append("LI"); meta.append((tag, "LI", 0, 0))
                for pos in range(400):
                    for bit in range(8):
                        for which in ((1, 2) if (tier != "quick" or (pos + bit) % 3 == 0) else (1,)):
                            cmds.append("L %d %d %d" % (pos, 1 << bit, which)); meta.append((tag, "L %d %d %d" % (pos, 1 << bit, which), pos, which))
            full = size <= (900 if tier == "quick" else 40000) and not tag.startswith("n-")
            for off in range(size):
                if full or off < 48 or off >= size - 24:
                    bits = range(8)
                elif size >= 100000:
                    bits = [rng.randrange(8)] if rng.randrange(2000) == 0 else []
                elif tier == "quick":
                    bits = [rng.randrange(8)] if off % 9 == rng.randrange(9) else []
                else:
                    bits = [rng.randrange(8)] if off % 2 == 0 else []
                for b in bits:
                    cmds.append("F %d %d" % (off, 1 << b)); meta.append((tag, "F", off, 1 << b))
            for off, v in targeted.get(tag, []):
                cmds.append("S %d %d" % (off, v)); meta.append((tag, "S", off, v))
            nsub = (150 if tier == "quick" else 3000) if size < 100000 else 40
            for _ in range(nsub):
                off = rng.randrange(size)
                v = rng.randrange(256)
                cmds.append("S %d %d" % (off, v)); meta.append((tag, "S", off, v))
            # stored data damaged AND the check field overwritten with a value that decoders use as a sentinel or reach by wrap-around
            # (all ones, zero, the right value +1 / -1): the comparison must still fail
            blob0 = open(p, "rb").read() if size < 400000 else b""
            fields = []
            if tag.startswith("bzip2") or tag == "bzip2data": fields.append((10, 4, "big"))
            if "gzip" in tag: fields.append((size - 8, 4, "little"))
            if "zip" in tag and "gzip" not in tag and blob0[:4] == b"PK\x03\x04":
                fields.append((14, 4, "little")); cd = blob0.rfind(b"PK\x01\x02")
                if cd > 0: fields.append((cd + 16, 4, "little"))
            for (fo, fl, order) in fields if blob0 else []:
                cur = int.from_bytes(blob0[fo:fo + fl], order)
                for sentinel in (0xffffffff, 0, (cur + 1) & 0xffffffff, (cur - 1) & 0xffffffff, 0x80000000):
                    for _ in range(10 if tier == "quick" else 120):
                        off = rng.randrange(size)
                        if fo <= off < fo + fl: continue
                        v = rng.choice((blob0[off] ^ (1 << rng.randrange(8)), rng.randrange(256)))
                        if v == blob0[off]: continue
                        edits = [(off, v)] + [(fo + j, sentinel.to_bytes(fl, order)[j]) for j in range(fl)]
                        mcmd = "M " + " ".join("%d %d" % e for e in edits)
                        cmds.append(mcmd); meta.append((tag, mcmd, off, sentinel))
            for ln in sorted(set([0, 1, 2, size - 1, size - 4, size - 8, size // 2] + [rng.randrange(size) for _ in range(20 if tier == "quick" else 200)])):
                if 0 <= ln < size:
                    cmds.append("T %d" % ln); meta.append((tag, "T", ln, 0))
        r = V.run([drv, "load", os.path.join(tmpd, "variant")], inp="\n".join(cmds) + "\n", env=env, timeout=3000)
        out = r.stdout.split("\n")
        k = 0
        expect = {}; members = {}
        stats = {}
        for mt in meta:
            if mt is None:
                continue
            line = out[k] if k < len(out) else ""
            k += 1
            tag, op, off, arg = mt
            w = line.split()
            if op == "LI":
                if len(w) == 3: members[tag] = set(w[:2])
                continue
            if op.startswith("L ") and (line.startswith("SKIP") or line.startswith("?")):
                stats.setdefault(tag, {"variants": 0, "rejected": 0, "accepted_same_payload": 0}).setdefault("lzx_damage_not_applicable", 0); stats[tag]["lzx_damage_not_applicable"] += 1
                continue
            if len(w) != 2:
                if r.returncode != 0:
                    ck.violation({"engine": "corruption", "archive": tag, "op": op, "off": off, "arg": arg,
                                  "broken": "sanitizer report / crash while loading a corrupted archive", "stderr": r.stderr[-2500:]},
                                 key="c09-crash:%s:%s:%d:%d" % (tag, op, off, arg))
                break
            ret, md = int(w[0]), w[1]
            st = stats.setdefault(tag, {"variants": 0, "rejected": 0, "accepted_same_payload": 0})
            if op == "O":
                exp = [a for a in archives if a[0] == tag][0][2]
                if ret != 0 or (exp and md != exp):
                    ck.violation({"engine": "corruption", "archive": tag, "op": "O", "broken": "the unmodified archive does not load to the original payload", "ret": ret, "md5": md, "expected": exp},
                                 key="c09-base:" + tag)
                expect[tag] = exp or md
                continue
            ck.count()
            st["variants"] += 1
            if ret < 0:
                st["rejected"] += 1
                ck.nontrivial((tag, op, off, arg))
            elif md == expect.get(tag):
                st["accepted_same_payload"] += 1
            elif md in members.get(tag, ()):
                # an archive with several packed files: the damaged one was refused and another, intact packed file was loaded instead -
                # its payload is what was packed
                st["accepted_other_intact_member"] = st.get("accepted_other_intact_member", 0) + 1
            else:
                ck.violation({"engine": "corruption", "archive": tag, "op": op, "off": off, "arg": arg, "ret": ret, "md5": md, "expected_md5": expect.get(tag),
                              "broken": "monitor: a corrupted archive was accepted with a different payload",
                              "replay": "bin/check C09 quick --replay <this file>"},
                             key="c09:%s:%s:%d:%d" % (tag, op, off, arg))
        ck.engine_stat("corruption", archives=stats)
        ck.sample({"engine": "corruption", "archive": archives[0][0] if archives else None, "ops": cmds[2:6]})
    finally:
        shutil.rmtree(tmpd, ignore_errors=True)
    ck.cov["rule"] = ("crc: random buffers of lengths 0..1000 x 3 functions x initial values; corruption: for each archive (python-made gzip stored/deflated, zip stored/deflated, bzip2, xz-crc32 of a small module; the repo's ARC, ArcFS, Spark, LZX archives) "
                      "single-bit flips (all bits for small archives and for the first 48 / last 24 bytes, sampled elsewhere), random byte substitutions, truncations; loaded by path; non-trivial = rejected variant, distinct by (archive, op, offset, value)")
    ck.assumptions += ["a variant that is accepted must report the original payload's MD5 (MD5 computed by the library over the unpacked stream)",
                       "corruption inside entropy-coded streams is enumerated, not proved (2^-32 acceptance is inherent)"]
    ck.finish()

V.main_wrap(main)
