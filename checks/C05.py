# C05 — the public API obeys its documented state machine for any calls and arguments.
import os, sys, json
import vcommon as V

INTS = [-2147483648, -2147483647, -65536, -256, -101, -100, -2, -1, 0, 1, 2, 3, 4, 10, 63, 64, 65, 99, 100, 101, 127, 128, 199, 200, 201, 255, 256, 257, 1000, 65535, 65536, 2147483646, 2147483647]

def gen_history(rng, mods, wav, n):
    """state-aware generator: most calls are legal in the state the generator believes the context is in"""
    h = []
    st = 0
    shape = None
    def I(*pref):
        return rng.choice(list(pref) * 3 + INTS) if pref else rng.choice(INTS)
    for _ in range(n):
        r = rng.random()
        legal = rng.random() < 0.8
        if st == 0 and legal and r < 0.5:
            m = rng.choice(mods); kind = rng.choice(["", "@mem:", "@file:", "@cb:"])
            h.append("LOAD %s%s" % (kind, m)); st = 1; continue
        if st == 1 and legal and r < 0.4:
            h.append("START %d %d" % (rng.choice([4000, 8000, 11025, 44100, 49170]), rng.randrange(0, 8))); st = 2; continue
        k = rng.random()
        if k < 0.04: h.append("LOAD %s" % rng.choice(mods + ["/nonexistent/x.mod", "@empty", "@mem:/etc/hostname", "/etc"])); st = 1 if "test-dev" in h[-1] else (st if h[-1].endswith(("x.mod", "@empty", "/etc")) else 0)
        elif k < 0.07: h.append("REL"); st = 0
        elif k < 0.11: h.append("START %d %d" % (rng.choice([3999, 4000, 22050, 49170, 49171, I(44100)]), I(0, 1, 7))); 
        elif k < 0.14: h.append("END"); st = min(st, 1)
        elif k < 0.22: h.append("PF")
        elif k < 0.25: h.append("PB %d %d" % (rng.choice([0, 0, 1]), rng.choice([0, 1, 100, 5000, -1])))
        elif k < 0.28: h.append(rng.choice(["GFI", "GMI", "SCAN", "STOP", "RST"]))
        elif k < 0.32: h.append(rng.choice(["NEXT", "PREV"]))
        elif k < 0.38: h.append("SP %d" % I(0, 1, 2, 3))
        elif k < 0.44: h.append("SR %d" % I(0, 1, 31, 63, 64))
        elif k < 0.47: h.append("SEEK %d" % I(0, 1000, 20000))
        elif k < 0.54: h.append("MUTE %d %d" % (I(0, 1, 3, 63, 64), I(0, 1, 2, -1)))
        elif k < 0.61: h.append("VOL %d %d" % (I(0, 1, 3, 63, 64), I(0, 50, 100, 101, -1)))
        elif k < 0.73: h.append("SET %d %d" % (I(*range(0, 14)), I(0, 1, 2, 3, 70, 100, 200)))
        elif k < 0.83: h.append("GET %d" % I(*range(0, 14)))
        elif k < 0.86: h.append("INJ %d" % I(0, 1, 3, 63, 64))
        elif k < 0.88: h.append("TF %s" % rng.choice(["1.0", "0.5", "2.0", "0", "-1", "nan", "1e9", "1e-9", "inf"]))
        elif k < 0.90: h.append("SSM %d %d" % (I(1, 2, 4, 64), I(0, 1, 2)))
        elif k < 0.91: h.append("ESM")
        elif k < 0.93: h.append("SPI %d %d %d %d" % (I(0, 1), I(0, 60), I(0, 64), I(0, 1)))
        elif k < 0.95: h.append("SPS %d %d %d %d" % (I(0, 1), I(0, 60), I(0, 64), I(0, 1)))
        elif k < 0.965: h.append("PAN %d %d" % (I(0, 1), I(0, 128, 255, 256)))
        elif k < 0.98: h.append("SML %d %s" % (I(0, 1), rng.choice([wav, "/nonexistent.wav", mods[0]])))
        elif k < 0.99: h.append("SMR %d" % I(0, 1))
        else: h.append("SIP %s" % rng.choice(["~", "/tmp", "/nonexistent"]))
    return h

def main():
    tier = sys.argv[1] if len(sys.argv) > 1 else "quick"
    replay = sys.argv[sys.argv.index("--replay") + 1] if "--replay" in sys.argv else None
    ck = V.Check("C05", tier)
    rng = ck.rng
    ck.proof_leg(["Extract/Extract_api.vo"])
    drv = V.build_driver("c05_drv", ["c05_drv.c"])
    model = V.ocaml_build("api")
    env = V.san_env()
    data = os.path.join(V.REPO, "test-dev", "data")
    mods = [os.path.join(data, m) for m in ("ode2ptk.mod", "test.xm", "test.it", "storlek_05.it", "m/panic.s3m", "m/reborning.med", "m/IMS.beast-busters1.st", "G00_nosuck.it", "../openmpt/it/CarryNNA.it")]      # the last two use virtual channels (new-note actions)
    mods = [m for m in mods if os.path.exists(m)]
    wav = os.path.join(data, "blip.wav")
    if not os.path.exists(wav):
        cand = [x for x in os.listdir(data) if x.endswith(".wav")]
        wav = os.path.join(data, cand[0]) if cand else "/nonexistent.wav"
    if replay:
        hists = [json.load(open(replay))["history"]]
    else:
        cdir = os.path.join(V.VERIF, "corpus", "C05")
        hists = [json.load(open(os.path.join(cdir, f)))["history"] for f in sorted(os.listdir(cdir))] if os.path.isdir(cdir) else []
        nh = 250 if tier == "quick" else 6000
        hists += [gen_history(rng, mods, wav, rng.choice([20, 60, 120])) for _ in range(nh)]
    if not replay:
        # boundary motifs: (1) channel arguments around every limit the call could be checked against (module channels, XMP_MAX_CHANNELS,
        # virtual channels = tracks + voices), while playing each module; (2) xmp_set_row while another position is pending, on modules
        # whose patterns have different lengths (the row is to be judged against the pattern of the pending position)
        import tempfile
        sys.path.insert(0, os.path.join(V.VERIF, "gen")); import modgen
        gdir = tempfile.mkdtemp(prefix="vp-c05-", dir="/var/tmp"); gmods = []
        for k, rows in enumerate(((16, 64), (64, 16), (1, 100, 32))):
            for fmt in ("xm", "it"):
                song = dict(chn=4, orders=list(range(len(rows))), patterns=[modgen.empty_pattern(r, 4) for r in rows], speed=3, bpm=125, name="gen")
                gp = os.path.join(gdir, "rows%d.%s" % (k, fmt)); open(gp, "wb").write(modgen.WRITERS[fmt](song)); gmods.append(gp)
        chans = (-1, 0, 3, 4, 31, 32, 62, 63, 64, 65, 66, 100, 127, 128, 129, 130, 131, 132, 195, 196, 255, 256)
        for m in mods + gmods[:2]:
            h = ["LOAD %s" % m, "START 44100 0", "PF", "PF"]
            for c in chans: h += ["INJ %d" % c, "MUTE %d 1" % c, "MUTE %d -1" % c, "VOL %d 50" % c, "VOL %d -1" % c]
            h += ["PF"] + ["GET %d" % k for k in range(14)]
            # an event injected on a channel the call must ignore may not land anywhere: read everything back after each one
            for c in list(range(60, 140)) + [195, 196, 197, 1000, 100000]: h += ["INJ %d" % c] + (["GET %d" % k for k in range(14)] if c % 4 == 0 else [])
            h += ["GET %d" % k for k in range(14)] + ["MUTE %d -1" % c for c in (0, 1, 63)] + ["VOL %d -1" % c for c in (0, 1, 63)] + ["PF", "END", "REL"]
            hists.append(h)
        for m in gmods:
            h = ["LOAD %s" % m, "START 22050 0", "PF", "PF", "PF"]
            for r in (0, 1, 15, 16, 17, 31, 32, 63, 64, 99, 100):
                h += ["SP 1", "PF", "PF", "RST", "SR %d" % r, "PF", "SP 1", "SR %d" % r, "PF", "SP 0", "SR %d" % r, "PF", "NEXT", "SR %d" % r, "PF", "PREV", "SR %d" % r, "PF",
                      "SP 2", "SR %d" % r, "PF", "STOP", "SR %d" % r, "PF", "START 22050 0", "SEEK 100000", "SR %d" % r, "PF"]
            hists.append(h)
    nd = 0
    callhist = {}
    rethist = {}
    for h in hists:
        rc = V.run([drv], inp="\n".join(h) + "\n", env=env, timeout=600)
        lines = [l for l in rc.stdout.split("\n") if " ## " in l]
        crashed = rc.returncode != 0
        mlines = [l.split(" ## ")[0] for l in lines]
        obs = [l.split(" ## ")[1].split() for l in lines]
        mo = V.run([model], inp="NEW\n" + "\n".join(mlines) + "\n").stdout.split("\n")[1:]
        ck.count(len(lines))
        bad = None
        for i, (ml, ob) in enumerate(zip(mlines, obs)):
            op = ml.split()[0]
            callhist[op] = callhist.get(op, 0) + 1
            m = mo[i].split() if i < len(mo) else ["missing", "?", "0"]
            mret, mstate, spec = m[0], m[1], m[2]
            ret, state = ob[0], ob[1]
            cls = "err" if ret.lstrip("-").isdigit() and int(ret) < 0 else "ok"
            rethist[cls] = rethist.get(cls, 0) + 1
            okret = (mret == ret) or (mret == "+" and ret.lstrip("-").isdigit() and int(ret) >= 0) or (mret == "F" and ret in ("0", "-1")) or (mret == "v" and ret == "v")
            if op == "SP" and ret == "-1" and mret == "+" and mstate == state:
                # xmp_set_position reports the internal "restart pending" encoding (-1) for the first order; the repository's own
                # test-dev/test_player_loop.c expects exactly that, so it cannot be repaired without editing the suite: known finding
                ck.violation({"engine": "api", "history": h[:i + 1], "failing_call": ml, "got_impl(ret,state)": [ret, state], "expected_model(ret,state)": [mret, mstate],
                              "broken": "documented contract: xmp_set_position returns the new position (0 for the first order), got -1"},
                             key="set_position-returns-minus-1-for-first-order")
                continue
            if not okret or mstate != state or spec != "1":
                bad = (i, ml, ret, state, mret, mstate, spec)
                break
        if crashed and bad is None:
            k = len(lines)
            bad = (k, h[k] if k < len(h) else "?", "CRASH", "?", "-", "-", "-")
        if bad:
            nd += 1
            i = bad[0]
            ck.violation({"engine": "api", "history": h[:i + 1], "failing_call": bad[1], "got_impl(ret,state)": [bad[2], bad[3]],
                          "expected_model(ret,state)": [bad[4], bad[5]], "documented_contract_allows": bad[6], "stderr": rc.stderr[-1800:] if crashed else "",
                          "broken": "correspondence api_step / contract spec_allows (Model/Api.v) vs the implementation" + (": sanitizer report / crash" if bad[2] == "CRASH" else "")},
                         key="api:%s" % " ".join(bad[1].split()[:2]))
        else:
            ck.nontrivial(tuple(h))
            if len(ck.cov["samples"]) < 2:
                ck.sample({"history": h[:12], "observed(ret,state)": obs[:12]})
    ck.engine_stat("api", histories=len(hists), call_hist=callhist, return_class_hist=rethist, disagreements=nd)
    ck.cov["rule"] = ("generated call histories (20-120 calls) over the exported functions incl. the external sample mixer; a state-aware generator makes ~80% of calls legal; integer arguments from the int boundary set "
                      "{INT_MIN, -1, 0, 1, 63, 64, 100, 101, 200, 201, 255, 256, INT_MAX, ...}; four load entry points, failing loads, failing starts; "
                      "per call the return value and xmp_get_player(STATE) are compared with the extracted model, and the model's result with the documented contract; distinct = distinct history")
    ck.assumptions += ["load / start / WAV-load outcomes are taken from the implementation (oracle) - what they allocate is C04's subject",
                       "the audible effect of parameters is C13/C14's subject; exact positions returned by the position calls are C17's"]
    ck.finish()

V.main_wrap(main)
