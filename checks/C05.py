# C05 — the public API obeys its documented state machine for any calls and arguments.
import os, sys, json
import vcommon as V

INTS = [-2147483648, -2147483647, -65536, -256, -101, -100, -2, -1, 0, 1, 2, 3, 4, 10, 63, 64, 65, 99, 100, 101, 127, 128, 199, 200, 201, 255, 256, 257, 1000, 65535, 65536, 2147483646, 2147483647]

def gen_history(rng, mods, wav, n):
    """state-aware generator: most calls are legal in the state the generator believes the context is in"""
    h = []
    st = 0
    shape = None
    def I(*pref):
        return rng.choice(list(pref) * 3 + INTS) if pref else rng.choice(INTS)
    for _ in range(n):
        r = rng.random()
        legal = rng.random() < 0.8
        if st == 0 and legal and r < 0.5:
            m = rng.choice(mods); kind = rng.choice(["", "@mem:", "@file:", "@cb:"])
            h.append("LOAD %s%s" % (kind, m)); st = 1; continue
        if st == 1 and legal and r < 0.4:
            h.append("START %d %d" % (rng.choice([4000, 8000, 11025, 44100, 49170]), rng.randrange(0, 8))); st = 2; continue
        k = rng.random()
        if k < 0.04: h.append("LOAD %s" % rng.choice(mods + ["/nonexistent/x.mod", "@empty", "@mem:/etc/hostname", "/etc"])); st = 1 if "test-dev" in h[-1] else (st if h[-1].endswith(("x.mod", "@empty", "/etc")) else 0)
        elif k < 0.07: h.append("REL"); st = 0
        elif k < 0.11: h.append("START %d %d" % (rng.choice([3999, 4000, 22050, 49170, 49171, I(44100)]), I(0, 1, 7))); 
        elif k < 0.14: h.append("END"); st = min(st, 1)
        elif k < 0.22: h.append("PF")
        elif k < 0.25: h.append("PB %d %d" % (rng.choice([0, 0, 1]), rng.choice([0, 1, 100, 5000, -1])))
        elif k < 0.28: h.append(rng.choice(["GFI", "GMI", "SCAN", "STOP", "RST"]))
        elif k < 0.32: h.append(rng.choice(["NEXT", "PREV"]))
        elif k < 0.38: h.append("SP %d" % I(0, 1, 2, 3))
        elif k < 0.44: h.append("SR %d" % I(0, 1, 31, 63, 64))
        elif k < 0.47: h.append("SEEK %d" % I(0, 1000, 20000))
        elif k < 0.54: h.append("MUTE %d %d" % (I(0, 1, 3, 63, 64), I(0, 1, 2, -1)))
        elif k < 0.61: h.append("VOL %d %d" % (I(0, 1, 3, 63, 64), I(0, 50, 100, 101, -1)))
        elif k < 0.73: h.append("SET %d %d" % (I(*range(0, 14)), I(0, 1, 2, 3, 70, 100, 200)))
        elif k < 0.83: h.append("GET %d" % I(*range(0, 14)))
        elif k < 0.86: h.append("INJ %d" % I(0, 1, 3, 63, 64))
        elif k < 0.88: h.append("TF %s" % rng.choice(["1.0", "0.5", "2.0", "0", "-1", "nan", "1e9", "1e-9", "inf"]))
        elif k < 0.90: h.append("SSM %d %d" % (I(1, 2, 4, 64), I(0, 1, 2)))
        elif k < 0.91: h.append("ESM")
        elif k < 0.93: h.append("SPI %d %d %d %d" % (I(0, 1), I(0, 60), I(0, 64), I(0, 1)))
        elif k < 0.95: h.append("SPS %d %d %d %d" % (I(0, 1), I(0, 60), I(0, 64), I(0, 1)))
        elif k < 0.965: h.append("PAN %d %d" % (I(0, 1), I(0, 128, 255, 256)))
        elif k < 0.98: h.append("SML %d %s" % (I(0, 1), rng.choice([wav, "/nonexistent.wav", mods[0]])))
        elif k < 0.99: h.append("SMR %d" % I(0, 1))
        else: h.append("SIP %s" % rng.choice(["~", "/tmp", "/nonexistent"]))
    return h

def main():
    tier = sys.argv[1] if len(sys.argv) > 1 else "quick"
    replay = sys.argv[sys.argv.index("--replay") + 1] if "--replay" in sys.argv else None
    ck = V.Check("C05", tier)
    rng = ck.rng
    ck.proof_leg(["Extract/Extract_api.vo"])
    drv = V.build_driver("c05_drv", ["c05_drv.c"])
    model = V.ocaml_build("api")
    env = V.san_env()
    data = os.path.join(V.REPO, "test-dev", "data")
    mods = [os.path.join(data, m) for m in ("ode2ptk.mod", "test.xm", "test.it", "storlek_05.it", "m/panic.s3m", "m/reborning.med", "m/IMS.beast-busters1.st")]
    mods = [m for m in mods if os.path.exists(m)]
    wav = os.path.join(data, "blip.wav")
    if not os.path.exists(wav):
        cand = [x for x in os.listdir(data) if x.endswith(".wav")]
        wav = os.path.join(data, cand[0]) if cand else "/nonexistent.wav"
    if replay:
        hists = [json.load(open(replay))["history"]]
    else:
        cdir = os.path.join(V.VERIF, "corpus", "C05")
        hists = [json.load(open(os.path.join(cdir, f)))["history"] for f in sorted(os.listdir(cdir))] if os.path.isdir(cdir) else []
        nh = 250 if tier == "quick" else 6000
        hists += [gen_history(rng, mods, wav, rng.choice([20, 60, 120])) for _ in range(nh)]
    nd = 0
    callhist = {}
    rethist = {}
    for h in hists:
        rc = V.run([drv], inp="\n".join(h) + "\n", env=env, timeout=600)
        lines = [l for l in rc.stdout.split("\n") if " ## " in l]
        crashed = rc.returncode != 0
        mlines = [l.split(" ## ")[0] for l in lines]
        obs = [l.split(" ## ")[1].split() for l in lines]
        mo = V.run([model], inp="NEW\n" + "\n".join(mlines) + "\n").stdout.split("\n")[1:]
        ck.count(len(lines))
        bad = None
        for i, (ml, ob) in enumerate(zip(mlines, obs)):
            op = ml.split()[0]
            callhist[op] = callhist.get(op, 0) + 1
            m = mo[i].split() if i < len(mo) else ["missing", "?", "0"]
            mret, mstate, spec = m[0], m[1], m[2]
            ret, state = ob[0], ob[1]
            cls = "err" if ret.lstrip("-").isdigit() and int(ret) < 0 else "ok"
            rethist[cls] = rethist.get(cls, 0) + 1
            okret = (mret == ret) or (mret == "+" and ret.lstrip("-").isdigit() and int(ret) >= 0) or (mret == "F" and ret in ("0", "-1")) or (mret == "v" and ret == "v")
            if op == "SP" and ret == "-1" and mret == "+" and mstate == state:
                # xmp_set_position reports the internal "restart pending" encoding (-1) for the first order; the repository's own
                # test-dev/test_player_loop.c expects exactly that, so it cannot be repaired without editing the suite: known finding
                ck.violation({"engine": "api", "history": h[:i + 1], "failing_call": ml, "got_impl(ret,state)": [ret, state], "expected_model(ret,state)": [mret, mstate],
                              "broken": "documented contract: xmp_set_position returns the new position (0 for the first order), got -1"},
                             key="set_position-returns-minus-1-for-first-order")
                continue
            if not okret or mstate != state or spec != "1":
                bad = (i, ml, ret, state, mret, mstate, spec)
                break
        if crashed and bad is None:
            k = len(lines)
            bad = (k, h[k] if k < len(h) else "?", "CRASH", "?", "-", "-", "-")
        if bad:
            nd += 1
            i = bad[0]
            ck.violation({"engine": "api", "history": h[:i + 1], "failing_call": bad[1], "got_impl(ret,state)": [bad[2], bad[3]],
                          "expected_model(ret,state)": [bad[4], bad[5]], "documented_contract_allows": bad[6], "stderr": rc.stderr[-1800:] if crashed else "",
                          "broken": "correspondence api_step / contract spec_allows (Model/Api.v) vs the implementation" + (": sanitizer report / crash" if bad[2] == "CRASH" else "")},
                         key="api:%s" % " ".join(bad[1].split()[:2]))
        else:
            ck.nontrivial(tuple(h))
            if len(ck.cov["samples"]) < 2:
                ck.sample({"history": h[:12], "observed(ret,state)": obs[:12]})
    ck.engine_stat("api", histories=len(hists), call_hist=callhist, return_class_hist=rethist, disagreements=nd)
    ck.cov["rule"] = ("generated call histories (20-120 calls) over the exported functions incl. the external sample mixer; a state-aware generator makes ~80% of calls legal; integer arguments from the int boundary set "
                      "{INT_MIN, -1, 0, 1, 63, 64, 100, 101, 200, 201, 255, 256, INT_MAX, ...}; four load entry points, failing loads, failing starts; "
                      "per call the return value and xmp_get_player(STATE) are compared with the extracted model, and the model's result with the documented contract; distinct = distinct history")
    ck.assumptions += ["load / start / WAV-load outcomes are taken from the implementation (oracle) - what they allocate is C04's subject",
                       "the audible effect of parameters is C13/C14's subject; exact positions returned by the position calls are C17's"]
    ck.finish()

V.main_wrap(main)
