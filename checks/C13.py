# C13 — output configuration changes only the encoding, not the music.
import os, sys, subprocess, json
from fractions import Fraction
import vcommon as V

def main():
    tier = sys.argv[1] if len(sys.argv) > 1 else "quick"
    replay = sys.argv[sys.argv.index("--replay") + 1] if "--replay" in sys.argv else None
    ck = V.Check("C13", tier)
    rng = ck.rng
    okp, _ = ck.proof_leg(["Extract/Extract_downmix.vo"])
    drv = V.build_driver("c13_drv", ["c13_drv.c"])
    env = V.san_env()
    model = V.ocaml_build("downmix") if os.path.exists(os.path.join(V.COQ, "extracted", "downmix_model.ml")) else None
    if model is None:
        ck.broken.append("extraction of Model/Downmix.v")
        ck.finish()

    # ---- constants the model hard-codes
    r = V.run([drv, "consts"], env=env)
    if r.stdout.split() != ["XMP_MAX_FRAMESIZE", "24585"]:
        ck.violation({"broken": "constant XMP_MAX_FRAMESIZE differs from Model/Downmix.v", "got": r.stdout}, found_input=False)

    # ---- T1: downmix differential (hook H4)
    cases = []
    if replay:
        rp = json.load(open(replay))
        cases = [tuple(rp["case"])] if rp.get("engine") == "downmix" else []
    else:
        for bits in (8, 16):
            for amp in (0, 1, 2, 3):
                sh = 12 + (8 if bits == 8 else 0) - amp
                lo, hi = (-128, 127) if bits == 8 else (-32768, 32767)
                for offs in (0, 0x80 if bits == 8 else 0x8000):
                    xs = set()
                    for q in (lo - 1, lo, lo + 1, -2, -1, 0, 1, 2, hi - 1, hi, hi + 1):
                        for d in (0, 1, (1 << sh) - 1, (1 << sh) // 2):
                            xs.add(q * (1 << sh) + d)
                    xs.update([-2**31, -2**31 + 1, 2**31 - 1, 2**31 - 2])
                    n = 2500 if tier == "quick" else 60000
                    for _ in range(n):
                        k = rng.choice((8, 16, 24, 28, 31))
                        xs.add(rng.randrange(-2**k, 2**k))
                        q = rng.randrange(lo - 3, hi + 4)
                        xs.add(q * (1 << sh) + rng.randrange(0, 1 << sh))
                    for x in xs:
                        if -2**31 <= x < 2**31:
                            cases.append((bits, amp, offs, x))
    inp = "".join("%d %d %d %d\n" % c for c in cases)
    rc = V.run([drv, "downmix"], inp=inp, env=env)
    rm = V.run([model], inp="".join("D %d %d %d %d\n" % c for c in cases))
    co, mo = rc.stdout.split("\n"), rm.stdout.split("\n")
    if rc.returncode != 0:
        ck.violation({"engine": "downmix", "broken": "driver crashed / sanitizer report", "stderr": rc.stderr[-2000:]}, found_input=False)
    nd = 0
    hist = {}
    for i, c in enumerate(cases):
        ck.count()
        a = co[i] if i < len(co) else "missing"
        b = mo[i] if i < len(mo) else "missing"
        bits, amp, offs, x = c
        sh = 12 + (8 if bits == 8 else 0) - amp
        q = x >> sh
        lo, hi = (-128, 127) if bits == 8 else (-32768, 32767)
        br = "lo" if q < lo else "hi" if q > hi else "mid"
        hist[br] = hist.get(br, 0) + 1
        if br != "mid" or x % (1 << sh):
            ck.nontrivial(("D",) + c)
        if a != b:
            nd += 1
            if nd <= 3:
                # which theorem predicate fails on the C output?
                ck.violation({"engine": "downmix", "case": list(c), "expected_model": b, "got_impl": a,
                              "broken": "correspondence downmix (Model/Downmix.v vs downmix_int_%dbit)" % bits,
                              "replay": "bin/check C13 --replay <this file>"},
                             key="downmix:%d:%d:%d:%d" % c)
    ck.engine_stat("downmix", cases=len(cases), disagreements=nd, branch_hist=hist)
    if cases:
        ck.sample({"engine": "downmix", "case(bits,amp,offs,x)": list(cases[len(cases) // 2]), "model": mo[len(cases) // 2], "impl": co[len(cases) // 2]})

    # ---- property relations evaluated directly on the implementation's outputs (search leg / monitor)
    if not replay:
        rel_bad = 0
        xs = [rng.randrange(-2**31, 2**31) for _ in range(3000)] + [rng.randrange(-2**22, 2**22) for _ in range(3000)]
        lines = []
        for x in xs:
            for amp in (0, 1, 2, 3):
                lines += ["8 %d 0 %d" % (amp, x), "8 %d 128 %d" % (amp, x), "16 %d 0 %d" % (amp, x), "16 %d 32768 %d" % (amp, x)]
        out = V.run([drv, "downmix"], inp="\n".join(lines) + "\n", env=env).stdout.split()
        k = 0
        for x in xs:
            for amp in (0, 1, 2, 3):
                s8, u8, s16, u16 = (int(v) for v in out[k:k + 4]); k += 4
                ck.count()
                ok = (u8 == (s8 + 128) % 256) and (u16 == (s16 + 32768) % 65536) and (s8 == s16 // 256) and (u8 == u16 // 256)
                if not ok:
                    rel_bad += 1
                    if rel_bad <= 2:
                        ck.violation({"engine": "downmix-relations", "x": x, "amp": amp, "s8": s8, "u8": u8, "s16": s16, "u16": u16,
                                      "broken": "monitor: unsigned=signed+offset / 8-bit=high byte of 16-bit on implementation output"},
                                     key="downmix-rel:%d:%d" % (x, amp))
        ck.engine_stat("downmix-relations", cases=len(xs) * 4, failures=rel_bad)

    # ---- T2: tick size grid
    mod_default = os.path.join(V.REPO, "test-dev", "data", "ode2ptk.mod")
    if not replay:
        freqs = [4000, 4001, 8000, 11025, 22050, 44100, 48000, 49169, 49170]
        factors = [(10.0, 250.0), (2.64, 250.0), (4.01373, 250.0), (10.0 * 4 / 3, 250.0), (10.0, 208.0), (120.0, 250.0), (0.5, 250.0)]
        tcases = []
        bpms = list(range(1, 1001)) if tier == "thorough" else sorted(set(list(range(1, 60)) + list(range(60, 1001, 7)) + [124, 125, 126, 255, 256, 999, 1000]))
        for f in freqs + ([rng.randrange(4000, 49171) for _ in range(20)] if tier == "thorough" else [rng.randrange(4000, 49171) for _ in range(4)]):
            for tf, rr in factors:
                for b in bpms:
                    tcases.append((f, tf, rr, b))
        inp = "".join("%d %s %s %d\n" % (f, float(tf).hex(), float(rr).hex(), b) for f, tf, rr, b in tcases)
        rc = V.run([drv, "ticksize", mod_default], inp=inp, env=env)
        minp = []
        for f, tf, rr, b in tcases:
            fr = Fraction(tf) * Fraction(rr)
            minp.append("T %d %d %d %d" % (f, fr.numerator, fr.denominator, b))
        rm = V.run([model], inp="\n".join(minp) + "\n")
        co, mo = rc.stdout.split(), rm.stdout.split()
        nd = skipped = 0
        for i, c in enumerate(tcases):
            f, tf, rr, b = c
            exact = Fraction(f) * Fraction(tf) * Fraction(rr) / (b * 1000)
            fracpart = exact - (exact.numerator // exact.denominator)
            if fracpart != 0 and (fracpart < Fraction(1, 10**9) or fracpart > 1 - Fraction(1, 10**9)):
                skipped += 1   # IEEE rounding could legitimately cross the integer: outside the model
                continue
            ck.count()
            if exact < 8 or exact > 12292:
                ck.nontrivial(("T", f, tf, b))
            if i >= len(co) or i >= len(mo) or co[i] != mo[i]:
                nd += 1
                if nd <= 3:
                    ck.violation({"engine": "ticksize", "case(freq,tf,rrate,bpm)": list(c), "expected_model": mo[i] if i < len(mo) else None,
                                  "got_impl": co[i] if i < len(co) else None, "broken": "correspondence ticksize (libxmp_mixer_prepare)"},
                                 key="ticksize:%d:%r:%r:%d" % c)
        ck.engine_stat("ticksize", cases=len(tcases), skipped_near_integer=skipped, disagreements=nd)
        ck.sample({"engine": "ticksize", "case": list(tcases[7]), "model": mo[7], "impl": co[7]})

    # ---- T3: timeline across configurations on real modules; PCM encoding relations on real renders
    if not replay:
        data = os.path.join(V.REPO, "test-dev", "data")
        mods = ["ode2ptk.mod", "longest.med", "m/xyce-dans_la_rue.xm", "storlek_05.it", "m/adlib.s3m", "m/panic.s3m", "m/reborning.med", "m/aladdin - aladdin.far",
                "storlek_11.it", "pattern_loop_it.it", "m/Jazz Jackrabbit 2 - Carrotus.j2b" ]
        mods = [m for m in mods if os.path.exists(os.path.join(data, m))]
        extra = sorted(x for x in os.listdir(os.path.join(data, "m")) if not x.endswith((".gz", ".bz2", ".xz", ".zip", ".lha", ".Z", ".set", ".nt", ".as", ".NT", ".AS")))
        rng.shuffle(extra)
        mods += ["m/" + x for x in extra[: (6 if tier == "quick" else 80)]]
        # generated IT modules whose tempo changes by slides (T0x / T1x: the tempo moves on every tick of the row, by steps small enough
        # that at the low rates the tick size in sample frames often stays the same while the tempo - and with it the time - moves)
        sys.path.insert(0, os.path.join(V.VERIF, "gen")); import modgen, tempfile
        gdir = tempfile.mkdtemp(prefix="vp-c13-", dir="/var/tmp")
        for gi in range(3 if tier == "quick" else 24):
            song = modgen.random_flow_song(rng, "it", vocab=('speed',), max_orders=3, max_pats=2, density=0.02)
            song['bpm'] = rng.choice((200, 230, 255, 160)); song['speed'] = rng.choice((3, 6))
            for pat in song['patterns']:
                for row in pat:
                    if rng.random() < 0.35: row[0] = dict(row[0] or {}, fx=('raw', (20, rng.choice((0x01, 0x02, 0x05, 0x11, 0x12, 0x15, 0x00)))))
            gp = os.path.join(gdir, "slide%02d.it" % gi); open(gp, "wb").write(modgen.WRITERS["it"](song)); mods.insert(2, gp)
        # short modules that loop every few frames: whatever is set again while playing must not touch the loop counter either
        for gi in range(2 if tier == "quick" else 10):
            pat = modgen.empty_pattern(rng.choice((4, 8, 16)), 2); pat[0][0] = dict(note=25, ins=1)
            song = dict(chn=2, orders=[0], patterns=[pat], speed=rng.choice((2, 3)), bpm=125, restart=0, name="short loop")
            gp = os.path.join(gdir, "loop%02d.it" % gi); open(gp, "wb").write(modgen.WRITERS["it"](song)); mods.insert(1, gp)
        nframes = 240 if tier == "quick" else 1200
        base = (44100, 0, 1, 1, 100, 100)
        configs = [base, (4000, 7, 0, 3, -100, 37), (8000, 1, 2, 0, 0, 0), (11025, 2, 1, 2, 70, 200), (22050, 3, 0, 1, -40, 100),
                   (48000, 4, 2, 3, 100, 100), (49170, 5, 1, 0, 30, 64), (44100, 6, 0, 2, 100, 100)]
        if tier == "thorough":
            configs += [(rng.randrange(4000, 49171), rng.randrange(0, 8), rng.randrange(0, 3), rng.randrange(0, 4), rng.randrange(-100, 101), rng.randrange(0, 201)) for _ in range(8)]
        nmods = 0
        # every module at its own tempo factor; the first few also with xmp_set_tempo_factor(5.0), which makes
        # ticks long enough for the frame-size cap to apply at the higher rates (the timeline must not notice)
        runs = [(m, None) for m in mods] + [(m, "3.0") for m in mods[:4]]
        for m, tfac in runs:
            path = os.path.join(data, m)
            ref = None
            for cfg in configs:
                r = V.run([drv, "timeline", path, str(nframes)] + [str(x) for x in cfg] + ["T"] + ([tfac] if tfac else []), env=env, timeout=300)
                if r.returncode == 3:
                    break
                if r.returncode != 0:
                    ck.violation({"engine": "timeline", "module": m, "config": list(cfg), "broken": "sanitizer / crash while rendering", "stderr": r.stderr[-1500:]},
                                 key="timeline-crash:" + m)
                    break
                lines = r.stdout.strip().split("\n")
                if lines and lines[0] == "TEMPO-FACTOR-REFUSED":
                    # xmp_set_tempo_factor refuses factors whose tick would exceed the frame cap at the *current* rate (control.c):
                    # the control call itself failed, so this configuration is not a run of the same call sequence
                    refused = ck.cov["engines"].setdefault("timeline", {}).setdefault("tempo_factor_refused", 0)
                    ck.cov["engines"]["timeline"]["tempo_factor_refused"] = refused + 1
                    continue
                tl = []
                for ln in lines:
                    w = ln.split()
                    if len(w) < 15:
                        tl.append(tuple(w)); continue
                    tl.append(tuple(w[:11]))
                    # buffer size vs model
                    ck.count()
                    bs, ft = int(w[11]), int(w[12])
                    tf, rr = float.fromhex(w[13]), float.fromhex(w[14])
                    bpm = int(w[6])
                    fr = Fraction(tf) * Fraction(rr)
                    exact = Fraction(cfg[0]) * fr / (bpm * 1000)
                    t = exact.numerator // exact.denominator
                    t = 8 if t < 8 else 12292 if t > 12292 else t
                    mono, eight = bool(cfg[1] & 4), bool(cfg[1] & 1)
                    exp = t * (1 if mono else 2) * (1 if eight else 2)
                    fracpart = exact - (exact.numerator // exact.denominator)
                    near = fracpart != 0 and (fracpart < Fraction(1, 10**9) or fracpart > 1 - Fraction(1, 10**9))
                    if bs != exp and not near:
                        ck.violation({"engine": "timeline", "module": m, "config": list(cfg), "frame": len(tl) - 1, "buffer_size": bs, "model_buffer_size": exp,
                                      "broken": "buffer_size differs from Model/Downmix.v buffer_size(prepare_ticksize)"},
                                     key="bufsize:%s:%r" % (m, cfg))
                        break
                if ref is None:
                    ref = tl
                    nmods += 1
                    ck.nontrivial(("TL", m, tfac))
                elif tl != ref:
                    k = next((i for i in range(min(len(tl), len(ref))) if tl[i] != ref[i]), min(len(tl), len(ref)))
                    ck.violation({"engine": "timeline", "module": m, "config_a": list(base), "config_b": list(cfg), "first_differing_frame": k,
                                  "a": ref[k] if k < len(ref) else None, "b": tl[k] if k < len(tl) else None, "tempo_factor": tfac,
                                  "fields": "pos pattern row num_rows frame speed bpm time loop_count total_time sequence",
                                  "broken": "monitor: timeline differs between output configurations"},
                                 key="timeline:%s" % m)
                    break
            # the output parameters set again WHILE playing (other interpolation, amplification, mix, volume, DSP switch): the timeline of
            # the frames before and after the call must still be the reference one
            if ref is not None and tfac is None:
                for sw in ((rng.choice((90, 100, 101, 150)), rng.choice((0, 2)), rng.randrange(0, 4), rng.choice((-100, 0, 50)), rng.choice((0, 60, 200)), rng.choice((0, 1))),
                           (rng.choice((1, 33, 120)), 1, 1, 100, 100, 0)):
                    r = V.run([drv, "timeline", path, str(nframes)] + [str(x) for x in base] + ["T", "-", ":".join(str(x) for x in sw)], env=env, timeout=300)
                    tl = [tuple(ln.split()[:11]) if len(ln.split()) >= 15 else tuple(ln.split()) for ln in r.stdout.strip().split("\n")]
                    ck.count()
                    if r.returncode not in (0, 3) or tl != ref:
                        k = next((i for i in range(min(len(tl), len(ref))) if tl[i] != ref[i]), min(len(tl), len(ref)))
                        ck.violation({"engine": "timeline", "module": m, "config_a": list(base), "switch(frame,interp,amp,mix,vol,dsp)": list(sw), "first_differing_frame": k,
                                      "a": ref[k] if k < len(ref) else None, "b": tl[k] if k < len(tl) else None,
                                      "fields": "pos pattern row num_rows frame speed bpm time loop_count total_time sequence",
                                      "broken": "monitor: setting the output parameters again while playing changes the timeline"}, key="timeline-switch:%s" % m)
                        break
            # PCM encoding relations on the real render: same rate/mono-ness/interp/amp/mix/vol, vary 8-bit and unsigned flags
            for monoflag in ((0, 4) if tfac is None else ()):
                outs = {}
                for fmt in (0, 1, 2, 3):
                    r = V.run([drv, "timeline", path, str(min(nframes, 120)), "22050", str(fmt | monoflag), "1", "1", "60", "100", "P"], env=env, timeout=300)
                    if r.returncode != 0:
                        break
                    outs[fmt] = [bytes.fromhex(x) if x not in ("-", "END", "START-FAILED") else b"" for x in r.stdout.split()]
                if len(outs) < 4:
                    continue
                for fi in range(len(outs[0])):
                    s16, s8, u16, u8 = outs[0][fi], outs[1][fi], outs[2][fi], outs[3][fi]
                    ck.count()
                    ok = len(s16) == 2 * len(s8) == len(u16) == 2 * len(u8)
                    if ok:
                        hi16 = s16[1::2]
                        ok = (s8 == hi16) and all((b ^ 0x80) == a for a, b in zip(u8, s8)) and (u16[0::2] == s16[0::2]) and all((b ^ 0x80) == a for a, b in zip(u16[1::2], s16[1::2]))
                    if not ok:
                        ck.violation({"engine": "pcm-relations", "module": m, "frame": fi, "mono": bool(monoflag),
                                      "broken": "monitor: 8-bit != high byte of 16-bit, or unsigned != signed + mid-scale, on a real render"},
                                     key="pcmrel:%s" % m)
                        break
        ck.engine_stat("timeline", modules=nmods, configs=len(configs), frames=nframes)
        ck.sample({"engine": "timeline", "module": mods[0], "configs(rate,format,interp,amp,mix,vol)": [list(c) for c in configs[:3]]})

    ck.cov["rule"] = ("downmix: boundary values around every clamp for each (bits,amp,offs) plus random accumulators, non-trivial = clipped or with discarded low bits; "
                      "ticksize: freq x time-factor x bpm grid, non-trivial = floor/cap applies; timeline: module counted once when >= 8 configurations were compared frame by frame")
    ck.assumptions += ["IEEE-754 rounding of the tick-size expression is outside the model (cases within 1e-9 of an integer are skipped and counted)",
                       "interpolation kernels' sample values are not modelled; only their independence from the timeline is checked"]
    ck.finish()

V.main_wrap(main)
