# C07 — all four I/O entry points see the same module.
import os, sys, json, tempfile, shutil
import vcommon as V
sys.path.insert(0, os.path.join(V.VERIF, "gen"))
import mutate

WIDTH = {"R16L": (2, "little"), "R16B": (2, "big"), "R24L": (3, "little"), "R24B": (3, "big"), "R32L": (4, "little"), "R32B": (4, "big")}

def gen_ops(rng, size):
    ops = []
    for _ in range(rng.randrange(3, 40)):
        k = rng.random()
        if k < 0.12: ops.append(("R8",))
        elif k < 0.2: ops.append(("R8S",))
        elif k < 0.45: ops.append((rng.choice(list(WIDTH)),))
        elif k < 0.62: ops.append(("RB", rng.choice((0, 1, 1, 2, 3, 4, 7)), rng.choice((0, 1, 2, 3, 5, size, size + 1))))
        elif k < 0.8:
            wh = rng.choice((0, 0, 1, 2, 2, 3))
            off = rng.choice((0, 1, -1, 2, -2, size, size - 1, size + 1, size + 5, -size, -size - 1, rng.randrange(-size - 2, size + 3)))
            ops.append(("SK", off, wh))
        elif k < 0.88: ops.append(("TL",))
        elif k < 0.95: ops.append(("EF",))
        else: ops.append(("ER",))
    return ops

def corpus(rng, n):
    base = os.path.join(V.REPO, "test-dev", "data")
    out = []
    for d in (base, os.path.join(base, "m")):
        for f in sorted(os.listdir(d)):
            fp = os.path.join(d, f)
            if os.path.isfile(fp) and not f.endswith((".data", ".c", ".txt", ".h", ".wav")) and "\n" not in f and os.path.getsize(fp) < 3000000:
                out.append(fp)
    rng.shuffle(out)
    return out[:n]

def main():
    tier = sys.argv[1] if len(sys.argv) > 1 else "quick"
    replay = sys.argv[sys.argv.index("--replay") + 1] if "--replay" in sys.argv else None
    ck = V.Check("C07", tier)
    rng = ck.rng
    ck.proof_leg(["Extract/Extract_hio.vo"])
    drv = V.build_driver("c07_drv", ["c07_drv.c"])
    model = V.ocaml_build("hio")
    env = V.san_env()
    tmpd = tempfile.mkdtemp(prefix="vp-c07-", dir="/var/tmp")
    try:
        # ---- (a) hio-layer differential: three back-ends vs three models; FILE/MEM agreement inside the safe fragment
        cases = []
        if replay and json.load(open(replay)).get("engine") == "hio":
            rp = json.load(open(replay)); cases = [(rp["data"], [tuple(o) for o in rp["ops"]])]
        elif not replay:
            for _ in range(400 if tier == "quick" else 8000):
                size = rng.choice((1, 1, 2, 3, 4, 5, 7, 8, 9, 16, 33))
                data = bytes(rng.randrange(256) for _ in range(size))
                cases.append((data.hex(), gen_ops(rng, size)))
        cin, min_ = [], []
        for data, ops in cases:
            for be in "FMC":
                cin.append("D %s %s" % (be, data)); min_.append("D %s %s" % (be, data))
                for o in ops:
                    cin.append(" ".join(str(x) for x in o))
                    min_.append("RN %d" % WIDTH[o[0]][0] if o[0] in WIDTH else " ".join(str(x) for x in o))
                cin.append("GO"); min_.append("GO")
        nd = 0; nsafe = 0; ndiv = 0
        if cases:
            rc = V.run([drv, "hio", os.path.join(tmpd, "hio.bin")], inp="\n".join(cin) + "\n", env=env, timeout=3000)
            rm = V.run([model], inp="\n".join(min_) + "\n", timeout=3000)
            cblocks = [b.strip().split("\n") for b in rc.stdout.split("DONE\n") if b.strip()]
            mblocks = [b.strip().split("\n") for b in rm.stdout.split("DONE\n") if b.strip()]
            if rc.returncode != 0:
                ck.violation({"engine": "hio", "broken": "sanitizer report / crash in the hio layer", "stderr": rc.stderr[-2000:]}, key="hio-crash")
            bi = 0
            for data, ops in cases:
                raw = bytes.fromhex(data)
                per = {}
                for be in "FMC":
                    cb = cblocks[bi] if bi < len(cblocks) else []; mb = mblocks[bi] if bi < len(mblocks) else []; bi += 1
                    safe = mb[-1] == "SAFE 1" if mb else False
                    mb = mb[:-1]
                    canon_c, canon_m = [], []
                    for i, o in enumerate(ops):
                        c = cb[i].split() if i < len(cb) else ["?", "?"]; m = mb[i].split() if i < len(mb) else ["?", "?"]
                        if o[0] in WIDTH:
                            w, en = WIDTH[o[0]]
                            mv = str(int.from_bytes(bytes.fromhex(m[1]), en)) if m[1] != "-" and m[0] != "-1" else str((1 << (8 * (4 if w == 3 else w))) - 1)   # a failed 24-bit read returns (uint32) all-ones
                            canon_c.append(c[0]); canon_m.append(mv)
                        elif o[0] == "RB":
                            canon_c.append(" ".join(c)); canon_m.append(" ".join(m))
                        else:
                            canon_c.append(c[0]); canon_m.append(m[0])
                    ck.count(len(ops))
                    per[be] = (canon_c, safe)
                    if canon_c != canon_m:
                        nd += 1
                        j = next((i for i in range(len(ops)) if i >= len(canon_c) or i >= len(canon_m) or canon_c[i] != canon_m[i]), 0)
                        ck.violation({"engine": "hio", "backend": be, "data": data, "ops": [list(o) for o in ops[:j + 1]], "expected_model": canon_m[j] if j < len(canon_m) else None,
                                      "got_impl": canon_c[j] if j < len(canon_c) else None, "broken": "correspondence hio back-end model (Model/Hio.v) vs hio.c/memio.c/callbackio.h"},
                                     key="hio:%s:%s" % (be, ops[j][0]))
                    else:
                        ck.nontrivial(("hio", be, data, tuple(ops)))
                # the theorem's content on the implementation: inside the safe fragment FILE and MEM give identical results
                if per["F"][1]:
                    nsafe += 1
                    if per["F"][0] != per["M"][0]:
                        ck.violation({"engine": "hio", "data": data, "ops": [list(o) for o in ops], "file": per["F"][0], "mem": per["M"][0],
                                      "broken": "theorem backends_agree_on_fragment contradicted on the implementation: FILE and MEM differ on a safe op sequence"}, key="hio-fragment")
                elif per["F"][0] != per["M"][0]:
                    ndiv += 1
            ck.engine_stat("hio", cases=len(cases), disagreements=nd, sequences_in_fragment=nsafe, observed_divergent_outside_fragment=ndiv)
            ck.sample({"engine": "hio", "data": cases[0][0], "ops": [list(o) for o in cases[0][1][:8]]})

        # ---- (b) end to end: the same file through the four load and four test entry points
        if not replay or json.load(open(replay)).get("engine") == "entry":
            files = corpus(rng, 90 if tier == "quick" else 2000)
            jobs = []
            if replay:
                rp = json.load(open(replay)); p = os.path.join(tmpd, "r.bin"); open(p, "wb").write(bytes.fromhex(rp["file_hex"]) if rp.get("file_hex") else open(rp["file"], "rb").read()); jobs.append((p, "replay"))
            else:
                k = 0
                for f in files:
                    jobs.append((f, "corpus"))
                    data = open(f, "rb").read()
                    if len(data) > 300000:
                        continue
                    for kind, blob in mutate.mutants(data, rng, *((1, 2, 1) if tier == "quick" else (4, 8, 4))):
                        p = os.path.join(tmpd, "v%06d" % k); k += 1
                        open(p, "wb").write(blob); jobs.append((p, "mutant-" + kind + ":" + os.path.basename(f)))
            inp = "".join("%s %s\n" % (e, p) for p, _ in jobs for e in ("LP", "LM", "LF", "LC", "TP", "TM", "TF", "TC"))
            r = V.run([drv, "load"], inp=inp, env=env, timeout=3000)
            blocks, cur = [], None
            for l in r.stdout.split("\n"):
                if l.startswith("RET "):
                    cur = [l]; blocks.append(cur)
                elif cur is not None and l:
                    cur.append(l)
            if r.returncode != 0:
                k = len(blocks) // 8
                j = jobs[k] if k < len(jobs) else jobs[-1]
                blob = open(j[0], "rb").read()
                ck.violation({"engine": "entry", "file": j[0] if j[1] == "corpus" else None, "file_hex": blob.hex() if j[1] != "corpus" and len(blob) < 200000 else None, "label": j[1],
                              "broken": "sanitizer report / crash in one of the entry points", "stderr": r.stderr[-2000:]}, key="entry-crash:" + j[1])
            ndiff = 0; same = 0; container = 0
            for k, (p, lab) in enumerate(jobs):
                bs = blocks[8 * k: 8 * k + 8]
                if len(bs) < 8:
                    break
                ck.count()
                def canon(b):
                    return "\n".join(x for x in b if not x.startswith(("TYPE", "MD5x")))
                loads = [canon(b) for b in bs[:4]]; tests = [b[0].rsplit(" fileok", 1)[0] for b in bs[4:]]
                fileok = all("fileok=1" in b[0] for b in bs[4:])
                streams_same = loads[1] == loads[2] == loads[3] and tests[1] == tests[3]
                is_container = (loads[0] != loads[1]) or (tests[0] != tests[1]) or (tests[2] != tests[1])
                if streams_same and not is_container and fileok:
                    same += 1; ck.nontrivial(("entry", lab, hash(loads[0])))
                    continue
                # documented differences: containers are unpacked only by path (load) / by path or FILE (test); companions only for path loads
                head = open(p, "rb").read(1024)
                packed = head[:2] in (b"\x1f\x8b", b"PK", b"BZ", b"\x1f\x9d", b"\xfd7") or head[:4] in (b"PP20", b"XPKF", b"ziRC", b"Rar!") or b"-lh" in head[:8] or head[:1] == b"\x1a" or head[:8] == b"Archive\x00" or head[:3] in (b"LZX", b"MO3", b"S40") or b"SQSH" in head[:16]
                # companion files (samples of song-only modules, Startrekker .NT, Magnetic Fields smp.*) are resolved only for path
                # loads: then the dumps differ in sample data only
                def nosmp(t):
                    out = []
                    for x in t.split("\n"):
                        if x.startswith(("SMP", "XTR", "PCM", "SUB", "INS", "TYPE", "MAP", "ENV")):
                            continue
                        if x.startswith("MOD "):
                            w = x.split(); w[6] = "_"; x = " ".join(w)       # sample count
                        out.append(x)
                    return "\n".join(out)
                companion = loads[0].startswith("RET 0") and loads[1].startswith("RET 0") and nosmp(loads[0]) == nosmp(loads[1]) and tests[0] == tests[1] == tests[2]
                if streams_same and fileok and is_container and (packed or companion):
                    container += 1
                    continue
                ndiff += 1
                blob = open(p, "rb").read()
                ck.violation({"engine": "entry", "file": p if lab == "corpus" else None, "file_hex": blob.hex() if lab != "corpus" and len(blob) < 200000 else None, "label": lab,
                              "load_rets": [b[0] for b in bs[:4]], "test_rets": [b[0] for b in bs[4:]], "stream_entry_points_agree": streams_same, "caller_file_ok": fileok,
                              "broken": "monitor: the same bytes give different results through different entry points (beyond the documented container / companion differences)"},
                             key="entry:%s" % lab)
            # ---- (c) the same four loads into a context that already holds another module (no release in between): each must give
            #          what the fresh context gave - formats whose loader looks at the size of its data (Mod's Grave .WOW, song-only M.K.)
            #          are the ones that notice when an entry point records that size before the implicit release
            if not replay:
                pre = os.path.join(V.REPO, "test-dev", "data", "test.it")
                rfiles = [os.path.join(V.REPO, "test-dev", "data", "m", x) for x in ("acidfunk.wow", "crystals.mod")] + [f for f, lab in jobs if lab == "corpus"][:12 if tier == "quick" else 200]
                rfiles = [f for f in rfiles if os.path.exists(f)]
                rr = V.run([drv, "load", pre], inp="".join("%s %s\n" % (e, p) for p in rfiles for e in ("LP", "LM", "LF", "LC", "QP", "QM", "QF", "QC")), env=env, timeout=3000)
                rb, cur = [], None
                for l in rr.stdout.split("\n"):
                    if l.startswith("RET "): cur = [l]; rb.append(cur)
                    elif cur is not None and l: cur.append(l)
                nre = 0
                for k, p in enumerate(rfiles):
                    bs = rb[8 * k: 8 * k + 8]
                    if len(bs) < 8: break
                    for i, nm in enumerate(("path", "memory", "FILE", "callbacks")):
                        ck.count(); nre += 1
                        if bs[i] != bs[4 + i]:
                            d = next((a + " / " + b for a, b in zip(bs[4 + i], bs[i]) if a != b), "length")
                            ndiff += 1
                            ck.violation({"engine": "entry-reload", "file": os.path.relpath(p, V.REPO), "entry_point": nm, "what": "loaded over a loaded module: %s" % d[:200],
                                          "broken": "monitor: a load through the %s entry point into a context that already holds a module differs from the same load into a fresh context" % nm}, key="entry-reload:" + nm)
                # ... and the same stream handed to the test entry point first and then, without a rewind, to the load entry point (FILE and
                # callbacks): the position the stream has at hand-over must not matter
                r2 = V.run([drv, "load"], inp="".join("%s %s\n" % (e, p) for p in rfiles for e in ("LF", "LC", "RF", "RC")), env=env, timeout=3000)
                b2, cur = [], None
                for l in r2.stdout.split("\n"):
                    if l.startswith("RET "): cur = [l]; b2.append(cur)
                    elif cur is not None and l: cur.append(l)
                for k, p in enumerate(rfiles):
                    bs = b2[4 * k: 4 * k + 4]
                    if len(bs) < 4: break
                    for i, nm in enumerate(("FILE", "callbacks")):
                        ck.count(); nre += 1
                        if bs[i] != bs[2 + i]:
                            d = next((a + " / " + b for a, b in zip(bs[2 + i], bs[i]) if a != b), "length")
                            ndiff += 1
                            ck.violation({"engine": "entry-test-then-load", "file": os.path.relpath(p, V.REPO), "entry_point": nm, "what": "tested, then loaded from the same stream without a rewind: %s" % d[:200],
                                          "broken": "monitor: a load through the %s entry point from a stream that is not at its start differs from the load of the fresh stream" % nm}, key="entry-test-then-load:" + nm)
                if r2.returncode != 0:
                    ck.violation({"engine": "entry-test-then-load", "broken": "sanitizer report / crash", "stderr": r2.stderr[-1500:]}, key="entry-test-then-load-crash")
                ck.engine_stat("entry_reload", loads_compared=nre)
                if rr.returncode != 0:
                    ck.violation({"engine": "entry-reload", "broken": "sanitizer report / crash when loading over a loaded module", "stderr": rr.stderr[-1500:]}, key="entry-reload-crash")
            ck.engine_stat("entry", files=len(jobs), identical_through_all_entry_points=same, documented_container_or_companion_difference=container, violations=ndiff)
            ck.sample({"engine": "entry", "file": os.path.basename(jobs[0][0]), "rets": [b[0] for b in blocks[:8]]})
    finally:
        shutil.rmtree(tmpd, ignore_errors=True)
    ck.cov["rule"] = ("hio: random byte strings of 1..33 bytes x generated op sequences (8 read widths, block reads incl. size/num 0, seeks with all whences around 0/size incl. invalid, tell, eof, error) on FILE, memory and callback handles; "
                      "entry: corpus files plus truncated / field-fuzzed / bit-flipped variants through the 4 load and 4 test entry points comparing return code, full module dump (tables, events, sample data incl. guards, sequences, MD5) and 40 frames of PCM")
    ck.assumptions += ["user callbacks behave like fread/fseek/ftell (the driver's do)", "stdio semantics of glibc are modelled in Model/Hio.v and tied by the hio differential"]
    ck.finish()

V.main_wrap(main)
