(* line: flags len lps lpe flg skip pos filehex nbufhex  ->  "0 len lps lpe flg pos blkhex" | "0 len lps lpe flg pos -" | "-1" *)
open Sampleload_model
open Zio
let zi s = z_of_int (int_of_string s)
let hx s = zlist_of_hex (if s = "-" then "" else s)
let () = iter_lines (fun l ->
  match words l with
  | [flags; len; lps; lpe; flg; skip; pos; file; nbuf] ->
      let s = { s_len = zi len; s_lps = zi lps; s_lpe = zi lpe; s_flg = zi flg } in
      (match load_sample (skip = "1") (zi flags) s (hx file) (zi pos) (hx nbuf) with
       | NoData (s, p) -> Printf.printf "0 %s %s %s %s %s -\n" (zs s.s_len) (zs s.s_lps) (zs s.s_lpe) (zs s.s_flg) (zs p)
       | Loaded (s, blk, p) -> Printf.printf "0 %s %s %s %s %s %s\n" (zs s.s_len) (zs s.s_lps) (zs s.s_lpe) (zs s.s_flg) (zs p) (hex_of_zlist blk)
       | Failed -> print_endline "-1")
  | _ -> print_endline "?")
