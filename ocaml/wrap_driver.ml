(* W s e pn en bidir first | u0 u1 ...     -> "<patched units> | <restored units>"  or BADPAR
   P len0 len1 ... | ev ev ...             -> protocol_okb; ev = I<smp>:<s>:<e>:<pn>:<en>:<bidir>:<first> | S | R
   V lps pos len                           -> invloop_next invloop_index *)
open Wrap_model
open Zio
let zi s = z_of_int (int_of_string s)
let ni s = nat_of_int (int_of_string s)
let rec split_on sep l = let rec go acc cur = function [] -> List.rev (List.rev cur :: acc) | x :: r when x = sep -> go (List.rev cur :: acc) [] r | x :: r -> go acc (x :: cur) r in go [] [] l
let show l = String.concat " " (List.map zs l)
let rec len = function [] -> O | _ :: t -> S (len t)
let () = iter_lines (fun l ->
  match words l with
  | "W" :: s :: e :: pn :: en :: bd :: fs :: "|" :: us ->
      let p = { w_s = ni s; w_e = ni e; w_pn = ni pn; w_en = ni en; w_bidir = (bd = "1"); w_first = (fs = "1") } in
      let d = List.map zi us in
      if not (wpar_okb p (len d)) then print_endline "BADPAR" else
      let (d', b) = wrap_init p d in
      print_endline (show d' ^ " | " ^ show (wrap_reset p b d'))
  | "P" :: rest ->
      (match split_on "|" rest with
       | [lens; evs] ->
           let ev s = if s = "S" then WSkip else if s = "R" then WReset else
             (match String.split_on_char ':' (String.sub s 1 (String.length s - 1)) with
              | [smp; s; e; pn; en; bd; fs] -> WInit (ni smp, { w_s = ni s; w_e = ni e; w_pn = ni pn; w_en = ni en; w_bidir = (bd = "1"); w_first = (fs = "1") })
              | _ -> WReset) in
           print_endline (if protocol_okb (List.map ni lens) (List.map ev evs) then "1" else "0")
       | _ -> print_endline "?")
  | ["V"; lps; pos; ln] -> print_endline (zs (invloop_next (zi pos) (zi ln)) ^ " " ^ zs (invloop_index (zi lps) (zi pos) (zi ln)))
  | _ -> print_endline "?")
