(* "A hex init" -> crc32_A ; "N hex init" -> crc32_A_no_inv ; "I hex init" -> crc16_IBM ; "G crc len hex" -> gate32 *)
open Crc_model
open Zio
let hx s = zlist_of_hex (if s = "-" then "" else s)
let () = iter_lines (fun l ->
  match words l with
  | ["A"; h; i] -> print_endline (zs (crc32_A (hx h) (z_of_int (int_of_string i))))
  | ["N"; h; i] -> print_endline (zs (crc32_A_no_inv (hx h) (z_of_int (int_of_string i))))
  | ["I"; h; i] -> print_endline (zs (crc16_IBM (hx h) (z_of_int (int_of_string i))))
  | ["G"; c; n; h] -> print_endline (if gate32 (z_of_int (int_of_string c)) (z_of_int (int_of_string n)) (hx h) then "1" else "0")
  | _ -> print_endline "?")
