(* Reads the output of harness/c17_drv.c and prints, for every "C ..." and "F ..." line, what the extracted model
   (Model/Seek.v) computes for the same call from ITS OWN previous state, in the same format
   ("C op arg ret | state" / "F ret | state"); frames the model does not compute take the observed values as the
   environment step.  "OKB b1 b2" after the tables reports smod_okb / scan_endb. *)
open Seek_model
open Zio
let zi s = z_of_int (int_of_string s)
let zl ws = List.map zi ws
let b2s b = if b then "1" else "0"
let state_of ws =
  match List.map int_of_string ws with
  | [p; o; r; fr; rp; sq; lc; sp; nr; ep; jl; jp; pb; dl; cl] ->
      { pos = z_of_int p; ord = z_of_int o; row = z_of_int r; frame = z_of_int fr; repos = (rp <> 0); sq = z_of_int sq; loopc = z_of_int lc; speed = z_of_int sp;
        num_rows = z_of_int nr; end_point = z_of_int ep;
        fl = { fl_jumpline = z_of_int jl; fl_jump = z_of_int jp; fl_pbreak = z_of_int pb; fl_delay = z_of_int dl; fl_clean = (cl <> 0) } }
  | _ -> failwith "state"
let show s =
  String.concat " " [zs s.pos; zs s.ord; zs s.row; zs s.frame; b2s s.repos; zs s.sq; zs s.loopc; zs s.speed; zs s.num_rows; zs s.end_point;
                     zs s.fl.fl_jumpline; zs s.fl.fl_jump; zs s.fl.fl_pbreak; zs s.fl.fl_delay; b2s s.fl.fl_clean]
let rec take n l = if n = 0 then [] else match l with [] -> [] | x :: r -> x :: take (n - 1) r
let () =
  let hdr = ref [] and xxo = ref [] and rows = ref [] and entry = ref [] and seqctl = ref [] and so = ref [] and sr = ref [] and sn = ref [] and tm = ref [] in
  let m = ref None and st = ref None in
  iter_lines (fun l ->
    match words l with
    | "MOD" :: r -> hdr := List.map int_of_string r; m := None; st := None
    | "XXO" :: r -> xxo := zl r
    | "ROWS" :: r -> rows := zl r
    | "ENTRY" :: r -> entry := zl r
    | "SEQCTL" :: r -> seqctl := zl r
    | "SCANORD" :: r -> so := zl r
    | "SCANROW" :: r -> sr := zl r
    | "SCANNUM" :: r -> sn := zl r
    | "TIME" :: r ->
        tm := zl r;
        (match !hdr with
         | [len; npat; marker; rst; nseq] ->
             let mm = { sm_len = z_of_int len; sm_npat = z_of_int npat; sm_xxo = !xxo; sm_rows = !rows; sm_marker = (marker <> 0); sm_rst = z_of_int rst;
                        sm_nseq = z_of_int nseq; sm_entry = !entry; sm_seqctl = !seqctl; sm_scan_ord = !so; sm_scan_row = !sr; sm_scan_num = !sn; sm_time = !tm } in
             m := Some mm;
             Printf.printf "OKB %s %s\n" (b2s (smod_okb mm)) (b2s (scan_endb mm))
         | _ -> ())
    | "S" :: r -> st := Some (state_of r)
    | "C" :: op :: arg :: _ret :: "|" :: _obs ->
        (match !m, !st with
         | Some mm, Some s ->
             let c = (match op with "SP" -> SetPos (zi arg) | "NX" -> Next | "PV" -> Prev | "SR" -> SetRow (zi arg) | "SK" -> Seek (zi arg) | "ST" -> Stop | _ -> Restart) in
             let (s', r) = control mm s c in
             st := Some s';
             Printf.printf "C %s %s %s | %s\n" op arg (zs r) (show s')
         | _ -> print_endline "?")
    | "F" :: ret :: "|" :: rest ->
        (match !m, !st with
         | Some mm, Some s ->
             let o = state_of (take 15 rest) in
             let a = { a_ord = o.ord; a_row = o.row; a_frame = o.frame; a_loopc = o.loopc; a_speed = o.speed; a_num_rows = o.num_rows; a_end_point = o.end_point; a_fl = o.fl } in
             (match play_frame mm s a with
              | FEnd s' -> st := Some s'; Printf.printf "F -1 | %s\n" (show s')
              | FStuck -> print_endline "F STUCK"
              | FOk s' -> st := Some s'; Printf.printf "F 0 | %s\n" (show s'))
         | _ -> print_endline "?")
    | "ENDRUN" :: _ -> print_endline "ENDRUN"
    | _ -> ())
