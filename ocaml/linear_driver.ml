(* "M spd bpm rst tfnum tfden | o0 o1 ... | p0rows ; p1rows ; ..."  rows: N | S<v> | T<v> | D<v> | J<v>
   -> "OK dur_num dur_den end_ord | o:num/den ... | ptime_num ptime_den | o:num/den ..."  or "NONE" / "BADMOD" *)
open Linear_model
open Zio
let zi s = z_of_int (int_of_string s)
let fx_of s = if s = "N" then FxNone else
  let v = zi (String.sub s 1 (String.length s - 1)) in
  match s.[0] with 'S' -> FxSpeed v | 'T' -> FxTempo v | 'D' -> FxDelay v | _ -> FxJump v
let rec split_on sep l = let rec go acc cur = function [] -> List.rev (List.rev cur :: acc) | x :: r when x = sep -> go (List.rev cur :: acc) [] r | x :: r -> go acc (x :: cur) r in go [] [] l
let qs (q : q) = big_zs q.qnum ^ "/" ^ big_string_of_pos q.qden
let () = iter_lines (fun l ->
  match words l with
  | "M" :: spd :: bpm :: rst :: tn :: td :: "|" :: rest ->
      (match split_on "|" rest with
       | [orders; pats] ->
           let pats = List.map (List.map fx_of) (split_on ";" pats) in
           let m = { lm_orders = List.map zi orders; lm_pats = pats; lm_spd = zi spd; lm_bpm = zi bpm; lm_rst = zi rst; lm_tf = { qnum = zi tn; qden = pos_of_int (int_of_string td) } } in
           if not (lmod_okb m) then print_endline "BADMOD" else
           (match scan m with
            | None -> print_endline "NONE"
            | Some r ->
                let ot = String.concat " " (List.map (fun (o, t) -> zs o ^ ":" ^ qs t) r.r_order_times) in
                (match play m r with
                 | None -> Printf.printf "OK %s %s | %s | NOPLAY\n" (qs r.r_duration) (zs r.r_end_ord) ot
                 | Some q -> Printf.printf "OK %s %s | %s | %s | %s | %s\n" (qs r.r_duration) (zs r.r_end_ord) ot (qs q.q_time_to_loop)
                               (String.concat " " (List.map (fun (o, t) -> zs o ^ ":" ^ qs t) q.q_order_times))
                               (String.concat " " (List.rev_map zs q.q_entered))))
       | _ -> print_endline "?")
  | _ -> print_endline "?")
