(* flg npt sus sue lps lpe | d0 ... d63 | x release key_off  ->  "okb G <v|OOB> U <generic|OOB> <xm|OOB> <it|OOB>" *)
open Envelope_model
open Zio
let zi s = z_of_int (int_of_string s)
let sh = function None -> "OOB" | Some v -> zs v
let () = iter_lines (fun l ->
  (match List.map words (String.split_on_char '|' l) with
   | [[flg; npt; sus; sue; lps; lpe]; data; [x; rel; ko]] ->
      let e = { e_flg = zi flg; e_npt = zi npt; e_sus = zi sus; e_sue = zi sue; e_lps = zi lps; e_lpe = zi lpe } in
      let d = List.map zi data in
      let r = rel <> "0" and k = ko <> "0" in
      Printf.printf "%d G %s U %s %s %s" (if env_okb e then 1 else 0) (sh (get_envelope e d (zi x) (z_of_int 64)))
        (sh (update_envelope EGeneric e d (zi x) r k)) (sh (update_envelope EXm e d (zi x) r k)) (sh (update_envelope EIt e d (zi x) r k))
   | _ -> print_string "?");
  print_newline ())
