(* "I nvoc nchan ntrk m0 m1 ..." (muted channel indices) starts a table; then one op per line:
   R | V voc | C chn | L chn vol | N chn nna | P chn ins smp key nna dct dca | Q chn ins smp | T chn act
   each prints  "ret used | chn root act vol ins smp key ; ... | map ... | count ... | inv mode ok"  or "OOB ok" (and the state is kept);
   inv/mode: invb/modeb of the new state, ok: op_okb of the op in the state it was applied to (the premises of voices_inv_preserved).
   "D used | voices | map | count" evaluates invb on a dumped table (monitor mode): prints 1/0. *)
open Voices_model
open Zio
let zi s = z_of_int (int_of_string s)
let st = ref (virt_init Z0 Z0 Z0 [])
let dump ?(ok=true) ret s =
  let vs = String.concat " ; " (List.map (fun v -> Printf.sprintf "%s %s %s %s %s %s %s" (zs v.v_chn) (zs v.v_root) (zs v.v_act) (zs v.v_vol) (zs v.v_ins) (zs v.v_smp) (zs v.v_key)) s.voices) in
  Printf.printf "%s %s | %s | %s | %s | %s %s %s\n" (zs ret) (zs s.used) vs (String.concat " " (List.map zs s.vmap)) (String.concat " " (List.map zs s.vcount)) (if invb s then "1" else "0") (if modeb s then "1" else "0") (if ok then "1" else "0")
let () = iter_lines (fun l ->
  match words l with
  | "I" :: nvoc :: nchan :: ntrk :: muted ->
      let m = List.map int_of_string muted in
      st := virt_init (zi nvoc) (zi nchan) (zi ntrk) (List.init 64 (fun i -> List.mem i m)); dump Z0 !st
  | "D" :: rest ->
      (* monitor mode: "D ntracks used | chn root act vol ins smp key ; ... | map ... | count ..." -> invb *)
      let rec split acc cur = function [] -> List.rev (List.rev cur :: acc) | "|" :: r -> split (List.rev cur :: acc) [] r | x :: r -> split acc (x :: cur) r in
      (match split [] [] rest with
       | [[nt; us]; vs; mp; ct] ->
           let rec voices = function
             | a :: b :: c :: d :: e :: f :: g :: r -> { v_chn = zi a; v_root = zi b; v_act = zi c; v_vol = zi d; v_ins = zi e; v_smp = zi f; v_key = zi g } :: voices (match r with ";" :: r' -> r' | _ -> r)
             | _ -> [] in
           let s = { voices = voices vs; vmap = List.map zi mp; vcount = List.map zi ct; used = zi us; ntracks = zi nt; mute = [] } in
           print_endline (if invb s then "1" else "0")
       | _ -> print_endline "?D")
  | ["VU"; k] ->
      (* reset the k-th voice that is in use (precondition of libxmp_virt_resetvoice at all its call sites) *)
      let idx = List.filter_map (fun x -> x) (List.mapi (fun i v -> if int_of_z v.v_chn >= 0 then Some i else None) !st.voices) in
      if idx = [] then (print_endline "@V none"; dump Z0 !st)
      else begin
        let i = List.nth idx ((int_of_string k) mod (List.length idx)) in
        Printf.printf "@V %d\n" i;
        let ok = op_okb !st (OResetVoice (z_of_int i)) in
        (match vstep !st (OResetVoice (z_of_int i)) with Some (r, s) -> st := s; dump ~ok r s | None -> print_endline (if ok then "OOB 1" else "OOB 0"))
      end
  | op :: args ->
      let a = Array.of_list (List.map zi args) in
      let o = (match op with
        | "R" -> OReset | "V" -> OResetVoice a.(0) | "C" -> OResetChannel a.(0) | "L" -> OSetVol (a.(0), a.(1)) | "N" -> OSetNna (a.(0), a.(1))
        | "P" -> OSetPatch (a.(0), a.(1), a.(2), a.(3), a.(4), a.(5), a.(6)) | "Q" -> OQueuePatch (a.(0), a.(1), a.(2)) | _ -> OPastNote (a.(0), a.(1))) in
      let ok = op_okb !st o in
      (match vstep !st o with Some (r, s) -> st := s; dump ~ok r s | None -> print_endline (if ok then "OOB 1" else "OOB 0"))
  | _ -> ())
