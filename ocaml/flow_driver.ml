(* one module per "M" line, then steps:
     M len pat rst marker | xxo ... | rows ...
     S which entry rin | ord row pos frame pbreak jump delay jumpline loop_dest loop_param num_rows rowdelay rowdelay_set
   -> for S: "FAIL" | "R okb playable posok_before posok_after | <the 13 fields after the step>"   (which: 0 next_order, 1 next_row) *)
open Flow_model
open Zio
let zi s = z_of_int (int_of_string s)
let cur = ref None
let split_bar l = List.map words (String.split_on_char '|' l)
let () =
  iter_lines (fun l ->
    match split_bar l with
    | ["M" :: len :: pat :: rst :: mk :: []; xs; rows] ->
        cur := Some (zi len, zi pat, zi rst, mk <> "0", List.map zi xs, List.map zi rows); print_string "M"; print_newline ()
    | ["S" :: which :: entry :: rin :: []; f] ->
        (match !cur, List.map zi f with
         | Some (len, pat, rst, mk, xs, rows), [o; r; p; fr; pb; j; d; jl; ld; lp; nr; rd; rds] ->
            let m = { f_len = len; f_pat = pat; f_rst = rst; f_xxo = xs; f_rows = rows; f_marker = mk; f_entry = zi entry; f_rst_in_seq = (rin <> "0") } in
            let s = { s_ord = o; s_row = r; s_pos = p; s_frame = fr; s_pbreak = pb; s_jump = j; s_delay = d; s_jumpline = jl; s_loop_dest = ld; s_loop_param = lp;
                      s_num_rows = nr; s_rowdelay = rd; s_rowdelay_set = rds } in
            (match (if which = "0" then next_order m s else next_row m s) with
             | None -> print_string "FAIL"
             | Some t ->
               Printf.printf "R %d %d %d %d | %s" (if fmod_okb m then 1 else 0) (if playableb m then 1 else 0) (if pos_okb m s then 1 else 0) (if pos_okb m t then 1 else 0)
                 (String.concat " " (List.map zs [t.s_ord; t.s_row; t.s_pos; t.s_frame; t.s_pbreak; t.s_jump; t.s_delay; t.s_jumpline; t.s_loop_dest; t.s_loop_param; t.s_num_rows; t.s_rowdelay; t.s_rowdelay_set])));
            print_newline ()
         | _ -> print_string "?"; print_newline ())
    | _ -> print_string "?"; print_newline ())
