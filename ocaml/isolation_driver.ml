(* IL n m   -> every interleaving of two call lists of lengths n and m, one per line, as a string over {0,1}
               (which context makes the next call), then "END"
   PJ i s   -> the positions (indices into the schedule s, a string over digits) of context i's calls: calls_of *)
open Isolation_model
open Zio
let () = iter_lines (fun l ->
  match words l with
  | ["IL"; n; m] ->
      let n = int_of_string n and m = int_of_string m in
      let a = List.init n (fun i -> i) and b = List.init m (fun i -> i) in
      List.iter (fun s -> print_endline (String.concat "" (List.map (fun (isa, _) -> if isa then "0" else "1") s)))
        (interleavings (nat_of_int (n + m + 1)) a b);
      print_endline "END"
  | ["PJ"; i; s] ->
      let sched = List.mapi (fun k ch -> (nat_of_int (Char.code ch - 48), k)) (List.init (String.length s) (String.get s)) in
      print_endline (String.concat " " (List.map string_of_int (calls_of (nat_of_int (int_of_string i)) sched)))
  | _ -> print_endline "?")
