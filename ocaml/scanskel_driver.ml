(* per module:  "R <cells>"  then per scan call "C" followed by events "O v" | "W cell v" | "D cell d v", then "END"
   -> "OK <main events of the longest call> <bound R>"  or "BAD" (a call's log is not a trace of the skeleton) *)
open Scanskel_model
open Zio
let zi s = z_of_int (int_of_string s)
let () =
  let cells = ref 0 and calls = ref [] and cur = ref [] and started = ref false in
  iter_lines (fun l ->
    match words l with
    | ["R"; n] -> cells := int_of_string n; calls := []; cur := []; started := false
    | ["C"] -> if !started then calls := List.rev !cur :: !calls; cur := []; started := true
    | ["O"; v] -> cur := (EOuter, zi v) :: !cur
    | ["W"; c; v] -> cur := (ERow (nat_of_int (int_of_string c)), zi v) :: !cur
    | ["D"; c; d; v] -> cur := (EDelay (nat_of_int (int_of_string c), zi d), zi v) :: !cur
    | ["END"] ->
        if !started then calls := List.rev !cur :: !calls;
        let st = { cnt = List.init !cells (fun _ -> Z0); osl = Z0; stopped = false } in
        (match replay_calls st (List.rev !calls) Z0 with
         | Some w -> Printf.printf "OK %s %s\n" (zs w) (zs (bound (z_of_int !cells)))
         | None -> print_endline "BAD")
    | _ -> ())
