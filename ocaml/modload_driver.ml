(* R ptkloop hex (Protracker M.K., Model/ModLoad.v) | Q hex (Composer 669, Model/C669Load.v) | T hex (MultiTracker, Model/MtmLoad.v) | S hex (Scream Tracker 3, Model/S3MLoad.v) -> "FAIL" | "RAW post=<loader_postb> | chn len pat trk ins smp spd bpm rst | xxo ... | nsm,sub ... | len,lps,lpe,flg,data ... | gate=<REJECT|ok>"
   (the structural part of what mod_load leaves behind for the file, as Model/ModLoad.v computes it) *)
open Modload_model
open Zio
let () = iter_lines (fun l ->
  (match words l with
   | ["R"; _; _] | ["Q"; _] | ["T"; _] | ["S"; _] ->
      (match (match words l with ["R"; pk; h] -> mod_raw (pk <> "0") (zlist_of_hex h) | ["Q"; h] -> c669_raw (zlist_of_hex h) | ["T"; h] -> mtm_raw (zlist_of_hex h) | ["S"; h] -> s3m_raw (zlist_of_hex h) | _ -> None) with
       | None -> print_string "FAIL"
       | Some r ->
          let m = r.r_m in
          Printf.printf "RAW post=%d | %s | %s | %s | %s | gate=%s | %s | %s" (if loader_postb r then 1 else 0)
            (String.concat " " (List.map zs [m.d_chn; m.d_len; m.d_pat; m.d_trk; m.d_ins; m.d_smp; m.d_spd; m.d_bpm; m.d_rst]))
            (String.concat " " (List.map zs m.d_xxo))
            (String.concat " " (List.map (fun i -> zs i.i_nsm ^ "," ^ (if i.i_sub then "1" else "0")) m.d_inss))
            (String.concat " " (List.map (fun s -> String.concat "," [zs s.sm_len; zs s.sm_lps; zs s.sm_lpe; zs s.sm_flg; (if s.sm_data then "1" else "0")]) m.d_smps))
            (match finish r with None -> "REJECT" | Some _ -> "ok")
            (String.concat " " (List.map (fun p -> match p with None -> "NULL" | Some p -> String.concat "," (List.map zs (p.p_rows :: p.p_index))) m.d_pats))
            (String.concat " " (List.map (fun (v, pn) -> zs v ^ "," ^ zs pn) m.d_chans)))
   | _ -> print_string "?");
  print_newline ())
