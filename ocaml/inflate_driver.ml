(* one case per line:
     I hex                 -> "FAIL" | "OK <hex>"              inflate (raw deflate stream)
     G hex                 -> "FAIL" | "OK <hex>"              gunzip (a gzip member)
     Z opts plan hex       -> "GZ okb <hex of the .gz file>"   the payload cut into segments per `plan` (comma-separated "s<n>" stored
                                                               block of n bytes / "f<n>" fixed-Huffman block over the next n bytes,
                                                               tokens from the model's tokenizer; the last item takes the rest);
                                                               opts: letters n (FNAME) c (FCOMMENT) x (FEXTRA) h (FHCRC) or "-" *)
open Inflate_model
open Zio
let bytes h = if h = "-" then [] else zlist_of_hex h
let rec take n l = if n <= 0 then [] else match l with [] -> [] | x :: t -> x :: take (n - 1) t
let rec drop n l = if n <= 0 then l else match l with [] -> [] | _ :: t -> drop (n - 1) t
let zstr s = List.init (String.length s) (fun i -> z_of_int (Char.code s.[i]))
let () =
  iter_lines (fun l ->
    (match words l with
    | ["I"; h] -> (match inflate (bytes h) with None -> print_string "FAIL" | Some o -> Printf.printf "OK %s" (if o = [] then "-" else hex_of_zlist o))
    | ["G"; h] -> (match gunzip (bytes h) with None -> print_string "FAIL" | Some o -> Printf.printf "OK %s" (if o = [] then "-" else hex_of_zlist o))
    | ["Z"; opts; plan; h] ->
        let data = bytes h in
        let items = String.split_on_char ',' plan in
        let rec build items data out_rev =
          match items with
          | [] -> []
          | it :: rest ->
            let kind = it.[0] and n = int_of_string (String.sub it 1 (String.length it - 1)) in
            let n = if rest = [] then List.length data else min n (List.length data) in
            let chunk = take n data in
            let seg = if kind = 's' then Stored chunk else Fixed (tokenize (nat_of_int (n + 1)) chunk out_rev) in
            seg :: build rest (drop n data) (List.rev_append chunk out_rev) in
        let segs = build items data [] in
        let has c = String.contains opts c in
        let z = gzip_member (if has 'n' then Some (zstr "song.mod") else None) (if has 'c' then Some (zstr "a comment") else None)
                  (if has 'x' then Some (zstr "AB\004\000zzzz") else None) (has 'h') segs in
        let ok = segs_okb segs Z0 && List.rev (segs_expand segs []) = data in
        Printf.printf "GZ %d %s" (if ok then 1 else 0) (hex_of_zlist z)
    | _ -> print_string "?");
    print_newline ())
