(* CA n hex        -> hex of copy_adjust (bytes) n
   AS hex          -> hex of adjust_string (bytes)
   TA hex hex      -> titles_agree (1/0)          ("-" is the empty string)
   ET n            -> expected_test n *)
open Probe_model
open Zio
let bytes h = if h = "-" then [] else zlist_of_hex h
let hx l = if l = [] then "-" else hex_of_zlist l
let () = iter_lines (fun l ->
  match words l with
  | ["CA"; n; h] -> print_endline (hx (copy_adjust (bytes h) (nat_of_int (int_of_string n))))
  | ["AS"; h] -> print_endline (hx (adjust_string (bytes h)))
  | ["TA"; a; b] -> print_endline (if titles_agree (bytes a) (bytes b) then "1" else "0")
  | ["ET"; n] -> print_endline (zs (expected_test (z_of_int (int_of_string n))))
  | _ -> print_endline "?")
