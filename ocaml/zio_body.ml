(* Conversion between OCaml ints and the extracted Z / positive / nat (prefixed with "open <Engine>_model" at build time). *)
let rec pos_of_int (n : int) : positive =
  if n = 1 then XH else if n land 1 = 0 then XO (pos_of_int (n lsr 1)) else XI (pos_of_int (n lsr 1))
let z_of_int (n : int) : z = if n = 0 then Z0 else if n > 0 then Zpos (pos_of_int n) else Zneg (pos_of_int (- n))
let rec int_of_pos (p : positive) : int = match p with XH -> 1 | XO q -> 2 * int_of_pos q | XI q -> 2 * int_of_pos q + 1
let int_of_z (x : z) : int = match x with Z0 -> 0 | Zpos p -> int_of_pos p | Zneg p -> - (int_of_pos p)
let nat_of_int (n : int) : nat = let rec go acc n = if n <= 0 then acc else go (S acc) (n - 1) in go O n
let int_of_nat (n : nat) : int = let rec go a = function O -> a | S m -> go (a + 1) m in go 0 n
let zs (x : z) : string = string_of_int (int_of_z x)
let words (l : string) : string list = List.filter (fun s -> s <> "") (String.split_on_char ' ' l)
let zlist_of_hex (h : string) : z list =
  let n = String.length h / 2 in
  List.init n (fun i -> z_of_int (int_of_string ("0x" ^ String.sub h (2 * i) 2)))
let hex_of_zlist (l : z list) : string =
  let b = Buffer.create 64 in List.iter (fun x -> Buffer.add_string b (Printf.sprintf "%02x" ((int_of_z x) land 255))) l; Buffer.contents b
let ints_of_zlist l = String.concat "," (List.map zs l)
let iter_lines f = try while true do f (input_line stdin) done with End_of_file -> ()
(* arbitrary-size decimal printing of the extracted binary numbers (no bignum library needed):
   walk the bits from the most significant one, doubling a little-endian decimal digit array *)
let big_string_of_pos (p : positive) : string =
  let rec bits acc = function XH -> 1 :: acc | XO q -> bits (0 :: acc) q | XI q -> bits (1 :: acc) q in
  let digits = ref [0] in
  let double_add b =
    let carry = ref b in
    digits := List.map (fun d -> let v = 2 * d + !carry in carry := v / 10; v mod 10) !digits;
    if !carry > 0 then digits := !digits @ [!carry] in
  List.iter double_add (bits [] p);
  String.concat "" (List.rev_map string_of_int !digits)
let big_zs (x : z) : string = match x with Z0 -> "0" | Zpos p -> big_string_of_pos p | Zneg p -> "-" ^ big_string_of_pos p
