(* "D <F|M|C> <datahex>" starts a case; ops: R8 | R8S | RN n | RB size num | SK off whence | TL | EF | ER ; "GO" runs and prints
   one line per op "val byteshex", then "SAFE 1/0" (is the op list inside the FILE/MEM agreement fragment), then "DONE". *)
open Hio_model
open Zio
let zi s = z_of_int (int_of_string s)
let be = ref FILEB and data = ref [] and ops = ref []
let () = iter_lines (fun l ->
  match words l with
  | ["D"; b; h] -> be := (match b with "F" -> FILEB | "M" -> MEMB | _ -> CBB); data := zlist_of_hex (if h = "-" then "" else h); ops := []
  | ["R8"] -> ops := Read8 :: !ops | ["R8S"] -> ops := Read8s :: !ops | ["RN"; n] -> ops := ReadN (zi n) :: !ops
  | ["RB"; s; n] -> ops := ReadBuf (zi s, zi n) :: !ops | ["SK"; o; w] -> ops := Seek (zi o, zi w) :: !ops
  | ["TL"] -> ops := Tell :: !ops | ["EF"] -> ops := Eof :: !ops | ["ER"] -> ops := Error :: !ops
  | ["GO"] ->
      let o = List.rev !ops in
      List.iter (fun r -> let h = hex_of_zlist r.obytes in Printf.printf "%s %s\n" (zs r.oval) (if h = "" then "-" else h)) (run !data !be init_state o);
      Printf.printf "SAFE %s\nDONE\n" (if all_safe !data init_state o then "1" else "0")
  | _ -> ())
