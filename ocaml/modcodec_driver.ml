(* reads abstract songs:
     SONG / T <hex20> / I <namehex22> len fine vol lps lpl (x31) / L len rst / O o0..o127 / P p,i,t,x ... (256 cells, one line per pattern) /
     S <hex or -> (x31) / END
   prints "OKB <song_okb>" "RT <decode (encode s) = Some s>" "HEX <the file>" *)
open Modcodec_model
open Zio
let zi s = z_of_int (int_of_string s)
let bytes h = if h = "-" then [] else zlist_of_hex h
let () =
  let title = ref [] and ins = ref [] and lr = ref (Z0, Z0) and orders = ref [] and pats = ref [] and smps = ref [] in
  iter_lines (fun l ->
    match words l with
    | ["SONG"] -> title := []; ins := []; orders := []; pats := []; smps := []
    | ["T"; h] -> title := bytes h
    | ["I"; n; a; b; c; d; e] -> ins := { i_name = bytes n; i_len = zi a; i_fine = zi b; i_vol = zi c; i_lps = zi d; i_lpl = zi e } :: !ins
    | ["L"; a; b] -> lr := (zi a, zi b)
    | "O" :: os -> orders := List.map zi os
    | "P" :: cs -> pats := List.map (fun c -> match String.split_on_char ',' c with
                                              | [p; i; t; x] -> { c_period = zi p; c_ins = zi i; c_fxt = zi t; c_fxp = zi x }
                                              | _ -> { c_period = Z0; c_ins = Z0; c_fxt = Z0; c_fxp = Z0 }) cs :: !pats
    | ["S"; h] -> smps := bytes h :: !smps
    | ["END"] ->
        let s = { s_title = !title; s_ins = List.rev !ins; s_len = fst !lr; s_rst = snd !lr; s_orders = !orders; s_pats = List.rev !pats; s_smp = List.rev !smps } in
        let e = encode s in
        Printf.printf "OKB %d\nRT %d\nHEX %s\n" (if song_okb s then 1 else 0) (if decode e = Some s then 1 else 0) (hex_of_zlist e)
    | _ -> ())
