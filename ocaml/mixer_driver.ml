(* one case per line:
     G vol mvol mvolbase pan sur      -> "vl vr"            (gains (mix_vol vol mvol mvolbase) pan sur)
     S mono sur finalpan sep          -> sep_pan
     SUM n | b1 ... | b2 ... | ...    -> vsum n [b1; b2; ...]
     O amp x1 x2 ...                  -> out16 amp xi ...
     SW x1 x2 ...                     -> swaplr *)
open Mixer_model
open Zio
let zi s = z_of_int (int_of_string s)
let rec split_on sep l = let rec go acc cur = function [] -> List.rev (List.rev cur :: acc) | x :: r when x = sep -> go (List.rev cur :: acc) [] r | x :: r -> go acc (x :: cur) r in go [] [] l
let show l = String.concat " " (List.map zs l)
let () = iter_lines (fun l ->
  match words l with
  | ["G"; vol; mvol; mvb; pan; sur] -> let (a, b) = gains (mix_vol (zi vol) (zi mvol) (zi mvb)) (zi pan) (sur = "1") in print_endline (zs a ^ " " ^ zs b)
  | ["S"; mono; sur; fp; sep] -> print_endline (zs (sep_pan (mono = "1") (sur = "1") (zi fp) (zi sep)))
  | "SUM" :: n :: "|" :: rest -> print_endline (show (vsum (nat_of_int (int_of_string n)) (List.map (List.map zi) (split_on "|" rest))))
  | "O" :: amp :: xs -> print_endline (show (List.map (fun x -> out16 (zi amp) (zi x)) xs))
  | "SW" :: xs -> print_endline (show (swaplr (List.map zi xs)))
  | _ -> print_endline "?")
