(* one case per line:
     U method destlen hex       -> "FAIL" | "OK <hex>"        arc_unpack (method 8 crunched, 9 squashed, 127 compressed)
     P method maxw hex          -> "A <hex of the member's packed stream>"   pack_crunched (8) / pack_squashed (9) / pack_compressed maxw (127) *)
open Arclzw_model
open Zio
let bytes h = if h = "-" then [] else zlist_of_hex h
let () =
  iter_lines (fun l ->
    (match words l with
    | ["U"; m; n; h] -> (match arc_unpack (z_of_int (int_of_string m)) (z_of_int (int_of_string n)) (bytes h) with None -> print_string "FAIL" | Some o -> Printf.printf "OK %s" (if o = [] then "-" else hex_of_zlist o))
    | ["P"; m; w; h] ->
        let d = bytes h in
        let z = match int_of_string m with 8 -> pack_crunched encode d | 9 -> pack_squashed d | _ -> pack_compressed (z_of_int (int_of_string w)) d in
        Printf.printf "A %s" (hex_of_zlist z)
    | _ -> print_string "?");
    print_newline ())
