(* name wide sin count ramp vl vr step dl dr a0 b0 b1 l1 l2 r1 r2 ovl ovr pos frac base | data | buf
   ->  "R buf' | l1 l2 r1 r2"  or "OOB" when the model's kernel leaves the sample memory or the buffer *)
open Mixkernel_model
open Zio
let zi s = z_of_int (int_of_string s)
let has_sub s sub = let n = String.length s and m = String.length sub in
  let rec go i = i + m <= n && (String.sub s i m = sub || go (i + 1)) in go 0
let () = iter_lines (fun l ->
  (match List.map words (String.split_on_char '|' l) with
   | [[name; wide; sin; count; ramp; vl; vr; step; dl; dr; a0; b0; b1; l1; l2; r1; r2; ovl; ovr; pos; frac; base]; data; buf] ->
      let c = { k_interp = (if has_sub name "nearest" then Nearest else if has_sub name "linear" then Linear else Spline);
                k_wide = wide <> "0"; k_sin = sin <> "0"; k_sout = has_sub name "stereoout"; k_filter = has_sub name "_filter" } in
      let chn = if sin <> "0" then 2 else 1 in
      let m = { m_data = List.map zi data; m_base = zi base } in
      let a = { a_vl = zi vl; a_vr = zi vr; a_step = zi step; a_dl = zi dl; a_dr = zi dr; a_a0 = zi a0; a_b0 = zi b0; a_b1 = zi b1 } in
      let s = { s_pos = z_of_int (int_of_string pos * chn); s_frac = zi frac; s_ovl = zi ovl; s_ovr = zi ovr; s_l1 = zi l1; s_l2 = zi l2; s_r1 = zi r1; s_r2 = zi r2 } in
      (match kernel c m a (zi count) (zi ramp) s (List.map zi buf) with
       | None -> print_string "OOB"
       | Some (b, (((f1, f2), f3), f4)) ->
          print_string "R"; List.iter (fun x -> print_string (" " ^ zs x)) b;
          Printf.printf " | %s %s %s %s" (zs f1) (zs f2) (zs f3) (zs f4))
   | _ -> print_string "?");
  print_newline ())
