(* F <loop_count> <hex> : append a frame to the source;  O P <size> <loop> | O R | O S : append an op;
   GO : run the ops from the initial state (rest = [], cur_loop = 0), print "ret outhex restlen" per op, then clear. *)
open Playbuffer_model
open Zio
let frames = ref [] and ops = ref []
let () = iter_lines (fun l ->
  match words l with
  | ["F"; lc; hex] -> frames := { fbytes = zlist_of_hex (if hex = "-" then "" else hex); floop = nat_of_int (int_of_string lc) } :: !frames
  | ["O"; "P"; size; loop] -> ops := Play (nat_of_int (int_of_string size), nat_of_int (int_of_string loop)) :: !ops
  | ["O"; "R"] -> ops := Reset :: !ops
  | ["O"; "S"] -> ops := Stop :: !ops
  | ["O"; "E"] -> ops := Restart (List.rev !frames) :: !ops
  | ["GO"] ->
      let x = { rest = []; src = List.rev !frames; cur_loop = O } in
      List.iter (fun ((r, o), n) ->
        let h = hex_of_zlist o in
        Printf.printf "%d %s %d\n" (int_of_z r) (if h = "" then "-" else h) (int_of_nat n)) (run_ops x (List.rev !ops));
      print_endline "DONE"; frames := []; ops := []
  | _ -> ())
