(* one call per line (oracle values observed on the implementation are part of the line):
   NEW | LOAD E code | LOAD L code | LOAD K chn len ins cflags mode m0 m1 ... | REL | START rate fmt err | END | PF | PB null
   | GFI | GMI | SCAN | NEXT | PREV | SP p | SR r rows | STOP | RST | SEEK t | MUTE c s | VOL c v | SET parm v | GET parm | INJ chn
   | TF cls | SSM chn smp ok | ESM | SPI ins note vol chn | SPS ins note vol chn | PAN chn pan | SML num outcome | SMR num | SIP
   output: "<ret> <state> <spec>"  ret: number | + (non-negative) | F (0 or -END) | v (void) | MEMERR ; spec: 1/0 *)
open Api_model
open Zio
let zi s = z_of_int (int_of_string s)
let c = ref init
let () = iter_lines (fun l ->
  let w = words l in
  match w with
  | ["NEW"] -> c := init; print_endline "v 0 1"
  | [] -> ()
  | _ ->
    let a = Array.of_list (List.map (fun s -> try zi s with _ -> Z0) (List.tl w)) in
    let k = (match w with
      | "LOAD" :: "E" :: _ -> CLoad (LEarly a.(1)) | "LOAD" :: "L" :: _ -> CLoad (LLate a.(1))
      | "LOAD" :: "K" :: _ :: _ :: _ :: _ :: _ :: mm -> CLoad (LOk ({ sh_chn = a.(1); sh_len = a.(2); sh_ins = a.(3) }, a.(4), a.(5), List.map zi mm))
      | "REL" :: _ -> CRelease | "START" :: _ -> CStart (a.(0), a.(1), a.(2)) | "END" :: _ -> CEnd | "PF" :: _ -> CPlayFrame
      | "PB" :: n :: _ -> CPlayBuffer (n = "1") | "GFI" :: _ -> CGetFrameInfo | "GMI" :: _ -> CGetModuleInfo | "SCAN" :: _ -> CScan
      | "NEXT" :: _ -> CNext | "PREV" :: _ -> CPrev | "SP" :: _ -> CSetPos a.(0) | "SR" :: _ -> CSetRow (a.(0), a.(1))
      | "STOP" :: _ -> CStop | "RST" :: _ -> CRestart | "SEEK" :: _ -> CSeek a.(0) | "MUTE" :: _ -> CMute (a.(0), a.(1)) | "VOL" :: _ -> CVol (a.(0), a.(1))
      | "SET" :: _ -> CSetPlayer (a.(0), a.(1)) | "GET" :: _ -> CGetPlayer a.(0) | "INJ" :: _ -> CInject a.(0) | "TF" :: _ -> CTempoFactor a.(0)
      | "SSM" :: _ -> CStartSmix (a.(0), a.(1), (int_of_z a.(2)) = 1) | "ESM" :: _ -> CEndSmix
      | "SPI" :: _ -> CSmixPlayIns (a.(0), a.(1), a.(2), a.(3)) | "SPS" :: _ -> CSmixPlaySmp (a.(0), a.(1), a.(2), a.(3))
      | "PAN" :: _ -> CSmixPan (a.(0), a.(1)) | "SML" :: _ -> CSmixLoad (a.(0), a.(1)) | "SMR" :: _ -> CSmixRelease a.(0) | _ -> CSetInsPath) in
    let (c', r) = step !c k in
    let sp = spec_allows !c k r in
    c := c';
    Printf.printf "%s %s %s\n" (match r with RExact v -> zs v | RNonNeg -> "+" | RFrame -> "F" | RVoid -> "v" | MemErr -> "MEMERR") (zs c'.state) (if sp then "1" else "0"))
