(* E hex -> hex of encode ; D hex -> hex of decode   ("-" empty) *)
open Rle90_model
open Zio
let bytes h = if h = "-" then [] else zlist_of_hex h
let hx l = if l = [] then "-" else hex_of_zlist l
let () = iter_lines (fun l ->
  match words l with
  | ["E"; h] -> print_endline (hx (encode (bytes h)))
  | ["D"; h] -> print_endline (hx (decode (bytes h)))
  | _ -> print_endline "?")
