(* one case per line:
     E wide it215 s0,s1,...          -> "Z okb <hex of the compressed blocks>"         (samples as unsigned bit patterns)
     D wide it215 len hex            -> "R ok consumed s0,s1,..."                      (consumed = bytes of the stream used) *)
open Itsex_model
open Zio
let bytes h = if h = "-" then [] else zlist_of_hex h
let () =
  iter_lines (fun l ->
    (match words l with
    | ["E"; w; v; ss] ->
        let l = if ss = "-" then [] else List.map (fun s -> z_of_int (int_of_string s)) (String.split_on_char ',' ss) in
        let wide = w <> "0" in
        let z = compress (nat_of_int (List.length l + 1)) wide (v <> "0") l in
        Printf.printf "Z %d %s" (if smp_okb wide l then 1 else 0) (if z = [] then "-" else hex_of_zlist z)
    | ["D"; w; v; len; h] ->
        let src = bytes h in
        let n = int_of_string len in
        let ((smp, ok), rest) = decompress (nat_of_int (n + 1)) (w <> "0") (v <> "0") (nat_of_int n) src in
        Printf.printf "R %d %d %s" (if ok then 1 else 0) (List.length src - List.length rest) (if smp = [] then "-" else ints_of_zlist smp)
    | _ -> print_string "?");
    print_newline ())
