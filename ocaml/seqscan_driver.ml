(* one module per line:  len | ep seq time ctrlhex | ep seq time ctrlhex | ...     (hook H6's reports, in call order)
   The loop of Model/SeqScan.v is run with a scan function that answers from the reports, checking that it is asked for exactly
   the reported (entry point, sequence number) each time.
   -> "FAIL" | "R <asked-as-reported 0/1> <all reports consumed 0/1> <wfb> n ep0,ep1,... d0,d1,..." *)
open Seqscan_model
open Zio
let () =
  iter_lines (fun l ->
    (match String.split_on_char '|' l with
     | lens :: recs ->
        let len = z_of_int (int_of_string (String.trim lens)) in
        let recs = List.filter_map (fun r -> match words r with
          | [ep; seq; t; h] -> Some (int_of_string ep, int_of_string seq, z_of_int (int_of_string t), zlist_of_hex h)
          | _ -> None) recs in
        let scan (st, ok) ep seq ctrl =
          match st with
          | (e, s, t, c) :: rest -> (((t, c @ (let rec drop n l = if n = 0 then l else match l with [] -> [] | _ :: tl -> drop (n - 1) tl in drop (List.length c) ctrl)),
                                     (rest, ok && e = int_of_z ep && s = int_of_z seq)))
          | [] -> (((z_of_int (-1), ctrl), ([], false))) in
        (match scan_sequences scan (recs, true) len with
         | None -> print_string "FAIL"
         | Some (((n, eps), durs), (rest, ok)) ->
            Printf.printf "R %d %d %d %s %s %s" (if ok then 1 else 0) (if rest = [] then 1 else 0) (if seqs_wfb len n eps durs then 1 else 0)
              (zs n) (ints_of_zlist eps) (ints_of_zlist durs))
     | _ -> print_string "?");
    print_newline ())
