(* S n hexname                      -> "0 hexout" | "-1"
   F ipath|~ dirname|~ hexname L e1 e2 ... ; M f1 f2 ...   (listing of ipath after L, of dirname after M; hex; "~" = absent)
                                     -> "1 hexpath" | "0"
   D path(hex)                      -> "dirhex basehex"
   X entry headersize hdrhex internal -> "1"/"0" (may exec)   entry in LP LM LF LC TP TM TF TC *)
open Pathsan_model
open Zio
let hx s = zlist_of_hex (if s = "-" || s = "~" then "" else s)
let ph l = let h = hex_of_zlist l in if h = "" then "-" else h
let entry_of = function "LP" -> LoadPath | "LM" -> LoadMem | "LF" -> LoadFile | "LC" -> LoadCb | "TP" -> TestPath | "TM" -> TestMem | "TF" -> TestFile | _ -> TestCb
let () = iter_lines (fun l ->
  match words l with
  | ["S"; n; name] -> (match copy_name_for_fopen (hx name) (z_of_int (int_of_string n)) with Some o -> print_endline ("0 " ^ ph o) | None -> print_endline "-1")
  | "F" :: ip :: dn :: name :: rest ->
      let rec split acc = function "M" :: r -> (List.rev acc, r) | x :: r -> split (x :: acc) r | [] -> (List.rev acc, []) in
      let l1, l2 = (match rest with "L" :: r -> split [] r | _ -> ([], [])) in
      let mk d lst = if d = "~" then None else Some (hx d, Some (List.map hx lst)) in
      (match find_instrument_file (mk ip l1) (mk dn l2) (hx name) with Some p -> print_endline ("1 " ^ ph p) | None -> print_endline "0")
  | ["D"; p] -> print_endline (ph (get_dirname (hx p)) ^ " " ^ ph (get_basename (hx p)))
  | ["X"; e; hs; hdr; internal] -> print_endline (if entry_may_exec (entry_of e) (z_of_int (int_of_string hs)) (hx hdr) (internal = "1") then "1" else "0")
  | _ -> print_endline "?")
