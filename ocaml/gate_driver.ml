(* reads module dumps in the format of harness/vdump.h (each ended by ENDMOD).
   A dump that starts with "PREGATE xxp xxt marker" is what a loader left behind: prints "PRE post=<0/1> REJECT" or
   "PRE post=<0/1> <canonical form of load_accepts(raw, marker)>".  Any other dump is a loaded module: prints "POST <canonical form> <ok|BAD clauses>". *)
open Gate_model
open Zio
let zi s = z_of_int (int_of_string s)
let noenv = { e_flg = Z0; e_npt = Z0; e_sus = Z0; e_sue = Z0; e_lps = Z0; e_lpe = Z0 }
let empty () = { d_chn = Z0; d_len = Z0; d_pat = Z0; d_trk = Z0; d_ins = Z0; d_smp = Z0; d_spd = Z0; d_bpm = Z0; d_rst = Z0;
                 d_name_ok = false; d_type_ok = false; d_xxo = []; d_chans = []; d_pats = []; d_trks = []; d_inss = []; d_smps = []; d_seqs = [] }
let m = ref (empty ())
let pre = ref None
let pats = ref [] and trks = ref [] and chans = ref [] and inss = ref [] and smps = ref []
let names = ["counts"; "names"; "orders"; "patterns"; "instruments"; "samples"; "tempo"; "sequences"]
let rec pairs = function a :: b :: r -> (zi a, zi b) :: pairs r | _ -> []
let () = iter_lines (fun l ->
  match words l with
  | ["PREGATE"; a; b; mk] -> pre := Some (a = "1", b = "1", mk = "1")
  | "MOD" :: chn :: len :: pat :: trk :: ins :: smp :: spd :: bpm :: rst :: _ ->
      m := { (empty ()) with d_chn = zi chn; d_len = zi len; d_pat = zi pat; d_trk = zi trk; d_ins = zi ins; d_smp = zi smp; d_spd = zi spd; d_bpm = zi bpm; d_rst = zi rst };
      pats := []; trks := []; chans := []; inss := []; smps := []
  | "NAME" :: ok :: _ -> m := { !m with d_name_ok = (ok = "1") }
  | "TYPE" :: ok :: _ -> m := { !m with d_type_ok = (ok = "1") }
  | "XXO" :: r -> m := { !m with d_xxo = List.map zi r }
  | ["CHN"; _; vol; pan; _] -> chans := (zi vol, zi pan) :: !chans
  | ["PAT"; _; "NULL"] -> pats := None :: !pats
  | "PAT" :: _ :: rows :: idx -> pats := Some { p_rows = zi rows; p_index = List.map zi idx } :: !pats
  | ["TRK"; _; "NULL"] -> trks := None :: !trks
  | "TRK" :: _ :: rows :: _ -> trks := Some (zi rows) :: !trks
  | "INS" :: _ :: nsm :: sub :: _ :: _ :: nameok :: _ ->
      inss := { i_nsm = zi nsm; i_sub = (sub = "1"); i_name_ok = (nameok = "1"); i_aei = noenv; i_pei = noenv; i_fei = noenv } :: !inss
  | "ENV" :: _ :: which :: flg :: npt :: _ :: sus :: sue :: lps :: lpe :: _ ->
      let e = { e_flg = zi flg; e_npt = zi npt; e_sus = zi sus; e_sue = zi sue; e_lps = zi lps; e_lpe = zi lpe } in
      (match !inss with
       | i :: r -> inss := (match which with "0" -> { i with i_aei = e } | "1" -> { i with i_pei = e } | _ -> { i with i_fei = e }) :: r
       | [] -> ())
  | "SMP" :: _ :: len :: lps :: lpe :: flg :: data :: nameok :: _ ->
      smps := { sm_len = zi len; sm_lps = zi lps; sm_lpe = zi lpe; sm_flg = zi flg; sm_data = (data = "1"); sm_name_ok = (nameok = "1"); sm_sus = Z0; sm_sue = Z0 } :: !smps
  | "XTR" :: _ :: sus :: sue :: _ -> (match !smps with s :: r -> smps := { s with sm_sus = zi sus; sm_sue = zi sue } :: r | [] -> ())
  | "SEQ" :: _ :: r -> m := { !m with d_seqs = pairs r }
  | ["ENDMOD"] ->
      let d = { !m with d_chans = List.rev !chans; d_pats = List.rev !pats; d_trks = List.rev !trks; d_inss = List.rev !inss; d_smps = List.rev !smps } in
      let canon x =
        Printf.sprintf "%s %s %s %s %s %s %s %s %s | %s | %s | %s" (zs x.d_chn) (zs x.d_len) (zs x.d_pat) (zs x.d_trk) (zs x.d_ins) (zs x.d_smp) (zs x.d_spd) (zs x.d_bpm) (zs x.d_rst)
          (String.concat " " (List.map zs x.d_xxo))
          (String.concat " " (List.map (fun i -> zs i.i_aei.e_flg ^ "/" ^ zs i.i_pei.e_flg ^ "/" ^ zs i.i_fei.e_flg) x.d_inss))
          (String.concat " " (List.map (fun s -> zs s.sm_flg ^ "/" ^ zs s.sm_sus ^ "/" ^ zs s.sm_sue) x.d_smps)) in
      (match !pre with
       | Some (xp, xt, mk) ->
           pre := None;
           let r = { r_m = d; r_has_xxp = xp; r_has_xxt = xt } in
           let post = if loader_postb r then "1" else "0" in
           (match load_accepts r mk with None -> print_endline ("PRE post=" ^ post ^ " REJECT") | Some x -> print_endline ("PRE post=" ^ post ^ " " ^ canon x))
       | None ->
           let v = if public_wfb d then "ok" else ("BAD " ^ String.concat "," (List.filter_map (fun x -> x) (List.map2 (fun n b -> if b then None else Some n) names (wf_report d)))) in
           print_endline ("POST " ^ canon d ^ " # " ^ v))
  | _ -> ())
