(* OUT <entry LP LM LF LC TP TM TF TC SP> <state 0 1 2> -> the (return code, state) pairs the model allows, "r:s r:s ..." *)
open Cleanup_model
open Zio
let entry_of = function "LP" -> LoadPath | "LM" -> LoadMem | "LF" -> LoadFile | "LC" -> LoadCb | "TP" -> TestPath | "TM" -> TestMem | "TF" -> TestFile | "TC" -> TestCb | _ -> Start
let st_of = function "0" -> ((Unloaded, false), false) | "1" -> ((Loaded, true), false) | _ -> ((Playing, true), true)
let st_s = function Unloaded -> "0" | Loaded -> "1" | Playing -> "2"
let () = iter_lines (fun l ->
  match words l with
  | ["OUT"; e; s] ->
      let os = outcomes (entry_of e) (st_of s) in
      print_endline (String.concat " " (List.sort_uniq compare (List.map (fun (r, s') -> zs r ^ ":" ^ st_s s') os)))
  | _ -> print_endline "?")
