(* one case per line:
     C maxbits block clears hex   -> "Z okb <hex of the .Z file>"   clears: "-" (never) | "every:N" | a string of 0/1 (per emitted code)
     D hex                        -> "FAIL" | "OK <hex of the unpacked bytes>"
     N maxbits block clears hex   -> "N <number of codes> <number of CLEAR codes>" *)
open Lzw_model
open Zio
let bytes h = if h = "-" then [] else zlist_of_hex h
let clears_of s n =
  if s = "-" then []
  else if String.length s > 6 && String.sub s 0 6 = "every:" then
    let k = int_of_string (String.sub s 6 (String.length s - 6)) in List.init n (fun i -> (i + 1) mod k = 0)
  else List.init (String.length s) (fun i -> s.[i] = '1')
let () =
  iter_lines (fun l ->
    (match words l with
    | ["C"; mb; blk; cl; h] ->
        let d = bytes h in
        let p = { z_maxbits = z_of_int (int_of_string mb); z_block = (blk <> "0") } in
        let z = compress p (clears_of cl (List.length d)) d in
        Printf.printf "Z %d %s" (if zparams_okb p && bytesb d then 1 else 0) (hex_of_zlist z)
    | ["N"; mb; blk; cl; h] ->
        let d = bytes h in
        let p = { z_maxbits = z_of_int (int_of_string mb); z_block = (blk <> "0") } in
        let cs = encode_codes p (clears_of cl (List.length d)) d in
        Printf.printf "N %d %d" (List.length cs) (List.length (List.filter (fun c -> int_of_z c = 256) cs))
    | ["D"; h] ->
        (match uncompress (bytes h) with
         | None -> print_string "FAIL"
         | Some o -> Printf.printf "OK %s" (if o = [] then "-" else hex_of_zlist o))
    | _ -> print_string "?");
    print_newline ())
