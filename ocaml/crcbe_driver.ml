(* B hex -> the bzip2 block CRC of the bytes;  S hex|hex|... -> the stream CRC over the blocks *)
open Crcbe_model
open Zio
let bytes h = if h = "-" then [] else zlist_of_hex h
let () = iter_lines (fun l ->
  (match words l with
   | ["B"; h] -> print_string (big_zs (bz_block_crc (bytes h)))
   | ["S"; hs] -> print_string (big_zs (bz_stream_crc (List.map bytes (String.split_on_char '|' hs))))
   | _ -> print_string "?");
  print_newline ())
