(* one case per line:
     U hex            -> "FAIL" | "OK <hex>"                    pp_unpack
     P e0,e1,e2,e3 hex -> "PP okb <hex of the PP20 file>"       pp_pack_data (okb: efficiency table valid, steps well-formed and standing for the data) *)
open Pp20_model
open Zio
let bytes h = if h = "-" then [] else zlist_of_hex h
let () =
  iter_lines (fun l ->
    (match words l with
    | ["U"; h] -> (match pp_unpack (bytes h) with None -> print_string "FAIL" | Some o -> Printf.printf "OK %s" (if o = [] then "-" else hex_of_zlist o))
    | ["P"; e; h] ->
        let eff = List.map (fun s -> z_of_int (int_of_string s)) (String.split_on_char ',' e) in
        let data = bytes h in
        let ss = pp_tokenize (nat_of_int (List.length data + 1)) (List.rev data) [] [] in
        let ok = eff_okb eff && steps_okb eff ss Z0 && steps_expand ss [] = data in
        Printf.printf "PP %d %s" (if ok then 1 else 0) (hex_of_zlist (pp_pack_data eff data))
    | _ -> print_string "?");
    print_newline ())
