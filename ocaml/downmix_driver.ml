(* one case per line:
     D <bits> <amp> <offs> <x>        -> encoded output unit
     T <freq> <tfn> <tfd> <bpm>       -> ticksize after libxmp_mixer_prepare
     B <mono> <eightbit> <ticksize>   -> buffer_size out_units *)
open Downmix_model
open Zio
let () = iter_lines (fun l ->
  match words l with
  | ["D"; bits; amp; offs; x] ->
      let f = if bits = "8" then down8 else down16 in
      print_endline (zs (f (z_of_int (int_of_string amp)) (z_of_int (int_of_string offs)) (z_of_int (int_of_string x))))
  | ["T"; a; b; c; d] ->
      print_endline (zs (prepare_ticksize (z_of_int (int_of_string a)) (z_of_int (int_of_string b)) (z_of_int (int_of_string c)) (z_of_int (int_of_string d))))
  | ["B"; m; e; t] ->
      let t = z_of_int (int_of_string t) in
      print_endline (zs (buffer_size (m = "1") (e = "1") t) ^ " " ^ zs (out_units (m = "1") t))
  | _ -> print_endline "?")
