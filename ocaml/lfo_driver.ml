(* "mode seed | ops" -> values of the G ops (OOB when the model's table access fails), then "| phase rngstate" *)
open Lfo_model
open Zio
let () = iter_lines (fun l ->
  (match String.split_on_char '|' l with
   | [h; ops] ->
      (match words h with
       | [mode; seed] ->
          let md = (match int_of_string mode land 3 with 0 -> RMod | 1 -> RSt3 | 2 -> RFt2 | _ -> RIt) in
          let st = ref lfo_zero and rs = ref (z_of_int (int_of_string seed)) in
          List.iter (fun t ->
            let v () = z_of_int (int_of_string (String.sub t 1 (String.length t - 1))) in
            match t.[0] with
            | 'U' -> st := lfo_op !st Update
            | 'P' -> st := lfo_op !st SetPhase0
            | 'D' -> st := lfo_op !st (SetDepth (v ()))
            | 'R' -> st := lfo_op !st (SetRate (v ()))
            | 'W' -> st := lfo_op !st (SetWave (v ()))
            | 'G' -> (match lfo_get md (t <> "G0") !rs !st with
                      | None -> print_string "OOB "
                      | Some (x, r) -> rs := r; print_string (zs x ^ " "))
            | _ -> ()) (words ops);
          Printf.printf "| %s %s" (zs !st.l_phase) (zs !rs)
       | _ -> print_string "?")
   | _ -> print_string "?");
  print_newline ())
