(* "M len nseq | xxo... | rows..."   sets the module shape
   "C rate mono 8bit tfn tfd"        sets the output configuration
   "F pos pattern row num_rows frame speed bpm frame_time buffer_size total_size loop_count virt_channels virt_used sequence"
        -> "ok" or "BAD position|tempo|buffer|voices|sequence"   plus " BYTES" when buffer_size > XMP_MAX_FRAMESIZE *)
open Frameinfo_model
open Zio
let zi s = z_of_int (int_of_string s)
let ms = ref { ms_len = Z0; ms_xxo = []; ms_rows = []; ms_nseq = Z0 }
let oc = ref { oc_rate = Z0; oc_mono = false; oc_8bit = false; oc_tfn = Z0; oc_tfd = Z0 }
let split_bar l = let rec go acc cur = function [] -> List.rev (List.rev cur :: acc) | "|" :: r -> go (List.rev cur :: acc) [] r | x :: r -> go acc (x :: cur) r in go [] [] l
let () = iter_lines (fun l ->
  match words l with
  | "M" :: rest -> (match split_bar rest with
      | [[len; nseq]; xxo; rows] -> ms := { ms_len = zi len; ms_xxo = List.map zi xxo; ms_rows = List.map zi rows; ms_nseq = zi nseq }
      | [[len; nseq]; xxo] -> ms := { ms_len = zi len; ms_xxo = List.map zi xxo; ms_rows = []; ms_nseq = zi nseq }
      | _ -> print_endline "?M")
  | ["C"; rate; mono; e; tfn; tfd] -> oc := { oc_rate = zi rate; oc_mono = (mono = "1"); oc_8bit = (e = "1"); oc_tfn = zi tfn; oc_tfd = zi tfd }
  | "F" :: a when List.length a = 14 ->
      let a = Array.of_list (List.map zi a) in
      let f = { fi_pos = a.(0); fi_pattern = a.(1); fi_row = a.(2); fi_num_rows = a.(3); fi_frame = a.(4); fi_speed = a.(5); fi_bpm = a.(6);
                fi_frame_time = a.(7); fi_buffer_size = a.(8); fi_total_size = a.(9); fi_loop_count = a.(10);
                fi_virt_channels = a.(11); fi_virt_used = a.(12); fi_sequence = a.(13) } in
      let bad = List.filter (fun (_, b) -> not b) ["position", position_okb !ms f; "tempo", tempo_okb f; "buffer", buffer_okb !oc f; "frametime", frametime_okb !oc f; "voices", voices_okb f; "sequence", sequence_okb !ms f] in
      let s = if bad = [] then "ok" else "BAD " ^ String.concat "," (List.map fst bad) in
      print_endline (s ^ (if buffer_bytes_within_limit f then "" else " BYTES"))
  | _ -> print_endline "?")
