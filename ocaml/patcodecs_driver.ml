(* one case per line:
     XMD rows chn hex            -> "FAIL" | "OK <events>"        (xm_load_pattern; events row-major, non-empty ones as idx:n,i,v,t,p,t2,p2)
     XME m:n,i,v,t,p ...         -> "ENC okb hex"                  (xm_enc_cells; m = -1 raw, -2 tightest packing, else the packing mask)
     S3D chn pl hex              -> "FAIL" | "OK err <events>"     (s3m_load_pattern; 64 rows x chn)
     S3E chn row|row|...         -> "ENC okb hex REF <events>"     (row = entries c,hni,n,i,hv,v,hf,t,p separated by spaces)
     ITD newfx rows hex          -> "OK maxch <events>"            (it_load_pattern; the first maxch+1 columns of each row)
     ITE newfx row|row|...       -> "ENC okb hex REF <events>"     (row = entries c,hn,n,hi,i,hv,v,hf,t,p; REF is 64 columns wide) *)
open Patcodecs_model
open Zio
let zi s = z_of_int (int_of_string s)
let bytes h = if h = "-" then [] else zlist_of_hex h
let evs_str width keep (rows : ev list list) =
  let b = Buffer.create 256 in
  List.iteri (fun r row -> List.iteri (fun c e ->
    if c < keep then begin
      let f = [e.e_note; e.e_ins; e.e_vol; e.e_fxt; e.e_fxp; e.e_f2t; e.e_f2p] in
      if List.exists (fun x -> x <> Z0) f then
        Buffer.add_string b (Printf.sprintf " %d:%s" (r * width + c) (String.concat "," (List.map zs f))) end) row) rows;
  Buffer.contents b
let bl s = s <> "0"
let split_rows toks =
  let rec go cur acc = function
    | [] -> List.rev (List.rev cur :: acc)
    | "|" :: t -> go [] (List.rev cur :: acc) t
    | x :: t -> go (x :: cur) acc t in
  go [] [] toks
let () =
  iter_lines (fun l ->
    (match words l with
    | ["XMD"; rows; chn; h] ->
        (match xm_load_pattern (zi rows) (zi chn) (bytes h) with
         | None -> print_string "FAIL"
         | Some es -> let w = int_of_string chn in print_string ("OK" ^ evs_str 1 1 (List.map (fun e -> [e]) es)); ignore w)
    | "XME" :: cells ->
        let mcs = List.map (fun tok -> match String.split_on_char ':' tok with
          | [m; f] -> (match String.split_on_char ',' f with
                       | [n; i; v; t; p] -> let c = { r_note = zi n; r_ins = zi i; r_vol = zi v; r_fxt = zi t; r_fxp = zi p } in
                                            let m = int_of_string m in
                                            ((if m = -1 then None else if m = -2 then xm_min_mode c else Some (z_of_int m)), c)
                       | _ -> failwith "cell")
          | _ -> failwith "cell") cells in
        let ok = List.for_all (fun (m, c) -> rcell_okb c && xm_mode_okb m c) mcs in
        Printf.printf "ENC %d %s" (if ok then 1 else 0) (hex_of_zlist (xm_enc_cells mcs))
    | ["S3D"; chn; pl; h] ->
        (match s3m_load_pattern (zi chn) (zi pl) (bytes h) with
         | None -> print_string "FAIL"
         | Some (rows, err) -> let w = int_of_string chn in Printf.printf "OK %d%s" (if err then 1 else 0) (evs_str w w rows))
    | "S3E" :: chn :: toks ->
        let ent tok = match String.split_on_char ',' tok with
          | [c; hni; n; i; hv; v; hf; t; p] -> { s_chn = zi c; s_hasni = bl hni; s_note = zi n; s_ins = zi i; s_hasvol = bl hv; s_vol = zi v; s_hasfx = bl hf; s_fxt = zi t; s_fxp = zi p }
          | _ -> failwith "ent" in
        let rows = List.map (List.map ent) (split_rows toks) in
        let ok = List.for_all (List.for_all s3ment_okb) rows in
        let w = int_of_string chn in
        Printf.printf "ENC %d %s REF%s" (if ok then 1 else 0) (hex_of_zlist (s3m_enc_rows rows)) (evs_str w w (List.map (s3m_ref_row (zi chn)) rows))
    | ["ITD"; nf; rows; h] ->
        let d = bytes h in
        let mx = int_of_z (it_max_channel (zi rows) d) in
        Printf.printf "OK %d%s" mx (evs_str (mx + 1) (mx + 1) (it_load_pattern (bl nf) (zi rows) d))
    | "ITE" :: nf :: toks ->
        let ent tok = match String.split_on_char ',' tok with
          | [c; hn; n; hi; i; hv; v; hf; t; p] -> { t_chn = zi c; t_hasnote = bl hn; t_note = zi n; t_hasins = bl hi; t_ins = zi i; t_hasvol = bl hv; t_vol = zi v; t_hasfx = bl hf; t_fxt = zi t; t_fxp = zi p }
          | _ -> failwith "ent" in
        let rows = List.map (List.map ent) (split_rows toks) in
        let ok = List.for_all (List.for_all itent_okb) rows in
        Printf.printf "ENC %d %s REF%s" (if ok then 1 else 0) (hex_of_zlist (it_enc_rows rows)) (evs_str 64 64 (it_ref_rows (bl nf) (List.init 64 (fun _ -> Z0)) rows))
    | _ -> print_string "?");
    print_newline ())
