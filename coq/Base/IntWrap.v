(* C integer conversions on Z: the wrap-arounds the models make explicit. *)
From Coq Require Import ZArith Lia Bool.
Local Open Scope Z_scope.

Definition uwrap (bits : Z) (x : Z) : Z := x mod 2 ^ bits.
Definition swrap (bits : Z) (x : Z) : Z :=
  let m := 2 ^ bits in let r := x mod m in if r <? m / 2 then r else r - m.

Definition uwrap8 := uwrap 8.   Definition uwrap16 := uwrap 16.  Definition uwrap32 := uwrap 32.
Definition wrap8 := swrap 8.    Definition wrap16 := swrap 16.   Definition wrap32 := swrap 32.

Definition clamp (lo hi x : Z) : Z := if x <? lo then lo else if hi <? x then hi else x.

Definition is_int32 (x : Z) : Prop := - 2 ^ 31 <= x < 2 ^ 31.
Definition is_byte (x : Z) : Prop := 0 <= x < 256.
Definition is_byteb (x : Z) : bool := (0 <=? x) && (x <? 256).

Lemma is_byteb_spec x : is_byteb x = true <-> is_byte x.
Proof. unfold is_byteb, is_byte. rewrite andb_true_iff, Z.leb_le, Z.ltb_lt. tauto. Qed.

Lemma uwrap_range bits x : 0 <= bits -> 0 <= uwrap bits x < 2 ^ bits.
Proof. intros H. unfold uwrap. apply Z.mod_pos_bound. apply Z.pow_pos_nonneg; lia. Qed.

Lemma uwrap_id bits x : 0 <= x < 2 ^ bits -> uwrap bits x = x.
Proof. intros H. unfold uwrap. apply Z.mod_small. exact H. Qed.

Lemma swrap_range bits x : 1 <= bits -> - 2 ^ (bits - 1) <= swrap bits x < 2 ^ (bits - 1).
Proof.
  intros H. unfold swrap. cbv zeta.
  assert (E : 2 ^ bits = 2 ^ (bits - 1) * 2).
  { replace bits with ((bits - 1) + 1) at 1 by lia. rewrite Z.pow_add_r by lia. reflexivity. }
  assert (P : 0 < 2 ^ (bits - 1)) by (apply Z.pow_pos_nonneg; lia).
  rewrite E. set (p := 2 ^ (bits - 1)) in *. clearbody p.
  pose proof (Z.mod_pos_bound x (p * 2) ltac:(lia)) as B.
  rewrite Z.div_mul by lia. set (r := x mod (p * 2)) in *. clearbody r.
  destruct (Z.ltb_spec r p); lia.
Qed.

Lemma swrap_id bits x : 1 <= bits -> - 2 ^ (bits - 1) <= x < 2 ^ (bits - 1) -> swrap bits x = x.
Proof.
  intros H Hx. unfold swrap. cbv zeta.
  assert (E : 2 ^ bits = 2 ^ (bits - 1) * 2).
  { replace bits with ((bits - 1) + 1) at 1 by lia. rewrite Z.pow_add_r by lia. reflexivity. }
  assert (P : 0 < 2 ^ (bits - 1)) by (apply Z.pow_pos_nonneg; lia).
  rewrite E. set (p := 2 ^ (bits - 1)) in *. clearbody p.
  rewrite Z.div_mul by lia.
  destruct (Z_lt_le_dec x 0) as [Hn|Hp].
  - assert (M : x mod (p * 2) = x + p * 2).
    { symmetry. apply Z.mod_unique with (q := -1); lia. }
    rewrite M. destruct (Z.ltb_spec (x + p * 2) p); lia.
  - rewrite Z.mod_small by lia. destruct (Z.ltb_spec x p); lia.
Qed.

Lemma swrap_congr bits x : 1 <= bits -> (swrap bits x) mod 2 ^ bits = x mod 2 ^ bits.
Proof.
  intros H. unfold swrap. cbv zeta.
  assert (P : 0 < 2 ^ bits) by (apply Z.pow_pos_nonneg; lia).
  destruct (Z.ltb_spec (x mod 2 ^ bits) (2 ^ bits / 2)).
  - apply Z.mod_mod. lia.
  - replace (x mod 2 ^ bits - 2 ^ bits) with (x mod 2 ^ bits + (-1) * 2 ^ bits) by lia.
    rewrite Z.mod_add by lia. apply Z.mod_mod. lia.
Qed.

Lemma clamp_range lo hi x : lo <= hi -> lo <= clamp lo hi x <= hi.
Proof. intros H. unfold clamp. destruct (Z.ltb_spec x lo); [lia|]. destruct (Z.ltb_spec hi x); lia. Qed.
