(* List helpers missing from the 8.16 standard library, and checked array access. *)
From Coq Require Import ZArith List Lia Arith.
Import ListNotations.

Lemma firstn_add {A} a b (l : list A) : firstn (a + b) l = firstn a l ++ firstn b (skipn a l).
Proof. revert l; induction a as [|a IH]; intros l; [reflexivity|]. destruct l as [|x l]; cbn; [destruct b; reflexivity|]. f_equal. apply IH. Qed.
Lemma skipn_add {A} a b (l : list A) : skipn b (skipn a l) = skipn (a + b) l.
Proof. revert l; induction a as [|a IH]; intros l; [reflexivity|]. destruct l as [|x l]; cbn; [destruct b; reflexivity|]. apply IH. Qed.

Fixpoint upd {A} (l : list A) (n : nat) (x : A) : list A :=
  match l, n with
  | [], _ => []
  | _ :: t, O => x :: t
  | h :: t, S n' => h :: upd t n' x
  end.
Lemma upd_length {A} (l : list A) n x : length (upd l n x) = length l.
Proof. revert n; induction l as [|h t IH]; intros [|n]; cbn; auto. Qed.
Lemma nth_upd_same {A} (l : list A) n x d : (n < length l)%nat -> nth n (upd l n x) d = x.
Proof. revert n; induction l as [|h t IH]; intros [|n] H; cbn in *; try lia; auto. apply IH; lia. Qed.
Lemma nth_upd_other {A} (l : list A) n m x d : n <> m -> nth m (upd l n x) d = nth m l d.
Proof. revert n m; induction l as [|h t IH]; intros [|n] [|m] H; cbn; auto; try congruence. Qed.

(* checked array access on Z indices *)
Definition zget {A} (l : list A) (i : Z) : option A :=
  if (i <? 0)%Z then None else nth_error l (Z.to_nat i).
Definition zlen {A} (l : list A) : Z := Z.of_nat (length l).
Lemma zget_some {A} (l : list A) i : (0 <= i < zlen l)%Z -> exists x, zget l i = Some x.
Proof.
  intros H. unfold zget, zlen in *. destruct (Z.ltb_spec i 0); [lia|].
  destruct (nth_error l (Z.to_nat i)) eqn:E; [eauto|]. apply nth_error_None in E. lia.
Qed.
Lemma zget_none {A} (l : list A) i : ~ (0 <= i < zlen l)%Z -> zget l i = None.
Proof.
  intros H. unfold zget, zlen in *. destruct (Z.ltb_spec i 0); [reflexivity|].
  apply nth_error_None. lia.
Qed.

Lemma nth_skipn {A} (l : list A) n k d : nth k (skipn n l) d = nth (n + k) l d.
Proof. revert l; induction n as [|n IH]; intros l; [reflexivity|]. destruct l as [|x l]; cbn; [destruct k; reflexivity|]. apply IH. Qed.
Lemma nth_firstn {A} (l : list A) n k d : (k < n)%nat -> nth k (firstn n l) d = nth k l d.
Proof. revert l k; induction n as [|n IH]; intros l k H; [lia|]. destruct l as [|x l]; [destruct k; reflexivity|]. destruct k; cbn; [reflexivity|]. apply IH. lia. Qed.
