From Coq Require Import ExtrOcamlBasic ZArith.
From LX Require Import Model.Crc.
Definition ztypes_witness : Z * nat := (0%Z, 0%nat).
Cd "extracted".
Extraction "crc_model.ml" ztypes_witness crc32_A crc32_A_no_inv crc16_IBM gate32 gate16.
Cd "..".
