From Coq Require Import ExtrOcamlBasic ZArith.
From LX Require Import Model.Api.
Definition ztypes_witness : Z * nat := (0%Z, 0%nat).
Cd "extracted".
Extraction "api_model.ml" ztypes_witness init step spec_allows.
Cd "..".
