From Coq Require Import ZArith List Extraction ExtrOcamlBasic.
From LX Require Import Model.Rle90.
Cd "extracted".
Extraction "rle90_model.ml" encode decode.
Cd "..".
