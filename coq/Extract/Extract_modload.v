From Coq Require Import ZArith List Extraction ExtrOcamlBasic.
From LX Require Import Model.ModuleWf Model.Gate Model.ModLoad.
Cd "extracted".
Extraction "modload_model.ml" mod_raw loader_postb finish public_wfb.
Cd "..".
