From Coq Require Import ZArith List Extraction ExtrOcamlBasic.
From LX Require Import Model.ModuleWf Model.Gate Model.ModLoad Model.C669Load Model.MtmLoad Model.S3MLoad.
Cd "extracted".
Extraction "modload_model.ml" mod_raw c669_raw mtm_raw s3m_raw loader_postb finish public_wfb.
Cd "..".
