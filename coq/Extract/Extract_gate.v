From Coq Require Import ExtrOcamlBasic ZArith.
From LX Require Import Model.ModuleWf Model.Gate.
Definition ztypes_witness : Z * nat := (0%Z, 0%nat).
Cd "extracted".
Extraction "gate_model.ml" ztypes_witness finish load_accepts loader_postb public_wfb wf_report.
Cd "..".
