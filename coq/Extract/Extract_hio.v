From Coq Require Import ExtrOcamlBasic ZArith.
From LX Require Import Model.Hio.
Definition ztypes_witness : Z * nat := (0%Z, 0%nat).
Cd "extracted".
Extraction "hio_model.ml" ztypes_witness run init_state all_safe.
Cd "..".
