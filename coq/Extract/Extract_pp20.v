From Coq Require Import ZArith List Extraction ExtrOcamlBasic.
From LX Require Import Model.PP20.
Cd "extracted".
Extraction "pp20_model.ml" pp_unpack pp_pack_data pp_tokenize steps_okb steps_expand eff_okb.
Cd "..".
