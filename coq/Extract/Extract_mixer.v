From Coq Require Import ZArith List Extraction ExtrOcamlBasic.
From LX Require Import Model.Mixer.
Cd "extracted".
Extraction "mixer_model.ml" sep_pan voice_vol mix_vol gains contrib vsum out16 swaplr.
Cd "..".
