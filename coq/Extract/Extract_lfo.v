From Coq Require Import ZArith List Extraction ExtrOcamlBasic.
From LX Require Import Model.Lfo.
Cd "extracted".
Extraction "lfo_model.ml" lfo_get lfo_op lfo_zero get_random.
Cd "..".
