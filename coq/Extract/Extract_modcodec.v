From Coq Require Import ZArith List Extraction ExtrOcamlBasic.
From LX Require Import Model.ModCodec.
Cd "extracted".
Extraction "modcodec_model.ml" encode decode song_okb.
Cd "..".
