From Coq Require Import ZArith List Extraction ExtrOcamlBasic.
From LX Require Import Model.Flow.
Cd "extracted".
Extraction "flow_model.ml" next_order next_row fmod_okb playableb pos_okb.
Cd "..".
