From Coq Require Import ZArith List Extraction ExtrOcamlBasic.
From LX Require Import Model.Seek.
Cd "extracted".
Extraction "seek_model.ml" control play_frame smod_okb scan_endb.
Cd "..".
