From Coq Require Import ZArith List Extraction ExtrOcamlBasic.
From LX Require Import Model.ModuleWf Model.Envelope.
Cd "extracted".
Extraction "envelope_model.ml" get_envelope update_envelope env_okb.
Cd "..".
