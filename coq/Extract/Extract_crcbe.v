From Coq Require Import ZArith List Extraction ExtrOcamlBasic.
From LX Require Import Model.CrcBE.
Cd "extracted".
Extraction "crcbe_model.ml" bz_block_crc bz_stream_crc.
Cd "..".
