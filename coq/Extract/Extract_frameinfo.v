From Coq Require Import ExtrOcamlBasic ZArith.
From LX Require Import Model.FrameInfo.
Definition ztypes_witness : Z * nat := (0%Z, 0%nat).
Cd "extracted".
Extraction "frameinfo_model.ml" ztypes_witness frame_info_okb position_okb tempo_okb buffer_okb frametime_okb voices_okb sequence_okb buffer_bytes_within_limit loops_nondecreasing.
Cd "..".
