From Coq Require Import ExtrOcamlBasic ZArith.
From LX Require Import Model.Downmix.
Definition ztypes_witness : Z * nat := (0%Z, 0%nat).
Cd "extracted".
Extraction "downmix_model.ml" ztypes_witness down16 down8 clip16 clip8 pre16 pre8 prepare_ticksize get_ticksize buffer_size out_units.
Cd "..".
