From Coq Require Import ZArith List Extraction ExtrOcamlBasic.
From LX Require Import Model.Lzw.
Cd "extracted".
Extraction "lzw_model.ml" compress uncompress zparams_okb bytesb encode_codes.
Cd "..".
