From Coq Require Import ZArith List Extraction ExtrOcamlBasic.
From LX Require Import Model.Wrap.
Cd "extracted".
Extraction "wrap_model.ml" wrap_init wrap_reset wpar_okb protocol_okb invloop_next invloop_index.
Cd "..".
