From Coq Require Import ExtrOcamlBasic ZArith.
From LX Require Import Model.PlayBuffer.
Definition ztypes_witness : Z * nat := (0%Z, 0%nat).
Cd "extracted".
Extraction "playbuffer_model.ml" ztypes_witness run_ops step play_buffer reset stop_module.
Cd "..".
