From Coq Require Import ExtrOcamlBasic ZArith.
From LX Require Import Model.Voices.
Definition ztypes_witness : Z * nat := (0%Z, 0%nat).
Cd "extracted".
Extraction "voices_model.ml" ztypes_witness virt_init vstep invb modeb op_okb.
Cd "..".
