From Coq Require Import ExtrOcamlBasic ZArith.
From LX Require Import Model.SampleLoad.
Definition ztypes_witness : Z * nat := (0%Z, 0%nat).
Cd "extracted".
Extraction "sampleload_model.ml" ztypes_witness load_sample.
Cd "..".
