From Coq Require Import ZArith List Extraction ExtrOcamlBasic.
From LX Require Import Model.Isolation.
(* Z.succ only so that the shared OCaml helper (zio) finds the extracted positive / Z types *)
Cd "extracted".
Extraction "isolation_model.ml" interleavings calls_of outs_of Z.succ.
Cd "..".
