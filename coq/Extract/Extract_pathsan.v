From Coq Require Import ExtrOcamlBasic ZArith.
From LX Require Import Model.PathSan.
Definition ztypes_witness : Z * nat := (0%Z, 0%nat).
Cd "extracted".
Extraction "pathsan_model.ml" ztypes_witness copy_name_for_fopen find_instrument_file get_dirname get_basename decrunch_decision entry_may_exec.
Cd "..".
