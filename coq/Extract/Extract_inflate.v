From Coq Require Import ZArith List Extraction ExtrOcamlBasic.
From LX Require Import Model.Inflate.
Cd "extracted".
Extraction "inflate_model.ml" inflate gunzip deflate gzip_member tokenize segs_okb segs_expand.
Cd "..".
