From Coq Require Import ZArith List Extraction ExtrOcamlBasic.
From LX Require Import Model.Probe.
Cd "extracted".
Extraction "probe_model.ml" copy_adjust adjust_string canon titles_agree expected_test test_module load_module.
Cd "..".
