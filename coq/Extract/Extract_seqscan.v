From Coq Require Import ZArith List Extraction ExtrOcamlBasic.
From LX Require Import Model.SeqScan.
Cd "extracted".
Extraction "seqscan_model.ml" scan_sequences seqs_wfb.
Cd "..".
