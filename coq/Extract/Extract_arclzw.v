From Coq Require Import ZArith List Extraction ExtrOcamlBasic.
From LX Require Import Model.Rle90 Model.ArcLzw.
Cd "extracted".
Extraction "arclzw_model.ml" arc_unpack pack_squashed pack_compressed pack_crunched Rle90.encode.
Cd "..".
