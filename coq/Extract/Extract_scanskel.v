From Coq Require Import ZArith List Extraction ExtrOcamlBasic.
From LX Require Import Model.ScanSkel.
Cd "extracted".
Extraction "scanskel_model.ml" replay_calls bound count_main.
Cd "..".
