From Coq Require Import ExtrOcamlBasic ZArith QArith.
From LX Require Import Model.Linear.
Definition ztypes_witness : Z * nat := (0%Z, 0%nat).
Cd "extracted".
Extraction "linear_model.ml" ztypes_witness scan play lmod_okb.
Cd "..".
