From Coq Require Import ZArith List Extraction ExtrOcamlBasic.
From LX Require Import Model.MixKernel.
Cd "extracted".
Extraction "mixkernel_model.ml" kernel contributions pos_at frac_at reach_lo reach_hi.
Cd "..".
