From Coq Require Import ZArith List Extraction ExtrOcamlBasic.
From LX Require Import Model.Cleanup.
Cd "extracted".
(* Nat.add only so that the shared OCaml helper (zio) finds the extracted nat type *)
Extraction "cleanup_model.ml" outcomes run all_faults Nat.add.
Cd "..".
