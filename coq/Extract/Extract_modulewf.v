From Coq Require Import ExtrOcamlBasic ZArith.
From LX Require Import Model.ModuleWf.
Definition ztypes_witness : Z * nat := (0%Z, 0%nat).
Cd "extracted".
Extraction "modulewf_model.ml" ztypes_witness public_wfb wf_report.
Cd "..".
