From Coq Require Import ZArith List Extraction ExtrOcamlBasic.
From LX Require Import Model.ItSex.
Cd "extracted".
Extraction "itsex_model.ml" decompress compress smp_okb.
Cd "..".
