From Coq Require Import ZArith List Extraction ExtrOcamlBasic.
From LX Require Import Model.PatCodecs.
Cd "extracted".
Extraction "patcodecs_model.ml" xm_load_pattern xm_enc_cells xm_mode_okb rcell_okb xm_min_mode xm_xlat
  s3m_load_pattern s3m_enc_rows s3ment_okb s3m_ref_row
  it_load_pattern it_max_channel it_enc_rows itent_okb it_ref_rows.
Cd "..".
