From Coq Require Import ExtrOcamlBasic ZArith.
From LX Require Import Model.ModuleWf Model.Bounds.
Definition ztypes_witness : Z * nat := (0%Z, 0%nat).
Cd "extracted".
Extraction "bounds_model.ml" ztypes_witness public_wfb wf_report consumers_okb.
Cd "..".
