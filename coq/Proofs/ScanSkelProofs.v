From Coq Require Import ZArith List Lia Bool.
Import ListNotations.
From LX Require Import Base.ListAux Model.ScanSkel.
Local Open Scope Z_scope.

Lemma zsum_upd f l n x : (n < length l)%nat ->
  zsum (map f (upd l n x)) = zsum (map f l) - f (nth n l 0) + f x.
Proof.
  revert n; induction l as [|h t IH]; intros [|n] H; cbn [length] in H; try lia.
  - cbn [upd map zsum fold_right nth]. lia.
  - cbn [upd map zsum fold_right nth]. fold (zsum (map f (upd t n x))). fold (zsum (map f t)). rewrite IH by lia. lia.
Qed.

Lemma Forall_upd (P : Z -> Prop) l n x : Forall P l -> P x -> Forall P (upd l n x).
Proof. revert n; induction l as [|h t IH]; intros [|n] Hl Hx; cbn; auto; inversion Hl; subst; constructor; auto. Qed.

Lemma Forall_nth (P : Z -> Prop) l n : Forall P l -> (n < length l)%nat -> P (nth n l 0).
Proof. revert n; induction l as [|h t IH]; intros [|n] Hl Hn; cbn in *; try lia; inversion Hl; subst; auto. apply IH; auto; lia. Qed.

Lemma zsum_nonneg l : Forall (fun c => 0 <= c <= 255) l -> 0 <= zsum (map (fun c => 255 - c) l) <= 255 * Z.of_nat (length l).
Proof. induction 1 as [|c t Hc Ht IH]; cbn [map zsum fold_right length]; [lia|]. fold (zsum (map (fun c0 => 255 - c0) t)). lia. Qed.

Lemma mu_nonneg st : inv st -> 0 <= mu st.
Proof. intros [H1 H2]. unfold mu. pose proof (zsum_nonneg _ H1). lia. Qed.

(* one event: the invariant is kept; a main event either strictly lowers the measure or is the last one *)
Lemma step_spec st e st' : inv st -> step st e = Some st' ->
  inv st' /\ (is_main e = false -> mu st' <= mu st) /\ (is_main e = true -> stopped st' = false -> mu st' <= mu st - 1).
Proof.
  intros [I1 I2] H. unfold step in H. destruct (stopped st); [discriminate|]. destruct e as [|c|c d].
  - destruct (Z.ltb_spec 512 (osl st)); [discriminate|]. injection H as <-. unfold inv, mu. cbn [cnt osl stopped is_main].
    split; [split; [exact I1|lia]|]. split; [discriminate|intros _ _; lia].
  - destruct (Nat.ltb_spec c (length (cnt st))) as [Hc|Hc]; [|discriminate]. injection H as <-.
    pose proof (Forall_nth _ _ _ I1 Hc) as Hn. cbv beta in Hn. set (o := nth c (cnt st) 0) in *.
    assert (Hv : 0 <= (o + 1) mod 256 <= 255) by (pose proof (Z.mod_pos_bound (o + 1) 256); lia).
    unfold inv, mu. cbn [cnt osl stopped is_main]. split; [split; [apply Forall_upd; auto|lia]|]. split; [discriminate|].
    intros _ Hs. apply Z.eqb_neq in Hs. rewrite zsum_upd by exact Hc. fold o.
    assert (E : (o + 1) mod 256 = o + 1).
    { destruct (Z.eq_dec o 255) as [->|Hne]; [exfalso; apply Hs; reflexivity|]. apply Z.mod_small. lia. }
    rewrite E. lia.
  - destruct ((c <? length (cnt st))%nat && (0 <=? d) && (d <=? 15)) eqn:G; [|discriminate]. injection H as <-.
    apply andb_prop in G as [G G3]. apply andb_prop in G as [G1 G2]. apply Nat.ltb_lt in G1. apply Z.leb_le in G2, G3.
    pose proof (Forall_nth _ _ _ I1 G1) as Hn. cbv beta in Hn. set (o := nth c (cnt st) 0) in *.
    unfold inv, mu. cbn [cnt osl stopped is_main]. split; [split; [apply Forall_upd; auto; lia|lia]|]. split; [|discriminate].
    intros _. rewrite zsum_upd by exact G1. fold o. lia.
Qed.

Lemma stopped_no_more st e : stopped st = true -> step st e = None.
Proof. intros H. unfold step. rewrite H. reflexivity. Qed.

(* every trace of the skeleton has at most mu + 1 main events *)
Lemma run_bounded : forall evs st st', inv st -> run st evs = Some st' -> count_main evs <= mu st + 1.
Proof.
  induction evs as [|e t IH]; intros st st' I H; [cbn; pose proof (mu_nonneg st I); unfold count_main; cbn; lia|].
  cbn [run] in H. destruct (step st e) as [st1|] eqn:E; [|discriminate].
  destruct (step_spec st e st1 I E) as (I1 & M0 & M1).
  unfold count_main in *. cbn [filter]. destruct (is_main e) eqn:Em.
  - cbn [length]. rewrite Nat2Z.inj_succ.
    destruct (stopped st1) eqn:S.
    + (* the wrapping visit: nothing can follow *)
      destruct t as [|e2 t2]; [cbn; pose proof (mu_nonneg st I); lia|].
      cbn [run] in H. rewrite (stopped_no_more st1 e2 S) in H. discriminate.
    + specialize (IH st1 st' I1 H). specialize (M1 eq_refl eq_refl). lia.
  - specialize (IH st1 st' I1 H). specialize (M0 eq_refl). lia.
Qed.

Lemma mu_le_bound st : inv st -> mu st + 1 <= bound (Z.of_nat (length (cnt st))).
Proof. intros [I1 I2]. unfold mu, bound. pose proof (zsum_nonneg _ I1). lia. Qed.

Lemma replay_is_run : forall evs st, replay st evs = true -> exists st', run st (map fst evs) = Some st'.
Proof.
  induction evs as [|[e v] t IH]; intros st H; [eexists; reflexivity|]. cbn [replay] in H. cbn [map fst run].
  destruct (step st e) as [st1|]; [|discriminate]. apply andb_prop in H as [_ H]. apply IH. exact H.
Qed.
