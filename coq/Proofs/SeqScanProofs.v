(* C03 (sequence clause): the loop of libxmp_scan_sequences (Model/SeqScan.v) produces a well-formed set of sequences and
   always stops by itself, for any scan_module that marks its own entry point and never un-marks an order. *)
From Coq Require Import ZArith List Lia Bool.
Import ListNotations.
From LX Require Import Base.ListAux Generated.Consts Model.SeqScan.
Local Open Scope Z_scope.
Ltac Zify.zify_post_hook ::= Z.div_mod_to_equations.

(* ---------- first_free ---------- *)

Lemma ff_spec : forall n ctrl i, (n <= length ctrl)%nat ->
  i <= first_free_from i n ctrl <= i + Z.of_nat n /\
  (first_free_from i n ctrl < i + Z.of_nat n ->
   nth (Z.to_nat (first_free_from i n ctrl - i)) ctrl UNMARKED = UNMARKED).
Proof.
  induction n as [|k IH]; intros ctrl i Hl.
  - cbn [first_free_from]. split; [lia|]. intro Hc; lia.
  - destruct ctrl as [|c t]; [cbn [length] in Hl; lia|].
    cbn [first_free_from]. destruct (Z.eqb_spec c UNMARKED) as [Hc|Hc].
    + split; [lia|]. intros _. replace (i - i) with 0 by lia.
      change (Z.to_nat 0) with O. cbn [nth]. exact Hc.
    + cbn [length] in Hl. destruct (IH t (i + 1)) as [Hr Hu]; [lia|]. split; [lia|].
      intros Hlt.
      replace (Z.to_nat (first_free_from (i + 1) k t - i))
        with (S (Z.to_nat (first_free_from (i + 1) k t - (i + 1)))) by lia.
      cbn [nth]. apply Hu. lia.
Qed.

(* ---------- counting the unmarked orders (termination measure) ---------- *)

Fixpoint um (n : nat) (ctrl : list Z) : nat :=
  match n, ctrl with
  | S k, c :: t => ((if Z.eqb c UNMARKED then 1 else 0) + um k t)%nat
  | _, _ => O
  end.

Lemma um_le : forall n c, (um n c <= n)%nat.
Proof.
  induction n as [|k IH]; intros c; destruct c as [|x t]; cbn [um]; try lia.
  specialize (IH t). destruct (x =? UNMARKED); lia.
Qed.

Lemma um_mono : forall n c c', length c = length c' ->
  (forall j, nth j c UNMARKED <> UNMARKED -> nth j c' UNMARKED <> UNMARKED) ->
  (um n c' <= um n c)%nat.
Proof.
  induction n as [|k IH]; intros c c' Hl Hm; destruct c as [|x t], c' as [|x' t'];
    cbn [um]; try lia; cbn [length] in Hl; try discriminate.
  assert (Ht : (um k t' <= um k t)%nat).
  { apply IH; [lia|]. intros j Hj. exact (Hm (S j) Hj). }
  destruct (Z.eqb_spec x' UNMARKED) as [Hx'|Hx'], (Z.eqb_spec x UNMARKED) as [Hx|Hx]; try lia.
  exfalso. exact (Hm O Hx Hx').
Qed.

Lemma um_strict : forall n c c' k, length c = length c' ->
  (forall j, nth j c UNMARKED <> UNMARKED -> nth j c' UNMARKED <> UNMARKED) ->
  (k < n)%nat -> nth k c UNMARKED = UNMARKED -> nth k c' UNMARKED <> UNMARKED ->
  (um n c' < um n c)%nat.
Proof.
  induction n as [|m IH]; intros c c' k Hl Hm Hk Hu Hn; [lia|].
  destruct c as [|x t], c' as [|x' t']; cbn [length] in Hl; try discriminate.
  - exfalso. apply Hn. destruct k; reflexivity.
  - assert (Hmt : forall j, nth j t UNMARKED <> UNMARKED -> nth j t' UNMARKED <> UNMARKED).
    { intros j Hj. exact (Hm (S j) Hj). }
    cbn [um]. destruct k as [|k'].
    + cbn [nth] in Hu, Hn.
      assert (Ht : (um m t' <= um m t)%nat) by (apply um_mono; [lia|exact Hmt]).
      destruct (Z.eqb_spec x' UNMARKED) as [Hx'|Hx'], (Z.eqb_spec x UNMARKED) as [Hx|Hx];
        try lia; contradiction.
    + cbn [nth] in Hu, Hn.
      assert (Ht : (um m t' < um m t)%nat) by (apply (IH t t' k'); [lia|exact Hmt|lia|exact Hu|exact Hn]).
      destruct (Z.eqb_spec x' UNMARKED) as [Hx'|Hx'], (Z.eqb_spec x UNMARKED) as [Hx|Hx]; try lia.
      exfalso. exact (Hm O Hx Hx').
Qed.

(* ---------- small list facts ---------- *)

Lemma NoDup_snoc : forall (l : list Z) x, NoDup l -> ~ In x l -> NoDup (l ++ [x]).
Proof.
  induction l as [|a l IH]; intros x Hnd Hx; cbn [app].
  - constructor; [intros []|constructor].
  - inversion Hnd as [|a' l' Ha Hl]; subst. constructor.
    + intro Hin. apply in_app_or in Hin. destruct Hin as [Hin|[Hin|[]]]; [contradiction|].
      subst. apply Hx. left. reflexivity.
    + apply IH; [exact Hl|]. intro Hin. apply Hx. right. exact Hin.
Qed.

Lemma hd_app_ne : forall (l m : list Z) d, l <> [] -> hd d (l ++ m) = hd d l.
Proof. intros l m d Hl. destruct l; [contradiction|reflexivity]. Qed.

Lemma tl_app_ne : forall (l m : list Z), l <> [] -> tl (l ++ m) = tl l ++ m.
Proof. intros l m Hl. destruct l; [contradiction|reflexivity]. Qed.

Lemma nodupb_true : forall l : list Z, NoDup l ->
  (fix nodup (l : list Z) : bool :=
     match l with [] => true | x :: t => negb (existsb (Z.eqb x) t) && nodup t end) l = true.
Proof.
  induction 1 as [|x l Hx Hnd IH]; [reflexivity|].
  apply andb_true_intro. split; [|exact IH].
  destruct (existsb (Z.eqb x) l) eqn:Ex; [|reflexivity].
  apply existsb_exists in Ex. destruct Ex as [y [Hy Hxy]]. apply Z.eqb_eq in Hxy. subst y. contradiction.
Qed.

Section SeqScanProofs.
  Variable St : Type.
  Variable scan : St -> Z -> Z -> list Z -> (Z * list Z) * St.
  Variable len : Z.
  Hypothesis Hlen : 1 <= len <= 256.
  (* what scan_module guarantees: it marks its own entry point and never un-marks an order; the array keeps its 256 entries *)
  Hypothesis scan_marks : forall st ep seq ctrl, 0 <= ep < len -> 0 <= seq < C_MAX_SEQUENCES -> length ctrl = 256%nat ->
     length (snd (fst (scan st ep seq ctrl))) = 256%nat /\
     nth (Z.to_nat ep) (snd (fst (scan st ep seq ctrl))) UNMARKED <> UNMARKED /\
     (forall i, nth i ctrl UNMARKED <> UNMARKED -> nth i (snd (fst (scan st ep seq ctrl))) UNMARKED <> UNMARKED).

  Lemma ff_len : forall ctrl, length ctrl = 256%nat ->
    0 <= first_free len ctrl <= len /\
    (first_free len ctrl < len -> nth (Z.to_nat (first_free len ctrl)) ctrl UNMARKED = UNMARKED).
  Proof.
    intros ctrl Hl. unfold first_free.
    destruct (ff_spec (Z.to_nat len) ctrl 0) as [Hr Hu]; [lia|].
    rewrite Z2Nat.id in Hr, Hu by lia. rewrite Z.sub_0_r in Hu. split; [lia|].
    intro Hlt. apply Hu. lia.
  Qed.

  (* one call of scan from inside the loop, with everything the two theorems need *)
  Lemma scan_step : forall st ctrl seq t ctrl' st',
    length ctrl = 256%nat -> 0 <= seq < C_MAX_SEQUENCES -> first_free len ctrl < len ->
    scan st (first_free len ctrl) seq ctrl = (t, ctrl', st') ->
    length ctrl' = 256%nat /\
    nth (Z.to_nat (first_free len ctrl)) ctrl UNMARKED = UNMARKED /\
    nth (Z.to_nat (first_free len ctrl)) ctrl' UNMARKED <> UNMARKED /\
    (forall i, nth i ctrl UNMARKED <> UNMARKED -> nth i ctrl' UNMARKED <> UNMARKED) /\
    (um (Z.to_nat len) ctrl' < um (Z.to_nat len) ctrl)%nat.
  Proof.
    intros st ctrl seq t ctrl' st' Hl Hs Hi E.
    destruct (ff_len ctrl Hl) as [Hr Hfree]. specialize (Hfree Hi).
    destruct (scan_marks st (first_free len ctrl) seq ctrl) as [Hl' [Hm Hmono]]; [lia|exact Hs|exact Hl|].
    rewrite E in Hl', Hm, Hmono. cbn [fst snd] in Hl', Hm, Hmono.
    refine (conj Hl' (conj Hfree (conj Hm (conj Hmono _)))).
    apply (um_strict _ ctrl ctrl' (Z.to_nat (first_free len ctrl))); try assumption; lia.
  Qed.

  (* ---------- the fuel never runs out ---------- *)

  Lemma more_fuel : forall fuel st ctrl seq eps durs,
    length ctrl = 256%nat -> 0 <= seq -> (um (Z.to_nat len) ctrl < fuel)%nat ->
    more St scan fuel st len ctrl seq eps durs <> None.
  Proof.
    induction fuel as [|f IH]; intros st ctrl seq eps durs Hl Hs Hu; [lia|].
    cbn [more].
    destruct (Z.ltb_spec (first_free len ctrl) len) as [Hi|Hi]; [|cbn [andb]; discriminate].
    destruct (Z.ltb_spec seq C_MAX_SEQUENCES) as [Hq|Hq]; [|cbn [andb]; discriminate].
    cbn [andb].
    destruct (scan st (first_free len ctrl) seq ctrl) as [[t ctrl'] st'] eqn:E.
    destruct (scan_step st ctrl seq t ctrl' st' Hl (conj Hs Hq) Hi E) as [Hl' [_ [_ [_ Hdec]]]].
    destruct (0 <? t); apply IH; try assumption; lia.
  Qed.

  Theorem scan_sequences_fuel : forall st,
    0 <= fst (fst (scan st 0 0 (repeat UNMARKED 256))) -> scan_sequences St scan st len <> None.
  Proof.
    intros st H0. unfold scan_sequences.
    destruct (scan_marks st 0 0 (repeat UNMARKED 256)) as [Hl' _];
      [lia|unfold C_MAX_SEQUENCES; lia|apply repeat_length|].
    destruct (scan st 0 0 (repeat UNMARKED 256)) as [[t0 ctrl1] st1] eqn:E.
    cbn [fst snd] in H0, Hl'.
    destruct (Z.ltb_spec t0 0) as [Hn|Hn]; [lia|].
    apply more_fuel; [exact Hl'|lia|].
    pose proof (um_le (Z.to_nat len) ctrl1). lia.
  Qed.

  (* ---------- the result is well formed ---------- *)

  Definition Inv (ctrl : list Z) (seq : Z) (eps durs : list Z) : Prop :=
    length ctrl = 256%nat /\ 1 <= seq <= C_MAX_SEQUENCES /\
    Z.of_nat (length eps) = seq /\ Z.of_nat (length durs) = seq /\
    (forall e, In e eps -> 0 <= e < len /\ nth (Z.to_nat e) ctrl UNMARKED <> UNMARKED) /\
    NoDup eps /\ hd 0 eps = 0 /\ 0 <= hd 0 durs /\ (forall d, In d (tl durs) -> 0 < d).

  Lemma more_inv : forall fuel st ctrl seq eps durs n eps' durs' st',
    Inv ctrl seq eps durs ->
    more St scan fuel st len ctrl seq eps durs = Some (n, eps', durs', st') ->
    exists ctrl', Inv ctrl' n eps' durs'.
  Proof.
    induction fuel as [|f IH]; intros st ctrl seq eps durs n eps' durs' st' HI Hm; [discriminate|].
    cbn [more] in Hm.
    destruct (Z.ltb_spec (first_free len ctrl) len) as [Hi|Hi];
      [|cbn [andb] in Hm; injection Hm as <- <- <- <-; exists ctrl; exact HI].
    destruct (Z.ltb_spec seq C_MAX_SEQUENCES) as [Hq|Hq];
      [|cbn [andb] in Hm; injection Hm as <- <- <- <-; exists ctrl; exact HI].
    cbn [andb] in Hm.
    destruct HI as [Hl [Hs [Hle [Hld [He [Hnd [Hh [Hd0 Hdt]]]]]]]].
    destruct (scan st (first_free len ctrl) seq ctrl) as [[t ctrl'] st1] eqn:E.
    assert (Hs0 : 0 <= seq) by lia.
    destruct (scan_step st ctrl seq t ctrl' st1 Hl (conj Hs0 Hq) Hi E) as [Hl' [Hfree [Hmk [Hmono _]]]].
    destruct (ff_len ctrl Hl) as [Hr _].
    assert (Hene : eps <> []) by (intro; subst eps; cbn [length] in Hle; lia).
    assert (Hdne : durs <> []) by (intro; subst durs; cbn [length] in Hld; lia).
    destruct (Z.ltb_spec 0 t) as [Ht|Ht]; apply IH in Hm; try exact Hm.
    - (* a new sequence *)
      unfold Inv. refine (conj Hl' (conj _ (conj _ (conj _ (conj _ (conj _ (conj _ (conj _ _)))))))).
      + lia.
      + rewrite app_length. cbn [length]. lia.
      + rewrite app_length. cbn [length]. lia.
      + intros e Hin. apply in_app_or in Hin. destruct Hin as [Hin|[Hin|[]]].
        * destruct (He e Hin) as [Hb Hmarked]. split; [exact Hb|]. apply Hmono. exact Hmarked.
        * subst e. split; [lia|exact Hmk].
      + apply NoDup_snoc; [exact Hnd|]. intro Hin. destruct (He _ Hin) as [_ Hmarked]. contradiction.
      + rewrite hd_app_ne by exact Hene. exact Hh.
      + rewrite hd_app_ne by exact Hdne. exact Hd0.
      + rewrite tl_app_ne by exact Hdne. intros d Hin. apply in_app_or in Hin.
        destruct Hin as [Hin|[Hin|[]]]; [apply Hdt; exact Hin|subst d; exact Ht].
    - (* an empty one: same sequence number is tried again from the next free order *)
      unfold Inv. refine (conj Hl' (conj Hs (conj Hle (conj Hld (conj _ (conj Hnd (conj Hh (conj Hd0 Hdt)))))))).
      intros e Hin. destruct (He e Hin) as [Hb Hmarked]. split; [exact Hb|]. apply Hmono. exact Hmarked.
  Qed.

  Lemma inv_wfb : forall ctrl n eps durs, Inv ctrl n eps durs ->
    seqs_wfb len n eps durs = true /\ hd 0 eps = 0 /\ (forall d, In d (tl durs) -> 0 < d).
  Proof.
    intros ctrl n eps durs [Hl [Hs [Hle [Hld [He [Hnd [Hh [Hd0 Hdt]]]]]]]].
    refine (conj _ (conj Hh Hdt)).
    unfold seqs_wfb. rewrite !andb_true_iff.
    refine (conj (conj (conj (conj (conj (conj _ _) _) _) _) _) _).
    - apply Z.leb_le. lia.
    - apply Z.leb_le. lia.
    - apply Z.eqb_eq. exact Hle.
    - apply Z.eqb_eq. exact Hld.
    - apply forallb_forall. intros e Hin. destruct (He e Hin) as [Hb _].
      apply andb_true_intro. split; [apply Z.leb_le|apply Z.ltb_lt]; lia.
    - apply forallb_forall. intros d Hin. apply Z.leb_le.
      destruct durs as [|d0 dt]; [contradiction|]. cbn [hd tl] in Hd0, Hdt.
      destruct Hin as [Hin|Hin]; [lia|]. specialize (Hdt d Hin). lia.
    - apply nodupb_true. exact Hnd.
  Qed.

  Theorem scan_sequences_wf : forall st n eps durs st',
    scan_sequences St scan st len = Some (n, eps, durs, st') ->
    seqs_wfb len n eps durs = true /\ hd 0 eps = 0 /\ (forall d, In d (tl durs) -> 0 < d).
  Proof.
    intros st n eps durs st' H. unfold scan_sequences in H.
    destruct (scan_marks st 0 0 (repeat UNMARKED 256)) as [Hl' [Hmk _]];
      [lia|unfold C_MAX_SEQUENCES; lia|apply repeat_length|].
    destruct (scan st 0 0 (repeat UNMARKED 256)) as [[t0 ctrl1] st1] eqn:E.
    cbn [fst snd] in Hl', Hmk.
    destruct (Z.ltb_spec t0 0) as [Hn|Hn]; [discriminate|].
    apply more_inv in H.
    - destruct H as [ctrl' HI]. exact (inv_wfb _ _ _ _ HI).
    - unfold Inv. refine (conj Hl' (conj _ (conj _ (conj _ (conj _ (conj _ (conj _ (conj _ _)))))))).
      + unfold C_MAX_SEQUENCES. lia.
      + reflexivity.
      + reflexivity.
      + intros e [<-|[]]. split; [lia|exact Hmk].
      + constructor; [intros []|constructor].
      + reflexivity.
      + cbn [hd]. exact Hn.
      + intros d [].
  Qed.
End SeqScanProofs.

Print Assumptions scan_sequences_wf.
Print Assumptions scan_sequences_fuel.
