From Coq Require Import ZArith List Lia Bool.
Import ListNotations.
From LX Require Import Base.ListAux Generated.Consts Model.ModuleWf Model.Bounds.
Local Open Scope Z_scope.

Lemma zget_in {A} (l : list A) i x : zget l i = Some x -> In x l.
Proof. unfold zget. destruct (i <? 0); [discriminate|]. apply nth_error_In. Qed.

Lemma in_zrange n i : In i (zrange n) -> 0 <= i < n.
Proof.
  unfold zrange. intros H. apply in_map_iff in H as (k & <- & Hk). apply in_seq in Hk.
  lia.
Qed.

Ltac split_okb H :=
  repeat match type of H with (_ && _) = true => let H2 := fresh "K" in apply andb_prop in H; destruct H as [H H2] end.

Ltac b2p := repeat match goal with
  | K : (_ <=? _) = true |- _ => apply Z.leb_le in K
  | K : (_ <? _) = true |- _ => apply Z.ltb_lt in K
  | K : (_ =? _) = true |- _ => apply Z.eqb_eq in K
  end.
Ltac goalb := rewrite ?andb_true_iff, ?Z.leb_le, ?Z.ltb_lt; repeat split; try lia.

Lemma env_ok_access e : env_okb e = true -> env_access_okb e = true.
Proof.
  unfold env_okb, env_access_okb. intros H. apply andb_prop in H as [H Hs]. apply andb_prop in H as [Hn Hl].
  destruct (has (e_flg e) C_XMP_ENVELOPE_ON); [|reflexivity]. cbn [andb] in *.
  split_okb Hn. b2p. rewrite !andb_true_iff. split; [split|].
  - apply Z.leb_le. lia.
  - destruct (has (e_flg e) C_XMP_ENVELOPE_LOOP); [|reflexivity]. split_okb Hl. b2p. goalb.
  - destruct (has (e_flg e) C_XMP_ENVELOPE_SUS); [|reflexivity]. split_okb Hs. b2p. goalb.
Qed.

Lemma sample_ok_access s : sample_okb s = true -> sample_access_okb s = true.
Proof.
  unfold sample_okb, sample_access_okb. intros H. apply andb_prop in H as [_ H]. destruct (sm_data s); [|reflexivity].
  apply andb_prop in H as [H Hs]. apply andb_prop in H as [H _]. split_okb H. b2p. rewrite !andb_true_iff. split; [split; [apply Z.leb_le|apply Z.leb_le]; lia|].
  destruct (has (sm_flg s) C_XMP_SAMPLE_SLOOP); [|reflexivity]. split_okb Hs. b2p. goalb.
Qed.

Lemma wf_fetch m o : counts_okb m = true -> orders_okb m = true -> 0 <= o < d_len m -> fetch_okb m o = true.
Proof.
  intros Hc Ho Hi. unfold counts_okb in Hc. split_okb Hc.
  repeat match goal with K : (_ =? _) = true |- _ => apply Z.eqb_eq in K end.
  unfold fetch_okb.
  destruct (zget_some (d_xxo m) o) as [p Hp]; [lia|]. rewrite Hp.
  destruct (Z.ltb_spec p (d_pat m)) as [Hlt|]; [|reflexivity].
  unfold orders_okb in Ho. rewrite forallb_forall in Ho. specialize (Ho p (zget_in _ _ _ Hp)).
  apply Z.ltb_lt in Hlt. rewrite Hlt in Ho. unfold pattern_okb in Ho.
  destruct (zget (d_pats m) p) as [[pt|]|]; try discriminate.
  apply andb_prop in Ho as [Ho Ht]. apply andb_prop in Ho as [Hr Hl]. apply Z.eqb_eq in Hl.
  rewrite Hr. cbn [andb]. apply forallb_forall. intros c Hcin. apply in_zrange in Hcin.
  destruct (zget_some (p_index pt) c) as [t Ht']; [lia|]. rewrite Ht'.
  rewrite forallb_forall in Ht. exact (Ht t (zget_in _ _ _ Ht')).
Qed.

Lemma wf_consumers m : public_wfb m = true -> consumers_okb m = true.
Proof.
  intros H. unfold public_wfb in H.
  apply andb_prop in H as [H Hseq]. apply andb_prop in H as [H Htempo]. apply andb_prop in H as [H Hch]. apply andb_prop in H as [H Hsmp].
  apply andb_prop in H as [H Hins]. apply andb_prop in H as [H Hap]. apply andb_prop in H as [H Hord]. apply andb_prop in H as [H Hty]. apply andb_prop in H as [Hcnt Hnm].
  pose proof Hcnt as Hc. unfold counts_okb in Hc. split_okb Hc. b2p.
  unfold consumers_okb. rewrite !andb_true_iff. repeat split.
  - apply forallb_forall. intros o Ho. apply in_zrange in Ho. apply wf_fetch; assumption.
  - (* restart *)
    unfold tempo_okb in Htempo. apply andb_prop in Htempo as [_ Hr]. destruct (d_len m =? 0) eqn:E; [reflexivity|]. cbn [orb] in *.
    apply andb_prop in Hr as [A B]. b2p.
    destruct (zget_some (d_xxo m) (d_rst m)) as [x Hx]; [lia|]. rewrite Hx. reflexivity.
  - (* sequence entry points *)
    unfold seqs_okb in Hseq. apply andb_prop in Hseq as [Hs _]. apply andb_prop in Hs as [_ Hall].
    apply forallb_forall. intros s Hs. rewrite forallb_forall in Hall. specialize (Hall s Hs).
    destruct (d_len m =? 0) eqn:E; [reflexivity|]. cbn [orb]. apply andb_prop in Hall as [Hall _]. apply andb_prop in Hall as [A B].
    rewrite orb_false_r in B. b2p.
    destruct (zget_some (d_xxo m) (fst s)) as [x Hx]; [lia|]. rewrite Hx. reflexivity.
  - apply forallb_forall. intros i Hi. rewrite forallb_forall in Hins. specialize (Hins i Hi). unfold instr_okb in Hins.
    apply andb_prop in Hins as [Hins Hf]. apply andb_prop in Hins as [Hins Hp]. apply andb_prop in Hins as [_ Ha].
    rewrite !andb_true_iff. repeat split; apply env_ok_access; assumption.
  - apply forallb_forall. intros s Hs. rewrite forallb_forall in Hsmp. apply sample_ok_access. exact (Hsmp s Hs).
  - apply Z.leb_le. lia.
  - apply Z.leb_le. lia.
Qed.
