From Coq Require Import ZArith QArith List Lia Bool Setoid.
Import ListNotations.
From LX Require Import Base.ListAux Model.Linear.
Local Open Scope Z_scope.

Section Lin.
Variable m : lmod.

Lemma ticks_add a b bpm : (ticks m (a + b) bpm == ticks m a bpm + ticks m b bpm)%Q.
Proof. unfold ticks. rewrite inject_Z_plus. ring. Qed.
Lemma ticks_0 bpm : (ticks m 0 bpm == 0)%Q.
Proof. unfold ticks. change (inject_Z 0) with 0%Q. ring. Qed.

(* scan state and player state agree: same speed and tempo, and the scan's potential
   (time + pending frames at the current tempo) is the time the player has rendered *)
Definition Rel (s : sstate) (p : pstate) : Prop :=
  s_speed s = p_speed p /\ s_bpm s = p_bpm p /\ (potential m s == p_time p)%Q.

(* the heart of it: for every kind of row the lazy bookkeeping of the scan advances its potential by exactly
   what the player renders for that row *)
Lemma row_sim s p e : Rel s p -> Rel (scan_row m s e) (play_row m p e).
Proof.
  intros (Hs & Hb & Ht). unfold Rel, scan_row, play_row, potential in *.
  destruct e as [|v|v|d|o]; cbn [s_speed s_bpm s_fc s_rc s_time p_speed p_bpm p_time]; unfold qadd; rewrite ?Qred_correct.
  - (* no effect *) repeat split; auto. rewrite <- Ht, <- Hs, <- Hb.
    replace (s_fc s + (s_rc s + 1) * s_speed s) with ((s_fc s + s_rc s * s_speed s) + s_speed s * (1 + 0)) by ring.
    rewrite ticks_add. ring.
  - (* set speed: pending rows are flushed at the old speed, this row counts at the new one *)
    repeat split; auto. rewrite <- Ht, <- Hb.
    replace (s_fc s + s_rc s * s_speed s + (0 + 1) * v) with ((s_fc s + s_rc s * s_speed s) + v * (1 + 0)) by ring.
    rewrite ticks_add. ring.
  - (* set tempo: everything pending is converted to time at the old tempo first *)
    repeat split; auto. rewrite <- Ht, <- Hs.
    replace (0 + (0 + 1) * s_speed s) with (s_speed s * (1 + 0)) by ring. reflexivity.
  - (* pattern delay *)
    repeat split; auto. rewrite <- Ht, <- Hs, <- Hb.
    replace (s_fc s + d * s_speed s + (s_rc s + 1) * s_speed s) with ((s_fc s + s_rc s * s_speed s) + s_speed s * (1 + d)) by ring.
    rewrite ticks_add. ring.
  - (* position jump *) repeat split; auto. rewrite <- Ht, <- Hs, <- Hb.
    replace (s_fc s + (s_rc s + 1) * s_speed s) with ((s_fc s + s_rc s * s_speed s) + s_speed s * (1 + 0)) by ring.
    rewrite ticks_add. ring.
Qed.

Lemma rows_sim : forall rows s p, Rel s p ->
  snd (scan_rows m s rows) = snd (play_rows m p rows) /\ Rel (fst (scan_rows m s rows)) (fst (play_rows m p rows)).
Proof.
  induction rows as [|e t IH]; intros s p H; cbn [scan_rows play_rows]; [auto|].
  pose proof (row_sim s p e H) as H'. destruct e; try (apply IH; exact H'). cbn [fst snd]. auto.
Qed.

Lemma flush_rel s p : Rel s p -> Rel (flush s) p.
Proof.
  intros (Hs & Hb & Ht). unfold Rel, flush, potential in *. cbn [s_speed s_bpm s_fc s_rc s_time]. repeat split; auto.
  rewrite <- Ht. replace (s_fc s + s_rc s * s_speed s + 0 * s_speed s) with (s_fc s + s_rc s * s_speed s) by ring. reflexivity.
Qed.

(* wrap: inside the list the decision does not depend on the sequence information *)
Lemma wrap_in f g o : 0 <= o < len m -> wrap m f o = wrap m g o.
Proof. intros H. unfold wrap. destruct (Z.ltb_spec o 0); [lia|]. destruct (Z.leb_spec (len m) o); [lia|]. reflexivity. Qed.
Lemma wrap_out f o : ~ (0 <= o < len m) -> wrap m f o = 0 \/ (wrap m f o = lm_rst m /\ f (lm_rst m) = true).
Proof.
  intros H. unfold wrap. assert (((o <? 0) || (len m <=? o)) = true) as ->.
  { apply orb_true_iff. destruct (Z.ltb_spec o 0); [auto|]. right. apply Z.leb_le. lia. }
  destruct ((len m <? lm_rst m) || negb (f (lm_rst m))) eqn:E; [left; reflexivity|].
  right. split; [reflexivity|]. apply orb_false_elim in E as [_ E]. apply negb_false_iff in E. exact E.
Qed.

Definition mem (x : Z) (l : list Z) : bool := existsb (Z.eqb x) l.

Definition TR (a b : Z * Q) : Prop := fst a = fst b /\ (snd a == snd b)%Q.
Lemma Forall2_app_one {A B} (R : A -> B -> Prop) l1 l2 a b : Forall2 R l1 l2 -> R a b -> Forall2 R (l1 ++ [a]) (l2 ++ [b]).
Proof. induction 1; cbn; intros; constructor; auto. Qed.
Lemma Forall2_rev {A B} (R : A -> B -> Prop) l1 l2 : Forall2 R l1 l2 -> Forall2 R (rev l1) (rev l2).
Proof. induction 1; cbn; [constructor|]. apply Forall2_app_one; assumption. Qed.

(* the scan, from any reachable configuration, and the player run with the scan's results *)
Lemma orders_sim : forall fuel s o visited times r,
  scan_orders m fuel s o visited times = Some r ->
  mem 0 (o :: visited) = true ->
  forall p ptimes, Rel s p -> Forall2 TR times ptimes ->
  exists q, play_orders m (S fuel) p o (r_end_ord r) (mem (r_end_ord r) visited) (fun x => mem x (r_visited r)) ptimes visited = Some q /\
            (q_time_to_loop q == r_duration r)%Q /\ Forall2 TR (r_order_times r) (q_order_times q) /\ q_entered q = r_visited r.
Proof.
  induction fuel as [|f IH]; intros s o visited times r Hscan H0 p ptimes HR HT; [discriminate|].
  cbn [scan_orders] in Hscan. fold (mem o visited) in Hscan.
  destruct (mem o visited) eqn:Ev.
  - (* the scan stops: o was visited before; the player is entering it for the second time *)
    injection Hscan as <-. cbn [r_end_ord r_duration r_visited].
    cbn [play_orders]. rewrite Z.eqb_refl, Ev. cbn [andb].
    eexists. split; [reflexivity|]. cbn [q_time_to_loop q_order_times r_order_times q_entered]. destruct HR as (_ & _ & Ht).
    split; [symmetry; exact Ht|split; [apply Forall2_rev; exact HT|reflexivity]].
  - destruct (scan_rows m s (pat_of m o)) as [s1 j] eqn:Es.
    destruct (rows_sim (pat_of m o) s p HR) as [Hj HR1]. rewrite Es in Hj, HR1. cbn [fst snd] in Hj, HR1.
    destruct (play_rows m p (pat_of m o)) as [p1 j'] eqn:Ep. cbn [fst snd] in Hj, HR1. subst j'.
    set (raw := match j with Some t => t | None => o + 1 end) in *.
    set (vis' := o :: visited) in *.
    set (nxt := wrap m (fun r0 => existsb (Z.eqb r0) vis') raw) in *.
    assert (HR2 : Rel (flush s1) p1) by (apply flush_rel; exact HR1).
    (* where does the scan go next, and does the player agree? *)
    assert (Hstopped : mem nxt vis' = true -> r_visited r = vis').
    { intros Hstop. destruct f as [|f']; [discriminate|]. cbn [scan_orders] in Hscan. fold (mem nxt vis') in Hscan. rewrite Hstop in Hscan.
      injection Hscan as <-. reflexivity. }
    assert (Hw : wrap m (fun x => mem x (r_visited r)) raw = nxt).
    { destruct (Z_le_dec 0 raw) as [Hl|Hl]; [destruct (Z_lt_dec raw (len m)) as [Hu|Hu]|].
      - apply wrap_in. lia.
      - (* off the end: the scan restarts on an order it has already visited, so it stops there and the
           sequence information it used is the final one *)
        assert (Hout : ~ (0 <= raw < len m)) by lia.
        assert (Hstop : mem nxt vis' = true).
        { destruct (wrap_out (fun r0 => existsb (Z.eqb r0) vis') raw Hout) as [E|[E Hin]]; fold nxt in E; rewrite E; [exact H0|exact Hin]. }
        rewrite (Hstopped Hstop). reflexivity.
      - assert (Hout : ~ (0 <= raw < len m)) by lia.
        assert (Hstop : mem nxt vis' = true).
        { destruct (wrap_out (fun r0 => existsb (Z.eqb r0) vis') raw Hout) as [E|[E Hin]]; fold nxt in E; rewrite E; [exact H0|exact Hin]. }
        rewrite (Hstopped Hstop). reflexivity. }
    (* one step of the player *)
    assert (Hne : ((o =? r_end_ord r) && mem (r_end_ord r) visited) = false).
    { destruct (Z.eqb_spec o (r_end_ord r)) as [->|]; [|reflexivity]. rewrite Ev. reflexivity. }
    cbn [play_orders]. rewrite Hne. rewrite Ep. fold raw. rewrite Hw.
    assert (H0' : mem 0 (nxt :: vis') = true).
    { unfold mem in *. cbn [existsb] in *. apply orb_true_iff. right. exact H0. }
    assert (HT' : Forall2 TR ((o, potential m s) :: times) (if existsb (Z.eqb o) visited then ptimes else (o, p_time p) :: ptimes)).
    { fold (mem o visited). rewrite Ev. constructor; [|exact HT]. split; [reflexivity|]. destruct HR as (_ & _ & Ht0). exact Ht0. }
    destruct (IH (flush s1) nxt vis' ((o, potential m s) :: times) r Hscan H0' p1
                 (if existsb (Z.eqb o) visited then ptimes else (o, p_time p) :: ptimes) HR2 HT') as (q & Hq & Ht).
    exists q. split; [|exact Ht].
    replace (mem (r_end_ord r) visited || (o =? r_end_ord r)) with (mem (r_end_ord r) vis'); [exact Hq|].
    unfold vis', mem. cbn [existsb]. rewrite orb_comm. rewrite (Z.eqb_sym o). reflexivity.
Qed.

(* termination of the scan: it marks a new order at every iteration, so |orders| + 1 iterations suffice *)
Lemma mem_true_in x l : mem x l = true -> In x l.
Proof. unfold mem. intros H. apply existsb_exists in H as (y & Hy & E). apply Z.eqb_eq in E. subst. exact Hy. Qed.
Lemma mem_false_notin x l : mem x l = false -> ~ In x l.
Proof. unfold mem. intros H Hin. assert (existsb (Z.eqb x) l = true) by (apply existsb_exists; exists x; split; [exact Hin|apply Z.eqb_refl]). congruence. Qed.

Lemma wrap_range f o : 1 <= len m -> 0 <= lm_rst m < len m -> 0 <= wrap m f o < len m.
Proof.
  intros Hl Hr. unfold wrap. destruct ((o <? 0) || (len m <=? o)) eqn:E.
  - destruct ((len m <? lm_rst m) || negb (f (lm_rst m))); lia.
  - apply orb_false_elim in E as [A B]. apply Z.ltb_ge in A. apply Z.leb_gt in B. lia.
Qed.

Lemma scan_orders_terminates : 1 <= len m -> 0 <= lm_rst m < len m ->
  forall fuel s o visited times, NoDup visited -> (forall x, In x visited -> 0 <= x < len m) -> 0 <= o < len m ->
  (Z.to_nat (len m) - length visited < fuel)%nat -> scan_orders m fuel s o visited times <> None.
Proof.
  intros Hl Hr. induction fuel as [|f IH]; intros s o visited times Hnd Hrange Ho Hf; [lia|].
  cbn [scan_orders]. fold (mem o visited). destruct (mem o visited) eqn:Ev; [discriminate|].
  destruct (scan_rows m s (pat_of m o)) as [s1 j].
  apply IH.
  - constructor; [apply mem_false_notin; exact Ev|exact Hnd].
  - intros x [<-|Hx]; [exact Ho|apply Hrange; exact Hx].
  - apply wrap_range; assumption.
  - cbn [length].
    (* visited is a duplicate-free list of orders below len, and o is a new one: |visited| < len *)
    assert (Hlen : (length (o :: visited) <= Z.to_nat (len m))%nat).
    { assert (Hincl : incl (o :: visited) (map Z.of_nat (seq 0 (Z.to_nat (len m))))).
      { intros x Hx. assert (0 <= x < len m) by (destruct Hx as [<-|Hx]; [exact Ho|apply Hrange; exact Hx]).
        apply in_map_iff. exists (Z.to_nat x). split; [lia|]. apply in_seq. lia. }
      assert (Hnd' : NoDup (o :: visited)) by (constructor; [apply mem_false_notin; exact Ev|exact Hnd]).
      pose proof (NoDup_incl_length Hnd' Hincl) as L. rewrite map_length, seq_length in L. exact L. }
    cbn [length] in Hlen. lia.
Qed.

(* the scan stops exactly at the first order it meets a second time: the orders it visited are pairwise distinct
   and the order it stopped at is one of them *)
Lemma scan_orders_stop : forall fuel s o visited times r,
  scan_orders m fuel s o visited times = Some r -> NoDup visited ->
  NoDup (r_visited r) /\ In (r_end_ord r) (r_visited r).
Proof.
  induction fuel as [|f IH]; intros s o visited times r H Hnd; [discriminate|].
  cbn [scan_orders] in H. fold (mem o visited) in H. destruct (mem o visited) eqn:Ev.
  - injection H as <-. cbn [r_visited r_end_ord]. split; [exact Hnd|apply mem_true_in; exact Ev].
  - destruct (scan_rows m s (pat_of m o)) as [s1 j]. eapply IH; [exact H|].
    constructor; [apply mem_false_notin; exact Ev|exact Hnd].
Qed.
End Lin.
