(* C08: the fuel the DEFLATE model (Model/Inflate.v) hands to its loops is enough for EVERY input - corrupt, truncated, random:
   giving the loops more fuel never changes a result.  So `codes` makes at most (bits left) iterations, `read_lengths` at most
   (lengths still to read) + 1, `blocks` at most (bits left), and `inflate` is the same function with any fuel above 8 * bytes.
   Nothing here assumes anything about the Huffman tables: decode_sym cannot return a symbol without having consumed a bit. *)
From Coq Require Import ZArith List Lia Bool.
Import ListNotations.
From LX Require Import Base.ListAux Model.Lzw Model.Crc Model.Inflate.
Local Open Scope Z_scope.

Ltac Zify.zify_post_hook ::= Z.div_mod_to_equations.

(* ---------------------------------------------------------------- bit reading ------------------------------------------- *)
Lemma z_of_bits_nonneg : forall l, 0 <= z_of_bits l.
Proof. induction l as [|x t IH]; cbn [z_of_bits]; [lia|]. destruct x; lia. Qed.

Lemma getbits_length : forall n b v b', getbits n b = Some (v, b') -> length b = (length b' + n)%nat.
Proof.
  intros n b v b' H. unfold getbits in H.
  destruct (Nat.ltb_spec (length (firstn n b)) n) as [Hlt|Hge]; [discriminate|].
  inversion H; subst. rewrite firstn_length in Hge. rewrite skipn_length. lia.
Qed.

Lemma getbits_nonneg : forall n b v b', getbits n b = Some (v, b') -> 0 <= v.
Proof.
  intros n b v b' H. unfold getbits in H.
  destruct (length (firstn n b) <? n)%nat; [discriminate|].
  inversion H; subst. apply z_of_bits_nonneg.
Qed.

Lemma read_n_length : forall n w b xs b', read_n n w b = Some (xs, b') -> (length b' <= length b)%nat.
Proof.
  induction n as [|k IH]; intros w b xs b' H; cbn [read_n] in H.
  - inversion H; subst. lia.
  - destruct (getbits w b) as [[x b1]|] eqn:G; [|discriminate].
    destruct (read_n k w b1) as [[ys b2]|] eqn:R; [|discriminate].
    inversion H; subst. apply IH in R. apply getbits_length in G. lia.
Qed.

(* ---------------------------------------------------------------- one symbol -------------------------------------------- *)
(* a symbol is never returned before a bit has been read, whatever the table *)
Lemma decode_sym_length : forall counts syms code first index b s b',
  decode_sym counts syms code first index b = Some (s, b') -> (length b' < length b)%nat.
Proof.
  induction counts as [|cnt rest IH]; intros syms code first index b s b' H; cbn [decode_sym] in H; [discriminate|].
  destruct b as [|bit bt]; [discriminate|].
  cbv zeta in H.
  destruct (code + (if bit then 1 else 0) - cnt <? first).
  - inversion H; subst. cbn [length]. lia.
  - apply IH in H. cbn [length]. lia.
Qed.

Lemma decode_length : forall h b s b', decode h b = Some (s, b') -> (length b' < length b)%nat.
Proof. intros h b s b' H. unfold decode in H. eapply decode_sym_length; eassumption. Qed.

(* ---------------------------------------------------------------- lz_copy (its fuel is the copy length) ------------------ *)
Lemma lz_copy_fuel : forall f1 f2 len d out, (1 <= d)%nat -> (len <= f1)%nat -> (len <= f2)%nat ->
  lz_copy f1 len d out = lz_copy f2 len d out.
Proof.
  induction f1 as [|f1 IH]; intros f2 len d out Hd H1 H2.
  - assert (len = 0)%nat by lia. subst len. destruct f2; cbn [lz_copy]; [reflexivity|].
    cbn [Nat.leb firstn app]. reflexivity.
  - destruct f2 as [|f2].
    + assert (len = 0)%nat by lia. subst len. cbn [lz_copy Nat.leb firstn app]. reflexivity.
    + cbn [lz_copy]. destruct (Nat.leb_spec len d) as [Hle|Hgt]; [reflexivity|].
      apply IH; lia.
Qed.

(* ---------------------------------------------------------------- codes -------------------------------------------------- *)
Lemma codes_S : forall f lh dh b out, codes (S f) lh dh b out =
  match decode lh b with
  | None => None
  | Some (sym, b1) =>
    if sym <? 256 then codes f lh dh b1 (sym :: out)
    else if sym =? 256 then Some (b1, out)
    else if 285 <? sym then None
    else
      let k := Z.to_nat (sym - 257) in
      match getbits (Z.to_nat (nth k len_extra 0)) b1 with
      | None => None
      | Some (e1, b2) =>
        let len := nth k len_base 0 + e1 in
        match decode dh b2 with
        | None => None
        | Some (ds, b3) =>
          if 29 <? ds then None else
          let j := Z.to_nat ds in
          match getbits (Z.to_nat (nth j dist_extra 0)) b3 with
          | None => None
          | Some (e2, b4) =>
            let dist := nth j dist_base 0 + e2 in
            if Z.of_nat (length (firstn (Z.to_nat dist) out)) <? dist then None
            else codes f lh dh b4 (lz_copy (Z.to_nat len) (Z.to_nat len) (Z.to_nat dist) out)
          end
        end
      end
  end.
Proof. reflexivity. Qed.

(* 1. every iteration of codes consumes at least one bit *)
Theorem codes_fuel : forall lh dh f1 f2 b out, (length b < f1)%nat -> (length b < f2)%nat ->
  codes f1 lh dh b out = codes f2 lh dh b out.
Proof.
  intros lh dh. induction f1 as [|f1 IH]; intros f2 b out H1 H2; [lia|].
  destruct f2 as [|f2]; [lia|].
  rewrite !codes_S.
  destruct (decode lh b) as [[sym b1]|] eqn:D; [|reflexivity].
  apply decode_length in D.
  destruct (sym <? 256); [apply IH; lia|].
  destruct (sym =? 256); [reflexivity|].
  destruct (285 <? sym); [reflexivity|].
  cbv zeta.
  destruct (getbits (Z.to_nat (nth (Z.to_nat (sym - 257)) len_extra 0)) b1) as [[e1 b2]|] eqn:G1; [|reflexivity].
  apply getbits_length in G1.
  destruct (decode dh b2) as [[ds b3]|] eqn:D2; [|reflexivity].
  apply decode_length in D2.
  destruct (29 <? ds); [reflexivity|].
  destruct (getbits (Z.to_nat (nth (Z.to_nat ds) dist_extra 0)) b3) as [[e2 b4]|] eqn:G2; [|reflexivity].
  apply getbits_length in G2.
  destruct (Z.of_nat (length (firstn (Z.to_nat (nth (Z.to_nat ds) dist_base 0 + e2)) out)) <? nth (Z.to_nat ds) dist_base 0 + e2); [reflexivity|].
  apply IH; lia.
Qed.

Corollary codes_fuel_enough : forall lh dh b out fuel, (length b + 1 <= fuel)%nat ->
  codes fuel lh dh b out = codes (length b + 1) lh dh b out.
Proof. intros. apply codes_fuel; lia. Qed.

(* a successful codes() has consumed at least one bit *)
Lemma codes_length : forall lh dh f b out b' out', codes f lh dh b out = Some (b', out') -> (length b' < length b)%nat.
Proof.
  intros lh dh. induction f as [|f IH]; intros b out b' out' H; [discriminate|].
  rewrite codes_S in H.
  destruct (decode lh b) as [[sym b1]|] eqn:D; [|discriminate].
  apply decode_length in D.
  destruct (sym <? 256); [apply IH in H; lia|].
  destruct (sym =? 256); [inversion H; subst; lia|].
  destruct (285 <? sym); [discriminate|].
  cbv zeta in H.
  destruct (getbits (Z.to_nat (nth (Z.to_nat (sym - 257)) len_extra 0)) b1) as [[e1 b2]|] eqn:G1; [|discriminate].
  apply getbits_length in G1.
  destruct (decode dh b2) as [[ds b3]|] eqn:D2; [|discriminate].
  apply decode_length in D2.
  destruct (29 <? ds); [discriminate|].
  destruct (getbits (Z.to_nat (nth (Z.to_nat ds) dist_extra 0)) b3) as [[e2 b4]|] eqn:G2; [|discriminate].
  apply getbits_length in G2.
  destruct (Z.of_nat (length (firstn (Z.to_nat (nth (Z.to_nat ds) dist_base 0 + e2)) out)) <? nth (Z.to_nat ds) dist_base 0 + e2); [discriminate|].
  apply IH in H. lia.
Qed.

(* ---------------------------------------------------------------- read_lengths ------------------------------------------- *)
Lemma read_lengths_S : forall f clh total acc b, read_lengths (S f) clh total acc b =
  if (total <=? length acc)%nat then Some (acc, b) else
  match decode clh b with
  | None => None
  | Some (sym, b1) =>
    if sym <? 16 then read_lengths f clh total (acc ++ [sym]) b1
    else
      let '(w, base, val) := if sym =? 16 then (2%nat, 3, last acc (-1)) else if sym =? 17 then (3%nat, 3, 0) else (7%nat, 11, 0) in
      if val <? 0 then None
      else match getbits w b1 with
           | None => None
           | Some (r, b2) =>
             let n := Z.to_nat (base + r) in
             if (total <? length acc + n)%nat then None
             else read_lengths f clh total (acc ++ repeat val n) b2
           end
  end.
Proof. reflexivity. Qed.

(* 2. every iteration of read_lengths appends at least one length (a repeat appends base + r >= 3) or stops *)
Theorem read_lengths_fuel : forall clh total f1 f2 acc b,
  (total - length acc < f1)%nat -> (total - length acc < f2)%nat ->
  read_lengths f1 clh total acc b = read_lengths f2 clh total acc b.
Proof.
  intros clh total. induction f1 as [|f1 IH]; intros f2 acc b H1 H2; [lia|].
  destruct f2 as [|f2]; [lia|].
  rewrite !read_lengths_S.
  destruct (Nat.leb_spec total (length acc)) as [Hdone|Hmore]; [reflexivity|].
  destruct (decode clh b) as [[sym b1]|] eqn:D; [|reflexivity].
  destruct (sym <? 16).
  - apply IH; rewrite app_length; cbn [length]; lia.
  - destruct (if sym =? 16 then (2%nat, 3, last acc (-1)) else if sym =? 17 then (3%nat, 3, 0) else (7%nat, 11, 0))
      as [[w base] val] eqn:T.
    assert (Hbase : 3 <= base).
    { destruct (sym =? 16); [inversion T; lia|]. destruct (sym =? 17); inversion T; lia. }
    destruct (val <? 0); [reflexivity|].
    destruct (getbits w b1) as [[r b2]|] eqn:G; [|reflexivity].
    apply getbits_nonneg in G.
    cbv zeta.
    destruct (Nat.ltb_spec total (length acc + Z.to_nat (base + r))) as [Hover|Hfit]; [reflexivity|].
    apply IH; rewrite app_length, repeat_length; lia.
Qed.

Corollary read_lengths_fuel_enough : forall clh total acc b fuel, (total - length acc + 1 <= fuel)%nat ->
  read_lengths fuel clh total acc b = read_lengths (total - length acc + 1) clh total acc b.
Proof. intros. apply read_lengths_fuel; lia. Qed.

(* the call dynamic_tables makes: fuel total + 1, nothing read yet *)
Corollary read_lengths_fuel_dynamic : forall clh total b fuel, (total + 1 <= fuel)%nat ->
  read_lengths fuel clh total [] b = read_lengths (total + 1) clh total [] b.
Proof. intros. apply read_lengths_fuel; cbn [length]; lia. Qed.

Lemma read_lengths_length : forall clh total f acc b lens b',
  read_lengths f clh total acc b = Some (lens, b') -> (length b' <= length b)%nat.
Proof.
  intros clh total. induction f as [|f IH]; intros acc b lens b' H; [discriminate|].
  rewrite read_lengths_S in H.
  destruct (total <=? length acc)%nat; [inversion H; subst; lia|].
  destruct (decode clh b) as [[sym b1]|] eqn:D; [|discriminate].
  apply decode_length in D.
  destruct (sym <? 16).
  - apply IH in H. lia.
  - destruct (if sym =? 16 then (2%nat, 3, last acc (-1)) else if sym =? 17 then (3%nat, 3, 0) else (7%nat, 11, 0))
      as [[w base] val].
    destruct (val <? 0); [discriminate|].
    destruct (getbits w b1) as [[r b2]|] eqn:G; [|discriminate].
    apply getbits_length in G.
    cbv zeta in H.
    destruct (total <? length acc + Z.to_nat (base + r))%nat; [discriminate|].
    apply IH in H. lia.
Qed.

Lemma dynamic_tables_length : forall b lh dh b', dynamic_tables b = Some (lh, dh, b') -> (length b' <= length b)%nat.
Proof.
  intros b lh dh b' H. unfold dynamic_tables in H.
  destruct (getbits 5 b) as [[nl b1]|] eqn:G1; [|discriminate]. apply getbits_length in G1.
  destruct (getbits 5 b1) as [[nd b2]|] eqn:G2; [|discriminate]. apply getbits_length in G2.
  destruct (getbits 4 b2) as [[nc b3]|] eqn:G3; [|discriminate]. apply getbits_length in G3.
  cbv zeta in H.
  destruct ((286 <? nl + 257) || (30 <? nd + 1)); [discriminate|].
  destruct (read_n (Z.to_nat (nc + 4)) 3 b3) as [[cls b4]|] eqn:R; [|discriminate]. apply read_n_length in R.
  destruct (negb (huff_okb (mk_huff (set_order cl_order cls (repeat 0 19))))); [discriminate|].
  destruct (read_lengths (Z.to_nat (nl + 257 + (nd + 1)) + 1) (mk_huff (set_order cl_order cls (repeat 0 19)))
              (Z.to_nat (nl + 257 + (nd + 1))) [] b4) as [[lens b5]|] eqn:RL; [|discriminate].
  apply read_lengths_length in RL.
  destruct (negb (huff_okb (mk_huff (firstn (Z.to_nat (nl + 257)) lens))) || negb (huff_okb (mk_huff (skipn (Z.to_nat (nl + 257)) lens))));
    [discriminate|].
  inversion H; subst. lia.
Qed.

(* ---------------------------------------------------------------- blocks ------------------------------------------------- *)
(* the body of one block, after the three header bits (the `res` of Inflate.blocks, verbatim) *)
Definition block_res (all : nat) (typ : Z) (b2 : bits) (out : list Z) : option (bits * list Z) :=
  if typ =? 0 then
    let pos := (all - length b2)%nat in
    let b3 := skipn ((8 - pos mod 8) mod 8) b2 in
    match getbits 16 b3 with None => None | Some (len, b4) =>
    match getbits 16 b4 with None => None | Some (nlen, b5) =>
      if negb (len + nlen =? 65535) then None else
      match read_n (Z.to_nat len) 8 b5 with None => None | Some (bytes, b6) => Some (b6, rev_append bytes out) end
    end end
  else if typ =? 1 then codes (length b2 + 1) (mk_huff fixed_lit_lens) (mk_huff fixed_dist_lens) b2 out
  else if typ =? 2 then
    match dynamic_tables b2 with None => None | Some (lh, dh, b3) => codes (length b3 + 1) lh dh b3 out end
  else None.

Lemma blocks_S' : forall f all b out, blocks (S f) all b out =
  match getbits 1 b with None => None | Some (final, b1) =>
  match getbits 2 b1 with None => None | Some (typ, b2) =>
    match block_res all typ b2 out with
    | None => None
    | Some (b', out') => if final =? 1 then Some (b', out') else blocks f all b' out'
    end
  end end.
Proof. reflexivity. Qed.

Lemma block_res_length : forall all typ b2 out b' out', block_res all typ b2 out = Some (b', out') -> (length b' <= length b2)%nat.
Proof.
  intros all typ b2 out b' out' H. unfold block_res in H.
  destruct (typ =? 0).
  - cbv zeta in H.
    remember (skipn ((8 - (all - length b2) mod 8) mod 8) b2) as b3 eqn:E3.
    assert (L3 : (length b3 <= length b2)%nat) by (subst b3; rewrite skipn_length; lia).
    destruct (getbits 16 b3) as [[len b4]|] eqn:G1; [|discriminate]. apply getbits_length in G1.
    destruct (getbits 16 b4) as [[nlen b5]|] eqn:G2; [|discriminate]. apply getbits_length in G2.
    destruct (negb (len + nlen =? 65535)); [discriminate|].
    destruct (read_n (Z.to_nat len) 8 b5) as [[bytes b6]|] eqn:R; [|discriminate]. apply read_n_length in R.
    inversion H; subst b' out'. lia.
  - destruct (typ =? 1).
    + apply codes_length in H. lia.
    + destruct (typ =? 2); [|discriminate].
      destruct (dynamic_tables b2) as [[[lh dh] b3]|] eqn:DT; [|discriminate].
      apply dynamic_tables_length in DT. apply codes_length in H. lia.
Qed.

(* 3. every block consumes at least its three header bits *)
Theorem blocks_fuel : forall all f1 f2 b out, (length b < f1)%nat -> (length b < f2)%nat ->
  blocks f1 all b out = blocks f2 all b out.
Proof.
  intros all. induction f1 as [|f1 IH]; intros f2 b out H1 H2; [lia|].
  destruct f2 as [|f2]; [lia|].
  rewrite !blocks_S'.
  destruct (getbits 1 b) as [[final b1]|] eqn:G1; [|reflexivity]. apply getbits_length in G1.
  destruct (getbits 2 b1) as [[typ b2]|] eqn:G2; [|reflexivity]. apply getbits_length in G2.
  destruct (block_res all typ b2 out) as [[b' out']|] eqn:R; [|reflexivity]. apply block_res_length in R.
  destruct (final =? 1); [reflexivity|].
  apply IH; lia.
Qed.

Corollary blocks_fuel_enough : forall all b out fuel, (length b + 1 <= fuel)%nat ->
  blocks fuel all b out = blocks (length b + 1) all b out.
Proof. intros. apply blocks_fuel; lia. Qed.

(* ---------------------------------------------------------------- top level ---------------------------------------------- *)
(* inflate with an arbitrary amount of fuel for the block loop in place of `length b + 1` *)
Definition inflate_f (fuel : nat) (data : list Z) : option (list Z) :=
  let b := bits_of_bytes data in
  match blocks fuel (length b) b [] with
  | None => None
  | Some (_, out) => Some (rev_append out [])
  end.

Lemma bits_of_z_length' : forall n x, length (bits_of_z n x) = n.
Proof. induction n as [|k IH]; intros x; cbn [bits_of_z length]; [reflexivity|]. rewrite IH. reflexivity. Qed.

Lemma bits_of_bytes_length : forall data, length (bits_of_bytes data) = (8 * length data)%nat.
Proof.
  unfold bits_of_bytes. induction data as [|x t IH]; [reflexivity|].
  cbn [map concat]. rewrite app_length, IH, bits_of_z_length'. cbn [length]. lia.
Qed.

Lemma inflate_f_model : forall data, inflate data = inflate_f (length (bits_of_bytes data) + 1) data.
Proof. reflexivity. Qed.

(* 4. the fuel inflate passes (8 * bytes + 1) is enough: any larger amount gives the same result, on every input *)
Theorem inflate_fuel : forall data fuel, (8 * length data < fuel)%nat -> inflate_f fuel data = inflate data.
Proof.
  intros data fuel H. rewrite inflate_f_model. unfold inflate_f. cbv zeta.
  rewrite (blocks_fuel (length (bits_of_bytes data)) fuel (length (bits_of_bytes data) + 1) (bits_of_bytes data) []);
    [reflexivity| |]; rewrite bits_of_bytes_length; lia.
Qed.

Corollary inflate_fuel_bound : forall data fuel, (8 * length data + 1 <= fuel)%nat ->
  inflate_f fuel data = inflate_f (8 * length data + 1) data.
Proof. intros data fuel H. rewrite !inflate_fuel by lia. reflexivity. Qed.

Print Assumptions codes_fuel.
Print Assumptions read_lengths_fuel.
Print Assumptions blocks_fuel.
Print Assumptions inflate_fuel.
Print Assumptions inflate_fuel_bound.
Print Assumptions lz_copy_fuel.
