(* C20 meets C14 / C01: the block libxmp_load_sample builds (4 guard bytes, the data, 4 guard frames: Model/SampleLoad.v) is large
   enough for every read of every mixing kernel (Model/MixKernel.v) whose fetch positions lie between frame 0 and one frame past
   the end - the reach of the cubic spline (one frame back, two ahead) included.  Stated for 8-bit mono samples, where an
   element of the kernel's sample memory is a byte of the block. *)
From Coq Require Import ZArith List Lia Bool.
Import ListNotations.
From LX Require Import Base.ListAux Generated.Consts Generated.MixTables Model.SampleLoad Proofs.SampleLoadProofs Model.MixKernel Proofs.MixKernelProofs.
Local Open Scope Z_scope.

Lemma reach_mono c : k_sin c = false -> -1 <= reach_lo c /\ reach_hi c <= 2.
Proof. intros H. unfold reach_lo, reach_hi, chn_of. rewrite H. destruct (k_interp c); lia. Qed.

Theorem block_covers_kernel_window : forall blk len c a count ramp st buf,
  zlen blk = 4 + (len + 4) * 1 -> 0 <= len ->
  k_sin c = false -> 0 <= s_frac st < 65536 ->
  (forall k, 0 <= k < count -> 0 <= pos_at c a st k <= len + 1) ->
  (Z.to_nat (Z.max 0 count) * (if k_sout c then 2 else 1) <= length buf)%nat ->
  kernel c {| m_data := blk; m_base := 4 |} a count ramp st buf <> None.
Proof.
  intros blk len c a count ramp st buf HL Hlen Hs Hf Hp Hb.
  destruct (reach_mono c Hs) as [R1 R2].
  apply (kernel_reads_in_window c {| m_data := blk; m_base := 4 |} a count ramp st buf (-4) (len + 3)); try assumption.
  - intros i Hi. unfold rd. cbn [m_data m_base].
    destruct (zget_some blk (i + 4)) as [x Hx]; [lia|]. rewrite Hx. discriminate.
  - intros k Hk. specialize (Hp k Hk). lia.
Qed.

(* the same, from the loader's own post-condition *)
Theorem loaded_8bit_mono_sample_covers_every_kernel : forall skip flags s file pos nbuf s' blk pos' c a count ramp st buf,
  load_sample skip flags s file pos nbuf = Loaded s' blk pos' ->
  framelen_of (s_flg s) = 1 ->
  k_sin c = false -> 0 <= s_frac st < 65536 ->
  (forall k, 0 <= k < count -> 0 <= pos_at c a st k <= s_len s' + 1) ->
  (Z.to_nat (Z.max 0 count) * (if k_sout c then 2 else 1) <= length buf)%nat ->
  kernel c {| m_data := blk; m_base := 4 |} a count ramp st buf <> None.
Proof.
  intros skip flags s file pos nbuf s' blk pos' c a count ramp st buf HL HF Hs Hf Hp Hb.
  pose proof (load_sample_loaded skip flags s file pos nbuf s' blk pos' HL) as LF.
  destruct LF as [_ _ [L0 _] _ _ _ _ [pre [body [g [EB [LP [LB [LG _]]]]]]]].
  rewrite HF in LB, LG.
  assert (A1 : zlen blk = 4 + (s_len s' + 4) * 1).
  { rewrite EB. unfold zlen in *. rewrite !app_length. lia. }
  eapply block_covers_kernel_window; eauto.
Qed.
Print Assumptions block_covers_kernel_window.
Print Assumptions loaded_8bit_mono_sample_covers_every_kernel.

(* ---------------------------------------------------------------- every sample layout --------------------------------------------------------
   The same for all four layouts.  The kernel's sample memory is the block seen as elements - bytes for 8-bit samples, 16-bit
   words for 16-bit samples - with the origin after the 4 guard bytes (4 elements, or 2 words); a frame is chn elements. *)
Lemma reach_bounds c : - chn_of c <= reach_lo c /\ reach_hi c <= 3 * chn_of c - 1 /\ 1 <= chn_of c <= 2.
Proof. unfold reach_lo, reach_hi, chn_of. destruct (k_sin c), (k_interp c); lia. Qed.

Theorem elements_cover_kernel_window : forall E base len c a count ramp st buf,
  zlen E = base + (len + 4) * chn_of c -> chn_of c <= base -> 0 <= len ->
  0 <= s_frac st < 65536 ->
  (forall k, 0 <= k < count -> 0 <= pos_at c a st k <= (len + 1) * chn_of c) ->
  (Z.to_nat (Z.max 0 count) * (if k_sout c then 2 else 1) <= length buf)%nat ->
  kernel c {| m_data := E; m_base := base |} a count ramp st buf <> None.
Proof.
  intros E base len c a count ramp st buf HL HB Hlen Hf Hp Hb.
  destruct (reach_bounds c) as [R1 [R2 R3]].
  apply (kernel_reads_in_window c {| m_data := E; m_base := base |} a count ramp st buf (- base) ((len + 4) * chn_of c - 1)); try assumption.
  - intros i Hi. unfold rd. cbn [m_data m_base].
    destruct (zget_some E (i + base)) as [x Hx]; [lia|]. rewrite Hx. discriminate.
  - intros k Hk. specialize (Hp k Hk). nia.
Qed.

Lemma words_of_zlen : forall n l, length l = (2 * n)%nat -> length (words_of l) = n.
Proof.
  induction n as [|n IH]; intros l H.
  - destruct l; [reflexivity|discriminate].
  - destruct l as [|x [|y t]]; try (cbn in H; lia). cbn [words_of length]. f_equal. apply IH. cbn in H. lia.
Qed.

(* from the loader's post-condition: 8-bit samples, mono or stereo (elements are the bytes of the block) *)
Theorem loaded_8bit_sample_covers_every_kernel : forall skip flags s file pos nbuf s' blk pos' c a count ramp st buf,
  load_sample skip flags s file pos nbuf = Loaded s' blk pos' ->
  framelen_of (s_flg s) = chn_of c ->                      (* 8-bit: a frame is chn bytes *)
  0 <= s_frac st < 65536 ->
  (forall k, 0 <= k < count -> 0 <= pos_at c a st k <= (s_len s' + 1) * chn_of c) ->
  (Z.to_nat (Z.max 0 count) * (if k_sout c then 2 else 1) <= length buf)%nat ->
  kernel c {| m_data := blk; m_base := 4 |} a count ramp st buf <> None.
Proof.
  intros skip flags s file pos nbuf s' blk pos' c a count ramp st buf HL HF Hf Hp Hb.
  pose proof (load_sample_loaded skip flags s file pos nbuf s' blk pos' HL) as LF.
  destruct LF as [_ _ [L0 _] _ _ _ _ [pre [body [g [EB [LP [LB [LG _]]]]]]]].
  rewrite HF in LB, LG. destruct (reach_bounds c) as [_ [_ R3]].
  eapply elements_cover_kernel_window; eauto; try lia.
  rewrite EB. unfold zlen in *. rewrite !app_length. lia.
Qed.

(* 16-bit samples, mono or stereo (elements are the 16-bit words of the block, the 4 guard bytes are 2 words) *)
Theorem loaded_16bit_sample_covers_every_kernel : forall skip flags s file pos nbuf s' blk pos' c a count ramp st buf,
  load_sample skip flags s file pos nbuf = Loaded s' blk pos' ->
  framelen_of (s_flg s) = 2 * chn_of c ->                  (* 16-bit: a frame is chn words *)
  0 <= s_frac st < 65536 ->
  (forall k, 0 <= k < count -> 0 <= pos_at c a st k <= (s_len s' + 1) * chn_of c) ->
  (Z.to_nat (Z.max 0 count) * (if k_sout c then 2 else 1) <= length buf)%nat ->
  kernel c {| m_data := words_of blk; m_base := 2 |} a count ramp st buf <> None.
Proof.
  intros skip flags s file pos nbuf s' blk pos' c a count ramp st buf HL HF Hf Hp Hb.
  pose proof (load_sample_loaded skip flags s file pos nbuf s' blk pos' HL) as LF.
  destruct LF as [_ _ [L0 _] _ _ _ _ [pre [body [g [EB [LP [LB [LG _]]]]]]]].
  rewrite HF in LB, LG. destruct (reach_bounds c) as [_ [_ R3]].
  eapply elements_cover_kernel_window; eauto; try lia.
  unfold zlen in *.
  rewrite (words_of_zlen (Z.to_nat (2 + (s_len s' + 4) * chn_of c)) blk); [lia|].
  rewrite EB, !app_length. lia.
Qed.
Print Assumptions elements_cover_kernel_window.
Print Assumptions loaded_8bit_sample_covers_every_kernel.
Print Assumptions loaded_16bit_sample_covers_every_kernel.

(* ---------------------------------------------------------------- the mixer's segment rule ------------------------------------------------------
   mixer.c mixes a voice in segments: from position P + F/65536 it asks a kernel for at most
   ceil((end - pos) / step) output frames, i.e. for a count with F + (count - 1) * step < (E - P) * 65536, where E <= len is the
   voice's end (loop end or sample end).  Under exactly that rule every fetch position of the call - with the half-frame rounding
   of the nearest kernels - lies between frame 0 and one frame past the end, so the call reads inside the loaded block. *)
Lemma pos_at_forward : forall c a st P E count,
  0 <= s_frac st < 65536 -> s_pos st = P * chn_of c -> 0 <= P -> 0 < a_step a ->
  s_frac st + (count - 1) * a_step a < (E - P) * 65536 ->
  forall k, 0 <= k < count -> 0 <= pos_at c a st k <= E * chn_of c.
Proof.
  intros c a st P E count Hf Hp HP HS Hrule k Hk.
  assert (M1 : k * a_step a <= (count - 1) * a_step a) by (apply Z.mul_le_mono_nonneg_r; lia).
  assert (M0 : 0 <= k * a_step a) by (apply Z.mul_nonneg_nonneg; lia).
  unfold pos_at, start_state.
  set (d := k * a_step a) in *. clearbody d.
  assert (Hk2 : s_frac st + d < (E - P) * 65536) by lia.
  assert (C12 : chn_of c = 1 \/ chn_of c = 2) by (unfold chn_of; destruct (k_sin c); lia).
  destruct (k_interp c) eqn:EI.
  - (* nearest: frac + 32768 first *)
    pose proof (advance_spec (chn_of c) (2 ^ (C_SMIX_SHIFT - 1)) st Hf) as [A1 A2].
    change (2 ^ (C_SMIX_SHIFT - 1)) with 32768 in *. change (2 ^ C_SMIX_SHIFT) with 65536.
    rewrite A1, A2, Hp.
    set (f := s_frac st) in *.
    pose proof (div_chain (f + 32768) d) as DC.
    assert (Q : 0 <= (f + 32768 + d) / 65536 < E - P + 1).
    { split; [apply Z.div_pos; lia|]. apply Z.div_lt_upper_bound; lia. }
    set (q1 := (f + 32768) / 65536) in *. set (q2 := ((f + 32768) mod 65536 + d) / 65536) in *. set (q := (f + 32768 + d) / 65536) in *.
    clearbody q1 q2 q. destruct C12 as [C|C]; rewrite C; lia.
  - change (2 ^ C_SMIX_SHIFT) with 65536. rewrite Hp.
    assert (Q : 0 <= (s_frac st + d) / 65536 < E - P).
    { split; [apply Z.div_pos; lia|]. apply Z.div_lt_upper_bound; lia. }
    set (q := (s_frac st + d) / 65536) in *. clearbody q. destruct C12 as [C|C]; rewrite C; lia.
  - change (2 ^ C_SMIX_SHIFT) with 65536. rewrite Hp.
    assert (Q : 0 <= (s_frac st + d) / 65536 < E - P).
    { split; [apply Z.div_pos; lia|]. apply Z.div_lt_upper_bound; lia. }
    set (q := (s_frac st + d) / 65536) in *. clearbody q. destruct C12 as [C|C]; rewrite C; lia.
Qed.

Theorem forward_segment_reads_inside_block_8bit : forall skip flags s file pos nbuf s' blk pos' c a count ramp st buf P E,
  load_sample skip flags s file pos nbuf = Loaded s' blk pos' ->
  framelen_of (s_flg s) = chn_of c ->
  0 <= s_frac st < 65536 -> s_pos st = P * chn_of c -> 0 <= P -> E <= s_len s' -> 0 < a_step a ->
  s_frac st + (count - 1) * a_step a < (E - P) * 65536 ->
  (Z.to_nat (Z.max 0 count) * (if k_sout c then 2 else 1) <= length buf)%nat ->
  kernel c {| m_data := blk; m_base := 4 |} a count ramp st buf <> None.
Proof.
  intros skip flags s file pos nbuf s' blk pos' c a count ramp st buf P E HL HF Hf Hp HP HE HS Hrule Hb.
  eapply loaded_8bit_sample_covers_every_kernel; eauto.
  intros k Hk. pose proof (pos_at_forward c a st P E count Hf Hp HP HS Hrule k Hk) as [A B].
  assert (C12 : chn_of c = 1 \/ chn_of c = 2) by (unfold chn_of; destruct (k_sin c); lia).
  split; [exact A|]. destruct C12 as [C|C]; rewrite C in *; lia.
Qed.
Print Assumptions forward_segment_reads_inside_block_8bit.

(* playing backwards (reverse / bidirectional loops): step < 0, and the rule is count <= ceil((pos - start) / |step|), i.e.
   St * 65536 <= P * 65536 + F + (count - 1) * step for the voice's start St >= 0; the position never exceeds where it began *)
Lemma pos_at_reverse : forall c a st P St count,
  0 <= s_frac st < 65536 -> s_pos st = P * chn_of c -> 0 <= St -> a_step a < 0 ->
  St * 65536 <= P * 65536 + s_frac st + (count - 1) * a_step a ->
  forall k, 0 <= k < count -> St * chn_of c <= pos_at c a st k <= (P + 1) * chn_of c.
Proof.
  intros c a st P St count Hf Hp HSt HS Hrule k Hk.
  assert (M1 : (count - 1) * a_step a <= k * a_step a) by (apply Z.mul_le_mono_nonpos_r; lia).
  assert (M0 : k * a_step a <= 0) by (apply Z.mul_nonneg_nonpos; lia).
  unfold pos_at, start_state.
  set (d := k * a_step a) in *. clearbody d.
  assert (C12 : chn_of c = 1 \/ chn_of c = 2) by (unfold chn_of; destruct (k_sin c); lia).
  destruct (k_interp c) eqn:EI.
  - pose proof (advance_spec (chn_of c) (2 ^ (C_SMIX_SHIFT - 1)) st Hf) as [A1 A2].
    change (2 ^ (C_SMIX_SHIFT - 1)) with 32768 in *. change (2 ^ C_SMIX_SHIFT) with 65536.
    rewrite A1, A2, Hp.
    set (f := s_frac st) in *.
    pose proof (div_chain (f + 32768) d) as DC.
    assert (Q : St - P <= (f + 32768 + d) / 65536 < 2).
    { split; [apply Z.div_le_lower_bound; lia|apply Z.div_lt_upper_bound; lia]. }
    set (q1 := (f + 32768) / 65536) in *. set (q2 := ((f + 32768) mod 65536 + d) / 65536) in *. set (q := (f + 32768 + d) / 65536) in *.
    clearbody q1 q2 q. destruct C12 as [C|C]; rewrite C; lia.
  - change (2 ^ C_SMIX_SHIFT) with 65536. rewrite Hp.
    assert (Q : St - P <= (s_frac st + d) / 65536 < 1).
    { split; [apply Z.div_le_lower_bound; lia|apply Z.div_lt_upper_bound; lia]. }
    set (q := (s_frac st + d) / 65536) in *. clearbody q. destruct C12 as [C|C]; rewrite C; lia.
  - change (2 ^ C_SMIX_SHIFT) with 65536. rewrite Hp.
    assert (Q : St - P <= (s_frac st + d) / 65536 < 1).
    { split; [apply Z.div_le_lower_bound; lia|apply Z.div_lt_upper_bound; lia]. }
    set (q := (s_frac st + d) / 65536) in *. clearbody q. destruct C12 as [C|C]; rewrite C; lia.
Qed.

Theorem reverse_segment_reads_inside_block_8bit : forall skip flags s file pos nbuf s' blk pos' c a count ramp st buf P St,
  load_sample skip flags s file pos nbuf = Loaded s' blk pos' ->
  framelen_of (s_flg s) = chn_of c ->
  0 <= s_frac st < 65536 -> s_pos st = P * chn_of c -> 0 <= St -> P <= s_len s' -> a_step a < 0 ->
  St * 65536 <= P * 65536 + s_frac st + (count - 1) * a_step a ->
  (Z.to_nat (Z.max 0 count) * (if k_sout c then 2 else 1) <= length buf)%nat ->
  kernel c {| m_data := blk; m_base := 4 |} a count ramp st buf <> None.
Proof.
  intros skip flags s file pos nbuf s' blk pos' c a count ramp st buf P St HL HF Hf Hp HSt HP HS Hrule Hb.
  eapply loaded_8bit_sample_covers_every_kernel; eauto.
  intros k Hk. pose proof (pos_at_reverse c a st P St count Hf Hp HSt HS Hrule k Hk) as [A B].
  assert (C12 : chn_of c = 1 \/ chn_of c = 2) by (unfold chn_of; destruct (k_sin c); lia).
  destruct C12 as [C|C]; rewrite C in *; lia.
Qed.
Print Assumptions reverse_segment_reads_inside_block_8bit.
