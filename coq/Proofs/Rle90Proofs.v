From Coq Require Import ZArith List Lia Bool.
Import ListNotations.
From LX Require Import Model.Rle90.
Local Open Scope Z_scope.

Lemma expand_group l : expand (group l) = l.
Proof.
  induction l as [|c t IH]; [reflexivity|]. cbn [group].
  destruct (group t) as [|[c' n] r] eqn:E.
  - destruct t; [reflexivity|]. cbn in IH. discriminate.
  - unfold expand in *. destruct (Z.eqb_spec c c') as [->|Hne]; cbn [map concat fst snd repeat app] in *; rewrite <- IH; reflexivity.
Qed.

Lemma group_pos l : Forall (fun p => (1 <= snd p)%nat) (group l).
Proof.
  induction l as [|c t IH]; [constructor|]. cbn [group]. destruct (group t) as [|[c' n] r].
  - repeat constructor.
  - inversion IH; subst. destruct (c =? c'); repeat constructor; cbn in *; auto; lia.
Qed.

Lemma dec_lit c t last : dec (lit c ++ t) last false = c :: dec t c false.
Proof.
  unfold lit. destruct (Z.eqb_spec c MARK) as [->|Hne].
  - cbn [app dec]. rewrite Z.eqb_refl. cbn [dec]. reflexivity.
  - cbn [app dec]. destruct (Z.eqb_spec c MARK); [contradiction|reflexivity].
Qed.

Lemma dec_reps : forall fuel k t c, (k <= fuel)%nat -> dec (reps fuel k ++ t) c false = repeat c k ++ dec t c false.
Proof.
  induction fuel as [|f IH]; intros k t c H.
  - assert (k = 0)%nat by lia. subst. reflexivity.
  - cbn [reps]. destruct k as [|k']; [reflexivity|].
    set (m := Nat.min (S k') 254). assert (Hm : (1 <= m <= S k')%nat) by (unfold m; lia).
    cbn [app dec]. rewrite Z.eqb_refl.
    assert (E0 : (Z.of_nat (S m) =? 0) = false) by (apply Z.eqb_neq; lia). rewrite E0.
    replace (Z.to_nat (Z.of_nat (S m) - 1)) with m by lia.
    rewrite IH by lia. rewrite app_assoc, <- repeat_app. f_equal. f_equal. lia.
Qed.

Lemma dec_run c n t last : (1 <= n)%nat -> dec (enc_run (c, n) ++ t) last false = repeat c n ++ dec t c false.
Proof.
  intros H. unfold enc_run. cbn [fst snd]. rewrite <- app_assoc, dec_lit, dec_reps by lia.
  destruct n as [|n']; [lia|]. cbn [repeat]. replace (S n' - 1)%nat with n' by lia. reflexivity.
Qed.

Lemma dec_runs : forall rs last, Forall (fun p => (1 <= snd p)%nat) rs -> dec (concat (map enc_run rs)) last false = expand rs.
Proof.
  induction rs as [|[c n] r IH]; intros last H; [reflexivity|]. inversion H; subst. cbn [snd] in *.
  cbn [map concat]. rewrite dec_run by assumption. unfold expand. cbn [map concat fst snd]. f_equal. apply IH. assumption.
Qed.

Theorem decode_encode l : decode (encode l) = l.
Proof. unfold decode, encode. rewrite dec_runs by apply group_pos. apply expand_group. Qed.

(* the writer emits bytes when given bytes *)
Lemma reps_bytes : forall fuel k, Forall (fun b => 0 <= b <= 255) (reps fuel k).
Proof.
  induction fuel as [|f IH]; intros k; [constructor|]. cbn [reps]. destruct k; [constructor|].
  constructor; [unfold MARK; lia|]. constructor; [lia|apply IH].
Qed.

Lemma group_bytes l : Forall (fun b => 0 <= b <= 255) l -> Forall (fun p => 0 <= fst p <= 255) (group l).
Proof.
  induction 1 as [|c t Hc Ht IH]; [constructor|]. cbn [group]. destruct (group t) as [|[c' n] r].
  - constructor; [exact Hc|constructor].
  - inversion IH; subst. cbn [fst] in *. destruct (c =? c'); [constructor; [exact Hc|assumption]|constructor; [exact Hc|constructor; assumption]].
Qed.

Theorem encode_bytes l : Forall (fun b => 0 <= b <= 255) l -> Forall (fun b => 0 <= b <= 255) (encode l).
Proof.
  intros H. unfold encode. pose proof (group_bytes l H) as G. induction G as [|[c n] r Hc Hr IH]; [constructor|].
  cbn [map concat]. apply Forall_app. split; [|exact IH]. unfold enc_run. apply Forall_app. split; [|apply reps_bytes].
  unfold lit. cbn [fst] in *. destruct (c =? MARK); repeat constructor; unfold MARK; lia.
Qed.
