(* proofs about Model/Lfo.v *)
From Coq Require Import ZArith List Lia Bool String.
Import ListNotations.
From LX Require Import Base.ListAux Generated.MixTables Model.Lfo.
Local Open Scope Z_scope.

Lemma sine_len : Z.of_nat (List.length lfo_sine_wave) = 64.
Proof. vm_compute. reflexivity. Qed.

Lemma zget_some_in : forall (l : list Z) i, 0 <= i < Z.of_nat (List.length l) -> exists v, zget l i = Some v /\ In v l.
Proof.
  intros l i H. unfold zget. destruct (i <? 0) eqn:E; [apply Z.ltb_lt in E; lia|].
  destruct (nth_error l (Z.to_nat i)) eqn:N.
  - exists z. split; [reflexivity|]. eapply nth_error_In; eauto.
  - apply nth_error_None in N. lia.
Qed.

Lemma sine_bound : forall v, In v lfo_sine_wave -> -255 <= v <= 255.
Proof.
  assert (H : forallb (fun v => (-255 <=? v) && (v <=? 255)) lfo_sine_wave = true) by (vm_compute; reflexivity).
  intros v I. rewrite forallb_forall in H. specialize (H v I). apply andb_prop in H. destruct H as [A B].
  apply Z.leb_le in A. apply Z.leb_le in B. lia.
Qed.

(* ---------------------------------------------------------------- the phase invariant *)
Lemma land63 : forall x, 0 <= Z.land x 63 < 64.
Proof.
  intros x. change 63 with (Z.ones 6). rewrite Z.land_ones by lia. change (2 ^ 6) with 64. apply Z.mod_pos_bound. lia.
Qed.

Lemma lfo_op_keeps_phase : forall l o, phase_ok l -> phase_ok (lfo_op l o).
Proof.
  intros l o H. unfold phase_ok in *. destruct o; cbn [lfo_op l_phase]; try exact H.
  - unfold WAVEFORM_SIZE. change (64 - 1) with 63. apply land63.
  - unfold WAVEFORM_SIZE. lia.
Qed.

Lemma lfo_ops_keep_phase : forall ops l, phase_ok l -> phase_ok (fold_left lfo_op ops l).
Proof.
  induction ops as [|o ops IH]; cbn [fold_left]; intros l H; [exact H|]. apply IH. apply lfo_op_keeps_phase. exact H.
Qed.

Lemma lfo_reachable_phase : forall ops, phase_ok (fold_left lfo_op ops lfo_zero).
Proof. intros ops. apply lfo_ops_keep_phase. unfold phase_ok, lfo_zero, WAVEFORM_SIZE. cbn. lia. Qed.

(* ---------------------------------------------------------------- the generator *)
Lemma rng_step_range : forall st, 0 <= rng_step st < 2 ^ 32.
Proof. intros st. unfold rng_step, u32. apply Z.mod_pos_bound. lia. Qed.

Lemma get_random_range : forall st range v s, 0 <= range -> get_random st range = (v, s) ->
  0 <= s < 2 ^ 32 /\ 0 <= v /\ (0 < range -> v < range) /\ (range = 0 -> v = 0).
Proof.
  intros st range v s Hr H. unfold get_random in H. injection H as <- <-.
  pose proof (rng_step_range st) as B. set (x := rng_step st) in *. clearbody x.
  rewrite Z.shiftr_div_pow2 by lia. change (2 ^ 32) with 4294967296 in *.
  repeat split; try lia.
  - apply Z.div_pos; nia.
  - intros Hp. apply Z.div_lt_upper_bound; nia.
  - intros ->. reflexivity.
Qed.

(* ---------------------------------------------------------------- the table access and the value range *)
Lemma get_mod_spec : forall rs l, phase_ok l -> 0 <= rs ->
  exists v rs', get_mod rs l = Some (v, rs') /\ Z.abs v <= 256 * Z.abs (l_depth l).
Proof.
  intros rs l P R. unfold phase_ok, WAVEFORM_SIZE in P. unfold get_mod.
  destruct (l_rate l =? 0); [exists 0, rs; split; [reflexivity|lia]|].
  destruct (l_type l =? 0).
  { destruct (zget_some_in lfo_sine_wave (l_phase l)) as [v [E I]]; [rewrite sine_len; lia|]. rewrite E.
    exists (v * l_depth l), rs. split; [reflexivity|]. pose proof (sine_bound v I). rewrite Z.abs_mul. nia. }
  destruct (l_type l =? 1).
  { eexists _, rs. split; [reflexivity|]. rewrite Z.abs_mul. nia. }
  destruct (l_type l =? 2).
  { eexists _, rs. split; [reflexivity|]. rewrite Z.abs_mul. unfold WAVEFORM_SIZE. destruct (_ <? _); nia. }
  destruct (l_type l =? 3).
  { destruct (get_random rs 512) as [r rs'] eqn:G. apply get_random_range in G; [|lia]. destruct G as [_ [G0 [G1 _]]].
    specialize (G1 ltac:(lia)). eexists _, rs'. split; [reflexivity|]. rewrite Z.abs_mul. nia. }
  destruct (l_type l =? 669).
  { eexists _, rs. split; [reflexivity|]. rewrite Z.abs_mul.
    assert (0 <= Z.land (l_phase l) 1 < 2).
    { change 1 with (Z.ones 1). rewrite Z.land_ones by lia. apply Z.mod_pos_bound. lia. }
    nia. }
  exists 0, rs. split; [reflexivity|lia].
Qed.

Lemma get_st3_spec : forall rs l, phase_ok l -> 0 <= rs ->
  exists v rs', get_st3 rs l = Some (v, rs') /\ Z.abs v <= 256 * Z.abs (l_depth l).
Proof.
  intros rs l P R. unfold get_st3. destruct (l_rate l =? 0); [exists 0, rs; split; [reflexivity|lia]|].
  destruct (l_type l =? 2); [|apply get_mod_spec; assumption].
  eexists _, rs. split; [reflexivity|]. rewrite Z.abs_mul. destruct (_ <? _); nia.
Qed.

Lemma get_ft2_spec : forall rs l, phase_ok l -> 0 <= rs ->
  exists v rs', get_ft2 rs l = Some (v, rs') /\ Z.abs v <= 256 * Z.abs (l_depth l).
Proof.
  intros rs l P R. unfold get_ft2. destruct (l_rate l =? 0); [exists 0, rs; split; [reflexivity|lia]|].
  destruct (l_type l =? 1); [|apply get_mod_spec; assumption].
  eexists _, rs. split; [reflexivity|]. rewrite Z.abs_mul. unfold phase_ok, WAVEFORM_SIZE in *. change (64 / 2) with 32.
  assert (0 <= Z.rem (l_phase l + 32) 64 < 64) by (apply Z.rem_bound_pos; lia). nia.
Qed.

Theorem lfo_get_spec : forall mode vib rs l, phase_ok l -> 0 <= rs ->
  exists v rs', lfo_get mode vib rs l = Some (v, rs') /\ Z.abs v <= 256 * Z.abs (l_depth l).
Proof.
  intros mode vib rs l P R. destruct mode; cbn [lfo_get].
  - apply get_mod_spec; assumption.
  - apply get_st3_spec; assumption.
  - destruct vib; [apply get_ft2_spec|apply get_mod_spec]; assumption.
  - destruct (l_rate l =? 0); [exists 0, rs; split; [reflexivity|lia]|apply get_st3_spec; assumption].
Qed.

(* without the invariant the table access does leave the table *)
Lemma lfo_get_needs_phase : lfo_get RMod false 1 {| l_type := 0; l_rate := 1; l_depth := 1; l_phase := 64 |} = None.
Proof. vm_compute. reflexivity. Qed.

(* the source only ever sets a phase to 0 *)
Definition phase_writers_okb : bool := forallb (String.eqb "0") lfo_set_phase_args && Nat.eqb lfo_phase_direct_writes 0.
Lemma phase_writers_ok : phase_writers_okb = true.
Proof. vm_compute. reflexivity. Qed.
