From Coq Require Import ZArith List Lia Bool.
Import ListNotations.
From LX Require Import Base.ListAux Model.Hio.
Local Open Scope Z_scope.

Section Sim.
Variable data : list Z.
Let size := zlen data.

(* FILE state sf and MEM state sm are related: same position and error flag, position inside the data,
   and the FILE end-of-file indicator can only be set at the end of the data *)
Definition R (sf sm : hstate) : Prop :=
  pos sf = pos sm /\ herr sf = herr sm /\ 0 <= pos sf <= size /\ (eofi sf = true -> pos sf = size).

Lemma avail_in p : 0 <= p <= size -> avail data p = size - p.
Proof. intros H. unfold avail. fold size. lia. Qed.

Lemma R_init : R init_state init_state.
Proof. unfold R, init_state; cbn [pos herr eofi]. repeat split; try lia; try discriminate; unfold size, zlen; lia. Qed.

Lemma step_sim sf sm o : R sf sm -> safe data sf o = true ->
  snd (file_step data sf o) = snd (mem_step data sm o) /\ R (fst (file_step data sf o)) (fst (mem_step data sm o)).
Proof.
  intros (Hp & He & Hr & Hf) Hs.
  assert (Ha : avail data (pos sf) = size - pos sf) by (apply avail_in; exact Hr).
  assert (Ham : avail data (pos sm) = size - pos sf) by (rewrite <- Hp; exact Ha).
  destruct o as [| |n|sz num|off wh| | |]; cbn [safe] in Hs.
  - (* Read8 *)
    unfold file_step, file_readk, mem_step. rewrite Ha, Ham.
    destruct (Z.ltb_spec (Z.min 1 (size - pos sf)) 1) as [Hlt|Hge].
    + assert (pos sf = size) by lia. destruct (Z.leb_spec 1 (size - pos sf)); [lia|].
      cbn [fst snd]. split; [reflexivity|]. unfold R, seterr; cbn [pos herr eofi]. repeat split; try lia.
    + destruct (Z.leb_spec 1 (size - pos sf)); [|lia]. cbn [fst snd]. rewrite <- Hp. split; [reflexivity|].
      unfold R; cbn [pos herr eofi]. repeat split; try lia. intros E. specialize (Hf E). lia.
  - (* Read8s: safe means not at the end *)
    apply Z.ltb_lt in Hs. fold size in Hs.
    unfold file_step, file_readk, mem_step. rewrite Ha, Ham.
    destruct (Z.ltb_spec (Z.min 1 (size - pos sf)) 1); [lia|]. destruct (Z.leb_spec 1 (size - pos sf)); [|lia].
    cbn [fst snd]. rewrite <- Hp. split; [reflexivity|]. unfold R; cbn [pos herr eofi]. repeat split; try lia. intros E. specialize (Hf E). lia.
  - (* ReadN *)
    apply Z.ltb_lt in Hs.
    unfold file_step, file_readk, mem_step. rewrite Ha, Ham.
    destruct (Z.ltb_spec (Z.min n (size - pos sf)) n) as [Hlt|Hge].
    + destruct (Z.leb_spec n (size - pos sf)); [lia|]. cbn [fst snd]. split; [reflexivity|].
      unfold R, seterr; cbn [pos herr eofi]. rewrite Z.min_r by lia. repeat split; try lia.
    + destruct (Z.leb_spec n (size - pos sf)); [|lia]. cbn [fst snd]. rewrite <- Hp. split; [reflexivity|].
      unfold R; cbn [pos herr eofi]. repeat split; try lia. intros E. specialize (Hf E). lia.
  - (* ReadBuf *)
    unfold file_step, mem_step. rewrite Ha, Ham.
    destruct ((sz <=? 0) || (num <=? 0)) eqn:Ez.
    + (* nothing to read: safe excludes size 0 with a positive count *)
      assert (Hn : (0 <? num) = false).
      { apply orb_prop in Hs as [Hs|Hs]; [apply Z.leb_le in Hs; apply Z.ltb_ge; lia|].
        apply Z.ltb_lt in Hs. apply orb_prop in Ez as [Ez|Ez]; apply Z.leb_le in Ez; [lia|apply Z.ltb_ge; lia]. }
      rewrite Hn. cbn [fst snd]. split; [reflexivity|]. unfold R. repeat split; try lia. exact Hf.
    + apply orb_false_elim in Ez as [Ez1 Ez2]. apply Z.leb_gt in Ez1. apply Z.leb_gt in Ez2.
      set (want := sz * num). set (can := size - pos sf).
      assert (Hw : 0 < want) by (unfold want; lia).
      destruct (Z.leb_spec can 0) as [Hc0|Hc0].
      * (* at the end *)
        rewrite Z.min_r by lia. assert (Hc : can = 0) by (unfold can in *; lia). rewrite !Hc.
        change (0 / sz) with 0. destruct (Z.eqb_spec 0 num); [lia|]. destruct (Z.ltb_spec 0 want); [|lia].
        cbn [fst snd]. unfold take. cbn [Z.to_nat firstn]. split; [reflexivity|].
        unfold R, seterr; cbn [pos herr eofi]. repeat split; unfold can in *; lia.
      * destruct (Z.ltb_spec can want) as [Hlt|Hge].
        -- rewrite Z.min_r by lia.
           assert (Hd : can / sz < num) by (apply Z.div_lt_upper_bound; unfold want in Hlt; lia).
           destruct (Z.eqb_spec (can / sz) num); [lia|].
           cbn [fst snd]. rewrite <- Hp. split; [reflexivity|].
           unfold R, seterr; cbn [pos herr eofi]. unfold can. repeat split; lia.
        -- rewrite Z.min_l by lia.
           assert (Hd : want / sz = num) by (unfold want; rewrite Z.mul_comm; apply Z.div_mul; lia).
           rewrite Hd, Z.eqb_refl. destruct (Z.ltb_spec want want); [lia|].
           cbn [fst snd]. rewrite <- Hp. split; [reflexivity|].
           unfold R; cbn [pos herr eofi]. unfold can in *. repeat split; try lia. intros E. specialize (Hf E). lia.
  - (* Seek: safe means the target is not beyond the end *)
    apply Z.leb_le in Hs. fold size in Hs.
    unfold file_step, mem_step, range_whence. fold size. rewrite <- Hp.
    destruct ((0 <=? wh) && (wh <=? 2)); cbn [negb].
    + set (np := (if wh =? 0 then 0 else if wh =? 1 then pos sf else size) + off) in *.
      destruct (Z.ltb_spec np 0).
      * cbn [fst snd]. split; [reflexivity|]. unfold R, seterr; cbn [pos herr eofi]. repeat split; try lia. exact Hf.
      * destruct (Z.ltb_spec size np); [lia|]. cbn [fst snd]. split; [reflexivity|].
        unfold R; cbn [pos herr eofi]. rewrite He. repeat split; try lia; try discriminate.
    + cbn [fst snd]. split; [reflexivity|]. unfold R, seterr; cbn [pos herr eofi]. repeat split; try lia. exact Hf.
  - (* Tell *) cbn [file_step mem_step fst snd]. rewrite Hp. split; [reflexivity|]. unfold R. repeat split; try lia. exact Hf.
  - (* Eof: safe = not at the end, or a read has already failed *)
    unfold file_step, mem_step. rewrite Ham. cbn [fst snd]. split.
    + apply orb_prop in Hs as [Hs|Hs].
      * apply Z.ltb_lt in Hs. fold size in Hs. destruct (eofi sf) eqn:E; [specialize (Hf eq_refl); lia|].
        destruct (Z.leb_spec (size - pos sf) 0); [lia|reflexivity].
      * rewrite Hs. specialize (Hf Hs). destruct (Z.leb_spec (size - pos sf) 0); [reflexivity|lia].
    + unfold R. repeat split; try lia. exact Hf.
  - (* Error *) cbn [file_step mem_step fst snd]. rewrite He. split; [reflexivity|]. unfold R, seterr; cbn [pos herr eofi]. repeat split; try lia. exact Hf.
Qed.

Lemma run_sim : forall ops sf sm, R sf sm -> all_safe data sf ops = true -> run data FILEB sf ops = run data MEMB sm ops.
Proof.
  induction ops as [|o t IH]; intros sf sm HR Hs; [reflexivity|].
  cbn [all_safe] in Hs. apply andb_prop in Hs as [Ho Ht].
  destruct (step_sim sf sm o HR Ho) as [E1 E2].
  cbn [run step]. destruct (file_step data sf o) as [sf' rf] eqn:Ef. destruct (mem_step data sm o) as [sm' rm] eqn:Em.
  cbn [fst snd] in *. subst rm. f_equal. apply IH; assumption.
Qed.
End Sim.

(* ---- the three ways of leaving the fragment really do diverge (witnesses) *)
Lemma divergences :
  run [7] FILEB init_state [Read8; Read8s] <> run [7] MEMB init_state [Read8; Read8s] /\
  run [7] FILEB init_state [Seek 5 0; Tell] <> run [7] MEMB init_state [Seek 5 0; Tell] /\
  run [7] FILEB init_state [Read8; Eof] <> run [7] MEMB init_state [Read8; Eof] /\
  run [7] CBB init_state [Read8; Read8s] = run [7] MEMB init_state [Read8; Read8s].
Proof. repeat split; vm_compute; discriminate. Qed.

(* ---- callbacks that behave like fread/fseek/ftell: CB = FILE, state for state, except hio_read8s at the end of data
        and block reads with a zero size or count (which reset the CBFILE's own eof flag) *)
Section CB.
Variable data : list Z.
Let size := zlen data.

Definition InvF (s : hstate) : Prop := 0 <= pos s /\ (eofi s = true -> size <= pos s).
Definition safe_cb (s : hstate) (o : op) : bool :=
  match o with
  | Read8s => pos s <? size
  | ReadN n => 0 <? n
  | ReadBuf sz num => (0 <? sz) && (0 <? num)
  | Seek off wh =>      (* a failing seek clears the CBFILE's flag but not stdio's indicator *)
      negb (eofi s) || (range_whence wh && (0 <=? (if wh =? 0 then 0 else if wh =? 1 then pos s else size) + off))
  | _ => true
  end.

Lemma availF p : 0 <= p -> avail data p = Z.max 0 (size - p).
Proof. intros; reflexivity. Qed.

Lemma cb_eq_file s o : InvF s -> safe_cb s o = true ->
  cb_step data s o = file_step data s o /\ InvF (fst (file_step data s o)).
Proof.
  intros (H0 & Hf) Hs. destruct s as [p e h]. cbn [pos eofi herr] in *.
  destruct o as [| |n|sz num|off wh| | |]; cbn [safe_cb pos] in Hs.
  - unfold cb_step, file_step, file_readk, seterr, avail; cbn [pos eofi herr]. fold size.
    destruct (Z.ltb_spec (Z.min 1 (Z.max 0 (size - p))) 1); destruct (Z.leb_spec 1 (Z.max 0 (size - p))); try lia; cbn [fst].
    + rewrite Z.min_r by lia. replace (p + Z.max 0 (size - p)) with p by lia. split; [reflexivity|]. split; cbn [pos eofi]; [lia|intros _; lia].
    + destruct e; [specialize (Hf eq_refl); lia|]. split; [reflexivity|]. split; cbn [pos eofi]; [lia|discriminate].
  - apply Z.ltb_lt in Hs. unfold cb_step, file_step, file_readk, seterr, avail; cbn [pos eofi herr]. fold size.
    destruct (Z.ltb_spec (Z.min 1 (Z.max 0 (size - p))) 1); destruct (Z.leb_spec 1 (Z.max 0 (size - p))); try lia; cbn [fst].
    destruct e; [specialize (Hf eq_refl); lia|]. split; [reflexivity|]. split; cbn [pos eofi]; [lia|discriminate].
  - apply Z.ltb_lt in Hs. unfold cb_step, file_step, file_readk, seterr, avail; cbn [pos eofi herr]. fold size.
    destruct (Z.ltb_spec (Z.min n (Z.max 0 (size - p))) n); destruct (Z.leb_spec n (Z.max 0 (size - p))); try lia; cbn [fst].
    + rewrite Z.min_r by lia. split; [reflexivity|]. split; cbn [pos eofi]; [lia|intros _; lia].
    + destruct e; [specialize (Hf eq_refl); lia|]. split; [reflexivity|]. split; cbn [pos eofi]; [lia|discriminate].
  - apply andb_prop in Hs as [Hz Hn]. apply Z.ltb_lt in Hz. apply Z.ltb_lt in Hn.
    unfold cb_step, file_step, seterr, avail; cbn [pos eofi herr]. fold size.
    replace ((sz <=? 0) || (num <=? 0)) with false by (symmetry; apply orb_false_iff; split; apply Z.leb_gt; lia).
    set (want := sz * num). set (a := Z.min want (Z.max 0 (size - p))).
    assert (Hw : 0 < want) by (unfold want; lia).
    destruct (Z.ltb_spec a want) as [Hlt|Hge].
    + assert (Hd : a / sz < num) by (apply Z.div_lt_upper_bound; unfold want in Hlt; lia).
      destruct (Z.eqb_spec (a / sz) num); [lia|]. destruct (Z.ltb_spec (a / sz) num); [|lia]. cbn [fst].
      split; [reflexivity|]. split; cbn [pos eofi]; [unfold a; lia|intros _; unfold a; lia].
    + assert (Haw : a = want) by (unfold a in *; lia).
      assert (Hd : a / sz = num) by (rewrite Haw; unfold want; rewrite Z.mul_comm; apply Z.div_mul; lia).
      rewrite Hd, Z.eqb_refl, Z.ltb_irrefl. cbn [fst].
      destruct e; [specialize (Hf eq_refl); unfold a in *; lia|]. split; [reflexivity|]. split; cbn [pos eofi]; [lia|discriminate].
  - cbn [eofi] in Hs. unfold cb_step, file_step, seterr, range_whence in *; cbn [pos eofi herr]. fold size in Hs |- *.
    destruct ((0 <=? wh) && (wh <=? 2)); cbn [negb andb] in Hs |- *.
    + set (np := (if wh =? 0 then 0 else if wh =? 1 then p else size) + off) in *.
      destruct (Z.ltb_spec np 0); cbn [fst].
      * destruct e; cbn [negb orb] in Hs; [apply Z.leb_le in Hs; lia|].
        split; [reflexivity|]. split; cbn [pos eofi]; [lia|discriminate].
      * split; [reflexivity|]. split; cbn [pos eofi]; [lia|discriminate].
    + cbn [fst]. destruct e; cbn [negb orb] in Hs; [discriminate|]. split; [reflexivity|]. split; cbn [pos eofi]; [lia|discriminate].
  - cbn [cb_step file_step fst]. split; [reflexivity|]. split; cbn [pos eofi]; assumption.
  - cbn [cb_step file_step fst]. split; [reflexivity|]. split; cbn [pos eofi]; assumption.
  - cbn [cb_step file_step fst seterr pos eofi herr]. split; [reflexivity|]. split; cbn [pos eofi]; assumption.
Qed.
End CB.

Section CBRun.
Variable data : list Z.
Fixpoint all_safe_cb (s : hstate) (ops : list op) : bool :=
  match ops with [] => true | o :: t => safe_cb data s o && all_safe_cb (fst (file_step data s o)) t end.
Lemma run_cb_eq_file : forall ops s, InvF data s -> all_safe_cb s ops = true -> run data CBB s ops = run data FILEB s ops.
Proof.
  induction ops as [|o t IH]; intros s Hi Hs; [reflexivity|]. cbn [all_safe_cb] in Hs. apply andb_prop in Hs as [Ho Ht].
  destruct (cb_eq_file data s o Hi Ho) as [E I']. cbn [run step]. rewrite E.
  destruct (file_step data s o) as [s' r]. cbn [fst] in *. f_equal. apply IH; assumption.
Qed.
End CBRun.
