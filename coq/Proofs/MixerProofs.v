From Coq Require Import ZArith List Lia Bool Permutation.
Import ListNotations.
From LX Require Import Base.ListAux Base.IntWrap Model.Downmix Model.Mixer.
Local Open Scope Z_scope.

(* ---- vadd / vsum algebra ---- *)
Lemma vadd_length a b : length a = length b -> length (vadd a b) = length a.
Proof. revert b; induction a as [|x a IH]; intros [|y b] H; cbn in *; try lia. f_equal. apply IH. lia. Qed.
Lemma vadd_comm a b : vadd a b = vadd b a.
Proof. revert b; induction a as [|x a IH]; intros [|y b]; cbn; try reflexivity. rewrite IH, Z.add_comm. reflexivity. Qed.
Lemma vadd_assoc a b c : vadd (vadd a b) c = vadd a (vadd b c).
Proof. revert b c; induction a as [|x a IH]; intros [|y b] [|z c]; cbn; try reflexivity. rewrite IH, Z.add_assoc. reflexivity. Qed.
Lemma vadd_zeros_l n a : length a = n -> vadd (zeros n) a = a.
Proof. revert a; induction n as [|n IH]; intros [|x a] H; cbn in *; try lia; try reflexivity. rewrite IH by lia. reflexivity. Qed.
Lemma zeros_length n : length (zeros n) = n.
Proof. apply repeat_length. Qed.

Definition all_len (n : nat) (bufs : list (list Z)) : Prop := Forall (fun b => length b = n) bufs.

Lemma fold_vadd_length n bufs acc : length acc = n -> all_len n bufs -> length (fold_left vadd bufs acc) = n.
Proof.
  revert acc; induction bufs as [|b t IH]; intros acc Ha Hl; cbn; [exact Ha|].
  inversion Hl; subst. apply IH; [rewrite vadd_length; lia|assumption].
Qed.

Lemma fold_vadd_acc n bufs acc : length acc = n -> all_len n bufs -> fold_left vadd bufs acc = vadd acc (fold_left vadd bufs (zeros n)).
Proof.
  revert acc; induction bufs as [|b t IH]; intros acc Ha Hl; cbn.
  - rewrite vadd_comm, vadd_zeros_l; auto.
  - inversion Hl as [|? ? Hb Ht]; subst. rewrite (IH (vadd acc b)) by (try rewrite vadd_length; auto; lia).
    rewrite (IH (vadd (zeros (length acc)) b)) by (try rewrite vadd_length, zeros_length; auto; rewrite zeros_length; lia).
    rewrite vadd_zeros_l by lia. rewrite vadd_assoc. reflexivity.
Qed.

(* the accumulator of a set of voices is the sum of the accumulators of any two parts of it *)
Lemma vsum_app n a b : all_len n a -> all_len n b -> vsum n (a ++ b) = vadd (vsum n a) (vsum n b).
Proof.
  intros Ha Hb. unfold vsum. rewrite fold_left_app.
  rewrite (fold_vadd_acc n b (fold_left vadd a (zeros n))); [reflexivity| |assumption].
  apply fold_vadd_length; [apply zeros_length|assumption].
Qed.

Lemma vsum_cons n b t : length b = n -> all_len n t -> vsum n (b :: t) = vadd b (vsum n t).
Proof.
  intros Hb Ht. change (b :: t) with ([b] ++ t). rewrite vsum_app; [|constructor; [assumption|constructor]|assumption].
  unfold vsum at 1. cbn. rewrite vadd_zeros_l by assumption. reflexivity.
Qed.

(* ... and does not depend on the order in which the voices are mixed *)
Lemma vsum_perm n a b : Permutation a b -> all_len n a -> vsum n a = vsum n b.
Proof.
  induction 1 as [|x a b P IH|x y a|a b c P1 IH1 P2 IH2]; intros Hl.
  - reflexivity.
  - inversion Hl; subst. rewrite !vsum_cons; auto; [rewrite IH; auto|]. eapply Permutation_Forall; eauto.
  - inversion Hl as [|? ? Hy Ht]; subst. inversion Ht as [|? ? Hx Ha]; subst.
    rewrite !vsum_cons; auto; try (constructor; auto). rewrite <- !vadd_assoc, (vadd_comm y x). reflexivity.
  - rewrite IH1 by assumption. apply IH2. eapply Permutation_Forall; eauto.
Qed.

(* splitting the voices by any predicate (e.g. "belongs to channel c") *)
Lemma vsum_partition n (f : list Z -> bool) bufs : all_len n bufs ->
  vsum n bufs = vadd (vsum n (filter f bufs)) (vsum n (filter (fun b => negb (f b)) bufs)).
Proof.
  intros Hl. rewrite <- vsum_app.
  - apply vsum_perm; [|assumption]. clear Hl. induction bufs as [|b t IH]; cbn; [constructor|].
    destruct (f b); cbn; [constructor; exact IH|]. eapply Permutation_trans; [constructor; exact IH|]. apply Permutation_middle.
  - unfold all_len in *. rewrite Forall_forall in *. intros x Hx. apply filter_In in Hx as [Hx _]. auto.
  - unfold all_len in *. rewrite Forall_forall in *. intros x Hx. apply filter_In in Hx as [Hx _]. auto.
Qed.

(* ---- silence ---- *)
Lemma gains_zero pan s : gains 0 pan s = (0, 0).
Proof. unfold gains. destruct s; reflexivity. Qed.
Lemma voice_vol_muted v mst : voice_vol v mst true = 0.
Proof. reflexivity. Qed.
Lemma voice_vol_master0 v mu : voice_vol v 0 mu = 0.
Proof. unfold voice_vol. destruct mu; [reflexivity|]. rewrite Z.mul_0_r. reflexivity. Qed.

Lemma contrib_zero smps : Forall (fun t => snd (fst t) = 0 /\ snd t = 0) smps -> contrib smps = zeros (2 * length smps).
Proof.
  induction 1 as [|[[s vl] vr] t [H1 H2] Ht IH]; [reflexivity|]. cbn [fst snd] in *. subst.
  cbn [contrib length]. rewrite IH. replace (2 * S (length t))%nat with (S (S (2 * length t))) by lia. cbn. rewrite !Z.mul_0_r. reflexivity.
Qed.

Lemma vsum_zeros n bufs : Forall (fun b => b = zeros n) bufs -> vsum n bufs = zeros n.
Proof.
  induction 1 as [|b t Hb Ht IH]; [reflexivity|]. subst. rewrite vsum_cons; [|apply zeros_length|].
  - rewrite IH. apply vadd_zeros_l. apply zeros_length.
  - eapply Forall_impl; [|exact Ht]. cbn. intros a ->. apply zeros_length.
Qed.

(* ---- quantisation: shifting the sum vs summing the shifted parts ---- *)
Definition zsum (l : list Z) : Z := fold_right Z.add 0 l.
Lemma shiftr_sum_bound k l : 0 <= k -> l <> [] ->
  0 <= Z.shiftr (zsum l) k - zsum (map (fun x => Z.shiftr x k) l) <= Z.of_nat (length l) - 1.
Proof.
  intros Hk. induction l as [|x t IH]; [congruence|]. intros _. destruct t as [|y t'].
  - cbn. rewrite Z.add_0_r. lia.
  - assert (Hne : y :: t' <> []) by congruence. specialize (IH Hne).
    set (r := y :: t') in *. cbn [zsum fold_right map length]. fold (zsum r). fold (zsum (map (fun x0 => Z.shiftr x0 k) r)).
    rewrite !Z.shiftr_div_pow2 in * by assumption.
    assert (Hp : 0 < 2 ^ k) by (apply Z.pow_pos_nonneg; lia).
    assert (E : forall l', zsum (map (fun x0 => Z.shiftr x0 k) l') = zsum (map (fun x0 => x0 / 2 ^ k) l')).
    { intros l'. f_equal. apply map_ext. intros a. apply Z.shiftr_div_pow2. assumption. }
    rewrite E in *. set (S1 := zsum (map (fun x0 => x0 / 2 ^ k) r)) in *. set (T := zsum r) in *.
    set (P := 2 ^ k) in *. clearbody S1 T P.
    pose proof (Z.div_mod x P ltac:(lia)). pose proof (Z.mod_pos_bound x P Hp).
    pose proof (Z.div_mod T P ltac:(lia)). pose proof (Z.mod_pos_bound T P Hp).
    pose proof (Z.div_mod (x + T) P ltac:(lia)). pose proof (Z.mod_pos_bound (x + T) P Hp).
    rewrite Nat2Z.inj_succ. nia.
Qed.

(* ---- separation ---- *)
Lemma sep_pan_neg mono sur fp sep : sep_pan mono sur fp (- sep) = - sep_pan mono sur fp sep.
Proof.
  unfold sep_pan. destruct (mono || sur); [reflexivity|].
  replace ((fp - 128) * - sep) with (- ((fp - 128) * sep)) by ring. apply Z.quot_opp_l. lia.
Qed.
Lemma sep_pan_zero mono sur fp : sep_pan mono sur fp 0 = 0.
Proof. unfold sep_pan. destruct (mono || sur); [reflexivity|]. rewrite Z.mul_0_r. reflexivity. Qed.
Lemma gains_neg vol pan : gains vol (- pan) false = (snd (gains vol pan false), fst (gains vol pan false)).
Proof. unfold gains. cbn [fst snd]. f_equal; ring. Qed.
Lemma gains_centre vol : fst (gains vol 0 false) = snd (gains vol 0 false).
Proof. unfold gains. cbn [fst snd]. ring. Qed.

Definition swapg (t : Z * Z * Z) : Z * Z * Z := (fst (fst t), snd t, snd (fst t)).
Lemma contrib_swap smps : contrib (map swapg smps) = swaplr (contrib smps).
Proof. induction smps as [|[[s vl] vr] t IH]; [reflexivity|]. cbn. rewrite IH. reflexivity. Qed.

Lemma list_ind2 {A} (P : list A -> Prop) : P [] -> (forall x, P [x]) -> (forall x y l, P l -> P (x :: y :: l)) -> forall l, P l.
Proof.
  intros H0 H1 H2 l. assert (H : P l /\ forall x, P (x :: l)); [|exact (proj1 H)].
  induction l as [|y l [IH1 IH2]]; [split; [exact H0|exact H1]|]. split; [apply IH2|]. intros x. apply H2. exact IH1.
Qed.

Lemma swaplr_vadd a b : length a = length b -> Nat.Even (length a) -> swaplr (vadd a b) = vadd (swaplr a) (swaplr b).
Proof.
  revert b. induction a as [|x|x y a IH] using list_ind2; intros b Hl He.
  - reflexivity.
  - destruct He as [k Hk]. cbn in Hk. lia.
  - destruct b as [|x' [|y' b]]; cbn in Hl; try lia. cbn. f_equal. f_equal. apply IH; [lia|].
    destruct He as [k Hk]. cbn in Hk. exists (k - 1)%nat. lia.
Qed.
Lemma swaplr_length a : length (swaplr a) = length a.
Proof. induction a as [|x|x y a IH] using list_ind2; cbn; try reflexivity. rewrite IH. reflexivity. Qed.
Lemma swaplr_zeros n : Nat.Even n -> swaplr (zeros n) = zeros n.
Proof.
  intros [k ->]. induction k as [|k IH]; [reflexivity|]. replace (2 * S k)%nat with (S (S (2 * k))) by lia. cbn. f_equal. f_equal. exact IH.
Qed.

Lemma vsum_swap n bufs : Nat.Even n -> all_len n bufs -> vsum n (map swaplr bufs) = swaplr (vsum n bufs).
Proof.
  intros He. induction 1 as [|b t Hb Ht IH]; [cbn; unfold vsum; cbn; symmetry; apply swaplr_zeros; exact He|].
  cbn [map]. rewrite !vsum_cons; auto.
  - rewrite IH. symmetry. apply swaplr_vadd; [|rewrite Hb; exact He].
    rewrite Hb. symmetry. apply fold_vadd_length; [apply zeros_length|exact Ht].
  - rewrite swaplr_length. exact Hb.
  - unfold all_len in *. rewrite Forall_forall in *. intros x Hx. apply in_map_iff in Hx as (y & <- & Hy). rewrite swaplr_length. auto.
Qed.
