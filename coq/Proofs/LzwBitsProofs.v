(* C08, bit-level half of uncompress_compress: the bit reader with its width schedule (unpack) inverts the writer's side of
   the same schedule (pack), through the byte packing (bytes_of_bits / bits_of_bytes), for every code list that fits the
   schedule (sched_fit). *)
From Coq Require Import ZArith List Lia Bool FMapPositive.
Import ListNotations.
From LX Require Import Model.Lzw.
Local Open Scope Z_scope.
Ltac Zify.zify_post_hook ::= Z.div_mod_to_equations.

(* ---------------------------------------------------------------- list helpers ---------------------------------------- *)
Lemma firstn_exact {A} : forall (a r : list A) n, length a = n -> firstn n (a ++ r) = a.
Proof. induction a as [|x a IH]; intros r n H; subst n; cbn [length firstn app]; [reflexivity | now rewrite IH]. Qed.

Lemma skipn_exact {A} : forall (a r : list A) n, length a = n -> skipn n (a ++ r) = r.
Proof. induction a as [|x a IH]; intros r n H; subst n; cbn [length skipn app]; [reflexivity | now apply IH]. Qed.

(* ---------------------------------------------------------------- B1 --------------------------------------------------- *)
Lemma bits_of_z_length : forall n x, length (bits_of_z n x) = n.
Proof. induction n as [|n IH]; intros x; cbn [bits_of_z length]; [reflexivity | now rewrite IH]. Qed.

Lemma odd_decomp : forall x, x = (if Z.odd x then 1 else 0) + 2 * (x / 2).
Proof. intros x. rewrite <- Z.div2_div. pose proof (Z.div2_odd x) as H. destruct (Z.odd x); cbn [Z.b2z] in H; lia. Qed.

Lemma z_of_bits_of_z : forall n x, 0 <= x < 2 ^ Z.of_nat n -> z_of_bits (bits_of_z n x) = x.
Proof.
  induction n as [|n IH]; intros x Hx.
  - cbn [bits_of_z z_of_bits]. change (2 ^ Z.of_nat 0) with 1 in Hx. lia.
  - cbn [bits_of_z z_of_bits]. rewrite IH.
    + symmetry; apply odd_decomp.
    + rewrite Nat2Z.inj_succ, Z.pow_succ_r in Hx by lia. lia.
Qed.

(* ---------------------------------------------------------------- B2 --------------------------------------------------- *)
Lemma bits_of_z_zero : forall k, bits_of_z k 0 = repeat false k.
Proof.
  induction k as [|k IH]; cbn [bits_of_z repeat]; [reflexivity|].
  change (0 / 2) with 0. change (Z.odd 0) with false. now rewrite IH.
Qed.

Lemma bits_of_z_of_bits : forall l k, bits_of_z (length l + k)%nat (z_of_bits l) = l ++ repeat false k.
Proof.
  induction l as [|b t IH]; intros k.
  - cbn [length z_of_bits app Nat.add]. apply bits_of_z_zero.
  - cbn [length z_of_bits app Nat.add bits_of_z].
    assert (Ho : Z.odd ((if b then 1 else 0) + 2 * z_of_bits t) = b) by (rewrite Z.odd_add_mul_2; destruct b; reflexivity).
    assert (Hd : ((if b then 1 else 0) + 2 * z_of_bits t) / 2 = z_of_bits t) by (destruct b; lia).
    rewrite Ho, Hd, IH. reflexivity.
Qed.

Lemma bytes_of_bits_nil : forall f, bytes_of_bits f [] = [].
Proof. destruct f; reflexivity. Qed.

Lemma bits_of_bytes_cons : forall x r, bits_of_bytes (x :: r) = bits_of_z 8 x ++ bits_of_bytes r.
Proof. reflexivity. Qed.

Lemma bytes_of_bits_S : forall f b, b <> [] -> bytes_of_bits (S f) b = z_of_bits (firstn 8 b) :: bytes_of_bits f (skipn 8 b).
Proof. intros f [|b0 bt] H; [congruence | reflexivity]. Qed.

Lemma bytes_roundtrip_gen : forall fuel b, (length b < fuel)%nat ->
  exists k, (k < 8)%nat /\ bits_of_bytes (bytes_of_bits fuel b) = b ++ repeat false k.
Proof.
  induction fuel as [|f IH]; intros b Hb; [lia|].
  destruct (Nat.eq_dec (length b) 0) as [Hz|Hnz].
  - destruct b; [|discriminate]. exists 0%nat. split; [lia | reflexivity].
  - assert (Hne : b <> []) by (intros ->; apply Hnz; reflexivity).
    rewrite (bytes_of_bits_S f b Hne), bits_of_bytes_cons.
    destruct (le_lt_dec 8 (length b)) as [Hge|Hlt].
    + assert (Hl8 : length (firstn 8 b) = 8%nat) by (apply firstn_length_le; exact Hge).
      pose proof (bits_of_z_of_bits (firstn 8 b) 0) as H8.
      rewrite Hl8 in H8. cbn [Nat.add repeat] in H8. rewrite app_nil_r in H8.
      destruct (IH (skipn 8 b)) as (k & Hk & E); [rewrite skipn_length; lia|].
      exists k. split; [exact Hk|].
      rewrite E. change (8 + 0)%nat with 8%nat in H8. rewrite H8.
      rewrite app_assoc, firstn_skipn. reflexivity.
    + rewrite (firstn_all2 (n := 8) b) by lia. rewrite (skipn_all2 (n := 8) b) by lia.
      rewrite bytes_of_bits_nil. change (bits_of_bytes []) with (@nil bool). rewrite app_nil_r.
      exists (8 - length b)%nat. split; [lia|].
      pose proof (bits_of_z_of_bits b (8 - length b)) as H8.
      replace (length b + (8 - length b))%nat with 8%nat in H8 by lia. exact H8.
Qed.

Lemma bytes_roundtrip : forall b, exists k, (k < 8)%nat /\ bits_of_bytes (bytes_of_bits (S (length b)) b) = b ++ repeat false k.
Proof. intros b. apply bytes_roundtrip_gen. lia. Qed.

(* ---------------------------------------------------------------- the schedule invariant ------------------------------- *)
Definition wf_w (p : zparams) (w : wst) : Prop :=
  9 <= w_nbits w <= z_maxbits p /\
  ((w_maxcode w = 2 ^ w_nbits w - 1 /\ w_nbits w < z_maxbits p) \/ (w_nbits w = z_maxbits p /\ w_maxcode w = maxmax p)) /\
  w_free w <= w_maxcode w + 1 /\ w_free w <= maxmax p.

Lemma maxmax_ge : forall p, 10 <= z_maxbits p -> 1024 <= maxmax p.
Proof. intros p H. unfold maxmax. change 1024 with (2 ^ 10). apply Z.pow_le_mono_r; lia. Qed.

Lemma wf_init : forall p, 10 <= z_maxbits p -> wf_w p (w_init p).
Proof.
  intros p H. pose proof (maxmax_ge p H) as Hm. unfold wf_w, w_init. cbn [w_nbits w_maxcode w_free].
  change (2 ^ 9) with 512. destruct (z_block p); repeat split; try lia; left; lia.
Qed.

Lemma wf_bump : forall p w, wf_w p w -> (w_maxcode w <? w_free w) = true ->
  wf_w p (w_bump p w) /\ (w_maxcode (w_bump p w) <? w_free (w_bump p w)) = false.
Proof.
  intros p w (Hn & Hm & Hf & Hff) Hc. apply Z.ltb_lt in Hc.
  destruct Hm as [[Hm Hlt]|[He Hm]]; [|lia].
  assert (HP : 0 < 2 ^ w_nbits w) by (apply Z.pow_pos_nonneg; lia).
  assert (HS : 2 ^ (w_nbits w + 1) = 2 * 2 ^ w_nbits w) by (rewrite Z.pow_add_r by lia; change (2 ^ 1) with 2; lia).
  unfold wf_w, w_bump. cbn [w_nbits w_maxcode w_free].
  destruct (Z.eqb_spec (w_nbits w + 1) (z_maxbits p)) as [E|NE].
  - split; [|apply Z.ltb_ge; lia].
    split; [lia|]. split; [right; split; [exact E | reflexivity]|]. lia.
  - split; [|apply Z.ltb_ge; lia].
    split; [lia|]. split; [left; split; [reflexivity | lia]|]. lia.
Qed.

Lemma wf_after : forall p w code, 10 <= z_maxbits p -> wf_w p w -> (w_maxcode w <? w_free w) = false ->
  wf_w p (w_after p w code).
Proof.
  intros p w code Hp (Hn & Hm & Hf & Hff) Hc. apply Z.ltb_ge in Hc. pose proof (maxmax_ge p Hp) as Hmm.
  unfold w_after. destruct (w_first w).
  - unfold wf_w. cbn [w_nbits w_maxcode w_free]. repeat split; try lia; exact Hm.
  - destruct (z_block p && (code =? 256)).
    + unfold wf_w. cbn [w_nbits w_maxcode w_free]. change (2 ^ 9) with 512. repeat split; lia.
    + unfold wf_w. cbn [w_nbits w_maxcode w_free].
      destruct (Z.ltb_spec (w_free w) (maxmax p)) as [Hl|Hl].
      * split; [lia|]. split; [exact Hm|]. destruct Hm as [[Hm Hlt]|[He Hm]]; lia.
      * split; [lia|]. split; [exact Hm|]. lia.
Qed.

Lemma nb_after : forall p w code, 1 <= w_nbits w -> 1 <= w_nbits (w_after p w code).
Proof.
  intros p w code H. unfold w_after. destruct (w_first w); [exact H|].
  destruct (z_block p && (code =? 256)); cbn [w_nbits]; lia.
Qed.

(* ---------------------------------------------------------------- unfolding equations ---------------------------------- *)
Lemma unpack_S : forall f p w used bits,
  unpack (S f) p w used bits =
  if w_maxcode w <? w_free w then unpack f p (w_bump p w) 0 (skipn (pad_bits (w_nbits w) used) bits)
  else if (length (firstn (Z.to_nat (w_nbits w)) bits) <? Z.to_nat (w_nbits w))%nat then []
  else if is_clear p w (z_of_bits (firstn (Z.to_nat (w_nbits w)) bits))
       then z_of_bits (firstn (Z.to_nat (w_nbits w)) bits) ::
            unpack f p (w_after p w (z_of_bits (firstn (Z.to_nat (w_nbits w)) bits))) 0
              (skipn (pad_bits (w_nbits w) (used + w_nbits w)) (skipn (Z.to_nat (w_nbits w)) bits))
       else z_of_bits (firstn (Z.to_nat (w_nbits w)) bits) ::
            unpack f p (w_after p w (z_of_bits (firstn (Z.to_nat (w_nbits w)) bits))) (used + w_nbits w)
              (skipn (Z.to_nat (w_nbits w)) bits).
Proof. reflexivity. Qed.

Definition pack_body (p : zparams) (w1 : wst) (used1 : Z) (code : Z) (t : list Z) : list bool :=
  bits_of_z (Z.to_nat (w_nbits w1)) code ++
  (if is_clear p w1 code then repeat false (pad_bits (w_nbits w1) (used1 + w_nbits w1)) ++ pack p (w_after p w1 code) 0 t
   else pack p (w_after p w1 code) (used1 + w_nbits w1) t).

Lemma pack_cons : forall p w used code t,
  pack p w used (code :: t) =
  if w_maxcode w <? w_free w then repeat false (pad_bits (w_nbits w) used) ++ pack_body p (w_bump p w) 0 code t
  else pack_body p w used code t.
Proof.
  intros p w used code t. cbn [pack]. unfold pack_body.
  destruct (w_maxcode w <? w_free w); cbv beta iota zeta.
  - destruct (is_clear p (w_bump p w) code); reflexivity.
  - destruct (is_clear p w code); reflexivity.
Qed.

(* ---------------------------------------------------------------- B3 --------------------------------------------------- *)
(* fewer than 9 bits left: the reader stops, whatever the fuel and however many bumps are pending *)
Lemma unpack_short : forall fuel p w used bits, 9 <= w_nbits w -> (length bits < 9)%nat -> unpack fuel p w used bits = [].
Proof.
  induction fuel as [|f IH]; intros p w used bits Hn Hl; [reflexivity|].
  rewrite unpack_S. destruct (w_maxcode w <? w_free w).
  - apply IH; [unfold w_bump; cbn [w_nbits]; lia | rewrite skipn_length; lia].
  - destruct (Nat.ltb_spec (length (firstn (Z.to_nat (w_nbits w)) bits)) (Z.to_nat (w_nbits w))) as [H|H]; [reflexivity|].
    rewrite firstn_length in H. lia.
Qed.

(* one code read back when no bump is due *)
Lemma unpack_read : forall p w used code rest f,
  (w_maxcode w <? w_free w) = false -> 0 <= w_nbits w -> 0 <= code < 2 ^ w_nbits w ->
  unpack (S f) p w used (bits_of_z (Z.to_nat (w_nbits w)) code ++ rest) =
  if is_clear p w code
  then code :: unpack f p (w_after p w code) 0 (skipn (pad_bits (w_nbits w) (used + w_nbits w)) rest)
  else code :: unpack f p (w_after p w code) (used + w_nbits w) rest.
Proof.
  intros p w used code rest f Hc Hn Hcode.
  rewrite unpack_S, Hc.
  rewrite (firstn_exact (bits_of_z (Z.to_nat (w_nbits w)) code) rest _ (bits_of_z_length _ _)).
  rewrite (skipn_exact (bits_of_z (Z.to_nat (w_nbits w)) code) rest _ (bits_of_z_length _ _)).
  rewrite bits_of_z_length, Nat.ltb_irrefl.
  rewrite z_of_bits_of_z by (rewrite Z2Nat.id by lia; exact Hcode).
  reflexivity.
Qed.

Lemma unpack_body : forall p w used code t tailz f,
  (w_maxcode w <? w_free w) = false -> 0 <= w_nbits w -> 0 <= code < 2 ^ w_nbits w ->
  unpack (S f) p w used (pack_body p w used code t ++ tailz) =
  code :: unpack f p (w_after p w code) (if is_clear p w code then 0 else used + w_nbits w)
            (pack p (w_after p w code) (if is_clear p w code then 0 else used + w_nbits w) t ++ tailz).
Proof.
  intros p w used code t tailz f Hc Hn Hcode. unfold pack_body. rewrite <- app_assoc.
  rewrite (unpack_read p w used code _ f Hc Hn Hcode).
  destruct (is_clear p w code); [|reflexivity].
  rewrite <- app_assoc. rewrite (skipn_exact (repeat false _) _ _ (repeat_length _ _)). reflexivity.
Qed.

Lemma unpack_pack_gen : forall p, 10 <= z_maxbits p <= 16 -> forall codes w used tailz fuel,
  wf_w p w -> sched_fit p w codes = true -> (length tailz < 8)%nat -> (2 * length codes <= fuel)%nat ->
  unpack fuel p w used (pack p w used codes ++ tailz) = codes.
Proof.
  intros p Hp. induction codes as [|code t IH]; intros w used tailz fuel Hw Hs Ht Hf.
  - cbn [pack app]. apply unpack_short; [destruct Hw as (Hn & _); lia | lia].
  - cbn [sched_fit] in Hs. rewrite pack_cons. cbn [length] in Hf.
    destruct (w_maxcode w <? w_free w) eqn:Hc.
    + destruct fuel as [|[|f]]; [lia|lia|].
      destruct (wf_bump p w Hw Hc) as [Hw1 Hc1].
      apply andb_prop in Hs as [Hs Hs3]. apply andb_prop in Hs as [Hs1 Hs2].
      apply Z.leb_le in Hs1. apply Z.ltb_lt in Hs2.
      rewrite unpack_S, Hc.
      rewrite <- app_assoc. rewrite (skipn_exact (repeat false _) _ _ (repeat_length _ _)).
      assert (Hn1 : 0 <= w_nbits (w_bump p w)) by (destruct Hw1 as (Hn & _); lia).
      rewrite (unpack_body p (w_bump p w) 0 code t tailz f Hc1 Hn1 (conj Hs1 Hs2)).
      f_equal. apply IH; [apply wf_after; [lia | exact Hw1 | exact Hc1] | exact Hs3 | exact Ht | lia].
    + destruct fuel as [|f]; [lia|].
      apply andb_prop in Hs as [Hs Hs3]. apply andb_prop in Hs as [Hs1 Hs2].
      apply Z.leb_le in Hs1. apply Z.ltb_lt in Hs2.
      assert (Hn1 : 0 <= w_nbits w) by (destruct Hw as (Hn & _); lia).
      rewrite (unpack_body p w used code t tailz f Hc Hn1 (conj Hs1 Hs2)).
      f_equal. apply IH; [apply wf_after; [lia | exact Hw | exact Hc] | exact Hs3 | exact Ht | lia].
Qed.

Theorem unpack_pack : forall p codes tailz fuel,
  10 <= z_maxbits p <= 16 -> sched_fit p (w_init p) codes = true ->
  Forall (fun b => b = false) tailz -> (length tailz < 8)%nat -> (2 * length codes + 2 <= fuel)%nat ->
  unpack fuel p (w_init p) 0 (pack p (w_init p) 0 codes ++ tailz) = codes.
Proof.
  intros p codes tailz fuel Hp Hs _ Ht Hf.
  apply unpack_pack_gen; [exact Hp | apply wf_init; lia | exact Hs | exact Ht | lia].
Qed.

(* ---------------------------------------------------------------- B4 --------------------------------------------------- *)
(* every code emits at least one bit *)
Lemma pack_length : forall p codes w used, 1 <= w_nbits w -> (length codes <= length (pack p w used codes))%nat.
Proof.
  intros p. induction codes as [|code t IH]; intros w used Hn; [cbn [length]; lia|].
  rewrite pack_cons.
  assert (Hb : forall w1 used1, 1 <= w_nbits w1 -> (S (length t) <= length (pack_body p w1 used1 code t))%nat).
  { intros w1 used1 Hn1. unfold pack_body. rewrite app_length, bits_of_z_length.
    pose proof (nb_after p w1 code Hn1) as Hn2.
    destruct (is_clear p w1 code).
    - rewrite app_length. pose proof (IH (w_after p w1 code) 0 Hn2). lia.
    - pose proof (IH (w_after p w1 code) (used1 + w_nbits w1) Hn2). lia. }
  cbn [length]. destruct (w_maxcode w <? w_free w).
  - rewrite app_length. assert (Hn1 : 1 <= w_nbits (w_bump p w)) by (unfold w_bump; cbn [w_nbits]; lia).
    pose proof (Hb (w_bump p w) 0 Hn1). lia.
  - apply Hb. exact Hn.
Qed.

Corollary unpack_of_compress_payload : forall p codes, 10 <= z_maxbits p <= 16 -> sched_fit p (w_init p) codes = true ->
  let bits := pack p (w_init p) 0 codes in
  let payload := bytes_of_bits (S (length bits)) bits in
  unpack (2 * length (bits_of_bytes payload) + 2) p (w_init p) 0 (bits_of_bytes payload) = codes.
Proof.
  intros p codes Hp Hs bits payload.
  destruct (bytes_roundtrip bits) as (k & Hk & E). unfold payload. rewrite E.
  assert (Hlen : (length codes <= length bits)%nat) by (unfold bits; apply pack_length; unfold w_init; cbn [w_nbits]; lia).
  unfold bits in *. apply unpack_pack.
  - exact Hp.
  - exact Hs.
  - apply Forall_forall. intros x Hx. apply repeat_spec in Hx. exact Hx.
  - rewrite repeat_length. exact Hk.
  - rewrite app_length. lia.
Qed.

Print Assumptions z_of_bits_of_z.
Print Assumptions bits_of_z_length.
Print Assumptions bytes_roundtrip.
Print Assumptions unpack_pack.
Print Assumptions unpack_of_compress_payload.
