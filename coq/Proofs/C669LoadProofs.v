(* C03: the Composer 669 loader model (Model/C669Load.v) establishes the loader post-condition of the gate theorem
   (Model/Gate.v, Proofs/GateProofs.v) for every byte string it accepts, complete or truncated. *)
From Coq Require Import ZArith List Lia Bool.
Import ListNotations.
From LX Require Import Base.ListAux Generated.Consts Model.ModCodec Model.SampleLoad Proofs.SampleLoadProofs Model.ModuleWf Model.Gate Proofs.GateProofs Model.ModLoad Proofs.ModLoadProofs Model.C669Load.
Local Open Scope Z_scope.
Ltac Zify.zify_post_hook ::= Z.div_mod_to_equations.

(* ---------- reading primitives ---------- *)
Lemma rd8_byte file pos : Forall (fun b => 0 <= b <= 255) file -> 0 <= fst (rd8 file pos) <= 255.
Proof.
  intros Hb. unfold rd8. destruct (zget file pos) as [v|] eqn:E; cbn [fst]; [|lia].
  rewrite Forall_forall in Hb. apply Hb. exact (zget_in _ _ _ E).
Qed.

Lemma Forall_skipn {A} (P : A -> Prop) n : forall l, Forall P l -> Forall P (skipn n l).
Proof.
  induction n as [|n IH]; intros l H; [exact H|]. destruct l as [|x l]; [exact H|].
  cbn [skipn]. apply IH. inversion H; assumption.
Qed.

Lemma Forall_firstn {A} (P : A -> Prop) n : forall l, Forall P l -> Forall P (firstn n l).
Proof.
  induction n as [|n IH]; intros l H; [constructor|]. destruct l as [|x l]; [constructor|].
  cbn [firstn]. inversion H; subst. constructor; [assumption|]. apply IH. assumption.
Qed.

Lemma rdn_bytes file pos n : Forall (fun b => 0 <= b <= 255) file -> Forall (fun b => 0 <= b <= 255) (fst (rdn file pos n)).
Proof.
  intros Hb. unfold rdn. cbn [fst]. apply Forall_firstn. apply Forall_skipn. exact Hb.
Qed.

(* ---------- number of orders ---------- *)
Lemma order_len_range nop : forall l acc, acc <= order_len l nop acc <= acc + zlen l.
Proof.
  induction l as [|o t IH]; intros acc; cbn [order_len]; unfold zlen; cbn [length].
  - lia.
  - destruct (nop <? o); [lia|]. specialize (IH (acc + 1)). unfold zlen in IH. lia.
Qed.

(* ---------- instruments ---------- *)
Lemma read_ins_length : forall n file pos ins p, read_ins n file pos = Some (ins, p) -> length ins = n.
Proof.
  induction n as [|n IH]; intros file pos ins p E; cbn [read_ins] in E.
  - injection E as <- _. reflexivity.
  - destruct (rdn file pos 13) as [x0 p1].
    destruct (rd32l file p1) as [len p2].
    destruct (rd32l file p2) as [lps p3].
    destruct (rd32l file p3) as [lpe p4].
    destruct (C_MAX_SAMPLE_SIZE <? len); [discriminate|].
    destruct (read_ins n file p4) as [[r q]|] eqn:E1; [|discriminate].
    injection E as <- _. cbn [length]. rewrite (IH _ _ _ _ E1). reflexivity.
Qed.

(* ---------- samples ---------- *)
Lemma load_smps669_post : forall ins file pos r,
  load_smps669 ins file pos = Some r -> length r = length ins /\ forallb smp_postb r = true.
Proof.
  induction ins as [|i t IH]; intros file pos r E; cbn [load_smps669] in E.
  - injection E as <-. split; reflexivity.
  - cbv zeta in E. set (s0 := smp_of i) in E.
    destruct (q_len i <=? 2).
    { destruct (load_smps669 t file pos) as [r1|] eqn:E1; [|discriminate]. injection E as <-.
      destruct (IH _ _ _ E1) as [L F]. split; [cbn [length]; rewrite L; reflexivity|].
      cbn [forallb]. rewrite smp_postb_nodata, F. reflexivity. }
    match type of E with match ?ls with _ => _ end = _ => destruct ls as [s' p'|s' blk p'|] eqn:EL end; [| |discriminate].
    + destruct (load_smps669 t file p') as [r1|] eqn:E1; [|discriminate]. injection E as <-.
      destruct (IH _ _ _ E1) as [L F]. split; [cbn [length]; rewrite L; reflexivity|].
      cbn [forallb]. rewrite smp_postb_nodata, F. reflexivity.
    + destruct (load_smps669 t file p') as [r1|] eqn:E1; [|discriminate]. injection E as <-.
      destruct (IH _ _ _ E1) as [L F]. split; [cbn [length]; rewrite L; reflexivity|].
      cbn [forallb]. rewrite (smp_postb_loaded _ _ _ _ _ _ _ _ _ EL), F. reflexivity.
Qed.

Lemma chans669_len : zlen chans669 = 64.
Proof. unfold zlen, chans669. rewrite map_length, seq_length. reflexivity. Qed.

Theorem c669_loader_establishes_post : forall file r,
  Forall (fun b => 0 <= b <= 255) file -> c669_raw file = Some r -> loader_postb r = true.
Proof.
  intros file r Hb H. unfold c669_raw in H.
  destruct (negb (c669_test file)); [discriminate|].
  destruct (rd8 file 110) as [nos p1] eqn:E1.
  destruct (rd8 file p1) as [nop p2] eqn:E2.
  destruct (Z.ltb_spec 64 nos) as [|Hnos]; [discriminate|].
  destruct (Z.ltb_spec 128 nop) as [|Hnop]; [discriminate|].
  cbn [orb] in H.
  destruct (rd8 file p2) as [x3 p3] eqn:E3.
  destruct (rdn file p3 128) as [order p4] eqn:E4.
  destruct (Z.eqb_spec (zlen order) 128) as [Lord|]; [|discriminate]. cbn [negb] in H.
  destruct (rdn file p4 128) as [speed p5] eqn:E5.
  destruct (zlen speed =? 128); [|discriminate]. cbn [negb] in H.
  destruct (rdn file p5 128) as [pbrk p6] eqn:E6.
  destruct (zlen pbrk =? 128); [|discriminate]. cbn [negb] in H.
  cbv zeta in H.
  destruct (read_ins (Z.to_nat nos) file p6) as [[ins p7]|] eqn:EI; [|discriminate].
  destruct (read_pats (firstn (Z.to_nat nop) pbrk) file p7) as [p8|]; [|discriminate].
  destruct (load_smps669 ins file p8) as [smps|] eqn:ES; [|discriminate].
  set (trk := 8 * nop) in H. assert (Etrk : trk = 8 * nop) by reflexivity. clearbody trk.
  injection H as <-.
  (* what is known about the header fields *)
  pose proof (rd8_byte file 110 Hb) as Bnos. rewrite E1 in Bnos. cbn [fst] in Bnos.
  pose proof (rd8_byte file p1 Hb) as Bnop. rewrite E2 in Bnop. cbn [fst] in Bnop.
  pose proof (rdn_bytes file p3 128 Hb) as Ford. rewrite E4 in Ford. cbn [fst] in Ford.
  pose proof (read_ins_length _ _ _ _ _ EI) as Lins.
  destruct (load_smps669_post _ _ _ _ ES) as [Lsmps Fsmps].
  pose proof (order_len_range nop order 0) as Hlen. rewrite Lord in Hlen.
  set (len := order_len order nop 0) in *. clearbody len.
  unfold loader_postb.
  cbn [r_m d_chn d_len d_pat d_trk d_ins d_smp d_rst d_name_ok d_type_ok d_xxo d_chans d_pats d_trks d_inss d_smps].
  (* the clauses, last to first *)
  apply andb_true_intro; split; [|reflexivity].                      (* d_type_ok *)
  apply andb_true_intro; split; [|reflexivity].                      (* d_name_ok *)
  apply andb_true_intro; split; [|exact Fsmps].                      (* samples *)
  apply andb_true_intro; split.
  2:{ (* instruments *)
      rewrite forallb_map. apply forallb_forall. intros i _. destruct (0 <? q_len i); reflexivity. }
  apply andb_true_intro; split.
  2:{ (* tracks *)
      apply forallb_forall. intros x Hx. apply repeat_spec in Hx. subst x. reflexivity. }
  apply andb_true_intro; split.
  2:{ (* patterns *)
      rewrite forallb_map. apply forallb_forall. intros p _. cbv beta iota. cbn [p_rows p_index]. reflexivity. }
  apply andb_true_intro; split.
  2:{ (* channel table *)
      rewrite chans669_len. reflexivity. }
  apply andb_true_intro; split.
  2:{ unfold zlen. rewrite Lsmps, Lins. apply Z.eqb_eq. lia. }
  apply andb_true_intro; split.
  2:{ unfold zlen. rewrite map_length, Lins. apply Z.eqb_eq. lia. }
  apply andb_true_intro; split.
  2:{ unfold zlen. rewrite repeat_length. apply Z.eqb_eq. lia. }
  apply andb_true_intro; split.
  2:{ unfold zlen. rewrite map_length, seq_length. apply Z.eqb_eq. lia. }
  apply andb_true_intro; split.
  2:{ (* the order list has the declared length *)
      apply Z.eqb_eq. apply firstn_zlen; lia. }
  apply andb_true_intro; split.
  2:{ (* the order list holds bytes *)
      apply forallb_firstn. apply Forall_byte_forallb. exact Ford. }
  apply andb_true_intro; split; [|apply Z.leb_le; lia].              (* d_smp <= 1024 *)
  apply andb_true_intro; split; [|apply Z.leb_le; lia].              (* d_ins <= 255 *)
  apply andb_true_intro; split; [|apply Z.leb_le; lia].              (* d_pat <= 257 *)
  apply andb_true_intro; split; [|reflexivity].                      (* 0 <= d_rst *)
  apply andb_true_intro; split; [|apply Z.leb_le; lia].              (* 0 <= d_trk *)
  apply andb_true_intro; split; [|apply Z.leb_le; lia].              (* 0 <= d_smp *)
  apply andb_true_intro; split; [|apply Z.leb_le; lia].              (* 0 <= d_ins *)
  apply andb_true_intro; split; [|apply Z.leb_le; lia].              (* 0 <= d_pat *)
  apply andb_true_intro; split; [|apply Z.leb_le; lia].              (* 0 <= d_len *)
  reflexivity.
Qed.

Corollary c669_loaded_module_is_wf : forall file r m,
  Forall (fun b => 0 <= b <= 255) file -> c669_raw file = Some r -> finish r = Some m -> wf_noseq m = true.
Proof.
  intros file r m Hb Hr Hf. apply (gate_wf r m Hf). apply (c669_loader_establishes_post file r Hb Hr).
Qed.

Print Assumptions c669_loader_establishes_post.
Print Assumptions c669_loaded_module_is_wf.
