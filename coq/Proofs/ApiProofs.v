From Coq Require Import ZArith List Lia Bool.
Import ListNotations.
From LX Require Import Base.ListAux Generated.Consts Model.Api.
Local Open Scope Z_scope.

(* well-formed context: the two per-channel tables have XMP_MAX_CHANNELS entries; state is one of the three *)
Definition ctx_wf (c : ctx) : Prop :=
  length (mute c) = 64%nat /\ length (cvol c) = 64%nat /\ (state c = UNLOADED \/ state c = LOADED \/ state c = PLAYING).

(* oracle outcomes are error codes / success as the implementation can return them *)
Definition call_wf (k : call) : Prop :=
  match k with
  | CLoad (LEarly code) | CLoad (LLate code) => code < 0
  | CStart _ _ e => e <= 0
  | CSmixLoad _ o => o <= 0
  | _ => True
  end.

Lemma start_mutes_length mm old i chn n : length (start_mutes mm old i chn n) = n.
Proof. revert i; induction n as [|n IH]; intros i; cbn [start_mutes length]; [reflexivity|]. rewrite IH. reflexivity. Qed.

Lemma init_wf : ctx_wf init.
Proof. unfold ctx_wf, init; cbn. repeat split; auto. Qed.

Ltac splitif :=
  repeat match goal with
  | |- context [if ?b then _ else _] => let E := fresh "E" in destruct b eqn:E
  end.

Lemma end_player_wf c : ctx_wf c -> ctx_wf (end_player c).
Proof.
  intros (A & B & S). unfold end_player. destruct (state c <? PLAYING); [repeat split; auto|].
  unfold ctx_wf, set_state; cbn [mute cvol state]. repeat split; auto.
Qed.
Lemma release_wf c : ctx_wf c -> ctx_wf (release c).
Proof. intros H. apply end_player_wf in H. destruct H as (A & B & S). unfold release, ctx_wf, set_state; cbn [mute cvol state]. repeat split; auto. Qed.

Lemma upd_len {A} (l : list A) n x : length (upd l n x) = length l.
Proof. apply upd_length. Qed.

Ltac solve_wf H :=
  cbn [fst];
  first [ exact H | apply release_wf; exact H | apply end_player_wf; exact H
        | (pose proof (release_wf _ H) as (? & ? & ?); pose proof (end_player_wf _ H) as (? & ? & ?); destruct H as (? & ? & ?);
           unfold ctx_wf; cbn [mute cvol state]; unfold lset; rewrite ?upd_len, ?start_mutes_length, ?repeat_length; repeat split; auto) ].

Lemma step_wf c k : ctx_wf c -> ctx_wf (fst (step c k)).
Proof.
  intros H.
  destruct k as [o|?|?|?|?|?|?|?|?|?|?|?|?|?|?|?|?|?|?|?|?|?|?|?|?|?|?|?|?|?]; cbn [step]; try destruct o; splitif;
    repeat match goal with |- context [match lget ?l ?i with _ => _ end] => destruct (lget l i) end;
    solve_wf H.
Qed.

(* ---------- the model meets the documented contract; no call indexes outside its table ---------- *)
Ltac b2p :=
  repeat match goal with
  | H : (_ || _) = true |- _ => apply orb_prop in H; destruct H
  | H : (_ || _) = false |- _ => apply orb_false_elim in H; destruct H
  | H : (_ && _) = true |- _ => apply andb_prop in H; destruct H
  | H : (_ && _) = false |- _ => apply andb_false_iff in H; destruct H
  | H : negb _ = true |- _ => apply negb_true_iff in H
  | H : negb _ = false |- _ => apply negb_false_iff in H
  | H : (_ <? _) = true |- _ => apply Z.ltb_lt in H
  | H : (_ <? _) = false |- _ => apply Z.ltb_ge in H
  | H : (_ <=? _) = true |- _ => apply Z.leb_le in H
  | H : (_ <=? _) = false |- _ => apply Z.leb_gt in H
  | H : (_ =? _) = true |- _ => apply Z.eqb_eq in H
  | H : (_ =? _) = false |- _ => apply Z.eqb_neq in H
  | H : true = false |- _ => discriminate H
  | H : false = true |- _ => discriminate H
  end.

Ltac consts := unfold E_STATE, E_INVALID, E_INTERNAL, E_SYSTEM, UNLOADED, LOADED, PLAYING, MAXCH,
  P_AMP, P_MIX, P_INTERP, P_DSP, P_FLAGS, P_CFLAGS, P_SMPCTL, P_VOLUME, P_STATE, P_SMIX_VOLUME, P_DEFPAN, P_MODE, P_MIXER_TYPE, P_VOICES,
  C_XMP_ERROR_STATE, C_XMP_ERROR_INVALID, C_XMP_ERROR_INTERNAL, C_XMP_ERROR_SYSTEM, C_XMP_STATE_UNLOADED, C_XMP_STATE_LOADED, C_XMP_STATE_PLAYING,
  C_XMP_MAX_CHANNELS, C_XMP_MIN_SRATE, C_XMP_MAX_SRATE in *.

Ltac finish := b2p; consts; first [reflexivity | lia | (exfalso; lia)].

Lemma lget_in_range l i : length l = 64%nat -> 0 <= i -> i < 64 -> exists v, lget l i = Some v.
Proof. intros L A B. unfold lget. apply zget_some. unfold zlen. lia. Qed.

