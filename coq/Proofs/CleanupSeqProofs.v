(* C04 over call histories: the per-call atomicity of CleanupProofs lifted, by induction over the list of calls, to every
   sequence of entry-point calls with any fault in any of them (every reachable context state). *)
From Coq Require Import ZArith List Bool Lia.
Import ListNotations.
From LX Require Import Model.Cleanup Proofs.CleanupProofs.
Local Open Scope Z_scope.

Definition call := (entry * faults)%type.
Definition run_call (w : world) (c : call) : world := snd (run (fst c) (snd c) w).
Definition run_seq (w : world) (cs : list call) : world := fold_left run_call cs w.

(* how often the caller's close callback is due for one call: once per callback stream the library accepted *)
Definition cb_due (c : call) : Z :=
  match fst c with LoadCb | TestCb => if f_open (snd c) then 0 else 1 | _ => 0 end.
Definition cb_total (cs : list call) : Z := fold_right Z.add 0 (map cb_due cs).

Definition no_faults : faults :=
  {| f_empty := false; f_open := false; f_depack := false; f_names := false; f_format := false; f_loader := false;
     f_prepare := false; f_scan := false; f_player := false |}.

Ltac split_ifs := repeat match goal with |- context [if ?b then _ else _] => destruct b end.

Lemma run_keeps_consistent e f w : consistent w = true ->
  consistent (snd (run e f w)) = true /\ caller_file_open (snd (run e f w)) = caller_file_open w.
Proof.
  destruct w as [s m p h t fo c]. unfold consistent. cbn [st mod_live player_live handles temps cb_closes caller_file_open].
  intros H. apply andb_prop in H as [H Ht]. apply andb_prop in H as [H Hh]. apply Z.eqb_eq in Ht, Hh. subst h t.
  destruct f as [fz fa fb fc fd fe fy fg fh].
  destruct s, m, p; cbn in H; try discriminate; clear H;
    destruct e; unfold run, load_core, unpacks, is_load, close_handle, release, upd;
    cbn [st mod_live player_live handles temps cb_closes caller_file_open f_empty f_open f_depack f_names f_format f_loader f_prepare f_scan f_player andb];
    split_ifs; cbn; split; reflexivity.
Qed.

Lemma run_cb_count e f w : cb_closes (snd (run e f w)) = cb_closes w + cb_due (e, f).
Proof.
  destruct w as [s m p h t fo c]. destruct f as [fz fa fb fc fd fe fy fg fh]. unfold cb_due. cbn [fst snd f_open].
  destruct e; unfold run, load_core, unpacks, is_load, close_handle, release, upd;
    cbn [st mod_live player_live handles temps cb_closes caller_file_open f_empty f_open f_depack f_names f_format f_loader f_prepare f_scan f_player andb];
    destruct s; split_ifs; cbn [snd cb_closes st mod_live player_live handles temps caller_file_open]; lia.
Qed.

(* every reachable context: consistent, no stream, no temporary file, the caller's FILE untouched, and the close callback
   invoked exactly once per accepted callback stream *)
Theorem history_inv : forall cs w, consistent w = true ->
  consistent (run_seq w cs) = true /\ caller_file_open (run_seq w cs) = caller_file_open w /\
  cb_closes (run_seq w cs) = cb_closes w + cb_total cs.
Proof.
  induction cs as [|c cs IH]; intros w Hw.
  - cbn. repeat split; [exact Hw|lia].
  - destruct c as [e f]. destruct (run_keeps_consistent e f w Hw) as [Hc Hfo].
    change (run_seq w ((e, f) :: cs)) with (run_seq (snd (run e f w)) cs).
    change (cb_total ((e, f) :: cs)) with (cb_due (e, f) + cb_total cs).
    destruct (IH (snd (run e f w)) Hc) as (I1 & I2 & I3).
    split; [exact I1|]. split; [rewrite I2; exact Hfo|].
    rewrite I3, run_cb_count. lia.
Qed.

Lemma consistent_handles w : consistent w = true -> handles w = 0 /\ temps w = 0.
Proof.
  unfold consistent. intros H. apply andb_prop in H as [H Ht]. apply andb_prop in H as [_ Hh]. apply Z.eqb_eq in Ht, Hh. auto.
Qed.

(* the context is reusable: in a consistent context a fault-free load succeeds and leaves it loaded, and a fault-free start
   after that leaves it playing, whatever failed before *)
Lemma reusable_step w e : consistent w = true -> is_load e = true ->
  fst (run e no_faults w) = 0 /\ st (snd (run e no_faults w)) = Loaded /\
  fst (run Start no_faults (snd (run e no_faults w))) = 0 /\ st (snd (run Start no_faults (snd (run e no_faults w)))) = Playing.
Proof.
  destruct w as [s m p h t fo c]. intros H He. destruct (consistent_handles _ H) as [Hh Ht]. cbn [handles temps] in Hh, Ht. subst h t.
  unfold consistent in H. cbn [st mod_live player_live handles temps] in H.
  destruct s, m, p; cbn in H; try discriminate; destruct e; try discriminate He; cbn; repeat split; reflexivity.
Qed.

Theorem history_reusable : forall cs w e, consistent w = true -> is_load e = true ->
  let w' := run_seq w cs in
  fst (run e no_faults w') = 0 /\ st (snd (run e no_faults w')) = Loaded /\
  fst (run Start no_faults (snd (run e no_faults w'))) = 0 /\ st (snd (run Start no_faults (snd (run e no_faults w')))) = Playing.
Proof. intros cs w e Hw He. apply reusable_step; [exact (proj1 (history_inv cs w Hw))|exact He]. Qed.

(* a failed call (negative return) in a consistent context: a test or a failed open changes nothing but the callback count *)
Lemma failed_test_keeps_state e f w : consistent w = true -> is_load e = false -> e <> Start ->
  st (snd (run e f w)) = st w /\ mod_live (snd (run e f w)) = mod_live w /\ player_live (snd (run e f w)) = player_live w.
Proof.
  destruct w as [s m p h t fo c]. destruct f as [fz fa fb fc fd fe fy fg fh]. intros _ He Hs.
  destruct e; try discriminate He; try (exfalso; apply Hs; reflexivity);
    unfold run, unpacks, is_load, close_handle, upd;
    cbn [st mod_live player_live handles temps cb_closes caller_file_open f_empty f_open f_depack f_names f_format f_loader f_prepare f_scan f_player andb];
    split_ifs; cbn; repeat split; reflexivity.
Qed.
