(* C08: the PP20 writer of Model/PP20.v is inverted by the transcribed unpacker (pp_unpack), and the tokenizer produces
   well-formed steps that expand to the data. *)
From Coq Require Import ZArith List Lia Bool.
Import ListNotations.
From LX Require Import Base.ListAux Model.PP20.
Local Open Scope Z_scope.
Ltac Zify.zify_post_hook ::= Z.div_mod_to_equations.

Ltac split_okb H :=
  repeat match type of H with (_ && _) = true => let H2 := fresh "K" in apply andb_prop in H; destruct H as [H H2] end.

Lemma frev_rev : forall A (l : list A), frev l = rev l.
Proof. intros A l. unfold frev. rewrite rev_append_rev. apply app_nil_r. Qed.

(* ---------------------------------------------------------------- 1. bits ---------------------------------------------- *)
Lemma bits_of_z_length k : forall v, length (bits_of_z k v) = k.
Proof. induction k as [|k IH]; intros v; cbn [bits_of_z length]; [reflexivity|]. rewrite IH. reflexivity. Qed.

Lemma msb_length n v : length (msb n v) = Z.to_nat n.
Proof. unfold msb. rewrite rev_length. apply bits_of_z_length. Qed.

Lemma take_msb_app : forall l acc r,
  take_msb (length l) acc (l ++ r) = Some (fold_left (fun a (x : bool) => 2 * a + (if x then 1 else 0)) l acc, r).
Proof. induction l as [|x l IH]; intros acc r; [reflexivity|]. cbn [length app take_msb fold_left]. apply IH. Qed.

Lemma msb_val : forall k v acc, 0 <= v < 2 ^ Z.of_nat k ->
  fold_left (fun a (x : bool) => 2 * a + (if x then 1 else 0)) (rev (bits_of_z k v)) acc = acc * 2 ^ Z.of_nat k + v.
Proof.
  induction k as [|k IH]; intros v acc H.
  - change (Z.of_nat 0) with 0 in *. rewrite Z.pow_0_r in *. cbn [bits_of_z rev fold_left]. lia.
  - rewrite Nat2Z.inj_succ, Z.pow_succ_r in * by lia. cbn [bits_of_z rev]. rewrite fold_left_app. cbn [fold_left].
    rewrite IH by lia. rewrite <- Zmod_odd. set (p := 2 ^ Z.of_nat k) in *. lia.
Qed.

Lemma rdbits_msb n v r : 0 <= n -> 0 <= v < 2 ^ n -> rdbits n (msb n v ++ r) = Some (v, r).
Proof.
  intros Hn Hv. unfold rdbits, msb. set (k := Z.to_nat n).
  pose proof (take_msb_app (rev (bits_of_z k v)) 0 r) as T. rewrite rev_length, bits_of_z_length in T. rewrite T.
  rewrite msb_val; [f_equal; f_equal; lia|]. unfold k. rewrite Z2Nat.id by lia. exact Hv.
Qed.

Lemma rdbits_pad k r : rdbits (Z.of_nat k) (repeat false k ++ r) = Some (0, r).
Proof.
  unfold rdbits. rewrite Nat2Z.id. induction k as [|k IH]; [reflexivity|]. cbn [repeat app take_msb]. exact IH.
Qed.

Lemma rdbits1 (x : bool) r : rdbits 1 (x :: r) = Some ((if x then 1 else 0), r).
Proof. destruct x; reflexivity. Qed.

(* ---------------------------------------------------------------- 2. counts -------------------------------------------- *)
Lemma rd_count_enc w : 1 <= w -> forall fuel' fuel v base r, 0 <= v < Z.of_nat fuel' -> (length (enc_count fuel' w v) <= fuel)%nat ->
  rd_count fuel w base (enc_count fuel' w v ++ r) = Some (base + v, r).
Proof.
  intros Hw. assert (Hp : 2 <= 2 ^ w). { change 2 with (2 ^ 1) at 1. apply Z.pow_le_mono_r; lia. }
  induction fuel' as [|f' IH]; intros fuel v base r Hv Hl; [lia|].
  cbn [enc_count] in *. destruct (Z.leb_spec (2 ^ w - 1) v) as [Hc|Hc].
  - rewrite app_length, msb_length in Hl. destruct fuel as [|f]; [lia|]. cbn [rd_count]. rewrite <- app_assoc.
    rewrite rdbits_msb by lia. rewrite Z.eqb_refl. rewrite IH; [f_equal; f_equal; lia|lia|lia].
  - rewrite msb_length in Hl. destruct fuel as [|f]; [lia|]. cbn [rd_count]. rewrite rdbits_msb by lia.
    destruct (Z.eqb_spec v (2 ^ w - 1)) as [E|E]; [lia|]. reflexivity.
Qed.

(* ---------------------------------------------------------------- 3. bytes and the file layout ------------------------- *)
Lemma bits_z_bits : forall l, bits_of_z (length l) (z_of_bits l) = l.
Proof.
  induction l as [|b l IH]; [reflexivity|]. cbn [length bits_of_z z_of_bits]. f_equal.
  - rewrite Z.odd_add_mul_2. destruct b; reflexivity.
  - replace (((if b then 1 else 0) + 2 * z_of_bits l) / 2) with (z_of_bits l) by (destruct b; lia). exact IH.
Qed.

Lemma bytes_of_bits_spec : forall m l fuel, length l = (8 * m)%nat -> (m < fuel)%nat ->
  concat (map (bits_of_z 8) (bytes_of_bits fuel l)) = l /\ length (bytes_of_bits fuel l) = m.
Proof.
  induction m as [|m IH]; intros l fuel Hl Hf.
  - destruct l; [|discriminate]. destruct fuel; [lia|]. split; reflexivity.
  - destruct fuel as [|f]; [lia|]. destruct l as [|x l']; [discriminate|]. set (L := x :: l') in *.
    change (bytes_of_bits (S f) L) with (z_of_bits (firstn 8 L) :: bytes_of_bits f (skipn 8 L)).
    cbn [map concat length].
    destruct (IH (skipn 8 L) f) as [I1 I2]; [rewrite skipn_length; lia|lia|]. rewrite I1, I2. split; [|reflexivity].
    pose proof (bits_z_bits (firstn 8 L)) as B. rewrite firstn_length_le in B by lia. rewrite B. apply firstn_skipn.
Qed.

Lemma be24_trailer n s : 0 <= n < 2 ^ 24 -> be24 [n / 65536; (n / 256) mod 256; n mod 256; s] = n.
Proof. intros H. unfold be24. cbn [nth]. change (2 ^ 24) with 16777216 in H. lia. Qed.

Lemma pp_unpack_file e0 e1 e2 e3 cr n skip m :
  length cr = (4 * S m)%nat -> forallb (fun e => (9 <=? e) && (e <=? 15)) [e0; e1; e2; e3] = true ->
  0 < n < 2 ^ 24 -> 0 <= skip <= 32 ->
  pp_unpack (magic ++ [e0; e1; e2; e3] ++ cr ++ [n / 65536; (n / 256) mod 256; n mod 256; skip]) =
  match rdbits skip (read_order (e3 :: cr)) with
  | None => None
  | Some (_, b) => pp_loop (length b + 1) [e0; e1; e2; e3] b [] n
  end.
Proof.
  intros Hcr Heff Hn Hs. set (tr := [n / 65536; (n / 256) mod 256; n mod 256; skip]).
  set (file := magic ++ [e0; e1; e2; e3] ++ cr ++ tr).
  assert (Hfile : file = 80 :: 80 :: 50 :: 48 :: e0 :: e1 :: e2 :: e3 :: cr ++ tr) by reflexivity.
  assert (Hlen : length file = (16 + 4 * m)%nat).
  { rewrite Hfile. cbn [length]. rewrite app_length, Hcr. unfold tr. cbn [length]. lia. }
  assert (E1 : (16 + 4 * m <? 16)%nat = false) by (destruct (Nat.ltb_spec (16 + 4 * m) 16); [lia|reflexivity]).
  assert (E2 : Nat.eqb ((16 + 4 * m) mod 4) 0 = true).
  { replace (16 + 4 * m)%nat with ((4 + m) * 4)%nat by lia. rewrite Nat.mod_mul by lia. reflexivity. }
  assert (E3 : firstn 4 file = magic) by (rewrite Hfile; reflexivity).
  assert (E4 : firstn 4 (skipn 4 file) = [e0; e1; e2; e3]) by (rewrite Hfile; reflexivity).
  assert (E5 : skipn (16 + 4 * m - 4) file = tr).
  { rewrite Hfile. replace (16 + 4 * m - 4)%nat with (S (S (S (S (S (S (S (S (length cr)))))))))%nat by lia. cbn [skipn].
    rewrite skipn_app, skipn_all, Nat.sub_diag. reflexivity. }
  assert (E6 : firstn (16 + 4 * m - 11) (skipn 7 file) = e3 :: cr).
  { rewrite Hfile. cbn [skipn]. replace (16 + 4 * m - 11)%nat with (S (length cr)) by lia. cbn [firstn]. f_equal.
    rewrite firstn_app, firstn_all, Nat.sub_diag. cbn [firstn]. apply app_nil_r. }
  unfold pp_unpack. cbv zeta. rewrite Hlen, E1, E2, E3, E4, E5, E6. cbn [orb negb].
  change (list_eqb magic magic) with true. rewrite Heff. cbn [negb].
  unfold tr. rewrite !be24_trailer by lia. destruct (Z.eqb_spec n 0) as [Z0|Z0]; [lia|].
  cbn [nth]. destruct (Z.ltb_spec 32 skip) as [S0|S0]; [lia|]. reflexivity.
Qed.

(* ---------------------------------------------------------------- 4. one step of ppDecrunch ---------------------------- *)
Definition lit_phase (fuel : nat) (lit : Z) (b1 : list bool) (out : list Z) (room : Z) : option (list bool * list Z * Z) :=
  if lit =? 0 then
    match rd_count fuel 2 1 b1 with None => None | Some (todo, b2) => literals (Z.to_nat todo) b2 out room end
  else Some (b1, out, room).

Definition match_res (fuel : nat) (eff : list Z) (x : Z) (b4 : list bool) : option (Z * Z * list bool) :=
  if x =? 3 then
    match rdbits 1 b4 with None => None | Some (long, b5) =>
      let offbits := if long =? 0 then 7 else nth 3 eff 0 in
      match rdbits offbits b5 with None => None | Some (offset, b6) =>
        match rd_count fuel 3 5 b6 with None => None | Some (todo, b7) => Some (offset, todo, b7) end end end
  else match rdbits (nth (Z.to_nat x) eff 0) b4 with None => None | Some (offset, b5) => Some (offset, x + 2, b5) end.

Lemma pp_loop_eq f eff b out room : pp_loop (S f) eff b out room =
  if room <=? 0 then Some out else
  match rdbits 1 b with None => None | Some (lit, b1) =>
    match lit_phase (S f) lit b1 out room with
    | None => None
    | Some (b3, out1, room1) =>
      if (lit =? 0) && (room1 =? 0) then Some out1 else
      match rdbits 2 b3 with None => None | Some (x, b4) =>
        match match_res (S f) eff x b4 with
        | None => None
        | Some (offset, todo, b8) =>
          if Z.of_nat (length out1) <=? offset then None
          else match copy (Z.to_nat todo) (Z.to_nat offset) out1 room1 with
               | None => None
               | Some (out2, room2) => pp_loop f eff b8 out2 room2
               end
        end
      end
    end
  end.
Proof. reflexivity. Qed.

Lemma literals_enc : forall lits b out room, forallb (fun x => (0 <=? x) && (x <=? 255)) lits = true -> Z.of_nat (length lits) <= room ->
  literals (length lits) (concat (map (msb 8) lits) ++ b) out room = Some (b, rev_append lits out, room - Z.of_nat (length lits)).
Proof.
  induction lits as [|x l IH]; intros b out room Hb Hr.
  - cbn [length map concat app literals rev_append]. change (Z.of_nat 0) with 0. rewrite Z.sub_0_r. reflexivity.
  - cbn [forallb] in Hb. apply andb_prop in Hb as [Hx Hl]. apply andb_prop in Hx as [Hx0 Hx1].
    apply Z.leb_le in Hx0. apply Z.leb_le in Hx1. cbn [length] in Hr.
    cbn [length map concat literals rev_append]. rewrite <- app_assoc.
    rewrite rdbits_msb by (change (2 ^ 8) with 256; lia). destruct (Z.leb_spec room 0) as [C|C]; [lia|].
    rewrite IH by (assumption || lia). f_equal. f_equal. lia.
Qed.

Lemma copy_copy1 : forall n off out room, Z.of_nat n <= room -> copy n off out room = Some (copy1 n off out, room - Z.of_nat n).
Proof.
  induction n as [|n IH]; intros off out room H.
  - cbn [copy copy1]. change (Z.of_nat 0) with 0. rewrite Z.sub_0_r. reflexivity.
  - cbn [copy copy1]. destruct (Z.leb_spec room 0) as [C|C]; [lia|]. rewrite IH by lia. f_equal. f_equal. lia.
Qed.

Lemma copy1_length : forall n off out, length (copy1 n off out) = (n + length out)%nat.
Proof. induction n as [|n IH]; intros off out; [reflexivity|]. cbn [copy1]. rewrite IH. cbn [length]. lia. Qed.

Lemma rev_append_length (a b : list Z) : length (rev_append a b) = (length a + length b)%nat.
Proof. rewrite rev_append_rev, app_length, rev_length. reflexivity. Qed.

Lemma eff_nth eff : eff_okb eff = true -> forall i, (i < 4)%nat -> 9 <= nth i eff 0 <= 15.
Proof.
  intros H i Hi. unfold eff_okb in H. apply andb_prop in H as [HL HF]. apply Nat.eqb_eq in HL.
  rewrite forallb_forall in HF. assert (HI : In (nth i eff 0) eff) by (apply nth_In; lia).
  apply HF in HI. apply andb_prop in HI as [A B]. apply Z.leb_le in A. apply Z.leb_le in B. lia.
Qed.

Lemma enc_lits_length lits : (1 <= length (enc_lits lits))%nat.
Proof. destruct lits; cbn [enc_lits length]; lia. Qed.

Lemma lits_phase_ok fuel lits r out room : forallb (fun x => (0 <=? x) && (x <=? 255)) lits = true ->
  Z.of_nat (length lits) <= room -> (length (enc_lits lits) <= fuel)%nat ->
  exists lit b1, rdbits 1 (enc_lits lits ++ r) = Some (lit, b1) /\
                 lit_phase fuel lit b1 out room = Some (r, rev_append lits out, room - Z.of_nat (length lits)) /\
                 (lit =? 0) = negb (Nat.eqb (length lits) 0).
Proof.
  intros Hb Hr Hf. destruct lits as [|x l].
  - exists 1, r. split; [reflexivity|]. split; [|reflexivity]. unfold lit_phase. change (1 =? 0) with false. cbv iota.
    cbn [rev_append length]. change (Z.of_nat 0) with 0. rewrite Z.sub_0_r. reflexivity.
  - change (enc_lits (x :: l)) with (false :: enc_count (length (x :: l)) 2 (Z.of_nat (length (x :: l)) - 1) ++ concat (map (msb 8) (x :: l))) in *.
    set (L := x :: l) in *. assert (HL : (1 <= length L)%nat) by (unfold L; cbn [length]; lia).
    cbn [length] in Hf. rewrite app_length in Hf.
    exists 0, (enc_count (length L) 2 (Z.of_nat (length L) - 1) ++ concat (map (msb 8) L) ++ r). split.
    + rewrite <- app_comm_cons, <- app_assoc. apply rdbits1.
    + split.
      * unfold lit_phase. change (0 =? 0) with true. cbv iota. rewrite rd_count_enc by lia.
        replace (Z.to_nat (1 + (Z.of_nat (length L) - 1))) with (length L) by lia. apply literals_enc; assumption.
      * destruct (length L); [lia|reflexivity].
Qed.

Lemma match_enc fuel eff len off r : eff_okb eff = true -> 2 <= len -> 0 <= off -> off_fits eff len off = true ->
  (length (enc_match eff len off) <= fuel)%nat ->
  exists x b4, rdbits 2 (enc_match eff len off ++ r) = Some (x, b4) /\ match_res fuel eff x b4 = Some (off, len, r).
Proof.
  intros He Hlen Hoff Hfit Hf. unfold enc_match, off_fits in *. destruct (Z.ltb_spec len 5) as [C|C].
  - pose proof (eff_nth eff He (Z.to_nat (len - 2)) ltac:(lia)) as Hw. apply Z.ltb_lt in Hfit.
    exists (len - 2), (msb (nth (Z.to_nat (len - 2)) eff 0) off ++ r). split.
    + rewrite <- app_assoc. apply rdbits_msb; [lia|]. change (2 ^ 2) with 4. lia.
    + unfold match_res. destruct (Z.eqb_spec (len - 2) 3) as [E|E]; [lia|]. rewrite rdbits_msb by lia.
      f_equal. f_equal. f_equal. lia.
  - pose proof (eff_nth eff He 3%nat ltac:(lia)) as Hw. rewrite !app_length in Hf.
    destruct (Z.ltb_spec off 128) as [D|D].
    + exists 3, (false :: msb 7 off ++ enc_count (Z.to_nat len) 3 (len - 5) ++ r). split.
      * rewrite <- !app_assoc. cbn [app]. apply rdbits_msb; [lia|]. change (2 ^ 2) with 4. lia.
      * unfold match_res. change (3 =? 3) with true. cbv iota. rewrite rdbits1. cbv beta iota zeta.
        change (0 =? 0) with true. cbv iota. rewrite rdbits_msb by (change (2 ^ 7) with 128; lia).
        rewrite rd_count_enc by lia. f_equal. f_equal. f_equal. lia.
    + cbn [orb] in Hfit. apply Z.ltb_lt in Hfit.
      exists 3, (true :: msb (nth 3 eff 0) off ++ enc_count (Z.to_nat len) 3 (len - 5) ++ r). split.
      * rewrite <- !app_assoc. cbn [app]. apply rdbits_msb; [lia|]. change (2 ^ 2) with 4. lia.
      * unfold match_res. change (3 =? 3) with true. cbv iota. rewrite rdbits1. cbv beta iota zeta.
        change (1 =? 0) with false. cbv iota. rewrite rdbits_msb by lia.
        rewrite rd_count_enc by lia. f_equal. f_equal. f_equal. lia.
Qed.

(* ---------------------------------------------------------------- 5. all steps ----------------------------------------- *)
Fixpoint steps_size (ss : list ppstep) : nat :=
  match ss with
  | [] => O
  | PStep lits len off :: t => (length lits + Z.to_nat len + steps_size t)%nat
  | PFinal lits :: t => (length lits + steps_size t)%nat
  end.

Lemma steps_expand_length : forall ss out, length (steps_expand ss out) = (length out + steps_size ss)%nat.
Proof.
  induction ss as [|[lits len off|lits] t IH]; intros out; cbn [steps_expand steps_size].
  - lia.
  - rewrite IH, copy1_length, rev_append_length. lia.
  - rewrite IH, rev_append_length. lia.
Qed.

Lemma pp_loop_steps eff : eff_okb eff = true -> forall ss fuel out r,
  steps_okb eff ss (Z.of_nat (length out)) = true -> (length (concat (map (enc_step eff) ss) ++ r) < fuel)%nat ->
  pp_loop fuel eff (concat (map (enc_step eff) ss) ++ r) out (Z.of_nat (steps_size ss)) = Some (steps_expand ss out).
Proof.
  intros He. induction ss as [|s t IH]; intros fuel out r Hok Hfuel.
  - destruct fuel as [|f]; [lia|]. reflexivity.
  - destruct fuel as [|f]; [lia|]. rewrite pp_loop_eq.
    cbn [map concat] in *. rewrite <- app_assoc in *. rewrite app_length in Hfuel.
    destruct s as [lits len off|lits].
    + cbn [steps_okb] in Hok. split_okb Hok. apply Z.leb_le in K3. apply Z.leb_le in K2. apply Z.ltb_lt in K1.
      cbn [enc_step steps_size steps_expand] in *. rewrite <- app_assoc in *. rewrite app_length in Hfuel.
      pose proof (enc_lits_length lits) as HL1.
      set (rest := concat (map (enc_step eff) t) ++ r) in *.
      set (room := Z.of_nat (length lits + Z.to_nat len + steps_size t)).
      destruct (Z.leb_spec room 0) as [C|C]; [unfold room in C; lia|].
      destruct (lits_phase_ok (S f) lits (enc_match eff len off ++ rest) out room Hok ltac:(unfold room; lia) ltac:(lia))
        as (lit & b1 & L1 & L2 & L3).
      rewrite L1, L2. destruct (Z.eqb_spec (room - Z.of_nat (length lits)) 0) as [E|E]; [unfold room in E; lia|].
      rewrite andb_false_r.
      destruct (match_enc (S f) eff len off rest He K3 K2 K0 ltac:(lia)) as (x & b4 & M1 & M2). rewrite M1, M2.
      destruct (Z.leb_spec (Z.of_nat (length (rev_append lits out))) off) as [D|D]; [rewrite rev_append_length in D; lia|].
      rewrite copy_copy1 by (unfold room; lia).
      replace (room - Z.of_nat (length lits) - Z.of_nat (Z.to_nat len)) with (Z.of_nat (steps_size t)) by (unfold room; lia).
      apply IH; [|subst rest; lia].
      replace (Z.of_nat (length (copy1 (Z.to_nat len) (Z.to_nat off) (rev_append lits out))))
        with (Z.of_nat (length out) + Z.of_nat (length lits) + len); [exact K|].
      rewrite copy1_length, rev_append_length. lia.
    + cbn [steps_okb] in Hok. split_okb Hok. destruct t as [|s' t']; [|discriminate].
      cbn [enc_step steps_size steps_expand map concat app] in *.
      set (room := Z.of_nat (length lits + 0)).
      apply negb_true_iff in K0.
      assert (HL : (length lits <> 0)%nat) by (apply Nat.eqb_neq; exact K0).
      destruct (Z.leb_spec room 0) as [C|C]; [unfold room in C; lia|].
      destruct (lits_phase_ok (S f) lits r out room K ltac:(unfold room; lia) ltac:(lia)) as (lit & b1 & L1 & L2 & L3).
      rewrite L1, L2, L3, K0. destruct (Z.eqb_spec (room - Z.of_nat (length lits)) 0) as [E|E]; [|unfold room in E; lia].
      reflexivity.
Qed.

(* ---------------------------------------------------------------- the writer is inverted by the unpacker --------------- *)
Lemma rdbits_pad' n r : 0 <= n -> rdbits n (repeat false (Z.to_nat n) ++ r) = Some (0, r).
Proof. intros H. pose proof (rdbits_pad (Z.to_nat n) r) as P. rewrite Z2Nat.id in P by lia. exact P. Qed.

Lemma stream_nonempty eff ss : ss <> [] -> (1 <= length (concat (map (enc_step eff) ss)))%nat.
Proof.
  destruct ss as [|s t]; [congruence|]. intros _. cbn [map concat]. rewrite app_length.
  destruct s as [lits len off|lits]; cbn [enc_step]; rewrite ?app_length; pose proof (enc_lits_length lits); lia.
Qed.

Lemma pad_len (L : nat) : (1 <= L)%nat ->
  exists m, (Z.to_nat ((32 - Z.of_nat L mod 32) mod 32) + L = 8 * (4 * S m))%nat.
Proof.
  intros HL. set (skip := (32 - Z.of_nat L mod 32) mod 32).
  assert (A : 0 <= skip < 32) by (unfold skip; lia).
  assert (B : (skip + Z.of_nat L) mod 32 = 0) by (unfold skip; lia).
  assert (C : 1 <= (skip + Z.of_nat L) / 32) by lia.
  exists (Z.to_nat ((skip + Z.of_nat L) / 32 - 1)). lia.
Qed.

Theorem pp_unpack_pack : forall eff ss, eff_okb eff = true -> steps_okb eff ss 0 = true ->
  steps_expand ss [] <> [] -> Z.of_nat (length (steps_expand ss [])) < 2 ^ 24 ->
  pp_unpack (pp_pack eff ss) = Some (steps_expand ss []).
Proof.
  intros eff ss He Hok Hne Hlt.
  assert (Hss : ss <> []) by (intros ->; apply Hne; reflexivity).
  pose proof (stream_nonempty eff ss Hss) as HS.
  pose proof He as He'. unfold eff_okb in He'. apply andb_prop in He' as [HL HF]. apply Nat.eqb_eq in HL.
  destruct eff as [|e0 [|e1 [|e2 [|e3 [|e4 eff']]]]]; try discriminate HL. clear HL.
  unfold pp_pack. cbv zeta. rewrite frev_rev.
  set (stream := concat (map (enc_step [e0; e1; e2; e3]) ss)) in *.
  set (skip := (32 - Z.of_nat (length stream) mod 32) mod 32).
  set (bits := repeat false (Z.to_nat skip) ++ stream).
  set (n := Z.of_nat (length (steps_expand ss []))) in *.
  assert (Hn0 : 0 < n). { unfold n. destruct (steps_expand ss []); [congruence|]. cbn [length]. lia. }
  assert (Hskip : 0 <= skip < 32) by (unfold skip; lia).
  assert (Hbl : length bits = (Z.to_nat skip + length stream)%nat) by (unfold bits; rewrite app_length, repeat_length; reflexivity).
  assert (Hk : exists m, length bits = (8 * (4 * S m))%nat).
  { rewrite Hbl. exact (pad_len (length stream) HS). }
  destruct Hk as [m Hm].
  destruct (bytes_of_bits_spec (4 * S m) bits (S (length bits)) Hm ltac:(lia)) as [B1 B2].
  rewrite (pp_unpack_file e0 e1 e2 e3 _ n skip m); [|rewrite rev_length; exact B2|exact HF|lia|lia].
  unfold read_order. rewrite frev_rev. cbn [rev]. rewrite rev_involutive, map_app, concat_app, B1. cbn [map concat].
  unfold bits. rewrite <- app_assoc. rewrite rdbits_pad' by lia.
  replace n with (Z.of_nat (steps_size ss)) by (unfold n; rewrite steps_expand_length; cbn [length]; lia).
  apply (pp_loop_steps [e0; e1; e2; e3] He ss _ [] (bits_of_z 8 e3 ++ [])); [exact Hok|unfold stream; lia].
Qed.

(* ---------------------------------------------------------------- 6. the tokenizer ------------------------------------- *)
Local Notation byteb := (fun x : Z => (0 <=? x) && (x <=? 255)).

Lemma forallb_rev (f : Z -> bool) : forall l, forallb f (rev l) = forallb f l.
Proof.
  induction l as [|x l IH]; [reflexivity|]. cbn [rev]. rewrite forallb_app, IH. cbn [forallb]. rewrite andb_true_r. apply andb_comm.
Qed.

Lemma forallb_skipn (f : Z -> bool) n l : forallb f l = true -> forallb f (skipn n l) = true.
Proof. intros H. rewrite <- (firstn_skipn n l), forallb_app in H. apply andb_prop in H as [_ H]. exact H. Qed.

Lemma rev_append_app (a b c : list Z) : rev_append (a ++ b) c = rev_append b (rev_append a c).
Proof. revert c. induction a as [|x a IH]; intros c; [reflexivity|]. cbn [app rev_append]. apply IH. Qed.

Lemma pp_match_len_spec : forall fuel data off out acc, exists k,
  pp_match_len fuel data off out acc = (acc + k)%nat /\ (k <= length data)%nat /\
  copy1 k off out = rev_append (firstn k data) out /\ ((1 <= k)%nat -> (off < length out)%nat).
Proof.
  induction fuel as [|f IH]; intros data off out acc.
  - exists O. cbn [pp_match_len]. repeat split; lia.
  - cbn [pp_match_len]. destruct data as [|x t]; [exists O; repeat split; lia|].
    destruct (nth_error out off) as [y|] eqn:E; [|exists O; repeat split; lia].
    destruct (Z.eqb_spec x y) as [Exy|Exy]; [|exists O; repeat split; lia].
    destruct (IH t off (x :: out) (S acc)) as (k & K1 & K2 & K3 & K4). exists (S k). rewrite K1.
    split; [lia|]. split; [cbn [length]; lia|]. split.
    + cbn [copy1 firstn rev_append]. rewrite (nth_error_nth out off 0 E). subst y. exact K3.
    + intros _. apply nth_error_Some. rewrite E. discriminate.
Qed.

Definition best_f (data out : list Z) : nat * Z -> Z -> nat * Z :=
  fun (bd : nat * Z) d => let n := pp_match_len 300 data (Z.to_nat d) out 0 in if (fst bd <? n)%nat then (n, d) else bd.
Definition pp_best (data out : list Z) : nat * Z := fold_left (best_f data out) pp_cands (O, 0).

Lemma pp_tokenize_cons f x t out lits : pp_tokenize (S f) (x :: t) out lits =
  if (2 <=? fst (pp_best (x :: t) out))%nat then
    PStep (frev lits) (Z.of_nat (fst (pp_best (x :: t) out))) (snd (pp_best (x :: t) out)) ::
      pp_tokenize f (skipn (fst (pp_best (x :: t) out)) (x :: t))
        (copy1 (fst (pp_best (x :: t) out)) (Z.to_nat (snd (pp_best (x :: t) out))) out) []
  else pp_tokenize f t (x :: out) (x :: lits).
Proof. unfold pp_best, best_f. cbn [pp_tokenize]. reflexivity. Qed.

Lemma best_inv data out : forall cands bd,
  (fst bd = O \/ (In (snd bd) pp_cands /\ fst bd = pp_match_len 300 data (Z.to_nat (snd bd)) out 0)) ->
  (forall d, In d cands -> In d pp_cands) ->
  fst (fold_left (best_f data out) cands bd) = O \/
  (In (snd (fold_left (best_f data out) cands bd)) pp_cands /\
   fst (fold_left (best_f data out) cands bd) = pp_match_len 300 data (Z.to_nat (snd (fold_left (best_f data out) cands bd))) out 0).
Proof.
  induction cands as [|c cs IH]; intros bd Hbd Hin; [exact Hbd|]. cbn [fold_left]. apply IH.
  - unfold best_f. cbv zeta. destruct (fst bd <? pp_match_len 300 data (Z.to_nat c) out 0)%nat; [|exact Hbd].
    right. cbn [fst snd]. split; [apply Hin; left; reflexivity|reflexivity].
  - intros d Hd. apply Hin. right. exact Hd.
Qed.

Lemma pp_best_inv data out :
  fst (pp_best data out) = O \/
  (In (snd (pp_best data out)) pp_cands /\ fst (pp_best data out) = pp_match_len 300 data (Z.to_nat (snd (pp_best data out))) out 0).
Proof. unfold pp_best. apply best_inv; [left; reflexivity|intros d H; exact H]. Qed.

Lemma cands_range d : In d pp_cands -> 0 <= d <= 255.
Proof.
  assert (H : forallb byteb pp_cands = true) by reflexivity. rewrite forallb_forall in H. intros Hd. apply H in Hd.
  apply andb_prop in Hd as [A B]. apply Z.leb_le in A. apply Z.leb_le in B. lia.
Qed.

Lemma pow_ge_512 w : 9 <= w -> 512 <= 2 ^ w.
Proof. intros H. change 512 with (2 ^ 9). apply Z.pow_le_mono_r; lia. Qed.

Lemma pp_tokenize_inv eff : eff_okb eff = true -> forall fuel data out0 lits,
  (length data < fuel)%nat -> forallb byteb data = true -> forallb byteb lits = true ->
  steps_okb eff (pp_tokenize fuel data (lits ++ out0) lits) (Z.of_nat (length out0)) = true /\
  steps_expand (pp_tokenize fuel data (lits ++ out0) lits) out0 = rev_append data (lits ++ out0).
Proof.
  intros He. induction fuel as [|f IH]; intros data out0 lits Hf Hd Hl; [lia|]. destruct data as [|x t].
  - cbn [pp_tokenize rev_append]. destruct lits as [|y l]; [split; reflexivity|]. set (L := y :: l) in *. rewrite frev_rev. split.
    + cbn [steps_okb]. rewrite rev_length, forallb_rev, Hl. unfold L. reflexivity.
    + cbn [steps_expand]. rewrite rev_append_rev, rev_involutive. reflexivity.
  - rewrite pp_tokenize_cons, frev_rev. cbn [forallb] in Hd. apply andb_prop in Hd as [Hx Ht]. cbn [length] in Hf.
    set (data := x :: t) in *. set (out := lits ++ out0) in *.
    pose proof (pp_best_inv data out) as BI.
    destruct (pp_best data out) as [n d]. cbn [fst snd] in *.
    destruct (Nat.leb_spec 2 n) as [C|C].
    + destruct BI as [BI|[Bin Bn]]; [lia|]. pose proof (cands_range d Bin) as Hdr.
      destruct (pp_match_len_spec 300 data (Z.to_nat d) out 0) as (k & K1 & K2 & K3 & K4).
      rewrite K1 in Bn. cbn [Nat.add] in Bn. subst k. specialize (K4 ltac:(lia)).
      assert (Hout : length out = (length lits + length out0)%nat) by (unfold out; apply app_length).
      destruct (IH (skipn n data) (copy1 n (Z.to_nat d) out) []) as [I1 I2];
        [rewrite skipn_length; unfold data in *; cbn [length] in *; lia|apply forallb_skipn; unfold data; cbn [forallb]; rewrite Hx, Ht; reflexivity|reflexivity|].
      cbn [app] in I1, I2. split.
      * cbn [steps_okb]. repeat (apply andb_true_intro; split).
        -- rewrite forallb_rev. exact Hl.
        -- apply Z.leb_le. lia.
        -- apply Z.leb_le. lia.
        -- apply Z.ltb_lt. rewrite rev_length. lia.
        -- unfold off_fits. destruct (Z.ltb_spec (Z.of_nat n) 5) as [D|D].
           ++ apply Z.ltb_lt. pose proof (eff_nth eff He (Z.to_nat (Z.of_nat n - 2)) ltac:(lia)) as Hw.
              pose proof (pow_ge_512 _ (proj1 Hw)). lia.
           ++ apply orb_true_iff. right. apply Z.ltb_lt. pose proof (eff_nth eff He 3%nat ltac:(lia)) as Hw.
              pose proof (pow_ge_512 _ (proj1 Hw)). lia.
        -- rewrite rev_length.
           replace (Z.of_nat (length out0) + Z.of_nat (length lits) + Z.of_nat n) with (Z.of_nat (length (copy1 n (Z.to_nat d) out)));
             [exact I1|]. rewrite copy1_length. lia.
      * cbn [steps_expand]. rewrite Nat2Z.id. rewrite rev_append_rev, rev_involutive. fold out. rewrite I2, K3.
        rewrite <- rev_append_app, firstn_skipn. reflexivity.
    + destruct (IH t out0 (x :: lits)) as [I1 I2]; [lia|exact Ht|cbn [forallb]; rewrite Hx, Hl; reflexivity|].
      unfold out. change (x :: lits ++ out0) with ((x :: lits) ++ out0). split; [exact I1|]. rewrite I2. reflexivity.
Qed.

Theorem pp_tokenize_sound : forall eff data, eff_okb eff = true -> forallb (fun x => (0 <=? x) && (x <=? 255)) data = true ->
  let ss := pp_tokenize (S (length data)) (frev data) [] [] in steps_okb eff ss 0 = true /\ steps_expand ss [] = data.
Proof.
  intros eff data He Hd ss. unfold ss. rewrite frev_rev.
  destruct (pp_tokenize_inv eff He (S (length data)) (rev data) [] []) as [I1 I2];
    [rewrite rev_length; lia|rewrite forallb_rev; exact Hd|reflexivity|].
  cbn [app length] in I1, I2. split; [exact I1|]. rewrite I2, rev_append_rev, rev_involutive. apply app_nil_r.
Qed.

Corollary pp_roundtrip : forall eff data, eff_okb eff = true -> forallb (fun x => (0 <=? x) && (x <=? 255)) data = true -> data <> [] ->
  Z.of_nat (length data) < 2 ^ 24 -> pp_unpack (pp_pack_data eff data) = Some data.
Proof.
  intros eff data He Hd Hne Hlt. destruct (pp_tokenize_sound eff data He Hd) as [S1 S2]. unfold pp_pack_data.
  set (ss := pp_tokenize (S (length data)) (frev data) [] []) in *.
  rewrite pp_unpack_pack; [rewrite S2; reflexivity|exact He|exact S1|rewrite S2; exact Hne|rewrite S2; exact Hlt].
Qed.

Print Assumptions pp_unpack_pack.
Print Assumptions pp_tokenize_sound.
Print Assumptions pp_roundtrip.
