(* C08, DEFLATE part B: the block loop and the whole stream.  Given part A's results about one compressed block (codes_spec,
   expand_length, enc_tokens_length; Section hypotheses here), the decoder's block loop reads back what the writer's
   deflate_bits wrote (stored blocks with their padding / LEN / NLEN, fixed-Huffman blocks), and inflate inverts deflate. *)
From Coq Require Import ZArith List Lia Bool.
Import ListNotations.
From LX Require Import Base.ListAux Model.Lzw Model.Crc Model.Inflate.
From LX Require Import Proofs.LzwBitsProofs.
Local Open Scope Z_scope.
Ltac Zify.zify_post_hook ::= Z.div_mod_to_equations.

Notation FL := (mk_huff fixed_lit_lens).
Notation FD := (mk_huff fixed_dist_lens).

(* ---------------------------------------------------------------- B1: reading what was written ------------------------- *)
Lemma getbits_written : forall n x rest, 0 <= x < 2 ^ Z.of_nat n -> getbits n (bits_of_z n x ++ rest) = Some (x, rest).
Proof.
  intros n x rest Hx. unfold getbits.
  rewrite (firstn_exact (bits_of_z n x) rest n) by apply bits_of_z_length.
  rewrite (skipn_exact (bits_of_z n x) rest n) by apply bits_of_z_length.
  rewrite bits_of_z_length. rewrite Nat.ltb_irrefl. rewrite z_of_bits_of_z by exact Hx. reflexivity.
Qed.

Lemma bytesb_cons : forall x t, bytesb (x :: t) = true -> 0 <= x <= 255 /\ bytesb t = true.
Proof.
  intros x t H. unfold bytesb in *. cbn [forallb] in H.
  apply andb_true_iff in H. destruct H as [Hx Ht]. apply andb_true_iff in Hx. destruct Hx as [H0 H1].
  apply Z.leb_le in H0. apply Z.leb_le in H1. split; [lia | exact Ht].
Qed.

Lemma read_n_written : forall bytes rest, bytesb bytes = true ->
  read_n (length bytes) 8 (concat (map (bits_of_z 8) bytes) ++ rest) = Some (bytes, rest).
Proof.
  induction bytes as [|x t IH]; intros rest Hb.
  - reflexivity.
  - apply bytesb_cons in Hb. destruct Hb as [Hx Ht].
    cbn [length map concat read_n]. rewrite <- app_assoc.
    rewrite getbits_written.
    2:{ change (Z.of_nat 8) with 8. change (2 ^ 8) with 256. lia. }
    rewrite IH by exact Ht. reflexivity.
Qed.

(* ---------------------------------------------------------------- block headers ---------------------------------------- *)
Lemma getbits1_cons : forall b r, getbits 1 (b :: r) = Some ((if b then 1 else 0), r).
Proof. intros b r. destruct b; reflexivity. Qed.

Lemma getbits2_ff : forall r, getbits 2 (false :: false :: r) = Some (0, r).
Proof. intros r. reflexivity. Qed.

Lemma getbits2_tf : forall r, getbits 2 (true :: false :: r) = Some (1, r).
Proof. intros r. reflexivity. Qed.

Lemma blocks_S : forall f all b out,
  blocks (S f) all b out =
  match getbits 1 b with None => None | Some (final, b1) =>
  match getbits 2 b1 with None => None | Some (typ, b2) =>
    let res :=
      if typ =? 0 then
        let pos := (all - length b2)%nat in
        let b3 := skipn ((8 - pos mod 8) mod 8) b2 in
        match getbits 16 b3 with None => None | Some (len, b4) =>
        match getbits 16 b4 with None => None | Some (nlen, b5) =>
          if negb (len + nlen =? 65535) then None else
          match read_n (Z.to_nat len) 8 b5 with None => None | Some (bytes, b6) => Some (b6, rev_append bytes out) end
        end end
      else if typ =? 1 then codes (length b2 + 1) FL FD b2 out
      else if typ =? 2 then
        match dynamic_tables b2 with None => None | Some (lh, dh, b3) => codes (length b3 + 1) lh dh b3 out end
      else None in
    match res with
    | None => None
    | Some (b', out') => if final =? 1 then Some (b', out') else blocks f all b' out'
    end
  end end.
Proof. intros. reflexivity. Qed.

(* ---------------------------------------------------------------- B2: one stored block --------------------------------- *)
(* invariant: `all` is the length of the whole bit stream, `pos` the number of bits before this block, so that the decoder's
   position all - length b2 is the writer's pos + 3 *)
Lemma blocks_stored : forall final pos bytes later out f all,
  bytesb bytes = true -> Z.of_nat (length bytes) <= 65535 ->
  all = (pos + length (stored_block final pos bytes ++ later))%nat ->
  blocks (S f) all (stored_block final pos bytes ++ later) out =
  if final then Some (later, rev_append bytes out) else blocks f all later (rev_append bytes out).
Proof.
  intros final pos bytes later out f all Hb Hlen Hall.
  unfold stored_block in Hall |- *. cbv zeta in Hall |- *.
  set (n := Z.of_nat (length bytes)) in *.
  set (body := bits_of_z 16 n ++ bits_of_z 16 (65535 - n) ++ concat (map (bits_of_z 8) bytes)) in *.
  assert (E : ([final; false; false] ++ repeat false ((8 - (pos + 3) mod 8) mod 8) ++ body) ++ later
              = final :: false :: false :: repeat false ((8 - (pos + 3) mod 8) mod 8) ++ body ++ later).
  { cbn [app]. rewrite <- app_assoc. reflexivity. }
  rewrite E in Hall |- *. clear E. cbn [length] in Hall.
  rewrite blocks_S. rewrite getbits1_cons. cbv beta iota. rewrite getbits2_ff. cbv beta iota zeta.
  change (0 =? 0) with true. cbv iota.
  replace (all - length (repeat false ((8 - (pos + 3) mod 8) mod 8) ++ body ++ later))%nat with (pos + 3)%nat by lia.
  rewrite (skipn_exact (repeat false ((8 - (pos + 3) mod 8) mod 8)) (body ++ later) ((8 - (pos + 3) mod 8) mod 8))
    by apply repeat_length.
  unfold body. rewrite <- !app_assoc.
  assert (Hn : 0 <= n) by (unfold n; lia).
  rewrite getbits_written.
  2:{ change (Z.of_nat 16) with 16. change (2 ^ 16) with 65536. lia. }
  rewrite getbits_written.
  2:{ change (Z.of_nat 16) with 16. change (2 ^ 16) with 65536. lia. }
  replace (n + (65535 - n)) with 65535 by lia. rewrite Z.eqb_refl. cbn [negb].
  unfold n. rewrite Nat2Z.id. rewrite read_n_written by exact Hb.
  destruct final; reflexivity.
Qed.

Section Stream.

Hypothesis codes_spec : forall ts rest out fuel, tokens_okb ts (Z.of_nat (length out)) = true -> (length ts < fuel)%nat ->
  codes fuel FL FD (concat (map (enc_token FL FD) ts) ++ encode_sym FL 256 ++ rest) out = Some (rest, expand ts out).
Hypothesis expand_length : forall ts out, tokens_okb ts (Z.of_nat (length out)) = true ->
  Z.of_nat (length (expand ts out)) = Z.of_nat (length out) + tokens_len ts.
Hypothesis enc_tokens_length : forall ts n, tokens_okb ts n = true -> (length ts <= length (concat (map (enc_token FL FD) ts)))%nat.

(* ---------------------------------------------------------------- B3: one fixed block ---------------------------------- *)
Lemma blocks_fixed : forall final ts later out f all,
  tokens_okb ts (Z.of_nat (length out)) = true ->
  blocks (S f) all (fixed_block final ts ++ later) out =
  if final then Some (later, expand ts out) else blocks f all later (expand ts out).
Proof.
  intros final ts later out f all Hok.
  unfold fixed_block.
  assert (E : ([final; true; false] ++ concat (map (enc_token FL FD) ts) ++ encode_sym FL 256) ++ later
              = final :: true :: false :: concat (map (enc_token FL FD) ts) ++ encode_sym FL 256 ++ later).
  { cbn [app]. rewrite <- app_assoc. reflexivity. }
  rewrite E. clear E.
  rewrite blocks_S. rewrite getbits1_cons. cbv beta iota. rewrite getbits2_tf. cbv beta iota zeta.
  change (1 =? 0) with false. change (1 =? 1) with true. cbv iota.
  rewrite codes_spec.
  - destruct final; reflexivity.
  - exact Hok.
  - rewrite app_length. pose proof (enc_tokens_length ts (Z.of_nat (length out)) Hok) as He. lia.
Qed.

(* ---------------------------------------------------------------- unfolding equations ---------------------------------- *)
Lemma deflate_bits_last : forall s pos,
  deflate_bits [s] pos = match s with Stored bytes => stored_block true pos bytes | Fixed ts => fixed_block true ts end.
Proof. intros s pos. cbn [deflate_bits]. apply app_nil_r. Qed.

Lemma deflate_bits_more : forall s s' t' pos,
  deflate_bits (s :: s' :: t') pos =
  (match s with Stored bytes => stored_block false pos bytes | Fixed ts => fixed_block false ts end) ++
  deflate_bits (s' :: t') (pos + length (match s with Stored bytes => stored_block false pos bytes | Fixed ts => fixed_block false ts end)).
Proof. intros. reflexivity. Qed.

Lemma segs_okb_stored_more : forall bytes s' t' n,
  segs_okb (Stored bytes :: s' :: t') n =
  (Z.of_nat (length bytes) <=? 65535) && bytesb bytes && segs_okb (s' :: t') (n + Z.of_nat (length bytes)).
Proof. intros. reflexivity. Qed.

Lemma segs_okb_fixed_more : forall ts s' t' n,
  segs_okb (Fixed ts :: s' :: t') n = tokens_okb ts n && segs_okb (s' :: t') (n + tokens_len ts).
Proof. intros. reflexivity. Qed.

Lemma segs_expand_stored : forall bytes t out, segs_expand (Stored bytes :: t) out = segs_expand t (rev_append bytes out).
Proof. intros. reflexivity. Qed.

Lemma segs_expand_fixed : forall ts t out, segs_expand (Fixed ts :: t) out = segs_expand t (expand ts out).
Proof. intros. reflexivity. Qed.

Lemma rev_append_length : forall (a b : list Z), length (rev_append a b) = (length a + length b)%nat.
Proof. intros a b. rewrite rev_append_rev, app_length, rev_length. reflexivity. Qed.

(* every block has at least its three header bits *)
Lemma block_length_pos : forall s final pos,
  (3 <= length (match s with Stored bytes => stored_block final pos bytes | Fixed ts => fixed_block final ts end))%nat.
Proof.
  intros s final pos. destruct s as [bytes|ts].
  - unfold stored_block. cbv zeta. cbn [app length]. lia.
  - unfold fixed_block. cbn [app length]. lia.
Qed.

Lemma deflate_bits_length : forall segs pos, (3 * length segs <= length (deflate_bits segs pos))%nat.
Proof.
  induction segs as [|s t IH]; intros pos.
  - cbn [length]. lia.
  - destruct t as [|s' t'].
    + rewrite deflate_bits_last. pose proof (block_length_pos s true pos) as H. cbn [length]. lia.
    + rewrite deflate_bits_more. rewrite app_length.
      pose proof (block_length_pos s false pos) as H.
      pose proof (IH (pos + length (match s with Stored bytes => stored_block false pos bytes | Fixed ts => fixed_block false ts end))%nat) as H2.
      cbn [length] in H2 |- *. lia.
Qed.

(* ---------------------------------------------------------------- B4: the block loop on a written stream --------------- *)
Theorem blocks_deflate_bits : forall segs pos out later fuel all,
  segs_okb segs (Z.of_nat (length out)) = true ->
  all = (pos + length (deflate_bits segs pos ++ later))%nat ->
  (length segs <= fuel)%nat ->
  blocks fuel all (deflate_bits segs pos ++ later) out = Some (later, segs_expand segs out).
Proof.
  induction segs as [|s t IH]; intros pos out later fuel all Hok Hall Hf.
  - discriminate Hok.
  - destruct fuel as [|f]; [cbn [length] in Hf; lia|].
    destruct t as [|s' t'].
    + (* the final block *)
      rewrite deflate_bits_last in Hall |- *.
      destruct s as [bytes|ts].
      * cbn [segs_okb] in Hok. apply andb_true_iff in Hok. destruct Hok as [Hl Hb]. apply Z.leb_le in Hl.
        rewrite (blocks_stored true pos bytes later out f all Hb Hl Hall). reflexivity.
      * cbn [segs_okb] in Hok.
        rewrite (blocks_fixed true ts later out f all Hok). reflexivity.
    + (* a block followed by others *)
      rewrite deflate_bits_more in Hall |- *.
      assert (Hf' : (length (s' :: t') <= f)%nat) by (cbn [length] in Hf |- *; lia).
      destruct s as [bytes|ts].
      * rewrite segs_okb_stored_more in Hok.
        apply andb_true_iff in Hok. destruct Hok as [Hok Hrest].
        apply andb_true_iff in Hok. destruct Hok as [Hl Hb]. apply Z.leb_le in Hl.
        rewrite <- app_assoc in Hall |- *.
        rewrite (blocks_stored false pos bytes _ out f all Hb Hl Hall).
        rewrite segs_expand_stored.
        apply IH.
        -- rewrite rev_append_length. rewrite Nat2Z.inj_add.
           replace (Z.of_nat (length bytes) + Z.of_nat (length out)) with (Z.of_nat (length out) + Z.of_nat (length bytes)) by lia.
           exact Hrest.
        -- rewrite app_length in Hall. lia.
        -- exact Hf'.
      * rewrite segs_okb_fixed_more in Hok.
        apply andb_true_iff in Hok. destruct Hok as [Hts Hrest].
        rewrite <- app_assoc in Hall |- *.
        rewrite (blocks_fixed false ts _ out f all Hts).
        rewrite segs_expand_fixed.
        apply IH.
        -- rewrite (expand_length ts out Hts). exact Hrest.
        -- rewrite app_length in Hall. lia.
        -- exact Hf'.
Qed.

(* ---------------------------------------------------------------- B5: the whole stream --------------------------------- *)
Theorem inflate_deflate_from : forall segs, segs_okb segs 0 = true -> inflate (deflate segs) = Some (rev (segs_expand segs [])).
Proof.
  intros segs Hok. unfold inflate, deflate. cbv zeta.
  destruct (bytes_roundtrip (deflate_bits segs 0)) as [k [Hk Hb]].
  rewrite Hb.
  rewrite (blocks_deflate_bits segs 0%nat [] (repeat false k) (length (deflate_bits segs 0 ++ repeat false k) + 1)%nat
             (length (deflate_bits segs 0 ++ repeat false k))).
  - rewrite rev_append_rev. rewrite app_nil_r. reflexivity.
  - exact Hok.
  - reflexivity.
  - rewrite app_length. pose proof (deflate_bits_length segs 0%nat) as H. lia.
Qed.

End Stream.

Check inflate_deflate_from.
Print Assumptions getbits_written.
Print Assumptions read_n_written.
Print Assumptions blocks_stored.
Print Assumptions blocks_fixed.
Print Assumptions blocks_deflate_bits.
Print Assumptions inflate_deflate_from.
