From Coq Require Import List Arith Bool String Lia.
Import ListNotations.
From LX Require Import Model.Isolation.

Section P.
Variables (S C O : Type) (step : S -> C -> S * O).

Lemma upds_same st i s : upds S st i s i = s.
Proof. unfold upds. rewrite Nat.eqb_refl. reflexivity. Qed.
Lemma upds_other st i j s : j <> i -> upds S st i s j = st j.
Proof. intros H. unfold upds. destruct (Nat.eqb_spec j i); [contradiction|reflexivity]. Qed.

(* what a context produces under any interleaving with any other contexts' calls is what it produces alone *)
Lemma isolation : forall sched st i,
  outs_of O i (run_sys S C O step st sched) = run_one S C O step (st i) (calls_of C i sched).
Proof.
  induction sched as [|[j c] t IH]; intros st i; [reflexivity|].
  cbn [run_sys]. destruct (step (st j) c) as [s' o] eqn:E. unfold outs_of, calls_of in *. cbn [filter fst].
  destruct (Nat.eqb_spec j i) as [->|Hne].
  - cbn [map snd run_one]. rewrite E. f_equal. rewrite IH, upds_same. reflexivity.
  - rewrite IH. rewrite upds_other by congruence. reflexivity.
Qed.

(* every context's state after the schedule is the state after its own calls *)
Fixpoint state_one (s : S) (cs : list C) : S := match cs with [] => s | c :: t => state_one (fst (step s c)) t end.
Fixpoint state_sys (st : nat -> S) (sched : list (nat * C)) : nat -> S :=
  match sched with [] => st | (i, c) :: t => state_sys (upds S st i (fst (step (st i) c))) t end.
Lemma state_isolation : forall sched st i, state_sys st sched i = state_one (st i) (calls_of C i sched).
Proof.
  induction sched as [|[j c] t IH]; intros st i; [reflexivity|]. cbn [state_sys]. rewrite IH. unfold calls_of. cbn [filter fst].
  destruct (Nat.eqb_spec j i) as [->|Hne]; [rewrite upds_same; reflexivity|rewrite upds_other by congruence; reflexivity].
Qed.

(* ---- with shared lazily-built tables ---- *)
Variables (G : Type) (ginit : G -> G) (gstep : G -> S -> C -> S * O).
Hypothesis ginit_idem : forall g, ginit (ginit g) = ginit g.

Lemma lazy_tables_do_not_couple : forall sched g st i,
  outs_of O i (run_sys_g S C O G ginit gstep g st sched) = run_one S C O (gstep (ginit g)) (st i) (calls_of C i sched).
Proof.
  induction sched as [|[j c] t IH]; intros g st i; [reflexivity|].
  cbn [run_sys_g]. destruct (gstep (ginit g) (st j) c) as [s' o] eqn:E. unfold outs_of, calls_of in *. cbn [filter fst].
  destruct (Nat.eqb_spec j i) as [->|Hne].
  - cbn [map snd run_one]. rewrite E. f_equal. rewrite IH, upds_same, ginit_idem. reflexivity.
  - rewrite IH, ginit_idem. rewrite upds_other by congruence. reflexivity.
Qed.
End P.
