(* C19: the XM packed-pattern reader gives back every cell an XM writer stored, for every packing choice the format allows,
   and the translation of plain cells (note, instrument, set-volume) is the documented renumbering. *)
From Coq Require Import ZArith List Lia Bool.
Import ListNotations.
From LX Require Import Base.ListAux Generated.Consts Generated.Tables Model.PatCodecs.
Local Open Scope Z_scope.
Ltac Zify.zify_post_hook ::= Z.div_mod_to_equations.

Ltac split_okb H :=
  repeat match type of H with (_ && _) = true => let H2 := fresh "K" in apply andb_prop in H; destruct H as [H H2] end.

Lemma opt_field_enc pr x rest : covers pr x = true -> opt_field pr ((if pr then [x] else []) ++ rest) = Some (x, rest).
Proof.
  unfold covers, opt_field. destruct pr; cbn [orb app]; intros H; [reflexivity|]. apply Z.eqb_eq in H. subst x. reflexivity.
Qed.

Lemma bit_pack_c d m : 0 < d -> (128 mod (2 * d) = 0) -> ((128 + m) / d) mod 2 = (m / d) mod 2.
Proof.
  intros Hd H128. assert (E : 128 = d * (2 * (128 / (2 * d)))).
  { pose proof (Z.div_mod 128 (2 * d) ltac:(lia)) as D. rewrite H128 in D. lia. }
  rewrite E at 1. rewrite (Z.mul_comm d), Z.div_add_l by lia. rewrite Z.add_comm, Z.mul_comm, Z.mod_add by lia. reflexivity.
Qed.

Lemma bit_pack k m : 0 <= m <= 31 -> (k = 0 \/ k = 1 \/ k = 2 \/ k = 3 \/ k = 4) -> bit k (128 + m) = bit k m.
Proof.
  intros Hm Hk. unfold bit. f_equal.
  destruct Hk as [-> | [-> | [-> | [-> | ->]]]]; apply bit_pack_c; reflexivity.
Qed.

(* one cell: any packing choice the format allows for it *)
Lemma xm_dec_enc_cell mode c r : rcell_okb c = true -> xm_mode_okb mode c = true -> xm_dec_cell (xm_enc_cell mode c ++ r) = Some (c, r).
Proof.
  intros Hc Hm. destruct c as [n i v t p]. unfold rcell_okb, byteb in Hc. cbn [r_note r_ins r_vol r_fxt r_fxp] in Hc. split_okb Hc.
  destruct mode as [m|]; unfold xm_mode_okb in Hm; cbn [r_note r_ins r_vol r_fxt r_fxp] in Hm.
  - split_okb Hm. apply Z.leb_le in Hm. apply Z.leb_le in K9.
    unfold xm_enc_cell, xm_dec_cell. cbn [r_note r_ins r_vol r_fxt r_fxp app].
    destruct (Z.leb_spec 128 (128 + m)) as [_|Hlt]; [|lia].
    rewrite !bit_pack by (auto; lia).
    rewrite <- !app_assoc.
    rewrite (opt_field_enc _ n _ K8). rewrite (opt_field_enc _ i _ K7). rewrite (opt_field_enc _ v _ K6).
    rewrite (opt_field_enc _ t _ K5).
    replace ((if bit 4 m then [p] else []) ++ r) with ((if bit 4 m then [p] else []) ++ r) by reflexivity.
    rewrite (opt_field_enc _ p _ K4). reflexivity.
  - apply Z.ltb_lt in Hm. unfold xm_enc_cell, xm_dec_cell. cbn [r_note r_ins r_vol r_fxt r_fxp app].
    destruct (Z.leb_spec 128 n) as [Hge|_]; [lia|]. reflexivity.
Qed.

Lemma dec_cells_rt {A B} (dec : list Z -> option (A * list Z)) (enc : B -> list Z) (val : B -> A) (ok : B -> bool) :
  (forall x r, ok x = true -> dec (enc x ++ r) = Some (val x, r)) ->
  forall xs r, forallb ok xs = true -> dec_cells dec (length xs) (concat (map enc xs) ++ r) = Some (map val xs, r).
Proof.
  intros Hd. induction xs as [|x t IH]; intros r H; [reflexivity|].
  cbn [forallb] in H. apply andb_prop in H as [Hx Ht]. cbn [length map concat dec_cells]. rewrite <- app_assoc.
  rewrite (Hd x _ Hx). rewrite (IH r Ht). reflexivity.
Qed.

Definition mc_okb (mc : option Z * rcell) : bool := rcell_okb (snd mc) && xm_mode_okb (fst mc) (snd mc).

Lemma xm_dec_enc_cells mcs r : forallb mc_okb mcs = true ->
  dec_cells xm_dec_cell (length mcs) (xm_enc_cells mcs ++ r) = Some (map snd mcs, r).
Proof.
  intros H. unfold xm_enc_cells.
  apply (dec_cells_rt xm_dec_cell (fun mc => xm_enc_cell (fst mc) (snd mc)) snd mc_okb); [|exact H].
  intros [m c] r0 Hok. unfold mc_okb in Hok. cbn [fst snd] in *. apply andb_prop in Hok as [H1 H2]. apply xm_dec_enc_cell; assumption.
Qed.

Lemma xm_enc_cell_nonempty mode c : xm_enc_cell mode c <> [].
Proof. destruct mode; cbn; discriminate. Qed.

(* the whole pattern: rows x chn cells in row-major order, every cell packed in any allowed way, loaded by the transcribed
   load_xm_pattern, is the translation of exactly those cells *)
Theorem xm_load_written_pattern rows chn mcs : 0 <= rows -> 0 <= chn -> Z.of_nat (length mcs) = rows * chn ->
  forallb mc_okb mcs = true ->
  xm_load_pattern rows chn (xm_enc_cells mcs) = Some (map xm_xlat (map snd mcs)).
Proof.
  intros Hr Hc HL Hok. unfold xm_load_pattern. rewrite <- HL, Nat2Z.id.
  destruct mcs as [|mc t] eqn:E.
  - reflexivity.
  - rewrite <- E in *. assert (Hne : xm_enc_cells mcs <> []).
    { subst mcs. unfold xm_enc_cells. cbn [map concat]. intros Habs. apply app_eq_nil in Habs as [Habs _]. exact (xm_enc_cell_nonempty _ _ Habs). }
    destruct (xm_enc_cells mcs) as [|b l] eqn:E2; [congruence|]. rewrite <- E2.
    pose proof (xm_dec_enc_cells mcs [] Hok) as D. rewrite app_nil_r in D. rewrite D. reflexivity.
Qed.

(* the tightest packing is always allowed *)
Lemma xm_min_mode_ok c : rcell_okb c = true -> xm_mode_okb (xm_min_mode c) c = true.
Proof.
  intros _. destruct c as [n i v t p]. unfold xm_min_mode, xm_mode_okb, covers, bit. cbn [r_note r_ins r_vol r_fxt r_fxp].
  destruct (Z.eqb_spec n 0), (Z.eqb_spec i 0), (Z.eqb_spec v 0), (Z.eqb_spec t 0), (Z.eqb_spec p 0); vm_compute; reflexivity.
Qed.

(* ---- what a plain cell becomes: the note/instrument/volume clause of C19 for XM *)
Lemma xm_plain_note c : 1 <= r_note c <= 96 -> e_note (xm_xlat c) = r_note c + 12 /\ e_ins (xm_xlat c) = r_ins c.
Proof.
  intros H. unfold xm_xlat. destruct (xm_fx _ _) as [t1 p1]. destruct (xm_volcol _ _ _) as [[[[v t2] p2] f2t] f2p].
  cbn [e_note e_ins]. split; [|reflexivity]. unfold xm_note.
  destruct (Z.eqb_spec (r_note c) 97); [lia|]. destruct (Z.ltb_spec 0 (r_note c)); lia.
Qed.

Lemma xm_empty_note c : r_note c = 0 -> e_note (xm_xlat c) = 0.
Proof.
  intros H. unfold xm_xlat. destruct (xm_fx _ _) as [t1 p1]. destruct (xm_volcol _ _ _) as [[[[v t2] p2] f2t] f2p].
  cbn [e_note]. unfold xm_note. rewrite H. reflexivity.
Qed.

Lemma xm_keyoff_note c : r_note c = 97 -> e_note (xm_xlat c) = C_XMP_KEY_OFF \/ (r_ins c <> 0 /\ e_note (xm_xlat c) = C_XMP_KEY_FADE).
Proof.
  intros H. unfold xm_xlat. destruct (xm_fx _ _) as [t1 p1]. destruct (xm_volcol _ _ _) as [[[[v t2] p2] f2t] f2p].
  cbn [e_note]. unfold xm_note. rewrite H. cbn [Z.eqb Pos.eqb].
  destruct (_ && _); [left; reflexivity|]. destruct (Z.eqb_spec (r_ins c) 0); [left; reflexivity | right; split; [assumption|reflexivity]].
Qed.

Lemma xm_plain_volume c : (r_vol c = 0 \/ 16 <= r_vol c <= 80) ->
  e_vol (xm_xlat c) = (if r_vol c =? 0 then 0 else r_vol c - 15) /\ e_f2t (xm_xlat c) = 0 /\ e_f2p (xm_xlat c) = 0.
Proof.
  intros H. unfold xm_xlat. destruct (xm_fx _ _) as [t1 p1]. unfold xm_volcol.
  destruct (Z.eqb_spec (r_vol c) 0) as [E|E]; [cbn [e_vol e_f2t e_f2p]; auto|].
  destruct H as [H|H]; [contradiction|].
  destruct (Z.leb_spec 16 (r_vol c)); [|lia]. destruct (Z.leb_spec (r_vol c) 80); [|lia]. cbn [andb e_vol e_f2t e_f2p]. auto.
Qed.
