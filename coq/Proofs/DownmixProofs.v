From Coq Require Import ZArith Lia Bool.
From LX Require Import Base.IntWrap Generated.Consts Model.Downmix.
Local Open Scope Z_scope.
Ltac Zify.zify_post_hook ::= Z.div_mod_to_equations.

Lemma clip16_range amp x : -32768 <= clip16 amp x <= 32767.
Proof. unfold clip16. apply clamp_range. lia. Qed.
Lemma clip8_range amp x : -128 <= clip8 amp x <= 127.
Proof. unfold clip8. apply clamp_range. lia. Qed.

Lemma wrap16_small x : -32768 <= x <= 32767 -> wrap16 x = x.
Proof. intros H. unfold wrap16. apply swrap_id; [lia|]. change (2 ^ (16 - 1)) with 32768. lia. Qed.
Lemma wrap8_small x : -128 <= x <= 127 -> wrap8 x = x.
Proof. intros H. unfold wrap8. apply swrap_id; [lia|]. change (2 ^ (8 - 1)) with 128. lia. Qed.

(* 8-bit output is the high byte of 16-bit output (signed values, arithmetic shift) *)
Lemma hi_byte amp x : 0 <= amp <= 3 -> clip8 amp x = Z.shiftr (clip16 amp x) 8.
Proof.
  intros H. unfold clip8, clip16, pre8, pre16, clamp, DOWNMIX_SHIFT.
  rewrite !Z.shiftr_div_pow2 by lia.
  replace (12 + 8 - amp) with ((12 - amp) + 8) by lia.
  rewrite Z.pow_add_r by lia. rewrite <- Z.div_div by lia.
  set (y := x / 2 ^ (12 - amp)). clearbody y. change (2^8) with 256.
  destruct (Z.ltb_spec y (-32768)); destruct (Z.ltb_spec 32767 y);
  destruct (Z.ltb_spec (y / 256) (-128)); destruct (Z.ltb_spec 127 (y / 256));
  try (change (-32768/256) with (-128)); try (change (32767/256) with 127); lia.
Qed.

(* ... and in the encoded (unsigned-unit) form, for both signednesses:
   the byte written by the 8-bit path is the high byte of the word written by the 16-bit path *)
Lemma hi_byte_encoded amp x uns : 0 <= amp <= 3 ->
  down8 amp (if uns : bool then 128 else 0) x = (down16 amp (if uns then 32768 else 0) x) / 256.
Proof.
  intros H. unfold down8, down16. rewrite (hi_byte amp x H).
  pose proof (clip16_range amp x) as R. set (c := clip16 amp x) in *. clearbody c.
  rewrite (wrap16_small c) by lia.
  rewrite Z.shiftr_div_pow2 by lia. change (2^8) with 256.
  rewrite wrap8_small by lia.
  unfold uwrap8, uwrap16, uwrap. change (2^8) with 256. change (2^16) with 65536.
  destruct uns; lia.
Qed.

(* unsigned output is signed output plus the mid-scale offset (mod 2^n) *)
Lemma unsigned16 amp x : down16 amp 32768 x = (down16 amp 0 x + 32768) mod 65536.
Proof.
  unfold down16. pose proof (clip16_range amp x) as R. set (c := clip16 amp x) in *. clearbody c.
  rewrite wrap16_small by lia. unfold uwrap16, uwrap. change (2^16) with 65536. lia.
Qed.
Lemma unsigned8 amp x : down8 amp 128 x = (down8 amp 0 x + 128) mod 256.
Proof.
  unfold down8. pose proof (clip8_range amp x) as R. set (c := clip8 amp x) in *. clearbody c.
  rewrite wrap8_small by lia. unfold uwrap8, uwrap. change (2^8) with 256. lia.
Qed.
(* as C values: the unsigned sample (0..65535) is exactly signed + 0x8000, no modulus needed *)
Lemma unsigned16_exact amp x : down16 amp 32768 x = clip16 amp x + 32768.
Proof.
  unfold down16. pose proof (clip16_range amp x) as R. set (c := clip16 amp x) in *. clearbody c.
  rewrite wrap16_small by lia. unfold uwrap16, uwrap. change (2^16) with 65536. lia.
Qed.
Lemma unsigned8_exact amp x : down8 amp 128 x = clip8 amp x + 128.
Proof.
  unfold down8. pose proof (clip8_range amp x) as R. set (c := clip8 amp x) in *. clearbody c.
  rewrite wrap8_small by lia. unfold uwrap8, uwrap. change (2^8) with 256. lia.
Qed.
Lemma signed16_exact amp x : down16s amp 0 x = clip16 amp x.
Proof. unfold down16s. pose proof (clip16_range amp x). rewrite Z.add_0_r. rewrite !wrap16_small; try lia. rewrite wrap16_small; lia. Qed.
Lemma signed8_exact amp x : down8s amp 0 x = clip8 amp x.
Proof. unfold down8s. pose proof (clip8_range amp x). rewrite Z.add_0_r. rewrite !wrap8_small; try lia. rewrite wrap8_small; lia. Qed.

(* each amplification step doubles the pre-clipping value exactly *)
Lemma amp_step16 amp x : 0 <= amp < 3 ->
  pre16 (amp + 1) x = pre16 amp (2 * x) /\ 2 * pre16 amp x <= pre16 (amp + 1) x <= 2 * pre16 amp x + 1.
Proof.
  intros H. unfold pre16, DOWNMIX_SHIFT. rewrite !Z.shiftr_div_pow2 by lia.
  replace (12 - amp) with ((12 - (amp + 1)) + 1) by lia.
  rewrite Z.pow_add_r by lia. change (2^1) with 2.
  assert (P : 0 < 2 ^ (12 - (amp + 1))) by (apply Z.pow_pos_nonneg; lia).
  set (d := 2 ^ (12 - (amp + 1))) in *. clearbody d. split.
  - rewrite (Z.mul_comm d 2). rewrite Z.div_mul_cancel_l by lia. reflexivity.
  - rewrite <- Z.div_div by lia. set (q := x / d). clearbody q. lia.
Qed.
Lemma amp_step8 amp x : 0 <= amp < 3 ->
  pre8 (amp + 1) x = pre8 amp (2 * x) /\ 2 * pre8 amp x <= pre8 (amp + 1) x <= 2 * pre8 amp x + 1.
Proof.
  intros H. unfold pre8, DOWNMIX_SHIFT. rewrite !Z.shiftr_div_pow2 by lia.
  replace (12 + 8 - amp) with ((12 + 8 - (amp + 1)) + 1) by lia.
  rewrite Z.pow_add_r by lia. change (2^1) with 2.
  assert (P : 0 < 2 ^ (12 + 8 - (amp + 1))) by (apply Z.pow_pos_nonneg; lia).
  set (d := 2 ^ (12 + 8 - (amp + 1))) in *. clearbody d. split.
  - rewrite (Z.mul_comm d 2). rewrite Z.div_mul_cancel_l by lia. reflexivity.
  - rewrite <- Z.div_div by lia. set (q := x / d). clearbody q. lia.
Qed.

Lemma downmix_range amp offs x :
  0 <= down16 amp offs x < 65536 /\ 0 <= down8 amp offs x < 256.
Proof.
  unfold down16, down8, uwrap16, uwrap8. split.
  - apply (uwrap_range 16); lia.
  - apply (uwrap_range 8); lia.
Qed.
Lemma shift_amounts amp : 0 <= amp <= 3 -> 9 <= DOWNMIX_SHIFT - amp <= 12 /\ 17 <= DOWNMIX_SHIFT + 8 - amp <= 20.
Proof. unfold DOWNMIX_SHIFT. lia. Qed.

(* tick size *)
Lemma ticksize_bounds freq tfn tfd bpm : 8 <= prepare_ticksize freq tfn tfd bpm <= XMP_MAX_FRAMESIZE / 2.
Proof.
  unfold prepare_ticksize, get_ticksize. cbv zeta. change (XMP_MAX_FRAMESIZE / 2) with 12292.
  destruct ((freq <=? 0) || (bpm <=? 0) || (tfn <=? 0) || (tfd <=? 0)); cbn [Z.ltb orb Z.compare]; [lia|].
  set (calc := freq * tfn / (tfd * bpm * 1000)). clearbody calc.
  destruct (Z.ltb_spec 2147483647 calc); cbn [Z.ltb orb Z.compare]; [lia|].
  destruct (Z.ltb_spec calc 8).
  - cbn. lia.
  - destruct (Z.ltb_spec calc 0); cbn [orb]; [lia|]. destruct (Z.ltb_spec 12292 calc); lia.
Qed.

Lemma ticksize_exact freq tfn tfd bpm :
  0 < freq -> 0 < bpm -> 0 < tfn -> 0 < tfd ->
  let calc := (freq * tfn) / (tfd * bpm * 1000) in
  8 <= calc <= XMP_MAX_FRAMESIZE / 2 -> prepare_ticksize freq tfn tfd bpm = calc.
Proof.
  intros Hf Hb Hn Hd calc Hc. unfold prepare_ticksize, get_ticksize. cbv zeta. fold calc.
  change (XMP_MAX_FRAMESIZE / 2) with 12292 in *.
  replace ((freq <=? 0) || (bpm <=? 0) || (tfn <=? 0) || (tfd <=? 0)) with false
    by (symmetry; rewrite !orb_false_iff; repeat split; apply Z.leb_gt; lia).
  clearbody calc.
  destruct (Z.ltb_spec 2147483647 calc); [lia|]. destruct (Z.ltb_spec calc 8); [lia|].
  destruct (Z.ltb_spec calc 0); [lia|]. destruct (Z.ltb_spec 12292 calc); [lia|]. reflexivity.
Qed.

Lemma buffer_size_whole_frames mono eightbit t :
  buffer_size mono eightbit t = t * ((if mono then 1 else 2) * (if eightbit then 1 else 2)).
Proof. unfold buffer_size. destruct mono, eightbit; lia. Qed.

Lemma out_units_bound mono t : 8 <= t <= XMP_MAX_FRAMESIZE / 2 ->
  out_units mono t = (if mono then t else 2 * t) /\ out_units mono t <= XMP_MAX_FRAMESIZE.
Proof.
  change (XMP_MAX_FRAMESIZE / 2) with 12292. unfold out_units, XMP_MAX_FRAMESIZE, Generated.Consts.C_XMP_MAX_FRAMESIZE. intros H.
  destruct mono; cbv zeta.
  - destruct (Z.ltb_spec 24585 t); lia.
  - destruct (Z.ltb_spec 24585 (t * 2)); lia.
Qed.
