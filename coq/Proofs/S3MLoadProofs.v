(* C03: the Scream Tracker 3 loader model (Model/S3MLoad.v) establishes the loader post-condition of the gate theorem
   (Model/Gate.v, Proofs/GateProofs.v) for every byte string it accepts, complete or truncated, whatever the header
   fields and the parapointers say. *)
From Coq Require Import ZArith List Lia Bool.
Import ListNotations.
From LX Require Import Base.ListAux Generated.Consts Model.ModCodec Model.SampleLoad Proofs.SampleLoadProofs Model.ModuleWf Model.Gate Proofs.GateProofs Model.ModLoad Proofs.ModLoadProofs Model.C669Load Proofs.C669LoadProofs Model.MtmLoad Proofs.MtmLoadProofs Model.PatCodecs Model.S3MLoad.
Local Open Scope Z_scope.
Ltac Zify.zify_post_hook ::= Z.div_mod_to_equations.

(* ---------- header fields ---------- *)
Lemma le16_range l o : Forall (fun b => 0 <= b <= 255) l -> 0 <= S3MLoad.le16 l o <= 65535.
Proof.
  intros Hb. unfold S3MLoad.le16.
  pose proof (nth_byte l o Hb) as A. pose proof (nth_byte l (o + 1) Hb) as B. lia.
Qed.

(* ---------- the channel count ---------- *)
Lemma last_on_range : forall l i acc, 0 <= acc <= i -> 0 <= last_on l i acc <= i + zlen l.
Proof.
  induction l as [|c t IH]; intros i acc H; cbn [last_on]; unfold zlen; cbn [length].
  - lia.
  - assert (H1 : 0 <= (if c =? 255 then acc else i + 1) <= i + 1) by (destruct (c =? 255); lia).
    specialize (IH (i + 1) _ H1). unfold zlen in IH. lia.
Qed.

(* ---------- the highest pattern named by the order list ---------- *)
Lemma max_pat_fold : forall l acc, -1 <= acc ->
  -1 <= fold_left (fun acc o => if (o <? 254) && (acc <? o) then o else acc) l acc.
Proof.
  induction l as [|o t IH]; intros acc H; cbn [fold_left]; [exact H|].
  apply IH. destruct (o <? 254); cbn [andb]; [|exact H].
  destruct (Z.ltb_spec acc o); lia.
Qed.

Lemma max_pat_lower l : -1 <= max_pat l.
Proof. unfold max_pat. apply max_pat_fold. lia. Qed.

(* ---------- parapointer tables ---------- *)
Lemma read_pp_length : forall n file pos r p, read_pp n file pos = (r, p) -> length r = n.
Proof.
  induction n as [|n IH]; intros file pos r p E; cbn [read_pp] in E.
  - injection E as <- _. reflexivity.
  - destruct (rd16l file pos) as [v p1].
    destruct (read_pp n file p1) as [r1 q] eqn:E1.
    injection E as <- _. cbn [length]. rewrite (IH _ _ _ _ E1). reflexivity.
Qed.

(* ---------- instruments and samples ---------- *)
Definition ins_postb (i : instr) : bool :=
  (0 <=? i_nsm i) && (if 0 <? i_nsm i then i_sub i else true) && i_name_ok i &&
  env_nonneg (i_aei i) && env_nonneg (i_pei i) && env_nonneg (i_fei i).

Lemma s3m_ins_post ffi file pp i s :
  s3m_ins ffi file pp = Some (i, s) -> ins_postb i = true /\ smp_postb s = true.
Proof.
  intros E. unfold s3m_ins in E.
  destruct (rdn file (seek_set file (pp * 16)) 80) as [buf q].
  destruct (negb (zlen buf =? 80)); [discriminate|].
  cbv beta zeta in E.
  destruct (2 <=? nth 0 buf 0).
  - destruct (negb (list_eqb (firstn 4 (skipn 76 buf)) scri)); [discriminate|].
    injection E as <- <-. split; reflexivity.
  - destruct (C_MAX_SAMPLE_SIZE <? le32 buf 16); [discriminate|].
    destruct ((nth 0 buf 0 =? 1) && negb (list_eqb (firstn 4 (skipn 76 buf)) scrs)); [discriminate|].
    match type of E with match ?ls with _ => _ end = _ => destruct ls as [s' p'|s' blk p'|] eqn:EL end; [| |discriminate].
    + injection E as <- <-. split; [destruct (0 <? le32 buf 16); reflexivity|]. apply smp_postb_nodata.
    + injection E as <- <-. split; [destruct (0 <? le32 buf 16); reflexivity|].
      exact (smp_postb_loaded _ _ _ _ _ _ _ _ _ EL).
Qed.

Lemma s3m_inss_post ffi file : forall pps inss smps,
  s3m_inss ffi file pps = Some (inss, smps) ->
  length inss = length pps /\ length smps = length pps /\
  forallb ins_postb inss = true /\ forallb smp_postb smps = true.
Proof.
  induction pps as [|pp t IH]; intros inss smps E; cbn [s3m_inss] in E.
  - injection E as <- <-. repeat split; reflexivity.
  - destruct (s3m_ins ffi file pp) as [[i s]|] eqn:E0; [|discriminate].
    destruct (s3m_inss ffi file t) as [[is ss]|] eqn:E1; [|discriminate].
    injection E as <- <-.
    destruct (IH _ _ eq_refl) as (L1 & L2 & F1 & F2).
    destruct (s3m_ins_post _ _ _ _ _ E0) as [P1 P2].
    cbn [length forallb]. rewrite L1, L2, F1, F2, P1, P2. repeat split; reflexivity.
Qed.

(* ---------- what s3m_raw returns, field by field ---------- *)
Lemma s3m_raw_shape file r :
  Forall (fun b => 0 <= b <= 255) file -> s3m_raw file = Some r ->
  exists chn ordnum pat trk insnum spd bpm xxo chans inss smps,
    r = {| r_m := {| d_chn := chn; d_len := ordnum; d_pat := pat; d_trk := trk; d_ins := insnum; d_smp := insnum;
                     d_spd := spd; d_bpm := bpm; d_rst := 0;
                     d_name_ok := true; d_type_ok := true;
                     d_xxo := xxo;
                     d_chans := chans;
                     d_pats := map (fun p => Some {| p_rows := 64; p_index := map (fun c => Z.of_nat p * chn + Z.of_nat c) (seq 0 (Z.to_nat chn)) |}) (seq 0 (Z.to_nat pat));
                     d_trks := repeat (Some 64) (Z.to_nat trk);
                     d_inss := inss;
                     d_smps := smps;
                     d_seqs := [] |};
           r_has_xxp := true; r_has_xxt := true |} /\
    0 <= chn <= 32 /\ 0 <= ordnum <= 255 /\ 1 <= pat <= 255 /\ trk = pat * chn /\ 0 <= insnum <= 255 /\
    0 <= spd <= 255 /\ 0 <= bpm <= 255 /\
    Forall (fun b => 0 <= b <= 255) xxo /\ zlen xxo = ordnum /\ zlen chans = 64 /\
    length inss = Z.to_nat insnum /\ length smps = Z.to_nat insnum /\
    forallb ins_postb inss = true /\ forallb smp_postb smps = true.
Proof.
  intros Hb H. unfold s3m_raw in H.
  destruct (negb (s3m_test file)); [discriminate|].
  destruct (zlen file <? 96); [discriminate|].
  cbv zeta in H.
  set (buf := firstn 96 file) in *.
  assert (Bbuf : Forall (fun b => 0 <= b <= 255) buf) by (apply Forall_firstn; exact Hb).
  pose proof (le16_range buf 32 Bbuf) as Bord.
  pose proof (le16_range buf 34 Bbuf) as Bins.
  pose proof (le16_range buf 36 Bbuf) as Bpat.
  pose proof (nth_byte buf 49 Bbuf) as Bspd.
  pose proof (nth_byte buf 50 Bbuf) as Bbpm.
  set (ordnum := S3MLoad.le16 buf 32) in *.
  set (insnum := S3MLoad.le16 buf 34) in *.
  set (patnum := S3MLoad.le16 buf 36) in *.
  set (ffi := S3MLoad.le16 buf 42) in *.
  set (spd := nth 49 buf 0) in *.
  set (bpm := nth 50 buf 0) in *.
  pose proof (last_on_range (firstn 32 (skipn 64 buf)) 0 0 ltac:(lia)) as Bchn.
  assert (Lcs : zlen (firstn 32 (skipn 64 buf)) <= 32)
    by (unfold zlen; pose proof (firstn_le_length 32 (skipn 64 buf)); lia).
  set (chn := last_on (firstn 32 (skipn 64 buf)) 0 0) in *.
  assert (Hchn : 0 <= chn <= 32) by lia. clear Bchn Lcs.
  clearbody ordnum insnum patnum ffi spd bpm chn.
  destruct (negb ((ffi =? 1) || (ffi =? 2))); [discriminate|].
  destruct (Z.ltb_spec 255 ordnum) as [|Hord]; [discriminate|].
  destruct (Z.ltb_spec 255 insnum) as [|Hins]; [discriminate|].
  destruct (Z.ltb_spec 255 patnum) as [|Hpat]; [discriminate|].
  cbn [orb] in H.
  pose proof (rdn_bytes file 96 ordnum Hb) as Fxxo.
  destruct (rdn file 96 ordnum) as [xxo p1]. cbn [fst] in Fxxo.
  destruct (Z.eqb_spec (zlen xxo) ordnum) as [Lxxo|]; [|discriminate]. cbn [negb] in H.
  pose proof (max_pat_lower xxo) as Hmp.
  set (pat := Z.min (max_pat xxo + 1) patnum) in *.
  destruct (Z.eqb_spec pat 0) as [|Hp0]; [discriminate|].
  assert (Bp : 1 <= pat <= 255) by (unfold pat in *; lia).
  clearbody pat.
  destruct (read_pp (Z.to_nat insnum) file p1) as [pp_ins p2] eqn:EPI.
  destruct (read_pp (Z.to_nat patnum) file p2) as [pp_pat p3].
  match type of H with (let '(_, _) := ?e in _) = _ => destruct e as [pans p4] end.
  destruct (negb (check_pats (firstn (Z.to_nat pat) pp_pat) chn file)); [discriminate|].
  destruct (s3m_inss ffi file pp_ins) as [[inss smps]|] eqn:EI; [|discriminate].
  pose proof (read_pp_length _ _ _ _ _ EPI) as Lpp.
  destruct (s3m_inss_post _ _ _ _ _ EI) as (L1 & L2 & F1 & F2).
  set (chans := map _ (seq 0 64)) in H.
  assert (Lchans : zlen chans = 64) by (unfold chans, zlen; rewrite map_length, seq_length; reflexivity).
  clearbody chans.
  set (trk := pat * chn) in H. assert (Etrk : trk = pat * chn) by reflexivity. clearbody trk.
  injection H as <-.
  exists chn, ordnum, pat, trk, insnum, spd, bpm, xxo, chans, inss, smps.
  split; [reflexivity|].
  rewrite Lpp in L1, L2.
  repeat (split; [first [assumption | lia]|]).
  exact F2.
Qed.

Theorem s3m_loader_establishes_post : forall file r,
  Forall (fun b => 0 <= b <= 255) file -> s3m_raw file = Some r -> loader_postb r = true.
Proof.
  intros file r Hb H.
  destruct (s3m_raw_shape file r Hb H) as
    (chn & ordnum & pat & trk & insnum & spd & bpm & xxo & chans & inss & smps & -> &
     Hchn & Hord & Hpat & Etrk & Hins & Hspd & Hbpm & Fxxo & Lxxo & Lchans & Linss & Lsmps & Finss & Fsmps).
  assert (Htrk : 0 <= trk) by nia.
  clear Etrk.
  unfold loader_postb.
  cbn [r_m d_chn d_len d_pat d_trk d_ins d_smp d_rst d_name_ok d_type_ok d_xxo d_chans d_pats d_trks d_inss d_smps].
  (* the clauses, last to first *)
  apply andb_true_intro; split; [|reflexivity].                      (* d_type_ok *)
  apply andb_true_intro; split; [|reflexivity].                      (* d_name_ok *)
  apply andb_true_intro; split; [|exact Fsmps].                      (* samples *)
  apply andb_true_intro; split; [|exact Finss].                      (* instruments *)
  apply andb_true_intro; split.
  2:{ (* tracks *)
      apply forallb_forall. intros x Hx. apply repeat_spec in Hx. subst x. reflexivity. }
  apply andb_true_intro; split.
  2:{ (* patterns: 64 rows, one track number per channel *)
      rewrite forallb_map. apply forallb_forall. intros p _. cbv beta iota. cbn [p_rows p_index].
      apply andb_true_intro; split; [reflexivity|].
      unfold zlen. rewrite map_length, seq_length. apply Z.eqb_eq. lia. }
  apply andb_true_intro; split.
  2:{ (* channel table *)
      rewrite Lchans. apply Z.leb_le. lia. }
  apply andb_true_intro; split.
  2:{ unfold zlen. rewrite Lsmps. apply Z.eqb_eq. lia. }
  apply andb_true_intro; split.
  2:{ unfold zlen. rewrite Linss. apply Z.eqb_eq. lia. }
  apply andb_true_intro; split.
  2:{ unfold zlen. rewrite repeat_length. apply Z.eqb_eq. lia. }
  apply andb_true_intro; split.
  2:{ unfold zlen. rewrite map_length, seq_length. apply Z.eqb_eq. lia. }
  apply andb_true_intro; split.
  2:{ (* the order list has the declared length *)
      apply Z.eqb_eq. exact Lxxo. }
  apply andb_true_intro; split.
  2:{ (* the order list holds bytes *)
      apply Forall_byte_forallb. exact Fxxo. }
  apply andb_true_intro; split; [|apply Z.leb_le; lia].              (* d_smp <= 1024 *)
  apply andb_true_intro; split; [|apply Z.leb_le; lia].              (* d_ins <= 255 *)
  apply andb_true_intro; split; [|apply Z.leb_le; lia].              (* d_pat <= 257 *)
  apply andb_true_intro; split; [|reflexivity].                      (* 0 <= d_rst *)
  apply andb_true_intro; split; [|apply Z.leb_le; lia].              (* 0 <= d_trk *)
  apply andb_true_intro; split; [|apply Z.leb_le; lia].              (* 0 <= d_smp *)
  apply andb_true_intro; split; [|apply Z.leb_le; lia].              (* 0 <= d_ins *)
  apply andb_true_intro; split; [|apply Z.leb_le; lia].              (* 0 <= d_pat *)
  apply andb_true_intro; split; [|apply Z.leb_le; lia].              (* 0 <= d_len *)
  apply Z.leb_le. lia.
Qed.

(* what loader_postb does not ask for and the gate checks: every track number in every pattern names one of the d_trk
   allocated tracks (pattern p, channel c -> track p * chn + c < pat * chn) *)
Theorem s3m_track_indices_in_range : forall file r,
  Forall (fun b => 0 <= b <= 255) file -> s3m_raw file = Some r ->
  Forall (fun op => match op with Some p => Forall (fun t => 0 <= t < d_trk (r_m r)) (p_index p) | None => True end) (d_pats (r_m r)) /\
  Forall (fun ot => ot = Some 64) (d_trks (r_m r)) /\ zlen (d_trks (r_m r)) = d_trk (r_m r).
Proof.
  intros file r Hb H.
  destruct (s3m_raw_shape file r Hb H) as
    (chn & ordnum & pat & trk & insnum & spd & bpm & xxo & chans & inss & smps & -> &
     Hchn & Hord & Hpat & Etrk & Hins & Hspd & Hbpm & Fxxo & Lxxo & Lchans & Linss & Lsmps & Finss & Fsmps).
  cbn [r_m d_trk d_pats d_trks]. split; [|split].
  - apply Forall_forall. intros op Hop. apply in_map_iff in Hop as (p & <- & Hp).
    cbn [p_index]. apply Forall_forall. intros t Ht. apply in_map_iff in Ht as (c & <- & Hc).
    apply in_seq in Hp. apply in_seq in Hc. subst trk. nia.
  - apply Forall_forall. intros x Hx. apply repeat_spec in Hx. exact Hx.
  - unfold zlen. rewrite repeat_length. subst trk. nia.
Qed.

Corollary s3m_loaded_module_is_wf : forall file r m,
  Forall (fun b => 0 <= b <= 255) file -> s3m_raw file = Some r -> finish r = Some m -> wf_noseq m = true.
Proof.
  intros file r m Hb Hr Hf. apply (gate_wf r m Hf). apply (s3m_loader_establishes_post file r Hb Hr).
Qed.

Print Assumptions s3m_loader_establishes_post.
Print Assumptions s3m_track_indices_in_range.
Print Assumptions s3m_loaded_module_is_wf.
