(* C03: the MultiTracker loader model (Model/MtmLoad.v) establishes the loader post-condition of the gate theorem
   (Model/Gate.v, Proofs/GateProofs.v) for every byte string it accepts, complete or truncated; and every track number it
   leaves in a pattern names an allocated track. *)
From Coq Require Import ZArith List Lia Bool.
Import ListNotations.
From LX Require Import Base.ListAux Generated.Consts Model.ModCodec Model.SampleLoad Proofs.SampleLoadProofs Model.ModuleWf Model.Gate Proofs.GateProofs Model.ModLoad Proofs.ModLoadProofs Model.C669Load Proofs.C669LoadProofs Model.MtmLoad.
Local Open Scope Z_scope.
Ltac Zify.zify_post_hook ::= Z.div_mod_to_equations.

(* ---------- reading primitives ---------- *)
Lemma rd16l_range file pos : Forall (fun b => 0 <= b <= 255) file -> 0 <= fst (rd16l file pos) <= 65535.
Proof.
  intros Hb. unfold rd16l. destruct (2 <=? avail file pos); [|cbn [fst]; lia].
  destruct (zget file pos) as [a|] eqn:Ea; [|cbn [fst]; lia].
  destruct (zget file (pos + 1)) as [b|] eqn:Eb; [|cbn [fst]; lia].
  cbn [fst]. rewrite Forall_forall in Hb.
  pose proof (Hb a (zget_in _ _ _ Ea)) as Ha. pose proof (Hb b (zget_in _ _ _ Eb)) as Hb'. cbv beta in Ha, Hb'. lia.
Qed.

(* ---------- instruments ---------- *)
Lemma read_mtm_ins_length : forall n file pos ins p, read_mtm_ins n file pos = Some (ins, p) -> length ins = n.
Proof.
  induction n as [|n IH]; intros file pos ins p E; cbn [read_mtm_ins] in E.
  - injection E as <- _. reflexivity.
  - destruct (rdn file pos 22) as [x0 p1].
    destruct (rd32l file p1) as [len p2].
    destruct (C_MAX_SAMPLE_SIZE <? len); [discriminate|].
    destruct (rd32l file p2) as [lps p3].
    destruct (rd32l file p3) as [lpe p4].
    destruct (rd8 file p4) as [x5 p5].
    destruct (rd8 file p5) as [x6 p6].
    destruct (rd8 file p6) as [attr p7].
    cbv zeta in E.
    destruct (read_mtm_ins n file p7) as [[r q]|] eqn:E1; [|discriminate].
    injection E as <- _. cbn [length]. rewrite (IH _ _ _ _ E1). reflexivity.
Qed.

(* ---------- samples ---------- *)
Lemma load_smps_mtm_post : forall ins file pos r,
  load_smps_mtm ins file pos = Some r -> length r = length ins /\ forallb smp_postb r = true.
Proof.
  induction ins as [|i t IH]; intros file pos r E; cbn [load_smps_mtm] in E.
  - injection E as <-. split; reflexivity.
  - match type of E with match ?ls with _ => _ end = _ => destruct ls as [s' p'|s' blk p'|] eqn:EL end; [| |discriminate].
    + destruct (load_smps_mtm t file p') as [r1|] eqn:E1; [|discriminate]. injection E as <-.
      destruct (IH _ _ _ E1) as [L F]. split; [cbn [length]; rewrite L; reflexivity|].
      cbn [forallb]. rewrite smp_postb_nodata, F. reflexivity.
    + destruct (load_smps_mtm t file p') as [r1|] eqn:E1; [|discriminate]. injection E as <-.
      destruct (IH _ _ _ E1) as [L F]. split; [cbn [length]; rewrite L; reflexivity|].
      cbn [forallb]. rewrite (smp_postb_loaded _ _ _ _ _ _ _ _ _ EL), F. reflexivity.
Qed.

(* ---------- track numbers of one pattern ---------- *)
Lemma read_index_length : forall n trk file pos idx p, read_index n trk file pos = (idx, p) -> length idx = n.
Proof.
  induction n as [|n IH]; intros trk file pos idx p E; cbn [read_index] in E.
  - injection E as <- _. reflexivity.
  - destruct (rd16l file pos) as [t p1].
    destruct (read_index n trk file p1) as [r q] eqn:E1.
    injection E as <- _. cbn [length]. rewrite (IH _ _ _ _ _ E1). reflexivity.
Qed.

(* every track number kept names a track: anything at or above the track count has been replaced by track 0 *)
Lemma read_index_range : forall n trk file pos idx p,
  0 < trk -> Forall (fun b => 0 <= b <= 255) file -> read_index n trk file pos = (idx, p) -> Forall (fun t => 0 <= t < trk) idx.
Proof.
  induction n as [|n IH]; intros trk file pos idx p Htrk Hb E; cbn [read_index] in E.
  - injection E as <- _. constructor.
  - pose proof (rd16l_range file pos Hb) as Ht.
    destruct (rd16l file pos) as [t p1]. cbn [fst] in Ht.
    destruct (read_index n trk file p1) as [r q] eqn:E1.
    injection E as <- _. constructor.
    + destruct (Z.leb_spec trk t); lia.
    + exact (IH _ _ _ _ _ Htrk Hb E1).
Qed.

(* ---------- patterns ---------- *)
Lemma read_mtm_pats_spec : forall n chn trk file pos pats p,
  0 < trk -> 0 <= chn <= 32 -> Forall (fun b => 0 <= b <= 255) file ->
  read_mtm_pats n chn trk file pos = (pats, p) ->
  length pats = n /\
  Forall (fun pt => p_rows pt = 64 /\ zlen (p_index pt) = chn /\ Forall (fun t => 0 <= t < trk) (p_index pt)) pats.
Proof.
  induction n as [|n IH]; intros chn trk file pos pats p Htrk Hchn Hb E; cbn [read_mtm_pats] in E.
  - injection E as <- _. split; [reflexivity|constructor].
  - destruct (read_index 32 trk file pos) as [idx p1] eqn:EI.
    destruct (read_mtm_pats n chn trk file p1) as [r q] eqn:E1.
    injection E as <- _.
    destruct (IH _ _ _ _ _ _ Htrk Hchn Hb E1) as [L F].
    split; [cbn [length]; rewrite L; reflexivity|].
    constructor; [|exact F]. cbn [p_rows p_index].
    split; [reflexivity|]. split.
    + apply firstn_zlen; [lia|]. unfold zlen. rewrite (read_index_length _ _ _ _ _ _ EI). lia.
    + apply Forall_firstn. exact (read_index_range _ _ _ _ _ _ Htrk Hb EI).
Qed.

(* ---------- the order list: xxo[] has 256 entries, the file fills up to 128, the loader declares `len` of them ---------- *)
Lemma mtm_xxo_len (orders : list Z) len : 0 <= len <= 256 -> zlen (firstn (Z.to_nat len) (orders ++ repeat 0 256)) = len.
Proof.
  intros Hlen. apply firstn_zlen; [lia|]. unfold zlen. rewrite app_length, repeat_length. lia.
Qed.
Lemma mtm_xxo_bytes orders n : Forall (fun b => 0 <= b <= 255) orders ->
  forallb (fun o => (0 <=? o) && (o <=? 255)) (firstn n (orders ++ repeat 0 256)) = true.
Proof.
  intros Ford. apply forallb_firstn. rewrite forallb_app. rewrite (Forall_byte_forallb _ Ford). cbn [andb].
  apply forallb_forall. intros x Hx. apply repeat_spec in Hx. subst x. reflexivity.
Qed.

(* ---------- what mtm_raw returns, field by field ---------- *)
Lemma mtm_raw_shape file r :
  Forall (fun b => 0 <= b <= 255) file -> mtm_raw file = Some r ->
  exists channels len pat trk samples ins orders pats smps chans,
    r = {| r_m := {| d_chn := channels; d_len := len; d_pat := pat; d_trk := trk; d_ins := samples; d_smp := samples; d_spd := 6; d_bpm := 125; d_rst := 0;
                     d_name_ok := true; d_type_ok := true;
                     d_xxo := firstn (Z.to_nat len) (orders ++ repeat 0 256);
                     d_chans := chans;
                     d_pats := map Some pats;
                     d_trks := repeat (Some 64) (Z.to_nat trk);
                     d_inss := map (fun i => {| i_nsm := if 0 <? t_len i then 1 else 0; i_sub := true; i_name_ok := true; i_aei := noenv; i_pei := noenv; i_fei := noenv |}) ins;
                     d_smps := smps;
                     d_seqs := [] |};
           r_has_xxp := true; r_has_xxt := true |} /\
    0 <= channels <= 32 /\ 1 <= len <= 256 /\ 1 <= pat <= 256 /\ 1 <= trk <= 65536 /\ 0 <= samples <= 63 /\
    length ins = Z.to_nat samples /\ Forall (fun b => 0 <= b <= 255) orders /\
    length pats = Z.to_nat pat /\
    Forall (fun pt => p_rows pt = 64 /\ zlen (p_index pt) = channels /\ Forall (fun t => 0 <= t < trk) (p_index pt)) pats /\
    length smps = length ins /\ forallb smp_postb smps = true /\ zlen chans = 64.
Proof.
  intros Hb H. unfold mtm_raw in H.
  destruct (negb (mtm_test file)); [discriminate|].
  destruct (rd16l file 24) as [tracks p1] eqn:E1.
  destruct (rd8 file p1) as [patterns p2] eqn:E2.
  destruct (rd8 file p2) as [modlen p3] eqn:E3.
  destruct (rd16l file p3) as [extralen p4] eqn:E4.
  destruct (rd8 file p4) as [samples p5] eqn:E5.
  destruct (Z.ltb_spec 63 samples) as [|Hsmp]; [discriminate|].
  destruct (rd8 file p5) as [x6 p6] eqn:E6.
  destruct (rd8 file p6) as [rows p7] eqn:E7.
  destruct (negb (rows =? 64)); [discriminate|].
  destruct (rd8 file p7) as [channels p8] eqn:E8.
  destruct (Z.ltb_spec 32 channels) as [|Hchn]; [discriminate|].
  destruct (rdn file p8 32) as [pan p9] eqn:E9.
  destruct (zlen file <? 66); [discriminate|].
  cbv zeta in H.
  destruct (read_mtm_ins (Z.to_nat samples) file p9) as [[ins p10]|] eqn:EI; [|discriminate].
  destruct (rdn file p10 128) as [orders p11] eqn:E11.
  destruct (read_tracks (Z.to_nat tracks) file p11) as [p12|]; [|discriminate].
  (* what is known about the header fields *)
  pose proof (rd16l_range file 24 Hb) as Btrk. rewrite E1 in Btrk. cbn [fst] in Btrk.
  pose proof (rd8_byte file p1 Hb) as Bpat. rewrite E2 in Bpat. cbn [fst] in Bpat.
  pose proof (rd8_byte file p2 Hb) as Blen. rewrite E3 in Blen. cbn [fst] in Blen.
  pose proof (rd8_byte file p4 Hb) as Bsmp. rewrite E5 in Bsmp. cbn [fst] in Bsmp.
  pose proof (rd8_byte file p7 Hb) as Bchn. rewrite E8 in Bchn. cbn [fst] in Bchn.
  pose proof (rdn_bytes file p10 128 Hb) as Ford. rewrite E11 in Ford. cbn [fst] in Ford.
  pose proof (read_mtm_ins_length _ _ _ _ _ EI) as Lins.
  set (trk := tracks + 1) in *. assert (Htrk : 1 <= trk <= 65536) by (unfold trk; lia).
  set (pat := patterns + 1) in *. assert (Hpat : 1 <= pat <= 256) by (unfold pat; lia).
  set (len := modlen + 1) in *. assert (Hlen : 1 <= len <= 256) by (unfold len; lia).
  clearbody trk pat len.
  destruct (read_mtm_pats (Z.to_nat pat) channels trk file p12) as [pats p13] eqn:EP.
  match type of H with match ?ls with _ => _ end = _ => destruct ls as [smps|] eqn:ES end; [|discriminate].
  assert (Htrk0 : 0 < trk) by lia. assert (Hchn0 : 0 <= channels <= 32) by lia.
  destruct (read_mtm_pats_spec _ _ _ _ _ _ _ Htrk0 Hchn0 Hb EP) as [Lpats Fpats].
  destruct (load_smps_mtm_post _ _ _ _ ES) as [Lsmps Fsmps].
  set (chans := map _ (seq 0 64)) in H.
  assert (Lchans : zlen chans = 64) by (unfold chans, zlen; rewrite map_length, seq_length; reflexivity).
  clearbody chans.
  set (pad := repeat 0 256) in H. assert (Epad : pad = repeat 0 256) by reflexivity. clearbody pad.
  injection H as <-. rewrite Epad.
  exists channels, len, pat, trk, samples, ins, orders, pats, smps, chans.
  split; [reflexivity|].
  repeat (split; [first [assumption | lia]|]).
  exact Lchans.
Qed.

Theorem mtm_loader_establishes_post : forall file r,
  Forall (fun b => 0 <= b <= 255) file -> mtm_raw file = Some r -> loader_postb r = true.
Proof.
  intros file r Hb H.
  destruct (mtm_raw_shape file r Hb H) as
    (channels & len & pat & trk & samples & ins & orders & pats & smps & chans & -> &
     Hchn & Hlen & Hpat & Htrk & Hsmp & Lins & Ford & Lpats & Fpats & Lsmps & Fsmps & Lchans).
  unfold loader_postb.
  cbn [r_m d_chn d_len d_pat d_trk d_ins d_smp d_rst d_name_ok d_type_ok d_xxo d_chans d_pats d_trks d_inss d_smps].
  (* the clauses, last to first *)
  apply andb_true_intro; split; [|reflexivity].                      (* d_type_ok *)
  apply andb_true_intro; split; [|reflexivity].                      (* d_name_ok *)
  apply andb_true_intro; split; [|exact Fsmps].                      (* samples *)
  apply andb_true_intro; split.
  2:{ (* instruments *)
      rewrite forallb_map. apply forallb_forall. intros i _. destruct (0 <? t_len i); reflexivity. }
  apply andb_true_intro; split.
  2:{ (* tracks *)
      apply forallb_forall. intros x Hx. apply repeat_spec in Hx. subst x. reflexivity. }
  apply andb_true_intro; split.
  2:{ (* patterns: 64 rows, one track number per channel *)
      rewrite forallb_map. apply forallb_forall. intros p Hp. rewrite Forall_forall in Fpats.
      destruct (Fpats p Hp) as (Hr & Hi & _). rewrite Hr, Hi.
      apply andb_true_intro; split; [reflexivity|apply Z.eqb_eq; reflexivity]. }
  apply andb_true_intro; split.
  2:{ (* channel table *)
      rewrite Lchans. apply Z.leb_le. lia. }
  apply andb_true_intro; split.
  2:{ unfold zlen. rewrite Lsmps, Lins. apply Z.eqb_eq. lia. }
  apply andb_true_intro; split.
  2:{ unfold zlen. rewrite map_length, Lins. apply Z.eqb_eq. lia. }
  apply andb_true_intro; split.
  2:{ unfold zlen. rewrite repeat_length. apply Z.eqb_eq. lia. }
  apply andb_true_intro; split.
  2:{ unfold zlen. rewrite map_length, Lpats. apply Z.eqb_eq. lia. }
  apply andb_true_intro; split.
  2:{ (* the order list has the declared length *)
      apply Z.eqb_eq. apply mtm_xxo_len. lia. }
  apply andb_true_intro; split.
  2:{ (* the order list holds bytes *)
      apply mtm_xxo_bytes. exact Ford. }
  apply andb_true_intro; split; [|apply Z.leb_le; lia].              (* d_smp <= 1024 *)
  apply andb_true_intro; split; [|apply Z.leb_le; lia].              (* d_ins <= 255 *)
  apply andb_true_intro; split; [|apply Z.leb_le; lia].              (* d_pat <= 257 *)
  apply andb_true_intro; split; [|reflexivity].                      (* 0 <= d_rst *)
  apply andb_true_intro; split; [|apply Z.leb_le; lia].              (* 0 <= d_trk *)
  apply andb_true_intro; split; [|apply Z.leb_le; lia].              (* 0 <= d_smp *)
  apply andb_true_intro; split; [|apply Z.leb_le; lia].              (* 0 <= d_ins *)
  apply andb_true_intro; split; [|apply Z.leb_le; lia].              (* 0 <= d_pat *)
  apply andb_true_intro; split; [|apply Z.leb_le; lia].              (* 0 <= d_len *)
  apply Z.leb_le. lia.
Qed.

(* the track-index clause, which loader_postb does not ask for (the gate checks it): every track number in every pattern the
   loader leaves behind names one of the d_trk allocated tracks *)
Theorem mtm_track_indices_in_range : forall file r,
  Forall (fun b => 0 <= b <= 255) file -> mtm_raw file = Some r ->
  Forall (fun op => match op with Some p => Forall (fun t => 0 <= t < d_trk (r_m r)) (p_index p) | None => True end) (d_pats (r_m r)) /\
  Forall (fun ot => ot = Some 64) (d_trks (r_m r)) /\ zlen (d_trks (r_m r)) = d_trk (r_m r).
Proof.
  intros file r Hb H.
  destruct (mtm_raw_shape file r Hb H) as
    (channels & len & pat & trk & samples & ins & orders & pats & smps & chans & -> &
     Hchn & Hlen & Hpat & Htrk & Hsmp & Lins & Ford & Lpats & Fpats & Lsmps & Fsmps & Lchans).
  cbn [r_m d_trk d_pats d_trks]. split; [|split].
  - apply Forall_forall. intros op Hop. apply in_map_iff in Hop as (p & <- & Hp).
    rewrite Forall_forall in Fpats. destruct (Fpats p Hp) as (_ & _ & Hi). exact Hi.
  - apply Forall_forall. intros x Hx. apply repeat_spec in Hx. exact Hx.
  - unfold zlen. rewrite repeat_length. lia.
Qed.

Corollary mtm_loaded_module_is_wf : forall file r m,
  Forall (fun b => 0 <= b <= 255) file -> mtm_raw file = Some r -> finish r = Some m -> wf_noseq m = true.
Proof.
  intros file r m Hb Hr Hf. apply (gate_wf r m Hf). apply (mtm_loader_establishes_post file r Hb Hr).
Qed.

Print Assumptions read_index_range.
Print Assumptions mtm_loader_establishes_post.
Print Assumptions mtm_track_indices_in_range.
Print Assumptions mtm_loaded_module_is_wf.
