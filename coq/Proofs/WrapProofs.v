From Coq Require Import ZArith List Lia Bool Arith.
Import ListNotations.
From LX Require Import Base.ListAux Model.Wrap.

(* ---- folds of single-unit writes only touch their region ---- *)
Lemma fold_upd_frame (g : nat -> nat) (f : list Z -> nat -> Z) a n : forall l d,
  (forall i, In i l -> a <= g i < a + n) ->
  length (fold_left (fun d i => upd d (g i) (f d i)) l d) = length d /\
  forall j, ~ (a <= j < a + n) -> geti (fold_left (fun d i => upd d (g i) (f d i)) l d) j = geti d j.
Proof.
  induction l as [|i l IH]; intros d H; cbn [fold_left]; [auto|].
  destruct (IH (upd d (g i) (f d i))) as [L N]; [intros k Hk; apply H; right; exact Hk|].
  rewrite upd_length in L. split; [exact L|]. intros j Hj. rewrite N by exact Hj. unfold geti.
  apply nth_upd_other. specialize (H i (or_introl eq_refl)). lia.
Qed.

(* ---- memcpy back ---- *)
Lemma restore_length a l d : a + length l <= length d -> length (restore a l d) = length d.
Proof. intros H. unfold restore. rewrite !app_length, firstn_length, skipn_length. lia. Qed.

Lemma restore_nth a l d j : a + length l <= length d ->
  geti (restore a l d) j = if (a <=? j) && (j <? a + length l) then nth (j - a) l 0%Z else geti d j.
Proof.
  intros H. unfold restore, geti.
  destruct (Nat.leb_spec a j) as [Haj|Haj]; cbn [andb].
  - rewrite app_nth2 by (rewrite firstn_length; lia). rewrite firstn_length, Nat.min_l by lia.
    destruct (Nat.ltb_spec j (a + length l)) as [Hj|Hj].
    + rewrite app_nth1 by lia. reflexivity.
    + rewrite app_nth2 by lia. rewrite nth_skipn. f_equal. lia.
  - rewrite app_nth1 by (rewrite firstn_length; lia). apply nth_firstn. lia.
Qed.

Lemma nth_window n a d k : k < n -> nth k (firstn n (skipn a d)) 0%Z = nth (a + k) d 0%Z.
Proof. intros H. rewrite nth_firstn by exact H. apply nth_skipn. Qed.

(* ---- the patch only touches the prologue and epilogue windows ---- *)
Lemma patch_frame p d : w_pn p <= w_s p ->
  length (patch_epi p (patch_pro p d)) = length d /\
  forall j, ~ (w_s p - w_pn p <= j < w_s p) -> ~ (w_e p <= j < w_e p + w_en p) -> geti (patch_epi p (patch_pro p d)) j = geti d j.
Proof.
  intros Hp. unfold patch_epi.
  destruct (fold_upd_frame (fun i => w_e p + i) (fun d i => geti d (if w_bidir p then w_e p - 1 - i else w_s p + i)) (w_e p) (w_en p) (seq 0 (w_en p)) (patch_pro p d)) as [L1 N1].
  { intros i Hi. apply in_seq in Hi. lia. }
  assert (P : length (patch_pro p d) = length d /\ forall j, ~ (w_s p - w_pn p <= j < w_s p) -> geti (patch_pro p d) j = geti d j).
  { unfold patch_pro. destruct (w_first p); [auto|].
    destruct (fold_upd_frame (fun i => w_s p - w_pn p + i) (fun d i => geti d (if w_bidir p then w_s p + w_pn p - 1 - i else w_e p + i - w_pn p)) (w_s p - w_pn p) (w_pn p) (seq 0 (w_pn p)) d) as [L2 N2].
    { intros i Hi. apply in_seq in Hi. lia. }
    split; [exact L2|]. intros j Hj. apply N2. lia. }
  destruct P as [L2 N2]. split; [lia|]. intros j H1 H2. rewrite N1 by exact H2. apply N2. exact H1.
Qed.

(* ---- restoring after patching gives back the block, bit for bit, guard frames included ---- *)
Lemma wrap_restore_id p d : wpar_okb p (length d) = true ->
  wrap_reset p (snd (wrap_init p d)) (fst (wrap_init p d)) = d.
Proof.
  unfold wpar_okb. intros H. apply andb_prop in H as [H H3]. apply andb_prop in H as [H1 H2].
  apply Nat.leb_le in H1, H2, H3.
  unfold wrap_init, wrap_reset. cbn [fst snd b_pro b_epi].
  destruct (patch_frame p d H1) as [L N]. set (d2 := patch_epi p (patch_pro p d)) in *.
  set (pro := firstn (w_pn p) (skipn (w_s p - w_pn p) d)). set (epi := firstn (w_en p) (skipn (w_e p) d)).
  assert (Lp : length pro = w_pn p) by (unfold pro; rewrite firstn_length, skipn_length; lia).
  assert (Le : length epi = w_en p) by (unfold epi; rewrite firstn_length, skipn_length; lia).
  assert (L1 : length (restore (w_s p - w_pn p) pro d2) = length d) by (rewrite restore_length; lia).
  apply (nth_ext _ _ 0%Z 0%Z); [rewrite restore_length; lia|].
  intros j Hj. rewrite restore_length in Hj by lia.
  change (geti (restore (w_e p) epi (restore (w_s p - w_pn p) pro d2)) j = geti d j).
  rewrite restore_nth by lia. rewrite Le.
  destruct (Nat.leb_spec (w_e p) j) as [A|A]; [destruct (Nat.ltb_spec j (w_e p + w_en p)) as [B|B]|]; cbn [andb].
  - unfold epi. rewrite nth_window by lia. unfold geti. f_equal. lia.
  - rewrite restore_nth by lia. rewrite Lp.
    destruct (Nat.leb_spec (w_s p - w_pn p) j) as [C|C]; [destruct (Nat.ltb_spec j (w_s p - w_pn p + w_pn p)) as [D|D]|]; cbn [andb]; try lia.
    apply N; lia.
  - rewrite restore_nth by lia. rewrite Lp.
    destruct (Nat.leb_spec (w_s p - w_pn p) j) as [C|C]; [destruct (Nat.ltb_spec j (w_s p - w_pn p + w_pn p)) as [D|D]|]; cbn [andb].
    + unfold pro. rewrite nth_window by lia. unfold geti. f_equal. lia.
    + apply N; lia.
    + apply N; lia.
Qed.

Lemma wrap_init_length p d : w_pn p <= w_s p -> length (fst (wrap_init p d)) = length d.
Proof. intros H. unfold wrap_init. cbn [fst]. apply (patch_frame p d H). Qed.

(* ---- the protocol: any event sequence that ends without error and with nothing patched leaves every sample as it was ---- *)
Definition winv (smps : list (list Z)) (st : wstate) : Prop :=
  ws_err st = false ->
  match ws_cur st with
  | None | Some None => ws_smps st = smps
  | Some (Some (smp, p, b)) =>
      smp < length smps /\ wpar_okb p (length (nth smp smps [])) = true /\
      ws_smps st = upd smps smp (fst (wrap_init p (nth smp smps []))) /\ b = snd (wrap_init p (nth smp smps []))
  end.

Lemma upd_upd_same {A} (l : list A) n x y : upd (upd l n x) n y = upd l n y.
Proof. revert n; induction l as [|h t IH]; intros [|n]; cbn; auto. f_equal. apply IH. Qed.
Lemma upd_nth_self {A} (l : list A) n d : n < length l -> upd l n (nth n l d) = l.
Proof. revert n; induction l as [|h t IH]; intros [|n] H; cbn in *; try lia; auto. f_equal. apply IH. lia. Qed.

Lemma wstep_err st e : ws_err st = true -> ws_err (wstep st e) = true.
Proof.
  intros H. unfold wstep. destruct e as [smp p| |]; destruct (ws_cur st) as [[[[s1 p1] b1]|]|]; cbn [ws_err]; auto.
  destruct (wpar_okb p (length (nth smp (ws_smps st) [])) && (smp <? length (ws_smps st))); [|reflexivity].
  destruct (wrap_init p (nth smp (ws_smps st) [])) as [d' b]. cbn [ws_err]. exact H.
Qed.

Lemma wstep_inv smps st e : winv smps st -> winv smps (wstep st e).
Proof.
  intros I. unfold winv in *. intros E.
  assert (E0 : ws_err st = false) by (destruct (ws_err st) eqn:X; [rewrite (wstep_err st e X) in E; discriminate|reflexivity]).
  specialize (I E0). unfold wstep in *.
  destruct e as [smp p| |]; destruct (ws_cur st) as [[[[s1 p1] b1]|]|] eqn:C; cbn [ws_cur ws_smps ws_err] in *; try discriminate; try exact I.
  - (* init on a clean state *)
    destruct (wpar_okb p (length (nth smp (ws_smps st) [])) && (smp <? length (ws_smps st))) eqn:G; [|cbn in E; discriminate].
    apply andb_prop in G as [G1 G2]. apply Nat.ltb_lt in G2. rewrite I in *.
    destruct (wrap_init p (nth smp smps [])) as [d' b] eqn:W. cbn [ws_cur ws_smps]. repeat split; auto; rewrite W; reflexivity.
  - (* restore *)
    destruct I as (I1 & I2 & I3 & I4). rewrite I3, I4.
    rewrite nth_upd_same by exact I1. rewrite wrap_restore_id by exact I2. rewrite upd_upd_same. apply upd_nth_self. exact I1.
Qed.

Lemma wrun_inv smps evs : winv smps (wrun smps evs).
Proof.
  unfold wrun. assert (I0 : winv smps {| ws_smps := smps; ws_cur := None; ws_err := false |}) by (intros _; reflexivity).
  revert I0. generalize ({| ws_smps := smps; ws_cur := None; ws_err := false |}). induction evs as [|e t IH]; intros st I; cbn [fold_left]; [exact I|].
  apply IH. apply wstep_inv. exact I.
Qed.

(* ---- invert loop ---- *)
Lemma invloop_index_range lps pos len : (0 <= len)%Z -> (0 <= pos <= len)%Z ->
  (lps <= invloop_index lps pos len <= lps + len)%Z /\ (0 <= invloop_next pos len <= len)%Z.
Proof. intros Hl Hp. unfold invloop_index, invloop_next. destruct (Z.ltb_spec len (pos + 1)); lia. Qed.

(* ---- the cheap checker decides the same thing as the full run ---- *)
Definition srel (st : wstate) (ss : option bool * bool) : Prop :=
  snd ss = ws_err st /\
  match ws_cur st, fst ss with
  | None, None => True | Some None, Some false => True
  | Some (Some (smp, p, b)), Some true => smp < length (ws_smps st) /\ w_pn p <= w_s p /\ w_e p + length (b_epi b) <= length (nth smp (ws_smps st) []) /\
                                          w_s p - w_pn p + length (b_pro b) <= length (nth smp (ws_smps st) [])
  | _, _ => False
  end.

Lemma map_length_upd (l : list (list Z)) n x : n < length l -> length x = length (nth n l []) -> map (@length Z) (upd l n x) = map (@length Z) l.
Proof.
  revert n; induction l as [|h t IH]; intros [|n] H1 H2; cbn in *; try lia; [rewrite H2; reflexivity|]. f_equal. apply IH; [lia|exact H2].
Qed.

Lemma wrap_reset_length p b d : w_e p + length (b_epi b) <= length d -> w_s p - w_pn p + length (b_pro b) <= length d ->
  length (wrap_reset p b d) = length d.
Proof. intros H1 H2. unfold wrap_reset. rewrite restore_length; rewrite restore_length; lia. Qed.

Lemma sstep_sim lens st ss e : lens = map (@length Z) (ws_smps st) -> srel st ss ->
  lens = map (@length Z) (ws_smps (wstep st e)) /\ srel (wstep st e) (sstep lens ss e).
Proof.
  intros HL [R1 R2]. destruct ss as [sc se]. cbn [fst snd] in *. unfold wstep, sstep. cbn [fst snd].
  destruct e as [smp p| |]; destruct (ws_cur st) as [[[[s1 p1] b1]|]|] eqn:C; destruct sc as [[|]|]; try contradiction;
    cbn [ws_smps ws_cur ws_err]; try (split; [exact HL|split; [try exact R1; reflexivity|cbn [ws_cur fst]; rewrite ?C; auto]]).
  - (* init *)
    assert (Hn : nth smp lens 0 = length (nth smp (ws_smps st) [])) by (rewrite HL; change 0 with (length (@nil Z)); apply map_nth).
    assert (Hl : length lens = length (ws_smps st)) by (rewrite HL; apply map_length).
    rewrite Hn, Hl.
    destruct (wpar_okb p (length (nth smp (ws_smps st) [])) && (smp <? length (ws_smps st))) eqn:G.
    + apply andb_prop in G as [G1 G2]. apply Nat.ltb_lt in G2.
      pose proof G1 as G1'. unfold wpar_okb in G1'. apply andb_prop in G1' as [G1' G5]. apply andb_prop in G1' as [G3 G4]. apply Nat.leb_le in G3, G4, G5.
      unfold wrap_init. cbn [ws_smps ws_cur ws_err fst snd].
      pose proof (patch_frame p (nth smp (ws_smps st) []) G3) as [PL _].
      split; [rewrite map_length_upd; [exact HL|exact G2|exact PL]|].
      unfold srel. cbn [ws_smps ws_cur ws_err fst snd b_epi b_pro]. split; [exact R1|]. rewrite upd_length, nth_upd_same by exact G2. rewrite PL.
      rewrite !firstn_length, !skipn_length. repeat split; lia.
    + cbn [ws_smps ws_cur ws_err]. split; [exact HL|]. split; [reflexivity|]. cbn [fst ws_cur]. exact I.
  - (* restore of a patched block *)
    destruct R2 as (Q1 & Q2 & Q3 & Q4).
    split; [rewrite map_length_upd; [exact HL|exact Q1|apply wrap_reset_length; assumption]|].
    split; [exact R1|]. cbn [ws_cur fst]. exact I.
Qed.

Lemma srun_sim smps evs : let st := wrun smps evs in let ss := srun (map (@length Z) smps) evs in
  snd ss = ws_err st /\ (fst ss = None <-> ws_cur st = None).
Proof.
  unfold wrun, srun.
  assert (G : forall evs st ss, map (@length Z) smps = map (@length Z) (ws_smps st) -> srel st ss ->
              srel (fold_left wstep evs st) (fold_left (sstep (map (@length Z) smps)) evs ss)).
  { induction evs0 as [|e t IH]; intros st ss HL R; cbn [fold_left]; [exact R|].
    destruct (sstep_sim _ st ss e HL R) as [HL' R']. apply IH; assumption. }
  specialize (G evs {| ws_smps := smps; ws_cur := None; ws_err := false |} (None, false) eq_refl (conj eq_refl I)).
  cbv zeta. destruct G as [G1 G2]. split; [exact G1|].
  destruct (ws_cur (fold_left wstep evs {| ws_smps := smps; ws_cur := None; ws_err := false |})) as [[[[s1 p1] b1]|]|];
    destruct (fst (fold_left (sstep (map (@length Z) smps)) evs (None, false))) as [[|]|]; try contradiction; split; intros; try discriminate; reflexivity.
Qed.
