(* C08: the ARC / Spark LZW unpackers of Model/ArcLzw.v invert the writer of the same file:
   squashed_roundtrip, compressed_roundtrip, crunched_roundtrip. *)
From Coq Require Import ZArith List Lia Bool FMapPositive.
Import ListNotations.
From LX Require Import Base.ListAux Model.Lzw Proofs.LzwBitsProofs Model.Rle90 Proofs.Rle90Proofs Model.ArcLzw.
Local Open Scope Z_scope.
Ltac Zify.zify_post_hook ::= Z.div_mod_to_equations.

(* ---------------------------------------------------------------- table basics ----------------------------------------- *)
Lemma aget_byte t c : c < 256 -> aget t c = (0, 1, c).
Proof. intros H. unfold aget. destruct (Z.ltb_spec c 256); [reflexivity|lia]. Qed.

Lemma aget_aset_same t c e : 256 <= c -> aget (aset t c e) c = e.
Proof. intros H. unfold aget, aset. destruct (Z.ltb_spec c 256); [lia|]. rewrite PositiveMap.gss. reflexivity. Qed.

Lemma aget_aset_other t c e k : 0 < c -> k <> c -> aget (aset t c e) k = aget t k.
Proof.
  intros Hc Hne. unfold aget, aset. destruct (Z.ltb_spec k 256); [reflexivity|].
  rewrite PositiveMap.gso; [reflexivity|]. intros E. apply Z2Pos.inj in E; lia.
Qed.

Lemma dkey_inj a b c d : 0 <= a -> 0 <= b <= 255 -> 0 <= c -> 0 <= d <= 255 -> dkey a b = dkey c d -> a = c /\ b = d.
Proof. intros Ha Hb Hc Hd E. unfold dkey in E. apply Z2Pos.inj in E; lia. Qed.

Lemma last_cons_ne (x : Z) r d : r <> [] -> last (x :: r) d = last r d.
Proof. intros H. destruct r; [congruence|reflexivity]. Qed.

Lemma hd_rev (r : list Z) d : hd d (rev r) = last r d.
Proof.
  induction r as [|x r IH]; [reflexivity|]. cbn [rev]. destruct r as [|y r'].
  - reflexivity.
  - rewrite last_cons_ne by discriminate. rewrite <- IH. cbn [rev]. destruct (rev r' ++ [y]) eqn:E.
    + apply app_eq_nil in E. destruct E; discriminate.
    + reflexivity.
Qed.

Lemma bytesb_cons ch t : bytesb (ch :: t) = true -> 0 <= ch <= 255 /\ bytesb t = true.
Proof.
  unfold bytesb. cbn [forallb]. intros H. apply andb_prop in H as [A B]. apply andb_prop in A as [A1 A2].
  apply Z.leb_le in A1. apply Z.leb_le in A2. split; [lia|assumption].
Qed.

(* ---------------------------------------------------------------- strings of codes ------------------------------------- *)
(* AStr T c r: r is the string of code c in table T, last byte first, and the stored lengths are the true lengths *)
Inductive AStr (T : atab) : Z -> list Z -> Prop :=
| AStr_byte c : 0 <= c < 256 -> AStr T c [c]
| AStr_ent c pre ch r : 257 <= c -> aget T c = (pre, Z.of_nat (length r) + 1, ch) -> 0 <= ch <= 255 -> pre < c ->
    AStr T pre r -> AStr T c (ch :: r).

Lemma AStr_nonneg T c r : AStr T c r -> 0 <= c.
Proof. intros H. destruct H; lia. Qed.

Lemma AStr_valid T c r : AStr T c r -> 0 <= c < 256 \/ 257 <= c.
Proof. intros H. destruct H; lia. Qed.

Lemma AStr_nonempty T c r : AStr T c r -> r <> [].
Proof. intros H. destruct H; discriminate. Qed.

Lemma AStr_fun T c r1 : AStr T c r1 -> forall r2, AStr T c r2 -> r1 = r2.
Proof.
  induction 1 as [c Hc|c pre ch r H256 Hg Hch Hpre Hs IH]; intros r2 H2.
  - inversion H2; subst; [reflexivity|lia].
  - inversion H2 as [|c' pre' ch' r' A G C D E]; subst; [lia|].
    rewrite Hg in G. inversion G; subst. f_equal. apply IH. assumption.
Qed.

Lemma AStr_agree T T' c r : AStr T c r -> (forall k, 257 <= k -> k <= c -> aget T' k = aget T k) -> AStr T' c r.
Proof.
  induction 1 as [c Hc|c pre ch r H256 Hg Hch Hpre Hs IH]; intros Hag.
  - apply AStr_byte. assumption.
  - apply AStr_ent with pre; try assumption.
    + rewrite Hag by lia. assumption.
    + apply IH. intros k A B. apply Hag; lia.
Qed.

Lemma AStr_inv_ent T c r : AStr T c r -> 256 <= c ->
  exists pre ch r', r = ch :: r' /\ aget T c = (pre, Z.of_nat (length r') + 1, ch) /\ 0 <= ch <= 255 /\ pre < c /\ AStr T pre r'.
Proof. intros H Hc. destruct H as [c Hb|c pre ch r H256 Hg Hch Hpre Hs]; [lia|]. exists pre, ch, r. auto 10. Qed.

Lemma AStr_inv_byte T c r : AStr T c r -> c < 256 -> r = [c].
Proof. intros H Hc. destruct H as [c Hb|c pre ch r H256 Hg Hch Hpre Hs]; [reflexivity|lia]. Qed.

Lemma AStr_aget T c r : AStr T c r -> exists p v, aget T c = (p, Z.of_nat (length r), v).
Proof.
  intros H. destruct H as [c Hb|c pre ch r H256 Hg Hch Hpre Hs].
  - exists 0, c. rewrite aget_byte by lia. reflexivity.
  - exists pre, ch. rewrite Hg. cbn [length]. f_equal. f_equal. lia.
Qed.

Lemma AStr_emit T c r : AStr T c r -> forall acc, emit (length r) T (aget T c) acc = rev r ++ acc.
Proof.
  induction 1 as [c Hc|c pre ch r H256 Hg Hch Hpre Hs IH]; intros acc.
  - rewrite aget_byte by lia. reflexivity.
  - rewrite Hg. cbn [length emit]. rewrite IH. cbn [rev]. rewrite <- app_assoc. reflexivity.
Qed.

Lemma AStr_get_length T m c r : AStr T c r -> get_length T m (aget T c) = Z.of_nat (length r).
Proof.
  intros H. pose proof (AStr_nonempty _ _ _ H) as Hne. destruct (AStr_aget _ _ _ H) as [p [v E]]. rewrite E.
  unfold get_length. destruct (Z.eqb_spec (Z.of_nat (length r)) 0) as [Z0|_]; [|reflexivity].
  destruct r; [congruence|cbn [length] in Z0; lia].
Qed.

(* ---------------------------------------------------------------- the code reader -------------------------------------- *)
Lemma read_code_ok w c R : 0 <= w -> 0 <= c < 2 ^ w -> read_code w (bits_of_z (Z.to_nat w) c ++ R) = (Some c, R).
Proof.
  intros Hw Hc. unfold read_code.
  rewrite (firstn_exact (bits_of_z (Z.to_nat w) c) R _ (bits_of_z_length _ _)).
  rewrite (skipn_exact (bits_of_z (Z.to_nat w) c) R _ (bits_of_z_length _ _)).
  rewrite bits_of_z_length, Nat.ltb_irrefl.
  rewrite z_of_bits_of_z by (rewrite Z2Nat.id by lia; exact Hc). reflexivity.
Qed.

Lemma read_code_short w b : (length b < Z.to_nat w)%nat -> read_code w b = (None, []).
Proof.
  intros H. unfold read_code. rewrite firstn_all2 by lia.
  destruct (Nat.ltb_spec (length b) (Z.to_nat w)); [reflexivity|lia].
Qed.

Lemma read_group_S k w c R : 0 <= w -> 0 <= c < 2 ^ w ->
  read_group (S k) w (bits_of_z (Z.to_nat w) c ++ R) = (Some c :: fst (read_group k w R), snd (read_group k w R)).
Proof.
  intros Hw Hc. cbn [read_group]. rewrite read_code_ok by assumption.
  destruct (read_group k w R) as [cs b']. reflexivity.
Qed.

Lemma read_group_short k w b : (length b < Z.to_nat w)%nat -> read_group (S k) w b = (repeat None (S k), []).
Proof. intros H. cbn [read_group]. rewrite read_code_short by assumption. reflexivity. Qed.

Lemma read_group_len k : forall w b, length (fst (read_group k w b)) = k.
Proof.
  induction k as [|k IH]; intros w b; [reflexivity|]. cbn [read_group].
  destruct (read_code w b) as [[c|] b1].
  - specialize (IH w b1). destruct (read_group k w b1) as [cs b']. cbn [fst length] in *. lia.
  - cbn [fst]. apply repeat_length.
Qed.

Lemma read_group_zeros k : forall w R, 0 <= w ->
  read_group k w (repeat false (Z.to_nat (Z.of_nat k * w)) ++ R) = (repeat (Some 0) k, R).
Proof.
  induction k as [|k IH]; intros w R Hw.
  - cbn [read_group]. change (Z.of_nat 0 * w) with 0. reflexivity.
  - replace (Z.to_nat (Z.of_nat (S k) * w)) with (Z.to_nat w + Z.to_nat (Z.of_nat k * w))%nat by lia.
    rewrite repeat_app, <- app_assoc, <- bits_of_z_zero.
    assert (H0 : 0 <= 0 < 2 ^ w) by (split; [lia|apply Z.pow_pos_nonneg; lia]).
    rewrite read_group_S by assumption. rewrite IH by assumption. reflexivity.
Qed.

(* what arc_next_code will hand out: the buffered group if it is still valid, a fresh group otherwise *)
Definition eff (s : ast) : list (option Z) * list bool :=
  match a_buf s with
  | [] => read_group 8 (a_width s) (a_bits s)
  | _ => if a_bufw s =? a_width s then (a_buf s, a_bits s) else read_group 8 (a_width s) (a_bits s)
  end.

Lemma next_code_eff s : next_code s =
  (hd None (fst (eff s)),
   {| a_tab := a_tab s; a_next := a_next s; a_width := a_width s; a_last := a_last s; a_lfv := a_lfv s;
      a_bits := snd (eff s); a_buf := tl (fst (eff s)); a_bufw := a_width s |}).
Proof.
  unfold next_code, eff. destruct (a_buf s) as [|x b].
  - destruct (read_group 8 (a_width s) (a_bits s)); reflexivity.
  - destruct (a_bufw s =? a_width s); [reflexivity|]. destruct (read_group 8 (a_width s) (a_bits s)); reflexivity.
Qed.

(* eff of a state whose buffer is what remained of a group read at width w *)
Lemma eff_same s k w R : a_width s = w -> a_bufw s = w -> a_buf s = fst (read_group k w R) -> a_bits s = snd (read_group k w R) ->
  eff s = read_group (if Nat.eqb k 0 then 8 else k) w R.
Proof.
  intros Hw Hbw Hb Hbits. unfold eff. rewrite Hw, Hbw, Hb, Hbits. destruct k as [|k].
  - reflexivity.
  - cbn [Nat.eqb]. pose proof (read_group_len (S k) w R) as L.
    destruct (fst (read_group (S k) w R)) as [|x b] eqn:E; [cbn [length] in L; lia|].
    rewrite Z.eqb_refl. rewrite <- E. symmetry. apply surjective_pairing.
Qed.

Lemma eff_other s w w' buf bits : a_width s = w' -> a_bufw s = w -> w <> w' -> a_buf s = buf -> a_bits s = bits ->
  eff s = read_group 8 w' bits.
Proof.
  intros Hw Hbw Hne Hb Hbits. unfold eff. rewrite Hw, Hbw, Hb, Hbits. destruct buf; [reflexivity|].
  destruct (Z.eqb_spec w w'); [contradiction|reflexivity].
Qed.

(* ---------------------------------------------------------------- writer and reader stay in step ------------------------ *)
Definition BInv (se : aenc) (sd : ast) (R : list bool) : Prop :=
  0 <= n_cnt se < 8 /\ eff sd = read_group (Z.to_nat (8 - n_cnt se)) (a_width sd) R.

Definition widens (maxw : Z) (se : aenc) (defines : bool) : bool :=
  defines && (n_next se <? 2 ^ maxw) && ((2 ^ n_width se <=? n_next se + 1) && (n_width se <? maxw)).

Definition pad_of (se : aenc) : list bool :=
  repeat false (Z.to_nat (((8 - (n_cnt se + 1) mod 8) mod 8) * n_width se)).

Lemma emit_code_spec maxw se code defines :
  emit_code maxw se code defines =
  (bits_of_z (Z.to_nat (n_width se)) code ++ (if widens maxw se defines then pad_of se else []),
   {| n_dict := n_dict se;
      n_next := if defines && (n_next se <? 2 ^ maxw) then n_next se + 1 else n_next se;
      n_width := if widens maxw se defines then n_width se + 1 else n_width se;
      n_cnt := if widens maxw se defines then 0 else (n_cnt se + 1) mod 8 |}).
Proof.
  unfold emit_code, widens, pad_of. destruct (defines && (n_next se <? 2 ^ maxw)); cbn [andb].
  - destruct ((2 ^ n_width se <=? n_next se + 1) && (n_width se <? maxw)); [reflexivity|].
    rewrite app_nil_r. reflexivity.
  - rewrite app_nil_r. reflexivity.
Qed.

Lemma next_code_fields s :
  a_tab (snd (next_code s)) = a_tab s /\ a_next (snd (next_code s)) = a_next s /\ a_width (snd (next_code s)) = a_width s /\
  a_last (snd (next_code s)) = a_last s /\ a_lfv (snd (next_code s)) = a_lfv s /\ a_bufw (snd (next_code s)) = a_width s.
Proof. rewrite next_code_eff. cbn [snd a_tab a_next a_width a_last a_lfv a_bufw]. repeat split. Qed.

Lemma bits_step se sd w code (wd : bool) R' cnt1 w1 :
  a_width sd = w -> n_width se = w -> 9 <= w -> 0 <= code < 2 ^ w ->
  BInv se sd ((bits_of_z (Z.to_nat w) code ++ (if wd then pad_of se else [])) ++ R') ->
  cnt1 = (if wd then 0 else (n_cnt se + 1) mod 8) -> w1 = (if wd then w + 1 else w) ->
  fst (next_code sd) = Some code /\
  forall se1 sd', n_cnt se1 = cnt1 -> n_width se1 = w1 ->
    a_bits sd' = a_bits (snd (next_code sd)) -> a_buf sd' = a_buf (snd (next_code sd)) -> a_bufw sd' = w -> a_width sd' = w1 ->
    BInv se1 sd' R'.
Proof.
  intros Hw Hnw H9 Hcode [Hc He] Ecnt Ew1. subst cnt1 w1.
  set (k := Z.to_nat (7 - n_cnt se)).
  assert (Ek : Z.to_nat (8 - n_cnt se) = S k) by (unfold k; lia).
  rewrite Ek, Hw, <- app_assoc in He. rewrite read_group_S in He by lia.
  rewrite next_code_eff, He. cbn [fst snd hd tl a_bits a_buf].
  split; [reflexivity|]. intros se1 sd' Hc1 Hw1 Hbits Hbuf Hbw Hwd.
  unfold BInv. rewrite Hc1, Hwd. destruct wd.
  - split; [lia|]. change (Z.to_nat (8 - 0)) with 8%nat.
    unfold pad_of in Hbits, Hbuf. rewrite Hnw in Hbits, Hbuf.
    replace ((8 - (n_cnt se + 1) mod 8) mod 8) with (Z.of_nat k) in Hbits, Hbuf by (unfold k; lia).
    rewrite read_group_zeros in Hbits, Hbuf by lia. cbn [fst snd] in Hbits, Hbuf.
    apply (eff_other sd' w (w + 1) (repeat (Some 0) k) R'); try assumption; lia.
  - split; [lia|]. cbn [app] in Hbits, Hbuf.
    rewrite (eff_same sd' k w R') by assumption. f_equal.
    destruct k as [|k'] eqn:Ek'; cbn [Nat.eqb]; lia.
Qed.

(* ---------------------------------------------------------------- one code through the table --------------------------- *)
Definition tab_step (maxw : Z) (s1 : ast) (code : Z) : option (ast * list Z * Z) :=
  let kw := code =? a_next s1 in
  let s2 := if kw then lzw_add maxw s1 else s1 in
  let e := aget (a_tab s2) code in
  let len := get_length (a_tab s2) (2 ^ maxw) e in
  if len =? 0 then None else
  let str := emit (Z.to_nat len) (a_tab s2) e [] in
  let s3 := {| a_tab := a_tab s2; a_next := a_next s2; a_width := a_width s2; a_last := a_last s2; a_lfv := hd 0 str;
               a_bits := a_bits s2; a_buf := a_buf s2; a_bufw := a_bufw s2 |} in
  let s4 := if kw then s3 else lzw_add maxw s3 in
  Some ({| a_tab := a_tab s4; a_next := a_next s4; a_width := a_width s4; a_last := Some code; a_lfv := a_lfv s4;
           a_bits := a_bits s4; a_buf := a_buf s4; a_bufw := a_bufw s4 |}, str, len).

Definition lim_hit (limit : option Z) (outlen : Z) : bool := match limit with Some n => n <=? outlen | None => false end.

Lemma lzw_loop_code f maxw limit s out outlen code :
  lim_hit limit outlen = false -> fst (next_code s) = Some code -> code < 2 ^ maxw -> code <> 256 ->
  lzw_loop (S f) maxw true limit s out outlen =
  match tab_step maxw (snd (next_code s)) code with
  | None => None
  | Some (s', str, len) => lzw_loop f maxw true limit s' (rev_append str out) (outlen + len)
  end.
Proof.
  intros Hlim Hnc Hlt Hne. unfold lim_hit in Hlim. cbn [lzw_loop]. rewrite Hlim.
  destruct (next_code s) as [oc s1]. cbn [fst snd] in *. subst oc.
  destruct (Z.leb_spec (2 ^ maxw) code); [lia|]. destruct (Z.eqb_spec code 256); [contradiction|]. cbn [andb].
  unfold tab_step. cbv zeta.
  destruct (get_length _ _ _ =? 0); reflexivity.
Qed.

Lemma lzw_loop_stop_lim f maxw dyn n s out outlen : n <= outlen -> lzw_loop (S f) maxw dyn (Some n) s out outlen = Some out.
Proof. intros H. cbn [lzw_loop]. destruct (Z.leb_spec n outlen); [reflexivity|lia]. Qed.

Lemma lzw_loop_stop_none f maxw dyn limit s out outlen : fst (next_code s) = None -> lzw_loop (S f) maxw dyn limit s out outlen = Some out.
Proof.
  intros H. cbn [lzw_loop]. destruct (match limit with Some n => n <=? outlen | None => false end); [reflexivity|].
  destruct (next_code s) as [oc s1]. cbn [fst] in H. subst oc. reflexivity.
Qed.

Lemma lzw_add_none maxw s : a_last s = None -> lzw_add maxw s = s.
Proof. intros H. unfold lzw_add. rewrite H. reflexivity. Qed.

Lemma lzw_add_full maxw s : 2 ^ maxw <= a_next s -> lzw_add maxw s = s.
Proof. intros H. unfold lzw_add. destruct (a_last s); [|reflexivity]. destruct (Z.ltb_spec (a_next s) (2 ^ maxw)); [lia|reflexivity]. Qed.

Lemma lzw_add_some maxw s lc p l v : a_last s = Some lc -> a_next s < 2 ^ maxw -> aget (a_tab s) lc = (p, l, v) -> l <> 0 ->
  lzw_add maxw s =
  {| a_tab := aset (a_tab s) (a_next s) (lc, l + 1, a_lfv s); a_next := a_next s + 1;
     a_width := if (2 ^ a_width s <=? a_next s + 1) && (a_width s <? maxw) then a_width s + 1 else a_width s;
     a_last := a_last s; a_lfv := a_lfv s; a_bits := a_bits s; a_buf := a_buf s; a_bufw := a_bufw s |}.
Proof.
  intros Hl Hn Hg Hne. unfold lzw_add. rewrite Hl. destruct (Z.ltb_spec (a_next s) (2 ^ maxw)); [|lia].
  rewrite Hg. destruct (Z.eqb_spec l 0); [contradiction|]. reflexivity.
Qed.

(* the decoder state after a code whose string is rx; lc = previous code, llc = the length of its string *)
Definition emit_st (maxw : Z) (s1 : ast) (lc code : Z) (rx : list Z) (llc : Z) : ast :=
  if a_next s1 <? 2 ^ maxw then
    {| a_tab := aset (a_tab s1) (a_next s1) (lc, llc + 1, last rx 0); a_next := a_next s1 + 1;
       a_width := if (2 ^ a_width s1 <=? a_next s1 + 1) && (a_width s1 <? maxw) then a_width s1 + 1 else a_width s1;
       a_last := Some code; a_lfv := last rx 0; a_bits := a_bits s1; a_buf := a_buf s1; a_bufw := a_bufw s1 |}
  else
    {| a_tab := a_tab s1; a_next := a_next s1; a_width := a_width s1;
       a_last := Some code; a_lfv := last rx 0; a_bits := a_bits s1; a_buf := a_buf s1; a_bufw := a_bufw s1 |}.

Ltac aproj := cbn [a_tab a_next a_width a_last a_lfv a_bits a_buf a_bufw n_dict n_next n_width n_cnt].
Ltac aproj_in H := cbn [a_tab a_next a_width a_last a_lfv a_bits a_buf a_bufw n_dict n_next n_width n_cnt] in H.

Lemma len_ne0 (r : list Z) : r <> [] -> Z.of_nat (length r) <> 0.
Proof. intros H. destruct r; [congruence|cbn [length]; lia]. Qed.

Lemma tab_step_ok maxw G s1 lc cur rx rl :
  a_last s1 = Some lc -> 257 <= a_next s1 <= 2 ^ maxw ->
  (forall k, 257 <= k < a_next s1 -> aget (a_tab s1) k = aget G k) ->
  lc < a_next s1 -> AStr G lc rl -> last rl 0 = a_lfv s1 -> AStr G cur rx ->
  (cur < a_next s1 \/ (cur = a_next s1 /\ a_next s1 < 2 ^ maxw /\ exists len, aget G cur = (lc, len, a_lfv s1))) ->
  tab_step maxw s1 cur = Some (emit_st maxw s1 lc cur rx (Z.of_nat (length rl)), rev rx, Z.of_nat (length rx)).
Proof.
  intros Hlast Hnr Hag Hlc Hrl Hlfv Hrx Hcase.
  assert (Hrl1 : AStr (a_tab s1) lc rl).
  { apply AStr_agree with G; [assumption|]. intros k A B. apply Hag. lia. }
  destruct (AStr_aget _ _ _ Hrl1) as [p [v Hgl]].
  pose proof (len_ne0 rl (AStr_nonempty _ _ _ Hrl)) as Hl0.
  pose proof (len_ne0 rx (AStr_nonempty _ _ _ Hrx)) as Hx0.
  unfold tab_step. destruct (Z.eqb_spec cur (a_next s1)) as [Ek|Nk]; cbv zeta.
  - destruct Hcase as [Hc|[_ [Hlt [len Hgc]]]]; [lia|].
    rewrite (lzw_add_some maxw s1 lc p _ v Hlast Hlt Hgl Hl0). aproj.
    destruct (AStr_inv_ent _ _ _ Hrx) as [pre [ch [r' [Er [Hg' [Hch [Hpre Hs']]]]]]]; [lia|].
    rewrite Hgc in Hg'. inversion Hg' as [[E1 E2 E3]]. subst pre. subst ch.
    pose proof (AStr_fun _ _ _ Hs' _ Hrl) as Err. subst r'.
    assert (Hlx : last rx 0 = a_lfv s1).
    { rewrite Er. rewrite last_cons_ne by (apply (AStr_nonempty _ _ _ Hrl)). exact Hlfv. }
    assert (Hrx2 : AStr (aset (a_tab s1) (a_next s1) (lc, Z.of_nat (length rl) + 1, a_lfv s1)) cur rx).
    { apply AStr_agree with G; [assumption|]. intros k A B. destruct (Z.eq_dec k cur) as [->|Nk].
      - rewrite Ek. rewrite aget_aset_same by lia. rewrite <- Ek, Hgc. f_equal. f_equal. lia.
      - rewrite aget_aset_other by lia. apply Hag. lia. }
    rewrite (AStr_get_length _ _ _ _ Hrx2). destruct (Z.eqb_spec (Z.of_nat (length rx)) 0); [contradiction|].
    rewrite Nat2Z.id, (AStr_emit _ _ _ Hrx2), app_nil_r, hd_rev.
    unfold emit_st. destruct (Z.ltb_spec (a_next s1) (2 ^ maxw)); [|lia]. rewrite Hlx. reflexivity.
  - destruct Hcase as [Hc|[Hc _]]; [|contradiction].
    assert (Hrx1 : AStr (a_tab s1) cur rx).
    { apply AStr_agree with G; [assumption|]. intros k A B. apply Hag. lia. }
    rewrite (AStr_get_length _ _ _ _ Hrx1). destruct (Z.eqb_spec (Z.of_nat (length rx)) 0); [contradiction|].
    rewrite Nat2Z.id, (AStr_emit _ _ _ Hrx1), app_nil_r, hd_rev.
    unfold emit_st. destruct (Z.ltb_spec (a_next s1) (2 ^ maxw)) as [Hlt|Hge].
    + erewrite (lzw_add_some maxw _ lc p _ v); aproj; try eassumption. reflexivity.
    + rewrite lzw_add_full by (aproj; lia). aproj. reflexivity.
Qed.

(* ---------------------------------------------------------------- the invariant ----------------------------------------- *)
(* G is the decoder's table completed with the entry the writer has already numbered and the decoder has not (the pending
   entry); strings are read in G.  top = one past the last code the writer may emit. *)
Definition top (maxw : Z) (se : aenc) : Z := if n_next se <? 2 ^ maxw then n_next se + 1 else n_next se.

Record Inv (maxw : Z) (G : atab) (se : aenc) (cur : Z) (sd : ast) (lc : Z) : Prop := {
  i_last : a_last sd = Some lc;
  i_lc : 0 <= lc;
  i_next : a_next sd = n_next se;
  i_nrange : 257 <= n_next se <= 2 ^ maxw;
  i_width : a_width sd = n_width se;
  i_wrange : 9 <= n_width se <= maxw;
  i_wfit : n_next se < 2 ^ n_width se \/ n_width se = maxw;
  i_wf : forall k, 257 <= k < top maxw se -> exists r, AStr G k r;
  i_dict : forall pre ch k, 0 <= pre -> 0 <= ch <= 255 -> PositiveMap.find (dkey pre ch) (n_dict se) = Some k ->
             257 <= k < top maxw se /\ exists len, aget G k = (pre, len, ch);
  i_agree : forall k, 257 <= k < n_next se -> aget (a_tab sd) k = aget G k;
  i_cur : cur < top maxw se;
  i_pend : n_next se < 2 ^ maxw ->
             exists ch len, aget G (n_next se) = (lc, len, ch) /\ forall r, AStr G cur r -> last r 0 = ch;
  i_oldstr : lc < n_next se /\ exists r, AStr G lc r /\ last r 0 = a_lfv sd
}.

Lemma Inv_ext maxw G se cur sd sd' lc :
  a_tab sd' = a_tab sd -> a_next sd' = a_next sd -> a_width sd' = a_width sd -> a_last sd' = a_last sd -> a_lfv sd' = a_lfv sd ->
  Inv maxw G se cur sd lc -> Inv maxw G se cur sd' lc.
Proof.
  intros E1 E2 E3 E4 E5 I. constructor; try rewrite E1; try rewrite E2; try rewrite E3; try rewrite E4; try rewrite E5; apply I.
Qed.

(* the writer extends its match: nothing changes on the decoder's side *)
Lemma inv_hit maxw G se cur sd lc ch k rx : Inv maxw G se cur sd lc -> 0 <= ch <= 255 -> AStr G cur rx ->
  PositiveMap.find (dkey cur ch) (n_dict se) = Some k ->
  Inv maxw G se k sd lc /\ AStr G k (ch :: rx).
Proof.
  intros I Hch Hs Hf.
  destruct (i_dict _ _ _ _ _ _ I _ _ _ (AStr_nonneg _ _ _ Hs) Hch Hf) as [Hk [len Hg]].
  assert (Hsk : AStr G k (ch :: rx)).
  { destruct (i_wf _ _ _ _ _ _ I k Hk) as [r Hr].
    destruct (AStr_inv_ent _ _ _ Hr) as [pre [ch' [r' [Er [Hg' [Hch' [Hpre Hs']]]]]]]; [lia|].
    rewrite Hg in Hg'. inversion Hg' as [[E1 E2 E3]]. subst pre ch'.
    rewrite <- (AStr_fun _ _ _ Hs' _ Hs). rewrite <- Er. exact Hr. }
  split; [|exact Hsk].
  constructor; try (apply I).
  - lia.
  - intros A. destruct (i_pend _ _ _ _ _ _ I A) as [c' [len' [Hgc Hl]]]. exists c', len'. split; [assumption|].
    intros r Hr. rewrite <- (AStr_fun _ _ _ Hsk _ Hr). rewrite last_cons_ne by (apply (AStr_nonempty _ _ _ Hs)).
    apply Hl. assumption.
Qed.

(* what the decoder step needs, from the invariant *)
Lemma inv_tab_step maxw G se cur sd lc rx : Inv maxw G se cur sd lc -> AStr G cur rx ->
  exists rl, AStr G lc rl /\
    tab_step maxw sd cur = Some (emit_st maxw sd lc cur rx (Z.of_nat (length rl)), rev rx, Z.of_nat (length rx)).
Proof.
  intros I Hrx. destruct (i_oldstr _ _ _ _ _ _ I) as [Hlc [rl [Hrl Hlfv]]]. exists rl. split; [exact Hrl|].
  pose proof (i_next _ _ _ _ _ _ I) as En. pose proof (i_nrange _ _ _ _ _ _ I) as Hnr. pose proof (i_cur _ _ _ _ _ _ I) as Hcur.
  apply tab_step_ok with G; try assumption.
  - apply I.
  - rewrite En. exact Hnr.
  - rewrite En. apply I.
  - rewrite En. exact Hlc.
  - rewrite En. unfold top in Hcur. destruct (Z.ltb_spec (n_next se) (2 ^ maxw)) as [Hlt|Hge]; [|left; lia].
    destruct (Z.eq_dec cur (n_next se)) as [Ec|Nc]; [|left; lia]. right. split; [exact Ec|]. split; [exact Hlt|].
    destruct (i_pend _ _ _ _ _ _ I Hlt) as [ch [len [Hg Hl]]]. exists len. rewrite Ec, Hg.
    (* ch = a_lfv sd *)
    destruct (AStr_inv_ent _ _ _ Hrx) as [pre [ch' [r' [Er [Hg' [Hch' [Hpre Hs']]]]]]]; [lia|].
    rewrite Ec, Hg in Hg'. inversion Hg' as [[E1 E2 E3]]. subst pre ch'.
    pose proof (AStr_fun _ _ _ Hs' _ Hrl) as Err. subst r'.
    specialize (Hl _ Hrx). rewrite Er in Hl. rewrite last_cons_ne in Hl by (apply (AStr_nonempty _ _ _ Hrl)).
    rewrite <- Hlfv, Hl. reflexivity.
Qed.

Lemma pow2_succ w : 0 <= w -> 2 ^ (w + 1) = 2 * 2 ^ w.
Proof. intros H. rewrite Z.pow_add_r by lia. change (2 ^ 1) with 2. lia. Qed.

Lemma width_step maxw w N : 9 <= w <= maxw -> (N < 2 ^ w \/ w = maxw) -> N < 2 ^ maxw ->
  let w1 := if (2 ^ w <=? N + 1) && (w <? maxw) then w + 1 else w in
  9 <= w1 <= maxw /\ (N + 1 < 2 ^ w1 \/ w1 = maxw).
Proof.
  intros Hw Hfit Hlt. cbv zeta. pose proof (pow2_succ w ltac:(lia)) as HS.
  destruct (Z.leb_spec (2 ^ w) (N + 1)); destruct (Z.ltb_spec w maxw); cbn [andb]; split; try lia.
Qed.

Definition enc_next (maxw : Z) (se1 : aenc) (cur ch : Z) : aenc :=
  if n_next se1 <? 2 ^ maxw
  then {| n_dict := PositiveMap.add (dkey cur ch) (n_next se1) (n_dict se1); n_next := n_next se1; n_width := n_width se1; n_cnt := n_cnt se1 |}
  else se1.

Lemma inv_step maxw G se cur sd lc rx rl ch :
  9 <= maxw -> Inv maxw G se cur sd lc -> AStr G cur rx -> AStr G lc rl -> 0 <= ch <= 255 ->
  let se1 := snd (emit_code maxw se cur true) in
  let G' := if n_next se1 <? 2 ^ maxw then aset G (n_next se1) (cur, Z.of_nat (length rx) + 1, ch) else G in
  Inv maxw G' (enc_next maxw se1 cur ch) ch (emit_st maxw sd lc cur rx (Z.of_nat (length rl))) cur.
Proof.
  intros Hm I Hrx Hrl Hch.
  pose proof (i_next _ _ _ _ _ _ I) as En. pose proof (i_nrange _ _ _ _ _ _ I) as Hnr.
  pose proof (i_width _ _ _ _ _ _ I) as Ew. pose proof (i_wrange _ _ _ _ _ _ I) as Hwr.
  pose proof (i_wfit _ _ _ _ _ _ I) as Hwf. pose proof (i_cur _ _ _ _ _ _ I) as Hcur.
  pose proof (AStr_nonneg _ _ _ Hrx) as Hx0. destruct (i_oldstr _ _ _ _ _ _ I) as [Hlc [rl' [Hrl' Hlfv]]].
  pose proof (AStr_fun _ _ _ Hrl' _ Hrl) as Err. subst rl'.
  rewrite emit_code_spec. cbv zeta. cbn [snd andb]. unfold enc_next, emit_st, widens. aproj. cbn [andb]. rewrite En, Ew.
  unfold top in Hcur.
  destruct (Z.ltb_spec (n_next se) (2 ^ maxw)) as [Hlt|Hge].
  - destruct (width_step maxw (n_width se) (n_next se) Hwr Hwf Hlt) as [Hw1 Hw2]. cbn [andb].
    assert (Htop : top maxw se = n_next se + 1) by (unfold top; destruct (Z.ltb_spec (n_next se) (2 ^ maxw)); lia).
    assert (HgN : aget G (n_next se) = (lc, Z.of_nat (length rl) + 1, last rx 0)).
    { destruct (i_pend _ _ _ _ _ _ I Hlt) as [c0 [len0 [Hg0 Hl0]]].
      destruct (i_wf _ _ _ _ _ _ I (n_next se)) as [r Hr]; [lia|].
      destruct (AStr_inv_ent _ _ _ Hr) as [pre [ch' [r' [Er [Hg' [Hch' [Hpre Hs']]]]]]]; [lia|].
      rewrite Hg0 in Hg'. inversion Hg' as [[E1 E2 E3]]. subst pre ch'.
      rewrite (AStr_fun _ _ _ Hs' _ Hrl) in Hg'. rewrite Hg0, Hg'. rewrite (Hl0 _ Hrx). reflexivity. }
    destruct (Z.ltb_spec (n_next se + 1) (2 ^ maxw)) as [Hlt1|Hge1].
    + assert (Hsx : forall c r, AStr G c r -> c < n_next se + 1 ->
                AStr (aset G (n_next se + 1) (cur, Z.of_nat (length rx) + 1, ch)) c r).
      { intros c r Hc Hlt'. apply AStr_agree with G; [assumption|]. intros k A B. apply aget_aset_other; lia. }
      constructor; aproj.
      all: try (unfold top; aproj; destruct (Z.ltb_spec (n_next se + 1) (2 ^ maxw)); [|lia]).
      * reflexivity.
      * exact Hx0.
      * reflexivity.
      * lia.
      * reflexivity.
      * exact Hw1.
      * exact Hw2.
      * intros k Hk. destruct (Z.eq_dec k (n_next se + 1)) as [Ek|Ek].
        -- subst k. exists (ch :: rx). apply AStr_ent with cur; try lia; [apply aget_aset_same; lia|]. apply Hsx; assumption.
        -- destruct (i_wf _ _ _ _ _ _ I k) as [r Hr]; [lia|]. exists r. apply Hsx; [assumption|lia].
      * intros pre c k Hpre Hc Hf. destruct (Pos.eq_dec (dkey pre c) (dkey cur ch)) as [Ek|Ek].
        -- rewrite Ek, PositiveMap.gss in Hf. inversion Hf; subst k.
           destruct (dkey_inj _ _ _ _ Hpre Hc Hx0 Hch Ek) as [E1 E2]. subst pre c. split; [lia|].
           eexists. apply aget_aset_same. lia.
        -- rewrite PositiveMap.gso in Hf by assumption.
           destruct (i_dict _ _ _ _ _ _ I _ _ _ Hpre Hc Hf) as [Hk Hg]. split; [lia|]. rewrite aget_aset_other by lia. assumption.
      * intros k Hk. rewrite (aget_aset_other G) by lia. destruct (Z.eq_dec k (n_next se)) as [Ek|Ek].
        -- subst k. rewrite aget_aset_same by lia. symmetry. exact HgN.
        -- rewrite aget_aset_other by lia. apply (i_agree _ _ _ _ _ _ I). lia.
      * lia.
      * intros _. exists ch. eexists. split; [apply aget_aset_same; lia|].
        intros r Hr. rewrite (AStr_inv_byte _ _ _ Hr) by lia. reflexivity.
      * split; [lia|]. exists rx. split; [|reflexivity]. apply Hsx; assumption.
    + constructor; aproj.
      all: try (unfold top; aproj; destruct (Z.ltb_spec (n_next se + 1) (2 ^ maxw)); [lia|]).
      * reflexivity.
      * exact Hx0.
      * reflexivity.
      * lia.
      * reflexivity.
      * exact Hw1.
      * exact Hw2.
      * intros k Hk. apply (i_wf _ _ _ _ _ _ I k). lia.
      * intros pre c k Hpre Hc Hf. destruct (i_dict _ _ _ _ _ _ I _ _ _ Hpre Hc Hf) as [Hk Hg]. split; [lia|assumption].
      * intros k Hk. destruct (Z.eq_dec k (n_next se)) as [Ek|Ek].
        -- subst k. rewrite aget_aset_same by lia. symmetry. exact HgN.
        -- rewrite aget_aset_other by lia. apply (i_agree _ _ _ _ _ _ I). lia.
      * lia.
      * intros A. lia.
      * split; [lia|]. exists rx. split; [assumption|reflexivity].
  - assert (Htop : top maxw se = n_next se) by (unfold top; destruct (Z.ltb_spec (n_next se) (2 ^ maxw)); lia).
    destruct (Z.ltb_spec (n_next se) (2 ^ maxw)) as [Hlt|_]; [lia|].
    constructor; aproj.
    all: try (unfold top; aproj; destruct (Z.ltb_spec (n_next se) (2 ^ maxw)); [lia|]).
    all: cbn [andb].
    * reflexivity.
    * exact Hx0.
    * reflexivity.
    * lia.
    * reflexivity.
    * exact Hwr.
    * exact Hwf.
    * intros k Hk. apply (i_wf _ _ _ _ _ _ I k). lia.
    * intros pre c k Hpre Hc Hf. destruct (i_dict _ _ _ _ _ _ I _ _ _ Hpre Hc Hf) as [Hk Hg]. split; [lia|assumption].
    * apply (i_agree _ _ _ _ _ _ I).
    * lia.
    * intros A. lia.
    * split; [lia|]. exists rx. split; [assumption|reflexivity].
Qed.

Lemma cur_fits maxw G se cur sd lc : Inv maxw G se cur sd lc -> cur < 2 ^ n_width se /\ cur < 2 ^ maxw.
Proof.
  intros I. pose proof (i_nrange _ _ _ _ _ _ I) as Hnr. pose proof (i_wrange _ _ _ _ _ _ I) as Hwr.
  pose proof (i_wfit _ _ _ _ _ _ I) as Hwf. pose proof (i_cur _ _ _ _ _ _ I) as Hcur. unfold top in Hcur.
  assert (Hp : 2 ^ n_width se <= 2 ^ maxw) by (apply Z.pow_le_mono_r; lia).
  destruct (Z.ltb_spec (n_next se) (2 ^ maxw)); destruct Hwf as [A|A]; try rewrite A; lia.
Qed.

Lemma emit_st_fields maxw s1 lc c rx l :
  a_bits (emit_st maxw s1 lc c rx l) = a_bits s1 /\ a_buf (emit_st maxw s1 lc c rx l) = a_buf s1 /\
  a_bufw (emit_st maxw s1 lc c rx l) = a_bufw s1 /\
  a_width (emit_st maxw s1 lc c rx l) =
    (if (a_next s1 <? 2 ^ maxw) && ((2 ^ a_width s1 <=? a_next s1 + 1) && (a_width s1 <? maxw)) then a_width s1 + 1 else a_width s1).
Proof. unfold emit_st. destruct (a_next s1 <? 2 ^ maxw); aproj; cbn [andb]; repeat split. Qed.

Lemma BInv_cnt se se' sd R : n_cnt se' = n_cnt se -> BInv se sd R -> BInv se' sd R.
Proof. intros E H. unfold BInv in *. rewrite E. exact H. Qed.

Lemma code_step maxw limit G se cur sd lc rx R' f out outlen :
  9 <= maxw -> Inv maxw G se cur sd lc -> AStr G cur rx ->
  BInv se sd (fst (emit_code maxw se cur true) ++ R') ->
  lim_hit limit outlen = false ->
  exists rl, AStr G lc rl /\
    Inv maxw G se cur (snd (next_code sd)) lc /\
    lzw_loop (S f) maxw true limit sd out outlen =
      lzw_loop f maxw true limit (emit_st maxw (snd (next_code sd)) lc cur rx (Z.of_nat (length rl))) (rx ++ out) (outlen + Z.of_nat (length rx)) /\
    BInv (snd (emit_code maxw se cur true)) (emit_st maxw (snd (next_code sd)) lc cur rx (Z.of_nat (length rl))) R'.
Proof.
  intros Hm I Hrx HB Hlim.
  destruct (cur_fits _ _ _ _ _ _ I) as [Hcw Hcm]. pose proof (AStr_nonneg _ _ _ Hrx) as Hx0.
  pose proof (i_width _ _ _ _ _ _ I) as Ew. pose proof (i_wrange _ _ _ _ _ _ I) as Hwr. pose proof (i_next _ _ _ _ _ _ I) as En.
  rewrite emit_code_spec in HB. cbn [fst] in HB.
  destruct (bits_step se sd (n_width se) cur (widens maxw se true) R' _ _ Ew eq_refl ltac:(lia) ltac:(lia) HB eq_refl eq_refl) as [Hnc HB'].
  destruct (next_code_fields sd) as [F1 [F2 [F3 [F4 [F5 F6]]]]].
  assert (I1 : Inv maxw G se cur (snd (next_code sd)) lc) by (apply (Inv_ext _ _ _ _ sd); assumption).
  destruct (inv_tab_step _ _ _ _ _ _ _ I1 Hrx) as [rl [Hrl Hts]].
  exists rl. split; [exact Hrl|]. split; [exact I1|]. split.
  - rewrite (lzw_loop_code f maxw limit sd out outlen cur Hlim Hnc Hcm).
    + rewrite Hts. rewrite rev_append_rev, rev_involutive. reflexivity.
    + destruct (AStr_valid _ _ _ Hrx); lia.
  - destruct (emit_st_fields maxw (snd (next_code sd)) lc cur rx (Z.of_nat (length rl))) as [E1 [E2 [E3 E4]]].
    rewrite emit_code_spec. cbn [snd]. apply HB'; [reflexivity | reflexivity | exact E1 | exact E2 | | ].
    + rewrite E3, F6. exact Ew.
    + rewrite E4, F2, F3, En, Ew. unfold widens. cbn [andb]. reflexivity.
Qed.

Definition lim_ok (limit : option Z) (total : Z) : Prop := match limit with None => True | Some n => n = total end.

Lemma next_code_end se sd tail : BInv se sd tail -> 9 <= a_width sd -> (length tail < 8)%nat -> fst (next_code sd) = None.
Proof.
  intros [Hc He] Hw Ht. rewrite next_code_eff. cbn [fst]. rewrite He.
  replace (Z.to_nat (8 - n_cnt se)) with (S (Z.to_nat (7 - n_cnt se))) by lia.
  rewrite read_group_short by lia. reflexivity.
Qed.

Lemma enc_next_cnt maxw se1 cur ch : n_cnt (enc_next maxw se1 cur ch) = n_cnt se1.
Proof. unfold enc_next. destruct (n_next se1 <? 2 ^ maxw); reflexivity. Qed.

Lemma emit_code_len maxw se cur d : 9 <= n_width se -> (1 <= length (fst (emit_code maxw se cur d)))%nat.
Proof. intros H. rewrite emit_code_spec. cbn [fst]. rewrite app_length, bits_of_z_length. lia. Qed.

Lemma main_loop maxw limit : 9 <= maxw -> forall rest G se cur rx sd lc out outlen fuel tail,
  bytesb rest = true -> Inv maxw G se cur sd lc -> AStr G cur rx ->
  BInv se sd (enc_loop maxw se cur false rest ++ tail) -> (length tail < 8)%nat ->
  lim_ok limit (outlen + Z.of_nat (length rx) + Z.of_nat (length rest)) ->
  (length (enc_loop maxw se cur false rest) + 2 <= fuel)%nat ->
  lzw_loop fuel maxw true limit sd out outlen = Some (rev rest ++ rx ++ out).
Proof.
  intros Hm. induction rest as [|ch t IH]; intros G se cur rx sd lc out outlen fuel tail Hb I Hrx HB Ht Hlim Hf.
  - cbn [enc_loop negb] in HB, Hf. destruct fuel as [|[|f]]; [lia|lia|].
    assert (Hlh : lim_hit limit outlen = false).
    { pose proof (len_ne0 rx (AStr_nonempty _ _ _ Hrx)). unfold lim_hit, lim_ok in *. destruct limit as [n|]; [|reflexivity].
      destruct (Z.leb_spec n outlen); [lia|reflexivity]. }
    destruct (code_step maxw limit G se cur sd lc rx tail (S f) out outlen Hm I Hrx HB Hlh) as [rl [Hrl [I1 [Hstep HB1]]]].
    rewrite Hstep. cbn [rev app]. destruct limit as [n|].
    + apply lzw_loop_stop_lim. unfold lim_ok in Hlim. cbn [length] in Hlim. lia.
    + apply lzw_loop_stop_none. apply (next_code_end _ _ _ HB1); [|exact Ht].
      destruct (emit_st_fields maxw (snd (next_code sd)) lc cur rx (Z.of_nat (length rl))) as [_ [_ [_ E4]]]. rewrite E4.
      pose proof (i_width _ _ _ _ _ _ I1) as Ew. pose proof (i_wrange _ _ _ _ _ _ I1) as Hwr.
      destruct (_ && _); lia.
  - apply bytesb_cons in Hb as [Hch Hb]. cbn [enc_loop negb] in HB, Hf.
    destruct (PositiveMap.find (dkey cur ch) (n_dict se)) as [k|] eqn:Hfind.
    + destruct (inv_hit _ _ _ _ _ _ _ _ _ I Hch Hrx Hfind) as [I' Hs'].
      rewrite (IH G se k (ch :: rx) sd lc out outlen fuel tail Hb I' Hs' HB Ht); [|cbn [length] in *|exact Hf].
      * cbn [rev]. rewrite <- !app_assoc. reflexivity.
      * unfold lim_ok in *. destruct limit; [lia|exact Logic.I].
    + pose proof (emit_code_len maxw se cur true) as Hlen.
      destruct (emit_code maxw se cur true) as [bits se1] eqn:Eec. cbn [fst] in Hlen.
      cbv iota in HB, Hf.
      change (if n_next se1 <? 2 ^ maxw
              then {| n_dict := PositiveMap.add (dkey cur ch) (n_next se1) (n_dict se1); n_next := n_next se1;
                      n_width := n_width se1; n_cnt := n_cnt se1 |}
              else se1) with (enc_next maxw se1 cur ch) in HB, Hf.
      rewrite app_length in Hf. rewrite <- app_assoc in HB.
      specialize (Hlen ltac:(pose proof (i_wrange _ _ _ _ _ _ I); lia)).
      destruct fuel as [|f]; [lia|].
      assert (Hlh : lim_hit limit outlen = false).
      { pose proof (len_ne0 rx (AStr_nonempty _ _ _ Hrx)). unfold lim_hit, lim_ok in *. destruct limit as [n|]; [|reflexivity].
        destruct (Z.leb_spec n outlen); [lia|reflexivity]. }
      assert (HB0 : BInv se sd (fst (emit_code maxw se cur true) ++ enc_loop maxw (enc_next maxw se1 cur ch) ch false t ++ tail))
        by (rewrite Eec; exact HB).
      destruct (code_step maxw limit G se cur sd lc rx _ f out outlen Hm I Hrx HB0 Hlh) as [rl [Hrl [I1 [Hstep HB1]]]].
      rewrite Hstep. pose proof (inv_step maxw G se cur _ lc rx rl ch Hm I1 Hrx Hrl Hch) as I2. cbv zeta in I2.
      rewrite Eec in I2, HB1. cbn [snd] in I2, HB1.
      rewrite (IH _ _ ch [ch] _ cur (rx ++ out) (outlen + Z.of_nat (length rx)) f tail Hb I2).
      * cbn [rev]. rewrite <- !app_assoc. reflexivity.
      * apply AStr_byte. lia.
      * apply (BInv_cnt se1); [apply enc_next_cnt | exact HB1].
      * exact Ht.
      * unfold lim_ok in *. destruct limit; [cbn [length] in *; lia|exact Logic.I].
      * lia.
Qed.

(* ---------------------------------------------------------------- the first code, and the whole stream ------------------ *)
Lemma first_tab_step maxw s1 c : a_last s1 = None -> a_next s1 = 257 -> 0 <= c <= 255 ->
  tab_step maxw s1 c =
  Some ({| a_tab := a_tab s1; a_next := a_next s1; a_width := a_width s1; a_last := Some c; a_lfv := c;
           a_bits := a_bits s1; a_buf := a_buf s1; a_bufw := a_bufw s1 |}, [c], 1).
Proof.
  intros Hl Hn Hc. unfold tab_step. rewrite Hn. destruct (Z.eqb_spec c 257); [lia|]. cbv zeta.
  rewrite (aget_byte (a_tab s1) c) by lia. unfold get_length. change (negb (1 =? 0)) with true. cbv iota.
  change (1 =? 0) with false. cbv iota. change (Z.to_nat 1) with 1%nat. cbn [emit hd].
  rewrite lzw_add_none by (aproj; exact Hl). aproj. rewrite Hn. reflexivity.
Qed.

Lemma bits_of_bytes_length l : length (bits_of_bytes l) = (8 * length l)%nat.
Proof.
  induction l as [|x l IH]; [reflexivity|]. rewrite bits_of_bytes_cons, app_length, bits_of_z_length, IH. cbn [length]. lia.
Qed.

Lemma pow_maxw maxw : 9 <= maxw -> 512 <= 2 ^ maxw.
Proof. intros H. change 512 with (2 ^ 9). apply Z.pow_le_mono_r; lia. Qed.

Definition enc0 : aenc := {| n_dict := PositiveMap.empty _; n_next := 257; n_width := 9; n_cnt := 0 |}.

Lemma lzw_stream maxw limit l tail fuel s0 :
  9 <= maxw -> bytesb l = true -> l <> [] -> lim_ok limit (Z.of_nat (length l)) -> (length tail < 8)%nat ->
  a_last s0 = None -> a_next s0 = 257 -> a_width s0 = 9 -> a_buf s0 = [] -> a_bits s0 = lzw_bits maxw l ++ tail ->
  (length (lzw_bits maxw l) + 2 <= fuel)%nat ->
  lzw_loop fuel maxw true limit s0 [] 0 = Some (rev l).
Proof.
  intros Hm Hb Hne Hlim Ht Hl0 Hn0 Hw0 Hbuf0 Hbits0 Hf. pose proof (pow_maxw maxw Hm) as Hpow.
  destruct l as [|c t]; [congruence|]. apply bytesb_cons in Hb as [Hc Hb].
  unfold lzw_bits in Hbits0, Hf. fold enc0 in Hbits0, Hf.
  assert (HB0 : BInv enc0 s0 (enc_loop maxw enc0 c true t ++ tail)).
  { unfold BInv, enc0. aproj. split; [lia|]. unfold eff. rewrite Hbuf0, Hbits0. reflexivity. }
  assert (Hlh : lim_hit limit 0 = false).
  { unfold lim_hit, lim_ok in *. destruct limit as [n|]; [|reflexivity]. cbn [length] in Hlim.
    destruct (Z.leb_spec n 0); [lia|reflexivity]. }
  destruct (next_code_fields s0) as [F1 [F2 [F3 [F4 [F5 F6]]]]].
  assert (Hc9 : 0 <= c < 2 ^ 9) by (change (2 ^ 9) with 512; lia).
  assert (Hec : emit_code maxw enc0 c false =
                (bits_of_z 9 c ++ [], {| n_dict := PositiveMap.empty _; n_next := 257; n_width := 9; n_cnt := 1 |})) by reflexivity.
  destruct t as [|ch t].
  - cbn [enc_loop negb] in HB0, Hf. rewrite Hec in HB0, Hf. cbn [fst] in HB0, Hf.
    destruct (bits_step enc0 s0 9 c false tail _ _ Hw0 eq_refl ltac:(lia) Hc9 HB0 eq_refl eq_refl) as [Hnc HB'].
    destruct fuel as [|[|f]]; [lia|lia|].
    rewrite (lzw_loop_code _ maxw limit s0 [] 0 c Hlh Hnc) by lia.
    rewrite first_tab_step by (try rewrite F4; try rewrite F2; assumption || lia).
    cbn [rev_append rev app]. destruct limit as [n|].
    + apply lzw_loop_stop_lim. unfold lim_ok in Hlim. cbn [length] in Hlim. lia.
    + apply lzw_loop_stop_none.
      apply (next_code_end {| n_dict := PositiveMap.empty _; n_next := 257; n_width := 9; n_cnt := 1 |} _ tail); [|aproj; lia|exact Ht].
      apply HB'; aproj; try reflexivity; rewrite ?F6, ?F3; assumption.
  - apply bytesb_cons in Hb as [Hch Hb]. cbn [enc_loop negb] in HB0, Hf.
    change (PositiveMap.find (dkey c ch) (n_dict enc0)) with (PositiveMap.find (dkey c ch) (PositiveMap.empty Z)) in HB0, Hf.
    rewrite PositiveMap.gempty in HB0, Hf. rewrite Hec in HB0, Hf. cbv iota in HB0, Hf. aproj_in HB0. aproj_in Hf.
    destruct (Z.ltb_spec 257 (2 ^ maxw)) as [_|]; [|lia].
    set (se2 := {| n_dict := PositiveMap.add (dkey c ch) 257 (PositiveMap.empty Z); n_next := 257; n_width := 9; n_cnt := 1 |}) in *.
    rewrite <- app_assoc in HB0. rewrite app_length, app_length, bits_of_z_length in Hf. cbn [length] in Hf.
    destruct (bits_step enc0 s0 9 c false _ _ _ Hw0 eq_refl ltac:(lia) Hc9 HB0 eq_refl eq_refl) as [Hnc HB'].
    destruct fuel as [|f]; [lia|].
    rewrite (lzw_loop_code _ maxw limit s0 [] 0 c Hlh Hnc) by lia.
    rewrite first_tab_step by (try rewrite F4; try rewrite F2; assumption || lia).
    cbn [rev_append].
    set (sd1 := {| a_tab := a_tab (snd (next_code s0)); a_next := a_next (snd (next_code s0)); a_width := a_width (snd (next_code s0));
                   a_last := Some c; a_lfv := c; a_bits := a_bits (snd (next_code s0)); a_buf := a_buf (snd (next_code s0));
                   a_bufw := a_bufw (snd (next_code s0)) |}).
    set (G1 := aset (PositiveMap.empty entry) 257 (c, 2, ch)).
    assert (I : Inv maxw G1 se2 ch sd1 c).
    { assert (Htop : top maxw se2 = 258) by (unfold top, se2; aproj; destruct (Z.ltb_spec 257 (2 ^ maxw)); lia).
      constructor; try rewrite Htop; unfold sd1, se2; aproj; try rewrite F2; try rewrite F3; try (change (2 ^ 9) with 512); try lia.
      - reflexivity.
      - intros k Hk. assert (k = 257) by lia. subst k. exists [ch; c].
        apply AStr_ent with c; try lia; [apply aget_aset_same; lia|apply AStr_byte; lia].
      - intros pre c' k Hpre Hc' Hfd. destruct (Pos.eq_dec (dkey pre c') (dkey c ch)) as [Ek|Ek].
        + rewrite Ek, PositiveMap.gss in Hfd. inversion Hfd; subst k.
          destruct (dkey_inj pre c' c ch) as [E1 E2]; try lia; try assumption. subst pre c'. split; [lia|].
          eexists. apply aget_aset_same. lia.
        + rewrite PositiveMap.gso, PositiveMap.gempty in Hfd by assumption. discriminate.
      - intros _. exists ch, 2. split; [apply aget_aset_same; lia|].
        intros r Hr. rewrite (AStr_inv_byte _ _ _ Hr) by lia. reflexivity.
      - split; [lia|]. exists [c]. split; [apply AStr_byte; lia|reflexivity]. }
    rewrite (main_loop maxw limit Hm t G1 se2 ch [ch] sd1 c [c] (0 + 1) f tail Hb I).
    + cbn [rev]. rewrite <- !app_assoc. reflexivity.
    + apply AStr_byte. lia.
    + apply HB'; unfold sd1, se2; aproj; try reflexivity; rewrite ?F6, ?F3; assumption.
    + exact Ht.
    + unfold lim_ok in *. destruct limit; [cbn [length] in *; lia|exact Logic.I].
    + lia.
Qed.

Lemma lzw_loop_bytes maxw limit l :
  9 <= maxw -> bytesb l = true -> l <> [] -> lim_ok limit (Z.of_nat (length l)) ->
  lzw_loop (8 * length (lzw_bytes maxw l) + 16) maxw true limit (lzw_start true (lzw_bytes maxw l)) [] 0 = Some (rev l).
Proof.
  intros Hm Hb Hne Hlim. unfold lzw_bytes. cbv zeta.
  destruct (bytes_roundtrip (lzw_bits maxw l)) as [k [Hk E]].
  pose proof (bits_of_bytes_length (bytes_of_bits (S (length (lzw_bits maxw l))) (lzw_bits maxw l))) as HL.
  rewrite E, app_length, repeat_length in HL.
  apply (lzw_stream maxw limit l (repeat false k)); try assumption; try reflexivity.
  - rewrite repeat_length. exact Hk.
  - lia.
Qed.

Theorem unpack_lzw_roundtrip : forall maxw l, 9 <= maxw <= 16 -> bytesb l = true -> l <> [] ->
  unpack_lzw maxw true (Z.of_nat (length l)) (lzw_bytes maxw l) = Some l.
Proof.
  intros maxw l Hm Hb Hne. unfold unpack_lzw.
  destruct (Z.ltb_spec maxw 9); [lia|]. destruct (Z.ltb_spec 16 maxw); [lia|]. cbn [orb].
  rewrite (lzw_loop_bytes maxw (Some (Z.of_nat (length l))) l) by (try assumption; try lia; reflexivity).
  cbv zeta. rewrite rev_append_rev, app_nil_r, rev_involutive.
  destruct (Z.ltb_spec (Z.of_nat (length l)) (Z.of_nat (length l))); [lia|].
  rewrite Nat2Z.id, firstn_all. reflexivity.
Qed.

Lemma lzw_bytes_two maxw l : l <> [] -> exists a b r, lzw_bytes maxw l = a :: b :: r.
Proof.
  intros Hne. destruct l as [|c t]; [congruence|]. unfold lzw_bytes. cbv zeta.
  assert (Hlen : (9 <= length (lzw_bits maxw (c :: t)))%nat).
  { unfold lzw_bits. fold enc0. destruct t as [|ch t].
    - cbn [enc_loop]. rewrite emit_code_spec. cbn [fst]. rewrite app_length, bits_of_z_length. unfold enc0. aproj. lia.
    - cbn [enc_loop]. change (n_dict enc0) with (PositiveMap.empty Z). rewrite PositiveMap.gempty.
      rewrite emit_code_spec. rewrite !app_length, bits_of_z_length. unfold enc0. aproj. lia. }
  set (b := lzw_bits maxw (c :: t)) in *.
  assert (Hb1 : b <> []) by (intros E; rewrite E in Hlen; cbn [length] in Hlen; lia).
  rewrite (bytes_of_bits_S _ b Hb1).
  assert (Hb2 : skipn 8 b <> []).
  { intros E. pose proof (skipn_length 8 b) as L. rewrite E in L. cbn [length] in L. lia. }
  destruct (length b) as [|n] eqn:En; [lia|]. rewrite (bytes_of_bits_S _ _ Hb2). eauto.
Qed.

Theorem squashed_roundtrip : forall l, bytesb l = true -> l <> [] ->
  arc_unpack 9 (Z.of_nat (length l)) (pack_squashed l) = Some l.
Proof.
  intros l Hb Hne. unfold arc_unpack, pack_squashed. change (9 =? 8) with false. change (9 =? 9) with true. cbv iota.
  apply unpack_lzw_roundtrip; [lia|assumption|assumption].
Qed.

Theorem compressed_roundtrip : forall maxw l, 9 <= maxw <= 16 -> bytesb l = true -> l <> [] ->
  arc_unpack 127 (Z.of_nat (length l)) (pack_compressed maxw l) = Some l.
Proof.
  intros maxw l Hm Hb Hne. unfold arc_unpack, pack_compressed.
  change (127 =? 8) with false. change (127 =? 9) with false. change (127 =? 127) with true. cbv iota.
  destruct (lzw_bytes_two maxw l Hne) as [a [b [r E]]]. rewrite E. rewrite <- E.
  apply unpack_lzw_roundtrip; assumption.
Qed.

(* ---------------------------------------------------------------- the streaming RLE90 decoder ---------------------------- *)
(* the state Rle90.dec ends in *)
Fixpoint dec_st (l : list Z) (la : Z) (ic : bool) : Z * bool :=
  match l with
  | [] => (la, ic)
  | b :: t => if ic then (if b =? 0 then dec_st t MARK false else dec_st t la false)
              else if b =? MARK then dec_st t la true else dec_st t b false
  end.

Lemma dec_app : forall a b la ic, dec (a ++ b) la ic = dec a la ic ++ dec b (fst (dec_st a la ic)) (snd (dec_st a la ic)).
Proof.
  induction a as [|x a IH]; intros b la ic; [reflexivity|]. cbn [app dec dec_st].
  destruct ic.
  - destruct (x =? 0); [cbn [app]; f_equal; apply IH|]. rewrite <- app_assoc. f_equal. apply IH.
  - destruct (x =? MARK); [apply IH|]. cbn [app]. f_equal. apply IH.
Qed.

Lemma dec_st_app : forall a b la ic, dec_st (a ++ b) la ic = dec_st b (fst (dec_st a la ic)) (snd (dec_st a la ic)).
Proof.
  induction a as [|x a IH]; intros b la ic; [reflexivity|]. cbn [app dec_st].
  destruct ic; [destruct (x =? 0)|destruct (x =? MARK)]; apply IH.
Qed.

Fixpoint take_lits (l : list Z) : list Z := match l with [] => [] | y :: u => if y =? 144 then [] else y :: take_lits u end.

Lemma take_lits_split l : l = take_lits l ++ skipn (length (take_lits l)) l.
Proof.
  induction l as [|y u IH]; [reflexivity|]. cbn [take_lits]. destruct (y =? 144); [reflexivity|].
  cbn [length skipn app]. f_equal. exact IH.
Qed.

Lemma last_indep (l : list Z) d d' : l <> [] -> last l d = last l d'.
Proof.
  induction l as [|x l IH]; intros H; [congruence|]. destruct l as [|y l]; [reflexivity|].
  cbn [last] in *. apply IH. discriminate.
Qed.

Lemma dec_lits : forall u la, dec (take_lits u) la false = take_lits u /\
  dec_st (take_lits u) la false = (last (take_lits u) la, false).
Proof.
  induction u as [|y u IH]; intros la; [split; reflexivity|]. cbn [take_lits].
  destruct (Z.eqb_spec y 144) as [E|E]; [split; reflexivity|].
  cbn [dec dec_st]. unfold MARK. destruct (Z.eqb_spec y 144); [contradiction|].
  destruct (IH y) as [A B]. rewrite A, B. split; [reflexivity|].
  destruct (take_lits u) as [|z l] eqn:Et; [reflexivity|].
  rewrite (last_cons_ne y (z :: l)) by discriminate. f_equal. apply last_indep. discriminate.
Qed.

Lemma rev_repeat {A} (a : A) n : rev (repeat a n) = repeat a n.
Proof.
  induction n as [|n IH]; [reflexivity|]. cbn [repeat rev]. rewrite IH.
  clear IH. induction n as [|n IH]; [reflexivity|]. cbn [repeat app]. f_equal. exact IH.
Qed.

Definition rle_res (ic : bool) (la : Z) (out : list Z) (n : Z) (blk : list Z) : rst :=
  {| r_in_code := snd (dec_st blk la ic); r_last := fst (dec_st blk la ic);
     r_out := rev (dec blk la ic) ++ out; r_n := n + Z.of_nat (length (dec blk la ic)) |}.

Lemma rle_block_S f dest_len s x t :
  rle_block (S f) dest_len s (x :: t) =
    if r_in_code s then
      if x =? 0 then
        if dest_len <=? r_n s then None
        else rle_block f dest_len {| r_in_code := false; r_last := 144; r_out := 144 :: r_out s; r_n := r_n s + 1 |} t
      else
        if dest_len <? r_n s + (x - 1) then None
        else rle_block f dest_len {| r_in_code := false; r_last := r_last s; r_out := repeat (r_last s) (Z.to_nat (x - 1)) ++ r_out s; r_n := r_n s + (x - 1) |} t
    else if x =? 144 then rle_block f dest_len {| r_in_code := true; r_last := r_last s; r_out := r_out s; r_n := r_n s |} t
    else
      let lits := take_lits (x :: t) in
      let rest := skipn (length lits) (x :: t) in
      let room := dest_len - r_n s in
      if room <? Z.of_nat (length lits) then
        if room =? 0 then Some s
        else rle_block f dest_len {| r_in_code := false; r_last := last lits 0; r_out := rev_append (firstn (Z.to_nat room) lits) (r_out s); r_n := dest_len |} rest
      else rle_block f dest_len {| r_in_code := false; r_last := last lits 0; r_out := rev_append lits (r_out s); r_n := r_n s + Z.of_nat (length lits) |} rest.
Proof. reflexivity. Qed.

Lemma rle_block_ok dest_len : forall fuel blk ic la out n,
  (length blk < fuel)%nat -> Forall (fun b => 0 <= b <= 255) blk ->
  n + Z.of_nat (length (dec blk la ic)) <= dest_len ->
  rle_block fuel dest_len {| r_in_code := ic; r_last := la; r_out := out; r_n := n |} blk = Some (rle_res ic la out n blk).
Proof.
  induction fuel as [|f IH]; intros blk ic la out n Hf Hby Hn; [lia|].
  destruct blk as [|x t].
  - cbn [rle_block]. unfold rle_res. cbn [dec dec_st fst snd length rev app]. f_equal. f_equal. lia.
  - rewrite rle_block_S. cbn [r_in_code r_last r_out r_n]. cbn [length] in Hf.
    inversion Hby as [|x' t' Hx Ht]; subst x' t'.
    destruct ic.
    + destruct (Z.eqb_spec x 0) as [E0|N0].
      * assert (Ed : dec (x :: t) la true = 144 :: dec t 144 false) by (cbn [dec]; subst x; reflexivity).
        assert (Es : dec_st (x :: t) la true = dec_st t 144 false) by (cbn [dec_st]; subst x; reflexivity).
        rewrite Ed in Hn. cbn [length] in Hn. destruct (Z.leb_spec dest_len n); [lia|].
        rewrite IH by (try assumption; lia). unfold rle_res. rewrite Ed, Es. f_equal. f_equal.
        -- cbn [rev]. rewrite <- app_assoc. reflexivity.
        -- cbn [length]. lia.
      * assert (Ed : dec (x :: t) la true = repeat la (Z.to_nat (x - 1)) ++ dec t la false).
        { cbn [dec]. destruct (Z.eqb_spec x 0); [contradiction|reflexivity]. }
        assert (Es : dec_st (x :: t) la true = dec_st t la false).
        { cbn [dec_st]. destruct (Z.eqb_spec x 0); [contradiction|reflexivity]. }
        rewrite Ed, app_length, repeat_length in Hn. destruct (Z.ltb_spec dest_len (n + (x - 1))); [lia|].
        rewrite IH by (try assumption; lia). unfold rle_res. rewrite Ed, Es. f_equal. f_equal.
        -- rewrite rev_app_distr, rev_repeat, <- app_assoc. reflexivity.
        -- rewrite app_length, repeat_length. lia.
    + destruct (Z.eqb_spec x 144) as [E|N].
      * assert (Ed : dec (x :: t) la false = dec t la true) by (cbn [dec]; subst x; reflexivity).
        assert (Es : dec_st (x :: t) la false = dec_st t la true) by (cbn [dec_st]; subst x; reflexivity).
        rewrite Ed in Hn. rewrite IH by (try assumption; lia). unfold rle_res. rewrite Ed, Es. reflexivity.
      * cbv zeta.
        pose proof (take_lits_split (x :: t)) as Hsplit.
        set (lits := take_lits (x :: t)) in *. set (rest := skipn (length lits) (x :: t)) in *.
        assert (Hl1 : lits = x :: take_lits t).
        { unfold lits. cbn [take_lits]. destruct (Z.eqb_spec x 144); [contradiction|reflexivity]. }
        assert (Hlne : lits <> []) by (rewrite Hl1; discriminate).
        assert (Hll : (1 <= length lits)%nat) by (rewrite Hl1; cbn [length]; lia).
        destruct (dec_lits (x :: t) la) as [A B]. fold lits in A, B.
        assert (Ed : dec (x :: t) la false = lits ++ dec rest (last lits 0) false).
        { rewrite Hsplit at 1. rewrite dec_app, A, B. cbn [fst snd]. rewrite (last_indep lits la 0 Hlne). reflexivity. }
        assert (Es : dec_st (x :: t) la false = dec_st rest (last lits 0) false).
        { rewrite Hsplit at 1. rewrite dec_st_app, B. cbn [fst snd]. rewrite (last_indep lits la 0 Hlne). reflexivity. }
        rewrite Ed, app_length in Hn.
        assert (Hlen : length (x :: t) = (length lits + length rest)%nat) by (rewrite Hsplit at 1; apply app_length).
        cbn [length] in Hlen.
        assert (Hbr : Forall (fun b => 0 <= b <= 255) rest).
        { rewrite Hsplit in Hby. apply Forall_app in Hby. apply Hby. }
        destruct (Z.ltb_spec (dest_len - n) (Z.of_nat (length lits))); [lia|].
        rewrite IH by (try assumption; lia). unfold rle_res. rewrite Ed, Es. f_equal. f_equal.
        -- rewrite rev_app_distr, rev_append_rev, <- app_assoc. reflexivity.
        -- rewrite app_length. lia.
Qed.

Lemma rle_blocks_S f dest_len s x t :
  rle_blocks (S f) dest_len s (x :: t) =
  match rle_block (S (length (firstn 8192 (x :: t)))) dest_len s (firstn 8192 (x :: t)) with
  | None => None
  | Some s' => rle_blocks f dest_len s' (skipn 8192 (x :: t))
  end.
Proof. reflexivity. Qed.

Lemma rle_blocks_ok dest_len : forall fuel bytes ic la out n,
  (length bytes < fuel)%nat -> Forall (fun b => 0 <= b <= 255) bytes ->
  n + Z.of_nat (length (dec bytes la ic)) <= dest_len ->
  rle_blocks fuel dest_len {| r_in_code := ic; r_last := la; r_out := out; r_n := n |} bytes = Some (rle_res ic la out n bytes).
Proof.
  induction fuel as [|f IH]; intros bytes ic la out n Hf Hby Hn; [lia|].
  destruct bytes as [|x t].
  - cbn [rle_blocks]. unfold rle_res. cbn [dec dec_st fst snd length rev app]. f_equal. f_equal. lia.
  - rewrite rle_blocks_S.
    assert (Hm : (0 < 8192)%nat) by apply Nat.lt_0_succ.
    remember 8192%nat as m eqn:Em. clear Em.
    set (b := x :: t) in *.
    assert (Hbl : (1 <= length b)%nat) by (unfold b; cbn [length]; lia).
    pose proof (firstn_skipn m b) as Hsplit.
    assert (Ed : dec b la ic = dec (firstn m b) la ic ++
                   dec (skipn m b) (fst (dec_st (firstn m b) la ic)) (snd (dec_st (firstn m b) la ic))).
    { rewrite <- Hsplit at 1. apply dec_app. }
    assert (Es : dec_st b la ic = dec_st (skipn m b) (fst (dec_st (firstn m b) la ic)) (snd (dec_st (firstn m b) la ic))).
    { rewrite <- Hsplit at 1. apply dec_st_app. }
    rewrite Ed, app_length in Hn.
    assert (Hb12 : Forall (fun b => 0 <= b <= 255) (firstn m b) /\ Forall (fun b => 0 <= b <= 255) (skipn m b)).
    { apply Forall_app. rewrite Hsplit. exact Hby. }
    destruct Hb12 as [Hb1 Hb2].
    rewrite rle_block_ok by (try assumption; lia).
    unfold rle_res at 1. rewrite IH; [| rewrite skipn_length; lia | assumption | lia].
    unfold rle_res. rewrite Ed, Es. cbn [r_in_code r_last r_out r_n]. f_equal. f_equal.
    + rewrite rev_app_distr, <- app_assoc. reflexivity.
    + rewrite app_length. lia.
Qed.

Lemma bytesb_Forall l : bytesb l = true <-> Forall (fun b => 0 <= b <= 255) l.
Proof.
  unfold bytesb. rewrite forallb_forall, Forall_forall. split; intros H x Hx; specialize (H x Hx).
  - apply andb_prop in H as [A B]. apply Z.leb_le in A. apply Z.leb_le in B. lia.
  - destruct (Z.leb_spec 0 x); [|lia]. destruct (Z.leb_spec x 255); [reflexivity|lia].
Qed.

Theorem crunched_roundtrip : forall l, bytesb l = true -> l <> [] ->
  arc_unpack 8 (Z.of_nat (length l)) (pack_crunched Rle90.encode l) = Some l.
Proof.
  intros l Hb Hne. unfold arc_unpack, pack_crunched. change (8 =? 8) with true. cbv iota.
  pose proof (decode_encode l) as Hde.
  assert (Hene : encode l <> []) by (intros E; rewrite E in Hde; unfold decode in Hde; cbn [dec] in Hde; congruence).
  assert (HbF : Forall (fun b => 0 <= b <= 255) (encode l)) by (apply encode_bytes, bytesb_Forall; exact Hb).
  assert (Hbe : bytesb (encode l) = true) by (apply bytesb_Forall; exact HbF).
  unfold unpack_crunched.
  destruct (lzw_bytes_two 12 (encode l) Hene) as [a [b [r E]]]. rewrite E. rewrite <- E. cbn [tl].
  rewrite (lzw_loop_bytes 12 None (encode l)) by (try assumption; try lia; exact Logic.I).
  cbv zeta. rewrite rev_append_rev, app_nil_r, rev_involutive.
  rewrite (rle_blocks_ok (Z.of_nat (length l)) _ (encode l) false 0 [] 0); [| lia | assumption | ].
  - unfold rle_res. cbn [r_n r_out]. fold (decode (encode l)). rewrite Hde.
    destruct (Z.eqb_spec (0 + Z.of_nat (length l)) (Z.of_nat (length l))); [|lia].
    rewrite rev_append_rev, !app_nil_r, rev_involutive. reflexivity.
  - fold (decode (encode l)). rewrite Hde. lia.
Qed.

Print Assumptions squashed_roundtrip.
Print Assumptions compressed_roundtrip.
Print Assumptions crunched_roundtrip.
