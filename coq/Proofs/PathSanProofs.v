From Coq Require Import ZArith List Lia Bool.
Import ListNotations.
From LX Require Import Model.PathSan.
Local Open Scope Z_scope.

Definition printable (c : Z) : Prop := 32 <= c < 127.

(* per-character image of the copy: either the character itself or '/' (for '\' and one ':') *)
Definition img (a b : Z) : Prop := b = a \/ (b = SLASH /\ (a = BSLASH \/ a = COLON)).

Lemma san_loop_spec : forall fuel first conv l out,
  san_loop fuel first conv l = Some out ->
  length out = Nat.min fuel (length l) /\ Forall printable out /\ Forall2 img (firstn (length out) l) out.
Proof.
  induction fuel as [|f IH]; intros first conv l out H.
  - cbn in H. injection H as <-. cbn. repeat split; constructor.
  - destruct l as [|t rest]; [cbn in H; injection H as <-; cbn; repeat split; constructor|].
    cbn [san_loop] in H.
    destruct ((t <? 32) || (127 <=? t)) eqn:Er; [discriminate|].
    apply orb_false_elim in Er as [E1 E2]. apply Z.ltb_ge in E1. apply Z.leb_gt in E2.
    assert (Pt : printable t) by (unfold printable; lia).
    assert (K : forall c conv', img t c -> printable c -> option_map (cons c) (san_loop f false conv' rest) = Some out ->
               length out = Nat.min (S f) (length (t :: rest)) /\ Forall printable out /\ Forall2 img (firstn (length out) (t :: rest)) out).
    { intros c conv' Hi Hc Hm. destruct (san_loop f false conv' rest) as [o|] eqn:Eo; [|discriminate].
      cbn in Hm. injection Hm as <-. destruct (IH _ _ _ _ Eo) as (L & P & F2).
      cbn [length firstn]. split; [rewrite L; reflexivity|]. split; [constructor; assumption|]. constructor; assumption. }
    destruct (negb first && (t =? COLON) && negb conv) eqn:Ec.
    + destruct rest as [|t2 rest']; [discriminate|].
      destruct ((t2 =? SLASH) || (t2 =? BSLASH)); [discriminate|].
      apply andb_prop in Ec as [Ec _]. apply andb_prop in Ec as [_ Ec]. apply Z.eqb_eq in Ec.
      apply (K SLASH true); [right; split; [reflexivity|right; exact Ec] | unfold printable, SLASH; lia | exact H].
    + destruct (t =? BSLASH) eqn:Eb.
      * apply Z.eqb_eq in Eb. apply (K SLASH conv); [right; split; [reflexivity|left; exact Eb] | unfold printable, SLASH; lia | exact H].
      * apply (K t conv); [left; reflexivity | exact Pt | exact H].
Qed.

(* '.' is produced only from '.', so ".." in the output needs ".." in the input at the same place *)
Lemma img_dot a b : img a b -> b = DOT -> a = DOT.
Proof. intros [->|[-> _]] H; [exact H|]. unfold SLASH, DOT in H. discriminate. Qed.

Lemma has_dotdot_cons a b t : has_dotdot (a :: b :: t) = ((a =? DOT) && (b =? DOT)) || has_dotdot (b :: t).
Proof. reflexivity. Qed.

Lemma has_dotdot_img : forall l out, Forall2 img l out -> has_dotdot out = true -> has_dotdot l = true.
Proof.
  intros l out F. induction F as [|a b l' out' Hab F' IH]; intros H; [discriminate|].
  destruct F' as [|a2 b2 l2 out2 Hab2 F2].
  - cbn in H. discriminate.
  - rewrite has_dotdot_cons in H |- *. apply orb_prop in H as [H|H].
    + apply andb_prop in H as [Hb Hb2]. apply Z.eqb_eq in Hb. apply Z.eqb_eq in Hb2.
      rewrite (img_dot _ _ Hab Hb), (img_dot _ _ Hab2 Hb2). reflexivity.
    + rewrite (IH H). apply orb_true_r.
Qed.

Lemma has_dotdot_firstn : forall n l, has_dotdot (firstn n l) = true -> has_dotdot l = true.
Proof.
  induction n as [|n IH]; intros l H; [discriminate|].
  destruct l as [|a t]; [discriminate|]. cbn [firstn] in H.
  destruct n as [|n']; [destruct t; discriminate|].
  destruct t as [|b t']; [discriminate|]. change (firstn (S n') (b :: t')) with (b :: firstn n' t') in H.
  rewrite has_dotdot_cons in H |- *.
  apply orb_prop in H as [H|H]; [rewrite H; reflexivity|].
  rewrite (IH (b :: t')); [apply orb_true_r|exact H].
Qed.

Lemma copy_name_confined name n out :
  copy_name_for_fopen name n = Some out ->
  length out = Nat.min (Z.to_nat (n - 1)) (length name) /\
  Forall printable out /\
  Forall2 img (firstn (length out) name) out /\
  has_dotdot out = false /\
  (2 < n -> out <> [] /\ out <> [DOT]) /\
  (forall c t, out = c :: t -> c <> SLASH /\ c <> BSLASH).
Proof.
  unfold copy_name_for_fopen. destruct name as [|c0 rest]; [discriminate|].
  destruct ((match c0 :: rest with [d] => d =? DOT | _ => false end) || has_dotdot (c0 :: rest)
            || (c0 =? BSLASH) || (c0 =? SLASH) || (c0 =? COLON)) eqn:Ebad; [discriminate|].
  apply orb_false_elim in Ebad as [Ebad Ecol]. apply orb_false_elim in Ebad as [Ebad Esl].
  apply orb_false_elim in Ebad as [Ebad Ebs]. apply orb_false_elim in Ebad as [Edot Edd].
  apply Z.eqb_neq in Ecol. apply Z.eqb_neq in Esl. apply Z.eqb_neq in Ebs.
  intros H. destruct (san_loop_spec _ _ _ _ _ H) as (L & P & F2).
  split; [exact L|]. split; [exact P|]. split; [exact F2|].
  split.
  { destruct (has_dotdot out) eqn:Eo; [|reflexivity].
    pose proof (has_dotdot_img _ _ F2 Eo) as A. apply has_dotdot_firstn in A. rewrite A in Edd. discriminate. }
  split.
  { intros Hn. assert (Lpos : (2 <= Z.to_nat (n - 1))%nat) by lia.
    split.
    - intro E. rewrite E in L. cbn [length] in L. lia.
    - intro E. rewrite E in L, F2. cbn [length] in L.
      (* out = "." of length 1 with fuel >= 2 means name has length 1, and its only char maps to '.', i.e. name = "." *)
      assert (length rest = 0%nat) by (cbn [length] in L; lia).
      destruct rest; [|discriminate]. cbn in F2. inversion F2 as [|? ? ? ? Hi _]; subst.
      pose proof (img_dot _ _ Hi eq_refl) as ->. cbn in Edot. discriminate. }
  { intros c t E. rewrite E in F2. cbn [length firstn] in F2. inversion F2 as [|? ? ? ? Hi _]; subst.
    inversion P as [|? ? Pc _]; subst.
    (* first character: the colon rule does not apply at index 0, so c0 = '\' is the only way to a '/', excluded *)
    cbn [san_loop] in H. destruct (Z.to_nat (n - 1)) as [|f]; [cbn in H; discriminate|].
    cbn [san_loop] in H. destruct ((c0 <? 32) || (127 <=? c0)); [discriminate|]. cbn [negb andb] in H.
    destruct (c0 =? BSLASH) eqn:Eb; [apply Z.eqb_eq in Eb; contradiction|].
    destruct (san_loop f false false rest); [|discriminate]. cbn in H. injection H as <- _. split; assumption. }
Qed.

(* the looked-up name is an entry of the directory's own listing *)
Lemma check_filename_case_in listing name e : check_filename_case listing name = Some e -> In e listing /\ caseeq e name = true.
Proof. unfold check_filename_case. intros H. apply find_some in H. exact H. Qed.

Lemma find_instrument_confined ipath dirname ins p :
  find_instrument_file ipath dirname ins = Some p ->
  (exists dir listing e, ipath = Some (dir, Some listing) /\ In e listing /\ caseeq e ins = true /\ p = dir ++ [SLASH] ++ e) \/
  (exists dir listing e, dirname = Some (dir, Some listing) /\ In e listing /\ caseeq e ins = true /\ p = dir ++ e).
Proof.
  unfold find_instrument_file.
  destruct ipath as [[d1 [l1|]]|].
  - destruct (check_filename_case l1 ins) as [e|] eqn:E1.
    + intros H. injection H as <-. left. destruct (check_filename_case_in _ _ _ E1). exists d1, l1, e. auto.
    + destruct dirname as [[d2 [l2|]]|]; try discriminate.
      destruct (check_filename_case l2 ins) as [e|] eqn:E2; [|discriminate].
      intros H. injection H as <-. right. destruct (check_filename_case_in _ _ _ E2). exists d2, l2, e. auto.
  - destruct dirname as [[d2 [l2|]]|]; try discriminate.
    destruct (check_filename_case l2 ins) as [e|] eqn:E2; [|discriminate].
    intros H. injection H as <-. right. destruct (check_filename_case_in _ _ _ E2). exists d2, l2, e. auto.
  - destruct dirname as [[d2 [l2|]]|]; try discriminate.
    destruct (check_filename_case l2 ins) as [e|] eqn:E2; [|discriminate].
    intros H. injection H as <-. right. destruct (check_filename_case_in _ _ _ E2). exists d2, l2, e. auto.
Qed.

(* a name containing '/' never matches an entry without '/' *)
Lemma caseeq_slash : forall e name, caseeq e name = true -> In SLASH name -> In SLASH e.
Proof.
  induction e as [|x e IH]; intros [|y name] H Hin; try discriminate; [destruct Hin|].
  cbn [caseeq] in H. apply andb_prop in H as [Hx Hr]. apply Z.eqb_eq in Hx.
  destruct Hin as [->|Hin].
  - left. unfold lower, SLASH in *. destruct ((65 <=? x) && (x <=? 90)) eqn:E.
    + apply andb_prop in E as [A B]. apply Z.leb_le in A. apply Z.leb_le in B. cbn in Hx. lia.
    + cbn in Hx. exact Hx.
  - right. eapply IH; eauto.
Qed.

(* basename has no '/', dirname ++ basename = path *)
Lemma split_last_slash_spec : forall p d b, split_last_slash p = Some (d, b) -> p = d ++ b /\ ~ In SLASH b /\ exists d', d = d' ++ [SLASH].
Proof.
  induction p as [|c t IH]; intros d b H; [discriminate|]. cbn [split_last_slash] in H.
  destruct (split_last_slash t) as [[d0 b0]|] eqn:E.
  - injection H as <- <-. destruct (IH _ _ eq_refl) as (A & B & d' & C). subst. split; [reflexivity|]. split; [exact B|]. exists (c :: d'). reflexivity.
  - destruct (c =? SLASH) eqn:Ec; [|discriminate]. injection H as <- <-. apply Z.eqb_eq in Ec. subst c.
    split; [reflexivity|]. split; [|exists []; reflexivity].
    clear IH. revert E. induction t as [|x t IHt]; intros E; [intros []|]. cbn [split_last_slash] in E.
    destruct (split_last_slash t) as [[? ?]|]; [discriminate|]. destruct (x =? SLASH) eqn:Ex; [discriminate|].
    apply Z.eqb_neq in Ex. intros [H|H]; [congruence|]. apply IHt; auto.
Qed.
Lemma split_none_no_slash : forall p, split_last_slash p = None -> ~ In SLASH p.
Proof.
  induction p as [|x t IH]; intros E; [intros []|]. cbn [split_last_slash] in E.
  destruct (split_last_slash t) as [[? ?]|]; [discriminate|]. destruct (x =? SLASH) eqn:Ex; [discriminate|].
  apply Z.eqb_neq in Ex. intros [H|H]; [congruence|]. apply IH; auto.
Qed.
Lemma basename_spec p : p = get_dirname p ++ get_basename p /\ ~ In SLASH (get_basename p).
Proof.
  unfold get_dirname, get_basename. destruct (split_last_slash p) as [[d b]|] eqn:E.
  - destruct (split_last_slash_spec _ _ _ E) as (A & B & _). auto.
  - split; [reflexivity|]. apply split_none_no_slash. exact E.
Qed.

(* an external program is chosen only with a known filename and an MO3 / Rar signature; argv fixed *)
Lemma exec_only_helpers e hs hdr internal :
  entry_may_exec e hs hdr internal = true ->
  (e = LoadPath \/ e = TestPath) /\ 100 <= hs /\ internal = false /\
  ((is_mo3 hdr = true /\ decrunch_decision hs hdr internal true = External argv_mo3) \/
   (is_rar hdr = true /\ decrunch_decision hs hdr internal true = External argv_rar)).
Proof.
  unfold entry_may_exec, decrunch_decision. intros H. apply andb_prop in H as [Hd H].
  destruct (Z.ltb_spec hs 100); [discriminate|]. destruct internal; [discriminate|].
  destruct (is_mo3 hdr) eqn:Em.
  - destruct (entry_has_name e) eqn:En; [|discriminate].
    split; [destruct e; try discriminate; auto|]. split; [lia|]. split; [reflexivity|]. left. auto.
  - destruct (is_rar hdr) eqn:Er; [|discriminate].
    destruct (entry_has_name e) eqn:En; [|discriminate].
    split; [destruct e; try discriminate; auto|]. split; [lia|]. split; [reflexivity|]. right. auto.
Qed.
