(* C08: fuel sufficiency of the PowerPacker unpacker model (Model/PP20.v) for EVERY input: the fuel `length b + 1` that pp_unpack passes
   to pp_loop (and that pp_loop passes on to rd_count) is never exhausted, i.e. any larger fuel gives the same result.  Every
   iteration of pp_loop reads at least one bit (rdbits 1) or stops; every chunk of rd_count reads w >= 1 bits or stops. *)
From Coq Require Import ZArith List Lia Bool.
Import ListNotations.
From LX Require Import Base.ListAux Model.PP20 Proofs.PP20Proofs.
Local Open Scope Z_scope.
Ltac Zify.zify_post_hook ::= Z.div_mod_to_equations.

(* ---------------------------------------------------------------- 1. what the readers consume -------------------------- *)
Lemma take_msb_len : forall n acc b v b', take_msb n acc b = Some (v, b') -> length b = (n + length b')%nat.
Proof.
  induction n as [|n IH]; intros acc b v b' H; cbn [take_msb] in H.
  - inversion H; subst. reflexivity.
  - destruct b as [|x t]; [discriminate|]. apply IH in H. cbn [length]. lia.
Qed.

Lemma rdbits_len n b v b' : rdbits n b = Some (v, b') -> length b = (Z.to_nat n + length b')%nat.
Proof. unfold rdbits. apply take_msb_len. Qed.

Lemma rd_count_len w : forall fuel acc b v b', rd_count fuel w acc b = Some (v, b') -> (length b' + Z.to_nat w <= length b)%nat.
Proof.
  induction fuel as [|f IH]; intros acc b v b' H; cbn [rd_count] in H; [discriminate|].
  destruct (rdbits w b) as [[x b1]|] eqn:E; [|discriminate].
  apply rdbits_len in E.
  destruct (x =? 2 ^ w - 1).
  - apply IH in H. lia.
  - inversion H; subst. lia.
Qed.

Lemma literals_len : forall n b out room b' out' room', literals n b out room = Some (b', out', room') -> (length b' <= length b)%nat.
Proof.
  induction n as [|n IH]; intros b out room b' out' room' H; cbn [literals] in H.
  - inversion H; subst. lia.
  - destruct (rdbits 8 b) as [[x b1]|] eqn:E; [|discriminate].
    apply rdbits_len in E. destruct (room <=? 0); [discriminate|]. apply IH in H. lia.
Qed.

(* ---------------------------------------------------------------- 2. rd_count ------------------------------------------ *)
(* (for w <= 0 a chunk reads nothing and 0 = 2 ^ 0 - 1 continues for ever: the hypothesis 1 <= w is needed; pp_loop uses w = 2, 3) *)
Lemma rd_count_fuel w : 1 <= w -> forall f1 f2 acc b, (length b < f1)%nat -> (length b < f2)%nat ->
  rd_count f1 w acc b = rd_count f2 w acc b.
Proof.
  intros Hw. induction f1 as [|f1 IH]; intros f2 acc b H1 H2; [lia|].
  destruct f2 as [|f2]; [lia|]. cbn [rd_count].
  destruct (rdbits w b) as [[x b1]|] eqn:E; [|reflexivity].
  apply rdbits_len in E.
  destruct (x =? 2 ^ w - 1); [|reflexivity].
  apply IH; lia.
Qed.

(* the number of chunks is bounded by the bits that are left: fuel `length b / w + 1` would do as well *)
Lemma rd_count_fuel_div w : 1 <= w -> forall f1 f2 acc b, (length b / Z.to_nat w < f1)%nat -> (length b / Z.to_nat w < f2)%nat ->
  rd_count f1 w acc b = rd_count f2 w acc b.
Proof.
  intros Hw. induction f1 as [|f1 IH]; intros f2 acc b H1 H2; [lia|].
  destruct f2 as [|f2]; [lia|]. cbn [rd_count].
  destruct (rdbits w b) as [[x b1]|] eqn:E; [|reflexivity].
  apply rdbits_len in E.
  destruct (x =? 2 ^ w - 1); [|reflexivity].
  assert (Hd : (length b / Z.to_nat w = S (length b1 / Z.to_nat w))%nat).
  { rewrite E. replace (Z.to_nat w + length b1)%nat with (length b1 + 1 * Z.to_nat w)%nat by lia.
    rewrite Nat.div_add by lia. lia. }
  apply IH; lia.
Qed.

(* ---------------------------------------------------------------- 3. the phases of one step ---------------------------- *)
Lemma lit_phase_fuel f1 f2 lit b1 out room : (length b1 < f1)%nat -> (length b1 < f2)%nat ->
  lit_phase f1 lit b1 out room = lit_phase f2 lit b1 out room.
Proof. intros H1 H2. unfold lit_phase. rewrite (rd_count_fuel 2 ltac:(lia) f1 f2 1 b1 H1 H2). reflexivity. Qed.

Lemma lit_phase_len f lit b1 out room b3 out1 room1 : lit_phase f lit b1 out room = Some (b3, out1, room1) -> (length b3 <= length b1)%nat.
Proof.
  unfold lit_phase. destruct (lit =? 0).
  - destruct (rd_count f 2 1 b1) as [[todo b2]|] eqn:E; [|discriminate].
    intros H. apply rd_count_len in E. apply literals_len in H. lia.
  - intros H. inversion H; subst. lia.
Qed.

Lemma match_res_fuel f1 f2 eff x b4 : (length b4 < f1)%nat -> (length b4 < f2)%nat ->
  match_res f1 eff x b4 = match_res f2 eff x b4.
Proof.
  intros H1 H2. unfold match_res. destruct (x =? 3); [|reflexivity].
  destruct (rdbits 1 b4) as [[long b5]|] eqn:E1; [|reflexivity]. apply rdbits_len in E1.
  cbv zeta.
  destruct (rdbits (if long =? 0 then 7 else nth 3 eff 0) b5) as [[offset b6]|] eqn:E2; [|reflexivity]. apply rdbits_len in E2.
  rewrite (rd_count_fuel 3 ltac:(lia) f1 f2 5 b6) by lia. reflexivity.
Qed.

Lemma match_res_len f eff x b4 offset todo b8 : match_res f eff x b4 = Some (offset, todo, b8) -> (length b8 <= length b4)%nat.
Proof.
  unfold match_res. destruct (x =? 3).
  - destruct (rdbits 1 b4) as [[long b5]|] eqn:E1; [|discriminate]. apply rdbits_len in E1.
    cbv zeta.
    destruct (rdbits (if long =? 0 then 7 else nth 3 eff 0) b5) as [[off b6]|] eqn:E2; [|discriminate]. apply rdbits_len in E2.
    destruct (rd_count f 3 5 b6) as [[td b7]|] eqn:E3; [|discriminate]. apply rd_count_len in E3.
    intros H. inversion H; subst. lia.
  - destruct (rdbits (nth (Z.to_nat x) eff 0) b4) as [[off b5]|] eqn:E1; [|discriminate]. apply rdbits_len in E1.
    intros H. inversion H; subst. lia.
Qed.

(* ---------------------------------------------------------------- 4. pp_loop ------------------------------------------- *)
Theorem pp_loop_fuel : forall f1 f2 eff b out room, (length b < f1)%nat -> (length b < f2)%nat ->
  pp_loop f1 eff b out room = pp_loop f2 eff b out room.
Proof.
  induction f1 as [|f1 IH]; intros f2 eff b out room H1 H2; [lia|].
  destruct f2 as [|f2]; [lia|].
  rewrite !pp_loop_eq.
  destruct (room <=? 0); [reflexivity|].
  destruct (rdbits 1 b) as [[lit b1]|] eqn:E1; [|reflexivity].
  apply rdbits_len in E1. change (Z.to_nat 1) with 1%nat in E1.
  rewrite (lit_phase_fuel (S f1) (S f2) lit b1 out room) by lia.
  destruct (lit_phase (S f2) lit b1 out room) as [[[b3 out1] room1]|] eqn:E2; [|reflexivity].
  apply lit_phase_len in E2.
  destruct ((lit =? 0) && (room1 =? 0)); [reflexivity|].
  destruct (rdbits 2 b3) as [[x b4]|] eqn:E3; [|reflexivity].
  apply rdbits_len in E3.
  rewrite (match_res_fuel (S f1) (S f2) eff x b4) by lia.
  destruct (match_res (S f2) eff x b4) as [[[offset todo] b8]|] eqn:E4; [|reflexivity].
  apply match_res_len in E4.
  destruct (Z.of_nat (length out1) <=? offset); [reflexivity|].
  destruct (copy (Z.to_nat todo) (Z.to_nat offset) out1 room1) as [[out2 room2]|]; [|reflexivity].
  apply IH; lia.
Qed.

(* any fuel above the number of bits left gives what the fuel of the model gives *)
Corollary pp_loop_fuel_enough eff b out room fuel : (length b < fuel)%nat ->
  pp_loop fuel eff b out room = pp_loop (length b + 1) eff b out room.
Proof. intros H. apply pp_loop_fuel; lia. Qed.

(* ---------------------------------------------------------------- 5. the top level ------------------------------------- *)
(* pp_unpack with `fuel` in place of `length b + 1` *)
Definition pp_unpack_f (fuel : nat) (file : list Z) : option (list Z) :=
  let len := length file in
  if (len <? 16)%nat || negb (Nat.eqb (len mod 4) 0) then None else
  if negb (list_eqb (firstn 4 file) magic) then None else
  let eff := firstn 4 (skipn 4 file) in
  if negb (forallb (fun e => (9 <=? e) && (e <=? 15)) eff) then None else
  let trailer := skipn (len - 4) file in
  let unplen := be24 trailer in
  if unplen =? 0 then None else
  let skip := nth 3 trailer 0 in
  if 32 <? skip then None else
  let src := firstn (len - 11) (skipn 7 file) in
  let bits := read_order src in
  match rdbits skip bits with
  | None => None
  | Some (_, b) => pp_loop fuel eff b [] unplen
  end.

Lemma read_order_length src : length (read_order src) = (8 * length src)%nat.
Proof.
  unfold read_order. rewrite frev_rev. rewrite <- (rev_length src).
  induction (rev src) as [|x t IH]; [reflexivity|].
  cbn [map concat length]. rewrite app_length, bits_of_z_length, IH. lia.
Qed.

Theorem pp_unpack_fuel : forall file fuel, (8 * length file < fuel)%nat -> pp_unpack_f fuel file = pp_unpack file.
Proof.
  intros file fuel H. unfold pp_unpack_f, pp_unpack. cbv zeta.
  destruct ((length file <? 16)%nat || negb (Nat.eqb (length file mod 4) 0)); [reflexivity|].
  destruct (negb (list_eqb (firstn 4 file) magic)); [reflexivity|].
  destruct (negb (forallb (fun e => (9 <=? e) && (e <=? 15)) (firstn 4 (skipn 4 file)))); [reflexivity|].
  destruct (be24 (skipn (length file - 4) file) =? 0); [reflexivity|].
  destruct (32 <? nth 3 (skipn (length file - 4) file) 0); [reflexivity|].
  destruct (rdbits (nth 3 (skipn (length file - 4) file) 0) (read_order (firstn (length file - 11) (skipn 7 file)))) as [[v b]|] eqn:E;
    [|reflexivity].
  apply rdbits_len in E. rewrite read_order_length, firstn_length, skipn_length in E.
  apply pp_loop_fuel; lia.
Qed.

(* the work of the unpacker is bounded by the size of the file on every input: 8 bits per byte, one iteration per bit at most *)
Corollary pp_unpack_fuel_any : forall file f1 f2, (8 * length file < f1)%nat -> (8 * length file < f2)%nat ->
  pp_unpack_f f1 file = pp_unpack_f f2 file.
Proof. intros file f1 f2 H1 H2. rewrite !pp_unpack_fuel by assumption. reflexivity. Qed.

Print Assumptions rd_count_fuel.
Print Assumptions rd_count_fuel_div.
Print Assumptions pp_loop_fuel.
Print Assumptions pp_unpack_fuel.
Print Assumptions pp_unpack_fuel_any.
