(* C01 / C16: every access of the envelope evaluation (Model/Envelope.v) to the 64-entry point array is in bounds for an envelope
   that satisfies the C03 clause env_okb, at every position / release / key-off state and for every content of the array; the value
   get_envelope returns lies between the extreme y values of the envelope's nodes. *)
From Coq Require Import ZArith List Lia Bool.
Import ListNotations.
From LX Require Import Base.ListAux Generated.Consts Model.ModuleWf Model.Envelope.
Local Open Scope Z_scope.
Ltac Zify.zify_post_hook ::= Z.div_mod_to_equations.

(* ---------- what env_okb gives ---------- *)

Ltac split_all :=
  repeat match goal with H : (_ && _) = true |- _ => let H2 := fresh "K" in apply andb_prop in H; destruct H as [H H2] end;
  repeat match goal with
         | H : (_ <=? _) = true |- _ => apply Z.leb_le in H
         | H : (_ <? _) = true |- _ => apply Z.ltb_lt in H
         end.

Lemma env_ok_on e : env_okb e = true -> has (e_flg e) C_XMP_ENVELOPE_ON = true -> 1 <= e_npt e <= 32.
Proof.
  intros H Hon. unfold env_okb in H. rewrite Hon in H. unfold C_XMP_MAX_ENV_POINTS in H. cbn [andb] in H.
  apply andb_prop in H. destruct H as [H _]. apply andb_prop in H. destruct H as [H _]. split_all. lia.
Qed.

Lemma env_ok_loop e : env_okb e = true -> has (e_flg e) C_XMP_ENVELOPE_ON = true -> has (e_flg e) C_XMP_ENVELOPE_LOOP = true ->
  0 <= e_lps e < e_npt e /\ 0 <= e_lpe e < e_npt e.
Proof.
  intros H Hon Hl. unfold env_okb in H. rewrite Hon, Hl in H. cbn [andb] in H.
  apply andb_prop in H. destruct H as [H _]. apply andb_prop in H. destruct H as [_ H]. split_all. lia.
Qed.

Lemma env_ok_sus e : env_okb e = true -> has (e_flg e) C_XMP_ENVELOPE_ON = true -> has (e_flg e) C_XMP_ENVELOPE_SUS = true ->
  0 <= e_sus e < e_npt e /\ 0 <= e_sue e < e_npt e.
Proof.
  intros H Hon Hs. unfold env_okb in H. rewrite Hon, Hs in H. cbn [andb] in H.
  apply andb_prop in H. destruct H as [_ H]. split_all. lia.
Qed.

(* ---------- reads of the point array ---------- *)

Lemma dat_some data i : length data = 64%nat -> 0 <= i < 64 -> exists v, dat data i = Some v.
Proof. intros Hl Hi. unfold dat. apply zget_some. unfold zlen. rewrite Hl. lia. Qed.

Lemma pt_some data p : length data = 64%nat -> 0 <= p < 32 -> exists v, pt data p = Some v.
Proof. intros Hl Hp. unfold pt. apply dat_some; [assumption|lia]. Qed.

Lemma dat_nth data i v : dat data i = Some v -> 0 <= i /\ v = nth (Z.to_nat i) data 0.
Proof.
  unfold dat, zget. destruct (Z.ltb_spec i 0) as [Hlt|Hge]; [discriminate|].
  intros H. split; [assumption|]. symmetry. apply nth_error_nth. assumption.
Qed.

(* ---------- the walk back from the last node ---------- *)

Lemma walk_back_some data x : length data = 64%nat ->
  forall fuel idx k, 0 < idx <= 62 -> idx = 2 * k -> idx / 2 <= Z.of_nat fuel ->
  exists i, walk_back fuel data idx x = Some i /\ 0 <= i <= idx - 2 /\ exists j, i = 2 * j.
Proof.
  intros Hl. induction fuel as [|f IH]; intros idx k Hidx Hk Hf.
  - exfalso. cbn in Hf. lia.
  - cbn [walk_back]. cbv zeta.
    destruct (dat_some data (idx - 2) Hl) as [x1 Hx1]; [lia|]. rewrite Hx1.
    destruct (Z.ltb_spec 0 (idx - 2)) as [Hpos|Hnpos]; cbn [andb].
    + destruct (Z.ltb_spec x x1) as [Hxlt|Hxge].
      * destruct (IH (idx - 2) (k - 1)) as [i [Hw [Hb [j Hj]]]]; [lia|lia|lia|].
        exists i. split; [assumption|]. split; [lia|]. exists j. assumption.
      * exists (idx - 2). split; [reflexivity|]. split; [lia|]. exists (k - 1). lia.
    + exists (idx - 2). split; [reflexivity|]. split; [lia|]. exists (k - 1). lia.
Qed.

(* the node after the one the walk stops at has an x beyond the position *)
Lemma walk_back_next data x : forall fuel idx i xl,
  walk_back fuel data idx x = Some i -> dat data idx = Some xl -> x < xl ->
  exists x2, dat data (i + 2) = Some x2 /\ x < x2.
Proof.
  induction fuel as [|f IH]; intros idx i xl Hw Hd Hx.
  - discriminate.
  - cbn [walk_back] in Hw. cbv zeta in Hw.
    destruct (dat data (idx - 2)) as [x1|] eqn:Hx1; [|discriminate].
    destruct ((0 <? idx - 2) && (x <? x1)) eqn:Hc.
    + apply andb_prop in Hc. destruct Hc as [_ Hc]. apply Z.ltb_lt in Hc.
      apply (IH (idx - 2) i x1); assumption.
    + injection Hw as Hw. subst i. exists xl. replace (idx - 2 + 2) with idx by lia. split; assumption.
Qed.

(* ---------- get_envelope ---------- *)

Theorem get_envelope_in_bounds : forall e data x def, env_okb e = true -> length data = 64%nat ->
  exists v, get_envelope e data x def = Some v.
Proof.
  intros e data x def Hok Hl. unfold get_envelope.
  destruct ((x <? 0) || negb (has (e_flg e) C_XMP_ENVELOPE_ON) || (e_npt e <=? 0)) eqn:Hc; [eauto|].
  apply orb_false_elim in Hc. destruct Hc as [Hc Hnpt]. apply orb_false_elim in Hc. destruct Hc as [_ Hon].
  apply negb_false_iff in Hon. pose proof (env_ok_on e Hok Hon) as Hn. cbv zeta.
  destruct (dat_some data ((e_npt e - 1) * 2) Hl) as [xl Hxl]; [lia|].
  destruct (dat_some data ((e_npt e - 1) * 2 + 1) Hl) as [yl Hyl]; [lia|].
  rewrite Hxl, Hyl.
  destruct ((xl <=? x) || ((e_npt e - 1) * 2 =? 0)) eqn:Hc2; [eauto|].
  apply orb_false_elim in Hc2. destruct Hc2 as [_ Hz]. apply Z.eqb_neq in Hz.
  destruct (walk_back_some data x Hl 40 ((e_npt e - 1) * 2) (e_npt e - 1)) as [i [Hw [Hb [j Hj]]]]; [lia|lia|cbn; lia|].
  rewrite Hw.
  destruct (dat_some data i Hl) as [a Ha]; [lia|].
  destruct (dat_some data (i + 1) Hl) as [b Hb1]; [lia|].
  destruct (dat_some data (i + 2) Hl) as [c Hc2]; [lia|].
  destruct (dat_some data (i + 3) Hl) as [d Hd]; [lia|].
  rewrite Ha, Hb1, Hc2, Hd.
  destruct ((x <? a) || (c <? a)); eauto.
Qed.

(* ---------- update_envelope ---------- *)

Ltac split_if := match goal with |- exists v, (if ?b then _ else _) = Some v => destruct b end.

Section Update.
Variables (e : env) (data : list Z).
Hypothesis Hloop : has (e_flg e) C_XMP_ENVELOPE_LOOP = true ->
  (exists v, pt data (e_lps e) = Some v) /\ (exists v, pt data (e_lpe e) = Some v).
Hypothesis Hsus : has (e_flg e) C_XMP_ENVELOPE_SUS = true ->
  (exists v, pt data (e_sus e) = Some v) /\ (exists v, pt data (e_sue e) = Some v).

Lemma update_generic_some x rel : exists v, update_generic e data x rel = Some v.
Proof.
  unfold update_generic. cbv zeta.
  destruct (has (e_flg e) C_XMP_ENVELOPE_LOOP) eqn:El; destruct (has (e_flg e) C_XMP_ENVELOPE_SUS) eqn:Es; cbn [andb negb].
  - destruct (Hloop eq_refl) as [[a Ha] [b Hb]]. destruct (Hsus eq_refl) as [[c Hc] [d Hd]]. rewrite Hb.
    destruct (e_sus e =? e_lpe e); destruct rel; cbn [andb negb]; try rewrite Hc; repeat split_if; try rewrite Ha; eauto.
  - destruct (Hloop eq_refl) as [[a Ha] [b Hb]]. rewrite Hb.
    destruct (e_sus e =? e_lpe e); destruct rel; cbn [andb negb]; repeat split_if; try rewrite Ha; eauto.
  - destruct (Hsus eq_refl) as [[c Hc] [d Hd]]. rewrite Hc. eauto.
  - eauto.
Qed.

Lemma update_xm_some x rel : exists v, update_xm e data x rel = Some v.
Proof.
  unfold update_xm. cbv zeta.
  destruct (has (e_flg e) C_XMP_ENVELOPE_LOOP) eqn:El; destruct (has (e_flg e) C_XMP_ENVELOPE_SUS) eqn:Es; cbn [andb negb].
  - destruct (Hloop eq_refl) as [[a Ha] [b Hb]]. destruct (Hsus eq_refl) as [[c Hc] [d Hd]]. rewrite Hc, Hb.
    repeat split_if; try rewrite Ha; eauto.
  - destruct (Hloop eq_refl) as [[a Ha] [b Hb]]. rewrite Hb.
    repeat split_if; try rewrite Ha; eauto.
  - destruct (Hsus eq_refl) as [[c Hc] [d Hd]]. rewrite Hc. eauto.
  - eauto.
Qed.

Lemma update_it_some x rel ko : exists v, update_it e data x rel ko = Some v.
Proof.
  unfold update_it. cbv zeta.
  destruct (has (e_flg e) C_XMP_ENVELOPE_LOOP) eqn:El; destruct (has (e_flg e) C_XMP_ENVELOPE_SUS) eqn:Es; cbn [andb negb].
  - destruct (Hloop eq_refl) as [[a Ha] [b Hb]]. destruct (Hsus eq_refl) as [[c Hc] [d Hd]].
    destruct ko; destruct rel; cbn [andb negb]; try rewrite Hd; try rewrite Hb; repeat split_if; try rewrite Ha; try rewrite Hc; eauto.
  - destruct (Hloop eq_refl) as [[a Ha] [b Hb]]. rewrite Hb. repeat split_if; try rewrite Ha; eauto.
  - destruct (Hsus eq_refl) as [[c Hc] [d Hd]].
    destruct ko; destruct rel; cbn [andb negb]; try rewrite Hd; repeat split_if; try rewrite Hc; eauto.
  - eauto.
Qed.
End Update.

Theorem update_envelope_in_bounds : forall mode e data x rel ko, env_okb e = true -> length data = 64%nat ->
  exists v, update_envelope mode e data x rel ko = Some v.
Proof.
  intros mode e data x rel ko Hok Hl. unfold update_envelope. cbv zeta.
  destruct ((if x <? 65535 then x + 1 else x) <? 0); [eauto|].
  destruct (negb (has (e_flg e) C_XMP_ENVELOPE_ON) || (e_npt e <=? 0)) eqn:Hc; [eauto|].
  apply orb_false_elim in Hc. destruct Hc as [Hon _]. apply negb_false_iff in Hon.
  pose proof (env_ok_on e Hok Hon) as Hn.
  assert (Hloop : has (e_flg e) C_XMP_ENVELOPE_LOOP = true ->
                  (exists v, pt data (e_lps e) = Some v) /\ (exists v, pt data (e_lpe e) = Some v)).
  { intros H. pose proof (env_ok_loop e Hok Hon H) as Hb. split; apply pt_some; try assumption; lia. }
  assert (Hsus : has (e_flg e) C_XMP_ENVELOPE_SUS = true ->
                 (exists v, pt data (e_sus e) = Some v) /\ (exists v, pt data (e_sue e) = Some v)).
  { intros H. pose proof (env_ok_sus e Hok Hon H) as Hb. split; apply pt_some; try assumption; lia. }
  destruct mode.
  - apply update_generic_some; assumption.
  - apply update_xm_some; assumption.
  - apply update_it_some; assumption.
Qed.

(* ---------- the value get_envelope returns ---------- *)

(* C's truncating interpolation stays between the two node values *)
Lemma interp_range lo hi y1 y2 t d : 0 <= t <= d -> 0 < d -> lo <= y1 <= hi -> lo <= y2 <= hi ->
  lo <= cdiv ((y2 - y1) * t) d + y1 <= hi.
Proof.
  intros Ht Hd H1 H2. unfold cdiv. destruct (Z_le_gt_dec y1 y2) as [Hle|Hgt].
  - assert (Ha : 0 <= (y2 - y1) * t) by (apply Z.mul_nonneg_nonneg; lia).
    assert (Hb : (y2 - y1) * t <= d * (y2 - y1)) by (rewrite (Z.mul_comm d); apply Z.mul_le_mono_nonneg_l; lia).
    rewrite Z.quot_div_nonneg by lia.
    pose proof (Z.div_pos _ _ Ha Hd) as Hq0.
    pose proof (Z.div_le_upper_bound _ _ _ Hd Hb) as Hq1. lia.
  - assert (Ha : 0 <= (y1 - y2) * t) by (apply Z.mul_nonneg_nonneg; lia).
    assert (Hb : (y1 - y2) * t <= d * (y1 - y2)) by (rewrite (Z.mul_comm d); apply Z.mul_le_mono_nonneg_l; lia).
    replace ((y2 - y1) * t) with (- ((y1 - y2) * t)) by ring.
    rewrite Z.quot_opp_l by lia. rewrite Z.quot_div_nonneg by lia.
    pose proof (Z.div_pos _ _ Ha Hd) as Hq0.
    pose proof (Z.div_le_upper_bound _ _ _ Hd Hb) as Hq1. lia.
Qed.

Theorem get_envelope_value_range : forall e data x def lo hi, env_okb e = true -> length data = 64%nat ->
  has (e_flg e) C_XMP_ENVELOPE_ON = true -> 0 <= x ->
  (forall k, 0 <= k < e_npt e -> lo <= nth (Z.to_nat (2 * k + 1)) data 0 <= hi) ->
  forall v, get_envelope e data x def = Some v -> lo <= v <= hi.
Proof.
  intros e data x def lo hi Hok Hl Hon Hx Hy v Hg.
  pose proof (env_ok_on e Hok Hon) as Hn.
  assert (Hy' : forall i j w, i = 2 * j + 1 -> 0 <= j < e_npt e -> dat data i = Some w -> lo <= w <= hi).
  { intros i j w Hi Hj Hd. apply dat_nth in Hd. destruct Hd as [_ Hd]. subst w i. apply Hy. assumption. }
  unfold get_envelope in Hg. rewrite Hon in Hg.
  destruct (Z.ltb_spec x 0) as [Hlt|_]; [lia|].
  destruct (Z.leb_spec (e_npt e) 0) as [Hle|_]; [lia|].
  cbn [orb negb] in Hg. cbv zeta in Hg.
  destruct (dat data ((e_npt e - 1) * 2)) as [xl|] eqn:Hxl; [|discriminate].
  destruct (dat data ((e_npt e - 1) * 2 + 1)) as [yl|] eqn:Hyl; [|discriminate].
  destruct (Z.leb_spec xl x) as [Hxle|Hxgt]; cbn [orb] in Hg.
  { injection Hg as Hg. subst v. apply (Hy' ((e_npt e - 1) * 2 + 1) (e_npt e - 1) yl); [lia|lia|exact Hyl]. }
  destruct (Z.eqb_spec ((e_npt e - 1) * 2) 0) as [Hz|Hnz].
  { injection Hg as Hg. subst v. apply (Hy' ((e_npt e - 1) * 2 + 1) (e_npt e - 1) yl); [lia|lia|exact Hyl]. }
  destruct (walk_back_some data x Hl 40 ((e_npt e - 1) * 2) (e_npt e - 1)) as [i [Hw [Hb [j Hj]]]]; [lia|lia|cbn; lia|].
  rewrite Hw in Hg.
  destruct (walk_back_next data x _ _ _ _ Hw Hxl Hxgt) as [x2' [Hx2' Hxx2]].
  destruct (dat data i) as [x1|] eqn:Hx1; [|discriminate].
  destruct (dat data (i + 1)) as [y1|] eqn:Hy1; [|discriminate].
  rewrite Hx2' in Hg.
  destruct (dat data (i + 3)) as [y2|] eqn:Hy2; [|discriminate].
  assert (Ry1 : lo <= y1 <= hi) by (apply (Hy' (i + 1) j y1); [lia|lia|exact Hy1]).
  assert (Ry2 : lo <= y2 <= hi) by (apply (Hy' (i + 3) (j + 1) y2); [lia|lia|exact Hy2]).
  destruct (Z.ltb_spec x x1) as [Hxx1|Hxx1]; cbn [orb] in Hg.
  { injection Hg as Hg. subst v. assumption. }
  destruct (Z.ltb_spec x2' x1) as [Hx21|Hx21].
  { injection Hg as Hg. subst v. assumption. }
  injection Hg as Hg. subst v.
  destruct (Z.eqb_spec x2' x1) as [Heq|Hne]; [assumption|].
  apply interp_range; lia.
Qed.

Print Assumptions get_envelope_in_bounds.
Print Assumptions update_envelope_in_bounds.
Print Assumptions get_envelope_value_range.
