From Coq Require Import ZArith List Lia Bool.
Import ListNotations.
From LX Require Import Base.ListAux Model.ModCodec.
Local Open Scope Z_scope.
Ltac Zify.zify_post_hook ::= Z.div_mod_to_equations.

Lemma take_app a r n : length a = n -> take n (a ++ r) = Some (a, r).
Proof.
  intros H. unfold take. rewrite app_length. destruct (Nat.ltb_spec (length a + length r) n); [lia|].
  subst n. rewrite firstn_app, Nat.sub_diag, firstn_all. cbn [firstn]. rewrite app_nil_r.
  rewrite skipn_app, Nat.sub_diag, skipn_all. reflexivity.
Qed.

Lemma be16_rt x : 0 <= x <= 65535 -> dec_be16 (be16 x) = x.
Proof. intros H. unfold dec_be16, be16. lia. Qed.

Lemma andb_all : forall b c, b && c = true -> b = true /\ c = true.
Proof. intros. apply andb_prop. assumption. Qed.

Ltac split_okb H :=
  repeat match type of H with (_ && _) = true => let H2 := fresh "K" in apply andb_prop in H; destruct H as [H H2] end.

Lemma dec_inst_rt i r : inst_okb i = true -> dec_inst (enc_inst i ++ r) = Some (i, r).
Proof.
  intros H. unfold inst_okb in H. split_okb H. apply Nat.eqb_eq in H.
  repeat match goal with K : (_ <=? _) = true |- _ => apply Z.leb_le in K end.
  destruct i as [nm ln fi vo ls ll]. cbn [i_name i_len i_fine i_vol i_lps i_lpl] in *.
  unfold dec_inst, enc_inst. cbn [i_name i_len i_fine i_vol i_lps i_lpl]. rewrite <- !app_assoc.
  rewrite (take_app nm _ 22 H).
  rewrite (take_app (be16 ln) _ 2 eq_refl).
  change ([fi; vo] ++ be16 ls ++ be16 ll ++ r) with ([fi; vo] ++ (be16 ls ++ be16 ll ++ r)). rewrite (take_app [fi; vo] _ 2 eq_refl).
  rewrite (take_app (be16 ls) _ 2 eq_refl). rewrite (take_app (be16 ll) _ 2 eq_refl).
  rewrite !be16_rt by lia. reflexivity.
Qed.

Lemma dec_cell_rt c r : cell_okb c = true -> dec_cell (enc_cell c ++ r) = Some (c, r).
Proof.
  intros H. unfold cell_okb, byteb in H. split_okb H.
  repeat match goal with K : (_ <=? _) = true |- _ => apply Z.leb_le in K end.
  destruct c as [pe ins ft fp]. cbn [c_period c_ins c_fxt c_fxp] in *.
  unfold dec_cell, enc_cell. cbn [c_period c_ins c_fxt c_fxp]. match goal with |- context [take 4 (?a ++ r)] => rewrite (take_app a r 4 eq_refl) end. cbn [nth].
  f_equal. f_equal. f_equal; lia.
Qed.

Lemma dec_many_rt {A} (dec : list Z -> option (A * list Z)) (enc : A -> list Z) (ok : A -> bool) :
  (forall x r, ok x = true -> dec (enc x ++ r) = Some (x, r)) ->
  forall xs r, forallb ok xs = true -> dec_many dec (length xs) (concat (map enc xs) ++ r) = Some (xs, r).
Proof.
  intros Hd. induction xs as [|x t IH]; intros r H; [reflexivity|].
  cbn [forallb] in H. apply andb_prop in H as [Hx Ht]. cbn [length map concat dec_many]. rewrite <- app_assoc.
  rewrite (Hd x _ Hx). rewrite (IH r Ht). reflexivity.
Qed.

Lemma dec_smps_rt : forall ins smps r, length smps = length ins ->
  forallb (fun p => Nat.eqb (length (snd p)) (Z.to_nat (2 * i_len (fst p))) && forallb byteb (snd p)) (combine ins smps) = true ->
  dec_smps ins (concat smps ++ r) = Some (smps, r).
Proof.
  induction ins as [|i t IH]; intros [|d ds] r HL H; cbn in HL; try lia; [reflexivity|].
  cbn [combine forallb fst snd] in H. apply andb_prop in H as [Hd Ht]. apply andb_prop in Hd as [Hd _]. apply Nat.eqb_eq in Hd.
  cbn [concat dec_smps]. rewrite <- app_assoc. rewrite (take_app d _ _ Hd). rewrite (IH ds r); [reflexivity|lia|exact Ht].
Qed.

Lemma pat_rt p r : Nat.eqb (length p) 256 && forallb cell_okb p = true ->
  dec_many dec_cell 256 (concat (map enc_cell p) ++ r) = Some (p, r).
Proof.
  intros H. apply andb_prop in H as [H1 H2]. apply Nat.eqb_eq in H1. rewrite <- H1.
  apply (dec_many_rt dec_cell enc_cell cell_okb); [intros; apply dec_cell_rt; assumption|exact H2].
Qed.

Theorem decode_encode s : song_okb s = true -> decode (encode s) = Some s.
Proof.
  intros H. unfold song_okb in H. split_okb H.
  repeat match goal with K : Nat.eqb _ _ = true |- _ => apply Nat.eqb_eq in K end.
  destruct s as [title ins ln rst orders pats smps]. cbn [s_title s_ins s_len s_rst s_orders s_pats s_smp] in *.
  unfold decode, encode. cbn [s_title s_ins s_len s_rst s_orders s_pats s_smp].
  rewrite (take_app title _ 20 H).
  match goal with K : length ins = 31%nat |- _ => rewrite <- K at 1 end.
  rewrite (dec_many_rt dec_inst enc_inst inst_okb) by (try assumption; intros; apply dec_inst_rt; assumption).
  change ([ln; rst] ++ orders ++ magic ++ ?x) with ([ln; rst] ++ (orders ++ magic ++ x)). rewrite (take_app [ln; rst] _ 2 eq_refl).
  match goal with K : length orders = 128%nat |- _ => rewrite (take_app orders _ 128 K) end.
  rewrite (take_app magic _ 4 eq_refl).
  destruct (list_eq_dec Z.eq_dec magic magic) as [_|N]; [|congruence]. cbn [negb].
  match goal with K : length pats = _ |- _ => rewrite <- K end.
  rewrite (dec_many_rt (dec_many dec_cell 256) (fun p => concat (map enc_cell p)) (fun p => Nat.eqb (length p) 256 && forallb cell_okb p))
    by (try assumption; intros; apply pat_rt; assumption).
  rewrite <- (app_nil_r (concat smps)). rewrite dec_smps_rt by (try assumption; lia). reflexivity.
Qed.
