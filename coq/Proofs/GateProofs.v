From Coq Require Import ZArith List Lia Bool.
Import ListNotations.
From LX Require Import Base.ListAux Generated.Consts Model.ModuleWf Model.Gate.
Local Open Scope Z_scope.

Ltac b2p :=
  repeat match goal with
  | H : (_ || _) = false |- _ => apply orb_false_elim in H; destruct H
  | H : (_ && _) = true |- _ => apply andb_prop in H; destruct H
  | H : negb _ = true |- _ => apply negb_true_iff in H
  | H : negb _ = false |- _ => apply negb_false_iff in H
  | H : (_ <? _) = true |- _ => apply Z.ltb_lt in H
  | H : (_ <? _) = false |- _ => apply Z.ltb_ge in H
  | H : (_ <=? _) = true |- _ => apply Z.leb_le in H
  | H : (_ <=? _) = false |- _ => apply Z.leb_gt in H
  | H : (_ =? _) = true |- _ => apply Z.eqb_eq in H
  | H : (_ =? _) = false |- _ => apply Z.eqb_neq in H
  end.

(* ---- flag algebra *)
Lemma has_clr_same f m : has (clr f m) m = false.
Proof. unfold has, clr. rewrite <- Z.land_assoc. rewrite (Z.land_comm (Z.lnot m) m), Z.land_lnot_diag, Z.land_0_r. reflexivity. Qed.
Lemma has_clr_other f m b : Z.land (Z.lnot m) b = b -> has (clr f m) b = has f b.
Proof. intros H. unfold has, clr. rewrite <- Z.land_assoc, H. reflexivity. Qed.
Lemma has_clr_sub f m b : Z.land (Z.lnot m) b = 0 -> has (clr f m) b = false.
Proof. intros H. unfold has, clr. rewrite <- Z.land_assoc, H, Z.land_0_r. reflexivity. Qed.

Lemma has_ifclr_other (c : bool) f m b : Z.land (Z.lnot m) b = b -> has (if c then clr f m else f) b = has f b.
Proof. intros H. destruct c; [apply has_clr_other; exact H|reflexivity]. Qed.

(* ---- list helpers *)
Lemma forallb_firstn {A} (f : A -> bool) n l : forallb f l = true -> forallb f (firstn n l) = true.
Proof. revert l; induction n as [|n IH]; intros [|x l] H; cbn in *; try reflexivity. apply andb_prop in H as [H1 H2]. rewrite H1, IH by exact H2. reflexivity. Qed.
Lemma forallb_map {A B} (f : B -> bool) (g : A -> B) l : forallb f (map g l) = forallb (fun x => f (g x)) l.
Proof. induction l as [|x l IH]; cbn; [reflexivity|]. rewrite IH. reflexivity. Qed.
Lemma forallb_impl {A} (f g : A -> bool) l : (forall x, In x l -> f x = true -> g x = true) -> forallb f l = true -> forallb g l = true.
Proof.
  induction l as [|x l IH]; intros Hi H; cbn in *; [reflexivity|]. apply andb_prop in H as [H1 H2].
  rewrite (Hi x (or_introl eq_refl) H1). apply IH; [|exact H2]. intros y Hy. apply Hi. right. exact Hy.
Qed.
Lemma existsb_false_forall {A} (f : A -> bool) l : existsb f l = false -> forall x, In x l -> f x = false.
Proof. induction l as [|y l IH]; intros H x Hx; cbn in *; [destruct Hx|]. apply orb_false_elim in H as [H1 H2]. destruct Hx as [->|Hx]; auto. Qed.
Lemma firstn_zlen {A} (l : list A) n : 0 <= n -> n <= zlen l -> zlen (firstn (Z.to_nat n) l) = n.
Proof. intros H0 H. unfold zlen in *. rewrite firstn_length. lia. Qed.
Lemma firstn_whole {A} (l : list A) n : zlen l = n -> firstn (Z.to_nat n) l = l.
Proof. intros H. unfold zlen in H. rewrite <- H, Nat2Z.id. apply firstn_all. Qed.
Lemma zget_in {A} (l : list A) i x : zget l i = Some x -> In x l.
Proof. unfold zget. destruct (i <? 0); [discriminate|]. apply nth_error_In. Qed.
Lemma in_zget {A} (l : list A) x : In x l -> exists i, 0 <= i < zlen l /\ zget l i = Some x.
Proof.
  intros H. apply In_nth_error in H as [n Hn]. exists (Z.of_nat n). split.
  - apply nth_error_Some_lt in Hn || (assert (n < length l)%nat by (apply nth_error_Some; congruence)); unfold zlen; lia.
  - unfold zget. destruct (Z.ltb_spec (Z.of_nat n) 0); [lia|]. rewrite Nat2Z.id. exact Hn.
Qed.

(* ---- envelopes *)
Lemma check_envelope_ok e : env_nonneg e = true -> env_okb (check_envelope e) = true.
Proof.
  intros Hn. unfold env_nonneg in Hn. b2p. unfold env_okb, check_envelope. cbn [e_flg e_npt e_lps e_lpe e_sus e_sue].
  set (f0 := e_flg e).
  set (f1 := if (e_npt e <=? 0) || (C_XMP_MAX_ENV_POINTS <? e_npt e) then clr f0 C_XMP_ENVELOPE_ON else f0).
  set (f2 := if (e_npt e <=? e_lps e) || (e_npt e <=? e_lpe e) then clr f1 C_XMP_ENVELOPE_LOOP else f1).
  set (f3 := if (e_npt e <=? e_sus e) || (e_npt e <=? e_sue e) then clr f2 C_XMP_ENVELOPE_SUS else f2).
  assert (ON3 : has f3 C_XMP_ENVELOPE_ON = has f1 C_XMP_ENVELOPE_ON).
  { unfold f3, f2. rewrite !has_ifclr_other by reflexivity. reflexivity. }
  assert (LP3 : has f3 C_XMP_ENVELOPE_LOOP = has f2 C_XMP_ENVELOPE_LOOP).
  { unfold f3. rewrite has_ifclr_other by reflexivity. reflexivity. }
  rewrite ON3, LP3.
  apply andb_true_intro; split; [apply andb_true_intro; split|].
  - unfold f1. destruct ((e_npt e <=? 0) || (C_XMP_MAX_ENV_POINTS <? e_npt e)) eqn:E.
    + rewrite has_clr_same. reflexivity.
    + destruct (has f0 C_XMP_ENVELOPE_ON); [|reflexivity]. b2p. apply andb_true_intro; split; [apply Z.leb_le|apply Z.leb_le]; lia.
  - destruct (has f1 C_XMP_ENVELOPE_ON); cbn [andb]; [|reflexivity].
    unfold f2. destruct ((e_npt e <=? e_lps e) || (e_npt e <=? e_lpe e)) eqn:E.
    + rewrite has_clr_same. reflexivity.
    + destruct (has f1 C_XMP_ENVELOPE_LOOP); [|reflexivity]. b2p.
      repeat (apply andb_true_intro; split); try apply Z.leb_le; try apply Z.ltb_lt; lia.
  - destruct (has f1 C_XMP_ENVELOPE_ON); cbn [andb]; [|reflexivity].
    unfold f3. destruct ((e_npt e <=? e_sus e) || (e_npt e <=? e_sue e)) eqn:E.
    + rewrite has_clr_same. reflexivity.
    + destruct (has f2 C_XMP_ENVELOPE_SUS); [|reflexivity]. b2p.
      repeat (apply andb_true_intro; split); try apply Z.leb_le; try apply Z.ltb_lt; lia.
Qed.

Definition instr_post (i : instr) : bool :=
  (0 <=? i_nsm i) && (if 0 <? i_nsm i then i_sub i else true) && i_name_ok i &&
  env_nonneg (i_aei i) && env_nonneg (i_pei i) && env_nonneg (i_fei i).
Lemma fix_instr_ok i : instr_post i = true -> instr_okb (fix_instr i) = true.
Proof.
  unfold instr_post. intros H. apply andb_prop in H as [H F]. apply andb_prop in H as [H P]. apply andb_prop in H as [H A].
  unfold instr_okb, fix_instr. cbn [i_nsm i_sub i_name_ok i_aei i_pei i_fei].
  rewrite H, !check_envelope_ok by assumption. reflexivity.
Qed.

Definition sample_post (s : sample) : bool :=
  sm_name_ok s &&
  (if sm_data s then (0 <=? sm_lps s) && (sm_lps s <=? sm_lpe s) && (sm_lpe s <=? sm_len s) &&
                     (if has (sm_flg s) C_XMP_SAMPLE_LOOP then sm_lps s <? sm_lpe s else true) else true).
Lemma fix_sample_ok s : sample_post s = true -> sample_okb (fix_sample s) = true.
Proof.
  unfold sample_post. intros H. apply andb_prop in H as [Hn Hd].
  unfold sample_okb, fix_sample.
  set (sus := if sm_sus s <? 0 then 0 else sm_sus s). set (sue := if sm_len s <? sm_sue s then sm_len s else sm_sue s).
  destruct ((sm_len s <=? sus) || (sue <=? sus)) eqn:E; cbn [sm_name_ok sm_data sm_lps sm_lpe sm_len sm_flg sm_sus sm_sue]; rewrite Hn; cbn [andb].
  - destruct (sm_data s); [|reflexivity].
    rewrite (has_clr_sub _ _ C_XMP_SAMPLE_SLOOP) by reflexivity. rewrite (has_clr_other _ _ C_XMP_SAMPLE_LOOP) by reflexivity.
    apply andb_prop in Hd as [Hd Hl]. rewrite Hd, Hl. reflexivity.
  - destruct (sm_data s); [|reflexivity]. apply andb_prop in Hd as [Hd Hl]. rewrite Hd, Hl. cbn [andb].
    destruct (has (sm_flg s) C_XMP_SAMPLE_SLOOP); [|reflexivity].
    b2p. unfold sus, sue in *.
    destruct (Z.ltb_spec (sm_sus s) 0); destruct (Z.ltb_spec (sm_len s) (sm_sue s));
      repeat (apply andb_true_intro; split); try apply Z.leb_le; try apply Z.ltb_lt; lia.
Qed.

(* ---- the whole gate *)
Definition wf_noseq (m : mdump) : bool :=
  counts_okb m && d_name_ok m && d_type_ok m && orders_okb m && all_patterns_okb m &&
  forallb instr_okb (d_inss m) && forallb sample_okb (d_smps m) &&
  forallb (fun c => (0 <=? fst c) && (fst c <=? 255) && (0 <=? snd c) && (snd c <=? 255)) (d_chans m) &&
  tempo_okb m.

Lemma clampz_id lo hi x : lo <= x <= hi -> clampz lo hi x = x.
Proof. intros H. unfold clampz. destruct (Z.ltb_spec x lo); [lia|]. destruct (Z.ltb_spec hi x); lia. Qed.
Lemma clampz_range lo hi x : lo <= hi -> lo <= clampz lo hi x <= hi.
Proof. intros H. unfold clampz. destruct (Z.ltb_spec x lo); [lia|]. destruct (Z.ltb_spec hi x); lia. Qed.

Lemma andb_intro_list (l : list bool) : (forall b, In b l -> b = true) -> fold_right andb true l = true.
Proof. induction l as [|b l IH]; intros H; cbn; [reflexivity|]. rewrite (H b (or_introl eq_refl)). apply IH. intros; apply H; right; assumption. Qed.

Lemma gate_wf r m : finish r = Some m -> loader_postb r = true -> wf_noseq m = true.
Proof.
  unfold finish. destruct (gate_rejects r) eqn:G; [discriminate|]. intros F P.
  set (m0 := r_m r) in *.
  (* unpack the gate *)
  unfold gate_rejects in G. fold m0 in G.
  apply orb_false_elim in G as [G Gpat]. apply orb_false_elim in G as [G Gxxp]. apply orb_false_elim in G as [G Gch].
  apply orb_false_elim in G as [Gchn Glen]. apply Z.ltb_ge in Gchn. apply Z.ltb_ge in Glen. apply negb_false_iff in Gxxp.
  (* unpack the loader post-condition *)
  unfold loader_postb in P. fold m0 in P.
  repeat match goal with H : _ && _ = true |- _ => apply andb_prop in H; destruct H end.
  repeat match goal with
  | H : (_ <=? _) = true |- _ => apply Z.leb_le in H
  | H : (_ =? _) = true |- _ => apply Z.eqb_eq in H
  end.
  (* counts survive the clamps unchanged *)
  assert (Clen : clampz 0 C_XMP_MAX_MOD_LENGTH (d_len m0) = d_len m0) by (apply clampz_id; lia).
  assert (Cpat : clampz 0 257 (d_pat m0) = d_pat m0) by (apply clampz_id; lia).
  assert (Cins : clampz 0 255 (d_ins m0) = d_ins m0) by (apply clampz_id; lia).
  assert (Csmp : clampz 0 1024 (d_smp m0) = d_smp m0) by (apply clampz_id; lia).
  assert (Cchn : clampz 0 C_XMP_MAX_CHANNELS (d_chn m0) = d_chn m0) by (apply clampz_id; lia).
  set (e := epilogue m0).
  assert (Echn : d_chn e = d_chn m0) by (unfold e, epilogue; cbn [d_chn]; exact Cchn).
  assert (Elen : d_len e = d_len m0) by (unfold e, epilogue; cbn [d_len]; exact Clen).
  assert (Epat : d_pat e = d_pat m0) by (unfold e, epilogue; cbn [d_pat]; exact Cpat).
  assert (Etrk : d_trk e = d_trk m0) by reflexivity.
  assert (Exxo : d_xxo e = d_xxo m0) by (unfold e, epilogue; cbn [d_xxo]; rewrite Clen; apply firstn_whole; assumption).
  assert (Epats : d_pats e = d_pats m0) by (unfold e, epilogue; cbn [d_pats]; rewrite Cpat; apply firstn_whole; assumption).
  assert (Etrks : d_trks e = d_trks m0) by reflexivity.
  assert (Einss : d_inss e = map fix_instr (d_inss m0)) by (unfold e, epilogue; cbn [d_inss]; rewrite Cins, firstn_whole by assumption; reflexivity).
  assert (Esmps : d_smps e = map fix_sample (d_smps m0)) by (unfold e, epilogue; cbn [d_smps]; rewrite Csmp, firstn_whole by assumption; reflexivity).
  assert (Echans : d_chans e = firstn (Z.to_nat (d_chn m0)) (d_chans m0)) by (unfold e, epilogue; cbn [d_chans]; rewrite Cchn; reflexivity).
  (* every pattern exists and its tracks exist, with at least one row *)
  assert (Gpat' : forall op, In op (d_pats m0) -> exists p, op = Some p /\ 1 <= p_rows p /\ zlen (p_index p) = d_chn m0 /\
            forall t, In t (p_index p) -> exists rws, zget (d_trks m0) t = Some (Some rws) /\ 1 <= rws).
  { intros op Hin. rewrite (firstn_whole (d_pats m0) (d_pat m0)) in Gpat by assumption.
    pose proof (existsb_false_forall _ _ Gpat op Hin) as Hop. destruct op as [p|]; [|discriminate].
    match goal with H : forallb _ (d_pats m0) = true |- _ => rewrite forallb_forall in H; pose proof (H _ Hin) as Hp end.
    cbn beta iota in Hp. apply andb_prop in Hp as [Hr Hi]. apply Z.leb_le in Hr. apply Z.eqb_eq in Hi.
    exists p. split; [reflexivity|]. split; [exact Hr|]. split; [exact Hi|].
    intros t Ht. rewrite (firstn_whole (p_index p) (d_chn m0)) in Hop by exact Hi.
    pose proof (existsb_false_forall _ _ Hop t Ht) as Htt. cbn beta in Htt.
    apply orb_false_elim in Htt as [_ Htt].
    destruct (zget (d_trks m0) t) as [[rws|]|] eqn:Ez; try discriminate.
    exists rws. split; [reflexivity|].
    match goal with H : forallb _ (d_trks m0) = true |- _ => rewrite forallb_forall in H; pose proof (H _ (zget_in _ _ _ Ez)) as Hq end.
    cbn beta iota in Hq. apply Z.leb_le in Hq. exact Hq. }
  (* the clauses that do not depend on prepare_scan's choice *)
  assert (Wpat : all_patterns_okb e = true).
  { unfold all_patterns_okb. rewrite Epats, Echn, Etrks. apply forallb_forall. intros op Hin.
    destruct (Gpat' op Hin) as (p & -> & _ & Hi & Ht). rewrite Hi, Z.eqb_refl. cbn [andb].
    apply forallb_forall. intros t Hin'. destruct (Ht t Hin') as (rws & -> & _). reflexivity. }
  assert (Wins : forallb instr_okb (d_inss e) = true).
  { rewrite Einss, forallb_map. match goal with H : forallb _ (d_inss m0) = true |- _ => revert H end.
    apply forallb_impl. intros i _ Hi. apply fix_instr_ok. exact Hi. }
  assert (Wsmp : forallb sample_okb (d_smps e) = true).
  { rewrite Esmps, forallb_map. match goal with H : forallb _ (d_smps m0) = true |- _ => revert H end.
    apply forallb_impl. intros s _ Hs. apply fix_sample_ok. exact Hs. }
  assert (Wch : forallb (fun c => (0 <=? fst c) && (fst c <=? 255) && (0 <=? snd c) && (snd c <=? 255)) (d_chans e) = true).
  { rewrite Echans. apply forallb_forall. intros c Hc. pose proof (existsb_false_forall _ _ Gch c Hc) as Hx. cbn beta in Hx.
    repeat (apply orb_false_elim in Hx; destruct Hx as [Hx ?]). b2p.
    repeat (apply andb_true_intro; split); apply Z.leb_le; lia. }
  assert (Wspd : (1 <=? d_spd e) && (d_spd e <=? 255) && (C_XMP_MIN_BPM <=? d_bpm e) && (d_bpm e <=? 1000) = true).
  { unfold e, epilogue; cbn [d_spd d_bpm]. pose proof (clampz_range C_XMP_MIN_BPM 1000 (d_bpm m0) ltac:(unfold C_XMP_MIN_BPM; lia)).
    destruct ((d_spd m0 <=? 0) || (255 <? d_spd m0)) eqn:Es.
    - repeat (apply andb_true_intro; split); apply Z.leb_le; lia.
    - b2p. repeat (apply andb_true_intro; split); apply Z.leb_le; lia. }
  assert (Wcnt : forall len' (xxo' : list Z), zlen xxo' = len' -> 0 <= len' <= C_XMP_MAX_MOD_LENGTH ->
            (0 <=? d_chn e) && (d_chn e <=? C_XMP_MAX_CHANNELS) && (0 <=? len') && (len' <=? C_XMP_MAX_MOD_LENGTH) &&
            (0 <=? d_pat e) && (d_pat e <=? 257) && (0 <=? d_ins e) && (d_ins e <=? 255) && (0 <=? d_smp e) && (d_smp e <=? 1024) && (0 <=? d_trk e) &&
            (zlen xxo' =? len') && (zlen (d_pats e) =? d_pat e) && (zlen (d_trks e) =? d_trk e) &&
            (zlen (d_inss e) =? d_ins e) && (zlen (d_smps e) =? d_smp e) && (zlen (d_chans e) =? d_chn e) = true).
  { intros len' xxo' Hx Hl. rewrite Echn, Epat, Etrk, Epats, Etrks, Einss, Esmps, Echans.
    assert (d_ins e = d_ins m0) as -> by (unfold e, epilogue; cbn [d_ins]; exact Cins).
    assert (d_smp e = d_smp m0) as -> by (unfold e, epilogue; cbn [d_smp]; exact Csmp).
    assert (zlen (map fix_instr (d_inss m0)) = d_ins m0) by (unfold zlen in *; rewrite map_length; assumption).
    assert (zlen (map fix_sample (d_smps m0)) = d_smp m0) by (unfold zlen in *; rewrite map_length; assumption).
    assert (zlen (firstn (Z.to_nat (d_chn m0)) (d_chans m0)) = d_chn m0) by (apply firstn_zlen; lia).
    repeat (apply andb_true_intro; split); try apply Z.leb_le; try apply Z.eqb_eq; lia. }
  assert (Wrst : (d_len e =? 0) || ((0 <=? d_rst e) && (d_rst e <? d_len e)) = true).
  { unfold e, epilogue; cbn [d_len d_rst]. rewrite Clen.
    destruct (Z.leb_spec (d_len m0) (d_rst m0)).
    - destruct (Z.eqb_spec (d_len m0) 0); [reflexivity|]. cbn [orb]. apply andb_true_intro; split; [reflexivity|apply Z.ltb_lt; lia].
    - apply orb_true_iff; right. apply andb_true_intro; split; [apply Z.leb_le; lia|apply Z.ltb_lt; lia]. }
  assert (Wnm : d_name_ok e = true) by assumption.
  assert (Wty : d_type_ok e = true) by assumption.
  (* prepare_scan *)
  unfold prepare_scan in F. fold e in F. clearbody e. rewrite Gxxp in F. cbn [negb orb] in F.
  destruct (r_has_xxt r); cbn [negb] in F; [|discriminate].
  destruct (existsb (fun o => o <? d_pat e) (d_xxo e)) eqn:Ev; injection F as <-.
  - (* some order names a pattern: the order list is kept *)
    unfold wf_noseq.
    assert (Word : orders_okb e = true).
    { unfold orders_okb. rewrite Exxo, Epat. apply forallb_forall. intros o Ho.
      destruct (Z.ltb_spec o (d_pat m0)); [|reflexivity].
      unfold pattern_okb. rewrite Epats, Echn, Etrks.
      match goal with H : forallb _ _ = true |- _ => idtac end.
      (* orders are bytes: 0 <= o; and o < pat = zlen pats, so the pattern is in the table *)
      destruct (zget (d_pats m0) o) as [op|] eqn:Ez.
      - destruct (Gpat' op (zget_in _ _ _ Ez)) as (p & -> & Hr & Hi & Ht).
        apply andb_true_intro; split; [apply andb_true_intro; split; [apply Z.leb_le; exact Hr|apply Z.eqb_eq; exact Hi]|].
        apply forallb_forall. intros t Hin'. destruct (Ht t Hin') as (rws & -> & Hrw). apply Z.leb_le. exact Hrw.
      - (* o < 0 cannot name a pattern: an order list entry outside the table only if negative *)
        exfalso. unfold zget in Ez.
        match goal with Hb : forallb (fun o => (0 <=? o) && (o <=? 255)) (d_xxo m0) = true |- _ => rewrite forallb_forall in Hb; pose proof (Hb o Ho) as Hob end.
        apply andb_prop in Hob as [Hob _]. apply Z.leb_le in Hob.
        destruct (Z.ltb_spec o 0) as [Hneg|Hpos]; [lia|].
        apply nth_error_None in Ez. unfold zlen in *. lia. }
    rewrite Word, Wpat, Wins, Wsmp, Wch.
    assert (Wc : counts_okb e = true) by (unfold counts_okb; apply Wcnt; [rewrite Exxo, Elen; assumption|rewrite Elen; lia]).
    rewrite Wc.
    rewrite Wnm, Wty. cbn [andb]. unfold tempo_okb. rewrite Wspd, Wrst. reflexivity.
  - (* no order names a pattern: the order list is emptied *)
    unfold wf_noseq, counts_okb, orders_okb, all_patterns_okb, tempo_okb.
    cbn [d_chn d_len d_pat d_trk d_ins d_smp d_xxo d_pats d_trks d_inss d_smps d_chans d_spd d_bpm d_rst d_name_ok d_type_ok forallb].
    rewrite Wins, Wsmp, Wch, Wnm, Wty.
    pose proof (Wcnt 0 (@nil Z) eq_refl ltac:(unfold C_XMP_MAX_MOD_LENGTH; lia)) as Hc. rewrite Hc.
    unfold all_patterns_okb in Wpat. rewrite Wpat. rewrite Wspd. reflexivity.
Qed.
