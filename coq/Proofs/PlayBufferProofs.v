From Coq Require Import ZArith List Lia Bool Arith.
Import ListNotations.
From LX Require Import Base.ListAux Model.PlayBuffer.

Section PB.
Variable loop : nat.

Lemma good_mono_tail f s : mono loop (f :: s) -> ended loop f = true -> good loop s = [].
Proof.
  intros [H _] E. specialize (H E). destruct s as [|g s]; [reflexivity|].
  inversion H as [|? ? Hg _]; subst. cbn [good]. rewrite Hg. reflexivity.
Qed.

Lemma fill_spec : forall s cl need rem filled, mono loop s ->
  let r := fill loop s cl need rem filled in
  let S := rem ++ concat (map fbytes (good loop s)) in
  (need <= length S -> ret r = 0%Z /\ out r = firstn need S /\ stream loop (st' r) = skipn need S) /\
  (length S < need ->
     stream loop (st' r) = [] /\
     if filled || (0 <? length S) then ret r = 0%Z /\ out r = S ++ repeat 0%Z (need - length S)
     else ret r = (-1)%Z /\ out r = []).
Proof.
  induction s as [|f s IH]; intros cl need rem filled Hm; cbn zeta.
  - cbn [fill good map concat]. rewrite app_nil_r.
    destruct (Nat.leb_spec need (length rem)) as [Hle|Hgt].
    + rewrite Nat.min_l by lia. replace (need - need) with 0 by lia. cbn [Nat.eqb].
      cbn [out ret st']. split; [intros _|lia]. unfold stream; cbn [rest src good map concat]. rewrite app_nil_r. auto.
    + rewrite Nat.min_r by lia. destruct (Nat.eqb_spec (need - length rem) 0) as [E|E]; [lia|].
      split; [lia|intros _]. rewrite ?firstn_all, ?skipn_all.
      destruct (filled || (0 <? length rem)) eqn:Ef; cbn [out ret st']; unfold stream; cbn; auto.
  - cbn [fill good].
    destruct (Nat.leb_spec need (length rem)) as [Hle|Hgt].
    + rewrite Nat.min_l by lia. replace (need - need) with 0 by lia. cbn [Nat.eqb]. cbn [out ret st'].
      split; [intros _|rewrite app_length; lia].
      unfold stream; cbn [rest src]. rewrite firstn_app, skipn_app.
      replace (need - length rem) with 0 by lia. cbn [firstn skipn]. rewrite app_nil_r. auto.
    + rewrite Nat.min_r by lia. destruct (Nat.eqb_spec (need - length rem) 0) as [E|E]; [lia|].
      rewrite ?firstn_all, ?skipn_all.
      destruct (ended loop f) eqn:Ee.
      * cbn [map concat]. rewrite app_nil_r. split; [lia|intros _].
        pose proof (good_mono_tail _ _ Hm Ee) as Hg.
        destruct (filled || (0 <? length rem)) eqn:Ef; cbn [out ret st']; unfold stream; cbn [rest src]; rewrite Hg; cbn; auto.
      * cbn [map concat]. destruct Hm as [_ Hm].
        specialize (IH (floop f) (need - length rem) (fbytes f) (filled || (0 <? length rem)) Hm). cbn zeta in IH.
        destruct IH as [IH1 IH2]. cbn [out ret st'].
        rewrite !app_length in *. split.
        -- intros Hn. destruct IH1 as (R & O & St); [lia|]. rewrite R, O, St. split; [reflexivity|]. split.
           ++ rewrite (firstn_app need rem). rewrite (firstn_all2 rem) by lia. reflexivity.
           ++ rewrite (skipn_app need rem). rewrite (skipn_all2 rem) by lia. reflexivity.
        -- intros Hn. destruct IH2 as (St & IH2); [lia|]. split; [exact St|].
           set (T := fbytes f ++ concat (map fbytes (good loop s))) in *.
           assert (length T = length (fbytes f) + length (concat (map fbytes (good loop s)))) as HT by (unfold T; apply app_length).
           destruct (filled || (0 <? length rem)) eqn:Ef.
           ++ cbn [orb] in IH2. destruct IH2 as (R & O).
              assert ((filled || (0 <? length rem + (length (fbytes f) + length (concat (map fbytes (good loop s)))))) = true) as ->.
              { destruct filled; [reflexivity|]. cbn [orb] in *. apply Nat.ltb_lt in Ef. apply Nat.ltb_lt. lia. }
              split; [exact R|]. rewrite O. rewrite <- app_assoc. do 3 f_equal. lia.
           ++ apply orb_false_elim in Ef as [-> Ef]. cbn [orb] in *. apply Nat.ltb_ge in Ef.
              assert (length rem = 0) as L0 by lia. apply length_zero_iff_nil in L0. subst rem. cbn [length app] in *.
              rewrite Nat.add_0_l, Nat.sub_0_r in *. exact IH2.
Qed.

Lemma mono_suffix pre s : mono loop (pre ++ s) -> mono loop s.
Proof. induction pre as [|f pre IH]; cbn [app mono]; [auto|]. intros [_ H]. auto. Qed.

Lemma fill_src_suffix : forall s cl need rem filled, exists pre, s = pre ++ src (st' (fill loop s cl need rem filled)).
Proof.
  induction s as [|f s IH]; intros cl need rem filled; cbn [fill].
  - destruct (_ =? 0); [|destruct (filled || _)]; cbn [st' src]; exists []; reflexivity.
  - destruct (_ =? 0); cbn [st' src]; [exists []; reflexivity|].
    destruct (ended loop f).
    + destruct (filled || _); cbn [st' src]; exists [f]; reflexivity.
    + cbn [st' src]. destruct (IH (floop f) (need - Nat.min need (length rem)) (fbytes f) (filled || (0 <? Nat.min need (length rem)))) as [pre E].
      exists (f :: pre). cbn [app]. f_equal. exact E.
Qed.

Lemma play_buffer_spec_l x size : mono loop (src x) ->
  let r := play_buffer loop x size in
  mono loop (src (st' r)) /\
  (size <= length (stream loop x) -> ret r = 0%Z /\ out r = firstn size (stream loop x) /\ stream loop (st' r) = skipn size (stream loop x)) /\
  (length (stream loop x) < size -> stream loop (st' r) = [] /\
     if 0 <? length (stream loop x) then ret r = 0%Z /\ out r = stream loop x ++ repeat 0%Z (size - length (stream loop x))
     else ret r = (-1)%Z /\ out r = []).
Proof.
  intros Hm. cbn zeta. unfold play_buffer. split.
  - destruct (fill_src_suffix (src x) (cur_loop x) size (rest x) false) as [pre E]. rewrite E in Hm. eapply mono_suffix; eauto.
  - pose proof (fill_spec (src x) (cur_loop x) size (rest x) false Hm) as H. cbn zeta in H. exact H.
Qed.

Lemma play_buffer_concat_l : forall sizes x, mono loop (src x) ->
  let '(o, x') := run loop x sizes in
  exists n z, o = firstn n (stream loop x) ++ repeat 0%Z z /\
              (z = 0 -> stream loop x' = skipn n (stream loop x)) /\
              (0 < z -> n = length (stream loop x) /\ stream loop x' = []).
Proof.
  induction sizes as [|size sizes IH]; intros x Hm; cbn [run].
  - exists 0, 0. cbn. split; [reflexivity|]. split; [auto|lia].
  - destruct (play_buffer_spec_l x size Hm) as (Hm' & A & B).
    specialize (IH (st' (play_buffer loop x size)) Hm').
    destruct (run loop (st' (play_buffer loop x size)) sizes) as [o x'].
    destruct IH as (n & z & Ho & Hz0 & Hz).
    destruct (Nat.leb_spec size (length (stream loop x))) as [Hle|Hgt].
    + destruct (A Hle) as (_ & O & St). rewrite O, Ho. rewrite St in Ho, Hz0, Hz.
      exists (size + n), z. rewrite St. split.
      { rewrite app_assoc. f_equal. symmetry. apply firstn_add. }
      split.
      { intros Z0. rewrite (Hz0 Z0). apply skipn_add. }
      { intros Zp. destruct (Hz Zp) as [E1 E2]. rewrite skipn_length in E1. split; [lia|exact E2]. }
    + destruct (B Hgt) as (St & C). rewrite St in *. cbn [firstn] in Ho.
      assert (firstn n (@nil Z) = []) as Hnil by (destruct n; reflexivity). rewrite Hnil in Ho. cbn [app] in Ho.
      assert (stream loop x' = []) as Sx'.
      { destruct z; [rewrite (Hz0 eq_refl); destruct n; reflexivity | apply Hz; lia]. }
      destruct (0 <? length (stream loop x)) eqn:Epos.
      * destruct C as (_ & O). rewrite O, Ho. exists (length (stream loop x)), (size - length (stream loop x) + z).
        rewrite firstn_all, repeat_app, app_assoc. split; [reflexivity|]. split; [lia|]. auto.
      * destruct C as (_ & O). rewrite O, Ho. apply Nat.ltb_ge in Epos.
        assert (stream loop x = []) as Sx by (apply length_zero_iff_nil; lia). rewrite Sx in *.
        exists 0, z. cbn. split; [reflexivity|]. split; [intros _; exact Sx'|]. intros _. split; [reflexivity|exact Sx'].
Qed.

(* a non-decreasing loop counter gives mono *)
Lemma sorted_ended prev s : loops_sorted prev s -> 0 < loop -> loop <= prev -> Forall (fun g => ended loop g = true) s.
Proof.
  revert prev. induction s as [|f s IH]; intros prev Hs Hl Hp; constructor.
  - destruct Hs as [H _]. unfold ended. apply andb_true_iff. split; [apply Nat.ltb_lt; lia|apply Nat.leb_le; lia].
  - destruct Hs as [H Hs]. apply (IH (floop f)); auto. lia.
Qed.
Lemma sorted_mono prev s : loops_sorted prev s -> mono loop s.
Proof.
  revert prev. induction s as [|f s IH]; intros prev Hs; cbn [mono]; [exact I|].
  destruct Hs as [H Hs]. split; [|eapply IH; eauto].
  intros E. unfold ended in E. apply andb_true_iff in E as [E1 E2]. apply Nat.ltb_lt in E1. apply Nat.leb_le in E2.
  eapply sorted_ended; eauto.
Qed.
End PB.

(* state invariant of the carry-over: 0 <= consumed <= in_size, i.e. the rest is a suffix of a frame;
   here: a call never leaves more unread bytes than the frame it fetched last, and a call that ends
   (returns -1 or zero-fills) leaves none. *)
Lemma fill_rest_bound loop : forall s cl need rem filled,
  let r := fill loop s cl need rem filled in
  length (rest (st' r)) <= length rem \/ exists f, In f s /\ length (rest (st' r)) <= length (fbytes f).
Proof.
  induction s as [|f s IH]; intros cl need rem filled; cbn zeta; cbn [fill].
  - destruct (_ =? 0); [|destruct (filled || _)]; cbn [st' rest]; left; rewrite ?skipn_length; cbn; lia.
  - destruct (_ =? 0); cbn [st' rest]; [left; rewrite skipn_length; lia|].
    destruct (ended loop f).
    + destruct (filled || _); cbn [st' rest length]; left; lia.
    + cbn [st']. specialize (IH (floop f) (need - Nat.min need (length rem)) (fbytes f) (filled || (0 <? Nat.min need (length rem)))).
      cbn zeta in IH. destruct IH as [IH|(g & Hg & IH)].
      * right. exists f. split; [left; reflexivity|exact IH].
      * right. exists g. split; [right; exact Hg|exact IH].
Qed.

Lemma reset_spec x : rest (reset x) = [] /\ cur_loop (reset x) = 0 /\ length (src (reset x)) = length (src x).
Proof. unfold reset; cbn. rewrite map_length. auto. Qed.

(* a call with size > 0 never returns 0 with nothing written when frames are non-empty *)
Lemma fill_progress loop : forall s cl need rem filled,
  0 < need -> Forall (fun f => fbytes f <> []) s ->
  let r := fill loop s cl need rem filled in
  ret r = 0%Z -> filled = false -> out r <> [].
Proof.
  induction s as [|f s IH]; intros cl need rem filled Hn Hne; cbn zeta; cbn [fill].
  - destruct (Nat.eqb_spec (need - Nat.min need (length rem)) 0) as [E|E]; cbn [out ret].
    + intros _ _. destruct rem as [|b rem]; cbn [length] in *; [rewrite Nat.min_0_r in E; lia|].
      destruct need; [lia|]. cbn. discriminate.
    + destruct (filled || (0 <? Nat.min need (length rem))) eqn:Ef; cbn [out ret]; [|discriminate].
      intros _ ->. cbn [orb] in Ef. apply Nat.ltb_lt in Ef.
      destruct rem as [|b rem]; cbn [length] in *; [rewrite Nat.min_0_r in Ef; lia|]. destruct need; [lia|]. cbn. discriminate.
  - destruct (Nat.eqb_spec (need - Nat.min need (length rem)) 0) as [E|E]; cbn [out ret].
    + intros _ _. destruct rem as [|b rem]; cbn [length] in *; [rewrite Nat.min_0_r in E; lia|].
      destruct need; [lia|]. cbn. discriminate.
    + destruct (ended loop f).
      * destruct (filled || (0 <? Nat.min need (length rem))) eqn:Ef; cbn [out ret]; [|discriminate].
        intros _ ->. cbn [orb] in Ef. apply Nat.ltb_lt in Ef.
        destruct rem as [|b rem]; cbn [length] in *; [rewrite Nat.min_0_r in Ef; lia|]. destruct need; [lia|]. cbn. discriminate.
      * cbn [out ret]. intros R ->. cbn [orb] in *.
        destruct rem as [|b rem].
        -- cbn [length firstn app] in *. rewrite Nat.min_0_r in *. cbn [firstn app Nat.ltb Nat.leb].
           inversion Hne as [|? ? Hf Hs]; subst.
           apply (IH (floop f) (need - 0) (fbytes f) false); auto. lia.
        -- destruct need; [lia|]. cbn. discriminate.
Qed.
