From Coq Require Import ZArith List Lia Bool.
Import ListNotations.
From LX Require Import Base.ListAux Model.Seek.
Local Open Scope Z_scope.

(* ---- array facts ---- *)
Lemma zgd_forallb (P : Z -> bool) l i : forallb P l = true -> 0 <= i < zlen l -> P (zgd l i) = true.
Proof.
  intros H Hi. unfold zgd. destruct (zget_some l i Hi) as [x Hx]. rewrite Hx.
  unfold zget in Hx. destruct (i <? 0); [discriminate|]. apply nth_error_In in Hx.
  rewrite forallb_forall in H. apply H. exact Hx.
Qed.

Lemma forallb_seq (P : Z -> bool) n : forallb (fun i => P (Z.of_nat i)) (seq 0 n) = true -> forall i, 0 <= i < Z.of_nat n -> P i = true.
Proof.
  intros H i Hi. rewrite forallb_forall in H. specialize (H (Z.to_nat i)).
  rewrite Z2Nat.id in H by lia. apply H. apply in_seq. lia.
Qed.

Lemma in_range_spec lo hi x : in_range lo hi x = true <-> lo <= x <= hi.
Proof. unfold in_range. rewrite andb_true_iff, !Z.leb_le. tauto. Qed.

(* ---- what smod_okb gives ---- *)
Record okP (m : smod) : Prop := {
  ok_len : 1 <= sm_len m <= 256;
  ok_npat : 0 <= sm_npat m <= 256;
  ok_xxo_len : zlen (sm_xxo m) = 256;
  ok_ctl_len : zlen (sm_seqctl m) = 256;
  ok_xxo_rng : forall i, 0 <= i < 256 -> 0 <= xxo m i <= 255;
  ok_ctl_rng : forall i, 0 <= i < 256 -> 0 <= seqctl m i <= 255;
  ok_nseq : 1 <= sm_nseq m <= 255;
  ok_entry_len : zlen (sm_entry m) = sm_nseq m;
  ok_entry_rng : forall s, 0 <= s < sm_nseq m -> 0 <= entry m s <= sm_len m - 1;
  ok_marker : sm_marker m = true -> sm_npat m <= 254;
  ok_member : forall i, 0 <= i < sm_len m -> xxo m i < sm_npat m -> seqctl m i < sm_nseq m -> entry m (seqctl m i) <= i
}.

Lemma okb_okP m : smod_okb m = true -> okP m.
Proof.
  unfold smod_okb. intros H.
  repeat match type of H with (_ && _) = true => let H2 := fresh "K" in apply andb_prop in H; destruct H as [H H2] end.
  repeat match goal with K : in_range _ _ _ = true |- _ => apply in_range_spec in K end.
  repeat match goal with K : (_ =? _) = true |- _ => apply Z.eqb_eq in K end.
  constructor; unfold zlen; try lia.
  - intros i Hi. apply in_range_spec. unfold xxo. apply zgd_forallb; [assumption|unfold zlen; lia].
  - intros i Hi. apply in_range_spec. unfold seqctl. apply zgd_forallb; [assumption|unfold zlen; lia].
  - intros s Hs. apply in_range_spec. unfold entry.
    match goal with K : forallb (fun e => in_range 0 (sm_len m - 1) e) (sm_entry m) = true |- _ => apply (zgd_forallb _ _ s K) end. unfold zlen. lia.
  - intros Hm. match goal with K : (negb (sm_marker m) || _) = true |- _ => rewrite Hm in K; cbn in K; apply Z.leb_le in K; exact K end.
  - intros i Hi Hp Hs.
    match goal with K : forallb _ (seq 0 (Z.to_nat (sm_len m))) = true |- _ =>
      pose proof (forallb_seq (fun i => negb ((xxo m i <? sm_npat m) && (seqctl m i <? sm_nseq m)) || (entry m (seqctl m i) <=? i)) _ K i) as Q end.
    rewrite Z2Nat.id in Q by lia. specialize (Q Hi). cbv beta in Q.
    apply Z.ltb_lt in Hp, Hs. rewrite Hp, Hs in Q. cbn in Q. apply Z.leb_le in Q. exact Q.
Qed.

Section Seek.
Variable m : smod.
Hypothesis OK : okP m.

(* an order that holds a pattern is not a marker *)
Lemma pattern_not_marker p v : 0 <= p < sm_len m -> xxo m p < sm_npat m -> v = 254 \/ v = 255 -> (sm_marker m && (xxo m p =? v)) = false.
Proof.
  intros Hp Hpat Hv. destruct (sm_marker m) eqn:M; [|reflexivity]. cbn. apply Z.eqb_neq.
  pose proof (ok_marker m OK M). lia.
Qed.

Lemma walk_stays f dir start p : (sm_marker m && (xxo m p =? 254)) = false -> walk m f dir start p = p.
Proof. intros H. destruct f; cbn [walk]; [reflexivity|]. rewrite H. reflexivity. Qed.

(* ---- set_position on an order that holds a pattern, in a registered sequence ---- *)
Definition target (p : Z) : Z := if p =? 0 then -1 else p.

Lemma set_position_hits s p dir :
  0 <= p < sm_len m -> xxo m p < sm_npat m ->
  let seq := if dir =? 0 then seqctl m p else sq s in
  0 <= seq < sm_nseq m ->
  let s' := set_position m s p dir in
  pos s' = target p /\ ord s' = ord s /\ row s' = row s /\ frame s' = frame s /\ repos s' = (target p =? ord s) /\
  sq s' = seq /\ loopc s' = loopc s /\ fl s' = flow_reset.
Proof.
  intros Hp Hpat seq Hseq. unfold set_position. fold seq.
  pose proof (ok_nseq m OK) as Hn.
  assert (E1 : ((seq =? 255) || (sm_nseq m <=? seq)) = false).
  { apply orb_false_iff. split; [apply Z.eqb_neq; lia|apply Z.leb_gt; lia]. }
  rewrite E1. assert (E2 : (seq <? 0) = false) by (apply Z.ltb_ge; lia). rewrite E2.
  assert (E3 : ((0 <=? p) && (p <? sm_len m)) = true) by (apply andb_true_intro; split; [apply Z.leb_le|apply Z.ltb_lt]; lia). rewrite E3.
  rewrite (walk_stays 256 dir (entry m seq) p) by (apply pattern_not_marker; [assumption|assumption|auto]).
  assert (E4 : (xxo m p <? sm_npat m) = true) by (apply Z.ltb_lt; assumption). rewrite E4.
  assert (E5 : (sm_marker m && (xxo m p =? 255)) = false) by (apply pattern_not_marker; [assumption|assumption|auto]).
  assert (E6 : (sm_len m <=? p) = false) by (apply Z.leb_gt; lia). rewrite E6.
  cbn [andb orb]. rewrite E5. cbn [orb].
  unfold target.
  destruct (zgd (sm_scan_ord m) seq <? p); cbn [pos ord row frame repos sq loopc fl]; repeat split; reflexivity.
Qed.

(* ---- the frame after: the reposition branch lands on row 0, tick 0 of the requested order ---- *)
Lemma next_order_walk_hits seq f p : 0 <= p < sm_len m -> xxo m p < sm_npat m -> next_order_walk m seq (S f) (p - 1) = Some p.
Proof.
  intros Hp Hpat. cbn [next_order_walk]. replace (p - 1 + 1) with p by ring.
  assert (E1 : (sm_len m <=? p) = false) by (apply Z.leb_gt; lia). rewrite E1.
  assert (E2 : (sm_marker m && (p <? sm_len m) && (xxo m p =? 255)) = false).
  { rewrite <- andb_assoc, (andb_comm (p <? sm_len m)), andb_assoc. rewrite (pattern_not_marker p 255) by auto. reflexivity. }
  rewrite E2. cbn [orb]. assert (E3 : (sm_npat m <=? xxo m p) = false) by (apply Z.leb_gt; lia). rewrite E3. reflexivity.
Qed.

Lemma check_end_keeps s : let s' := check_end m s in
  pos s' = pos s /\ ord s' = ord s /\ row s' = row s /\ frame s' = frame s /\ sq s' = sq s /\ repos s' = repos s /\ fl s' = fl s /\
  (loopc s' = loopc s \/ (loopc s' = loopc s + 1 /\ end_point s = 0 /\ ord s = zgd (sm_scan_ord m) (sq s) /\ row s = zgd (sm_scan_row m) (sq s))).
Proof.
  unfold check_end. destruct ((ord s =? zgd (sm_scan_ord m) (sq s)) && (row s =? zgd (sm_scan_row m) (sq s))) eqn:E.
  - apply andb_prop in E as [E1 E2]. apply Z.eqb_eq in E1, E2.
    destruct (end_point s =? 0) eqn:E0; cbn; repeat split; auto. right. apply Z.eqb_eq in E0. auto.
  - cbn. repeat split; auto.
Qed.

Lemma frame_lands_gen s a p :
  0 <= p < sm_len m -> xxo m p < sm_npat m ->
  0 <= sq s < sm_nseq m -> entry m (sq s) <= p ->
  pos s <> -2 -> (if pos s =? -1 then entry m (sq s) else pos s) = p ->
  (negb (ord s =? pos s) || repos s) = true ->
  (sm_marker m && (xxo m (ord s) =? 255)) = false ->
  exists s2, play_frame m s a = FOk s2 /\ pos s2 = p /\ ord s2 = p /\ row s2 = 0 /\ frame s2 = 0 /\ sq s2 = sq s /\ repos s2 = false /\
             (loopc s2 = loopc s \/
              (loopc s2 = loopc s + 1 /\
               (if zgd (sm_scan_ord m) (sq s) <? p then 0 else if p =? entry m (sq s) then zgd (sm_scan_num m) (sq s) else end_point s) = 0)).
Proof.
  intros Hp Hpat Hs He Hn2 P1 E1 Hmark. unfold play_frame.
  assert (E0 : (sm_len m <=? 0) = false) by (apply Z.leb_gt; lia). rewrite E0, Hmark, E1.
  assert (E2 : (pos s =? -2) = false) by (apply Z.eqb_neq; exact Hn2). rewrite E2.
  rewrite P1.
  assert (P2 : (if p - 1 <? entry m (sq s) then entry m (sq s) - 1 else p - 1) = p - 1).
  { destruct (Z.ltb_spec (p - 1) (entry m (sq s))); lia. }
  rewrite P2. rewrite (next_order_walk_hits (sq s) 257 p Hp Hpat).
  eexists. split; [reflexivity|].
  match goal with |- context [check_end m ?st] => pose proof (check_end_keeps st) as K end.
  cbv zeta in K. cbn [pos ord row frame sq repos loopc fl end_point] in K.
  destruct K as (K1 & K2 & K3 & K4 & K5 & K6 & _ & K8).
  repeat split; try assumption. destruct K8 as [K8|(K8 & K9 & _)]; [left; exact K8|right; split; [exact K8|exact K9]].
Qed.

Lemma frame_lands s a p :
  0 <= p < sm_len m -> xxo m p < sm_npat m ->
  0 <= sq s < sm_nseq m -> entry m (sq s) <= p ->
  pos s = target p -> repos s = (target p =? ord s) ->
  (sm_marker m && (xxo m (ord s) =? 255)) = false ->
  exists s2, play_frame m s a = FOk s2 /\ pos s2 = p /\ ord s2 = p /\ row s2 = 0 /\ frame s2 = 0 /\ sq s2 = sq s /\ repos s2 = false /\
             (loopc s2 = loopc s \/ loopc s2 = loopc s + 1).
Proof.
  intros Hp Hpat Hs He Hpos Hrep Hmark.
  pose proof (ok_entry_rng m OK (sq s) Hs) as Hent.
  destruct (frame_lands_gen s a p Hp Hpat Hs He) as (s2 & F & G1 & G2 & G3 & G4 & G5 & G6 & G7); try assumption.
  - rewrite Hpos. unfold target. destruct (Z.eqb_spec p 0); lia.
  - rewrite Hpos. unfold target. destruct (Z.eqb_spec p 0) as [->|Hne]; [cbn; lia|]. destruct (Z.eqb_spec p (-1)); [lia|reflexivity].
  - rewrite Hrep, Hpos. rewrite (Z.eqb_sym (ord s)). destruct (target p =? ord s); reflexivity.
  - exists s2. repeat split; try assumption. destruct G7 as [G7|(G7 & _)]; auto.
Qed.

(* ---- xmp_set_position ---- *)
Lemma x_set_position_valid s p :
  0 <= p < sm_len m -> xxo m p < sm_npat m -> seqctl m p < sm_nseq m ->
  let '(s', r) := x_set_position m s p in
  r = target p /\ sq s' = seqctl m p /\ fl s' = flow_reset /\ ord s' = ord s /\ pos s' = target p /\ repos s' = (target p =? ord s) /\ loopc s' = loopc s.
Proof.
  intros Hp Hpat Hseq. unfold x_set_position.
  assert (E : ((p <? 0) || (sm_len m <=? p)) = false) by (apply orb_false_iff; split; [apply Z.ltb_ge|apply Z.leb_gt]; lia).
  rewrite E.
  assert (Hs : 0 <= seqctl m p < sm_nseq m).
  { pose proof (ok_len m OK). pose proof (ok_ctl_rng m OK p). lia. }
  pose proof (set_position_hits s p 0 Hp Hpat) as H. cbv zeta in H. rewrite Z.eqb_refl in H. specialize (H Hs).
  destruct H as (H1 & H2 & _ & _ & H5 & H6 & H7 & H8). repeat split; assumption.
Qed.

Lemma x_set_position_invalid s p : p < 0 \/ sm_len m <= p -> x_set_position m s p = (s, EINVAL).
Proof.
  intros H. unfold x_set_position.
  assert (E : ((p <? 0) || (sm_len m <=? p)) = true).
  { apply orb_true_iff. destruct H; [left; apply Z.ltb_lt|right; apply Z.leb_le]; assumption. }
  rewrite E. reflexivity.
Qed.

(* ---- xmp_set_row ---- *)
Lemma x_set_row_invalid s r :
  let p0 := if (pos s <? 0) || (sm_len m <=? pos s) then 0 else pos s in
  sm_npat m <= xxo m p0 \/ r < 0 \/ rows_of m (xxo m p0) <= r -> x_set_row m s r = (s, EINVAL).
Proof.
  intros p0 H. unfold x_set_row. fold p0.
  assert (E : ((sm_npat m <=? xxo m p0) || (r <? 0) || (rows_of m (xxo m p0) <=? r)) = true).
  { rewrite !orb_true_iff. destruct H as [H|[H|H]]; [left; left; apply Z.leb_le|left; right; apply Z.ltb_lt|right; apply Z.leb_le]; assumption. }
  rewrite E. reflexivity.
Qed.

Lemma x_set_row_valid s r a :
  pos s = ord s -> 0 <= ord s < sm_len m -> xxo m (ord s) < sm_npat m -> 0 <= r < rows_of m (xxo m (ord s)) ->
  0 < speed s * (1 + fl_delay (fl s)) ->
  (sm_marker m && (xxo m (ord s) =? 255)) = false ->
  let '(s', ret) := x_set_row m s r in
  ret = r /\ exists s2, play_frame m s' a = FOk s2 /\ pos s2 = ord s /\ ord s2 = ord s /\ row s2 = r /\ frame s2 = 0 /\ sq s2 = sq s.
Proof.
  intros Hpo Ho Hpat Hr Hsp Hmark. unfold x_set_row. rewrite Hpo.
  assert (E1 : ((ord s <? 0) || (sm_len m <=? ord s)) = false) by (apply orb_false_iff; split; [apply Z.ltb_ge|apply Z.leb_gt]; lia).
  rewrite E1.
  assert (E2 : ((sm_npat m <=? xxo m (ord s)) || (r <? 0) || (rows_of m (xxo m (ord s)) <=? r)) = false).
  { rewrite !orb_false_iff. repeat split; [apply Z.leb_gt|apply Z.ltb_ge|apply Z.leb_gt]; lia. }
  rewrite E2. assert (E3 : (ord s <? 0) = false) by (apply Z.ltb_ge; lia). rewrite E3.
  split; [reflexivity|]. unfold play_frame. cbn [pos ord row frame repos sq loopc speed num_rows end_point fl].
  assert (E0 : (sm_len m <=? 0) = false) by (apply Z.leb_gt; lia). rewrite E0, Hmark, Z.eqb_refl. cbn [negb orb].
  assert (E4 : (0 <? speed s * (1 + fl_delay (fl s))) = true) by (apply Z.ltb_lt; assumption). rewrite E4. cbn [Z.eqb andb].
  change (-1 =? -1) with true. cbn [andb].
  eexists. split; [reflexivity|].
  match goal with |- context [check_end m ?st] => pose proof (check_end_keeps st) as K end.
  cbv zeta in K. cbn [pos ord row frame sq repos loopc fl] in K.
  destruct K as (K1 & K2 & K3 & K4 & K5 & _). repeat split; assumption.
Qed.

(* ---- xmp_seek_time ---- *)
Definition seek_cand (s : pst) (t i : Z) : Prop := xxo m i < sm_npat m /\ seqctl m i = sq s /\ zgd (sm_time m) i <= t.

Lemma seek_find_spec s t n :
  match seek_find m s t n with
  | Some i => 0 <= i < Z.of_nat n /\ seek_cand s t i /\ forall j, i < j < Z.of_nat n -> ~ seek_cand s t j
  | None => forall j, 0 <= j < Z.of_nat n -> ~ seek_cand s t j
  end.
Proof.
  induction n as [|k IH]; cbn [seek_find].
  - intros j Hj. lia.
  - destruct ((xxo m (Z.of_nat k) <? sm_npat m) && (seqctl m (Z.of_nat k) =? sq s) && (zgd (sm_time m) (Z.of_nat k) <=? t)) eqn:E.
    + apply andb_prop in E as [E E3]. apply andb_prop in E as [E1 E2]. apply Z.ltb_lt in E1. apply Z.eqb_eq in E2. apply Z.leb_le in E3.
      split; [lia|]. split; [split; [|split]; assumption|]. intros j Hj. lia.
    + assert (Hk : ~ seek_cand s t (Z.of_nat k)).
      { intros (C1 & C2 & C3). apply Z.ltb_lt in C1. apply Z.eqb_eq in C2. apply Z.leb_le in C3. rewrite C1, C2, C3 in E. discriminate. }
      destruct (seek_find m s t k) as [i|].
      * destruct IH as (I1 & I2 & I3). split; [lia|]. split; [exact I2|]. intros j Hj.
        destruct (Z.eq_dec j (Z.of_nat k)) as [->|Hne]; [exact Hk|]. apply I3. lia.
      * intros j Hj. destruct (Z.eq_dec j (Z.of_nat k)) as [->|Hne]; [exact Hk|]. apply IH. lia.
Qed.

Lemma x_seek_selects s t a :
  0 <= sq s < sm_nseq m ->
  (sm_marker m && (xxo m (ord s) =? 255)) = false ->
  forall i, seek_find m s t (Z.to_nat (sm_len m)) = Some i ->
  (0 <= i < sm_len m /\ seek_cand s t i /\ forall j, i < j < sm_len m -> ~ seek_cand s t j) /\
  let '(s', r) := x_seek m s t in
  r = i /\ fl s' = flow_reset /\
  exists s2, play_frame m s' a = FOk s2 /\ pos s2 = i /\ ord s2 = i /\ row s2 = 0 /\ frame s2 = 0 /\ sq s2 = sq s.
Proof.
  intros Hs Hmark i Hf. pose proof (seek_find_spec s t (Z.to_nat (sm_len m))) as Sp. rewrite Hf in Sp.
  pose proof (ok_len m OK) as Hl. rewrite Z2Nat.id in Sp by lia. split; [exact Sp|].
  destruct Sp as (Hi & (C1 & C2 & C3) & _).
  unfold x_seek. rewrite Hf.
  assert (Hsq : 0 <= (if 1 =? 0 then seqctl m i else sq s) < sm_nseq m) by (cbn; exact Hs).
  pose proof (set_position_hits s i 1 Hi C1) as H. cbv zeta in H. specialize (H Hsq). cbn [Z.eqb] in H.
  destruct H as (H1 & H2 & _ & _ & H5 & H6 & H7 & H8).
  assert (Hent : entry m (sq s) <= i).
  { rewrite <- C2. apply (ok_member m OK); [lia|exact C1|rewrite C2; lia]. }
  destruct (frame_lands (set_position m s i 1) a i Hi C1) as (s2 & F & G); try (rewrite ?H6, ?H2; assumption).
  - split.
    + unfold ret_pos. rewrite H1. unfold target. destruct (Z.eqb_spec i 0) as [->|Hne]; [reflexivity|]. destruct (Z.ltb_spec i 0); [lia|reflexivity].
    + split; [exact H8|]. exists s2. rewrite H6 in G. destruct G as (G1 & G2 & G3 & G4 & G5 & _). repeat split; assumption.
Qed.

(* ---- next / prev with no reposition pending ---- *)
Lemma x_next_steps s a :
  pos s = ord s -> 0 <= ord s -> ord s + 1 < sm_len m -> xxo m (ord s + 1) < sm_npat m ->
  0 <= sq s < sm_nseq m -> seqctl m (ord s + 1) = sq s ->
  (sm_marker m && (xxo m (ord s) =? 255)) = false ->
  let '(s', r) := x_next m s in
  r = ord s + 1 /\ exists s2, play_frame m s' a = FOk s2 /\ pos s2 = ord s + 1 /\ row s2 = 0 /\ frame s2 = 0 /\ sq s2 = sq s.
Proof.
  intros Hpo Ho Hn Hpat Hs Hc Hmark. unfold x_next. rewrite Hpo.
  assert (E : (ord s <? sm_len m) = true) by (apply Z.ltb_lt; lia). rewrite E.
  assert (Hi : 0 <= ord s + 1 < sm_len m) by lia.
  assert (Hsq : 0 <= (if 1 =? 0 then seqctl m (ord s + 1) else sq s) < sm_nseq m) by (cbn; exact Hs).
  pose proof (set_position_hits s (ord s + 1) 1 Hi Hpat) as H. cbv zeta in H. specialize (H Hsq). cbn [Z.eqb] in H.
  destruct H as (H1 & H2 & _ & _ & H5 & H6 & H7 & H8).
  assert (Hent : entry m (sq s) <= ord s + 1).
  { rewrite <- Hc. apply (ok_member m OK); [lia|exact Hpat|rewrite Hc; lia]. }
  destruct (frame_lands (set_position m s (ord s + 1) 1) a (ord s + 1) Hi Hpat) as (s2 & F & G); try (rewrite ?H6, ?H2; assumption).
  - split.
    + unfold ret_pos. rewrite H1. unfold target. destruct (Z.eqb_spec (ord s + 1) 0); [lia|]. destruct (Z.ltb_spec (ord s + 1) 0); [lia|reflexivity].
    + exists s2. rewrite H6 in G. destruct G as (G1 & G2 & G3 & G4 & G5 & _). repeat split; assumption.
Qed.

Lemma x_next_at_end s : pos s = sm_len m - 1 -> 0 <= sq s < sm_nseq m ->
  let '(s', r) := x_next m s in pos s' = pos s /\ ord s' = ord s /\ row s' = row s /\ frame s' = frame s /\ r = pos s.
Proof.
  intros Hpo Hs. unfold x_next. rewrite Hpo. pose proof (ok_len m OK) as Hl.
  assert (E : (sm_len m - 1 <? sm_len m) = true) by (apply Z.ltb_lt; lia). rewrite E.
  replace (sm_len m - 1 + 1) with (sm_len m) by ring.
  assert (P : let s' := set_position m s (sm_len m) 1 in pos s' = pos s /\ ord s' = ord s /\ row s' = row s /\ frame s' = frame s).
  { unfold set_position. cbn [Z.eqb]. pose proof (ok_nseq m OK) as Hn.
    assert (E1 : ((sq s =? 255) || (sm_nseq m <=? sq s)) = false) by (apply orb_false_iff; split; [apply Z.eqb_neq|apply Z.leb_gt]; lia).
    rewrite E1. assert (E2 : (sq s <? 0) = false) by (apply Z.ltb_ge; lia). rewrite E2.
    assert (E3 : ((0 <=? sm_len m) && (sm_len m <? sm_len m)) = false) by (rewrite Z.ltb_irrefl; apply andb_false_r). rewrite E3.
    cbn [andb]. rewrite Z.leb_refl. cbn [orb pos ord row frame]. auto. }
  cbv zeta in P. destruct P as (P1 & P2 & P3 & P4). repeat split; try assumption; try (rewrite <- Hpo; assumption).
  unfold ret_pos. rewrite P1, Hpo. destruct (Z.ltb_spec (sm_len m - 1) 0); [lia|reflexivity].
Qed.

Lemma x_prev_steps s a :
  pos s = ord s -> 0 <= sq s < sm_nseq m -> entry m (sq s) < ord s -> ord s < sm_len m -> xxo m (ord s - 1) < sm_npat m ->
  (sm_marker m && (xxo m (ord s) =? 255)) = false ->
  let '(s', r) := x_prev m s in
  r = ord s - 1 /\ exists s2, play_frame m s' a = FOk s2 /\ pos s2 = ord s - 1 /\ row s2 = 0 /\ frame s2 = 0 /\ sq s2 = sq s.
Proof.
  intros Hpo Hs He Hl Hpat Hmark. unfold x_prev. rewrite Hpo.
  pose proof (ok_entry_rng m OK (sq s) Hs) as Hent.
  assert (E1 : (ord s =? entry m (sq s)) = false) by (apply Z.eqb_neq; lia). rewrite E1.
  assert (E2 : (entry m (sq s) <? ord s) = true) by (apply Z.ltb_lt; lia). rewrite E2.
  assert (Hi : 0 <= ord s - 1 < sm_len m) by lia.
  assert (Hsq : 0 <= (if -1 =? 0 then seqctl m (ord s - 1) else sq s) < sm_nseq m) by (cbn; exact Hs).
  pose proof (set_position_hits s (ord s - 1) (-1) Hi Hpat) as H. cbv zeta in H. specialize (H Hsq). cbn [Z.eqb] in H.
  destruct H as (H1 & H2 & _ & _ & H5 & H6 & H7 & H8).
  destruct (frame_lands (set_position m s (ord s - 1) (-1)) a (ord s - 1) Hi Hpat) as (s2 & F & G); try (rewrite ?H6, ?H2; assumption).
  - rewrite H6. lia.
  - split.
    + unfold ret_pos. rewrite H1. unfold target. destruct (Z.eqb_spec (ord s - 1) 0) as [->|Hne]; [reflexivity|]. destruct (Z.ltb_spec (ord s - 1) 0); [lia|reflexivity].
    + exists s2. rewrite H6 in G. destruct G as (G1 & G2 & G3 & G4 & G5 & _). repeat split; assumption.
Qed.

Lemma x_prev_at_start s a :
  pos s = ord s -> 0 <= sq s < sm_nseq m -> ord s = entry m (sq s) -> xxo m (ord s) < sm_npat m ->
  (sm_marker m && (xxo m (ord s) =? 255)) = false ->
  let '(s', r) := x_prev m s in
  r = 0 /\ exists s2, play_frame m s' a = FOk s2 /\ pos s2 = ord s /\ row s2 = 0 /\ frame s2 = 0 /\ sq s2 = sq s.
Proof.
  intros Hpo Hs He Hpat Hmark. unfold x_prev. rewrite Hpo, He, Z.eqb_refl.
  pose proof (ok_entry_rng m OK (sq s) Hs) as Hent. pose proof (ok_nseq m OK) as Hn.
  (* set_position(-1, -1): restart pending *)
  assert (P : let s' := set_position m s (-1) (-1) in pos s' = -1 /\ ord s' = ord s /\ sq s' = sq s /\ repos s' = (-1 =? ord s)).
  { unfold set_position. cbn [Z.eqb Z.leb Z.compare andb].
    assert (E1 : ((sq s =? 255) || (sm_nseq m <=? sq s)) = false) by (apply orb_false_iff; split; [apply Z.eqb_neq|apply Z.leb_gt]; lia).
    rewrite E1. assert (E2 : (sq s <? 0) = false) by (apply Z.ltb_ge; lia). rewrite E2.
    assert (E3 : (sm_len m <=? -1) = false) by (apply Z.leb_gt; pose proof (ok_len m OK); lia). rewrite E3. cbn. auto. }
  cbv zeta in P. destruct P as (P1 & P2 & P3 & P4).
  split; [unfold ret_pos; rewrite P1; reflexivity|].
  pose proof (ok_len m OK) as Hl.
  assert (Ho : 0 <= ord s < sm_len m) by lia.
  destruct (frame_lands_gen (set_position m s (-1) (-1)) a (ord s) Ho Hpat) as (s2 & F & G1 & G2 & G3 & G4 & G5 & _);
    try (rewrite ?P3, ?P2, ?P1; first [assumption | lia]).
  - rewrite P1, P3. cbn. lia.
  - exists s2. rewrite <- He. rewrite P3 in G5. repeat split; assumption.
Qed.

(* ---- restart / stop ---- *)
Lemma restart_lands s a :
  0 <= sq s < sm_nseq m -> 0 <= ord s -> xxo m (entry m (sq s)) < sm_npat m ->
  (sm_marker m && (xxo m (ord s) =? 255)) = false ->
  entry m (sq s) <= zgd (sm_scan_ord m) (sq s) -> 1 <= zgd (sm_scan_num m) (sq s) ->
  let '(s', _) := control m s Restart in
  exists s2, play_frame m s' a = FOk s2 /\ pos s2 = entry m (sq s) /\ row s2 = 0 /\ frame s2 = 0 /\ sq s2 = sq s /\ loopc s2 = 0.
Proof.
  intros Hs Ho Hpat Hmark Hso Hsn. cbn [control].
  pose proof (ok_len m OK) as Hl. pose proof (ok_entry_rng m OK (sq s) Hs) as Hent.
  assert (He : 0 <= entry m (sq s) < sm_len m) by lia.
  match goal with |- exists s2, play_frame m ?st a = _ /\ _ => set (s1 := st) end.
  destruct (frame_lands_gen s1 a (entry m (sq s)) He Hpat) as (s2 & F & G1 & G2 & G3 & G4 & G5 & G6 & G7); subst s1;
    cbn [pos ord row frame repos sq loopc end_point] in *; try first [assumption | lia | reflexivity | (destruct (Z.eqb_spec (ord s) (-1)); [lia|reflexivity])].
  - exists s2. repeat split; try assumption. destruct G7 as [G7|(_ & G8)]; [exact G7|].
    assert (E2 : (zgd (sm_scan_ord m) (sq s) <? entry m (sq s)) = false) by (apply Z.ltb_ge; lia).
    rewrite E2, Z.eqb_refl in G8. lia.
Qed.

Lemma stop_ends s a : 0 <= ord s -> 1 <= sm_len m ->
  let '(s', _) := control m s Stop in exists s2, play_frame m s' a = FEnd s2 /\ pos s2 = -2.
Proof.
  intros Ho Hl. cbn [control]. unfold play_frame, set_pos. cbn [pos ord row frame repos sq loopc speed num_rows end_point fl].
  assert (E0 : (sm_len m <=? 0) = false) by (apply Z.leb_gt; lia). rewrite E0.
  destruct (sm_marker m && (xxo m (ord s) =? 255)); [eexists; split; reflexivity|].
  assert (E1 : (negb (ord s =? -2) || repos s) = true) by (destruct (Z.eqb_spec (ord s) (-2)); [lia|reflexivity]).
  rewrite E1. rewrite Z.eqb_refl. eexists. split; reflexivity.
Qed.

End Seek.
