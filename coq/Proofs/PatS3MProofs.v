(* C19: the S3M pattern round trip.  What the writer s3m_enc_rows lays down for 64 rows of channel entries is decoded by the
   transcribed loader loop (s3m_loop) into the reference meaning of those entries. *)
From Coq Require Import ZArith List Lia Bool.
Import ListNotations.
From LX Require Import Base.ListAux Generated.Consts Generated.Tables Model.PatCodecs.
Local Open Scope Z_scope.
Ltac Zify.zify_post_hook ::= Z.div_mod_to_equations.

(* ---------------------------------------------------------------- the flag byte *)

Definition flagb (c : Z) (a v x : bool) : Z :=
  c + (if a then 32 else 0) + (if v then 64 else 0) + (if x then 128 else 0).

Lemma flagb_nz c a v x : 0 <= c <= 31 -> a || v || x = true -> (flagb c a v x =? 0) = false.
Proof. intros H K. apply Z.eqb_neq. unfold flagb. destruct a, v, x; cbn [orb] in K; try discriminate; lia. Qed.

Lemma flagb_chn c a v x : 0 <= c <= 31 -> flagb c a v x mod 32 = c.
Proof. intros H. unfold flagb. destruct a, v, x; lia. Qed.

Lemma flagb_bit5 c a v x : 0 <= c <= 31 -> bit 5 (flagb c a v x) = a.
Proof.
  intros H. unfold bit, flagb. change (2 ^ 5) with 32.
  destruct a, v, x; first [apply Z.eqb_eq; lia | apply Z.eqb_neq; lia].
Qed.

Lemma flagb_bit6 c a v x : 0 <= c <= 31 -> bit 6 (flagb c a v x) = v.
Proof.
  intros H. unfold bit, flagb. change (2 ^ 6) with 64.
  destruct a, v, x; first [apply Z.eqb_eq; lia | apply Z.eqb_neq; lia].
Qed.

Lemma flagb_bit7 c a v x : 0 <= c <= 31 -> bit 7 (flagb c a v x) = x.
Proof.
  intros H. unfold bit, flagb. change (2 ^ 7) with 128.
  destruct a, v, x; first [apply Z.eqb_eq; lia | apply Z.eqb_neq; lia].
Qed.

Lemma rd8_cons x l : rd8 (x :: l) = (x, l, false).
Proof. reflexivity. Qed.

(* ---------------------------------------------------------------- set_ev algebra *)

Lemma upd_upd {A} (l : list A) n x y : upd (upd l n x) n y = upd l n y.
Proof. revert n; induction l as [|h t IH]; intros [|n]; cbn [upd]; try reflexivity. f_equal. apply IH. Qed.

Lemma set_ev_length {A} (row : list A) c f d : length (set_ev row c f d) = length row.
Proof. unfold set_ev. destruct ((0 <=? c) && (c <? Z.of_nat (length row))); [apply upd_length | reflexivity]. Qed.

Lemma set_ev_set_ev {A} (row : list A) c f g d :
  set_ev (set_ev row c f d) c g d = set_ev row c (fun x => g (f x)) d.
Proof.
  unfold set_ev. destruct ((0 <=? c) && (c <? Z.of_nat (length row))) eqn:E.
  - rewrite upd_length, E. rewrite upd_upd. f_equal. f_equal. apply nth_upd_same.
    apply andb_prop in E. destruct E as [E1 E2]. apply Z.leb_le in E1. apply Z.ltb_lt in E2. lia.
  - rewrite E. reflexivity.
Qed.

Lemma set_ev_ext {A} (row : list A) c f g d : (forall x, f x = g x) -> set_ev row c f d = set_ev row c g d.
Proof. intros H. unfold set_ev. rewrite H. reflexivity. Qed.

(* ---------------------------------------------------------------- one channel entry *)

Ltac split_okb H :=
  repeat match type of H with (_ && _) = true => let H2 := fresh "K" in apply andb_prop in H; destruct H as [H H2] end.

Lemma s3m_enc_ent_flagb e :
  s3m_enc_ent e = flagb (s_chn e) (s_hasni e) (s_hasvol e) (s_hasfx e) ::
    (if s_hasni e then [s_note e; s_ins e] else []) ++ (if s_hasvol e then [s_vol e] else []) ++ (if s_hasfx e then [s_fxt e; s_fxp e] else []).
Proof. reflexivity. Qed.

Lemma s3m_step_ent fuel chn pl r cur done e rest :
  s3ment_okb e = true -> r < 64 -> 0 <= pl ->
  exists pl', pl - Z.of_nat (length (s3m_enc_ent e)) <= pl' /\
    s3m_loop (S fuel) chn 64 pl r cur done (s3m_enc_ent e ++ rest) false
    = s3m_loop fuel chn 64 pl' r (s3m_apply_ent cur e) done rest false.
Proof.
  intros Hok Hr Hpl. unfold s3ment_okb in Hok. split_okb Hok.
  apply Z.leb_le in Hok. apply Z.leb_le in K5.
  assert (Hc : 0 <= s_chn e <= 31) by lia.
  rewrite s3m_enc_ent_flagb.
  pose proof (flagb_nz _ _ _ _ Hc K4) as Hnz.
  pose proof (flagb_chn (s_chn e) (s_hasni e) (s_hasvol e) (s_hasfx e) Hc) as Hmod.
  pose proof (flagb_bit5 (s_chn e) (s_hasni e) (s_hasvol e) (s_hasfx e) Hc) as H5.
  pose proof (flagb_bit6 (s_chn e) (s_hasni e) (s_hasvol e) (s_hasfx e) Hc) as H6.
  pose proof (flagb_bit7 (s_chn e) (s_hasni e) (s_hasvol e) (s_hasfx e) Hc) as H7.
  set (b := flagb (s_chn e) (s_hasni e) (s_hasvol e) (s_hasfx e)) in *.
  cbn [app length]. cbn [s3m_loop].
  assert (E1 : (pl <? 0) = false) by (apply Z.ltb_ge; lia).
  assert (E2 : (64 <=? r) = false) by (apply Z.leb_gt; lia).
  rewrite E1, E2. cbn [orb]. rewrite rd8_cons. cbv beta iota zeta.
  rewrite Hnz, Hmod, H5, H6, H7.
  unfold s3m_apply_ent.
  destruct (s3m_xlat_fx (s_fxt e) (s_fxp e)) as [t' p'] eqn:EX.
  destruct (s_hasni e) eqn:Eni; destruct (s_hasvol e) eqn:Evol; destruct (s_hasfx e) eqn:Efx;
    cbn [orb] in K4; try discriminate K4;
    cbn [app length]; rewrite ?rd8_cons; cbv beta iota zeta; rewrite ?EX; cbv beta iota zeta; cbn [orb];
    rewrite ?set_ev_set_ev;
    (eexists; split; [| reflexivity]); lia.
Qed.

(* ---------------------------------------------------------------- one row, then all rows *)

Lemma s3m_enc_ent_len e : (1 <= length (s3m_enc_ent e))%nat.
Proof. rewrite s3m_enc_ent_flagb. cbn [length]. lia. Qed.

Lemma s3m_enc_row_cons e es : s3m_enc_row (e :: es) = s3m_enc_ent e ++ s3m_enc_row es.
Proof. unfold s3m_enc_row. cbn [map concat]. rewrite <- app_assoc. reflexivity. Qed.

Lemma s3m_enc_rows_cons es rows : s3m_enc_rows (es :: rows) = s3m_enc_row es ++ s3m_enc_rows rows.
Proof. reflexivity. Qed.

Lemma s3m_row es : forall fuel chn pl r cur done rest,
  Forall (fun e => s3ment_okb e = true) es -> r < 64 ->
  Z.of_nat (length (s3m_enc_row es)) <= pl -> (length (s3m_enc_row es) < fuel)%nat ->
  exists fuel' pl', (fuel - length (s3m_enc_row es) <= fuel')%nat /\ pl - Z.of_nat (length (s3m_enc_row es)) <= pl' /\
    s3m_loop fuel chn 64 pl r cur done (s3m_enc_row es ++ rest) false
    = s3m_loop fuel' chn 64 pl' (r + 1) (repeat ev0 (Z.to_nat chn)) (fold_left s3m_apply_ent es cur :: done) rest false.
Proof.
  induction es as [|e es IH]; intros fuel chn pl r cur done rest Hok Hr Hpl Hfuel.
  - unfold s3m_enc_row in *. cbn [map concat app length] in *.
    destruct fuel as [|fuel]; [lia|].
    cbn [s3m_loop].
    assert (E1 : (pl <? 0) = false) by (apply Z.ltb_ge; lia).
    assert (E2 : (64 <=? r) = false) by (apply Z.leb_gt; lia).
    rewrite E1, E2. cbn [orb]. rewrite rd8_cons. cbv beta iota zeta.
    change (0 =? 0) with true. cbv beta iota. cbn [fold_left].
    exists fuel, pl. split; [lia|]. split; [lia|]. reflexivity.
  - inversion Hok as [|e0 es0 Hok1 Hok2]; subst e0 es0.
    rewrite s3m_enc_row_cons in *. rewrite app_length in *. rewrite <- app_assoc.
    pose proof (s3m_enc_ent_len e) as Hlen.
    destruct fuel as [|fuel]; [lia|].
    destruct (s3m_step_ent fuel chn pl r cur done e (s3m_enc_row es ++ rest) Hok1 Hr) as [pl1 [Hpl1 Eq1]]; [lia|].
    rewrite Eq1.
    destruct (IH fuel chn pl1 r (s3m_apply_ent cur e) done rest Hok2 Hr) as [fuel2 [pl2 [Hf2 [Hpl2 Eq2]]]]; [lia|lia|].
    rewrite Eq2. cbn [fold_left].
    exists fuel2, pl2. split; [lia|]. split; [lia|]. reflexivity.
Qed.

Lemma s3m_rows chn rows : forall fuel pl r done tail,
  Forall (Forall (fun e => s3ment_okb e = true)) rows ->
  0 <= r -> r + Z.of_nat (length rows) = 64 ->
  Z.of_nat (length (s3m_enc_rows rows)) <= pl -> (length (s3m_enc_rows rows) < fuel)%nat ->
  s3m_loop fuel chn 64 pl r (repeat ev0 (Z.to_nat chn)) done (s3m_enc_rows rows ++ tail) false
  = Some (rev done ++ map (s3m_ref_row chn) rows, false).
Proof.
  induction rows as [|es rows IH]; intros fuel pl r done tail Hok Hr0 Hr Hpl Hfuel.
  - cbn [length] in Hr. assert (r = 64) by lia. subst r.
    destruct fuel as [|fuel]; [lia|].
    cbn [s3m_loop]. change (64 <=? 64) with true. rewrite orb_true_r.
    change (64 <? 64) with false. cbv beta iota. reflexivity.
  - inversion Hok as [|es0 rows0 Hok1 Hok2]; subst es0 rows0.
    rewrite s3m_enc_rows_cons in *. rewrite app_length in *. rewrite <- app_assoc.
    cbn [length] in Hr.
    destruct (s3m_row es fuel chn pl r (repeat ev0 (Z.to_nat chn)) done (s3m_enc_rows rows ++ tail) Hok1)
      as [fuel1 [pl1 [Hf1 [Hpl1 Eq1]]]]; [lia|lia|lia|].
    rewrite Eq1.
    rewrite (IH fuel1 pl1 (r + 1) (fold_left s3m_apply_ent es (repeat ev0 (Z.to_nat chn)) :: done) tail Hok2); [|lia|lia|lia|lia].
    cbn [rev map]. rewrite <- app_assoc. reflexivity.
Qed.

Theorem s3m_decode_encode : forall chn rows tail,
  1 <= chn <= 32 -> length rows = 64%nat ->
  Forall (Forall (fun e => s3ment_okb e = true)) rows ->
  s3m_load_pattern chn (Z.of_nat (length (s3m_enc_rows rows))) (s3m_enc_rows rows ++ tail)
  = Some (map (s3m_ref_row chn) rows, false).
Proof.
  intros chn rows tail Hchn Hlen Hok. unfold s3m_load_pattern.
  rewrite (s3m_rows chn rows _ _ 0 [] tail Hok); [reflexivity|lia|lia|lia|].
  rewrite app_length. lia.
Qed.

(* ---------------------------------------------------------------- corollaries about the translation *)

Lemma s3m_note_plain : forall o k, 0 <= o <= 9 -> 0 <= k <= 11 -> s3m_note (o * 16 + k) = 13 + 12 * o + k.
Proof.
  intros o k Ho Hk. unfold s3m_note, msn, lsn.
  destruct (Z.eqb_spec (o * 16 + k) 255) as [E|_]; [lia|].
  destruct (Z.eqb_spec (o * 16 + k) 254) as [E|_]; [lia|].
  lia.
Qed.

Lemma s3m_apply_plain : forall chn e,
  0 <= s_chn e < chn -> s_hasni e = true -> s_hasvol e = true ->
  let x := nth (Z.to_nat (s_chn e)) (s3m_apply_ent (repeat ev0 (Z.to_nat chn)) e) ev0 in
  e_note x = s3m_note (s_note e) /\ e_ins x = s_ins e /\ e_vol x = (s_vol e + 1) mod 256.
Proof.
  intros chn e Hc Hni Hvol. unfold s3m_apply_ent, set_ev. rewrite repeat_length.
  assert (E : (0 <=? s_chn e) && (s_chn e <? Z.of_nat (Z.to_nat chn)) = true).
  { apply andb_true_intro. split; [apply Z.leb_le | apply Z.ltb_lt]; lia. }
  rewrite E. cbv zeta. rewrite nth_upd_same by (rewrite repeat_length; lia).
  destruct (s3m_xlat_fx (s_fxt e) (s_fxp e)) as [t' p'].
  rewrite Hni, Hvol. cbn [e_note e_ins e_vol]. auto.
Qed.

Print Assumptions s3m_decode_encode.
Print Assumptions s3m_note_plain.
Print Assumptions s3m_apply_plain.
