(* C08, DEFLATE part A: one fixed-Huffman block.  The decoder's `codes` loop, run on the writer's encoding of a well-formed token
   list followed by the end-of-block symbol, consumes exactly those bits and produces `expand ts out` (codes_spec).  The finite
   facts about the fixed tables (288 literal/length symbols, 30 distance symbols, lengths 3..258, distances 1..32768) are proved
   by exhaustive evaluation and lifted to arbitrary tails with "the decoder only looks at the bits it consumes". *)
From Coq Require Import ZArith List Lia Bool.
Import ListNotations.
From LX Require Import Base.ListAux Model.Lzw Model.Crc Model.Inflate.
From LX Require Import Proofs.LzwBitsProofs.
Local Open Scope Z_scope.
Ltac Zify.zify_post_hook ::= Z.div_mod_to_equations.

Notation FL := (mk_huff fixed_lit_lens).
Notation FD := (mk_huff fixed_dist_lens).

(* ---------------------------------------------------------------- sweeps over a Z range -------------------------------- *)
Fixpoint zrange (a : Z) (n : nat) : list Z := match n with O => [] | S k => a :: zrange (a + 1) k end.

Lemma zrange_in : forall n a x, a <= x < a + Z.of_nat n -> In x (zrange a n).
Proof.
  induction n as [|n IH]; intros a x H; [lia|].
  cbn [zrange]. destruct (Z.eq_dec a x) as [E|E]; [left; exact E | right; apply IH; lia].
Qed.

Lemma sweep_range : forall (f : Z -> bool) a n,
  forallb f (zrange a (Z.to_nat n)) = true -> forall x, a <= x < a + n -> f x = true.
Proof. intros f a n H x Hx. rewrite forallb_forall in H. apply H. apply zrange_in. lia. Qed.

(* ---------------------------------------------------------------- A1: the fixed codes ---------------------------------- *)
(* the decoder only looks at the bits it consumes *)
Lemma decode_sym_app : forall counts syms code first index c s r rest,
  decode_sym counts syms code first index c = Some (s, r) ->
  decode_sym counts syms code first index (c ++ rest) = Some (s, r ++ rest).
Proof.
  induction counts as [|cnt cs IH]; intros syms code first index c s r rest H.
  - cbn [decode_sym] in H. discriminate.
  - destruct c as [|bit c']; cbn [decode_sym] in H; [discriminate|].
    cbn [app decode_sym].
    destruct (code + (if bit then 1 else 0) - cnt <? first).
    + inversion H; subst. reflexivity.
    + apply IH; exact H.
Qed.

Lemma decode_app : forall h c s rest, decode h c = Some (s, []) -> decode h (c ++ rest) = Some (s, rest).
Proof. intros h c s rest H. unfold decode in *. apply (decode_sym_app _ _ _ _ _ _ _ _ rest) in H. exact H. Qed.

Definition sym_okb (h : huff) (s : Z) : bool :=
  match decode h (encode_sym h s) with
  | Some (s', []) => (s' =? s) && (5 <=? length (encode_sym h s))%nat
  | _ => false
  end.

Lemma fixed_lit_sweep : forallb (sym_okb FL) (zrange 0 (Z.to_nat 288)) = true.
Proof. vm_cast_no_check (eq_refl true). Qed.
Lemma fixed_dist_sweep : forallb (sym_okb FD) (zrange 0 (Z.to_nat 30)) = true.
Proof. vm_cast_no_check (eq_refl true). Qed.

Lemma sym_okb_decode : forall h s rest, sym_okb h s = true -> decode h (encode_sym h s ++ rest) = Some (s, rest).
Proof.
  intros h s rest H. unfold sym_okb in H.
  destruct (decode h (encode_sym h s)) as [[s' [|x r]]|] eqn:E; try discriminate.
  apply andb_prop in H. destruct H as [H _]. apply Z.eqb_eq in H. subst s'.
  apply decode_app. exact E.
Qed.
Lemma sym_okb_length : forall h s, sym_okb h s = true -> (5 <= length (encode_sym h s))%nat.
Proof.
  intros h s H. unfold sym_okb in H.
  destruct (decode h (encode_sym h s)) as [[s' [|x r]]|]; try discriminate.
  apply andb_prop in H. destruct H as [_ H]. apply Nat.leb_le in H. exact H.
Qed.

Lemma fixed_lit_okb : forall s, 0 <= s <= 287 -> sym_okb FL s = true.
Proof. intros s Hs. apply (sweep_range _ 0 288 fixed_lit_sweep); lia. Qed.
Lemma fixed_dist_okb : forall s, 0 <= s <= 29 -> sym_okb FD s = true.
Proof. intros s Hs. apply (sweep_range _ 0 30 fixed_dist_sweep); lia. Qed.

Lemma decode_fixed_lit : forall s rest, 0 <= s <= 287 -> decode FL (encode_sym FL s ++ rest) = Some (s, rest).
Proof. intros s rest Hs. apply sym_okb_decode, fixed_lit_okb, Hs. Qed.
Lemma decode_fixed_dist : forall s rest, 0 <= s <= 29 -> decode FD (encode_sym FD s ++ rest) = Some (s, rest).
Proof. intros s rest Hs. apply sym_okb_decode, fixed_dist_okb, Hs. Qed.
Lemma encode_fixed_lit_length : forall s, 0 <= s <= 287 -> (5 <= length (encode_sym FL s))%nat.
Proof. intros s Hs. apply sym_okb_length, fixed_lit_okb, Hs. Qed.
Lemma encode_fixed_dist_length : forall s, 0 <= s <= 29 -> (5 <= length (encode_sym FD s))%nat.
Proof. intros s Hs. apply sym_okb_length, fixed_dist_okb, Hs. Qed.

(* ---------------------------------------------------------------- A2: extra bits --------------------------------------- *)
Lemma getbits_bits_of_z : forall n x rest, 0 <= x < 2 ^ Z.of_nat n -> getbits n (bits_of_z n x ++ rest) = Some (x, rest).
Proof.
  intros n x rest Hx. unfold getbits.
  rewrite (firstn_exact (bits_of_z n x) rest n) by apply bits_of_z_length.
  rewrite (skipn_exact (bits_of_z n x) rest n) by apply bits_of_z_length.
  rewrite bits_of_z_length, Nat.ltb_irrefl, z_of_bits_of_z by exact Hx. reflexivity.
Qed.

(* ---------------------------------------------------------------- the copy --------------------------------------------- *)
Lemma lz_copy_length : forall f len d out, (1 <= d <= length out)%nat -> (len <= f)%nat ->
  length (lz_copy f len d out) = (len + length out)%nat.
Proof.
  induction f as [|f IH]; intros len d out Hd Hl.
  - cbn [lz_copy]. lia.
  - cbn [lz_copy]. destruct (Nat.leb_spec len d) as [Hle|Hgt].
    + rewrite app_length, firstn_length, skipn_length. lia.
    + rewrite IH.
      * rewrite app_length, firstn_length. lia.
      * rewrite app_length, firstn_length. lia.
      * lia.
Qed.

(* ---------------------------------------------------------------- one iteration of codes, any tables ------------------- *)
Lemma codes_lit_step : forall f lh dh b b1 out sym,
  decode lh b = Some (sym, b1) -> sym < 256 -> codes (S f) lh dh b out = codes f lh dh b1 (sym :: out).
Proof.
  intros f lh dh b b1 out sym H Hs. cbn [codes]. rewrite H.
  destruct (Z.ltb_spec sym 256) as [_|Hc]; [reflexivity | lia].
Qed.

Lemma codes_end_step : forall f lh dh b b1 out,
  decode lh b = Some (256, b1) -> codes (S f) lh dh b out = Some (b1, out).
Proof. intros f lh dh b b1 out H. cbn [codes]. rewrite H. reflexivity. Qed.

Lemma codes_match_step : forall f lh dh b b1 b2 b3 b4 out sym e1 ds e2 len dist,
  decode lh b = Some (sym, b1) -> 257 <= sym <= 285 ->
  getbits (Z.to_nat (nth (Z.to_nat (sym - 257)) len_extra 0)) b1 = Some (e1, b2) ->
  decode dh b2 = Some (ds, b3) -> ds <= 29 ->
  getbits (Z.to_nat (nth (Z.to_nat ds) dist_extra 0)) b3 = Some (e2, b4) ->
  len = nth (Z.to_nat (sym - 257)) len_base 0 + e1 ->
  dist = nth (Z.to_nat ds) dist_base 0 + e2 ->
  dist <= Z.of_nat (length out) ->
  codes (S f) lh dh b out = codes f lh dh b4 (lz_copy (Z.to_nat len) (Z.to_nat len) (Z.to_nat dist) out).
Proof.
  intros f lh dh b b1 b2 b3 b4 out sym e1 ds e2 len dist H Hs G1 D Hd G2 El Ed Hr.
  cbn [codes]. rewrite H.
  destruct (Z.ltb_spec sym 256) as [Hc|_]; [lia|].
  destruct (Z.eqb_spec sym 256) as [Hc|_]; [lia|].
  destruct (Z.ltb_spec 285 sym) as [Hc|_]; [lia|].
  rewrite G1, D.
  destruct (Z.ltb_spec 29 ds) as [Hc|_]; [lia|].
  rewrite G2, <- El, <- Ed.
  destruct (Z.ltb_spec (Z.of_nat (length (firstn (Z.to_nat dist) out))) dist) as [Hc|_]; [|reflexivity].
  rewrite firstn_length in Hc. lia.
Qed.

(* ---------------------------------------------------------------- length and distance symbols -------------------------- *)
Definition len_k (len : Z) : Z := if len =? 258 then 28 else base_index len_base len 0 0.
Definition dist_j (dist : Z) : Z := base_index dist_base dist 0 0.

Lemma enc_token_match : forall lh dh len dist,
  enc_token lh dh (Match len dist) =
  encode_sym lh (257 + len_k len) ++
  bits_of_z (Z.to_nat (nth (Z.to_nat (len_k len)) len_extra 0)) (len - nth (Z.to_nat (len_k len)) len_base 0) ++
  encode_sym dh (dist_j dist) ++
  bits_of_z (Z.to_nat (nth (Z.to_nat (dist_j dist)) dist_extra 0)) (dist - nth (Z.to_nat (dist_j dist)) dist_base 0).
Proof. reflexivity. Qed.

Definition base_okb (kf : Z -> Z) (bases extras : list Z) (top : Z) (v : Z) : bool :=
  let k := kf v in
  (0 <=? k) && (k <=? top) && (0 <=? nth (Z.to_nat k) extras 0) &&
  (0 <=? v - nth (Z.to_nat k) bases 0) && (v - nth (Z.to_nat k) bases 0 <? 2 ^ nth (Z.to_nat k) extras 0).

Lemma base_okb_spec : forall kf bases extras top v, base_okb kf bases extras top v = true ->
  0 <= kf v <= top /\ 0 <= v - nth (Z.to_nat (kf v)) bases 0 < 2 ^ Z.of_nat (Z.to_nat (nth (Z.to_nat (kf v)) extras 0)).
Proof.
  intros kf bases extras top v H. unfold base_okb in H. cbv zeta in H.
  apply andb_prop in H; destruct H as [H H5]. apply andb_prop in H; destruct H as [H H4].
  apply andb_prop in H; destruct H as [H H3]. apply andb_prop in H; destruct H as [H1 H2].
  apply Z.leb_le in H1, H2, H3, H4. apply Z.ltb_lt in H5.
  rewrite Z2Nat.id by exact H3. lia.
Qed.

Lemma len_sweep : forallb (base_okb len_k len_base len_extra 28) (zrange 3 (Z.to_nat 256)) = true.
Proof. vm_cast_no_check (eq_refl true). Qed.
Lemma dist_sweep : forallb (base_okb dist_j dist_base dist_extra 29) (zrange 1 (Z.to_nat 32768)) = true.
Proof. vm_cast_no_check (eq_refl true). Qed.

Lemma len_k_spec : forall len, 3 <= len <= 258 ->
  0 <= len_k len <= 28 /\
  0 <= len - nth (Z.to_nat (len_k len)) len_base 0 < 2 ^ Z.of_nat (Z.to_nat (nth (Z.to_nat (len_k len)) len_extra 0)).
Proof. intros len H. apply base_okb_spec. apply (sweep_range _ 3 256 len_sweep); lia. Qed.
Lemma dist_j_spec : forall dist, 1 <= dist <= 32768 ->
  0 <= dist_j dist <= 29 /\
  0 <= dist - nth (Z.to_nat (dist_j dist)) dist_base 0 < 2 ^ Z.of_nat (Z.to_nat (nth (Z.to_nat (dist_j dist)) dist_extra 0)).
Proof. intros dist H. apply base_okb_spec. apply (sweep_range _ 1 32768 dist_sweep); lia. Qed.

(* ---------------------------------------------------------------- A3: one token ---------------------------------------- *)
Lemma tokens_okb_lit : forall x n, tokens_okb [Lit x] n = true -> 0 <= x <= 255.
Proof.
  intros x n H. cbn [tokens_okb] in H. rewrite andb_true_r in H.
  apply andb_prop in H; destruct H as [H1 H2]. apply Z.leb_le in H1, H2. lia.
Qed.
Lemma tokens_okb_match : forall len dist n, tokens_okb [Match len dist] n = true -> 3 <= len <= 258 /\ 1 <= dist <= 32768 /\ dist <= n.
Proof.
  intros len dist n H. cbn [tokens_okb] in H. rewrite andb_true_r in H.
  apply andb_prop in H; destruct H as [H H5]. apply andb_prop in H; destruct H as [H H4].
  apply andb_prop in H; destruct H as [H H3]. apply andb_prop in H; destruct H as [H1 H2].
  apply Z.leb_le in H1, H2, H3, H4, H5. lia.
Qed.

Lemma codes_token : forall t rest out fuel, tokens_okb [t] (Z.of_nat (length out)) = true ->
  codes (S fuel) FL FD (enc_token FL FD t ++ rest) out = codes fuel FL FD rest (expand [t] out).
Proof.
  intros [x|len dist] rest out fuel H.
  - apply tokens_okb_lit in H. cbn [enc_token expand].
    apply codes_lit_step; [apply decode_fixed_lit; lia | lia].
  - apply tokens_okb_match in H. destruct H as (Hl & Hd & Hr).
    destruct (len_k_spec len Hl) as [Hk Hke]. destruct (dist_j_spec dist Hd) as [Hj Hje].
    rewrite enc_token_match. cbn [expand]. repeat rewrite <- app_assoc.
    assert (Ek : 257 + len_k len - 257 = len_k len) by lia.
    eapply codes_match_step.
    + apply decode_fixed_lit. lia.
    + lia.
    + rewrite Ek. apply getbits_bits_of_z. exact Hke.
    + apply decode_fixed_dist. exact Hj.
    + lia.
    + apply getbits_bits_of_z. exact Hje.
    + rewrite Ek. lia.
    + lia.
    + exact Hr.
Qed.

(* ---------------------------------------------------------------- A4 / A5: a token list -------------------------------- *)
Definition token_len (t : token) : Z := match t with Lit _ => 1 | Match len _ => len end.

Lemma tokens_okb_cons : forall t ts n, tokens_okb (t :: ts) n = true ->
  tokens_okb [t] n = true /\ tokens_okb ts (n + token_len t) = true.
Proof.
  intros [x|len dist] ts n H; cbn [tokens_okb token_len] in *; rewrite andb_true_r.
  - apply andb_prop in H. destruct H as [H1 H2]. split; assumption.
  - apply andb_prop in H. destruct H as [H1 H2]. split; assumption.
Qed.

Lemma expand_one_length : forall t out, tokens_okb [t] (Z.of_nat (length out)) = true ->
  Z.of_nat (length (expand [t] out)) = Z.of_nat (length out) + token_len t.
Proof.
  intros [x|len dist] out H; cbn [expand token_len].
  - cbn [length]. lia.
  - apply tokens_okb_match in H. rewrite lz_copy_length by lia. lia.
Qed.

Lemma expand_cons : forall t ts out, expand (t :: ts) out = expand ts (expand [t] out).
Proof. intros [x|len dist] ts out; reflexivity. Qed.

Theorem codes_spec : forall ts rest out fuel, tokens_okb ts (Z.of_nat (length out)) = true -> (length ts < fuel)%nat ->
  codes fuel FL FD (concat (map (enc_token FL FD) ts) ++ encode_sym FL 256 ++ rest) out = Some (rest, expand ts out).
Proof.
  induction ts as [|t ts IH]; intros rest out fuel H Hf.
  - destruct fuel as [|fuel]; [cbn [length] in Hf; lia|].
    cbn [map concat app expand]. apply codes_end_step. apply decode_fixed_lit. lia.
  - destruct fuel as [|fuel]; [lia|]. cbn [length] in Hf.
    apply tokens_okb_cons in H. destruct H as [H1 H2].
    cbn [map concat]. rewrite <- app_assoc, (codes_token t _ out fuel H1), (expand_cons t ts out).
    apply IH; [|lia]. rewrite expand_one_length by exact H1. exact H2.
Qed.

Lemma tokens_len_cons : forall t ts, tokens_len (t :: ts) = token_len t + tokens_len ts.
Proof. intros [x|len dist] ts; reflexivity. Qed.

Lemma expand_length : forall ts out, tokens_okb ts (Z.of_nat (length out)) = true ->
  Z.of_nat (length (expand ts out)) = Z.of_nat (length out) + tokens_len ts.
Proof.
  induction ts as [|t ts IH]; intros out H.
  - cbn [expand tokens_len]. lia.
  - apply tokens_okb_cons in H. destruct H as [H1 H2].
    rewrite (expand_cons t ts out), tokens_len_cons, IH.
    + rewrite expand_one_length by exact H1. lia.
    + rewrite expand_one_length by exact H1. exact H2.
Qed.

(* ---------------------------------------------------------------- A6: every well-formed token emits bits ---------------- *)
(* without tokens_okb the statement is false: encode_sym FL 1000 = [], so [Lit 1000] is written as no bits at all *)
Example enc_token_empty : concat (map (enc_token FL FD) [Lit 1000]) = [].
Proof. vm_compute. reflexivity. Qed.

Lemma enc_token_length : forall t n, tokens_okb [t] n = true -> (5 <= length (enc_token FL FD t))%nat.
Proof.
  intros [x|len dist] n H.
  - apply tokens_okb_lit in H. cbn [enc_token]. apply encode_fixed_lit_length. lia.
  - apply tokens_okb_match in H. destruct H as (Hl & _ & _).
    destruct (len_k_spec len Hl) as [Hk _].
    rewrite enc_token_match, app_length.
    pose proof (encode_fixed_lit_length (257 + len_k len)) as L. lia.
Qed.

Lemma enc_tokens_length : forall ts n, tokens_okb ts n = true -> (length ts <= length (concat (map (enc_token FL FD) ts)))%nat.
Proof.
  induction ts as [|t ts IH]; intros n H; [cbn [length]; lia|].
  apply tokens_okb_cons in H. destruct H as [H1 H2].
  cbn [map concat length]. rewrite app_length.
  pose proof (enc_token_length t n H1). pose proof (IH _ H2). lia.
Qed.

Print Assumptions decode_fixed_lit.
Print Assumptions decode_fixed_dist.
Print Assumptions encode_fixed_lit_length.
Print Assumptions encode_fixed_dist_length.
Print Assumptions getbits_bits_of_z.
Print Assumptions codes_token.
Print Assumptions codes_spec.
Print Assumptions expand_length.
Print Assumptions enc_tokens_length.
Print Assumptions lz_copy_length.
