From Coq Require Import ZArith List Lia Bool.
Import ListNotations.
From LX Require Import Base.IntWrap Base.ListAux Generated.Consts Generated.Tables Model.SampleLoad.
Local Open Scope Z_scope.
Ltac Zify.zify_post_hook ::= Z.div_mod_to_equations.

(* ---------- flag algebra ---------- *)
Lemma land_clr f m b : Z.land (clr f m) b = Z.land f (Z.land (Z.lnot m) b).
Proof. unfold clr. rewrite <- Z.land_assoc. reflexivity. Qed.

Lemma has_clr_disjoint f m b : Z.land (Z.lnot m) b = b -> has (clr f m) b = has f b.
Proof. intros H. unfold has. rewrite land_clr, H. reflexivity. Qed.
Lemma has_clr_covered f m b : Z.land (Z.lnot m) b = 0 -> has (clr f m) b = false.
Proof. intros H. unfold has. rewrite land_clr, H, Z.land_0_r. reflexivity. Qed.

(* ---------- loop sanity ---------- *)
Lemma fix_loops_inv s : 0 <= s_len s ->
  let r := fix_loops s in
  s_len r = s_len s /\
  0 <= s_lps r /\ s_lps r <= s_lpe r /\ s_lpe r <= s_len s /\
  (has (s_flg r) C_XMP_SAMPLE_LOOP = true -> s_lps r < s_lpe r) /\
  (has (s_flg r) C_XMP_SAMPLE_LOOP_BIDIR = true -> has (s_flg r) C_XMP_SAMPLE_LOOP = true) /\
  (has (s_flg r) C_XMP_SAMPLE_SLOOP_BIDIR = true -> has (s_flg r) C_XMP_SAMPLE_SLOOP = true) /\
  has (s_flg r) C_XMP_SAMPLE_16BIT = has (s_flg s) C_XMP_SAMPLE_16BIT /\
  has (s_flg r) C_XMP_SAMPLE_STEREO = has (s_flg s) C_XMP_SAMPLE_STEREO.
Proof.
  intros Hlen. unfold fix_loops. cbv zeta.
  set (lps := if s_lps s <? 0 then 0 else s_lps s).
  set (lpe := if s_len s <? s_lpe s then s_len s else s_lpe s).
  assert (Hlps : 0 <= lps) by (unfold lps; destruct (Z.ltb_spec (s_lps s) 0); lia).
  assert (Hlpe : lpe <= s_len s) by (unfold lpe; destruct (Z.ltb_spec (s_len s) (s_lpe s)); lia).
  clearbody lps lpe.
  destruct ((s_len s <=? lps) || (lpe <=? lps)) eqn:Ebad.
  - (* loop removed *)
    set (f1 := clr (s_flg s) (Z.lor C_XMP_SAMPLE_LOOP C_XMP_SAMPLE_LOOP_BIDIR)).
    assert (L1 : has f1 C_XMP_SAMPLE_LOOP = false) by (apply has_clr_covered; reflexivity).
    assert (B1 : has f1 C_XMP_SAMPLE_LOOP_BIDIR = false) by (apply has_clr_covered; reflexivity).
    rewrite B1. cbn [andb].
    destruct (has f1 C_XMP_SAMPLE_SLOOP_BIDIR && negb (has f1 C_XMP_SAMPLE_SLOOP)) eqn:Es; cbn [s_len s_lps s_lpe s_flg].
    + repeat split; try lia.
      * rewrite has_clr_disjoint by reflexivity. rewrite L1. discriminate.
      * rewrite has_clr_disjoint by reflexivity. rewrite B1. discriminate.
      * rewrite has_clr_covered by reflexivity. discriminate.
      * rewrite has_clr_disjoint by reflexivity. apply has_clr_disjoint. reflexivity.
      * rewrite has_clr_disjoint by reflexivity. apply has_clr_disjoint. reflexivity.
    + repeat split; try lia.
      * rewrite L1. discriminate.
      * rewrite B1. discriminate.
      * intros Hb. rewrite Hb in Es. cbn [andb] in Es. apply negb_false_iff in Es. exact Es.
      * apply has_clr_disjoint. reflexivity.
      * apply has_clr_disjoint. reflexivity.
  - apply orb_false_elim in Ebad as [E1 E2]. apply Z.leb_gt in E1. apply Z.leb_gt in E2.
    set (f0 := s_flg s).
    destruct (has f0 C_XMP_SAMPLE_LOOP_BIDIR && negb (has f0 C_XMP_SAMPLE_LOOP)) eqn:Eb.
    + set (f1 := clr f0 C_XMP_SAMPLE_LOOP_BIDIR).
      assert (B1 : has f1 C_XMP_SAMPLE_LOOP_BIDIR = false) by (apply has_clr_covered; reflexivity).
      destruct (has f1 C_XMP_SAMPLE_SLOOP_BIDIR && negb (has f1 C_XMP_SAMPLE_SLOOP)) eqn:Es; cbn [s_len s_lps s_lpe s_flg].
      * repeat split; try lia.
        -- rewrite has_clr_disjoint by reflexivity. rewrite B1. discriminate.
        -- rewrite has_clr_covered by reflexivity. discriminate.
        -- rewrite has_clr_disjoint by reflexivity. apply has_clr_disjoint. reflexivity.
        -- rewrite has_clr_disjoint by reflexivity. apply has_clr_disjoint. reflexivity.
      * repeat split; try lia.
        -- rewrite B1. discriminate.
        -- intros Hb. rewrite Hb in Es. cbn [andb] in Es. apply negb_false_iff in Es. exact Es.
        -- apply has_clr_disjoint. reflexivity.
        -- apply has_clr_disjoint. reflexivity.
    + destruct (has f0 C_XMP_SAMPLE_SLOOP_BIDIR && negb (has f0 C_XMP_SAMPLE_SLOOP)) eqn:Es; cbn [s_len s_lps s_lpe s_flg].
      * repeat split; try lia.
        -- rewrite !has_clr_disjoint by reflexivity. intros Hb. rewrite Hb in Eb. cbn [andb] in Eb. apply negb_false_iff in Eb. exact Eb.
        -- rewrite has_clr_covered by reflexivity. discriminate.
        -- apply has_clr_disjoint. reflexivity.
        -- apply has_clr_disjoint. reflexivity.
      * repeat split; try lia.
        -- intros Hb. rewrite Hb in Eb. cbn [andb] in Eb. apply negb_false_iff in Eb. exact Eb.
        -- intros Hb. rewrite Hb in Es. cbn [andb] in Es. apply negb_false_iff in Es. exact Es.
Qed.

(* ---------- truncation ---------- *)
Lemma framelen_cases flg : framelen_of flg = 1 \/ framelen_of flg = 2 \/ framelen_of flg = 4.
Proof. unfold framelen_of. destruct (has flg C_XMP_SAMPLE_16BIT), (has flg C_XMP_SAMPLE_STEREO); lia. Qed.

Lemma land_low x k : 0 <= k -> Z.land x (2 ^ k - 1) = x mod 2 ^ k.
Proof. intros H. replace (2 ^ k - 1) with (Z.ones k) by (rewrite Z.ones_equiv; lia). apply Z.land_ones. exact H. Qed.

Lemma truncate_spec adpcm flg len bytelen remaining bl l :
  0 < len -> bytelen = len * framelen_of flg -> 0 < remaining ->
  truncate adpcm flg len bytelen remaining = Some (bl, l) ->
  bl = l * framelen_of flg /\ 0 <= l <= len /\
  (if adpcm then 16 + (bl + 1) / 2 <= remaining else bl <= remaining) /\
  (* nothing is lost needlessly: one more frame would not fit *)
  (l < len -> if adpcm then remaining < 16 + ((l + 1) * framelen_of flg + 1) / 2 + 1 else remaining < (l + 1) * framelen_of flg).
Proof.
  intros Hlen Hbl Hrem. unfold truncate. cbv zeta.
  assert (F16 : (if has flg C_XMP_SAMPLE_16BIT then 2 else 1) * (if has flg C_XMP_SAMPLE_STEREO then 2 else 1) = framelen_of flg) by reflexivity.
  destruct adpcm.
  - rewrite !Z.shiftr_div_pow2 by lia. change (2 ^ 1) with 2.
    destruct (Z.ltb_spec remaining 16); [discriminate|].
    destruct (Z.ltb_spec remaining (16 + (bytelen + 1) / 2)).
    + rewrite Z.shiftl_mul_pow2 by lia. change (2 ^ 1) with 2.
      set (b0 := (remaining - 16) * 2).
      intros E. injection E as <- <-.
      destruct (has flg C_XMP_SAMPLE_16BIT) eqn:E16, (has flg C_XMP_SAMPLE_STEREO) eqn:Est;
        unfold framelen_of in *; rewrite ?E16, ?Est in *; rewrite ?Z.shiftr_div_pow2 by lia; change (2 ^ 1) with 2.
      * change (2 * 2 - 1) with (2 ^ 2 - 1). rewrite land_low by lia. change (2 ^ 2) with 4. subst b0. lia.
      * change (2 * 1 - 1) with (2 ^ 1 - 1). rewrite land_low by lia. change (2 ^ 1) with 2. subst b0. lia.
      * change (1 * 2 - 1) with (2 ^ 1 - 1). rewrite land_low by lia. change (2 ^ 1) with 2. subst b0. lia.
      * change (1 * 1 - 1) with 0. rewrite Z.land_0_r. subst b0. lia.
    + intros E. injection E as <- <-. repeat split; try lia.
  - destruct (Z.ltb_spec remaining bytelen).
    + intros E. injection E as <- <-.
      destruct (has flg C_XMP_SAMPLE_16BIT) eqn:E16, (has flg C_XMP_SAMPLE_STEREO) eqn:Est;
        unfold framelen_of in *; rewrite ?E16, ?Est in *; rewrite ?Z.shiftr_div_pow2 by lia; change (2 ^ 1) with 2.
      * change (2 * 2 - 1) with (2 ^ 2 - 1). rewrite land_low by lia. change (2 ^ 2) with 4. lia.
      * change (2 * 1 - 1) with (2 ^ 1 - 1). rewrite land_low by lia. change (2 ^ 1) with 2. lia.
      * change (1 * 2 - 1) with (2 ^ 1 - 1). rewrite land_low by lia. change (2 ^ 1) with 2. lia.
      * change (1 * 1 - 1) with 0. rewrite Z.land_0_r. lia.
    + intros E. injection E as <- <-. repeat split; try lia.
Qed.

(* ---------- delta decoding is prefix sums ---------- *)
Fixpoint prefix_sums (acc : Z) (l : list Z) : list Z :=
  match l with [] => [] | x :: t => (acc + x) :: prefix_sums (acc + x) t end.

Lemma mod_mod_256 z : (z mod 65536) mod 256 = z mod 256.
Proof.
  pose proof (Z.mod_pos_bound z 65536 ltac:(lia)). pose proof (Z.div_mod z 65536 ltac:(lia)).
  set (q := z / 65536) in *. set (r := z mod 65536) in *. clearbody q r.
  assert (z = r + (q * 256) * 256) as -> by lia. rewrite Z.mod_add by lia. reflexivity.
Qed.

Lemma delta8_gen acc acc' l : acc mod 256 = acc' mod 256 ->
  delta8 acc l = map (fun s => s mod 256) (prefix_sums acc' l).
Proof.
  revert acc acc'. induction l as [|x t IH]; intros acc acc' H; cbn [delta8 prefix_sums map]; [reflexivity|].
  assert (((x + acc) mod 65536) mod 256 = (acc' + x) mod 256) as E.
  { rewrite mod_mod_256. rewrite (Z.add_comm x acc). rewrite Zplus_mod, H, <- Zplus_mod. reflexivity. }
  cbv zeta. rewrite E. f_equal. apply IH. exact E.
Qed.
Lemma delta8_refines l : delta8 0 l = map (fun s => s mod 256) (prefix_sums 0 l).
Proof. apply delta8_gen. reflexivity. Qed.

(* 16-bit: words little-endian *)
Fixpoint words_of (l : list Z) : list Z :=
  match l with lo :: hi :: t => (lo + 256 * hi) :: words_of t | _ => [] end.
Fixpoint bytes_of (w : list Z) : list Z :=
  match w with [] => [] | x :: t => (x mod 256) :: ((x / 256) mod 256) :: bytes_of t end.

Lemma delta16_gen : forall n l acc acc', length l = (2 * n)%nat -> acc mod 65536 = acc' mod 65536 ->
  delta16 acc l = bytes_of (map (fun s => s mod 65536) (prefix_sums acc' (words_of l))).
Proof.
  induction n as [|n IH]; intros l acc acc' Hl H.
  - destruct l; [reflexivity|discriminate].
  - destruct l as [|lo [|hi t]]; try (cbn in Hl; lia).
    cbn [delta16 words_of prefix_sums map bytes_of]. cbv zeta.
    assert (E : (lo + 256 * hi + acc) mod 65536 = (acc' + (lo + 256 * hi)) mod 65536).
    { rewrite (Z.add_comm _ acc). rewrite Zplus_mod, H, <- Zplus_mod. reflexivity. }
    rewrite E. set (a := (acc' + (lo + 256 * hi)) mod 65536).
    assert (Ha : 0 <= a < 65536) by (apply Z.mod_pos_bound; lia).
    f_equal. f_equal; [rewrite Z.mod_small; [reflexivity|lia]|].
    apply IH; [cbn in Hl; lia|]. unfold a. rewrite Z.mod_mod by lia. reflexivity.
Qed.
Lemma delta16_refines n l : length l = (2 * n)%nat ->
  delta16 0 l = bytes_of (map (fun s => s mod 65536) (prefix_sums 0 (words_of l))).
Proof. intros H. apply (delta16_gen n); auto. Qed.

(* ---------- element-wise passes ---------- *)
Lemma sign8_map l : sign8 l = map (fun x => (x + 128) mod 256) l.
Proof. induction l as [|x t IH]; cbn [sign8 map]; [reflexivity | rewrite IH; reflexivity]. Qed.

Lemma sign16_words n : forall l, length l = (2 * n)%nat -> Forall is_byte l ->
  words_of (sign16 l) = map (fun w => (w + 32768) mod 65536) (words_of l).
Proof.
  induction n as [|n IH]; intros l Hl Hb.
  - destruct l; [reflexivity|discriminate].
  - destruct l as [|lo [|hi t]]; try (cbn in Hl; lia).
    cbn [sign16 words_of map]. inversion Hb as [|? ? Hlo Hb']; subst. inversion Hb' as [|? ? Hhi Hb'']; subst.
    f_equal; [unfold is_byte in *; lia|]. apply IH; [cbn in Hl; lia|assumption].
Qed.

Definition bswap16 (w : Z) : Z := (w mod 256) * 256 + w / 256.
Lemma swap_pairs_words n : forall l, length l = (2 * n)%nat -> Forall is_byte l ->
  words_of (swap_pairs l) = map bswap16 (words_of l).
Proof.
  induction n as [|n IH]; intros l Hl Hb.
  - destruct l; [reflexivity|discriminate].
  - destruct l as [|lo [|hi t]]; try (cbn in Hl; lia).
    cbn [swap_pairs words_of map]. inversion Hb as [|? ? Hlo Hb']; subst. inversion Hb' as [|? ? Hhi Hb'']; subst.
    rewrite IH by (try assumption; cbn in Hl; lia). f_equal. unfold bswap16, is_byte in *. lia.
Qed.

Lemma swap_pairs_involutive : forall n l, length l = n -> swap_pairs (swap_pairs l) = l.
Proof.
  induction n as [n IH] using lt_wf_ind. intros l Hl.
  destruct l as [|a [|b t]]; try reflexivity. cbn [swap_pairs]. f_equal. f_equal.
  apply (IH (length t)); [cbn in Hl; lia|reflexivity].
Qed.

(* ---------- interleave ---------- *)
Lemma interleave8_nth : forall a b k d, length a = length b -> (k < length a)%nat ->
  nth (2 * k) (interleave8 a b) d = nth k a d /\ nth (2 * k + 1) (interleave8 a b) d = nth k b d.
Proof.
  induction a as [|x a IH]; intros b k d Hl Hk; [cbn in Hk; lia|].
  destruct b as [|y b]; [discriminate|]. destruct k as [|k].
  - cbn. auto.
  - cbn [interleave8]. replace (2 * S k)%nat with (S (S (2 * k))) by lia. replace (S (S (2 * k)) + 1)%nat with (S (S (2 * k + 1))) by lia.
    cbn [nth]. apply IH; [cbn in Hl; lia|cbn in Hk; lia].
Qed.
Lemma interleave8_length : forall a b, length a = length b -> length (interleave8 a b) = (2 * length a)%nat.
Proof. induction a as [|x a IH]; intros [|y b] H; try discriminate; cbn; [reflexivity|]. rewrite IH by (cbn in H; lia). lia. Qed.

(* ---------- block length ---------- *)
Lemma bset_length blk j v : length (bset blk j v) = length blk.
Proof. unfold bset. apply upd_length. Qed.
Lemma end_guard_length n : forall i bl fl blk, length (end_guard n i bl fl blk) = length blk.
Proof. induction n as [|n IH]; intros; cbn [end_guard]; [reflexivity|]. rewrite IH. apply bset_length. Qed.
Lemma start_guard_length n : forall i fl blk, length (start_guard n i fl blk) = length blk.
Proof. induction n as [|n IH]; intros; cbn [start_guard]; [reflexivity|]. rewrite IH. apply bset_length. Qed.
Lemma pad_to_length n l : length (pad_to n l) = n.
Proof. unfold pad_to. rewrite app_length, firstn_length, repeat_length. lia. Qed.

(* ---------- guard frames ---------- *)
(* the block seen as  pre(4) ++ body(bytelen) ++ guard(extralen) *)
Lemma bget_body pre body g j : length pre = 4%nat -> 0 <= j < zlen body ->
  bget (pre ++ body ++ g) j = nth (Z.to_nat j) body 0.
Proof.
  intros Hp Hj. unfold bget, zlen in *. rewrite app_nth2 by lia. rewrite app_nth1 by lia. f_equal. lia.
Qed.
Lemma bget_guard pre body g i : length pre = 4%nat -> 0 <= i ->
  bget (pre ++ body ++ g) (zlen body + i) = nth (Z.to_nat i) g 0.
Proof.
  intros Hp Hi. unfold bget, zlen in *. rewrite app_nth2 by lia. rewrite app_nth2 by lia. f_equal. lia.
Qed.
Lemma bget_pre pre body g i : length pre = 4%nat -> -4 <= i < 0 ->
  bget (pre ++ body ++ g) i = nth (Z.to_nat (i + 4)) pre 0.
Proof. intros Hp Hi. unfold bget. rewrite app_nth1 by lia. reflexivity. Qed.

Lemma upd_app_r {A} (a b : list A) n x : (length a <= n)%nat -> upd (a ++ b) n x = a ++ upd b (n - length a) x.
Proof.
  revert n. induction a as [|h a IH]; intros n H; cbn [app length] in *; [f_equal; lia|].
  destruct n as [|n]; [lia|]. cbn [upd]. f_equal. rewrite IH by lia. reflexivity.
Qed.
Lemma upd_app_l {A} (a b : list A) n x : (n < length a)%nat -> upd (a ++ b) n x = upd a n x ++ b.
Proof.
  revert n. induction a as [|h a IH]; intros n H; cbn [app length] in *; [lia|].
  destruct n as [|n]; cbn [upd app]; [reflexivity|]. f_equal. apply IH. lia.
Qed.
Lemma bset_guard pre body g i v : length pre = 4%nat -> 0 <= i ->
  bset (pre ++ body ++ g) (zlen body + i) v = pre ++ body ++ upd g (Z.to_nat i) v.
Proof.
  intros Hp Hi. unfold bset, zlen. rewrite upd_app_r by lia. f_equal. rewrite upd_app_r by lia. f_equal. f_equal. lia.
Qed.
Lemma bset_pre pre body g i v : length pre = 4%nat -> -4 <= i < 0 ->
  bset (pre ++ body ++ g) i v = upd pre (Z.to_nat (i + 4)) v ++ body ++ g.
Proof. intros Hp Hi. unfold bset. apply upd_app_l. lia. Qed.

(* what the end loop leaves: guard byte k is byte (k mod framelen) of the last frame *)
Definition last_frame (fl : Z) (body : list Z) : list Z := skipn (length body - Z.to_nat fl)%nat body.

Lemma end_guard_spec : forall n i pre body g fl,
  length pre = 4%nat -> 0 < fl -> fl <= zlen body -> 0 <= i -> Z.of_nat n + i = zlen g ->
  (forall k, 0 <= k < i -> nth (Z.to_nat k) g 0 = nth (Z.to_nat (k mod fl)) (last_frame fl body) 0) ->
  exists g', end_guard n i (zlen body) fl (pre ++ body ++ g) = pre ++ body ++ g' /\ (length g' = length g)%nat /\
             forall k, 0 <= k < zlen g -> nth (Z.to_nat k) g' 0 = nth (Z.to_nat (k mod fl)) (last_frame fl body) 0.
Proof.
  induction n as [|n IH]; intros i pre body g fl Hp Hfl Hb Hi Hn Hinv; cbn [end_guard].
  - exists g. split; [reflexivity|]. split; [reflexivity|]. intros k Hk. apply Hinv. lia.
  - (* value read: data[bytelen - fl + i] *)
    set (v := bget (pre ++ body ++ g) (zlen body - fl + i)).
    assert (Hv : v = nth (Z.to_nat (i mod fl)) (last_frame fl body) 0).
    { unfold v. destruct (Z_lt_le_dec i fl) as [Hlt|Hge].
      - rewrite bget_body by (try assumption; lia). rewrite Z.mod_small by lia.
        unfold last_frame. rewrite nth_skipn. f_equal. unfold zlen in *. lia.
      - replace (zlen body - fl + i) with (zlen body + (i - fl)) by lia.
        rewrite bget_guard by (try assumption; lia). rewrite Hinv by lia.
        f_equal. f_equal. replace i with ((i - fl) + 1 * fl) at 2 by lia. rewrite Z.mod_add by lia. reflexivity. }
    rewrite bset_guard by (try assumption; lia).
    destruct (IH (i + 1) pre body (upd g (Z.to_nat i) v) fl) as (g' & E & L & S); try assumption; try lia.
    + unfold zlen in *. rewrite upd_length. lia.
    + intros k Hk. destruct (Z.eq_dec k i) as [->|Hne].
      * rewrite nth_upd_same by (unfold zlen in *; lia). exact Hv.
      * rewrite nth_upd_other by lia. apply Hinv. lia.
    + exists g'. split; [exact E|]. split; [rewrite L; apply upd_length|].
      intros k Hk. apply S. unfold zlen in *. rewrite upd_length. exact Hk.
Qed.

(* what the start loop leaves: data[-k] = data[(-k) mod fl] for k = 1..4, i.e. the first frame repeated backwards *)
Definition start_guard' (fl : Z) (blk : list Z) : list Z :=
  let b1 := bset blk (-1) (bget blk (fl + -1)) in
  let b2 := bset b1 (-2) (bget b1 (fl + -2)) in
  let b3 := bset b2 (-3) (bget b2 (fl + -3)) in
  bset b3 (-4) (bget b3 (fl + -4)).
Lemma start_guard_unroll fl blk : start_guard 4 (-1) fl blk = start_guard' fl blk.
Proof. reflexivity. Qed.

Lemma bset_pre4 p0 p1 p2 p3 body g i v : -4 <= i < 0 ->
  bset ([p0;p1;p2;p3] ++ body ++ g) i v = upd [p0;p1;p2;p3] (Z.to_nat (i + 4)) v ++ body ++ g.
Proof. intros. apply bset_pre; auto. Qed.
Lemma bget_pre4 p0 p1 p2 p3 body g i : -4 <= i < 0 ->
  bget ([p0;p1;p2;p3] ++ body ++ g) i = nth (Z.to_nat (i + 4)) [p0;p1;p2;p3] 0.
Proof. intros. apply bget_pre; auto. Qed.
Lemma bget_body4 p0 p1 p2 p3 body g j : 0 <= j < zlen body ->
  bget ([p0;p1;p2;p3] ++ body ++ g) j = nth (Z.to_nat j) body 0.
Proof. intros. apply bget_body; auto. Qed.

Lemma start_guard_spec pre body g fl :
  length pre = 4%nat -> (fl = 1 \/ fl = 2 \/ fl = 4) -> fl <= zlen body ->
  exists pre', start_guard 4 (-1) fl (pre ++ body ++ g) = pre' ++ body ++ g /\ length pre' = 4%nat /\
    forall k, 1 <= k <= 4 -> nth (Z.to_nat (4 - k)) pre' 0 = nth (Z.to_nat ((- k) mod fl)) body 0.
Proof.
  intros Hp Hfl Hb. rewrite start_guard_unroll.
  destruct pre as [|p0 [|p1 [|p2 [|p3 [|? ?]]]]]; try discriminate.
  unfold start_guard'. cbv zeta.
  destruct Hfl as [->|[->| ->]].
  - change (1 + -1) with 0. change (1 + -2) with (-1). change (1 + -3) with (-2). change (1 + -4) with (-3).
    rewrite bget_body4 by lia. set (x := nth (Z.to_nat 0) body 0).
    rewrite bset_pre4 by lia. change (upd [p0;p1;p2;p3] (Z.to_nat (-1 + 4)) x) with [p0;p1;p2;x].
    rewrite bget_pre4 by lia. change (nth (Z.to_nat (-1 + 4)) [p0;p1;p2;x] 0) with x.
    rewrite bset_pre4 by lia. change (upd [p0;p1;p2;x] (Z.to_nat (-2 + 4)) x) with [p0;p1;x;x].
    rewrite bget_pre4 by lia. change (nth (Z.to_nat (-2 + 4)) [p0;p1;x;x] 0) with x.
    rewrite bset_pre4 by lia. change (upd [p0;p1;x;x] (Z.to_nat (-3 + 4)) x) with [p0;x;x;x].
    rewrite bget_pre4 by lia. change (nth (Z.to_nat (-3 + 4)) [p0;x;x;x] 0) with x.
    rewrite bset_pre4 by lia. change (upd [p0;x;x;x] (Z.to_nat (-4 + 4)) x) with [x;x;x;x].
    exists [x;x;x;x]. split; [reflexivity|]. split; [reflexivity|].
    intros k Hk. rewrite Z.mod_1_r.
    assert (k = 1 \/ k = 2 \/ k = 3 \/ k = 4) as [->|[->|[->| ->]]] by lia; reflexivity.
  - change (2 + -1) with 1. change (2 + -2) with 0. change (2 + -3) with (-1). change (2 + -4) with (-2).
    rewrite bget_body4 by lia. set (x1 := nth (Z.to_nat 1) body 0).
    rewrite bset_pre4 by lia. change (upd [p0;p1;p2;p3] (Z.to_nat (-1 + 4)) x1) with [p0;p1;p2;x1].
    rewrite bget_body4 by lia. set (x0 := nth (Z.to_nat 0) body 0).
    rewrite bset_pre4 by lia. change (upd [p0;p1;p2;x1] (Z.to_nat (-2 + 4)) x0) with [p0;p1;x0;x1].
    rewrite bget_pre4 by lia. change (nth (Z.to_nat (-1 + 4)) [p0;p1;x0;x1] 0) with x1.
    rewrite bset_pre4 by lia. change (upd [p0;p1;x0;x1] (Z.to_nat (-3 + 4)) x1) with [p0;x1;x0;x1].
    rewrite bget_pre4 by lia. change (nth (Z.to_nat (-2 + 4)) [p0;x1;x0;x1] 0) with x0.
    rewrite bset_pre4 by lia. change (upd [p0;x1;x0;x1] (Z.to_nat (-4 + 4)) x0) with [x0;x1;x0;x1].
    exists [x0;x1;x0;x1]. split; [reflexivity|]. split; [reflexivity|].
    intros k Hk. assert (k = 1 \/ k = 2 \/ k = 3 \/ k = 4) as [->|[->|[->| ->]]] by lia; reflexivity.
  - change (4 + -1) with 3. change (4 + -2) with 2. change (4 + -3) with 1. change (4 + -4) with 0.
    rewrite bget_body4 by lia. set (x3 := nth (Z.to_nat 3) body 0).
    rewrite bset_pre4 by lia. change (upd [p0;p1;p2;p3] (Z.to_nat (-1 + 4)) x3) with [p0;p1;p2;x3].
    rewrite bget_body4 by lia. set (x2 := nth (Z.to_nat 2) body 0).
    rewrite bset_pre4 by lia. change (upd [p0;p1;p2;x3] (Z.to_nat (-2 + 4)) x2) with [p0;p1;x2;x3].
    rewrite bget_body4 by lia. set (x1 := nth (Z.to_nat 1) body 0).
    rewrite bset_pre4 by lia. change (upd [p0;p1;x2;x3] (Z.to_nat (-3 + 4)) x1) with [p0;x1;x2;x3].
    rewrite bget_body4 by lia. set (x0 := nth (Z.to_nat 0) body 0).
    rewrite bset_pre4 by lia. change (upd [p0;x1;x2;x3] (Z.to_nat (-4 + 4)) x0) with [x0;x1;x2;x3].
    exists [x0;x1;x2;x3]. split; [reflexivity|]. split; [reflexivity|].
    intros k Hk. assert (k = 1 \/ k = 2 \/ k = 3 \/ k = 4) as [->|[->|[->| ->]]] by lia; reflexivity.
Qed.

(* ---------- inversion of load_sample ---------- *)
Lemma has_setf_disjoint f m b : Z.land m b = 0 -> has (setf f m) b = has f b.
Proof. intros H. unfold has, setf. rewrite Z.land_lor_distr_l, H, Z.lor_0_r. reflexivity. Qed.

Lemma framelen_fix s : framelen_of (s_flg (fix_loops s)) = framelen_of (s_flg s).
Proof.
  unfold framelen_of. destruct (Z_le_gt_dec 0 (s_len s)) as [H|H].
  - destruct (fix_loops_inv s H) as (_ & _ & _ & _ & _ & _ & _ & E1 & E2). rewrite E1, E2. reflexivity.
  - (* the preservation of the two layout bits does not depend on the length *)
    unfold fix_loops. cbv zeta.
    set (lps := if s_lps s <? 0 then 0 else s_lps s). set (lpe := if s_len s <? s_lpe s then s_len s else s_lpe s).
    destruct ((s_len s <=? lps) || (lpe <=? lps)).
    + set (f1 := clr (s_flg s) (Z.lor C_XMP_SAMPLE_LOOP C_XMP_SAMPLE_LOOP_BIDIR)).
      assert (A : has f1 C_XMP_SAMPLE_16BIT = has (s_flg s) C_XMP_SAMPLE_16BIT) by (apply has_clr_disjoint; reflexivity).
      assert (B : has f1 C_XMP_SAMPLE_STEREO = has (s_flg s) C_XMP_SAMPLE_STEREO) by (apply has_clr_disjoint; reflexivity).
      destruct (has f1 C_XMP_SAMPLE_LOOP_BIDIR && negb (has f1 C_XMP_SAMPLE_LOOP));
      [set (f2 := clr f1 C_XMP_SAMPLE_LOOP_BIDIR)|set (f2 := f1)];
      (assert (A2 : has f2 C_XMP_SAMPLE_16BIT = has (s_flg s) C_XMP_SAMPLE_16BIT) by (unfold f2; rewrite ?has_clr_disjoint by reflexivity; exact A));
      (assert (B2 : has f2 C_XMP_SAMPLE_STEREO = has (s_flg s) C_XMP_SAMPLE_STEREO) by (unfold f2; rewrite ?has_clr_disjoint by reflexivity; exact B));
      destruct (has f2 C_XMP_SAMPLE_SLOOP_BIDIR && negb (has f2 C_XMP_SAMPLE_SLOOP)); cbn [s_flg];
      rewrite ?has_clr_disjoint by reflexivity; rewrite A2, B2; reflexivity.
    + set (f1 := s_flg s).
      destruct (has f1 C_XMP_SAMPLE_LOOP_BIDIR && negb (has f1 C_XMP_SAMPLE_LOOP));
      [set (f2 := clr f1 C_XMP_SAMPLE_LOOP_BIDIR)|set (f2 := f1)];
      (assert (A2 : has f2 C_XMP_SAMPLE_16BIT = has (s_flg s) C_XMP_SAMPLE_16BIT) by (unfold f2; rewrite ?has_clr_disjoint by reflexivity; reflexivity));
      (assert (B2 : has f2 C_XMP_SAMPLE_STEREO = has (s_flg s) C_XMP_SAMPLE_STEREO) by (unfold f2; rewrite ?has_clr_disjoint by reflexivity; reflexivity));
      destruct (has f2 C_XMP_SAMPLE_SLOOP_BIDIR && negb (has f2 C_XMP_SAMPLE_SLOOP)); cbn [s_flg];
      rewrite ?has_clr_disjoint by reflexivity; rewrite A2, B2; reflexivity.
Qed.

Record loaded_facts (skip : bool) (flags : Z) (s : smp) (file : list Z) (pos : Z) (nbuf : list Z)
                    (s' : smp) (blk : list Z) (pos' : Z) : Prop := {
  lf_len_pos : 0 < s_len s;
  lf_len_max : s_len s <= C_MAX_SAMPLE_SIZE;
  lf_len' : 0 <= s_len s' <= s_len s;
  lf_loops : 0 <= s_lps s' /\ s_lps s' <= s_lpe s' /\ s_lpe s' <= s_len s' /\
             (has (s_flg s') C_XMP_SAMPLE_LOOP = true -> s_lps s' < s_lpe s') /\
             (has (s_flg s') C_XMP_SAMPLE_LOOP_BIDIR = true -> has (s_flg s') C_XMP_SAMPLE_LOOP = true) /\
             (has (s_flg s') C_XMP_SAMPLE_SLOOP_BIDIR = true -> has (s_flg s') C_XMP_SAMPLE_SLOOP = true);
  lf_layout : framelen_of (s_flg s') = framelen_of (s_flg s);
  lf_trunc : has flags C_SAMPLE_FLAG_NOLOAD = false ->
             pos < zlen file /\
             (if has flags C_SAMPLE_FLAG_ADPCM
              then 16 + (s_len s' * framelen_of (s_flg s) + 1) / 2 <= zlen file - pos
              else s_len s' * framelen_of (s_flg s) <= zlen file - pos) /\
             (s_len s' < s_len s ->
              if has flags C_SAMPLE_FLAG_ADPCM
              then zlen file - pos < 16 + ((s_len s' + 1) * framelen_of (s_flg s) + 1) / 2 + 1
              else zlen file - pos < (s_len s' + 1) * framelen_of (s_flg s));
  lf_noload : has flags C_SAMPLE_FLAG_NOLOAD = true -> s_len s' = s_len s /\ pos' = pos;
  lf_block : exists pre body g,
      blk = pre ++ body ++ g /\ length pre = 4%nat /\
      zlen body = s_len s' * framelen_of (s_flg s) /\ zlen g = 4 * framelen_of (s_flg s) /\
      (0 < s_len s' ->
        (forall k, 0 <= k < zlen g -> nth (Z.to_nat k) g 0 = nth (Z.to_nat (k mod framelen_of (s_flg s))) (last_frame (framelen_of (s_flg s)) body) 0) /\
        (forall k, 1 <= k <= 4 -> nth (Z.to_nat (4 - k)) pre 0 = nth (Z.to_nat ((- k) mod framelen_of (s_flg s))) body 0));
}.

Lemma load_sample_loaded skip flags s file pos nbuf s' blk pos' :
  load_sample skip flags s file pos nbuf = Loaded s' blk pos' ->
  loaded_facts skip flags s file pos nbuf s' blk pos'.
Proof.
  unfold load_sample.
  destruct (has flags C_SAMPLE_FLAG_ADLIB); [discriminate|].
  destruct (Z.leb_spec (s_len s) 0) as [|Hlen]; [discriminate|].
  destruct (Z.ltb_spec C_MAX_SAMPLE_SIZE (s_len s)) as [|Hmax]; cbn [orb]; [discriminate|].
  destruct skip; [discriminate|].
  cbv zeta.
  set (fl := framelen_of (s_flg s)).
  assert (Hfl : fl = 1 \/ fl = 2 \/ fl = 4) by apply framelen_cases.
  destruct (has flags C_SAMPLE_FLAG_NOLOAD) eqn:Enl.
  - (* NOLOAD *)
    set (s1 := fix_loops {| s_len := s_len s; s_lps := s_lps s; s_lpe := s_lpe s; s_flg := s_flg s |}).
    intros E. injection E as Es' <- <-.
    assert (P1 : s_len s' = s_len s1) by (rewrite <- Es'; reflexivity).
    assert (P2 : s_lps s' = s_lps s1) by (rewrite <- Es'; reflexivity).
    assert (P3 : s_lpe s' = s_lpe s1) by (rewrite <- Es'; reflexivity).
    assert (P4 : s_flg s' = (if has flags C_SAMPLE_FLAG_FULLREP && (s_lps s1 =? 0) && (s_lpe s1 <? s_len s1) then setf (s_flg s1) C_XMP_SAMPLE_LOOP_FULL else s_flg s1)) by (rewrite <- Es'; reflexivity).
    clear Es'.
    destruct (fix_loops_inv {| s_len := s_len s; s_lps := s_lps s; s_lpe := s_lpe s; s_flg := s_flg s |}) as (L0 & L1 & L2 & L3 & L4 & L5 & L6 & _); [cbn; lia|].
    fold s1 in L0, L1, L2, L3, L4, L5, L6. cbn [s_len] in L0, L3.
    pose proof (framelen_fix {| s_len := s_len s; s_lps := s_lps s; s_lpe := s_lpe s; s_flg := s_flg s |}) as FF. fold s1 in FF. cbn [s_flg] in FF.
    set (flg2 := if has flags C_SAMPLE_FLAG_FULLREP && (s_lps s1 =? 0) && (s_lpe s1 <? s_len s1) then setf (s_flg s1) C_XMP_SAMPLE_LOOP_FULL else s_flg s1) in *.
    assert (HF : forall b, Z.land C_XMP_SAMPLE_LOOP_FULL b = 0 -> has flg2 b = has (s_flg s1) b).
    { intros b Hb. unfold flg2. destruct (_ && _ && _); [apply has_setf_disjoint; exact Hb|reflexivity]. }
    set (body := pad_to (Z.to_nat (s_len s * fl)) (convert flags (s_flg s1) (s_len s1) (pad_to (Z.to_nat (s_len s * fl)) nbuf))).
    assert (Hbody : zlen body = s_len s * fl) by (unfold zlen, body; rewrite pad_to_length; lia).
    set (g0 := repeat 0 (Z.to_nat (4 * fl))).
    destruct (end_guard_spec (Z.to_nat (4 * fl)) 0 [0;0;0;0] body g0 fl) as (g' & Eg & Lg & Sg);
      try reflexivity; try lia.
    { unfold zlen, g0. rewrite repeat_length. lia. }
    destruct (start_guard_spec [0;0;0;0] body g' fl) as (pre' & Es & Lp & Sp); try reflexivity; try assumption; try lia.
    constructor; rewrite ?P1, ?P2, ?P3, ?P4.
    + lia.
    + lia.
    + lia.
    + rewrite L0. repeat split; try lia.
      * rewrite ?(HF C_XMP_SAMPLE_LOOP eq_refl), ?(HF C_XMP_SAMPLE_LOOP_BIDIR eq_refl), ?(HF C_XMP_SAMPLE_SLOOP eq_refl), ?(HF C_XMP_SAMPLE_SLOOP_BIDIR eq_refl), ?(HF C_XMP_SAMPLE_16BIT eq_refl), ?(HF C_XMP_SAMPLE_STEREO eq_refl). exact L4.
      * rewrite ?(HF C_XMP_SAMPLE_LOOP eq_refl), ?(HF C_XMP_SAMPLE_LOOP_BIDIR eq_refl), ?(HF C_XMP_SAMPLE_SLOOP eq_refl), ?(HF C_XMP_SAMPLE_SLOOP_BIDIR eq_refl), ?(HF C_XMP_SAMPLE_16BIT eq_refl), ?(HF C_XMP_SAMPLE_STEREO eq_refl). exact L5.
      * rewrite ?(HF C_XMP_SAMPLE_LOOP eq_refl), ?(HF C_XMP_SAMPLE_LOOP_BIDIR eq_refl), ?(HF C_XMP_SAMPLE_SLOOP eq_refl), ?(HF C_XMP_SAMPLE_SLOOP_BIDIR eq_refl), ?(HF C_XMP_SAMPLE_16BIT eq_refl), ?(HF C_XMP_SAMPLE_STEREO eq_refl). exact L6.
    + unfold framelen_of. rewrite ?(HF C_XMP_SAMPLE_LOOP eq_refl), ?(HF C_XMP_SAMPLE_LOOP_BIDIR eq_refl), ?(HF C_XMP_SAMPLE_SLOOP eq_refl), ?(HF C_XMP_SAMPLE_SLOOP_BIDIR eq_refl), ?(HF C_XMP_SAMPLE_16BIT eq_refl), ?(HF C_XMP_SAMPLE_STEREO eq_refl). exact FF.
    + intros Hn; rewrite Enl in Hn; discriminate Hn.
    + intros _. split; [exact L0|reflexivity].
    + exists pre', body, g'. rewrite L0. fold fl.
      split.
      { rewrite <- Es. rewrite <- Eg. rewrite <- Hbody. reflexivity. }
      split; [exact Lp|]. split; [exact Hbody|].
      split; [unfold zlen in *; rewrite Lg; unfold g0; rewrite repeat_length; lia|].
      intros _. split.
      * intros k Hk. apply Sg. unfold zlen in *. rewrite <- Lg. exact Hk.
      * exact Sp.
  - (* from the stream *)
    destruct (Z.leb_spec (zlen file) pos) as [|Hpos]; [discriminate|].
    destruct (truncate (has flags C_SAMPLE_FLAG_ADPCM) (s_flg s) (s_len s) (s_len s * fl) (zlen file - pos)) as [[bytelen len]|] eqn:Etr; [|discriminate].
    assert (Hrem : 0 < zlen file - pos) by lia.
    destruct (truncate_spec _ _ _ _ _ _ _ Hlen eq_refl Hrem Etr) as (Hbl & Hl & Hfit & Hmaxi). fold fl in Hbl, Hfit, Hmaxi.
    set (s1 := fix_loops {| s_len := len; s_lps := s_lps s; s_lpe := s_lpe s; s_flg := s_flg s |}).
    destruct (fix_loops_inv {| s_len := len; s_lps := s_lps s; s_lpe := s_lpe s; s_flg := s_flg s |}) as (L0 & L1 & L2 & L3 & L4 & L5 & L6 & _); [cbn; lia|].
    fold s1 in L0, L1, L2, L3, L4, L5, L6. cbn [s_len] in L0, L3.
    pose proof (framelen_fix {| s_len := len; s_lps := s_lps s; s_lpe := s_lpe s; s_flg := s_flg s |}) as FF. fold s1 in FF. cbn [s_flg] in FF.
    match goal with |- match ?filled with Some _ => _ | None => _ end = _ -> _ => destruct filled as [[dest p']|] eqn:Efill end; [|discriminate].
    set (flg2 := if has flags C_SAMPLE_FLAG_FULLREP && (s_lps s1 =? 0) && (s_lpe s1 <? s_len s1) then setf (s_flg s1) C_XMP_SAMPLE_LOOP_FULL else s_flg s1).
    assert (HF : forall b, Z.land C_XMP_SAMPLE_LOOP_FULL b = 0 -> has flg2 b = has (s_flg s1) b).
    { intros b Hb. unfold flg2. destruct (_ && _ && _); [apply has_setf_disjoint; exact Hb|reflexivity]. }
    intros E. injection E as Es' <- <-.
    assert (P1 : s_len s' = s_len s1) by (rewrite <- Es'; reflexivity).
    assert (P2 : s_lps s' = s_lps s1) by (rewrite <- Es'; reflexivity).
    assert (P3 : s_lpe s' = s_lpe s1) by (rewrite <- Es'; reflexivity).
    assert (P4 : s_flg s' = flg2) by (rewrite <- Es'; reflexivity).
    clear Es'.
    set (body := pad_to (Z.to_nat bytelen) (convert flags (s_flg s1) (s_len s1) dest)).
    assert (Hbody : zlen body = bytelen) by (unfold zlen, body; rewrite pad_to_length; lia).
    set (g0 := repeat 0 (Z.to_nat (4 * fl))).
    constructor; rewrite ?P1, ?P2, ?P3, ?P4.
    + lia.
    + lia.
    + lia.
    + rewrite L0. repeat split; try lia.
      * rewrite ?(HF C_XMP_SAMPLE_LOOP eq_refl), ?(HF C_XMP_SAMPLE_LOOP_BIDIR eq_refl), ?(HF C_XMP_SAMPLE_SLOOP eq_refl), ?(HF C_XMP_SAMPLE_SLOOP_BIDIR eq_refl), ?(HF C_XMP_SAMPLE_16BIT eq_refl), ?(HF C_XMP_SAMPLE_STEREO eq_refl). exact L4.
      * rewrite ?(HF C_XMP_SAMPLE_LOOP eq_refl), ?(HF C_XMP_SAMPLE_LOOP_BIDIR eq_refl), ?(HF C_XMP_SAMPLE_SLOOP eq_refl), ?(HF C_XMP_SAMPLE_SLOOP_BIDIR eq_refl), ?(HF C_XMP_SAMPLE_16BIT eq_refl), ?(HF C_XMP_SAMPLE_STEREO eq_refl). exact L5.
      * rewrite ?(HF C_XMP_SAMPLE_LOOP eq_refl), ?(HF C_XMP_SAMPLE_LOOP_BIDIR eq_refl), ?(HF C_XMP_SAMPLE_SLOOP eq_refl), ?(HF C_XMP_SAMPLE_SLOOP_BIDIR eq_refl), ?(HF C_XMP_SAMPLE_16BIT eq_refl), ?(HF C_XMP_SAMPLE_STEREO eq_refl). exact L6.
    + unfold framelen_of. rewrite ?(HF C_XMP_SAMPLE_LOOP eq_refl), ?(HF C_XMP_SAMPLE_LOOP_BIDIR eq_refl), ?(HF C_XMP_SAMPLE_SLOOP eq_refl), ?(HF C_XMP_SAMPLE_SLOOP_BIDIR eq_refl), ?(HF C_XMP_SAMPLE_16BIT eq_refl), ?(HF C_XMP_SAMPLE_STEREO eq_refl). exact FF.
    + intros _. rewrite L0. fold fl. split; [lia|]. split.
      * destruct (has flags C_SAMPLE_FLAG_ADPCM); rewrite <- Hbl; exact Hfit.
      * exact Hmaxi.
    + intros Hn; rewrite Enl in Hn; discriminate Hn.
    + rewrite L0. fold fl.
      destruct (Z_le_gt_dec len 0) as [Hz|Hp].
      * (* truncated to nothing: only the shape is claimed *)
        exists (firstn 4 (start_guard 4 (-1) fl (end_guard (Z.to_nat (4 * fl)) 0 bytelen fl ([0; 0; 0; 0] ++ body ++ g0)))).
        exists body.
        exists (skipn (4 + length body) (start_guard 4 (-1) fl (end_guard (Z.to_nat (4 * fl)) 0 bytelen fl ([0; 0; 0; 0] ++ body ++ g0)))).
        assert (Hb0 : bytelen = 0) by lia.
        assert (body = []) as Eb by (apply length_zero_iff_nil; unfold zlen in Hbody; lia).
        rewrite Eb.
        set (X := start_guard 4 (-1) fl (end_guard (Z.to_nat (4 * fl)) 0 bytelen fl ([0; 0; 0; 0] ++ [] ++ g0))).
        assert (LX : length X = (4 + Z.to_nat (4 * fl))%nat).
        { unfold X. rewrite start_guard_length, end_guard_length. rewrite !app_length. unfold g0. rewrite repeat_length. reflexivity. }
        split; [symmetry; exact (firstn_skipn 4 X)|]. split; [rewrite firstn_length; lia|].
        split; [change (zlen (@nil Z)) with 0; replace len with 0 by lia; lia|].
        split; [unfold zlen; rewrite skipn_length; change (4 + length (@nil Z))%nat with 4%nat; lia|]. intros; lia.
      * destruct (end_guard_spec (Z.to_nat (4 * fl)) 0 [0;0;0;0] body g0 fl) as (g' & Eg & Lg & Sg);
          try reflexivity; try lia.
        { unfold zlen, g0. rewrite repeat_length. lia. }
        destruct (start_guard_spec [0;0;0;0] body g' fl) as (pre' & Es & Lp & Sp); try reflexivity; try assumption; try lia.
        exists pre', body, g'.
        split.
        { rewrite <- Es. rewrite <- Eg. rewrite Hbody. reflexivity. }
        split; [exact Lp|]. split; [lia|].
        split; [unfold zlen in *; rewrite Lg; unfold g0; rewrite repeat_length; lia|].
        intros _. split.
        -- intros k Hk. apply Sg. unfold zlen in *. rewrite <- Lg. exact Hk.
        -- exact Sp.
Qed.

(* ---------- the conversion pipeline against a reference decoder ---------- *)
(* reference decoder for 8-bit mono samples: per-element maps and prefix sums, in the declared order *)
Definition spec8 (flags : Z) (stored : list Z) : list Z :=
  let d := stored in
  let d := if has flags C_SAMPLE_FLAG_7BIT then map (fun b => (b * 2) mod 256) d else d in
  let d := if has flags C_SAMPLE_FLAG_DIFF || has flags C_SAMPLE_FLAG_8BDIFF then map (fun s => s mod 256) (prefix_sums 0 d) else d in
  let d := if has flags C_SAMPLE_FLAG_UNS then map (fun x => (x + 128) mod 256) d else d in
  if has flags C_SAMPLE_FLAG_VIDC then map vidc1 d else d.

Lemma conv_7bit_all n l : n = length l -> conv_7bit n l = map (fun b => (b * 2) mod 256) l.
Proof. intros ->. unfold conv_7bit. rewrite firstn_all, skipn_all, app_nil_r. reflexivity. Qed.
Lemma conv_vidc_all n l : n = length l -> conv_vidc n l = map vidc1 l.
Proof. intros ->. unfold conv_vidc. rewrite firstn_all, skipn_all, app_nil_r. reflexivity. Qed.
Lemma delta8_length acc l : length (delta8 acc l) = length l.
Proof. revert acc; induction l as [|x t IH]; intros acc; cbn [delta8 length]; [reflexivity|]. cbv zeta. cbn [length]. rewrite IH. reflexivity. Qed.
Lemma sign8_length l : length (sign8 l) = length l.
Proof. rewrite sign8_map. apply map_length. Qed.

Lemma convert_8bit_mono flags flg len dest :
  has flg C_XMP_SAMPLE_16BIT = false -> has flg C_XMP_SAMPLE_STEREO = false ->
  0 <= len -> length dest = Z.to_nat len ->
  convert flags flg len dest = spec8 flags dest.
Proof.
  intros H16 Hst Hlen Hd. unfold convert, spec8. rewrite H16, Hst. cbv zeta. cbn [andb].
  rewrite Nat.mul_1_r.
  (* 7bit *)
  set (d1 := if has flags C_SAMPLE_FLAG_7BIT then conv_7bit (Z.to_nat len) dest else dest).
  assert (E1 : d1 = if has flags C_SAMPLE_FLAG_7BIT then map (fun b => (b * 2) mod 256) dest else dest).
  { unfold d1. destruct (has flags C_SAMPLE_FLAG_7BIT); [apply conv_7bit_all; lia|reflexivity]. }
  assert (L1 : length d1 = Z.to_nat len) by (rewrite E1; destruct (has flags C_SAMPLE_FLAG_7BIT); rewrite ?map_length; exact Hd).
  rewrite <- E1. clearbody d1.
  (* delta *)
  set (d2 := if has flags C_SAMPLE_FLAG_DIFF then conv_delta false (Z.to_nat len) 1 d1
             else if has flags C_SAMPLE_FLAG_8BDIFF then conv_delta false (Z.to_nat len) 1 d1 else d1).
  assert (E2 : d2 = if has flags C_SAMPLE_FLAG_DIFF || has flags C_SAMPLE_FLAG_8BDIFF then map (fun s => s mod 256) (prefix_sums 0 d1) else d1).
  { assert (CD : conv_delta false (Z.to_nat len) 1 d1 = map (fun s => s mod 256) (prefix_sums 0 d1)).
    { unfold conv_delta. rewrite Nat.mul_1_r. rewrite <- L1. rewrite firstn_all, skipn_all, app_nil_r. apply delta8_refines. }
    unfold d2. destruct (has flags C_SAMPLE_FLAG_DIFF); cbn [orb]; [exact CD|]. destruct (has flags C_SAMPLE_FLAG_8BDIFF); [exact CD|reflexivity]. }
  assert (L2 : length d2 = Z.to_nat len).
  { unfold d2, conv_delta. rewrite Nat.mul_1_r. rewrite <- L1.
    destruct (has flags C_SAMPLE_FLAG_DIFF); [|destruct (has flags C_SAMPLE_FLAG_8BDIFF)];
      rewrite ?firstn_all, ?skipn_all, ?app_nil_r, ?delta8_length; reflexivity. }
  fold d2. rewrite <- E2. clearbody d2.
  (* sign *)
  set (d3 := if has flags C_SAMPLE_FLAG_UNS then sign8 d2 else d2).
  assert (E3 : d3 = if has flags C_SAMPLE_FLAG_UNS then map (fun x => (x + 128) mod 256) d2 else d2)
    by (unfold d3; destruct (has flags C_SAMPLE_FLAG_UNS); [apply sign8_map|reflexivity]).
  assert (L3 : length d3 = Z.to_nat len) by (unfold d3; destruct (has flags C_SAMPLE_FLAG_UNS); rewrite ?sign8_length; exact L2).
  rewrite <- E3. clearbody d3.
  destruct (has flags C_SAMPLE_FLAG_VIDC); [apply conv_vidc_all; lia|reflexivity].
Qed.

(* planar stereo 8-bit: after the per-channel passes the two halves are interleaved frame by frame *)
Lemma conv_interleave8_nth frames l k d : length l = (2 * frames)%nat -> (k < frames)%nat ->
  nth (2 * k) (conv_interleave false frames l) d = nth k l d /\
  nth (2 * k + 1) (conv_interleave false frames l) d = nth (frames + k) l d.
Proof.
  intros Hl Hk. unfold conv_interleave.
  assert (La : length (firstn frames l) = frames) by (rewrite firstn_length; lia).
  assert (Lb : length (firstn frames (skipn frames l)) = frames) by (rewrite firstn_length, skipn_length; lia).
  destruct (interleave8_nth (firstn frames l) (firstn frames (skipn frames l)) k d) as [A B]; try lia.
  rewrite A, B. rewrite !nth_firstn by lia. rewrite nth_skipn. auto.
Qed.
