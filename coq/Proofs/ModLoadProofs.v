(* C03: the Protracker loader model (Model/ModLoad.v) establishes the loader post-condition of the gate theorem
   (Model/Gate.v, Proofs/GateProofs.v) for every byte string it accepts. *)
From Coq Require Import ZArith List Lia Bool.
Import ListNotations.
From LX Require Import Base.ListAux Generated.Consts Model.ModCodec Model.SampleLoad Proofs.SampleLoadProofs Model.ModuleWf Model.Gate Proofs.GateProofs Model.ModLoad.
Local Open Scope Z_scope.
Ltac Zify.zify_post_hook ::= Z.div_mod_to_equations.

(* ---------- reading primitives ---------- *)
Lemma take_spec n l a r : take n l = Some (a, r) -> length a = n /\ l = a ++ r.
Proof.
  unfold take. destruct (Nat.ltb_spec (length l) n) as [Hlt|Hge]; [discriminate|].
  intros E. injection E as <- <-. split; [apply firstn_length_le; exact Hge|symmetry; apply firstn_skipn].
Qed.

Lemma take_Forall (P : Z -> Prop) n l a r : take n l = Some (a, r) -> Forall P l -> Forall P a /\ Forall P r.
Proof.
  intros E H. destruct (take_spec _ _ _ _ E) as [_ ->]. apply Forall_app in H. exact H.
Qed.

Lemma dec_inst_rest (P : Z -> Prop) l i r : dec_inst l = Some (i, r) -> Forall P l -> Forall P r.
Proof.
  unfold dec_inst. intros E H.
  destruct (take 22 l) as [[nm l1]|] eqn:E1; [|discriminate].
  destruct (take 2 l1) as [[ln l2]|] eqn:E2; [|discriminate].
  destruct (take 2 l2) as [[fv l3]|] eqn:E3; [|discriminate].
  destruct (take 2 l3) as [[ls l4]|] eqn:E4; [|discriminate].
  destruct (take 2 l4) as [[ll l5]|] eqn:E5; [|discriminate].
  injection E as _ <-.
  apply (take_Forall P _ _ _ _ E1) in H as [_ H].
  apply (take_Forall P _ _ _ _ E2) in H as [_ H].
  apply (take_Forall P _ _ _ _ E3) in H as [_ H].
  apply (take_Forall P _ _ _ _ E4) in H as [_ H].
  apply (take_Forall P _ _ _ _ E5) in H as [_ H].
  exact H.
Qed.

Lemma dec_many_inst_spec (P : Z -> Prop) : forall n l ins r,
  dec_many dec_inst n l = Some (ins, r) -> Forall P l -> length ins = n /\ Forall P r.
Proof.
  induction n as [|n IH]; intros l ins r E H; cbn [dec_many] in E.
  - injection E as <- <-. split; [reflexivity|exact H].
  - destruct (dec_inst l) as [[x r1]|] eqn:E1; [|discriminate].
    destruct (dec_many dec_inst n r1) as [[xs r2]|] eqn:E2; [|discriminate].
    injection E as <- <-.
    destruct (IH _ _ _ E2 (dec_inst_rest P _ _ _ E1 H)) as [L F].
    split; [cbn [length]; rewrite L; reflexivity|exact F].
Qed.

(* ---------- number of patterns ---------- *)
Lemma max_order_range : forall l acc, 0 <= acc <= 127 -> 0 <= max_order l acc <= 127.
Proof.
  induction l as [|o t IH]; intros acc H; cbn [max_order]; [exact H|].
  destruct (Z.ltb_spec 127 o) as [Hhi|Hlo]; [exact H|]. apply IH. lia.
Qed.

(* ---------- the two flag tests are the same function ---------- *)
Lemma has_agree f m : ModuleWf.has f m = SampleLoad.has f m.
Proof. reflexivity. Qed.

(* ---------- samples ---------- *)
Definition smp_postb (s : sample) : bool :=
  sm_name_ok s &&
  (if sm_data s then (0 <=? sm_lps s) && (sm_lps s <=? sm_lpe s) && (sm_lpe s <=? sm_len s) &&
                     (if ModuleWf.has (sm_flg s) C_XMP_SAMPLE_LOOP then sm_lps s <? sm_lpe s else true) else true).

Lemma smp_postb_nodata s : smp_postb (as_sample s false) = true.
Proof. reflexivity. Qed.

Lemma smp_postb_loaded skip flags s file pos nbuf s' blk pos' :
  load_sample skip flags s file pos nbuf = Loaded s' blk pos' -> smp_postb (as_sample s' true) = true.
Proof.
  intros E. destruct (load_sample_loaded _ _ _ _ _ _ _ _ _ E) as [_ _ _ (A & B & C & D & _) _ _ _ _].
  unfold smp_postb, as_sample. cbn [sm_name_ok sm_data sm_lps sm_lpe sm_len sm_flg andb].
  rewrite has_agree.
  apply andb_true_intro; split; [apply andb_true_intro; split; [apply andb_true_intro; split|]|]; try (apply Z.leb_le; lia).
  destruct (SampleLoad.has (s_flg s') C_XMP_SAMPLE_LOOP); [|reflexivity].
  apply Z.ltb_lt. apply D. reflexivity.
Qed.

Lemma load_smps_post ptk pts : forall ins file pos r,
  load_smps ptk pts ins file pos = Some r -> length r = length ins /\ forallb smp_postb r = true.
Proof.
  induction ins as [|i t IH]; intros file pos r E; cbn [load_smps] in E.
  - injection E as <-. split; reflexivity.
  - set (s0 := mod_smp0 i) in E.
    destruct (SampleLoad.s_len s0 =? 0).
    { destruct (load_smps ptk pts t file pos) as [r1|] eqn:E1; [|discriminate]. injection E as <-.
      destruct (IH _ _ _ E1) as [L F]. split; [cbn [length]; rewrite L; reflexivity|].
      cbn [forallb]. rewrite smp_postb_nodata, F. reflexivity. }
    destruct pts.
    { destruct (load_smps ptk true t file pos) as [r1|] eqn:E1; [|discriminate]. injection E as <-.
      destruct (IH _ _ _ E1) as [L F]. split; [cbn [length]; rewrite L; reflexivity|].
      cbn [forallb]. rewrite smp_postb_nodata, F. reflexivity. }
    match type of E with match ?ls with _ => _ end = _ => destruct ls as [s' p'|s' blk p'|] eqn:EL end; [| |discriminate].
    + destruct (load_smps ptk false t file p') as [r1|] eqn:E1; [|discriminate]. injection E as <-.
      destruct (IH _ _ _ E1) as [L F]. split; [cbn [length]; rewrite L; reflexivity|].
      cbn [forallb]. rewrite smp_postb_nodata, F. reflexivity.
    + destruct (load_smps ptk false t file p') as [r1|] eqn:E1; [|discriminate]. injection E as <-.
      destruct (IH _ _ _ E1) as [L F]. split; [cbn [length]; rewrite L; reflexivity|].
      cbn [forallb]. rewrite (smp_postb_loaded _ _ _ _ _ _ _ _ _ EL), F. reflexivity.
Qed.

(* ---------- small list facts ---------- *)
Lemma Forall_byte_forallb l : Forall (fun b => 0 <= b <= 255) l -> forallb (fun o => (0 <=? o) && (o <=? 255)) l = true.
Proof.
  intros H. apply forallb_forall. intros x Hx. rewrite Forall_forall in H. specialize (H x Hx).
  apply andb_true_intro; split; apply Z.leb_le; lia.
Qed.

Lemma nth_byte l k : Forall (fun b => 0 <= b <= 255) l -> 0 <= nth k l 0 <= 255.
Proof.
  intros H. destruct (Nat.lt_ge_cases k (length l)) as [Hk|Hk].
  - rewrite Forall_forall in H. apply H. apply nth_In. exact Hk.
  - rewrite nth_overflow by exact Hk. lia.
Qed.

(* xxo[] has 256 entries, the file fills the first 128, the loader declares `len` of them *)
Lemma xxo_len orders len : length orders = 128%nat -> 0 <= len <= 255 ->
  zlen (firstn (Z.to_nat len) (orders ++ repeat 0 128)) = len.
Proof.
  intros Lord Hlen. apply firstn_zlen; [lia|]. unfold zlen. rewrite app_length, repeat_length, Lord. lia.
Qed.
Lemma xxo_bytes orders n : Forall (fun b => 0 <= b <= 255) orders ->
  forallb (fun o => (0 <=? o) && (o <=? 255)) (firstn n (orders ++ repeat 0 128)) = true.
Proof.
  intros Ford. apply forallb_firstn. rewrite forallb_app. rewrite (Forall_byte_forallb _ Ford). reflexivity.
Qed.

Theorem mod_loader_establishes_post : forall ptk file r,
  Forall (fun b => 0 <= b <= 255) file -> mod_raw ptk file = Some r -> loader_postb r = true.
Proof.
  intros ptk file r Hb H. unfold mod_raw in H.
  destruct (take 20 file) as [[t0 l1]|] eqn:E1; [|discriminate].
  destruct (dec_many dec_inst 31 l1) as [[ins l2]|] eqn:E2; [|discriminate].
  destruct (take 2 l2) as [[lr l3]|] eqn:E3; [|discriminate].
  destruct (take 128 l3) as [[orders l4]|] eqn:E4; [|discriminate].
  destruct (take 4 l4) as [[mg l5]|] eqn:E5; [|discriminate].
  destruct (negb (list_eqb mg ModCodec.magic)); [discriminate|].
  cbv zeta in H.
  set (pat := max_order orders 0 + 1) in H.
  set (wow := negb (existsb _ ins) && _ && _) in H.
  set (chn := if wow then 8 else 4) in H.
  set (ptsong := negb _ && negb wow && _) in H.
  assert (Hchn : chn = 4 \/ chn = 8) by (unfold chn; destruct wow; auto).
  clearbody chn ptsong. clear wow.
  destruct (Z.of_nat (length l5) <? pat * 256 * chn); [discriminate|].
  destruct (load_smps ptk ptsong ins file (1084 + pat * 256 * chn)) as [smps|] eqn:ES; [|discriminate].
  injection H as <-.
  (* what is known about the header fields: they are bytes of the file *)
  destruct (take_Forall _ _ _ _ _ E1 Hb) as [_ F1].
  destruct (dec_many_inst_spec _ _ _ _ _ E2 F1) as [Lins F2].
  destruct (take_Forall _ _ _ _ _ E3 F2) as [Flr F3].
  destruct (take_Forall _ _ _ _ _ E4 F3) as [Ford _].
  destruct (take_spec _ _ _ _ E4) as [Lord _].
  pose proof (nth_byte lr 0 Flr) as Hlen. pose proof (nth_byte lr 1 Flr) as Hrst.
  set (len := nth 0 lr 0) in *. set (restart := nth 1 lr 0) in *.
  assert (Hpat : 1 <= pat <= 128) by (unfold pat; pose proof (max_order_range orders 0 ltac:(lia)); lia).
  clearbody pat len restart.
  destruct (load_smps_post _ _ _ _ _ _ ES) as [Lsmps Fsmps].
  unfold loader_postb.
  cbn [r_m d_chn d_len d_pat d_trk d_ins d_smp d_rst d_name_ok d_type_ok d_xxo d_chans d_pats d_trks d_inss d_smps].
  (* the clauses, last to first *)
  apply andb_true_intro; split; [|reflexivity].                      (* d_type_ok *)
  apply andb_true_intro; split; [|reflexivity].                      (* d_name_ok *)
  apply andb_true_intro; split; [|exact Fsmps].                      (* samples *)
  apply andb_true_intro; split.
  2:{ (* instruments *)
      rewrite forallb_map. apply forallb_forall. intros i _. destruct (0 <? i_len i); reflexivity. }
  apply andb_true_intro; split.
  2:{ (* tracks *)
      apply forallb_forall. intros x Hx. apply repeat_spec in Hx. subst x. reflexivity. }
  apply andb_true_intro; split.
  2:{ (* patterns *)
      rewrite forallb_map. apply forallb_forall. intros p _. cbn [p_rows p_index]. unfold zlen. rewrite map_length, seq_length.
      apply andb_true_intro; split; [reflexivity|apply Z.eqb_eq; lia]. }
  apply andb_true_intro; split.
  2:{ (* channel table *)
      unfold zlen, default_chans. rewrite map_length, seq_length. apply Z.leb_le. lia. }
  apply andb_true_intro; split.
  2:{ unfold zlen. rewrite Lsmps, Lins. reflexivity. }
  apply andb_true_intro; split.
  2:{ unfold zlen. rewrite map_length, Lins. reflexivity. }
  apply andb_true_intro; split.
  2:{ unfold zlen. rewrite repeat_length. apply Z.eqb_eq. destruct Hchn as [-> | ->]; lia. }
  apply andb_true_intro; split.
  2:{ unfold zlen. rewrite map_length, seq_length. apply Z.eqb_eq. lia. }
  apply andb_true_intro; split.
  2:{ (* the order list has the declared length *)
      apply Z.eqb_eq. apply xxo_len; [exact Lord|lia]. }
  apply andb_true_intro; split.
  2:{ (* the order list holds bytes *)
      apply xxo_bytes. exact Ford. }
  apply andb_true_intro; split; [|reflexivity].                      (* d_smp <= 1024 *)
  apply andb_true_intro; split; [|reflexivity].                      (* d_ins <= 255 *)
  apply andb_true_intro; split; [|apply Z.leb_le; lia].              (* d_pat <= 257 *)
  apply andb_true_intro; split.
  2:{ destruct ((restart <? 127) && negb (restart =? 120) && (restart <? len)); apply Z.leb_le; lia. }
  apply andb_true_intro; split.
  2:{ apply Z.leb_le. destruct Hchn as [-> | ->]; lia. }
  apply andb_true_intro; split; [|reflexivity].                      (* 0 <= d_smp *)
  apply andb_true_intro; split; [|reflexivity].                      (* 0 <= d_ins *)
  apply andb_true_intro; split; [|apply Z.leb_le; lia].              (* 0 <= d_pat *)
  apply andb_true_intro; split; [|apply Z.leb_le; lia].              (* 0 <= d_len *)
  apply Z.leb_le. destruct Hchn as [-> | ->]; lia.
Qed.

Corollary mod_loaded_module_is_wf : forall ptk file r m,
  Forall (fun b => 0 <= b <= 255) file -> mod_raw ptk file = Some r -> finish r = Some m -> wf_noseq m = true.
Proof.
  intros ptk file r m Hb Hr Hf. apply (gate_wf r m Hf). apply (mod_loader_establishes_post ptk file r Hb Hr).
Qed.

Print Assumptions mod_loader_establishes_post.
Print Assumptions mod_loaded_module_is_wf.
