From Coq Require Import ZArith List Lia Bool.
Import ListNotations.
From LX Require Import Generated.Tables Model.Crc.
Local Open Scope Z_scope.

Lemma table32_is_polynomial : crc32_A_table = make_table 3988292384.   (* 0xEDB88320 *)
Proof. vm_compute. reflexivity. Qed.
Lemma table16_is_polynomial : crc16_IBM_table = make_table 40961.     (* 0xA001 *)
Proof. vm_compute. reflexivity. Qed.

Lemma land255 x : Z.land x 255 = x mod 256.
Proof. change 255 with (Z.ones 8). rewrite Z.land_ones by lia. reflexivity. Qed.
Lemma land_lxor_distr_l a b c : Z.land (Z.lxor a b) c = Z.lxor (Z.land a c) (Z.land b c).
Proof. apply Z.bits_inj'. intros n Hn. rewrite !Z.land_spec, !Z.lxor_spec, !Z.land_spec.
  destruct (Z.testbit a n), (Z.testbit b n), (Z.testbit c n); reflexivity. Qed.
Lemma xor_cancel t a b : Z.lxor t a = Z.lxor t b -> a = b.
Proof. intros E. apply (f_equal (Z.lxor t)) in E. rewrite <- !Z.lxor_assoc, Z.lxor_nilpotent, !Z.lxor_0_l in E. exact E. Qed.
Lemma xor_cancel2 t a b : Z.lxor a t = Z.lxor b t -> a = b.
Proof. rewrite !(Z.lxor_comm _ t). apply xor_cancel. Qed.
Lemma lxor_bound W a b : 0 < W -> 0 <= a < 2 ^ W -> 0 <= b < 2 ^ W -> 0 <= Z.lxor a b < 2 ^ W.
Proof.
  intros HW Ha Hb. assert (Hnn : 0 <= Z.lxor a b) by (apply Z.lxor_nonneg; lia). split; [exact Hnn|].
  destruct (Z.eq_dec (Z.lxor a b) 0) as [->|Hn]; [apply Z.pow_pos_nonneg; lia|].
  apply Z.log2_lt_pow2; [lia|].
  pose proof (Z.log2_lxor a b ltac:(lia) ltac:(lia)).
  assert (Z.log2 a < W). { destruct (Z.eq_dec a 0) as [->|]; [simpl; lia|]. apply Z.log2_lt_pow2; lia. }
  assert (Z.log2 b < W). { destruct (Z.eq_dec b 0) as [->|]; [simpl; lia|]. apply Z.log2_lt_pow2; lia. }
  lia.
Qed.

(* generic argument over a table whose entries are W-bit and whose top bytes are pairwise distinct *)
Section Generic.
Variable tab : list Z.
Variable W : Z.
Variable inv_top : list Z.
Hypothesis HW : 16 <= W.
Definition top (x : Z) := Z.shiftr x (W - 8).
Definition T (i : Z) : Z := nth (Z.to_nat i) tab 0.
Hypothesis T_spec : forall i, 0 <= i < 256 -> 0 <= T i < 2 ^ W /\ nth (Z.to_nat (top (T i))) inv_top (-1) = i.

Definition st (s : Z) := 0 <= s < 2 ^ W.
Definition byte (c : Z) := 0 <= c < 256.
Definition idx (s c : Z) := Z.lxor c (Z.land s 255).

Lemma idx_range s c : byte c -> 0 <= idx s c < 256.
Proof.
  intros Hc. unfold idx. rewrite land255. change 256 with (2 ^ 8). apply lxor_bound; [lia|exact Hc|].
  change (2 ^ 8) with 256. apply Z.mod_pos_bound. lia.
Qed.

Lemma step_eq s c : crc_step tab s c = Z.lxor (T (idx s c)) (Z.shiftr s 8).
Proof. reflexivity. Qed.

Lemma shr8_small s : st s -> 0 <= Z.shiftr s 8 < 2 ^ (W - 8).
Proof.
  intros Hs. rewrite Z.shiftr_div_pow2 by lia. unfold st in Hs.
  replace (2 ^ W) with (2 ^ (W - 8) * 2 ^ 8) in Hs by (rewrite <- Z.pow_add_r by lia; f_equal; lia).
  split; [apply Z.div_pos; lia|]. apply Z.div_lt_upper_bound; lia.
Qed.

Lemma step_top s c : st s -> byte c -> top (crc_step tab s c) = top (T (idx s c)).
Proof.
  intros Hs Hc. rewrite step_eq. unfold top. rewrite Z.shiftr_lxor.
  replace (Z.shiftr (Z.shiftr s 8) (W - 8)) with 0; [apply Z.lxor_0_r|].
  symmetry. rewrite (Z.shiftr_div_pow2 _ (W - 8)) by lia. apply Z.div_small. apply shr8_small. exact Hs.
Qed.

Lemma step_st s c : st s -> byte c -> st (crc_step tab s c).
Proof.
  intros Hs Hc. rewrite step_eq. destruct (T_spec _ (idx_range s c Hc)) as [Ht _].
  apply lxor_bound; [lia|exact Ht|]. pose proof (shr8_small s Hs) as H.
  assert (2 ^ (W - 8) <= 2 ^ W) by (apply Z.pow_le_mono_r; lia). lia.
Qed.

Lemma idx_eq s1 s2 c1 c2 : st s1 -> st s2 -> byte c1 -> byte c2 ->
  crc_step tab s1 c1 = crc_step tab s2 c2 -> idx s1 c1 = idx s2 c2.
Proof.
  intros H1 H2 Hc1 Hc2 E. pose proof (f_equal top E) as Et. rewrite !step_top in Et by assumption.
  destruct (T_spec _ (idx_range s1 c1 Hc1)) as [_ A]. destruct (T_spec _ (idx_range s2 c2 Hc2)) as [_ B].
  rewrite <- A, <- B, Et. reflexivity.
Qed.

Lemma step_inj s1 s2 c : st s1 -> st s2 -> byte c -> crc_step tab s1 c = crc_step tab s2 c -> s1 = s2.
Proof.
  intros H1 H2 Hc E. pose proof (idx_eq _ _ _ _ H1 H2 Hc Hc E) as Ei.
  rewrite !step_eq, Ei in E. apply xor_cancel in E.
  unfold idx in Ei. apply xor_cancel in Ei. rewrite !land255 in Ei.
  rewrite !Z.shiftr_div_pow2 in E by lia. change (2 ^ 8) with 256 in E.
  rewrite (Z.div_mod s1 256), (Z.div_mod s2 256) by lia. rewrite E, Ei. reflexivity.
Qed.

Lemma step_byte_inj s c1 c2 : st s -> byte c1 -> byte c2 -> crc_step tab s c1 = crc_step tab s c2 -> c1 = c2.
Proof.
  intros Hs H1 H2 E. pose proof (idx_eq _ _ _ _ Hs Hs H1 H2 E) as Ei.
  unfold idx in Ei. apply xor_cancel2 in Ei. exact Ei.
Qed.

Lemma run_st data : Forall byte data -> forall s, st s -> st (crc_run tab s data).
Proof. induction 1 as [|c d Hc Hd IH]; intros s Hs; cbn [crc_run fold_left]; [exact Hs|]. apply IH. apply step_st; assumption. Qed.

Lemma run_inj data : Forall byte data -> forall s1 s2, st s1 -> st s2 -> s1 <> s2 -> crc_run tab s1 data <> crc_run tab s2 data.
Proof.
  induction 1 as [|c data Hc Hd IH]; intros s1 s2 H1 H2 Hne; cbn [crc_run fold_left]; [exact Hne|].
  apply IH; try (apply step_st; assumption). intro E. apply Hne. eapply step_inj; eauto.
Qed.

Lemma run_detects pre b b' post s0 : st s0 ->
  Forall byte pre -> byte b -> byte b' -> Forall byte post -> b <> b' ->
  crc_run tab s0 (pre ++ b :: post) <> crc_run tab s0 (pre ++ b' :: post).
Proof.
  intros H0 Hpre Hb Hb' Hpost Hne. unfold crc_run. rewrite !fold_left_app. cbn [fold_left].
  pose proof (run_st pre Hpre s0 H0) as Hs. unfold crc_run in Hs. set (s := fold_left (crc_step tab) pre s0) in *.
  apply (run_inj post Hpost); try (apply step_st; assumption).
  intro E. apply Hne. eapply step_byte_inj; eauto.
Qed.
End Generic.

(* instantiation: the two tables of crc32.c *)
Definition mk_inv_top (tab : list Z) (W : Z) : list Z :=
  map (fun h => match find (fun i => Z.eqb (Z.shiftr (nth i tab 0) (W - 8)) (Z.of_nat h)) (seq 0 256) with Some i => Z.of_nat i | None => -1 end) (seq 0 256).

Definition table_ok (tab : list Z) (W : Z) : bool :=
  let inv := mk_inv_top tab W in
  forallb (fun i => let t := nth i tab 0 in
     andb (andb (0 <=? t) (t <? 2 ^ W)) (Z.eqb (nth (Z.to_nat (Z.shiftr t (W - 8))) inv (-1)) (Z.of_nat i))) (seq 0 256).

Lemma table_ok_spec tab W : table_ok tab W = true ->
  forall i, 0 <= i < 256 -> 0 <= T tab i < 2 ^ W /\ nth (Z.to_nat (top W (T tab i))) (mk_inv_top tab W) (-1) = i.
Proof.
  intros H i Hi. unfold table_ok in H. cbv zeta in H. rewrite forallb_forall in H.
  specialize (H (Z.to_nat i)). assert (In (Z.to_nat i) (seq 0 256)) as Hin by (apply in_seq; lia).
  specialize (H Hin). apply andb_prop in H as [H1 H3]. apply andb_prop in H1 as [H1 H2].
  unfold T, top. rewrite Z2Nat.id in H3 by lia. split; [lia|]. apply Z.eqb_eq in H3. exact H3.
Qed.

Lemma table32_ok : table_ok crc32_A_table 32 = true. Proof. vm_compute. reflexivity. Qed.
Lemma table16_ok : table_ok crc16_IBM_table 16 = true. Proof. vm_compute. reflexivity. Qed.

Definition bytes (l : list Z) := Forall (fun c => 0 <= c < 256) l.

Lemma crc32_detects pre b b' post :
  bytes pre -> 0 <= b < 256 -> 0 <= b' < 256 -> bytes post -> b <> b' ->
  crc32_A (pre ++ b :: post) 0 <> crc32_A (pre ++ b' :: post) 0.
Proof.
  intros Hpre Hb Hb' Hpost Hne. unfold crc32_A, crc32_A_no_inv. intro E. apply xor_cancel2 in E. revert E.
  apply (run_detects crc32_A_table 32 (mk_inv_top crc32_A_table 32) ltac:(lia) (table_ok_spec _ _ table32_ok)); auto.
  unfold st. vm_compute. split; [discriminate|reflexivity].
Qed.

Lemma crc16_detects pre b b' post :
  bytes pre -> 0 <= b < 256 -> 0 <= b' < 256 -> bytes post -> b <> b' ->
  crc16_IBM (pre ++ b :: post) 0 <> crc16_IBM (pre ++ b' :: post) 0.
Proof.
  intros Hpre Hb Hb' Hpost Hne. unfold crc16_IBM.
  apply (run_detects crc16_IBM_table 16 (mk_inv_top crc16_IBM_table 16) ltac:(lia) (table_ok_spec _ _ table16_ok)); auto.
  unfold st. vm_compute. split; [discriminate|reflexivity].
Qed.

Lemma crc32_range buf : bytes buf -> 0 <= crc32_A buf 0 < 2 ^ 32.
Proof.
  intros Hb. unfold crc32_A, crc32_A_no_inv. apply lxor_bound; [lia| |vm_compute; split; [discriminate|reflexivity]].
  apply (run_st crc32_A_table 32 (mk_inv_top crc32_A_table 32) ltac:(lia) (table_ok_spec _ _ table32_ok)); auto.
  unfold st. vm_compute. split; [discriminate|reflexivity].
Qed.

(* gate soundness *)
Lemma gate32_sound p out : gate32 (crc32_A p 0) (Z.of_nat (length p)) out = true ->
  crc32_A out 0 = crc32_A p 0 /\ length out = length p.
Proof. unfold gate32. intros H. apply andb_prop in H as [A B]. apply Z.eqb_eq in A. apply Z.eqb_eq in B. split; [exact A|lia]. Qed.

Lemma gate32_rejects_substitution pre b b' post :
  bytes pre -> 0 <= b < 256 -> 0 <= b' < 256 -> bytes post -> b <> b' ->
  gate32 (crc32_A (pre ++ b :: post) 0) (Z.of_nat (length (pre ++ b :: post))) (pre ++ b' :: post) = false.
Proof.
  intros. unfold gate32. apply andb_false_iff. left. apply Z.eqb_neq. apply not_eq_sym. apply crc32_detects; auto.
Qed.
Lemma gate16_rejects_substitution pre b b' post :
  bytes pre -> 0 <= b < 256 -> 0 <= b' < 256 -> bytes post -> b <> b' ->
  gate16 (crc16_IBM (pre ++ b :: post) 0) (Z.of_nat (length (pre ++ b :: post))) (pre ++ b' :: post) = false.
Proof.
  intros. unfold gate16. apply andb_false_iff. left. apply Z.eqb_neq. apply not_eq_sym. apply crc16_detects; auto.
Qed.
(* a corrupted stored check field is rejected unless it is unchanged; a wrong length is rejected *)
Lemma gate32_field_corruption crc len out crc' len' :
  gate32 crc len out = true -> (crc' <> crc \/ len' <> len) -> gate32 crc' len' out = false.
Proof.
  unfold gate32. intros H D. apply andb_prop in H as [A B]. apply Z.eqb_eq in A. apply Z.eqb_eq in B.
  apply andb_false_iff. destruct D; [left|right]; apply Z.eqb_neq; congruence.
Qed.
