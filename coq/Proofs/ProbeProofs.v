From Coq Require Import ZArith List Lia Bool.
Import ListNotations.
From LX Require Import Model.Probe.
Local Open Scope Z_scope.

(* ---- recognition ---- *)
Lemma test_load_agree p tbl : fst (fst (test_module p tbl)) = expected_test (load_module p tbl).
Proof.
  unfold test_module, load_module, expected_test. destruct p; try reflexivity.
  destruct (first_match tbl) as [f|]; [|reflexivity]. destruct (f_load_ok f); reflexivity.
Qed.

Lemma test_zero_iff p tbl : fst (fst (test_module p tbl)) = 0 <-> (load_module p tbl = 0 \/ load_module p tbl = E_LOAD).
Proof.
  unfold test_module, load_module. destruct p; cbn; try (split; [discriminate|intros [H|H]; discriminate]).
  destruct (first_match tbl) as [f|]; cbn.
  - destruct (f_load_ok f); split; auto.
  - split; [discriminate|intros [H|H]; discriminate].
Qed.

Lemma test_format_iff p tbl : fst (fst (test_module p tbl)) = E_FORMAT <-> load_module p tbl = E_FORMAT.
Proof.
  unfold test_module, load_module. destruct p; cbn; try (split; discriminate).
  destruct (first_match tbl) as [f|]; cbn; [destruct (f_load_ok f); split; discriminate|split; auto].
Qed.

Lemma test_failure_empty p tbl : fst (fst (test_module p tbl)) <> 0 -> snd (fst (test_module p tbl)) = [] /\ snd (test_module p tbl) = [].
Proof. unfold test_module. destruct p; cbn; auto. destruct (first_match tbl); cbn; auto. congruence. Qed.

(* ---- titles ---- *)
Lemma strip_nil_iff l : strip l = [] <-> Forall (fun c => c = 32) l.
Proof.
  induction l as [|c t IH]; cbn; [split; auto|].
  destruct (strip t) as [|x r] eqn:E.
  - destruct (Z.eqb_spec c 32) as [->|Hn]; split; intros H; auto.
    + constructor; [reflexivity|apply IH; reflexivity].
    + discriminate.
    + inversion H; subst. congruence.
  - split; [discriminate|]. intros H. inversion H; subst. apply IH in H3. discriminate.
Qed.

Lemma strip_Forall (P : Z -> Prop) l : Forall P l -> Forall P (strip l).
Proof.
  induction 1 as [|c t Hc Ht IH]; cbn; [constructor|].
  destruct (strip t) as [|x r]; [destruct (c =? 32); constructor; auto|constructor; auto].
Qed.

Lemma strip_length l : (length (strip l) <= length l)%nat.
Proof. induction l as [|c t IH]; cbn; [lia|]. destruct (strip t); [destruct (c =? 32); cbn; lia|cbn in *; lia]. Qed.

Lemma strip_last l : strip l <> [] -> last (strip l) 0 <> 32.
Proof.
  induction l as [|c t IH]; cbn; [congruence|]. destruct (strip t) as [|x r] eqn:E.
  - destruct (Z.eqb_spec c 32); [congruence|]. cbn. intros _. assumption.
  - intros _. change (last (c :: x :: r) 0) with (last (x :: r) 0). apply IH. congruence.
Qed.

Lemma strip_idem l : strip (strip l) = strip l.
Proof.
  induction l as [|c t IH]; cbn; [reflexivity|]. destruct (strip t) as [|x r] eqn:E.
  - destruct (Z.eqb_spec c 32) as [->|Hn]; [reflexivity|]. cbn. destruct (Z.eqb_spec c 32); [congruence|reflexivity].
  - change (strip (c :: x :: r)) with (match strip (x :: r) with [] => if c =? 32 then [] else [c] | r0 => c :: r0 end). rewrite IH. reflexivity.
Qed.

(* stripping before or after a map that keeps spaces spaces gives the same result once stripped again *)
Lemma strip_map_strip (g : Z -> Z) l : g 32 = 32 -> strip (map g (strip l)) = strip (map g l).
Proof.
  intros Hg. induction l as [|c t IH]; [reflexivity|]. cbn [strip map].
  destruct (strip t) as [|x r] eqn:E.
  - cbn [map strip] in IH. destruct (Z.eqb_spec c 32) as [->|Hn].
    + cbn [map strip]. rewrite <- IH, Hg. reflexivity.
    + cbn [map strip]. rewrite <- IH. reflexivity.
  - cbn [map strip]. rewrite <- IH. cbn [map]. reflexivity.
Qed.

Lemma cstr_no_zero l : Forall (fun c => c <> 0) l -> cstr l = l.
Proof. induction 1 as [|c t Hc Ht IH]; cbn; [reflexivity|]. destruct (Z.eqb_spec c 0); [congruence|]. rewrite IH. reflexivity. Qed.
Lemma cstr_Forall l : Forall (fun c => c <> 0) (cstr l).
Proof. induction l as [|c t IH]; cbn; [constructor|]. destruct (Z.eqb_spec c 0); [constructor|constructor; assumption]. Qed.

Lemma printable_spec c : printable c = true <-> 32 <= c <= 126.
Proof. unfold printable. rewrite andb_true_iff, !Z.leb_le. tauto. Qed.

Lemma copy_adjust_printable r n : Forall (fun c => printable c = true) (copy_adjust r n).
Proof.
  unfold copy_adjust. apply strip_Forall. rewrite Forall_map. apply Forall_forall. intros c _.
  destruct (printable c) eqn:E; [exact E|reflexivity].
Qed.

Lemma cstr_length l : (length (cstr l) <= length l)%nat.
Proof. induction l as [|c t IH]; cbn; [lia|]. destruct (c =? 0); cbn; lia. Qed.

Lemma copy_adjust_length r n : (length (copy_adjust r n) <= n)%nat.
Proof.
  unfold copy_adjust. eapply Nat.le_trans; [apply strip_length|]. rewrite map_length.
  eapply Nat.le_trans; [apply cstr_length|]. apply firstn_le_length.
Qed.

Lemma adjust_of_copy_adjust r n : adjust_string (copy_adjust r n) = copy_adjust r n.
Proof.
  unfold adjust_string. pose proof (copy_adjust_printable r n) as P. set (x := copy_adjust r n) in *.
  rewrite cstr_no_zero.
  - rewrite (map_ext_in _ (fun c => c)); [rewrite map_id|]; [unfold x, copy_adjust; apply strip_idem|].
    intros c Hc. rewrite Forall_forall in P. rewrite (P c Hc). reflexivity.
  - eapply Forall_impl; [|exact P]. cbn. intros c Hc. apply printable_spec in Hc. lia.
Qed.

Lemma canon_copy_vs_adjust r n : canon (copy_adjust r n) = canon (adjust_string (firstn n r)).
Proof.
  unfold canon, copy_adjust, adjust_string.
  set (x := cstr (firstn n r)).
  set (g := fun c => if (c =? 46) || negb (printable c) then 32 else c).
  assert (Hg : g 32 = 32) by reflexivity.
  assert (NZ1 : forall f, (forall c, f c <> 0) -> cstr (strip (map f x)) = strip (map f x)).
  { intros f Hf. apply cstr_no_zero. apply strip_Forall. rewrite Forall_map. apply Forall_forall. intros c _. apply Hf. }
  rewrite (NZ1 (fun c => if printable c then c else 46)), (NZ1 (fun c => if printable c then c else 32)).
  - rewrite !(strip_map_strip g) by exact Hg. rewrite !map_map. f_equal. apply map_ext. intros c. unfold g.
    destruct (printable c) eqn:P; [reflexivity|]. cbn. reflexivity.
  - intros c. destruct (printable c) eqn:P; [apply printable_spec in P; lia|discriminate].
  - intros c. destruct (printable c) eqn:P; [apply printable_spec in P; lia|discriminate].
Qed.
